import LiquidVerif.Model.TagAudit
/-! Helper lemmas for the tag-audit model (C21). -/
namespace LiquidVerif.TagAudit

/-- the main loop of `_audit_tags` never fails: `pop` is only reached with a non-empty stack -/
theorem loop_ok (tbl : EnvTable) (isB isE : TagName → Bool) :
    ∀ (ts st : List TagName) (r : Report), ∃ p, loop tbl isB isE ts st r = .ok p := by
  intro ts
  induction ts with
  | nil => intro st r; exact ⟨(st, r), rfl⟩
  | cons t ts ih =>
    intro st r
    unfold loop
    by_cases hB : isB t = true
    · simp only [hB, if_true]; exact ih _ _
    · simp only [hB]
      by_cases hE : isE t = true
      · simp only [hE, if_true]
        cases st with
        | nil => simp only [List.isEmpty_nil, if_true]; exact ih _ _
        | cons s st' => simp only [List.isEmpty_cons, pyPop]; exact ih _ _
      · simp only [hE]; exact ih _ _

end LiquidVerif.TagAudit

namespace LiquidVerif.TagAudit

/-! ## Consistency of an environment table with the hand-written grammar -/

/-- inner tags the parser accepts somewhere inside a frame of this family -/
def Frame.familyInners : Frame → List TagName
  | .condThen .. | .condElse .. | .condJunk .. => [nm "elsif", nm "else"]
  | .caseStart | .caseBranch => [nm "when", nm "else"]
  | .forBody | .forElse => [nm "else"]
  | .transMsg | .transPlural => [nm "plural"]
  | .simple .. | .skip .. => []

/-- the audit's tables agree with what the parser does for this frame: the closing tag the parser
hard-codes is `"end" + name`, is a registered end tag of a registered block, and every inner tag the
parser accepts inside it is allowed there by the inner-tag map -/
def Frame.isJunk : Frame → Bool
  | .condJunk .. => true
  | _ => false

def goodFrame (tbl : EnvTable) (f : Frame) : Bool :=
  !f.isJunk && f.name.ends == 0 && f.endT == f.name.endOf
  && (registeredBlocks tbl).contains f.name && (registeredEnds tbl).contains f.endT
  && f.familyInners.all (fun t => (enclosing tbl t).contains f.name)

def infoOK (tbl : EnvTable) (i : TagInfo) : Bool :=
  match dispatch i with
  | .openF f => i.block && i.name == i.key && f.name == i.key && f.endT == i.endTag && goodFrame tbl f
      && i.key != nm "break" && i.key != nm "continue"
  | .inline => !i.block && i.name == i.key && i.key.ends == 0
      && (!(i.key == nm "break" || i.key == nm "continue") || (enclosing tbl i.key).contains (nm "for"))
  | .bad => !i.block

/-- decidable side condition tying a generated table to the grammar model (kernel-evaluated for
`defaultEnv` and `extraEnv` on every run) -/
def consistent (tbl : EnvTable) : Bool :=
  tbl.tags.all (infoOK tbl)
  && tbl.tags.all (fun i => tbl.tags.all (fun j => !(i.name == j.name) || i.block == j.block))
  && [nm "else", nm "elsif", nm "when", nm "plural"].all (fun t => !(registeredBlocks tbl).contains t)

/-- what one accepted step of the restricted parser means for the audit -/
inductive StepKind (tbl : EnvTable) (pst : List Frame) (t : TagName) (pst' : List Frame) : Prop
  | close (f : Frame) (rest : List Frame) :
      pst = f :: rest → pst' = rest → t = f.endT → StepKind tbl pst t pst'
  | inner (f f' : Frame) (rest : List Frame) :
      pst = f :: rest → pst' = f' :: rest → f'.name = f.name → goodFrame tbl f' = true →
      t.ends = 0 → (registeredBlocks tbl).contains t = false →
      (enclosing tbl t).contains f.name = true → StepKind tbl pst t pst'
  | open_ (f' : Frame) :
      pst' = f' :: pst → f'.name = t → goodFrame tbl f' = true →
      (registered tbl).contains t = true → (registeredBlocks tbl).contains t = true →
      StepKind tbl pst t pst'
  | inline :
      pst' = pst → t.ends = 0 → (registeredBlocks tbl).contains t = false →
      ((registered tbl).contains t = true ∨
        ((enclosing tbl t).contains (nm "for") = true ∧ ∃ f ∈ pst, f.name = nm "for")) →
      StepKind tbl pst t pst'

theorem consistent_info {tbl : EnvTable} (hc : consistent tbl = true) {i : TagInfo} (hi : i ∈ tbl.tags) :
    infoOK tbl i = true := by
  simp only [consistent, Bool.and_eq_true, List.all_eq_true] at hc
  exact hc.1.1 i hi

theorem consistent_names {tbl : EnvTable} (hc : consistent tbl = true) {i j : TagInfo}
    (hi : i ∈ tbl.tags) (hj : j ∈ tbl.tags) (h : i.name = j.name) : i.block = j.block := by
  simp only [consistent, Bool.and_eq_true, List.all_eq_true] at hc
  have := hc.1.2 i hi j hj
  simpa [h] using this

theorem findTag_some {tbl : EnvTable} {t : TagName} {i : TagInfo} (h : findTag tbl t = some i) :
    i ∈ tbl.tags ∧ i.key = t := by
  unfold findTag at h
  refine ⟨List.mem_of_find?_eq_some h, ?_⟩
  have := List.find?_some h
  simpa using this

theorem mem_registered {tbl : EnvTable} {i : TagInfo} (hi : i ∈ tbl.tags)
    (hb : i.key ≠ nm "break") (hcn : i.key ≠ nm "continue") : (registered tbl).contains i.key = true := by
  rw [List.contains_iff_mem]
  unfold registered
  rw [List.mem_filter]
  refine ⟨List.mem_map_of_mem hi, ?_⟩
  simp [hb, hcn]

theorem mem_registeredBlocks {tbl : EnvTable} {i : TagInfo} (hi : i ∈ tbl.tags) (hb : i.block = true) :
    (registeredBlocks tbl).contains i.name = true := by
  rw [List.contains_iff_mem]
  unfold registeredBlocks
  exact List.mem_map_of_mem (List.mem_filter.mpr ⟨hi, hb⟩)

theorem not_mem_registeredBlocks {tbl : EnvTable} (hc : consistent tbl = true) {i : TagInfo}
    (hi : i ∈ tbl.tags) (hb : i.block = false) : (registeredBlocks tbl).contains i.name = false := by
  rw [Bool.eq_false_iff]
  intro h
  rw [List.contains_iff_mem] at h
  unfold registeredBlocks at h
  obtain ⟨j, hj, hn⟩ := List.mem_map.mp h
  obtain ⟨hj, hjb⟩ := List.mem_filter.mp hj
  have := consistent_names hc hj hi hn
  simp_all

theorem isFor_name {f : Frame} (h : f.isFor = true) : f.name = nm "for" := by
  cases f <;> simp_all [Frame.isFor, Frame.name]

theorem dispatchTok_kind {tbl : EnvTable} (hc : consistent tbl = true) {pst pst' : List Frame} {t : TagName}
    (h : dispatchTok tbl Opts.restricted pst t = some pst') : StepKind tbl pst t pst' := by
  unfold dispatchTok at h
  split at h
  · cases h
  · rename_i info hf
    obtain ⟨hmem, hkey⟩ := findTag_some hf
    have hok := consistent_info hc hmem
    unfold infoOK at hok
    split at h
    · cases h
    · -- inline
      rename_i hd
      simp only [hd, Bool.and_eq_true, Bool.not_eq_true', beq_iff_eq, Bool.or_eq_true] at hok
      obtain ⟨⟨⟨hnb, hname⟩, hends⟩, hbr⟩ := hok
      split at h
      · cases h
      · rename_i hcond
        cases h
        refine .inline rfl (hkey ▸ hends) ?_ ?_
        · have := not_mem_registeredBlocks hc hmem hnb
          rw [hname, hkey] at this; exact this
        · by_cases hbc : t = nm "break" ∨ t = nm "continue"
          · right
            have hfor : (pst.any (·.isFor)) = true := by
              have hbc' : (t == nm "break" || t == nm "continue") = true := by
                rcases hbc with h | h <;> simp [h]
              simp only [Opts.restricted, hbc', Bool.not_false, Bool.and_true, Bool.true_and,
                Bool.not_eq_true', Bool.not_eq_false] at hcond
              simpa using hcond
            refine ⟨?_, ?_⟩
            · rcases hbr with hbr | hbr
              · rw [hkey] at hbr; simp at hbr; exact absurd hbc (by simp [hbr.1, hbr.2])
              · rw [hkey] at hbr; exact hbr
            · obtain ⟨f, hf, hff⟩ := List.any_eq_true.mp hfor
              exact ⟨f, hf, isFor_name hff⟩
          · left
            have := mem_registered hmem (by rw [hkey]; exact fun e => hbc (Or.inl e))
              (by rw [hkey]; exact fun e => hbc (Or.inr e))
            rw [hkey] at this; exact this
    · -- openF
      rename_i f hd
      simp only [hd, Bool.and_eq_true, beq_iff_eq, bne_iff_ne, ne_eq] at hok
      obtain ⟨⟨⟨⟨⟨⟨hb, hname⟩, hfn⟩, _hfe⟩, hgood⟩, hnb⟩, hnc⟩ := hok
      split at h
      · cases h
      · cases h
        refine .open_ f rfl (hfn.trans hkey) hgood ?_ ?_
        · have := mem_registered hmem hnb hnc
          rw [hkey] at this; exact this
        · have := mem_registeredBlocks hmem hb
          rw [hname, hkey] at this; exact this

end LiquidVerif.TagAudit

namespace LiquidVerif.TagAudit

theorem consistent_inner {tbl : EnvTable} (hc : consistent tbl = true) {t : TagName}
    (ht : t ∈ [nm "else", nm "elsif", nm "when", nm "plural"]) : (registeredBlocks tbl).contains t = false := by
  simp only [consistent, Bool.and_eq_true, List.all_eq_true] at hc
  have := hc.2 t ht
  simpa using this

theorem good_inner {tbl : EnvTable} {f : Frame} (hg : goodFrame tbl f = true) {t : TagName}
    (ht : t ∈ f.familyInners) : (enclosing tbl t).contains f.name = true := by
  simp only [goodFrame, Bool.and_eq_true, List.all_eq_true] at hg
  exact hg.2 t ht

/-- goodness only looks at the frame's name, end tag and family -/
theorem good_of_same {tbl : EnvTable} {f f' : Frame} (hg : goodFrame tbl f = true)
    (hn : f'.name = f.name) (he : f'.endT = f.endT) (hi : f'.familyInners = f.familyInners)
    (hj : f'.isJunk = false) : goodFrame tbl f' = true := by
  simp only [goodFrame, hn, he, hi, hj, Bool.and_eq_true] at hg ⊢
  exact ⟨⟨⟨⟨⟨rfl, hg.1.1.1.1.2⟩, hg.1.1.1.2⟩, hg.1.1.2⟩, hg.1.2⟩, hg.2⟩

theorem pstep_kind {tbl : EnvTable} (hc : consistent tbl = true) {pst pst' : List Frame} {t : TagName}
    (hg : ∀ f ∈ pst, goodFrame tbl f = true)
    (h : pstep tbl Opts.restricted pst t = some pst') : StepKind tbl pst t pst' := by
  unfold pstep at h
  cases pst with
  | nil => exact dispatchTok_kind hc h
  | cons f rest =>
    have hgf := hg f (List.mem_cons_self ..)
    have inner_step : ∀ (f' : Frame), f'.name = f.name → f'.endT = f.endT → f'.familyInners = f.familyInners →
        f'.isJunk = false → t ∈ f.familyInners → t ∈ [nm "else", nm "elsif", nm "when", nm "plural"] →
        StepKind tbl (f :: rest) t (f' :: rest) := by
      intro f' hn he hi hj ht ht'
      refine .inner f f' rest rfl rfl hn (good_of_same hgf hn he hi hj) ?_ (consistent_inner hc ht') (good_inner hgf ht)
      simp only [List.mem_cons, List.not_mem_nil, or_false] at ht'
      rcases ht' with h | h | h | h <;> simp [h, nm]
    cases f with
    | condThen n e lax =>
      simp only at h
      split at h
      · rename_i hte; cases h; exact .close _ _ rfl rfl (by simpa [Frame.endT] using hte)
      · split at h
        · rename_i hte; cases h
          have : t = nm "elsif" := by simpa using hte
          subst this
          exact inner_step _ rfl rfl rfl rfl (by simp [Frame.familyInners]) (by simp)
        · split at h
          · rename_i hte; cases h
            have : t = nm "else" := by simpa using hte
            subst this
            exact inner_step _ rfl rfl rfl rfl (by simp [Frame.familyInners]) (by simp)
          · exact dispatchTok_kind hc h
    | condElse n e lax =>
      simp only at h
      split at h
      · rename_i hte; cases h; exact .close _ _ rfl rfl (by simpa [Frame.endT] using hte)
      · split at h
        · simp [Opts.restricted] at h
        · exact dispatchTok_kind hc h
    | condJunk n e =>
      simp only at h
      split at h
      · rename_i hte; cases h; exact .close _ _ rfl rfl (by simpa [Frame.endT] using hte)
      · -- a junk frame is never good (it does not arise in the restricted grammar)
        simp [goodFrame, Frame.isJunk] at hgf
    | caseStart =>
      simp only at h
      split at h
      · rename_i hte; cases h; exact .close _ _ rfl rfl (by simpa [Frame.endT] using hte)
      · split at h
        · rename_i hte
          split at h
          · cases h
          · cases h
            have : t = nm "when" ∨ t = nm "else" := by simpa using hte
            rcases this with h | h <;> subst h
            · exact inner_step _ rfl rfl rfl rfl (by simp [Frame.familyInners]) (by simp)
            · exact inner_step _ rfl rfl rfl rfl (by simp [Frame.familyInners]) (by simp)
        · cases h
    | caseBranch =>
      simp only at h
      split at h
      · rename_i hte; cases h; exact .close _ _ rfl rfl (by simpa [Frame.endT] using hte)
      · split at h
        · rename_i hte; cases h
          have : t = nm "when" ∨ t = nm "else" := by simpa using hte
          rcases this with h | h <;> subst h
          · exact inner_step _ rfl rfl rfl rfl (by simp [Frame.familyInners]) (by simp)
          · exact inner_step _ rfl rfl rfl rfl (by simp [Frame.familyInners]) (by simp)
        · exact dispatchTok_kind hc h
    | forBody =>
      simp only at h
      split at h
      · rename_i hte; cases h; exact .close _ _ rfl rfl (by simpa [Frame.endT] using hte)
      · split at h
        · rename_i hte; cases h
          have : t = nm "else" := by simpa using hte
          subst this
          exact inner_step _ rfl rfl rfl rfl (by simp [Frame.familyInners]) (by simp)
        · exact dispatchTok_kind hc h
    | forElse =>
      simp only at h
      split at h
      · rename_i hte; cases h; exact .close _ _ rfl rfl (by simpa [Frame.endT] using hte)
      · exact dispatchTok_kind hc h
    | simple n e =>
      simp only at h
      split at h
      · rename_i hte; cases h; exact .close _ _ rfl rfl (by simpa [Frame.endT] using hte)
      · exact dispatchTok_kind hc h
    | transMsg =>
      simp only at h
      split at h
      · rename_i hte; cases h; exact .close _ _ rfl rfl (by simpa [Frame.endT] using hte)
      · split at h
        · rename_i hte; cases h
          have : t = nm "plural" := by simpa using hte
          subst this
          exact inner_step _ rfl rfl rfl rfl (by simp [Frame.familyInners]) (by simp)
        · cases h
    | transPlural =>
      simp only at h
      split at h
      · rename_i hte; cases h; exact .close _ _ rfl rfl (by simpa [Frame.endT] using hte)
      · cases h
    | skip n e noNest =>
      simp only at h
      split at h
      · cases h
      · split at h
        · rename_i hte; cases h; exact .close _ _ rfl rfl (by simpa [Frame.endT] using hte)
        · simp [Opts.restricted] at h

end LiquidVerif.TagAudit

namespace LiquidVerif.TagAudit

theorem stepKind_good {tbl : EnvTable} {pst pst' : List Frame} {t : TagName}
    (hk : StepKind tbl pst t pst') (hg : ∀ f ∈ pst, goodFrame tbl f = true) :
    ∀ f ∈ pst', goodFrame tbl f = true := by
  cases hk with
  | close f rest h1 h2 _ =>
    subst h1 h2; intro g hgm; exact hg g (List.mem_cons_of_mem _ hgm)
  | inner f f' rest h1 h2 _ hgood _ _ _ =>
    subst h1 h2; intro g hgm
    rcases List.mem_cons.mp hgm with h | h
    · subst h; exact hgood
    · exact hg g (List.mem_cons_of_mem _ h)
  | open_ f' h1 _ hgood _ _ =>
    subst h1; intro g hgm
    rcases List.mem_cons.mp hgm with h | h
    · subst h; exact hgood
    · exact hg g h
  | inline h1 _ _ _ => subst h1; exact hg

theorem good_name_ends {tbl : EnvTable} {f : Frame} (hg : goodFrame tbl f = true) : f.name.ends = 0 := by
  simp only [goodFrame, Bool.and_eq_true, beq_iff_eq] at hg
  exact hg.1.1.1.1.2

theorem good_endT {tbl : EnvTable} {f : Frame} (hg : goodFrame tbl f = true) : f.endT = f.name.endOf := by
  simp only [goodFrame, Bool.and_eq_true, beq_iff_eq] at hg
  exact hg.1.1.1.2

theorem good_regBlock {tbl : EnvTable} {f : Frame} (hg : goodFrame tbl f = true) :
    (registeredBlocks tbl).contains f.name = true := by
  simp only [goodFrame, Bool.and_eq_true] at hg
  exact hg.1.1.2

theorem good_regEnd {tbl : EnvTable} {f : Frame} (hg : goodFrame tbl f = true) :
    (registeredEnds tbl).contains f.endT = true := by
  simp only [goodFrame, Bool.and_eq_true] at hg
  exact hg.1.2

theorem unEnd_endOf (n : TagName) : n.endOf.unEnd = n := by
  cases n; simp [TagName.endOf, TagName.unEnd]

/-- an end tag the audit can fully explain: `"end" + b` for a registered block `b` whose registered end tag it is -/
def goodEnd (tbl : EnvTable) (e : TagName) : Prop :=
  e.ends = 1 ∧ (registeredBlocks tbl).contains e.unEnd = true ∧ (registeredEnds tbl).contains e = true

theorem good_goodEnd {tbl : EnvTable} {f : Frame} (hg : goodFrame tbl f = true) : goodEnd tbl f.endT := by
  refine ⟨?_, ?_, good_regEnd hg⟩
  · rw [good_endT hg]; simp [TagName.endOf, good_name_ends hg]
  · rw [good_endT hg, unEnd_endOf]; exact good_regBlock hg

theorem prun_cons {tbl : EnvTable} {o : Opts} {pst : List Frame} {t : TagName} {ts : List TagName}
    {res : List Frame} (h : prun tbl o pst (t :: ts) = some res) :
    ∃ pst', pstep tbl o pst t = some pst' ∧ prun tbl o pst' ts = some res := by
  unfold prun at h
  split at h
  · cases h
  · rename_i pst' hp; exact ⟨pst', hp, h⟩

/-- every end tag in a token list the restricted parser accepts closes a good frame -/
theorem run_ends_good {tbl : EnvTable} (hc : consistent tbl = true) :
    ∀ (ts : List TagName) (pst res : List Frame), (∀ f ∈ pst, goodFrame tbl f = true) →
      prun tbl Opts.restricted pst ts = some res → ∀ e ∈ ts, e.isEnd = true → goodEnd tbl e := by
  intro ts
  induction ts with
  | nil => intro _ _ _ _ e he; cases he
  | cons t ts ih =>
    intro pst res hg h e he hend
    obtain ⟨pst', hp, hr⟩ := prun_cons h
    have hk := pstep_kind hc hg hp
    rcases List.mem_cons.mp he with heq | hmem
    · subst heq
      have hne : e.ends ≠ 0 := by simpa [TagName.isEnd] using hend
      cases hk with
      | close f rest h1 _ h3 =>
        subst h1; rw [h3]; exact good_goodEnd (hg f (List.mem_cons_self ..))
      | inner _ _ _ _ _ _ _ h0 _ _ => exact absurd h0 hne
      | open_ f' _ hn hgood _ _ => exact absurd (hn ▸ good_name_ends hgood) hne
      | inline _ h0 _ _ => exact absurd h0 hne
    · exact ih pst' res (stepKind_good hk hg) hr e hmem hend

theorem check_clean {tbl : EnvTable} {t : TagName} {st : List TagName}
    (h : (registered tbl).contains t = true ∨
      ∃ b, (enclosing tbl t).contains b = true ∧ st.contains b = true) : check tbl t st {} = {} := by
  unfold check
  rcases h with h | ⟨b, hb, hs⟩
  · rw [if_pos h]
  · split
    · rfl
    · have hne : (enclosing tbl t).isEmpty = false := by
        cases hl : enclosing tbl t with
        | nil => rw [hl] at hb; simp at hb
        | cons _ _ => rfl
      have hany : ((enclosing tbl t).any fun b => st.contains b) = true :=
        List.any_eq_true.mpr ⟨b, List.contains_iff_mem.mp hb, hs⟩
      simp only [hne, hany, Bool.not_true, Bool.false_eq_true, if_false]

theorem registeredBlocks_ends {tbl : EnvTable} (hc : consistent tbl = true) {x : TagName}
    (h : (registeredBlocks tbl).contains x = true) : x.ends = 0 := by
  rw [List.contains_iff_mem] at h
  unfold registeredBlocks at h
  obtain ⟨i, hi, hn⟩ := List.mem_map.mp h
  obtain ⟨hi, hb⟩ := List.mem_filter.mp hi
  have hok := consistent_info hc hi
  unfold infoOK at hok
  split at hok
  · rename_i f hd
    simp only [Bool.and_eq_true, beq_iff_eq] at hok
    obtain ⟨⟨⟨⟨⟨⟨_, hname⟩, hfn⟩, _⟩, hgood⟩, _⟩, _⟩ := hok
    rw [← hn, hname, ← hfn]; exact good_name_ends hgood
  · simp [hb] at hok
  · simp [hb] at hok

/-- **Simulation**: while the restricted parser accepts, the audit's block stack is the list of the
parser's open frames and nothing is reported. -/
theorem sim {tbl : EnvTable} (hc : consistent tbl = true) (isB isE : TagName → Bool) :
    ∀ (ts : List TagName) (pst : List Frame), (∀ f ∈ pst, goodFrame tbl f = true) →
      (∀ t ∈ ts, isE t = t.isEnd ∧ isB t = (registeredBlocks tbl).contains t) →
      prun tbl Opts.restricted pst ts = some [] →
      loop tbl isB isE ts (pst.map Frame.name) {} = .ok ([], {}) := by
  intro ts
  induction ts with
  | nil =>
    intro pst _ _ h
    simp only [prun, Option.some.injEq] at h
    subst h; rfl
  | cons t ts ih =>
    intro pst hg hH h
    obtain ⟨pst', hp, hr⟩ := prun_cons h
    have hk := pstep_kind hc hg hp
    have hg' := stepKind_good hk hg
    obtain ⟨hE, hB⟩ := hH t (List.mem_cons_self ..)
    have hH' : ∀ t ∈ ts, isE t = t.isEnd ∧ isB t = (registeredBlocks tbl).contains t :=
      fun x hx => hH x (List.mem_cons_of_mem _ hx)
    have ih' := ih pst' hg' hH' hr
    unfold loop
    cases hk with
    | close f rest h1 h2 h3 =>
      subst h1 h2
      have hgf := hg f (List.mem_cons_self ..)
      have hge := good_goodEnd hgf
      have hB' : isB t = false := by
        rw [hB, Bool.eq_false_iff]; intro hc'
        have := registeredBlocks_ends hc hc'
        rw [h3, hge.1] at this; cases this
      have hE' : isE t = true := by rw [hE, h3]; simp [TagName.isEnd, hge.1]
      have hun : t.unEnd = f.name := by rw [h3, good_endT hgf, unEnd_endOf]
      simp only [hB', hE', List.map_cons, List.isEmpty_cons, pyPop, hun, bne_self_eq_false, if_true]
      simpa using ih'
    | inner f f' rest h1 h2 hn _ h0 hnb henc =>
      subst h1 h2
      have hE' : isE t = false := by rw [hE]; simp [TagName.isEnd, h0]
      have hB' : isB t = false := by rw [hB]; exact hnb
      have hck : check tbl t (List.map Frame.name (f :: rest)) {} = {} :=
        check_clean (Or.inr ⟨f.name, henc, by simp⟩)
      simp only [hB', hE', hck]
      simpa [hn] using ih'
    | open_ f' h1 hn _ hreg hblk =>
      subst h1
      have hB' : isB t = true := by rw [hB]; exact hblk
      have hck : check tbl t (t :: List.map Frame.name pst) {} = {} := check_clean (Or.inl hreg)
      simp only [hB', hck, if_true]
      simpa [hn] using ih'
    | inline h1 h0 hnb hor =>
      subst h1
      have hE' : isE t = false := by rw [hE]; simp [TagName.isEnd, h0]
      have hB' : isB t = false := by rw [hB]; exact hnb
      have hck : check tbl t (List.map Frame.name pst') {} = {} := by
        apply check_clean
        rcases hor with h | ⟨henc, f, hf, hfn⟩
        · exact Or.inl h
        · refine Or.inr ⟨nm "for", henc, ?_⟩
          rw [List.contains_iff_mem, ← hfn]
          exact List.mem_map_of_mem hf
      simp only [hB', hE', hck]
      simpa using ih'

end LiquidVerif.TagAudit

namespace LiquidVerif.TagAudit

/-! ## The final "bad end tags" pass and assembling `audit` -/

theorem mem_dedup {l : List TagName} {x : TagName} (h : x ∈ dedup l) : x ∈ l := by
  induction l with
  | nil => simp [dedup] at h
  | cons t ts ih =>
    simp only [dedup, List.mem_cons, List.mem_filter] at h
    rcases h with h | ⟨h, _⟩
    · exact h ▸ List.mem_cons_self ..
    · exact List.mem_cons_of_mem _ (ih h)

theorem mem_dedup_of_mem {l : List TagName} {x : TagName} (h : x ∈ l) : x ∈ dedup l := by
  induction l with
  | nil => cases h
  | cons t ts ih =>
    simp only [dedup, List.mem_cons, List.mem_filter]
    by_cases hx : x = t
    · exact Or.inl hx
    · rcases List.mem_cons.mp h with h | h
      · exact absurd h hx
      · exact Or.inr ⟨ih h, by simpa using hx⟩

theorem block_not_inline {tbl : EnvTable} (hc : consistent tbl = true) {x : TagName}
    (h : (registeredBlocks tbl).contains x = true) : (inlineTags tbl).contains x = false := by
  rw [Bool.eq_false_iff]; intro hi
  rw [List.contains_iff_mem] at h hi
  unfold registeredBlocks at h
  unfold inlineTags at hi
  obtain ⟨i, hi1, hin⟩ := List.mem_map.mp h
  obtain ⟨j, hj1, hjn⟩ := List.mem_map.mp hi
  obtain ⟨him, hib⟩ := List.mem_filter.mp hi1
  obtain ⟨hjm, hjb⟩ := List.mem_filter.mp hj1
  have := consistent_names hc him hjm (hin.trans hjn.symm)
  simp_all

theorem finalPass_clean {tbl : EnvTable} (hc : consistent tbl = true) :
    ∀ names : List TagName, (∀ e ∈ names, e.isEnd = true → goodEnd tbl e) → finalPass tbl names [] = [] := by
  intro names
  induction names with
  | nil => intro _; rfl
  | cons e es ih =>
    intro h
    have hstep : finalStep tbl [] e = [] := by
      unfold finalStep
      by_cases he : e.isEnd = true
      · obtain ⟨_, hb, hr⟩ := h e (List.mem_cons_self ..) he
        simp only [he, hr, block_not_inline hc hb, if_true, Bool.false_and, Bool.not_true, Bool.or_self,
          Bool.false_eq_true, if_false]
      · simp [he]
    simp only [finalPass, List.foldl_cons, hstep]
    exact ih (fun x hx => h x (List.mem_cons_of_mem _ hx))

/-- on the tokens of the list itself, `in end_tags` is `startswith("end")` -/
theorem endTags_contains {toks : List TagName} {t : TagName} (ht : t ∈ toks) :
    (endTagsOf toks).contains t = t.isEnd := by
  unfold endTagsOf
  cases he : t.isEnd with
  | true => rw [List.contains_iff_mem]; exact List.mem_filter.mpr ⟨ht, he⟩
  | false =>
    rw [Bool.eq_false_iff]; intro h
    rw [List.contains_iff_mem] at h
    have := (List.mem_filter.mp h).2
    simp [he] at this

/-- when every end tag present closes a registered block, the inferred block tags add nothing -/
theorem blockTags_contains {tbl : EnvTable} {toks : List TagName}
    (hG : ∀ e ∈ toks, e.isEnd = true → goodEnd tbl e) (t : TagName) :
    (blockTagsOf tbl toks).contains t = (registeredBlocks tbl).contains t := by
  unfold blockTagsOf
  cases hb : (registeredBlocks tbl).contains t with
  | true =>
    rw [List.contains_iff_mem] at hb ⊢
    exact List.mem_append_right _ hb
  | false =>
    rw [Bool.eq_false_iff]; intro h
    rw [List.contains_iff_mem] at h
    rcases List.mem_append.mp h with h | h
    · obtain ⟨e, he, hu⟩ := List.mem_map.mp h
      unfold endTagsOf at he
      obtain ⟨hm, hend⟩ := List.mem_filter.mp he
      have := (hG e hm hend).2.1
      rw [hu, hb] at this; cases this
    · rw [← List.contains_iff_mem, hb] at h; cases h

theorem parses_run {tbl : EnvTable} {o : Opts} {toks : List TagName} (h : parses tbl o toks = true) :
    prun tbl o [] toks = some [] := by
  unfold parses at h
  exact beq_iff_eq.mp h

/-- a token list accepted by the restricted grammar is audited clean (consistent table) -/
theorem restricted_clean {tbl : EnvTable} (hc : consistent tbl = true) {toks : List TagName}
    (h : parses tbl Opts.restricted toks = true) : audit tbl toks = .ok Report.clean := by
  have hrun := parses_run h
  have hG := run_ends_good hc toks [] [] (by intro f hf; cases hf) hrun
  have hsim := sim hc (fun t => (blockTagsOf tbl toks).contains t) (fun t => (endTagsOf toks).contains t)
    toks [] (by intro f hf; cases hf)
    (fun t ht => ⟨endTags_contains ht, blockTags_contains hG t⟩) hrun
  have hfin := finalPass_clean hc (dedup toks) (fun e he => hG e (mem_dedup he))
  unfold audit
  simp only [List.map_nil] at hsim
  simp only [hsim, hfin, Report.clean, List.reverse_nil, List.append_nil]

end LiquidVerif.TagAudit

namespace LiquidVerif.TagAudit

deriving instance DecidableEq for Except

/-! ## The restricted grammar is a sub-grammar of the real one -/

theorem dispatch_sub (tbl : EnvTable) (t : TagName) : ∀ s s',
    dispatchTok tbl Opts.restricted s t = some s' → dispatchTok tbl Opts.real s t = some s' := by
  intro s s' h
  unfold dispatchTok at h ⊢
  split at h
  · cases h
  · rename_i info hf
    try simp only [hf]
    split at h
    · cases h
    · split at h
      · cases h
      · cases h; simp [Opts.real]
    · exact h

theorem restricted_step_sub_strict (tbl : EnvTable) (st st' : List Frame) (t : TagName)
    (h : pstep tbl Opts.restricted st t = some st') : pstep tbl Opts.real st t = some st' := by
  have hd := dispatch_sub tbl t
  unfold pstep at h ⊢
  cases st with
  | nil => exact hd _ _ h
  | cons f rest =>
    cases f <;> simp only at h ⊢ <;> (repeat' split at h) <;>
      first
        | (cases h; done)
        | (simp only [*, if_true, if_false, Bool.false_eq_true]; done)
        | (simp only [*, if_true, if_false, Bool.false_eq_true]; first | exact h | exact hd _ _ h)
        | (simp [Opts.restricted] at *; done)

theorem restricted_run_sub_strict (tbl : EnvTable) : ∀ (ts : List TagName) (st res : List Frame),
    prun tbl Opts.restricted st ts = some res → prun tbl Opts.real st ts = some res := by
  intro ts
  induction ts with
  | nil => intro st res h; exact h
  | cons t ts ih =>
    intro st res h
    obtain ⟨st', hp, hr⟩ := prun_cons h
    unfold prun
    rw [restricted_step_sub_strict tbl st st' t hp]
    exact ih st' res hr

/-! ## Reporting: unknown names and unbalanced blocks -/

theorem check_unclosed (tbl : EnvTable) (t : TagName) (st : List TagName) (r : Report) :
    (check tbl t st r).unclosed = r.unclosed := by
  unfold check; split
  · rfl
  · simp only; split
    · rfl
    · split <;> rfl

theorem check_unknown_mono (tbl : EnvTable) (t : TagName) (st : List TagName) (r : Report) {x : TagName}
    (h : x ∈ r.unknown) : x ∈ (check tbl t st r).unknown := by
  unfold check; split
  · exact h
  · simp only; split
    · exact List.mem_append_left _ h
    · split <;> exact h

theorem check_reports_unknown (tbl : EnvTable) (t : TagName) (st : List TagName) (r : Report)
    (hr : (registered tbl).contains t = false) (he : enclosing tbl t = []) :
    t ∈ (check tbl t st r).unknown := by
  unfold check
  rw [if_neg (by rw [hr]; exact Bool.false_ne_true)]
  simp only [he, List.isEmpty_nil, if_true]
  exact List.mem_append_right _ (List.mem_singleton.mpr rfl)

/-- one iteration of the loop, whatever branch it takes, continues with *some* stack and report in
which nothing already reported has been dropped -/
theorem loop_cons (tbl : EnvTable) (isB isE : TagName → Bool) (t : TagName) (ts st : List TagName) (r : Report) :
    ∃ st1 r1, loop tbl isB isE (t :: ts) st r = loop tbl isB isE ts st1 r1 ∧
      (∀ x, x ∈ r.unknown → x ∈ r1.unknown) ∧ (∀ x, x ∈ r.unclosed → x ∈ r1.unclosed) ∧
      (isE t = false → (registered tbl).contains t = false → enclosing tbl t = [] → t ∈ r1.unknown) := by
  rw [loop]
  by_cases hB : isB t = true
  · simp only [hB, if_true]
    exact ⟨_, _, rfl, fun x hx => check_unknown_mono tbl t _ r hx, fun x hx => by rw [check_unclosed]; exact hx,
      fun _ hr he => check_reports_unknown tbl t _ r hr he⟩
  · simp only [hB]
    by_cases hE : isE t = true
    · simp only [hE, if_true]
      cases st with
      | nil =>
        simp only [List.isEmpty_nil, if_true]
        exact ⟨_, _, rfl, fun x hx => hx, fun x hx => hx, fun h => by cases h⟩
      | cons s st' =>
        simp only [List.isEmpty_cons, pyPop]
        refine ⟨_, _, rfl, ?_, ?_, fun h => by cases h⟩
        · intro x hx; split <;> exact hx
        · intro x hx; split
          · exact List.mem_append_left _ hx
          · exact hx
    · simp only [hE]
      exact ⟨_, _, rfl, fun x hx => check_unknown_mono tbl t _ r hx, fun x hx => by rw [check_unclosed]; exact hx,
        fun _ hr he => check_reports_unknown tbl t _ r hr he⟩

theorem loop_unknown_mono (tbl : EnvTable) (isB isE : TagName → Bool) :
    ∀ (ts st : List TagName) (r : Report) (st' : List TagName) (r' : Report),
      loop tbl isB isE ts st r = .ok (st', r') → ∀ x, x ∈ r.unknown → x ∈ r'.unknown := by
  intro ts
  induction ts with
  | nil => intro st r st' r' h x hx; simp only [loop, Except.ok.injEq, Prod.mk.injEq] at h; rw [← h.2]; exact hx
  | cons t ts ih =>
    intro st r st' r' h x hx
    obtain ⟨st1, r1, heq, hm, _, _⟩ := loop_cons tbl isB isE t ts st r
    rw [heq] at h
    exact ih st1 r1 st' r' h x (hm x hx)

/-- a name that is neither registered, nor an inner tag, nor an end tag is in `unknown_tags` after the loop -/
theorem loop_reports_unknown (tbl : EnvTable) (isB isE : TagName → Bool) (u : TagName)
    (hE : isE u = false) (hr : (registered tbl).contains u = false) (he : enclosing tbl u = []) :
    ∀ (ts st : List TagName) (r : Report) (st' : List TagName) (r' : Report), u ∈ ts →
      loop tbl isB isE ts st r = .ok (st', r') → u ∈ r'.unknown := by
  intro ts
  induction ts with
  | nil => intro _ _ _ _ hu; cases hu
  | cons t ts ih =>
    intro st r st' r' hu h
    obtain ⟨st1, r1, heq, _, _, hrep⟩ := loop_cons tbl isB isE t ts st r
    rw [heq] at h
    rcases List.mem_cons.mp hu with hut | hut
    · subst hut
      exact loop_unknown_mono tbl isB isE ts st1 r1 st' r' h u (hrep hE hr he)
    · exact ih st1 r1 st' r' hut h

theorem finalStep_mono (tbl : EnvTable) (unk : List TagName) (t : TagName) {x : TagName} (h : x ∈ unk) :
    x ∈ finalStep tbl unk t := by
  unfold finalStep
  split
  · simp only; split
    · exact List.mem_append_left _ h
    · exact h
  · exact h

theorem finalPass_mono (tbl : EnvTable) : ∀ (names unk : List TagName) {x : TagName}, x ∈ unk →
    x ∈ finalPass tbl names unk := by
  intro names
  induction names with
  | nil => intro unk x h; exact h
  | cons t ts ih =>
    intro unk x h
    simp only [finalPass, List.foldl_cons]
    exact ih _ (finalStep_mono tbl unk t h)

/-- an end tag that is not a registered end tag is reported unknown unless its start tag is -/
theorem finalPass_reports_end (tbl : EnvTable) (e : TagName) (he : e.isEnd = true)
    (hr : (registeredEnds tbl).contains e = false) :
    ∀ (names unk : List TagName), e ∈ names →
      e ∈ finalPass tbl names unk ∨ e.unEnd ∈ finalPass tbl names unk := by
  intro names
  induction names with
  | nil => intro _ h; cases h
  | cons t ts ih =>
    intro unk hmem
    simp only [finalPass, List.foldl_cons]
    rcases List.mem_cons.mp hmem with h | h
    · subst h
      have : e ∈ finalStep tbl unk e ∨ e.unEnd ∈ finalStep tbl unk e := by
        unfold finalStep
        simp only [he, if_true, hr, Bool.not_false, Bool.true_and]
        by_cases hs : unk.contains e.unEnd = true
        · right
          have hmem : e.unEnd ∈ unk := List.contains_iff_mem.mp hs
          split
          · exact List.mem_append_left _ hmem
          · exact hmem
        · left
          have : unk.contains e.unEnd = false := by simpa using hs
          simp only [this, Bool.not_false, Bool.and_true, Bool.or_true, if_true]
          exact List.mem_append_right _ (List.mem_singleton.mpr rfl)
      rcases this with h | h
      · exact Or.inl (finalPass_mono tbl ts _ h)
      · exact Or.inr (finalPass_mono tbl ts _ h)
    · exact ih _ h

/-- a pushed block is on the stack or already reported unclosed, as long as its own end tag does not occur -/
theorem loop_unclosed_inv (tbl : EnvTable) (isB isE : TagName → Bool) (b : TagName)
    (hEnd : ∀ t, isE t = true → t.isEnd = true) :
    ∀ (ts st : List TagName) (r : Report) (st' : List TagName) (r' : Report),
      (∀ t ∈ ts, t ≠ b.endOf) → (b ∈ st ∨ b ∈ r.unclosed) →
      loop tbl isB isE ts st r = .ok (st', r') → (b ∈ st' ∨ b ∈ r'.unclosed) := by
  intro ts
  induction ts with
  | nil =>
    intro st r st' r' _ hinv h
    simp only [loop, Except.ok.injEq, Prod.mk.injEq] at h
    rw [← h.1, ← h.2]; exact hinv
  | cons t ts ih =>
    intro st r st' r' hne hinv h
    have hne' : ∀ x ∈ ts, x ≠ b.endOf := fun x hx => hne x (List.mem_cons_of_mem _ hx)
    rw [loop] at h
    by_cases hB : isB t = true
    · simp only [hB, if_true] at h
      refine ih _ _ st' r' hne' ?_ h
      rcases hinv with hi | hi
      · exact Or.inl (List.mem_cons_of_mem _ hi)
      · exact Or.inr (by rw [check_unclosed]; exact hi)
    · simp only [hB] at h
      by_cases hE : isE t = true
      · simp only [hE, if_true] at h
        cases st with
        | nil =>
          simp only [List.isEmpty_nil, if_true] at h
          refine ih _ _ st' r' hne' ?_ h
          rcases hinv with hi | hi
          · cases hi
          · exact Or.inr hi
        | cons s rest =>
          simp only [List.isEmpty_cons, pyPop] at h
          refine ih _ _ st' r' hne' ?_ h
          rcases hinv with hi | hi
          · rcases List.mem_cons.mp hi with hbs | hbs
            · -- the popped block is `b`: the end tag is not `end b`, so it is reported
              right
              have hmis : (s != t.unEnd) = true := by
                rw [bne_iff_ne]; intro hs
                have htend := hEnd t hE
                have : t = b.endOf := by
                  have hne0 : t.ends ≠ 0 := by simpa [TagName.isEnd] using htend
                  rw [hbs, hs]
                  cases t with
                  | mk k stem =>
                    simp only [TagName.unEnd, TagName.endOf, TagName.mk.injEq, and_true]
                    simp only at hne0; omega
                exact hne t (List.mem_cons_self ..) this
              simp only [hmis, if_true]
              exact List.mem_append_right _ (by simp [hbs])
            · exact Or.inl hbs
          · right; split
            · exact List.mem_append_left _ hi
            · exact hi
      · simp only [hE] at h
        refine ih _ _ st' r' hne' ?_ h
        rcases hinv with hi | hi
        · exact Or.inl hi
        · exact Or.inr (by rw [check_unclosed]; exact hi)

theorem loop_reports_unclosed (tbl : EnvTable) (isB isE : TagName → Bool) (b : TagName)
    (hEnd : ∀ t, isE t = true → t.isEnd = true) (hB : isB b = true) :
    ∀ (ts st : List TagName) (r : Report) (st' : List TagName) (r' : Report),
      b ∈ ts → (∀ t ∈ ts, t ≠ b.endOf) →
      loop tbl isB isE ts st r = .ok (st', r') → (b ∈ st' ∨ b ∈ r'.unclosed) := by
  intro ts
  induction ts with
  | nil => intro _ _ _ _ hb; cases hb
  | cons t ts ih =>
    intro st r st' r' hb hne h
    have hne' : ∀ x ∈ ts, x ≠ b.endOf := fun x hx => hne x (List.mem_cons_of_mem _ hx)
    rcases List.mem_cons.mp hb with hbt | hbt
    · subst hbt
      rw [loop] at h
      simp only [hB, if_true] at h
      exact loop_unclosed_inv tbl isB isE b hEnd ts _ _ st' r' hne' (Or.inl (List.mem_cons_self ..)) h
    · obtain ⟨st1, r1, heq, _, _, _⟩ := loop_cons tbl isB isE t ts st r
      rw [heq] at h
      exact ih st1 r1 st' r' hbt hne' h

end LiquidVerif.TagAudit

namespace LiquidVerif.TagAudit

/-! ## The lexer's output shape, and why the third switch of the restricted grammar is immaterial on it -/

/-- shape of the lexer's output: a `comment` tag token is followed by `endcomment` or by nothing, and
no `enddoc` tag token ever follows a `doc` tag token -/
def lexShaped : List TagName → Bool
  | [] => true
  | t :: ts =>
    (if t == nm "comment" then (match ts with | [] => true | u :: _ => u == endNm "comment") else true)
    && (if t == nm "doc" then !ts.contains (endNm "doc") else true)
    && lexShaped ts

theorem lexAux_subset : ∀ (ts : List TagName) (d : Nat) (m : LexMode) (x : TagName),
    x ∈ lexTagsAux d m ts → x ∈ ts := by
  intro ts
  induction ts with
  | nil => intro d m x h; simp [lexTagsAux] at h
  | cons t ts ih =>
    intro d m x h
    cases m with
    | «until» e =>
      simp only [lexTagsAux] at h
      split at h <;> exact List.mem_cons_of_mem _ (ih _ _ _ h)
    | normal =>
      simp only [lexTagsAux] at h
      repeat' split at h
      all_goals first
        | exact List.mem_cons_of_mem _ (ih _ _ _ h)
        | (rcases List.mem_cons.mp h with h | h
           · simp_all
           · exact List.mem_cons_of_mem _ (ih _ _ _ h))

theorem lexAux_head_in_comment : ∀ (ts : List TagName) (d : Nat) (m : LexMode), d ≠ 0 →
    lexTagsAux d m ts = [] ∨ ∃ r, lexTagsAux d m ts = endNm "comment" :: r := by
  intro ts
  induction ts with
  | nil => intro d m _; left; simp [lexTagsAux]
  | cons t ts ih =>
    intro d m hd
    cases m with
    | «until» e =>
      simp only [lexTagsAux]
      split <;> exact ih _ _ hd
    | normal =>
      simp only [lexTagsAux]
      have hd' : (d != 0) = true := by simpa using hd
      simp only [hd', if_true]
      repeat' split
      all_goals first
        | exact ih _ _ hd
        | exact Or.inr ⟨_, rfl⟩
        | exact ih _ _ (by omega)
        | (apply ih; simp_all; omega)


theorem lexAux_shaped : ∀ (ts : List TagName) (d : Nat) (m : LexMode), lexShaped (lexTagsAux d m ts) = true := by
  intro ts
  induction ts with
  | nil => intro d m; simp [lexTagsAux, lexShaped]
  | cons t ts ih =>
    intro d m
    cases m with
    | «until» e =>
      simp only [lexTagsAux]
      split <;> exact ih _ _
    | normal =>
      simp only [lexTagsAux]
      split
      · exact ih _ _
      · rename_i hraw
        split
        · exact ih _ _
        · rename_i hdoc
          split
          · -- inside a comment
            split
            · split
              · have h1 : (endNm "comment" == nm "comment") = false := by decide
                have h2 : (endNm "comment" == nm "doc") = false := by decide
                simp [lexShaped, ih, h1, h2]
              · exact ih _ _
            · split <;> exact ih _ _
          · -- depth 0: the tag is emitted
            by_cases hc : t = nm "comment"
            · subst hc
              simp only [beq_self_eq_true, if_true, lexShaped, ih, Bool.and_true]
              rcases lexAux_head_in_comment ts 1 .normal (by decide) with h | ⟨r, h⟩
              · have h2 : (nm "comment" == nm "doc") = false := by decide
                simp [h, h2]
              · have h2 : (nm "comment" == nm "doc") = false := by decide
                simp [h, h2]
            · have hc' : (t == nm "comment") = false := by simpa using hc
              simp only [hc', lexShaped, ih, Bool.and_true, Bool.false_eq_true, if_false, Bool.true_and]
              by_cases hd : t = nm "doc"
              · subst hd
                simp only [beq_self_eq_true, if_true, Bool.true_and, Bool.not_eq_true] at hdoc ⊢
                rw [Bool.not_eq_true'] 
                rw [Bool.eq_false_iff]; intro hcon
                have := lexAux_subset ts 0 .normal _ (List.contains_iff_mem.mp hcon)
                rw [← List.contains_iff_mem, hdoc] at this; cases this
              · have hd' : (t == nm "doc") = false := by simpa using hd
                simp [hd']

theorem lexTags_shaped (src : List TagName) : lexShaped (lexTags src) = true := lexAux_shaped src 0 .normal


def Frame.isSkip : Frame → Bool
  | .skip .. => true
  | _ => false

theorem dispatch_skip {info : TagInfo} {f : Frame} (h : dispatch info = .openF f) (hs : f.isSkip = true) :
    (info.key = nm "comment" ∧ f = .skip (nm "comment") (endNm "comment") false) ∨
    (info.key = nm "doc" ∧ f = .skip (nm "doc") (endNm "doc") true) := by
  unfold dispatch at h
  split at h
  · cases h
  · rename_i hends
    have h0 : info.key.ends = 0 := by simpa using hends
    split at h <;> first
      | (cases h; done)
      | (cases h; simp [Frame.isSkip] at hs; done)
      | (cases h
         rename_i hstem
         first
          | (left; refine ⟨?_, rfl⟩; cases hk : info.key; simp_all [nm])
          | (right; refine ⟨?_, rfl⟩; cases hk : info.key; simp_all [nm]))


def noSkip (st : List Frame) : Bool := st.all (fun f => !f.isSkip)

/-- where a skip frame on top of the stack can come from: the `comment` / `doc` TAG token just read -/
def SkipOrigin (t : TagName) (f : Frame) : Prop :=
  (t = nm "comment" ∧ f = .skip (nm "comment") (endNm "comment") false) ∨
  (t = nm "doc" ∧ f = .skip (nm "doc") (endNm "doc") true)

def ShapeOK (t : TagName) (st' : List Frame) : Prop :=
  noSkip st'.tail = true ∧ ∀ f, st'.head? = some f → f.isSkip = true → SkipOrigin t f

theorem shape_of_noSkip {t : TagName} {st : List Frame} (h : noSkip st = true) : ShapeOK t st := by
  cases st with
  | nil => exact ⟨rfl, fun f hf => by cases hf⟩
  | cons g rest =>
    simp only [noSkip, List.all_cons, Bool.and_eq_true, Bool.not_eq_true'] at h
    refine ⟨h.2, fun f hf hs => ?_⟩
    simp only [List.head?_cons, Option.some.injEq] at hf
    subst hf; rw [h.1] at hs; cases hs

theorem shape_push {t : TagName} {st : List Frame} {f : Frame} (h : noSkip st = true)
    (ho : f.isSkip = true → SkipOrigin t f) : ShapeOK t (f :: st) :=
  ⟨h, fun g hg hs => by simp only [List.head?_cons, Option.some.injEq] at hg; subst hg; exact ho hs⟩

theorem dispatchTok_shape {tbl : EnvTable} {o : Opts} {st st' : List Frame} {t : TagName}
    (hn : noSkip st = true) (h : dispatchTok tbl o st t = some st') : ShapeOK t st' := by
  unfold dispatchTok at h
  split at h
  · cases h
  · rename_i info hf
    obtain ⟨_, hkey⟩ := findTag_some hf
    split at h
    · cases h
    · split at h
      · cases h
      · cases h; exact shape_of_noSkip hn
    · rename_i f hd
      split at h
      · cases h
      · cases h
        refine shape_push hn (fun hs => ?_)
        rcases dispatch_skip hd hs with ⟨hk, hf⟩ | ⟨hk, hf⟩
        · exact Or.inl ⟨hkey ▸ hk, hf⟩
        · exact Or.inr ⟨hkey ▸ hk, hf⟩

theorem pstep_shape {tbl : EnvTable} {o : Opts} {st st' : List Frame} {t : TagName}
    (hn : noSkip st = true) (h : pstep tbl o st t = some st') : ShapeOK t st' := by
  unfold pstep at h
  cases st with
  | nil => exact dispatchTok_shape hn h
  | cons f rest =>
    have hn' := hn
    simp only [noSkip, List.all_cons, Bool.and_eq_true, Bool.not_eq_true'] at hn'
    obtain ⟨hf, hrest⟩ := hn'
    have hrest' : noSkip rest = true := hrest
    cases f <;> simp only at h <;> (repeat' split at h) <;>
      first
        | (cases h; done)
        | (simp [Frame.isSkip] at hf; done)
        | (cases h; exact shape_of_noSkip hrest')
        | (cases h; exact shape_of_noSkip hn)
        | (cases h; exact shape_of_noSkip (by simp [noSkip, Frame.isSkip]; exact hrest))
        | exact dispatchTok_shape hn h

theorem pstep_skipContent_irrel (tbl : EnvTable) (j b : Bool) (st : List Frame) (t : TagName)
    (h : ∀ f, st.head? = some f → f.isSkip = false) :
    pstep tbl ⟨j, b, true⟩ st t = pstep tbl ⟨j, b, false⟩ st t := by
  cases st with
  | nil => rfl
  | cons f rest =>
    cases f <;> first | rfl | (have := h _ rfl; simp [Frame.isSkip] at this)

theorem doc_stuck (tbl : EnvTable) (j b : Bool) (rest : List Frame) : ∀ ts : List TagName,
    ts.contains (endNm "doc") = false →
    prun tbl ⟨j, b, true⟩ (.skip (nm "doc") (endNm "doc") true :: rest) ts ≠ some [] := by
  intro ts
  induction ts with
  | nil => intro _ h; simp [prun] at h
  | cons t ts ih =>
    intro hc h
    have hne : (t == endNm "doc") = false := by
      rw [Bool.eq_false_iff]; intro ht
      have : t = endNm "doc" := by simpa using ht
      subst this; simp at hc
    have hc' : ts.contains (endNm "doc") = false := by
      rw [Bool.eq_false_iff]; intro hh
      rw [List.contains_iff_mem] at hh
      have : (t :: ts).contains (endNm "doc") = true := List.contains_iff_mem.mpr (List.mem_cons_of_mem _ hh)
      rw [hc] at this; cases this
    obtain ⟨st', hp, hr⟩ := prun_cons h
    simp only [pstep, Bool.true_and, hne] at hp
    split at hp
    · cases hp
    · simp only [Bool.false_eq_true, if_false, if_true, Option.some.injEq] at hp
      subst hp
      exact ih hc' hr

def TopOK (st : List Frame) (toks : List TagName) : Prop :=
  ∀ f, st.head? = some f → f.isSkip = true →
    (f = .skip (nm "comment") (endNm "comment") false ∧ (toks = [] ∨ ∃ r, toks = endNm "comment" :: r)) ∨
    (f = .skip (nm "doc") (endNm "doc") true ∧ toks.contains (endNm "doc") = false)

theorem lexShaped_cons {t : TagName} {ts : List TagName} (h : lexShaped (t :: ts) = true) :
    (t = nm "comment" → ts = [] ∨ ∃ r, ts = endNm "comment" :: r) ∧
    (t = nm "doc" → ts.contains (endNm "doc") = false) ∧ lexShaped ts = true := by
  simp only [lexShaped, Bool.and_eq_true] at h
  obtain ⟨⟨h1, h2⟩, h3⟩ := h
  refine ⟨fun ht => ?_, fun ht => ?_, h3⟩
  · subst ht
    simp only [beq_self_eq_true, if_true] at h1
    cases ts with
    | nil => exact Or.inl rfl
    | cons u r =>
      simp only [beq_iff_eq] at h1
      exact Or.inr ⟨r, by rw [h1]⟩
  · subst ht
    simpa using h2

/-- on lexer-shaped token lists the third switch of the restricted grammar is immaterial -/
theorem noskip_run (tbl : EnvTable) (j b : Bool) : ∀ (toks : List TagName) (st : List Frame),
    lexShaped toks = true → noSkip st.tail = true → TopOK st toks →
    prun tbl ⟨j, b, true⟩ st toks = some [] → prun tbl ⟨j, b, false⟩ st toks = some [] := by
  intro toks
  induction toks with
  | nil => intro st _ _ _ h; exact h
  | cons t ts ih =>
    intro st hl hns htop h
    obtain ⟨hC, hD, hl'⟩ := lexShaped_cons hl
    obtain ⟨st', hp, hr⟩ := prun_cons h
    by_cases hskip : ∃ f, st.head? = some f ∧ f.isSkip = true
    · obtain ⟨f, hf, hfs⟩ := hskip
      cases st with
      | nil => cases hf
      | cons g rest =>
        simp only [List.head?_cons, Option.some.injEq] at hf
        subst hf
        rcases htop g rfl hfs with ⟨hg, hts⟩ | ⟨hg, hts⟩
        · rcases hts with hts | ⟨r, hts⟩
          · cases hts
          · simp only [List.cons.injEq] at hts
            obtain ⟨ht, _⟩ := hts
            subst hg ht
            have hp1 : pstep tbl ⟨j, b, true⟩ (.skip (nm "comment") (endNm "comment") false :: rest) (endNm "comment") = some rest := by
              simp [pstep]
            have hp2 : pstep tbl ⟨j, b, false⟩ (.skip (nm "comment") (endNm "comment") false :: rest) (endNm "comment") = some rest := by
              simp [pstep]
            rw [hp1] at hp; cases hp
            have hrest : noSkip st' = true := hns
            unfold prun; rw [hp2]
            refine ih st' hl' ?_ ?_ hr
            · cases st' with
              | nil => rfl
              | cons a l => simp only [noSkip, List.all_cons, Bool.and_eq_true] at hrest; exact hrest.2
            · intro f hf hfs
              cases st' with
              | nil => cases hf
              | cons a l =>
                simp only [List.head?_cons, Option.some.injEq] at hf; subst hf
                simp only [noSkip, List.all_cons, Bool.and_eq_true, Bool.not_eq_true'] at hrest
                rw [hrest.1] at hfs; cases hfs
        · subst hg
          exact absurd h (doc_stuck tbl j b rest (t :: ts) hts)
    · have hno : ∀ f, st.head? = some f → f.isSkip = false := by
        intro f hf
        cases hfs : f.isSkip with
        | false => rfl
        | true => exact absurd ⟨f, hf, hfs⟩ hskip
      have hall : noSkip st = true := by
        cases st with
        | nil => rfl
        | cons g rest =>
          simp only [noSkip, List.all_cons, Bool.and_eq_true, Bool.not_eq_true']
          exact ⟨hno g rfl, hns⟩
      have hsh := pstep_shape hall hp
      rw [pstep_skipContent_irrel tbl j b st t hno] at hp
      unfold prun; rw [hp]
      refine ih st' hl' hsh.1 ?_ hr
      intro f hf hfs
      rcases hsh.2 f hf hfs with ⟨ht, hf'⟩ | ⟨ht, hf'⟩
      · exact Or.inl ⟨hf', hC ht⟩
      · exact Or.inr ⟨hf', hD ht⟩


end LiquidVerif.TagAudit

namespace LiquidVerif.TagAudit

/-! ## Counting version of the unclosed-block invariant -/

theorem endOf_ne (b : TagName) : b.endOf ≠ b := by
  cases b; simp [TagName.endOf]

theorem eq_endOf_of_unEnd {t b : TagName} (ht : t.isEnd = true) (h : t.unEnd = b) : t = b.endOf := by
  have hne0 : t.ends ≠ 0 := by simpa [TagName.isEnd] using ht
  subst h
  cases t with
  | mk k stem =>
    simp only [TagName.unEnd, TagName.endOf, TagName.mk.injEq, and_true]
    simp only at hne0; omega

/-- counting invariant: while more `b` tags are pending (still to come or on the stack) than `end b`
tags are still to come, `b` ends up on the stack or reported -/
theorem loop_unclosed_count (tbl : EnvTable) (isB isE : TagName → Bool) (b : TagName)
    (hEnd : ∀ t, isE t = true → t.isEnd = true) (hB : isB b = true) :
    ∀ (ts st : List TagName) (r : Report) (st' : List TagName) (r' : Report),
      (b ∈ r.unclosed ∨ ts.count b + st.count b > ts.count b.endOf) →
      loop tbl isB isE ts st r = .ok (st', r') → (b ∈ st' ∨ b ∈ r'.unclosed) := by
  intro ts
  induction ts with
  | nil =>
    intro st r st' r' hinv h
    simp only [loop, Except.ok.injEq, Prod.mk.injEq] at h
    rw [← h.1, ← h.2]
    rcases hinv with hi | hi
    · exact Or.inr hi
    · left
      simp only [List.count_nil, Nat.zero_add] at hi
      exact List.count_pos_iff.mp (by omega)
  | cons t ts ih =>
    intro st r st' r' hinv h
    rw [loop] at h
    have hcb : (t :: ts).count b = ts.count b + (if t = b then 1 else 0) := by
      rw [List.count_cons]; simp only [beq_iff_eq]
    have hce : (t :: ts).count b.endOf = ts.count b.endOf + (if t = b.endOf then 1 else 0) := by
      rw [List.count_cons]; simp only [beq_iff_eq]
    have hbe : ¬ (t = b ∧ t = b.endOf) := fun ⟨h1, h2⟩ => endOf_ne b (h2.symm.trans h1)
    by_cases hBt : isB t = true
    · simp only [hBt, if_true] at h
      refine ih _ _ st' r' ?_ h
      rcases hinv with hi | hi
      · exact Or.inl (by rw [check_unclosed]; exact hi)
      · right
        rw [hcb, hce] at hi
        rw [List.count_cons]; simp only [beq_iff_eq]
        split at hi <;> split at hi <;> simp_all <;> omega
    · simp only [hBt] at h
      have htb : t ≠ b := fun e => hBt (e ▸ hB)
      by_cases hE : isE t = true
      · simp only [hE, if_true] at h
        cases st with
        | nil =>
          simp only [List.isEmpty_nil, if_true] at h
          refine ih _ _ st' r' ?_ h
          rcases hinv with hi | hi
          · exact Or.inl hi
          · right
            rw [hcb, hce] at hi
            simp only [htb, if_false, List.count_nil, Nat.add_zero] at hi ⊢
            split at hi <;> omega
        | cons s rest =>
          simp only [List.isEmpty_cons, pyPop] at h
          refine ih _ _ st' r' ?_ h
          rcases hinv with hi | hi
          · left; split
            · exact List.mem_append_left _ hi
            · exact hi
          · by_cases hsb : s = b
            · by_cases hm : (s != t.unEnd) = true
              · left; simp only [hm, if_true]
                exact List.mem_append_right _ (by simp [hsb])
              · right
                have hs : s = t.unEnd := by simpa using hm
                have hte : t = b.endOf := eq_endOf_of_unEnd (hEnd t hE) (hs.symm.trans hsb)
                rw [hcb, hce] at hi
                rw [List.count_cons] at hi
                simp only [hte, endOf_ne b, if_false, if_true, hsb, beq_self_eq_true] at hi
                omega
            · right
              rw [hcb, hce] at hi
              rw [List.count_cons] at hi
              have : (s == b) = false := by simpa using hsb
              simp only [htb, if_false, this, Bool.false_eq_true] at hi
              have hgoal : ts.count b + rest.count b > ts.count b.endOf := by
                split at hi <;> omega
              exact hgoal
      · simp only [hE] at h
        refine ih _ _ st' r' ?_ h
        rcases hinv with hi | hi
        · exact Or.inl (by rw [check_unclosed]; exact hi)
        · right
          rw [hcb, hce] at hi
          simp only [htb, if_false] at hi
          split at hi <;> omega


end LiquidVerif.TagAudit

namespace LiquidVerif.TagAudit

/-! ## Tie of the hand-written grammar to the parse methods' source

`Gen/C21Tables.lean` lists, per registered tag, the tag names its `parse` code looks for in the
token stream (extracted from the source: `parse_block`/`eat_block` end tuples, `expect`, `is_tag`,
comparisons of `stream.current.value`).  The grammar model must use exactly these names. -/

/-- the names a frame family of the grammar model reacts to: its end tag, its inner tags, and for a
`doc`-style skip its own name (nesting is an error) -/
def Frame.parserNames (f : Frame) : List TagName :=
  f.endT :: (f.familyInners ++ (match f with | .skip n _ true => [n] | _ => []))

def sameSet (a b : List TagName) : Bool := a.all (fun x => b.contains x) && b.all (fun x => a.contains x)

/-- every registered tag: the names extracted from its parse code are exactly the names the grammar
model gives its frames (block tags), or at most its own name (inline tags) -/
def parserAgrees (tbl : EnvTable) (pn : List (TagName × List TagName)) : Bool :=
  tbl.tags.all fun i =>
    match pn.find? (fun p => p.1 == i.key) with
    | none => false
    | some (_, ns) =>
      match dispatch i with
      | .openF f => sameSet ns f.parserNames
      | .inline | .bad => ns.all (fun x => x == i.key)

end LiquidVerif.TagAudit

namespace LiquidVerif.TagAudit

/-! ## Caller-supplied inner-tag maps (`inner_tags=`) -/

theorem pstep_inner_irrel (tbl : EnvTable) (m : List (TagName × List TagName)) (o : Opts)
    (st : List Frame) (t : TagName) : pstep { tbl with inner := m } o st t = pstep tbl o st t := rfl

theorem prun_inner_irrel (tbl : EnvTable) (m : List (TagName × List TagName)) (o : Opts) :
    ∀ (ts : List TagName) (st : List Frame), prun { tbl with inner := m } o st ts = prun tbl o st ts := by
  intro ts
  induction ts with
  | nil => intro st; rfl
  | cons t ts ih =>
    intro st
    simp only [prun, pstep_inner_irrel]
    split
    · rfl
    · exact ih _

/-- the parser does not look at the inner-tag map -/
theorem parses_withInner (tbl : EnvTable) (m : List (TagName × List TagName)) (o : Opts) (toks : List TagName) :
    parses (withInner tbl m) o toks = parses tbl o toks := by
  unfold withInner
  split
  · rfl
  · unfold parses; rw [prun_inner_irrel]

/-- a map that allows at least what `tbl`'s map allows keeps the table consistent with the grammar -/
theorem consistent_of_inner_superset (tbl : EnvTable) (m : List (TagName × List TagName))
    (hsup : ∀ t b, (enclosing tbl t).contains b = true → (enclosing { tbl with inner := m } t).contains b = true)
    (hc : consistent tbl = true) : consistent { tbl with inner := m } = true := by
  have hgood : ∀ f, goodFrame tbl f = true → goodFrame { tbl with inner := m } f = true := by
    intro f hg
    simp only [goodFrame, Bool.and_eq_true, List.all_eq_true] at hg ⊢
    exact ⟨hg.1, fun t ht => hsup t _ (hg.2 t ht)⟩
  simp only [consistent, Bool.and_eq_true, List.all_eq_true] at hc ⊢
  refine ⟨⟨fun i hi => ?_, hc.1.2⟩, hc.2⟩
  have hok := hc.1.1 i hi
  unfold infoOK at hok ⊢
  split
  · rename_i f hd
    simp only [hd, Bool.and_eq_true] at hok ⊢
    obtain ⟨⟨⟨⟨⟨⟨h1, h2⟩, h3⟩, h4⟩, h5⟩, h6⟩, h7⟩ := hok
    exact ⟨⟨⟨⟨⟨⟨h1, h2⟩, h3⟩, h4⟩, hgood f h5⟩, h6⟩, h7⟩
  · rename_i hd
    simp only [hd, Bool.and_eq_true, Bool.or_eq_true] at hok ⊢
    obtain ⟨h1, h2⟩ := hok
    exact ⟨h1, h2.imp id (hsup _ _)⟩
  · rename_i hd
    simpa only [hd] using hok

end LiquidVerif.TagAudit
