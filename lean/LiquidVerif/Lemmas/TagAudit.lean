import LiquidVerif.Model.TagAudit
/-! Helper lemmas for the tag-audit model (C21). -/
namespace LiquidVerif.TagAudit

/-- the main loop of `_audit_tags` never fails: `pop` is only reached with a non-empty stack -/
theorem loop_ok (tbl : EnvTable) (isB isE : TagName → Bool) :
    ∀ (ts st : List TagName) (r : Report), ∃ p, loop tbl isB isE ts st r = .ok p := by
  intro ts
  induction ts with
  | nil => intro st r; exact ⟨(st, r), rfl⟩
  | cons t ts ih =>
    intro st r
    unfold loop
    by_cases hB : isB t = true
    · simp only [hB, if_true]; exact ih _ _
    · simp only [hB]
      by_cases hE : isE t = true
      · simp only [hE, if_true]
        cases st with
        | nil => simp only [List.isEmpty_nil, if_true]; exact ih _ _
        | cons s st' => simp only [List.isEmpty_cons, pyPop]; exact ih _ _
      · simp only [hE]; exact ih _ _

end LiquidVerif.TagAudit
