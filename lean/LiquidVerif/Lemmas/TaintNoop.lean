import LiquidVerif.Lemmas.Taint
/-! On text without `<`, `>`, `'`, `"`, `&` escaping is the identity, so the `Markup` operators and `to_liquid_string`
produce the same characters whether autoescape is on or off. -/
namespace LiquidVerif.Taint
open LiquidVerif.Escape

/-- none of the five HTML-special characters -/
def NoSp (s : Str) : Prop := ∀ c ∈ s, special c = false ∧ c ≠ '&'

def isNoSp (s : Str) : Bool := s.all fun c => !special c && c != '&'

theorem isNoSp_iff {s : Str} : isNoSp s = true ↔ NoSp s := by
  simp [isNoSp, NoSp]

theorem escChar_noop {c : Char} (h : special c = false ∧ c ≠ '&') : escChar c = [c] := by
  obtain ⟨hs, ha⟩ := h
  simp only [special, Bool.or_eq_false_iff, beq_eq_false_iff_ne, ne_eq] at hs
  simp [escChar, ha, hs.1.1.1, hs.1.1.2, hs.1.2, hs.2]

theorem escape_noop {s : Str} (h : NoSp s) : escape s = s := by
  induction s with
  | nil => rfl
  | cons c cs ih =>
    simp only [escape, escChar_noop (h c (by simp)), List.cons_append, List.nil_append]
    rw [ih (fun d hd => h d (List.mem_cons_of_mem _ hd))]

theorem htmlEscChar_noop {c : Char} (h : special c = false ∧ c ≠ '&') : htmlEscChar c = [c] := by
  obtain ⟨hs, ha⟩ := h
  simp only [special, Bool.or_eq_false_iff, beq_eq_false_iff_ne, ne_eq] at hs
  simp [htmlEscChar, ha, hs.1.1.1, hs.1.1.2, hs.1.2, hs.2]

theorem htmlEscape_noop {s : Str} (h : NoSp s) : htmlEscape s = s := by
  induction s with
  | nil => rfl
  | cons c cs ih =>
    have := ih (fun d hd => h d (List.mem_cons_of_mem _ hd))
    simp only [htmlEscape, List.flatMap_cons] at this ⊢
    rw [htmlEscChar_noop (h c (by simp)), this]; rfl

/-- `Markup.escape` changes nothing on such text, whatever the flag -/
theorem escT_noop {s : TStr} (h : NoSp s.chars) : escT s = s.chars := by
  unfold escT; split
  · rfl
  · exact escape_noop h

/-- every string inside a value is free of the five characters -/
def Val.NoSp : Val → Prop
  | .str s => Taint.NoSp s.chars
  | .arr xs => ∀ x ∈ xs, Taint.NoSp x.chars
  | .obj h t => Taint.NoSp h ∧ h = t
  | .other t => Taint.NoSp t
  | _ => True

/-- the same value with every `Markup` flag dropped (what the engine holds when autoescape is off) -/
def Val.plain : Val → Val
  | .str s => .str ⟨s.chars, false⟩
  | .arr xs => .arr (xs.map fun x => ⟨x.chars, false⟩)
  | v => v

theorem outVal_noop {v : Val} (h : v.NoSp) : outVal true v = outVal false v.plain := by
  cases v with
  | str s => simp only [outVal, Val.plain, if_true]; exact escT_noop h
  | arr xs =>
    simp only [outVal, Val.plain, if_true, Bool.false_eq_true, if_false, List.map_map]
    congr 1
    apply List.map_congr_left
    intro x hx
    exact escT_noop (h x hx)
  | obj hh t => simp only [outVal, Val.plain, if_true, Bool.false_eq_true, if_false]; exact h.2
  | num n => rfl
  | nil => rfl
  | undef => rfl
  | bool b => rfl
  | other t => simp only [outVal, Val.plain, if_true, Bool.false_eq_true, if_false]; exact escape_noop h

theorem mixAdd_noop {a b : TStr} (ha : NoSp a.chars) (hb : NoSp b.chars) : (mixAdd a b).chars = a.chars ++ b.chars := by
  unfold mixAdd; split
  · simp only [escT_noop ha, escT_noop hb]
  · rfl

theorem joinT_noop {sep : TStr} {items : List TStr} (hi : ∀ x ∈ items, NoSp x.chars) :
    (joinT sep items).chars = LiquidVerif.Filters.joinStr sep.chars (items.map (·.chars)) := by
  unfold joinT; split
  · simp only
    congr 1
    apply List.map_congr_left
    intro x hx
    exact escT_noop (hi x hx)
  · rfl

theorem replaceT_noop (first : Bool) (s old : TStr) {new : TStr} (hn : NoSp new.chars) :
    (replaceT first s old new).chars = (if first then replaceFirst else replaceAll) old.chars new.chars s.chars := by
  unfold replaceT; simp only []; split
  · simp only [escT_noop hn]
  · rfl

end LiquidVerif.Taint
