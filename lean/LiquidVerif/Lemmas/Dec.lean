import LiquidVerif.Model.Dec
import Mathlib.Tactic.Linarith
import Mathlib.Tactic.SplitIfs
import Mathlib.Tactic.Ring
/-! Helper lemmas for C25: CPython integer division, rounding of exact rationals, decimal context. -/
namespace LiquidVerif.Filters

/-! ### `//` and `%` -/

/-- the division law `a = (a // b) * b + a % b`, and the remainder has the sign of the divisor -/
theorem pyDivMod_spec (a b : Int) (hb : b ≠ 0) :
    pyFloorDiv a b * b + pyMod a b = a ∧
    (0 < b → 0 ≤ pyMod a b ∧ pyMod a b < b) ∧ (b < 0 → b < pyMod a b ∧ pyMod a b ≤ 0) := by
  have hdm : ((a.natAbs / b.natAbs : Nat) : Int) * (b.natAbs : Int) + ((a.natAbs % b.natAbs : Nat) : Int) = (a.natAbs : Int) := by
    have := Nat.div_add_mod a.natAbs b.natAbs
    rw [Nat.mul_comm] at this
    exact_mod_cast this
  have hrlt : ((a.natAbs % b.natAbs : Nat) : Int) < (b.natAbs : Int) := by
    have : a.natAbs % b.natAbs < b.natAbs := Nat.mod_lt _ (by omega)
    exact_mod_cast this
  unfold pyFloorDiv pyMod
  simp only []
  generalize ((a.natAbs / b.natAbs : Nat) : Int) = q at *
  have hr0 : (0 : Int) ≤ ((a.natAbs % b.natAbs : Nat) : Int) := by omega
  generalize ((a.natAbs % b.natAbs : Nat) : Int) = r at *
  have hA : (0 ≤ a ∧ a = (a.natAbs : Int)) ∨ (a < 0 ∧ a = -(a.natAbs : Int)) := by omega
  have hB : (0 < b ∧ b = (b.natAbs : Int)) ∨ (b < 0 ∧ b = -(b.natAbs : Int)) := by omega
  generalize (a.natAbs : Int) = A at *
  generalize (b.natAbs : Int) = B at *
  rcases hA with ⟨ha, hA⟩ | ⟨ha, hA⟩ <;> rcases hB with ⟨hb', hB⟩ | ⟨hb', hB⟩ <;> subst hA hB <;>
    split_ifs <;> first | (exfalso; omega) | refine ⟨by nlinarith, by omega, by omega⟩

theorem pyFloorDiv_eq_fdiv (a b : Int) (hb : b ≠ 0) : pyFloorDiv a b = Int.fdiv a b := by
  obtain ⟨hlaw, hpos, hneg⟩ := pyDivMod_spec a b hb
  rcases Int.lt_or_gt_of_ne hb with hlt | hgt
  · -- b < 0 : go through (-a) / (-b)
    have h := hneg hlt
    rw [← Int.neg_fdiv_neg, Int.fdiv_eq_ediv_of_nonneg _ (by omega)]
    have : (-a) / (-b) = pyFloorDiv a b ∧ (-a) % (-b) = -pyMod a b := by
      rw [Int.ediv_emod_unique (by omega)]
      refine ⟨by nlinarith, by omega, by omega⟩
    exact this.1.symm
  · have h := hpos hgt
    rw [Int.fdiv_eq_ediv_of_nonneg _ (by omega)]
    have : a / b = pyFloorDiv a b ∧ a % b = pyMod a b := by
      rw [Int.ediv_emod_unique hgt]
      refine ⟨by nlinarith, h.1, h.2⟩
    exact this.1.symm

theorem pyMod_eq_fmod (a b : Int) (hb : b ≠ 0) : pyMod a b = Int.fmod a b := by
  have h1 := (pyDivMod_spec a b hb).1
  have h2 := Int.fdiv_mul_add_fmod a b
  rw [← pyFloorDiv_eq_fdiv a b hb] at h2
  omega


/-! ### floor, ceil, round-half-even of an exact rational `n / d` -/

theorem floorQ_spec (n : Int) (d : Nat) (hd : 0 < d) :
    floorQ n d * d ≤ n ∧ n < (floorQ n d + 1) * d := by
  have hd' : (0 : Int) < d := by exact_mod_cast hd
  unfold floorQ
  exact ⟨Int.ediv_mul_le n (by omega), Int.lt_ediv_add_one_mul_self n hd'⟩

theorem ceilQ_spec (n : Int) (d : Nat) (hd : 0 < d) :
    (ceilQ n d - 1) * d < n ∧ n ≤ ceilQ n d * d := by
  have hd' : (0 : Int) < d := by exact_mod_cast hd
  unfold ceilQ
  have h1 := Int.ediv_mul_le (-n) (show (d : Int) ≠ 0 by omega)
  have h2 := Int.lt_ediv_add_one_mul_self (-n) hd'
  constructor <;> nlinarith

/-- nearest natural, ties to even: `|2·(m·d − n)| ≤ d`, and an exact tie goes to the even neighbour -/
theorem roundHalfEvenNat_spec (n d : Nat) (hd : 0 < d) :
    let m := roundHalfEvenNat n d
    2 * n ≤ 2 * m * d + d ∧ 2 * m * d ≤ 2 * n + d ∧
    ((2 * n = 2 * m * d + d ∨ 2 * m * d = 2 * n + d) → m % 2 = 0) := by
  have hdm := Nat.div_add_mod n d
  have hlt := Nat.mod_lt n hd
  simp only [roundHalfEvenNat]
  generalize n / d = q at *
  generalize n % d = r at *
  have e1 : 2 * q * d = 2 * (d * q) := by ring
  have e2 : 2 * (q + 1) * d = 2 * (d * q) + 2 * d := by ring
  generalize d * q = P at *
  split_ifs with h1 h2 h3
  · rw [e1]; refine ⟨by omega, by omega, ?_⟩; intro h; omega
  · rw [e2]; refine ⟨by omega, by omega, ?_⟩; intro h; omega
  · rw [e1]; refine ⟨by omega, by omega, ?_⟩; intro _; simpa using h3
  · rw [e2]; refine ⟨by omega, by omega, ?_⟩
    intro _
    have : q % 2 ≠ 0 := by simpa using h3
    omega

theorem roundHalfEven_spec (n : Int) (d : Nat) (hd : 0 < d) :
    let m := roundHalfEven n d
    2 * n ≤ 2 * m * d + d ∧ 2 * m * d ≤ 2 * n + d ∧
    ((2 * n = 2 * m * d + d ∨ 2 * m * d = 2 * n + d) → m % 2 = 0) := by
  obtain ⟨h1, h2, h3⟩ := roundHalfEvenNat_spec n.natAbs d hd
  simp only [roundHalfEven]
  generalize roundHalfEvenNat n.natAbs d = m at *
  have e : ((2 * m * d : Nat) : Int) = 2 * (m : Int) * (d : Int) := by push_cast; ring
  generalize hP : 2 * m * d = P at *
  have hP' : 2 * (m : Int) * (d : Int) = (P : Int) := by rw [← e]
  split_ifs with hneg
  · have hn : (n.natAbs : Int) = -n := by omega
    have e3 : 2 * (-(m : Int)) * (d : Int) = -(P : Int) := by rw [← hP']; ring
    rw [e3]
    refine ⟨by omega, by omega, ?_⟩
    intro h
    have : m % 2 = 0 := h3 (by omega)
    omega
  · have hn : (n.natAbs : Int) = n := by omega
    rw [hP']
    refine ⟨by omega, by omega, ?_⟩
    intro h
    have : m % 2 = 0 := h3 (by omega)
    omega

/-! ### decimal context -/

theorem Dec.round_of_fits (x : Dec) (h : digits10 x.coef.natAbs ≤ PREC) : x.round = x := by
  simp [Dec.round, h]

end LiquidVerif.Filters
