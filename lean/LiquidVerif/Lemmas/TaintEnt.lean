import LiquidVerif.Lemmas.TaintFilters
import LiquidVerif.Lemmas.TaintEntMore
/-! The stronger invariant "a `Markup` holds no raw special **and** each of its `&` begins an entity" (`Good`), for the
entity-friendly filters (`FName.entFriendly`). Same structure as `Lemmas/Taint*.lean`. -/
namespace LiquidVerif.Taint
open LiquidVerif.Escape
open LiquidVerif.Filters (joinStr truncateChars truncateWords MAX_TRUNC_WORDS downcase capitalize lstrip rstrip strip)

def Good (s : Str) : Prop := Clean s ∧ isEnt s = true

def TStr.InvE (s : TStr) : Prop := s.safe = true → Good s.chars

def Val.InvE : Val → Prop
  | .str s => s.InvE
  | .arr xs => ∀ x ∈ xs, x.InvE
  | .obj h _ => Good h
  | _ => True

theorem isGood_iff {s : Str} : (isClean s && isEnt s) = true ↔ Good s := by
  simp [Good, isClean_iff]

theorem good_nil : Good [] := ⟨clean_nil, rfl⟩
theorem good_append_mpr {a b : Str} (h : Good a ∧ Good b) : Good (a ++ b) :=
  ⟨clean_append.mpr ⟨h.1.1, h.2.1⟩, isEnt_append h.1.2 h.2.2⟩
theorem good_escape (s : Str) : Good (escape s) := ⟨escape_isClean s, escape_isEnt s⟩

theorem isEnt_of_noAmp {s : Str} (h : ∀ c ∈ s, c ≠ '&') : isEnt s = true := by
  induction s with
  | nil => rfl
  | cons c cs ih =>
    simp only [isEnt, Bool.and_eq_true, Bool.or_eq_true, bne_iff_ne, ne_eq]
    exact ⟨Or.inl (h c (by simp)), ih (fun d hd => h d (List.mem_cons_of_mem _ hd))⟩

theorem good_of_noAmp {s : Str} (hc : Clean s) (h : ∀ c ∈ s, c ≠ '&') : Good s := ⟨hc, isEnt_of_noAmp h⟩

theorem hexDigit_ne_amp (n : Nat) : hexDigit n ≠ '&' := by
  have h : ∀ k, k < 16 → hexDigit k ≠ '&' := by decide
  have : hexDigit n = hexDigit (n % 16) := by simp [hexDigit]
  rw [this]; exact h _ (Nat.mod_lt _ (by decide))

theorem noAmp_flatMap {α} {xs : List α} {f : α → Str} (h : ∀ x ∈ xs, ∀ c ∈ f x, c ≠ '&') : ∀ c ∈ xs.flatMap f, c ≠ '&' := by
  intro c hc
  obtain ⟨x, hx, hcx⟩ := List.mem_flatMap.mp hc
  exact h x hx c hcx

theorem noAmp_quotePlus (s : Str) : ∀ c ∈ quotePlus s, c ≠ '&' := by
  unfold quotePlus
  refine noAmp_flatMap ?_
  intro c _
  unfold quoteChar
  split
  · rename_i hu
    intro d hd
    simp only [List.mem_singleton] at hd; subst hd
    intro he; subst he
    simp [isUnreserved] at hu
  · split
    · intro d hd; simp only [List.mem_singleton] at hd; subst hd; decide
    · refine noAmp_flatMap ?_
      intro b _ d hd
      unfold pctByte at hd
      simp only [List.mem_cons, List.mem_nil_iff, or_false] at hd
      rcases hd with rfl | rfl | rfl
      · decide
      · exact hexDigit_ne_amp _
      · exact hexDigit_ne_amp _

theorem noAmp_jsEscape (s : Str) : ∀ c ∈ jsEscape s, c ≠ '&' := by
  unfold jsEscape
  refine noAmp_flatMap ?_
  intro c _
  unfold jsChar
  split
  · intro d hd
    simp only [List.mem_cons, List.mem_nil_iff, or_false] at hd
    rcases hd with rfl | rfl | rfl | rfl | rfl | rfl
    · decide
    · decide
    all_goals exact hexDigit_ne_amp _
  · rename_i hm
    intro d hd
    simp only [List.mem_singleton] at hd; subst hd
    intro he; subst he
    simp [jsMapped] at hm

theorem noAmp_natDigits (n : Nat) : ∀ c ∈ natDigits n, c ≠ '&' := by
  have hd : ∀ k, k < 10 → Char.ofNat (48 + k) ≠ '&' := by decide
  induction n using Nat.strongRecOn with
  | _ n ih =>
    rw [natDigits]
    split
    · rename_i h
      intro d hdm
      simp only [List.mem_singleton] at hdm; subst hdm
      exact hd n h
    · rename_i h
      intro d hdm
      rcases List.mem_append.mp hdm with hdm | hdm
      · exact ih (n / 10) (by omega) d hdm
      · simp only [List.mem_singleton] at hdm; subst hdm
        exact hd _ (Nat.mod_lt _ (by decide))

theorem good_intStr (i : Int) : Good (intStr i) := by
  refine good_of_noAmp (clean_intStr i) ?_
  unfold intStr
  split
  · intro c hc
    rcases List.mem_cons.mp hc with rfl | hc
    · decide
    · exact noAmp_natDigits _ c hc
  · exact noAmp_natDigits _

theorem invE_unsafe (c : Str) : (⟨c, false⟩ : TStr).InvE := by intro h; cases h
theorem invE_safe {c : Str} (h : Good c) : (⟨c, true⟩ : TStr).InvE := fun _ => h

theorem good_escT {s : TStr} (h : s.InvE) : Good (escT s) := by
  unfold escT
  split
  · rename_i hs; exact h hs
  · exact good_escape _

theorem mixAdd_invE {a b : TStr} (ha : a.InvE) (hb : b.InvE) : (mixAdd a b).InvE := by
  unfold mixAdd
  split
  · exact invE_safe (good_append_mpr ⟨good_escT ha, good_escT hb⟩)
  · exact invE_unsafe _

theorem keepSafe_invE {f : Str → Str} (hf : ∀ s, Good s → Good (f s)) {s : TStr} (h : s.InvE) : (keepSafe f s).InvE :=
  fun hs => hf _ (h hs)

theorem plusSpace_invE {s : TStr} (hs : s.InvE) : (replaceT false s ⟨['+'], false⟩ ⟨[' '], false⟩).InvE := by
  simp only [replaceT, Bool.false_eq_true, if_false]
  split
  · rename_i h
    have he : escT ⟨[' '], false⟩ = [' '] := by decide
    rw [he]
    exact invE_safe ⟨clean_replaceAll (by decide) (hs h).1, isEnt_plus_space (hs h).2⟩
  · exact invE_unsafe _

theorem good_joinStr {sep : Str} {xs : List Str} (hs : Good sep) (hx : ∀ x ∈ xs, Good x) : Good (joinStr sep xs) := by
  induction xs with
  | nil => exact good_nil
  | cons x r ih =>
    cases r with
    | nil => exact hx x (by simp)
    | cons y r' =>
      unfold joinStr
      exact good_append_mpr ⟨good_append_mpr ⟨hx x (by simp), hs⟩, ih (fun z hz => hx z (List.mem_cons_of_mem _ hz))⟩

theorem joinT_invE {sep : TStr} {items : List TStr} (hsep : sep.InvE) (hi : ∀ x ∈ items, x.InvE) : (joinT sep items).InvE := by
  unfold joinT
  split
  · rename_i h
    refine invE_safe (good_joinStr (hsep h) ?_)
    intro x hx
    obtain ⟨t, ht, rfl⟩ := List.mem_map.mp hx
    exact good_escT (hi t ht)
  · exact invE_unsafe _

theorem recvS_invE (P : Prims) {v : Val} (h : v.InvE) : (recvS P v).InvE := by
  cases v <;> first | exact h | exact invE_unsafe _

theorem argS_invE (P : Prims) {v : Val} (h : v.InvE) : (argS P v).InvE := by
  cases v <;> first | exact h | exact invE_unsafe _

theorem seqOf_invE (P : Prims) {v : Val} (h : v.InvE) {items : List TStr} (hq : seqOf P v = some items) :
    ∀ x ∈ items, x.InvE := by
  cases v <;> simp only [seqOf, Option.some.injEq, reduceCtorEq] at hq
  · subst hq; intro x hx; simp only [List.mem_singleton] at hx; subst hx; exact h
  · subst hq; exact h
  · subst hq; intro x hx; simp only [List.mem_singleton] at hx; subst hx; exact invE_unsafe _
  · subst hq; intro x hx; cases hx
  · subst hq; intro x hx; simp only [List.mem_singleton] at hx; subst hx; exact invE_unsafe _

theorem joinSep_invE (P : Prims) (auto : Bool) {args : List Val} (ha : ∀ a ∈ args, a.InvE) : (joinSep P auto args).InvE := by
  have h0 : (match args with | [a] => argS P a | _ => (⟨[' '], false⟩ : TStr)).InvE := by
    split
    · rename_i a; exact argS_invE P (ha a (by simp))
    · exact invE_unsafe _
  have h1 : ∀ sep0 : TStr, sep0.InvE → (if (auto && sep0.chars == [' ']) = true then (⟨[' '], true⟩ : TStr) else sep0).InvE := by
    intro sep0 h
    split
    · exact invE_safe (c := [' ']) ⟨by decide, by decide⟩
    · exact h
  exact h1 _ h0

theorem defaultArg_invE {args : List Val} (ha : ∀ a ∈ args, a.InvE) : (defaultArg args).InvE := by
  unfold defaultArg
  split
  · rename_i a; exact ha a (by simp)
  · exact invE_unsafe _

theorem outVal_good {v : Val} (h : v.InvE) : Good (outVal true v) := by
  cases v with
  | str s => exact good_escT h
  | arr xs =>
    simp only [outVal, if_true]
    have : ∀ (ys : List Str), (∀ y ∈ ys, Good y) → Good ys.flatten := by
      intro ys
      induction ys with
      | nil => intro _; exact good_nil
      | cons y r ih =>
        intro hy
        simp only [List.flatten_cons]
        exact good_append_mpr ⟨hy y (by simp), ih (fun z hz => hy z (List.mem_cons_of_mem _ hz))⟩
    refine this _ ?_
    intro x hx
    obtain ⟨t, ht, rfl⟩ := List.mem_map.mp hx
    exact good_escT (h t ht)
  | num n => exact good_intStr n
  | nil => exact good_nil
  | undef => exact good_nil
  | bool b => cases b <;> exact ⟨by decide, by decide⟩
  | obj hh t => exact h
  | other t => exact good_escape t

theorem okS_invE {s : TStr} {r : Val} (h : okS s = .ok r) (hs : s.InvE) : r.InvE := by
  simp only [okS, Except.ok.injEq] at h; subst h; exact hs

/-- every entity-friendly filter preserves "each `&` of a `Markup` begins an entity" (and cleanliness) -/
theorem applyFilter_invE (P : Prims) {f : FName} {v : Val} {args : List Val} {r : Val}
    (hf : f.entFriendly = true) (hv : v.InvE) (ha : ∀ a ∈ args, a.InvE)
    (h : applyFilter P true f v args = .ok r) : r.InvE := by
  have hs := recvS_invE P hv
  unfold applyFilter at h
  simp only [] at h
  split at h
  all_goals first
    | (cases h; done)
    | (simp [FName.entFriendly] at hf; done)
    | exact okS_invE h (mixAdd_invE hs (argS_invE P (ha _ (by simp))))
    | exact okS_invE h (mixAdd_invE (argS_invE P (ha _ (by simp))) hs)
    | exact okS_invE h (invE_unsafe _)
    | exact okS_invE h (keepSafe_invE (fun _ hg => ⟨clean_downcase hg.1, isEnt_downcase hg.2⟩) hs)
    | exact okS_invE h (keepSafe_invE (fun _ hg => ⟨clean_capitalize hg.1, isEnt_capitalize hg.2⟩) hs)
    | exact okS_invE h (keepSafe_invE (fun _ hg => ⟨clean_lstrip hg.1, isEnt_lstrip hg.2⟩) hs)
    | exact okS_invE h (keepSafe_invE (fun _ hg => ⟨clean_rstrip hg.1, isEnt_rstrip hg.2⟩) hs)
    | exact okS_invE h (keepSafe_invE (fun _ hg => ⟨clean_strip hg.1, isEnt_strip hg.2⟩) hs)
    | exact okS_invE h (invE_safe (good_of_noAmp (clean_quotePlus _) (noAmp_quotePlus _)))
    | exact okS_invE h (invE_safe (good_of_noAmp (clean_jsEscape _) (noAmp_jsEscape _)))
    | skip
  -- escape
  case h_6 =>
    simp only [↓reduceIte] at h
    exact okS_invE h (invE_safe (good_escape _))
  -- strip_html: the identity on a clean value
  case h_21 =>
    refine okS_invE h (fun hsafe => ?_)
    simp only [Bool.true_and] at hsafe
    have hc := hs hsafe
    simp only [not_contains_lt hc.1, Bool.false_and, Bool.false_eq_true, if_false]
    exact hc
  -- strip_newlines
  case h_22 =>
    simp only [↓reduceIte] at h
    exact okS_invE h (invE_safe ⟨clean_subNewlines clean_nil (good_escT hs).1, isEnt_subNewlines_nil (good_escT hs).2⟩)
  -- url_decode
  case h_27 =>
    have ht := plusSpace_invE hs
    split at h
    · exact okS_invE h (invE_unsafe _)
    · exact okS_invE h ht
  -- truncate
  case h_24 =>
    repeat' (split at h)
    all_goals first | (cases h; done) | exact okS_invE h hs | exact okS_invE h (invE_unsafe _)
  -- truncatewords
  case h_25 =>
    repeat' (split at h)
    all_goals first | (cases h; done) | exact okS_invE h hs | exact okS_invE h (invE_unsafe _)
  -- base64 family
  case h_28 => split at h <;> first | exact okS_invE h (invE_unsafe _) | cases h
  case h_29 => split at h <;> first | exact okS_invE h (invE_unsafe _) | cases h
  case h_30 => split at h <;> first | exact okS_invE h (invE_unsafe _) | cases h
  case h_31 => split at h <;> first | exact okS_invE h (invE_unsafe _) | cases h
  -- join
  case h_35 =>
    split at h
    · cases h
    · split at h
      · cases h
      · rename_i items hq
        exact okS_invE h (joinT_invE (joinSep_invE P true ha) (seqOf_invE P hv hq))
  -- first
  case h_36 =>
    split at h
    · exact okS_invE h (hv _ (by simp))
    · simp only [Except.ok.injEq] at h; subst h; trivial
    · simp only [Except.ok.injEq] at h; subst h; trivial
  -- last
  case h_37 =>
    split at h
    · split at h
      · rename_i xs x hl
        exact okS_invE h (hv x (List.mem_of_getLast? hl))
      · simp only [Except.ok.injEq] at h; subst h; trivial
    · simp only [Except.ok.injEq] at h; subst h; trivial
    · simp only [Except.ok.injEq] at h; subst h; trivial
  -- reverse
  case h_38 =>
    split at h
    · rename_i items hq
      simp only [Except.ok.injEq] at h; subst h
      intro x hx
      exact seqOf_invE P hv hq x (List.mem_reverse.mp hx)
    · cases h
  -- concat
  case h_39 =>
    rename_i a
    split at h
    · rename_i ys
      split at h
      · rename_i items hq
        simp only [Except.ok.injEq] at h; subst h
        intro x hx
        rcases List.mem_append.mp hx with hx | hx
        · exact seqOf_invE P hv hq x hx
        · exact ha (.arr ys) (by simp) x hx
      · cases h
    · cases h
  -- size
  case h_40 =>
    repeat' (split at h)
    all_goals (simp only [Except.ok.injEq] at h; subst h; trivial)
  -- default
  case h_41 =>
    have hd := defaultArg_invE ha
    repeat' (split at h)
    all_goals first
      | (cases h; done)
      | (simp only [Except.ok.injEq] at h; subst h; first | exact hv | exact hd)

end LiquidVerif.Taint
