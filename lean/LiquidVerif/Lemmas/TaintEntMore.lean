import LiquidVerif.Lemmas.TaintFilters
/-! `Ent` ("every `&` begins an entity") survives the remaining `keepSafe` filters: `downcase`, `capitalize`, `lstrip`, `rstrip`,
`strip`, `strip_newlines`, and the `+ → space` replacement of `url_decode`. -/
namespace LiquidVerif.Taint
open LiquidVerif.Escape
open LiquidVerif.Filters (isSpace upcase downcase capitalize lstrip rstrip strip hasPrefix upperC lowerC isLowerC isUpperC)

theorem startsWith_split : ∀ {e s : Str}, startsWith e s = true → ∃ r, s = e ++ r := by
  intro e
  induction e with
  | nil => intro s _; exact ⟨s, rfl⟩
  | cons x xs ih =>
    intro s h
    cases s with
    | nil => simp [startsWith] at h
    | cons y ys =>
      simp only [startsWith, Bool.and_eq_true, beq_iff_eq] at h
      obtain ⟨r, hr⟩ := ih h.2
      exact ⟨r, by rw [h.1, hr]; rfl⟩

theorem entityAt_split {s : Str} (h : entityAt s = true) : ∃ e ∈ entities, ∃ r, s = e ++ r := by
  simp only [entityAt, List.any_eq_true] at h
  obtain ⟨e, he, hs⟩ := h
  exact ⟨e, he, startsWith_split hs⟩

/-- the characters occurring in the five entities -/
def entChar (c : Char) : Bool := c == '&' || c == 'a' || c == 'm' || c == 'p' || c == ';' || c == 'l' || c == 't' || c == 'g'
  || c == '#' || c == '3' || c == '9' || c == '4'

theorem entChar_of_mem {e : Str} (he : e ∈ entities) : ∀ c ∈ e, entChar c = true := by
  simp only [entities, List.mem_cons, List.mem_nil_iff, or_false] at he
  rcases he with rfl | rfl | rfl | rfl | rfl <;> decide

theorem map_fix {f : Char → Char} (hfix : ∀ c, entChar c = true → f c = c) : ∀ (e : Str), (∀ c ∈ e, entChar c = true) → e.map f = e := by
  intro e
  induction e with
  | nil => intro _; rfl
  | cons x xs ih =>
    intro h
    simp only [List.map_cons]
    rw [hfix x (h x (by simp)), ih (fun c hc => h c (List.mem_cons_of_mem _ hc))]

/-- a character map that fixes the entity characters and creates no new `&` preserves `Ent` -/
theorem isEnt_map {f : Char → Char} (hfix : ∀ c, entChar c = true → f c = c) (hamp : ∀ c, f c = '&' → c = '&') :
    ∀ {s : Str}, isEnt s = true → isEnt (s.map f) = true := by
  intro s
  induction s with
  | nil => intro _; rfl
  | cons c cs ih =>
    intro h
    simp only [isEnt, Bool.and_eq_true, Bool.or_eq_true, bne_iff_ne, ne_eq] at h
    simp only [List.map_cons, isEnt, Bool.and_eq_true, Bool.or_eq_true, bne_iff_ne, ne_eq]
    refine ⟨?_, ih h.2⟩
    by_cases hc : f c = '&'
    · right
      have hc' := hamp c hc
      rcases h.1 with h1 | h1
      · exact absurd hc' h1
      · obtain ⟨e, he, r, hr⟩ := entityAt_split h1
        have hmap : (c :: cs).map f = e ++ r.map f := by
          rw [hr, List.map_append, map_fix hfix e (entChar_of_mem he)]
        have : f c :: cs.map f = e ++ r.map f := by simpa using hmap
        rw [this]
        exact entityAt_of_mem he _
    · left; exact hc

theorem lowerC_fix (c : Char) (h : entChar c = true) : lowerC c = c := by
  have : isUpperC c = false := by
    simp only [entChar, Bool.or_eq_true, beq_iff_eq] at h
    rcases h with (((((((((((h|h)|h)|h)|h)|h)|h)|h)|h)|h)|h)|h) <;> subst h <;> decide
  simp [lowerC, this]

theorem lowerC_amp (c : Char) (h : lowerC c = '&') : c = '&' := by
  unfold lowerC at h
  split at h
  · rename_i hu
    simp only [isUpperC, Bool.and_eq_true, decide_eq_true_eq] at hu
    have h1 : c.toNat + 32 < 123 := by omega
    have h2 : 97 ≤ c.toNat + 32 := by omega
    generalize c.toNat + 32 = n at h h1 h2
    have : ∀ n, n < 123 → 97 ≤ n → Char.ofNat n ≠ '&' := by decide
    exact absurd h (this n h1 h2)
  · exact h

theorem upperC_amp (c : Char) (h : upperC c = '&') : c = '&' := by
  unfold upperC at h
  split at h
  · rename_i hu
    simp only [isLowerC, Bool.and_eq_true, decide_eq_true_eq] at hu
    have h1 : c.toNat - 32 < 91 := by omega
    have h2 : 65 ≤ c.toNat - 32 := by omega
    generalize c.toNat - 32 = n at h h1 h2
    have : ∀ n, n < 91 → 65 ≤ n → Char.ofNat n ≠ '&' := by decide
    exact absurd h (this n h1 h2)
  · exact h

theorem isEnt_downcase {s : Str} (h : isEnt s = true) : isEnt (downcase s) = true :=
  isEnt_map lowerC_fix lowerC_amp h

theorem isEnt_tail {c : Char} {cs : Str} (h : isEnt (c :: cs) = true) : isEnt cs = true := by
  simp only [isEnt, Bool.and_eq_true] at h; exact h.2

theorem isEnt_capitalize {s : Str} (h : isEnt s = true) : isEnt (capitalize s) = true := by
  cases s with
  | nil => rfl
  | cons c cs =>
    have ht := isEnt_map lowerC_fix lowerC_amp (isEnt_tail h)
    simp only [capitalize, isEnt, Bool.and_eq_true, Bool.or_eq_true, bne_iff_ne, ne_eq]
    refine ⟨?_, ht⟩
    by_cases hc : upperC c = '&'
    · right
      have hc' := upperC_amp c hc
      subst hc'
      simp only [isEnt, Bool.and_eq_true, Bool.or_eq_true, bne_iff_ne, ne_eq, not_true_eq_false, false_or] at h
      obtain ⟨e, he, r, hr⟩ := entityAt_split h.1
      -- the lower-cased tail still starts with the rest of the entity
      have hm := isEnt_map lowerC_fix lowerC_amp (s := '&' :: cs) (by simp [isEnt, h.1, h.2])
      simp only [List.map_cons, isEnt, Bool.and_eq_true, Bool.or_eq_true, bne_iff_ne, ne_eq] at hm
      have h38 : lowerC '&' = '&' := by decide
      rw [h38] at hm
      rcases hm.1 with h1 | h1
      · exact absurd rfl h1
      · have : upperC '&' = '&' := by decide
        rw [this]; exact h1
    · left; exact hc

theorem isEnt_lstrip {s : Str} (h : isEnt s = true) : isEnt (lstrip s) = true := by
  induction s with
  | nil => rfl
  | cons c cs ih =>
    unfold lstrip
    split
    · exact ih (isEnt_tail h)
    · exact h

/-- an entity that is a prefix of `a ++ w`, `w` all whitespace, is a prefix of `a` -/
theorem startsWith_of_append_space : ∀ {e a w : Str}, (∀ c ∈ e, isSpace c = false) → (∀ c ∈ w, isSpace c = true) →
    startsWith e (a ++ w) = true → startsWith e a = true := by
  intro e
  induction e with
  | nil => intros; rfl
  | cons x xs ih =>
    intro a w he hw h
    cases a with
    | nil =>
      cases w with
      | nil => simp [startsWith] at h
      | cons y ys =>
        simp only [List.nil_append, startsWith, Bool.and_eq_true, beq_iff_eq] at h
        have h1 := he x (by simp)
        have h2 := hw y (by simp)
        rw [h.1] at h1; rw [h1] at h2; cases h2
    | cons y ys =>
      simp only [List.cons_append, startsWith, Bool.and_eq_true] at h
      simp only [startsWith, Bool.and_eq_true]
      exact ⟨h.1, ih (fun c hc => he c (List.mem_cons_of_mem _ hc)) hw h.2⟩

theorem entity_noSpace {e : Str} (he : e ∈ entities) : ∀ c ∈ e, isSpace c = false := by
  simp only [entities, List.mem_cons, List.mem_nil_iff, or_false] at he
  rcases he with rfl | rfl | rfl | rfl | rfl <;> decide

theorem isEnt_of_append_space : ∀ {a w : Str}, (∀ c ∈ w, isSpace c = true) → isEnt (a ++ w) = true → isEnt a = true := by
  intro a
  induction a with
  | nil => intros; rfl
  | cons c cs ih =>
    intro w hw h
    simp only [List.cons_append, isEnt, Bool.and_eq_true, Bool.or_eq_true, bne_iff_ne, ne_eq] at h
    simp only [isEnt, Bool.and_eq_true, Bool.or_eq_true, bne_iff_ne, ne_eq]
    refine ⟨?_, ih hw h.2⟩
    rcases h.1 with h1 | h1
    · exact Or.inl h1
    · right
      simp only [entityAt, List.any_eq_true] at h1 ⊢
      obtain ⟨e, he, hs⟩ := h1
      exact ⟨e, he, startsWith_of_append_space (a := c :: cs) (entity_noSpace he) hw (by simpa using hs)⟩

theorem lstrip_decomp (s : Str) : ∃ w, (∀ c ∈ w, isSpace c = true) ∧ s = w ++ lstrip s := by
  induction s with
  | nil => exact ⟨[], by simp, rfl⟩
  | cons c cs ih =>
    unfold lstrip
    split
    · rename_i hc
      obtain ⟨w, hw, hs⟩ := ih
      refine ⟨c :: w, ?_, by rw [List.cons_append, ← hs]⟩
      intro d hd
      rcases List.mem_cons.mp hd with rfl | hd
      · exact hc
      · exact hw d hd
    · exact ⟨[], by simp, rfl⟩

theorem isEnt_rstrip {s : Str} (h : isEnt s = true) : isEnt (rstrip s) = true := by
  obtain ⟨w, hw, hs⟩ := lstrip_decomp s.reverse
  have : s = rstrip s ++ w.reverse := by
    have := congrArg List.reverse hs
    simpa [rstrip] using this
  rw [this] at h
  exact isEnt_of_append_space (fun c hc => hw c (List.mem_reverse.mp hc)) h

theorem isEnt_strip {s : Str} (h : isEnt s = true) : isEnt (strip s) = true := by
  unfold strip; exact isEnt_rstrip (isEnt_lstrip h)

/-- `\r?\n` removal passes over an entity unchanged -/
theorem subNewlines_entity (rep : Str) {e : Str} (he : ∀ c ∈ e, c ≠ '\r' ∧ c ≠ '\n') (r : Str) :
    subNewlines rep (e ++ r) = e ++ subNewlines rep r := by
  induction e with
  | nil => rfl
  | cons x xs ih =>
    have hx := he x (by simp)
    have : subNewlines rep (x :: (xs ++ r)) = x :: subNewlines rep (xs ++ r) := by
      have hne : ∀ cs, x = '\r' → xs ++ r = '\n' :: cs → False := fun _ h _ => hx.1 h
      rw [subNewlines.eq_3 rep x (xs ++ r) hne]
      have hb : (x == '\n') = false := by simpa using hx.2
      rw [hb]; rfl
    rw [List.cons_append, this, ih (fun c hc => he c (List.mem_cons_of_mem _ hc))]
    rfl

theorem entity_noNewline {e : Str} (he : e ∈ entities) : ∀ c ∈ e, c ≠ '\r' ∧ c ≠ '\n' := by
  simp only [entities, List.mem_cons, List.mem_nil_iff, or_false] at he
  rcases he with rfl | rfl | rfl | rfl | rfl <;> decide

theorem isEnt_subNewlines_nil : ∀ {s : Str}, isEnt s = true → isEnt (subNewlines [] s) = true := by
  intro s
  fun_induction subNewlines [] s with
  | case1 => intro _; rfl
  | case2 cs ih => intro h; simpa using ih (isEnt_tail (isEnt_tail h))
  | case3 c cs hne hc ih => intro h; simpa using ih (isEnt_tail h)
  | case4 c cs hne hc ih =>
    intro h
    have ht := ih (isEnt_tail h)
    simp only [isEnt, Bool.and_eq_true, Bool.or_eq_true, bne_iff_ne, ne_eq] at h ⊢
    refine ⟨?_, ht⟩
    rcases h.1 with h1 | h1
    · exact Or.inl h1
    · right
      obtain ⟨e, he, r, hr⟩ := entityAt_split h1
      have hsub := subNewlines_entity [] (entity_noNewline he) r
      rw [← hr, subNewlines.eq_3 _ _ _ hne] at hsub
      simp only [hc, if_false, Bool.false_eq_true] at hsub
      rw [hsub]
      exact entityAt_of_mem he _

/-- `str.replace('+', ' ')` is a character map -/
theorem replaceAux_plus (s : Str) : replaceAux ['+'] [' '] 0 s = s.map (fun c => if c == '+' then ' ' else c) := by
  induction s with
  | nil => rfl
  | cons c cs ih =>
    unfold replaceAux
    by_cases hc : c = '+'
    · subst hc; simp [hasPrefix, ih]
    · have : (c == '+') = false := by simpa using hc
      simp [hasPrefix, this, ih, hc]
      intro h; exact absurd h.symm hc

theorem isEnt_plus_space {s : Str} (h : isEnt s = true) : isEnt (replaceAll ['+'] [' '] s) = true := by
  have : replaceAll ['+'] [' '] s = s.map (fun c => if c == '+' then ' ' else c) := by
    simp [replaceAll, replaceAux_plus]
  rw [this]
  refine isEnt_map ?_ ?_ h
  · intro c hc
    have : c ≠ '+' := by
      intro h; subst h; simp [entChar] at hc
    simp [this]
  · intro c hc
    by_cases h : c = '+'
    · subst h; simp at hc
    · simpa [h] using hc

end LiquidVerif.Taint
