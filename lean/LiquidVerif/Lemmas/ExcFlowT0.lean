import LiquidVerif.Lemmas.ExcFlowKnown
/-! C02 finite table (one file per table so that lake checks them in parallel). -/
namespace LiquidVerif.C02
open LiquidVerif.Gen.C02 Cls Res

theorem table_deco : (FilterName.all.all fun f => decide (f.decos.length ≤ 1)) = true := by decide +kernel

theorem table_fixed : (FilterName.all.all fun f => postOk f (.ok ()) && postOk f (.error .TypeError)) = true := by
  decide +kernel

theorem table_pre :
    (FilterName.all.all fun f => Cls.all.all fun l => (pre f l).excs.all fun e =>
      knownLeak f l 0 none || allContained (postEval (.error e))) = true := by decide +kernel

theorem table_s0 :
    (FilterName.all.all fun f => Cls.all.all fun l => (pre f l).oks.all fun l' =>
      ((steps f l').s0.excs ++ (steps f l').sEnd.excs).all fun e =>
        knownLeak f l 0 none || postOk f (.error e)) = true := by decide +kernel

end LiquidVerif.C02
