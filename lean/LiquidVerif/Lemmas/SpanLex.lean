import LiquidVerif.Model.ExprLex
import LiquidVerif.Model.LiquidLines
import LiquidVerif.Model.ErrCtx
/-!
Helper lemmas for C20: the arithmetic positions of the scanners are the lengths of what was consumed.
-/
namespace LiquidVerif.SpanLex

/-- `txt` is written in `src` at offset `off`  (`src[off : off + len(txt)] == txt`) -/
def Located (src : List Char) (off : Nat) (txt : List Char) : Prop :=
  ∃ a b, src = a ++ (txt ++ b) ∧ a.length = off

theorem located_slice {src : List Char} {off : Nat} {txt : List Char} (h : Located src off txt) :
    (src.drop off).take txt.length = txt := by
  obtain ⟨a, b, rfl, rfl⟩ := h
  simp

theorem located_inner {src : List Char} {off : Nat} {txt pre g post : List Char} (h : Located src off txt)
    (hg : txt = pre ++ (g ++ post)) : Located src (off + pre.length) g := by
  obtain ⟨a, b, rfl, rfl⟩ := h
  exact ⟨a ++ pre, post ++ b, by simp [hg], by simp⟩

theorem located_le {src : List Char} {off : Nat} {txt : List Char} (h : Located src off txt) :
    off + txt.length ≤ src.length := by
  obtain ⟨a, b, rfl, rfl⟩ := h
  simp

open LiquidVerif.ExprLex in
/-- every match of `scan` sits, in the scanned text, at the position computed for it -/
theorem scan_located (n : Nat) : ∀ (cs pre : List Char), cs.length = n →
    ∀ p ∈ scan pre.length cs, Located (pre ++ cs) p.1 p.2.raw := by
  induction n using Nat.strongRecOn with
  | _ n ih =>
    intro cs pre hn p hp
    cases cs with
    | nil => simp [scan] at hp
    | cons c r =>
      rw [scan] at hp
      have hok := matchAt_ok c r
      rcases List.mem_cons.mp hp with h | h
      · subst h
        exact ⟨pre, (matchAt c r).rest, by simp [hok.app], rfl⟩
      · have hlt := matchAt_rest_lt c r
        have := ih (matchAt c r).rest.length (by omega) (matchAt c r).rest (pre ++ (matchAt c r).raw) rfl p
          (by simpa using h)
        simpa [List.append_assoc, hok.app] using this

open LiquidVerif.ExprLex in
/-- the matches of `scan` tile the text: their texts concatenate to it -/
theorem scan_tiles (n : Nat) : ∀ (cs : List Char) (pos : Nat), cs.length = n →
    ((scan pos cs).map (·.2.raw)).flatten = cs := by
  induction n using Nat.strongRecOn with
  | _ n ih =>
    intro cs pos hn
    cases cs with
    | nil => simp [scan]
    | cons c r =>
      rw [scan]
      have hok := matchAt_ok c r
      have hlt := matchAt_rest_lt c r
      have := ih (matchAt c r).rest.length (by omega) (matchAt c r).rest (pos + (matchAt c r).raw.length) rfl
      simp [this, hok.app]

open LiquidVerif.ExprLex in
theorem scan_ok (n : Nat) : ∀ (cs : List Char) (pos : Nat), cs.length = n →
    ∀ p ∈ scan pos cs, ∃ inp, p.2.Ok inp := by
  induction n using Nat.strongRecOn with
  | _ n ih =>
    intro cs pos hn p hp
    cases cs with
    | nil => simp [scan] at hp
    | cons c r =>
      rw [scan] at hp
      rcases List.mem_cons.mp hp with h | h
      · subst h; exact ⟨_, matchAt_ok c r⟩
      · have hlt := matchAt_rest_lt c r
        exact ih (matchAt c r).rest.length (by omega) _ _ rfl p h

open LiquidVerif.LiquidLines in
theorem scanLines_located (marker : List Char) (n : Nat) : ∀ (cs pre : List Char), cs.length = n →
    ∀ p ∈ scanLines marker pre.length cs, Located (pre ++ cs) p.1 p.2.raw ∧ ∃ inp, p.2.Ok inp := by
  induction n using Nat.strongRecOn with
  | _ n ih =>
    intro cs pre hn p hp
    cases cs with
    | nil => simp [scanLines] at hp
    | cons c r =>
      rw [scanLines] at hp
      have hok := lineAt_ok marker c r
      rcases List.mem_cons.mp hp with h | h
      · subst h
        exact ⟨⟨pre, (lineAt marker c r).rest, by simp [hok.app], rfl⟩, _, hok⟩
      · have hlt := lineAt_rest_lt marker c r
        have := ih (lineAt marker c r).rest.length (by omega) (lineAt marker c r).rest
          (pre ++ (lineAt marker c r).raw) rfl p (by simpa using h)
        simpa [List.append_assoc, hok.app] using this

/-! ## splitlines and the line search -/
open LiquidVerif.ErrCtx

theorem splitAux_flatten (cur cs : List Char) : (splitAux cur cs).flatten = cur ++ cs := by
  fun_induction splitAux cur cs <;> simp_all

theorem splitLines_flatten (text : List Char) : (splitLines text).flatten = text := by
  simp [splitLines, splitAux_flatten]

/-- the loop finds the first line whose cumulative end exceeds `index` -/
theorem findLine_spec (index : Nat) : ∀ (lines : List (List Char)) (i cum : Nat),
    cum ≤ index → index < cum + lines.flatten.length →
    ∃ k cum', findLine index i cum lines = some (i + k, cum') ∧ k < lines.length ∧
      cum' = cum + ((lines.take k).flatten.length + (lines.getD k []).length) ∧
      cum + (lines.take k).flatten.length ≤ index ∧ index < cum' := by
  intro lines
  induction lines with
  | nil => intro i cum h1 h2; simp at h2; omega
  | cons l ls ih =>
    intro i cum h1 h2
    simp only [findLine]
    split
    · next hlt => exact ⟨0, cum + l.length, by simp, by simp, by simp, by simpa using h1, hlt⟩
    · next hge =>
      have h2' : index < cum + l.length + ls.flatten.length := by
        simp only [List.flatten_cons, List.length_append] at h2; omega
      obtain ⟨k, cum', hf, hk, hc, hlo, hhi⟩ := ih (i + 1) (cum + l.length) (by omega) h2'
      refine ⟨k + 1, cum', ?_, by simp; omega, ?_, ?_, hhi⟩
      · rw [hf]; congr 2; omega
      · simp only [List.take_succ_cons, List.flatten_cons, List.length_append, List.getD_cons_succ]
        omega
      · simp only [List.take_succ_cons, List.flatten_cons, List.length_append]
        omega

theorem findLine_none (index : Nat) : ∀ (lines : List (List Char)) (i cum : Nat),
    cum + lines.flatten.length ≤ index → findLine index i cum lines = none := by
  intro lines
  induction lines with
  | nil => intro i cum _; rfl
  | cons l ls ih =>
    intro i cum h
    simp only [List.flatten_cons, List.length_append] at h
    simp only [findLine]
    split
    · omega
    · exact ih (i + 1) (cum + l.length) (by omega)

/-! ## tokens come from matches -/
section expr
open LiquidVerif.ExprLex

theorem convert_spec (base : Nat) (p : Nat × Match) (t : Token)
    (h : convert base p = some (.inl t) ∨ convert base p = some (.inr t)) :
    t.start = base + p.1 ∧
    (t.value = p.2.raw ∨ (t.value = p.2.grp ∧ (t.kind = "identindex" ∨ t.kind = "identstring" ∨ t.kind = "string"))) := by
  unfold convert at h
  simp only at h
  split at h
  · split at h <;> (rcases h with h | h <;> simp at h <;> subst h <;> simp)
  · rcases h with h | h <;> simp at h <;> subst h <;> simp
  · rcases h with h | h <;> simp at h <;> subst h <;> simp
  · rcases h with h | h <;> simp at h <;> subst h <;> simp
  · split at h <;> (rcases h with h | h <;> simp at h <;> subst h <;> simp)
  · rcases h with h | h <;> simp at h
  · rcases h with h | h <;> simp at h <;> subst h <;> simp
  · rcases h with h | h <;> simp at h <;> subst h <;> simp

theorem collect_mem (base : Nat) : ∀ (ps : List (Nat × Match)) (t : Token),
    (t ∈ (collect base ps).1 ∨ (collect base ps).2 = some t) →
    ∃ p ∈ ps, convert base p = some (.inl t) ∨ convert base p = some (.inr t) := by
  intro ps
  induction ps with
  | nil => intro t h; simp [collect] at h
  | cons p ps ih =>
    intro t h
    simp only [collect] at h
    split at h
    · obtain ⟨q, hq, hc⟩ := ih t h
      exact ⟨q, List.mem_cons_of_mem _ hq, hc⟩
    · next e he =>
      rcases h with h | h
      · simp at h
      · simp at h; subst h; exact ⟨p, by simp, Or.inr he⟩
    · next t' ht =>
      rcases h with h | h
      · rcases List.mem_cons.mp h with h | h
        · subst h; exact ⟨p, by simp, Or.inl ht⟩
        · obtain ⟨q, hq, hc⟩ := ih t (Or.inl h)
          exact ⟨q, List.mem_cons_of_mem _ hq, hc⟩
      · obtain ⟨q, hq, hc⟩ := ih t (Or.inr h)
        exact ⟨q, List.mem_cons_of_mem _ hq, hc⟩

end expr

section liquid
open LiquidVerif.LiquidLines

theorem lcollect_mem (marker : List Char) (base : Nat) : ∀ (ps : List (Nat × LMatch)) (t : Token),
    t ∈ (collect marker base ps).1 →
    ∃ p ∈ ps, (t.value = p.2.name ∧ t.start = base + (p.1 + p.2.nameOff)) ∨
              (t.value = p.2.expr ∧ t.start = base + (p.1 + p.2.exprOff)) := by
  intro ps
  induction ps with
  | nil => intro t h; simp [collect] at h
  | cons p ps ih =>
    intro t h
    obtain ⟨pos, m⟩ := p
    simp only [collect] at h
    have tail : t ∈ (collect marker base ps).1 →
        ∃ p ∈ (pos, m) :: ps, (t.value = p.2.name ∧ t.start = base + (p.1 + p.2.nameOff)) ∨
              (t.value = p.2.expr ∧ t.start = base + (p.1 + p.2.exprOff)) := fun h' => by
      obtain ⟨q, hq, hc⟩ := ih t h'
      exact ⟨q, List.mem_cons_of_mem _ hq, hc⟩
    split at h
    · simp at h
    · exact tail h
    · split at h
      · exact tail h
      · split at h
        · rcases List.mem_cons.mp h with h | h
          · subst h; exact ⟨(pos, m), by simp, Or.inl ⟨rfl, rfl⟩⟩
          · exact tail h
        · rcases List.mem_cons.mp h with h | h
          · subst h; exact ⟨(pos, m), by simp, Or.inl ⟨rfl, rfl⟩⟩
          · rcases List.mem_cons.mp h with h | h
            · subst h; exact ⟨(pos, m), by simp, Or.inr ⟨rfl, rfl⟩⟩
            · exact tail h

end liquid

end LiquidVerif.SpanLex
