import LiquidVerif.Lemmas.Cond
import LiquidVerif.Model.CondSpec
/-!
# Equality on arbitrarily nested values: recursive Liquid equality, and how `_eq` relates to it

`deepEq` is *recursive Liquid equality*: the rules of `_eq` (`true ≠ 1`, `empty`/`blank`, `undefined == nil`,
numbers by value, strings by text) applied at **every** depth — arrays item-wise, hashes entry-wise.
`pyEq` (Model/Value.lean) is what the code uses below the top level: Python's `==`, where `True == 1`.
-/
namespace LiquidVerif.Cond
open LiquidVerif.Value

theorem sizeOf_pos (a : Val) : 0 < sizeOf a := by cases a <;> simp <;> omega

theorem sizeOf_item_lt {x : Val} {xs : List Val} (h : x ∈ xs) : sizeOf x < sizeOf (Val.list xs) := by
  have := List.sizeOf_lt_of_mem h
  simp; omega

theorem sizeOf_entry_lt {k : String} {x : Val} {kvs : List (String × Val)} (h : (k, x) ∈ kvs) :
    sizeOf x < sizeOf (Val.dict kvs) := by
  have := List.sizeOf_lt_of_mem h
  simp at this ⊢; omega

/-! ### Python `==` versus recursive Liquid equality -/

theorem pyEqL_eq_deepEqL (xs : List Val) :
    ∀ ys, (∀ x ∈ xs, ∀ y, noClash x y = true → pyEq x y = deepEq x y) → noClashL xs ys = true →
      pyEqL xs ys = deepEqL xs ys := by
  induction xs with
  | nil => intro ys _ _; cases ys <;> simp [pyEqL, deepEqL]
  | cons x xs ih =>
    intro ys h hc
    cases ys with
    | nil => simp [pyEqL, deepEqL]
    | cons y ys =>
      simp only [noClashL, Bool.and_eq_true] at hc
      simp only [pyEqL, deepEqL]
      rw [h x (by simp) y hc.1, ih ys (fun a ha => h a (by simp [ha])) hc.2]

theorem pyEqD_eq_deepEqD (xs : List (String × Val)) :
    ∀ ys, (∀ kv ∈ xs, ∀ y, noClash kv.2 y = true → pyEq kv.2 y = deepEq kv.2 y) → noClashD xs ys = true →
      pyEqD xs ys = deepEqD xs ys := by
  induction xs with
  | nil => intro ys _ _; cases ys <;> simp [pyEqD, deepEqD]
  | cons x xs ih =>
    intro ys h hc
    obtain ⟨k, x⟩ := x
    cases ys with
    | nil => simp [pyEqD, deepEqD]
    | cons y ys =>
      obtain ⟨k', y⟩ := y
      simp only [noClashD, Bool.and_eq_true] at hc
      simp only [pyEqD, deepEqD]
      rw [h (k, x) (by simp) y hc.1, ih ys (fun a ha => h a (by simp [ha])) hc.2]

theorem pyEq_eq_deepEq_aux : ∀ (n : Nat) (a b : Val), sizeOf a ≤ n → noClash a b = true → pyEq a b = deepEq a b := by
  intro n
  induction n with
  | zero => intro a _ h; have := sizeOf_pos a; omega
  | succ n ih =>
    intro a b hs hc
    cases a with
    | list xs =>
      cases b <;> simp [pyEq, deepEq]
      rename_i ys
      exact pyEqL_eq_deepEqL xs ys
        (fun x hx y hy => ih x y (by have := sizeOf_item_lt hx; omega) hy) (by simpa [noClash] using hc)
    | dict xs =>
      cases b <;> simp [pyEq, deepEq]
      rename_i ys
      exact pyEqD_eq_deepEqD xs ys
        (fun kv hkv y hy => ih kv.2 y (by have := sizeOf_entry_lt (k := kv.1) (x := kv.2) hkv; omega) hy)
        (by simpa [noClash] using hc)
    | bool t => cases b <;> simp_all [pyEq, deepEq, noClash, Val.pyNum?, Val.num?, boolQ_eq, Ext.eq]
    | int i => cases b <;> simp_all [pyEq, deepEq, noClash, Val.pyNum?, Val.num?]
    | float f => cases b <;> simp_all [pyEq, deepEq, noClash, Val.pyNum?, Val.num?]
    | dec q => cases b <;> simp_all [pyEq, deepEq, noClash, Val.pyNum?, Val.num?]
    | _ => cases b <;> simp [pyEq, deepEq]

theorem pyEq_eq_deepEq (a b : Val) (h : noClash a b = true) : pyEq a b = deepEq a b :=
  pyEq_eq_deepEq_aux (sizeOf a) a b (Nat.le_refl _) h

/-- recursive Liquid equality implies Python equality: the code can only equate *more* than Liquid does -/
theorem deepEqL_imp_pyEqL (xs : List Val) :
    ∀ ys, (∀ x ∈ xs, ∀ y, deepEq x y = true → pyEq x y = true) → deepEqL xs ys = true → pyEqL xs ys = true := by
  induction xs with
  | nil => intro ys _; cases ys <;> simp [pyEqL, deepEqL]
  | cons x xs ih =>
    intro ys h
    cases ys with
    | nil => simp [deepEqL]
    | cons y ys =>
      simp only [pyEqL, deepEqL, Bool.and_eq_true]
      rintro ⟨h1, h2⟩
      exact ⟨h x (by simp) y h1, ih ys (fun a ha => h a (by simp [ha])) h2⟩

theorem deepEqD_imp_pyEqD (xs : List (String × Val)) :
    ∀ ys, (∀ kv ∈ xs, ∀ y, deepEq kv.2 y = true → pyEq kv.2 y = true) → deepEqD xs ys = true →
      pyEqD xs ys = true := by
  induction xs with
  | nil => intro ys _; cases ys <;> simp [pyEqD, deepEqD]
  | cons x xs ih =>
    intro ys h
    obtain ⟨k, x⟩ := x
    cases ys with
    | nil => simp [deepEqD]
    | cons y ys =>
      obtain ⟨k', y⟩ := y
      simp only [pyEqD, deepEqD, Bool.and_eq_true]
      rintro ⟨⟨h0, h1⟩, h2⟩
      exact ⟨⟨h0, h (k, x) (by simp) y h1⟩, ih ys (fun a ha => h a (by simp [ha])) h2⟩

theorem deepEq_imp_pyEq_aux : ∀ (n : Nat) (a b : Val), sizeOf a ≤ n → deepEq a b = true → pyEq a b = true := by
  intro n
  induction n with
  | zero => intro a _ h; have := sizeOf_pos a; omega
  | succ n ih =>
    intro a b hs
    cases a with
    | list xs =>
      cases b <;> simp [pyEq, deepEq]
      rename_i ys
      exact deepEqL_imp_pyEqL xs ys (fun x hx y hy => ih x y (by have := sizeOf_item_lt hx; omega) hy)
    | dict xs =>
      cases b <;> simp [pyEq, deepEq]
      rename_i ys
      exact deepEqD_imp_pyEqD xs ys
        (fun kv hkv y hy => ih kv.2 y (by have := sizeOf_entry_lt (k := kv.1) (x := kv.2) hkv; omega) hy)
    | bool t => cases b <;> simp [pyEq, deepEq, Val.pyNum?, Val.num?, boolQ_eq, Ext.eq]
    | int i => cases b <;> simp [pyEq, deepEq, Val.pyNum?, Val.num?]
    | float f => cases b <;> simp [pyEq, deepEq, Val.pyNum?, Val.num?]
    | dec q => cases b <;> simp [pyEq, deepEq, Val.pyNum?, Val.num?]
    | _ => cases b <;> simp [pyEq, deepEq]

theorem deepEq_imp_pyEq (a b : Val) (h : deepEq a b = true) : pyEq a b = true :=
  deepEq_imp_pyEq_aux (sizeOf a) a b (Nat.le_refl _) h


/-! ### symmetry and reflexivity of Python `==` on the modelled values -/

theorem Q.eq_symm (a b : Q) : a.eq b = b.eq a := by
  unfold Q.eq; exact decide_eq_decide.mpr ⟨Eq.symm, Eq.symm⟩

theorem Ext.eq_symm (a b : Ext) : a.eq b = b.eq a := by
  cases a <;> cases b <;> simp [Ext.eq]
  exact Q.eq_symm _ _

theorem rangeEq_symm (a b c d : Int) : rangeEq a b c d = rangeEq c d a b := by
  rw [Bool.eq_iff_iff]; simp [rangeEq]; constructor <;> intro h <;> omega

theorem pyEqL_symm_of (xs : List Val) :
    ∀ ys, (∀ x ∈ xs, ∀ y, pyEq x y = pyEq y x) → pyEqL xs ys = pyEqL ys xs := by
  induction xs with
  | nil => intro ys _; cases ys <;> simp [pyEqL]
  | cons x xs ih =>
    intro ys h
    cases ys with
    | nil => simp [pyEqL]
    | cons y ys => simp only [pyEqL]; rw [h x (by simp) y, ih ys (fun a ha => h a (by simp [ha]))]

theorem pyEqD_symm_of (xs : List (String × Val)) :
    ∀ ys, (∀ kv ∈ xs, ∀ y, pyEq kv.2 y = pyEq y kv.2) → pyEqD xs ys = pyEqD ys xs := by
  induction xs with
  | nil => intro ys _; cases ys <;> simp [pyEqD]
  | cons x xs ih =>
    intro ys h
    obtain ⟨k, x⟩ := x
    cases ys with
    | nil => simp [pyEqD]
    | cons y ys =>
      obtain ⟨k', y⟩ := y
      simp only [pyEqD]
      rw [h (k, x) (by simp) y, ih ys (fun a ha => h a (by simp [ha])), show (k == k') = (k' == k) from BEq.comm]

theorem pyEq_symm_aux : ∀ (n : Nat) (a b : Val), sizeOf a ≤ n → pyEq a b = pyEq b a := by
  intro n
  induction n with
  | zero => intro a _ h; have := sizeOf_pos a; omega
  | succ n ih =>
    intro a b hs
    cases a with
    | list xs =>
      cases b <;> simp [pyEq, emptyEq, blankEq, Val.pyNum?, Val.num?]
      rename_i ys
      exact pyEqL_symm_of xs ys (fun x hx y => ih x y (by have := sizeOf_item_lt hx; omega))
    | dict xs =>
      cases b <;> simp [pyEq, emptyEq, blankEq, Val.pyNum?, Val.num?]
      rename_i ys
      exact pyEqD_symm_of xs ys
        (fun kv hkv y => ih kv.2 y (by have := sizeOf_entry_lt (k := kv.1) (x := kv.2) hkv; omega))
    | _ =>
      cases b <;> simp [pyEq, emptyEq, blankEq, Val.pyNum?, Val.num?, Ext.eq_symm, rangeEq_symm] <;>
        first | exact Ext.eq_symm _ _ | exact rangeEq_symm _ _ _ _ | exact BEq.comm | exact eq_comm

theorem pyEq_symm (a b : Val) : pyEq a b = pyEq b a := pyEq_symm_aux (sizeOf a) a b (Nat.le_refl _)

theorem pyEqL_symm (xs ys : List Val) : pyEqL xs ys = pyEqL ys xs :=
  pyEqL_symm_of xs ys (fun x _ y => pyEq_symm x y)

theorem pyEqD_symm (xs ys : List (String × Val)) : pyEqD xs ys = pyEqD ys xs :=
  pyEqD_symm_of xs ys (fun kv _ y => pyEq_symm kv.2 y)

theorem Q.eq_refl (a : Q) : a.eq a = true := by simp [Q.eq]

theorem pyEq_refl_aux : ∀ (n : Nat) (a : Val), sizeOf a ≤ n → nanFree a = true → pyEq a a = true := by
  intro n
  induction n with
  | zero => intro a h; have := sizeOf_pos a; omega
  | succ n ih =>
    intro a hs hn
    cases a with
    | list xs =>
      simp only [pyEq]
      have : ∀ zs : List Val, (∀ x ∈ zs, sizeOf x ≤ n) → nanFreeL zs = true → pyEqL zs zs = true := by
        intro zs
        induction zs with
        | nil => intros; simp [pyEqL]
        | cons z zs ihz =>
          intro h1 h2
          simp only [nanFreeL, Bool.and_eq_true] at h2
          simp only [pyEqL, Bool.and_eq_true]
          exact ⟨ih z (h1 z (by simp)) h2.1, ihz (fun x hx => h1 x (by simp [hx])) h2.2⟩
      exact this xs (fun x hx => by have := sizeOf_item_lt hx; omega) (by simpa [nanFree] using hn)
    | dict kvs =>
      simp only [pyEq]
      have : ∀ zs : List (String × Val), (∀ kv ∈ zs, sizeOf kv.2 ≤ n) → nanFreeD zs = true → pyEqD zs zs = true := by
        intro zs
        induction zs with
        | nil => intros; simp [pyEqD]
        | cons z zs ihz =>
          intro h1 h2
          obtain ⟨k, z⟩ := z
          simp only [nanFreeD, Bool.and_eq_true] at h2
          simp only [pyEqD, Bool.and_eq_true, beq_self_eq_true, true_and]
          exact ⟨ih z (h1 (k, z) (by simp)) h2.1, ihz (fun x hx => h1 x (by simp [hx])) h2.2⟩
      exact this kvs (fun kv hkv => by have := sizeOf_entry_lt (k := kv.1) (x := kv.2) hkv; omega)
        (by simpa [nanFree] using hn)
    | float f => cases f <;> simp_all [pyEq, Val.pyNum?, Val.num?, Ext.ofFlt, Ext.eq, Q.eq_refl, nanFree]
    | range a b => simp [pyEq, rangeEq]; omega
    | bool t => simp [pyEq, Val.pyNum?, Ext.eq, Q.eq_refl]
    | _ => simp [pyEq, Val.pyNum?, Val.num?, Ext.eq, Q.eq_refl, emptyEq, blankEq]

theorem pyEq_refl (a : Val) (h : nanFree a = true) : pyEq a a = true := pyEq_refl_aux (sizeOf a) a (Nat.le_refl _) h

end LiquidVerif.Cond
