import LiquidVerif.Model.PathSafe
/-!
Helper lemmas for C22 (`Model/PathSafe.lean`): parsing yields clean components, the path walk composes
over concatenation, a successful strict walk is also the lenient walk, and a walk through a link-free
directory is the lexical path.
-/
namespace LiquidVerif.PathSafe

/-! ## pathlib -/

theorem splitSlash_no_slash (s : List Ch) : ∀ w ∈ splitSlash s, SLASH ∉ w := by
  induction s with
  | nil => simp [splitSlash]
  | cons c cs ih =>
    unfold splitSlash
    split
    · intro w hw
      simp only [List.mem_cons] at hw
      rcases hw with rfl | hw
      · simp
      · exact ih w hw
    · rename_i hc
      split
      · intro w hw
        simp only [List.mem_cons, List.not_mem_nil, or_false] at hw
        subst hw
        simp only [List.mem_cons, List.not_mem_nil, or_false]
        exact fun e => hc e.symm
      · rename_i w ws heq
        intro v hv
        simp only [List.mem_cons] at hv
        rw [heq] at ih
        rcases hv with rfl | hv
        · have := ih w (by simp)
          simp only [List.mem_cons, not_or]
          exact ⟨fun e => hc e.symm, this⟩
        · exact ih v (by simp [hv])

/-- a component as `Path(...)` keeps it: not empty, not `.`, no separator inside -/
def Plain (c : Name) : Prop := c ≠ [] ∧ c ≠ dot ∧ SLASH ∉ c

theorem parse_parts_plain (s : List Ch) : ∀ c ∈ (parse s).parts, Plain c := by
  intro c hc
  simp only [parse, List.mem_filter, decide_eq_true_eq] at hc
  exact ⟨hc.2.1, hc.2.2, splitSlash_no_slash _ c hc.1⟩

theorem name_mem_parts {p : PPath} (h : p.name ≠ []) : p.name ∈ p.parts := by
  unfold PPath.name at *
  cases hl : p.parts.getLast? with
  | none => simp [hl] at h
  | some x => simp only [Option.getD_some]; exact List.mem_of_getLast? hl

theorem parts_ne_nil_of_name {p : PPath} (h : p.name ≠ []) : p.parts ≠ [] := by
  intro e; simp [PPath.name, e] at h

theorem suffixOk_no_slash {ext : Name} (h : suffixOk ext = true) : SLASH ∉ ext := by
  simp only [suffixOk, Bool.and_eq_true, Bool.not_eq_eq_eq_not, Bool.not_true] at h
  intro hm
  simp only [List.contains_eq_mem, decide_eq_false_iff_not] at h
  exact h.1 hm

/-- `with_suffix` on a name without suffix appends, keeps the root and every other component -/
theorem withSuffix_ok {p q : PPath} {ext : Name} (hs : suffixOf p.name = []) (h : withSuffix p ext = .ok q) :
    suffixOk ext = true ∧ p.name ≠ [] ∧ q.root = p.root ∧ q.parts = p.parts.dropLast ++ [p.name ++ ext] := by
  unfold withSuffix at h
  split at h
  · cases h
  · rename_i hok
    split at h
    · cases h
    · rename_i hn
      simp only [hs, if_true] at h
      cases h
      exact ⟨by simpa using hok, hn, rfl, rfl⟩

theorem withSuffix_error {p : PPath} {ext : Name} {e : Exc} (hok : suffixOk ext = true) (hn : p.name ≠ [])
    (h : withSuffix p ext = .error e) : False := by
  unfold withSuffix at h
  simp [hok, hn] at h

/-! ## file-system tree -/

theorem nodeAt_append (n : Node) (a b : Comps) :
    nodeAt n (a ++ b) = (nodeAt n a).bind (fun m => nodeAt m b) := by
  induction a generalizing n with
  | nil => simp [nodeAt]
  | cons c cs ih =>
    simp only [List.cons_append, nodeAt]
    cases n with
    | file _ => simp
    | link _ _ => simp
    | dir es =>
      simp only
      cases lookup es c with
      | none => simp
      | some m => simpa using ih m

theorem isPrefix_append {a b : Comps} (h : isPrefix a b = true) : ∃ s, b = a ++ s := by
  induction a generalizing b with
  | nil => exact ⟨b, rfl⟩
  | cons x xs ih =>
    cases b with
    | nil => simp [isPrefix] at h
    | cons y ys =>
      simp only [isPrefix, Bool.and_eq_true, decide_eq_true_eq] at h
      obtain ⟨s, hs⟩ := ih h.2
      exact ⟨s, by rw [h.1, hs]; rfl⟩

/-! ## the walk -/

theorem segment_append (l : Bool) (root : Node) (cur a b : Comps) :
    segment l root cur (a ++ b) =
      match segment l root cur a with
      | .done q => segment l root q b
      | .err e => .err e
      | .follow c r => .follow c (r ++ b) := by
  induction a generalizing cur with
  | nil => simp [segment]
  | cons c rest ih =>
    simp only [List.cons_append, segment]
    split
    · rfl
    · split
      · exact ih cur
      · split
        · exact ih _
        · split
          · split
            · exact ih _
            · rfl
          · split
            · simp [List.append_assoc]
            · exact ih _
            · split
              · exact ih _
              · rfl

/-- sequencing of two walks: the second starts where the first ended, with the fuel it left -/
def andThen (x : Except OSErr (Nat × Comps)) (f : Nat → Comps → Except OSErr (Nat × Comps)) :
    Except OSErr (Nat × Comps) :=
  match x with
  | .ok (n, q) => f n q
  | .error e => .error e

theorem walk_append (l : Bool) (root : Node) (fuel : Nat) (cur a b : Comps) :
    walk l root fuel cur (a ++ b) = andThen (walk l root fuel cur a) (fun f q => walk l root f q b) := by
  induction fuel generalizing cur a with
  | zero =>
    simp only [walk, segment_append]
    cases segment l root cur a with
    | done q => simp only [andThen]; cases b <;> simp [walk, segment]
    | err e => simp [andThen]
    | follow c r => simp [andThen]
  | succ f ih =>
    rw [walk, segment_append]
    cases hs : segment l root cur a with
    | done q =>
      simp only [andThen, walk, hs]
    | err e => simp [andThen, walk, hs]
    | follow c r =>
      simp only [walk, hs]
      exact ih c r

theorem segment_strict_lenient (root : Node) (cur rest : Comps) :
    (∀ q, segment false root cur rest = .done q → segment true root cur rest = .done q) ∧
    (∀ c r, segment false root cur rest = .follow c r → segment true root cur rest = .follow c r) := by
  induction rest generalizing cur with
  | nil => simp [segment]
  | cons c rest ih =>
    simp only [segment, Bool.not_false, Bool.true_and, Bool.not_true, Bool.false_and, Bool.false_eq_true,
      if_false, if_true]
    split
    · simp
    · split
      · exact ih cur
      · split
        · exact ih _
        · split
          · simp
          · split
            · simp
            · exact ih _
            · simp

theorem walk_strict_lenient (root : Node) (fuel : Nat) (cur rest : Comps) (x : Nat × Comps)
    (h : walk false root fuel cur rest = .ok x) : walk true root fuel cur rest = .ok x := by
  induction fuel generalizing cur rest with
  | zero =>
    simp only [walk] at h ⊢
    cases hs : segment false root cur rest with
    | done q => rw [hs] at h; rw [(segment_strict_lenient root cur rest).1 q hs]; exact h
    | err e => rw [hs] at h; cases h
    | follow c r => rw [hs] at h; cases h
  | succ f ih =>
    simp only [walk] at h ⊢
    cases hs : segment false root cur rest with
    | done q => rw [hs] at h; rw [(segment_strict_lenient root cur rest).1 q hs]; exact h
    | err e => rw [hs] at h; cases h
    | follow c r =>
      rw [hs] at h
      rw [(segment_strict_lenient root cur rest).2 c r hs]
      exact ih c r h

theorem walk_done {l : Bool} {root : Node} {cur rest q : Comps} (h : segment l root cur rest = .done q) (f : Nat) :
    walk l root f cur rest = .ok (f, q) := by
  cases f <;> simp [walk, h]

/-- more fuel never changes the outcome of a successful walk -/
theorem walk_fuel_mono (l : Bool) (root : Node) (f k : Nat) (cur rest : Comps) (f' : Nat) (q : Comps)
    (h : walk l root f cur rest = .ok (f', q)) : walk l root (f + k) cur rest = .ok (f' + k, q) := by
  induction f generalizing cur rest with
  | zero =>
    simp only [walk] at h
    cases hs : segment l root cur rest with
    | done q' => rw [hs] at h; cases h; simpa using walk_done hs (0 + k)
    | err e => rw [hs] at h; cases h
    | follow c r => rw [hs] at h; cases h
  | succ f ih =>
    simp only [walk] at h
    cases hs : segment l root cur rest with
    | done q' => rw [hs] at h; cases h; exact walk_done hs _
    | err e => rw [hs] at h; cases h
    | follow c r =>
      rw [hs] at h
      have := ih c r h
      have e : f + 1 + k = (f + k) + 1 := by omega
      rw [e, walk, hs]
      exact this

/-- a strict walk that consumes at least one component started in a directory -/
theorem walk_strict_isDir (root : Node) (fuel : Nat) (cur : Comps) (c : Name) (rest : Comps) (x : Nat × Comps)
    (h : walk false root fuel cur (c :: rest) = .ok x) : isDir (nodeAt root cur) = true := by
  cases hd : isDir (nodeAt root cur) with
  | true => rfl
  | false =>
    cases fuel <;> simp [walk, segment, hd] at h

/-- relative components a loader may append to a search directory -/
def Clean (rel : Comps) : Prop := ∀ c ∈ rel, c ≠ [] ∧ c ≠ dot ∧ c ≠ dotdot ∧ SLASH ∉ c

/-- below `cb` the tree contains no symbolic link -/
def LinkFreeBelow (root : Node) (cb : Comps) : Prop :=
  ∀ s abs t, nodeAt root (cb ++ s) ≠ some (.link abs t)

theorem segment_linkfree (root : Node) (cb : Comps) (hlf : LinkFreeBelow root cb) (rel : Comps) (hc : Clean rel) :
    ∀ s, (segment false root (cb ++ s) rel = .done (cb ++ s ++ rel)) ∨ ∃ e, segment false root (cb ++ s) rel = .err e := by
  induction rel with
  | nil => intro s; simp [segment]
  | cons c rest ih =>
    intro s
    have hcc := hc c (by simp)
    have hrest : Clean rest := fun d hd => hc d (by simp [hd])
    simp only [segment, Bool.not_false, Bool.true_and]
    split
    · exact Or.inr ⟨_, rfl⟩
    · simp only [hcc.1, hcc.2.1, hcc.2.2.1, or_self, if_false, Bool.false_eq_true]
      split
      · exact Or.inr ⟨_, rfl⟩
      · have := ih hrest (s ++ [c])
        simp only [← List.append_assoc] at this
        split
        · rename_i abs t heq
          exact absurd (by simpa [List.append_assoc] using heq) (hlf (s ++ [c]) abs t)
        · simpa [List.append_assoc] using this
        · exact Or.inr ⟨_, rfl⟩

theorem walk_linkfree (root : Node) (cb : Comps) (hlf : LinkFreeBelow root cb) (rel : Comps) (hc : Clean rel)
    (fuel : Nat) (x : Nat × Comps) (h : walk false root fuel cb rel = .ok x) : x = (fuel, cb ++ rel) := by
  have := segment_linkfree root cb hlf rel hc []
  simp only [List.append_nil] at this
  rcases this with hd | ⟨e, he⟩
  · cases fuel <;> simp [walk, hd] at h <;> exact h.symm
  · cases fuel <;> simp [walk, he] at h


/-! ## Python-level file operations -/

theorem pyExists_cases (fs : FS) (p : PPath) :
    pyExists fs p = .ok true ∨ pyExists fs p = .ok false ∨ pyExists fs p = .error .osError := by
  unfold pyExists
  split
  · simp
  · simp
  · split <;> simp

theorem pyIsFile_cases (fs : FS) (p : PPath) :
    pyIsFile fs p = .ok true ∨ pyIsFile fs p = .ok false ∨ pyIsFile fs p = .error .osError := by
  unfold pyIsFile
  split
  · simp
  · simp
  · simp
  · split <;> simp

theorem pyIsFile_true {fs : FS} {p : PPath} (h : pyIsFile fs p = .ok true) : ∃ c, kstat fs p = .ok (.file c) := by
  unfold pyIsFile at h
  split at h
  · rename_i c heq; exact ⟨c, heq⟩
  · simp at h
  · simp at h
  · split at h <;> simp at h

theorem fslProbe_total (fs : FS) (src : PPath) : ∃ b, fslProbe fs src = .ok b := by
  unfold fslProbe
  rcases pyExists_cases fs src with h | h | h <;> rw [h]
  · rcases pyIsFile_cases fs src with g | g | g <;> rw [g] <;> simp
  · simp
  · simp

theorem fslProbe_true {fs : FS} {src : PPath} (h : fslProbe fs src = .ok true) : ∃ c, kstat fs src = .ok (.file c) := by
  unfold fslProbe at h
  rcases pyExists_cases fs src with e | e | e <;> rw [e] at h
  · rcases pyIsFile_cases fs src with g | g | g
    · exact pyIsFile_true g
    · rw [g] at h; simp at h
    · rw [g] at h; simp at h
  · simp at h
  · simp at h

theorem kstat_ok {fs : FS} {p : PPath} {n : Node} (h : kstat fs p = .ok n) :
    hasBadChar p = false ∧ ∃ f q, walk false fs.root fs.maxLinks (fs.start p) p.parts = .ok (f, q) ∧
      nodeAt fs.root q = some n := by
  unfold kstat at h
  split at h
  · cases h
  · rename_i hb
    split at h
    · cases h
    · split at h
      · cases h
      · rename_i f q hw
        split at h
        · rename_i m hm
          cases h
          exact ⟨by simpa using hb, f, q, hw, hm⟩
        · cases h

theorem pyRead_of_file {fs : FS} {p : PPath} {c : Nat} (h : kstat fs p = .ok (.file c)) : pyRead fs p = .ok c := by
  simp [pyRead, h]

theorem pyRead_ok {fs : FS} {p : PPath} {c : Nat} (h : pyRead fs p = .ok c) : kstat fs p = .ok (.file c) := by
  unfold pyRead at h
  split at h
  · rename_i c' heq; cases h; exact heq
  · cases h
  · cases h
  · cases h

theorem hasBadChar_prefix {r : Nat} {a b : Comps} (h : hasBadChar ⟨r, a ++ b⟩ = false) : hasBadChar ⟨r, a⟩ = false := by
  simp only [hasBadChar, List.any_append, Bool.or_eq_false_iff] at h ⊢
  exact h.1

/-- Everything `resolve_path` does with a candidate `base/rel` that `stat` accepts: the walk factors through the
search directory, and both `resolve(strict=False)` calls succeed with the kernel's answers. -/
theorem stat_factors {fs : FS} {r : Nat} {bp rel : Comps} {n : Node} (h : kstat fs ⟨r, bp ++ rel⟩ = .ok n) :
    ∃ f1 m f q, walk false fs.root fs.maxLinks (fs.start ⟨r, bp⟩) bp = .ok (f1, m) ∧
      walk false fs.root f1 m rel = .ok (f, q) ∧ nodeAt fs.root q = some n ∧
      pyResolve fs ⟨r, bp ++ rel⟩ = .ok q ∧ pyResolve fs ⟨r, bp⟩ = .ok m := by
  obtain ⟨hb, f, q, hw, hn⟩ := kstat_ok h
  have hs : fs.start ⟨r, bp ++ rel⟩ = fs.start ⟨r, bp⟩ := rfl
  simp only [hs] at hw
  have hw' := hw
  rw [walk_append] at hw
  cases h1 : walk false fs.root fs.maxLinks (fs.start ⟨r, bp⟩) bp with
  | error e => rw [h1] at hw; simp [andThen] at hw
  | ok x =>
    obtain ⟨f1, m⟩ := x
    rw [h1] at hw
    simp only [andThen] at hw
    refine ⟨f1, m, f, q, rfl, hw, hn, ?_, ?_⟩
    · simp only [pyResolve, hb, hs, Bool.false_eq_true, if_false,
        walk_fuel_mono _ _ _ fs.extraLinks _ _ _ _ (walk_strict_lenient _ _ _ _ _ hw')]
    · simp only [pyResolve, hasBadChar_prefix hb, Bool.false_eq_true, if_false,
        walk_fuel_mono _ _ _ fs.extraLinks _ _ _ _ (walk_strict_lenient _ _ _ _ _ h1)]

/-! ## `parse (str p) = p` : a path survives the trip through its string form -/

/-- what `Path(...)` produces: at most two root slashes, plain components -/
def WF (p : PPath) : Prop := p.root ≤ 2 ∧ ∀ c ∈ p.parts, Plain c

theorem splitroot_root_le (s : List Ch) : (splitroot s).1 ≤ 2 := by
  unfold splitroot
  split
  · simp
  · split
    · simp
    · split
      · simp
      · split
        · simp
        · split
          · simp
          · split <;> simp

theorem parse_wf (s : List Ch) : WF (parse s) := ⟨splitroot_root_le s, parse_parts_plain s⟩

theorem splitSlash_noslash {c : Name} (h : SLASH ∉ c) : splitSlash c = [c] := by
  induction c with
  | nil => rfl
  | cons x xs ih =>
    simp only [List.mem_cons, not_or] at h
    have hx : ¬ x = SLASH := fun e => h.1 e.symm
    simp [splitSlash, hx, ih h.2]

theorem splitSlash_append_slash {c : Name} (t : List Ch) (h : SLASH ∉ c) :
    splitSlash (c ++ SLASH :: t) = c :: splitSlash t := by
  induction c with
  | nil => simp [splitSlash]
  | cons x xs ih =>
    simp only [List.mem_cons, not_or] at h
    have hx : ¬ x = SLASH := fun e => h.1 e.symm
    simp [splitSlash, hx, ih h.2]

theorem splitSlash_joinSlash (parts : Comps) (hne : parts ≠ []) (h : ∀ c ∈ parts, SLASH ∉ c) :
    splitSlash (joinSlash parts) = parts := by
  induction parts with
  | nil => exact absurd rfl hne
  | cons c cs ih =>
    cases cs with
    | nil => simpa [joinSlash] using splitSlash_noslash (h c (by simp))
    | cons d rest =>
      simp only [joinSlash]
      rw [splitSlash_append_slash _ (h c (by simp))]
      rw [ih (by simp) (fun x hx => h x (by simp [hx]))]

theorem joinSlash_head {a : Ch} {as : Name} {cs : Comps} : ∃ t, joinSlash ((a :: as) :: cs) = a :: t := by
  cases cs with
  | nil => exact ⟨as, rfl⟩
  | cons d rest => exact ⟨as ++ SLASH :: joinSlash (d :: rest), rfl⟩

theorem filter_plain (parts : Comps) (h : ∀ c ∈ parts, Plain c) :
    parts.filter (fun x => x ≠ [] ∧ x ≠ dot) = parts := by
  rw [List.filter_eq_self]
  intro c hc
  have := h c hc
  simp [this.1, this.2.1]

theorem splitroot_rel {a : Ch} (t : List Ch) (h : ¬ a = SLASH) : splitroot (a :: t) = (0, a :: t) := by
  simp [splitroot, h]

theorem splitroot_abs1 {a : Ch} (t : List Ch) (h : ¬ a = SLASH) : splitroot (SLASH :: a :: t) = (1, a :: t) := by
  simp [splitroot, h]

theorem splitroot_abs2 {a : Ch} (t : List Ch) (h : ¬ a = SLASH) :
    splitroot (SLASH :: SLASH :: a :: t) = (2, a :: t) := by
  simp [splitroot, h]

/-- **`Path(str(p)) == p`** for every path `Path(...)` can produce -/
theorem parse_strOf (p : PPath) (h : WF p) : parse (strOf p) = p := by
  obtain ⟨r, parts⟩ := p
  obtain ⟨hr, hp⟩ := h
  simp only at hr hp
  cases parts with
  | nil =>
    have : r = 0 ∨ r = 1 ∨ r = 2 := by omega
    rcases this with rfl | rfl | rfl <;> decide
  | cons c cs =>
    have hc := hp c (by simp)
    cases c with
    | nil => exact absurd rfl hc.1
    | cons a as =>
      have ha : ¬ a = SLASH := fun e => hc.2.2 (by simp [e])
      obtain ⟨t, ht⟩ := @joinSlash_head a as cs
      have hsplit : splitSlash (a :: t) = (a :: as) :: cs := by
        rw [← ht]; exact splitSlash_joinSlash _ (by simp) (fun x hx => (hp x hx).2.2)
      have hfilter := filter_plain _ hp
      have hr3 : r = 0 ∨ r = 1 ∨ r = 2 := by omega
      rcases hr3 with rfl | rfl | rfl
      · have hs : strOf ⟨0, (a :: as) :: cs⟩ = a :: t := by simp [strOf, ht]
        simp only [hs, parse, splitroot_rel t ha, hsplit, hfilter]
      · have hs : strOf ⟨1, (a :: as) :: cs⟩ = SLASH :: a :: t := by simp [strOf, ht, List.replicate]
        simp only [hs, parse, splitroot_abs1 t ha, hsplit, hfilter]
      · have hs : strOf ⟨2, (a :: as) :: cs⟩ = SLASH :: SLASH :: a :: t := by simp [strOf, ht, List.replicate]
        simp only [hs, parse, splitroot_abs2 t ha, hsplit, hfilter]

theorem wf_of_clean {tp : PPath} (hr : tp.root = 0) (hc : Clean tp.parts) : WF tp :=
  ⟨by omega, fun c hcm => ⟨(hc c hcm).1, (hc c hcm).2.1, (hc c hcm).2.2.2⟩⟩

/-! ## the loaders' loops -/

theorem join_rel {base tp : PPath} (h : tp.root = 0) : join base tp = ⟨base.root, base.parts ++ tp.parts⟩ := by
  simp [join, h]

theorem fslSearch_ok {rej : Bool} {fs : FS} {tp : PPath} {l : List PPath} {p : PPath}
    (h : fslSearch rej fs tp l = .ok p) :
    ∃ base ∈ l, p = join base tp ∧ fslProbe fs p = .ok true ∧
      (rej = true → ∃ r b, pyResolve fs p = .ok r ∧ pyResolve fs base = .ok b ∧ isPrefix b r = true) := by
  induction l with
  | nil => simp [fslSearch] at h
  | cons base more ih =>
    have lift : (∃ b ∈ more, p = join b tp ∧ fslProbe fs p = .ok true ∧
        (rej = true → ∃ r b', pyResolve fs p = .ok r ∧ pyResolve fs b = .ok b' ∧ isPrefix b' r = true)) →
        ∃ b ∈ base :: more, p = join b tp ∧ fslProbe fs p = .ok true ∧
        (rej = true → ∃ r b', pyResolve fs p = .ok r ∧ pyResolve fs b = .ok b' ∧ isPrefix b' r = true) := by
      rintro ⟨b, hb, rest⟩; exact ⟨b, by simp [hb], rest⟩
    simp only [fslSearch] at h
    split at h
    · cases h
    · exact lift (ih h)
    · rename_i hprobe
      split at h
      · rename_i hrej
        split at h
        · exact lift (ih h)
        · cases h
        · rename_i r hr
          split at h
          · exact lift (ih h)
          · cases h
          · rename_i b hb
            split at h
            · rename_i hpre
              cases h
              exact ⟨base, by simp, rfl, hprobe, fun _ => ⟨r, b, hr, hb, hpre⟩⟩
            · exact lift (ih h)
      · rename_i hrej
        cases h
        exact ⟨base, by simp, rfl, hprobe, fun hr => absurd hr hrej⟩

theorem fslSearch_error {rej : Bool} {fs : FS} {tp : PPath} (htp : tp.root = 0) {l : List PPath} {e : Exc}
    (h : fslSearch rej fs tp l = .error e) : e = .notFound := by
  induction l with
  | nil => simp [fslSearch] at h; exact h.symm
  | cons base more ih =>
    simp only [fslSearch] at h
    obtain ⟨b, hb⟩ := fslProbe_total fs (join base tp)
    rw [hb] at h
    cases b with
    | false => exact ih h
    | true =>
      simp only at h
      obtain ⟨c, hc⟩ := fslProbe_true hb
      rw [join_rel htp] at hc
      obtain ⟨f1, m, f, q, _, _, _, hr, hbres⟩ := stat_factors hc
      rw [join_rel htp] at h
      have hbase : (⟨base.root, base.parts⟩ : PPath) = base := rfl
      rw [hbase] at hbres
      split at h
      · simp only [hr, hbres] at h
        split at h
        · cases h
        · exact ih h
      · cases h

theorem pkgSearch_ok {fs : FS} {tp : PPath} {l : List PPath} {p : PPath} (hwf : WF tp)
    (h : pkgSearch fs tp l = .ok p) :
    ∃ base ∈ l, p = join base tp ∧ pyIsFile fs p = .ok true := by
  induction l with
  | nil => simp [pkgSearch] at h
  | cons base more ih =>
    have lift : (∃ b ∈ more, p = join b tp ∧ pyIsFile fs p = .ok true) →
        ∃ b ∈ base :: more, p = join b tp ∧ pyIsFile fs p = .ok true := by
      rintro ⟨b, hb, rest⟩; exact ⟨b, by simp [hb], rest⟩
    simp only [pkgSearch, parse_strOf tp hwf] at h
    rcases pyIsFile_cases fs (join base tp) with g | g | g <;> rw [g] at h
    · cases h; exact ⟨base, by simp, rfl, g⟩
    · exact lift (ih h)
    · exact lift (ih h)

theorem pkgSearch_error {fs : FS} {tp : PPath} {l : List PPath} {e : Exc}
    (h : pkgSearch fs tp l = .error e) : e = .notFound := by
  induction l with
  | nil => simp [pkgSearch] at h; exact h.symm
  | cons base more ih =>
    simp only [pkgSearch] at h
    rcases pyIsFile_cases fs (join base (parse (strOf tp))) with g | g | g <;> rw [g] at h
    · cases h
    · exact ih h
    · exact ih h

/-! ## the name a loader appends to a search directory -/

theorem plain_append_ext {n ext : Name} {c : Ch} {cs : List Ch} (hn : Plain n) (he : ext = c :: cs) (hs : SLASH ∉ ext) :
    Plain (n ++ ext) := by
  obtain ⟨h1, _, h3⟩ := hn
  refine ⟨by simp [h1], ?_, ?_⟩
  · intro e
    have := congrArg List.length e
    cases n with
    | nil => exact h1 rfl
    | cons a as => simp [he, dot] at this
  · simp only [List.mem_append, not_or]; exact ⟨h3, hs⟩

theorem withSuffix_parts_plain {tp tp' : PPath} {ext : Name} (hs : suffixOf tp.name = [])
    (h : withSuffix tp ext = .ok tp') (hext : ext ≠ [] ∨ True) (hp : ∀ c ∈ tp.parts, Plain c) :
    tp'.root = tp.root ∧ tp'.parts ≠ [] ∧ tp'.parts.dropLast = tp.parts.dropLast ∧
      (∀ c ∈ tp'.parts, Plain c) := by
  obtain ⟨hok, hn, hr, hparts⟩ := withSuffix_ok hs h
  refine ⟨hr, by simp [hparts], by simp [hparts], ?_⟩
  intro c hc
  rw [hparts] at hc
  simp only [List.mem_append, List.mem_cons, List.not_mem_nil, or_false] at hc
  rcases hc with hc | rfl
  · exact hp c ((List.dropLast_sublist _).subset hc)
  · have hnp := hp _ (name_mem_parts hn)
    cases ext with
    | nil => simpa using hnp
    | cons c cs => exact plain_append_ext hnp rfl (suffixOk_no_slash hok)

theorem fslTarget_ok {ext : Option Name} {tp tp' : PPath} (h : fslTarget ext tp = .ok tp') (hn : tp.name ≠ [])
    (hp : ∀ c ∈ tp.parts, Plain c) :
    tp'.root = tp.root ∧ tp'.parts ≠ [] ∧ tp'.parts.dropLast = tp.parts.dropLast ∧ (∀ c ∈ tp'.parts, Plain c) := by
  unfold fslTarget at h
  split at h
  · split at h
    · rename_i hs
      exact withSuffix_parts_plain hs h (Or.inr trivial) hp
    · cases h; exact ⟨rfl, parts_ne_nil_of_name hn, rfl, hp⟩
  · cases h; exact ⟨rfl, parts_ne_nil_of_name hn, rfl, hp⟩

theorem fslTarget_error {ext : Option Name} {tp : PPath} {e : Exc} (hext : ∀ x, ext = some x → suffixOk x = true)
    (hn : tp.name ≠ []) (h : fslTarget ext tp = .error e) : False := by
  unfold fslTarget at h
  split at h
  · rename_i c cs
    split at h
    · exact withSuffix_error (hext _ rfl) hn h
    · cases h
  · cases h

theorem clean_of_plain {rel : Comps} (hp : ∀ c ∈ rel, Plain c) (hd : dotdot ∉ rel) : Clean rel := by
  intro c hc
  obtain ⟨h1, h2, h3⟩ := hp c hc
  exact ⟨h1, h2, fun e => hd (e ▸ hc), h3⟩


/-- what a successful `resolve_path` went through: a relative, non-empty, clean target handed to the search loop -/
theorem fslResolve_ok {cfg : FSLConfig} {fs : FS} {name : List Ch} {p : PPath} (h : fslResolve cfg fs name = .ok p) :
    ∃ tp', tp'.root = 0 ∧ (parse name).root = 0 ∧ tp'.parts ≠ [] ∧ Clean tp'.parts ∧
      tp'.parts.dropLast = (parse name).parts.dropLast ∧
      fslSearch cfg.rejectSymlinks fs tp' cfg.search = .ok p := by
  unfold fslResolve at h
  simp only at h
  split at h
  · cases h
  · rename_i hn
    split at h
    · cases h
    · rename_i tp' ht
      split at h
      · cases h
      · rename_i hchk
        simp only [not_or, PPath.isAbsolute, decide_eq_true_eq, Nat.not_lt, Nat.le_zero_eq] at hchk
        obtain ⟨hr, hne, hdl, hpl⟩ := fslTarget_ok ht hn (parse_parts_plain name)
        exact ⟨tp', hchk.2, hr ▸ hchk.2, hne, clean_of_plain hpl hchk.1, hdl, h⟩

/-- appending a suffix to the last component cannot create a `..` component (PackageLoader checks for `..`
*before* `with_suffix`) -/
theorem no_dotdot_after_suffix {tp tp' : PPath} {ext : Name} (hs : suffixOf tp.name = [])
    (h : withSuffix tp ext = .ok tp') (hp : ∀ c ∈ tp.parts, Plain c) (hd : dotdot ∉ tp.parts) :
    dotdot ∉ tp'.parts := by
  obtain ⟨_, hnn, _, hparts⟩ := withSuffix_ok hs h
  rw [hparts]
  simp only [List.mem_append, List.mem_cons, List.not_mem_nil, or_false, not_or]
  refine ⟨fun hm => hd ((List.dropLast_sublist _).subset hm), ?_⟩
  intro e
  have hmem := name_mem_parts hnn
  have hpn := hp _ hmem
  cases hnm : tp.name with
  | nil => exact hnn hnm
  | cons a as =>
    rw [hnm] at e hmem hpn
    cases as with
    | nil =>
      simp only [dotdot, List.cons_append, List.nil_append, List.cons.injEq] at e
      exact hpn.2.1 (by rw [← e.1]; rfl)
    | cons b bs =>
      simp only [dotdot, List.cons_append, List.cons.injEq] at e
      have hbs : bs = [] := by
        cases bs with
        | nil => rfl
        | cons _ _ => simp at e
      rw [hbs, ← e.1, ← e.2.1] at hmem
      exact hd hmem

theorem pkgResolve_ok {cfg : PkgConfig} {fs : FS} {name : List Ch} {p : PPath} (h : pkgResolve cfg fs name = .ok p) :
    ∃ tp', tp'.root = 0 ∧ (parse name).root = 0 ∧ tp'.parts ≠ [] ∧ Clean tp'.parts ∧
      tp'.parts.dropLast = (parse name).parts.dropLast ∧
      pkgSearch fs tp' cfg.paths = .ok p := by
  unfold pkgResolve at h
  simp only at h
  split at h
  · cases h
  · rename_i hn
    split at h
    · cases h
    · rename_i hchk
      simp only [not_or, PPath.isAbsolute, decide_eq_true_eq, Nat.not_lt, Nat.le_zero_eq] at hchk
      split at h
      · cases h
      · rename_i tp' ht
        split at ht
        · rename_i hs
          obtain ⟨hr, hne, hdl, hpl⟩ := withSuffix_parts_plain hs ht (Or.inr trivial) (parse_parts_plain name)
          exact ⟨tp', hr.trans hchk.2, hchk.2, hne,
            clean_of_plain hpl (no_dotdot_after_suffix hs ht (parse_parts_plain name) hchk.1), hdl, h⟩
        · cases ht
          exact ⟨_, hchk.2, hchk.2, parts_ne_nil_of_name hn, clean_of_plain (parse_parts_plain name) hchk.1, rfl, h⟩

/-- the candidate `base/rel` read by a loader: where its bytes come from -/
theorem read_factors {fs : FS} {base : PPath} {rel : Comps} {c : Nat} (hne : rel ≠ [])
    (hk : kstat fs ⟨base.root, base.parts ++ rel⟩ = .ok (.file c)) :
    ∃ f1 m f q, walk false fs.root fs.maxLinks (fs.start base) base.parts = .ok (f1, m) ∧
      walk false fs.root f1 m rel = .ok (f, q) ∧ nodeAt fs.root q = some (.file c) ∧
      isDir (nodeAt fs.root m) = true ∧
      walk false fs.root fs.maxLinks (fs.start ⟨base.root, base.parts ++ rel⟩) (base.parts ++ rel) = .ok (f, q) ∧
      pyResolve fs ⟨base.root, base.parts ++ rel⟩ = .ok q ∧ pyResolve fs base = .ok m := by
  obtain ⟨f1, m, f, q, hw1, hw2, hnode, hr, hb⟩ := stat_factors hk
  have hbase : (⟨base.root, base.parts⟩ : PPath) = base := rfl
  rw [hbase] at hw1 hb
  refine ⟨f1, m, f, q, hw1, hw2, hnode, ?_, ?_, hr, hb⟩
  · cases rel with
    | nil => exact absurd rfl hne
    | cons c0 rest => exact walk_strict_isDir _ _ _ _ _ _ hw2
  · have hs0 : fs.start ⟨base.root, base.parts ++ rel⟩ = fs.start base := rfl
    rw [hs0, walk_append, hw1]; exact hw2

/-! ## deepening: verbatim use of the name, descent, round trip through `str` -/

theorem fslTarget_parts {ext : Option Name} {tp tp' : PPath} (h : fslTarget ext tp = .ok tp') :
    tp' = tp ∨ ∃ e, ext = some e ∧ e ≠ [] ∧ suffixOf tp.name = [] ∧ tp'.root = tp.root ∧
      tp'.parts = tp.parts.dropLast ++ [tp.name ++ e] := by
  unfold fslTarget at h
  split at h
  · rename_i c cs
    split at h
    · rename_i hs
      obtain ⟨_, _, hr, hp⟩ := withSuffix_ok hs h
      exact Or.inr ⟨c :: cs, rfl, by simp, hs, hr, hp⟩
    · cases h; exact Or.inl rfl
  · cases h; exact Or.inl rfl

theorem parse_name_ne_nil {s : List Ch} (h : (parse s).parts ≠ []) : (parse s).name ≠ [] := by
  unfold PPath.name
  cases hl : (parse s).parts.getLast? with
  | none => simp at hl; exact absurd hl h
  | some x =>
    simp only [Option.getD_some]
    exact (parse_parts_plain s x (List.mem_of_getLast? hl)).1

/-- plain descent to a regular file: every component on the way is a directory entry, nothing is followed -/
theorem segment_descend (root : Node) (rel : Comps) (c : Nat) (hc : Clean rel)
    (hb : ∀ x ∈ rel, nameBytes x ≤ NAME_MAX) :
    ∀ cur, nodeAt root (cur ++ rel) = some (.file c) → segment false root cur rel = .done (cur ++ rel) := by
  induction rel with
  | nil => intro cur _; simp [segment]
  | cons c0 rest ih =>
    intro cur hf
    have hcc := hc c0 (by simp)
    have hrest : Clean rest := fun d hd => hc d (by simp [hd])
    have hbrest : ∀ x ∈ rest, nameBytes x ≤ NAME_MAX := fun x hx => hb x (by simp [hx])
    have hb0 : ¬ nameBytes c0 > NAME_MAX := by have := hb c0 (by simp); omega
    -- the current node is a directory and the next one exists and is not a link
    have h1 : nodeAt root (cur ++ c0 :: rest) = (nodeAt root cur).bind (fun m => nodeAt m (c0 :: rest)) :=
      nodeAt_append root cur (c0 :: rest)
    have hdir : isDir (nodeAt root cur) = true := by
      rw [h1] at hf
      cases hn : nodeAt root cur with
      | none => simp [hn] at hf
      | some m => cases m <;> simp [hn, nodeAt, isDir] at hf ⊢
    have h2 : nodeAt root ((cur ++ [c0]) ++ rest) = (nodeAt root (cur ++ [c0])).bind (fun m => nodeAt m rest) :=
      nodeAt_append root (cur ++ [c0]) rest
    have hf' : nodeAt root ((cur ++ [c0]) ++ rest) = some (.file c) := by simpa using hf
    simp only [segment, Bool.not_false, Bool.true_and, hdir, Bool.not_true, Bool.false_eq_true, if_false,
      hcc.1, hcc.2.1, hcc.2.2.1, or_self, hb0]
    cases hn : nodeAt root (cur ++ [c0]) with
    | none => rw [h2, hn] at hf'; simp at hf'
    | some m =>
      cases m with
      | link a t =>
        rw [h2, hn] at hf'
        cases rest <;> simp [nodeAt] at hf'
      | file x => simpa [List.append_assoc] using ih hrest hbrest (cur ++ [c0]) hf'
      | dir es => simpa [List.append_assoc] using ih hrest hbrest (cur ++ [c0]) hf'

theorem isPrefix_self_append (a s : Comps) : isPrefix a (a ++ s) = true := by
  induction a with
  | nil => simp [isPrefix]
  | cons x xs ih => simp [isPrefix, ih]

theorem walk_descend (root : Node) (rel : Comps) (c : Nat) (hc : Clean rel) (hb : ∀ x ∈ rel, nameBytes x ≤ NAME_MAX)
    (cur : Comps) (hf : nodeAt root (cur ++ rel) = some (.file c)) (f : Nat) :
    walk false root f cur rel = .ok (f, cur ++ rel) :=
  walk_done (segment_descend root rel c hc hb cur hf) f


/-- the file at `canonical(base)/rel` is what `stat`, `exists`, `is_file`, `resolve` and `open` see at `base/rel` -/
theorem stat_of_descend {fs : FS} {base : PPath} {rel : Comps} {cb : Comps} {c f1 : Nat}
    (hw : walk false fs.root fs.maxLinks (fs.start base) base.parts = .ok (f1, cb))
    (hc : Clean rel) (hb : ∀ x ∈ rel, nameBytes x ≤ NAME_MAX)
    (hf : nodeAt fs.root (cb ++ rel) = some (.file c))
    (hbad : hasBadChar ⟨base.root, base.parts ++ rel⟩ = false)
    (hlen : strBytes ⟨base.root, base.parts ++ rel⟩ < PATH_MAX) :
    kstat fs ⟨base.root, base.parts ++ rel⟩ = .ok (.file c) := by
  have hs0 : fs.start ⟨base.root, base.parts ++ rel⟩ = fs.start base := rfl
  have hwalk : walk false fs.root fs.maxLinks (fs.start ⟨base.root, base.parts ++ rel⟩) (base.parts ++ rel)
      = .ok (f1, cb ++ rel) := by
    rw [hs0, walk_append, hw]
    exact walk_descend fs.root rel c hc hb cb hf f1
  have hl : ¬ strBytes ⟨base.root, base.parts ++ rel⟩ ≥ PATH_MAX := by omega
  simp [kstat, hbad, hl, hwalk, hf]

theorem fslProbe_of_file {fs : FS} {p : PPath} {c : Nat} (h : kstat fs p = .ok (.file c)) : fslProbe fs p = .ok true := by
  simp [fslProbe, pyExists, pyIsFile, h]

theorem fslProbe_false_of_no_file {fs : FS} {p : PPath} (h : ∀ c, kstat fs p ≠ .ok (.file c)) : fslProbe fs p = .ok false := by
  obtain ⟨b, hb⟩ := fslProbe_total fs p
  cases b with
  | false => exact hb
  | true => obtain ⟨c, hc⟩ := fslProbe_true hb; exact absurd hc (h c)

/-- the search loop stops at the first directory that has the file (earlier ones do not have it) -/
theorem fslSearch_hit {rej : Bool} {fs : FS} {tp : PPath} (htp : tp.root = 0) {pre post : List PPath} {base : PPath}
    {cb : Comps} {c f1 : Nat}
    (hpre : ∀ b ∈ pre, ∀ c', kstat fs (join b tp) ≠ .ok (.file c'))
    (hw : walk false fs.root fs.maxLinks (fs.start base) base.parts = .ok (f1, cb))
    (hc : Clean tp.parts) (hne : tp.parts ≠ []) (hb : ∀ x ∈ tp.parts, nameBytes x ≤ NAME_MAX)
    (hf : nodeAt fs.root (cb ++ tp.parts) = some (.file c))
    (hbad : hasBadChar ⟨base.root, base.parts ++ tp.parts⟩ = false)
    (hlen : strBytes ⟨base.root, base.parts ++ tp.parts⟩ < PATH_MAX) :
    fslSearch rej fs tp (pre ++ base :: post) = .ok ⟨base.root, base.parts ++ tp.parts⟩ := by
  induction pre with
  | cons b more ih =>
    simp only [List.cons_append, fslSearch]
    rw [fslProbe_false_of_no_file (hpre b (by simp))]
    exact ih (fun b' hb' => hpre b' (by simp [hb']))
  | nil =>
    have hk := stat_of_descend hw hc hb hf hbad hlen
    simp only [List.nil_append, fslSearch, join_rel htp, fslProbe_of_file hk]
    cases rej with
    | false => simp
    | true =>
      obtain ⟨f1', m, f, q, hw1, hw2, hnode, _, _, hr, hbres⟩ := read_factors hne hk
      rw [hw] at hw1; cases hw1
      have := walk_descend fs.root tp.parts c hc hb cb hf f1
      rw [this] at hw2; cases hw2
      simp [hr, hbres, isPrefix_self_append]



theorem pkgSearch_hit {fs : FS} {tp : PPath} (htp : tp.root = 0) {pre post : List PPath} {base : PPath}
    {cb : Comps} {c f1 : Nat}
    (hpre : ∀ b ∈ pre, ∀ c', kstat fs (join b tp) ≠ .ok (.file c'))
    (hw : walk false fs.root fs.maxLinks (fs.start base) base.parts = .ok (f1, cb))
    (hc : Clean tp.parts) (hb : ∀ x ∈ tp.parts, nameBytes x ≤ NAME_MAX)
    (hf : nodeAt fs.root (cb ++ tp.parts) = some (.file c))
    (hbad : hasBadChar ⟨base.root, base.parts ++ tp.parts⟩ = false)
    (hlen : strBytes ⟨base.root, base.parts ++ tp.parts⟩ < PATH_MAX) :
    pkgSearch fs tp (pre ++ base :: post) = .ok ⟨base.root, base.parts ++ tp.parts⟩ := by
  have hwf := wf_of_clean htp hc
  induction pre with
  | cons b more ih =>
    simp only [List.cons_append, pkgSearch, parse_strOf tp hwf]
    rcases pyIsFile_cases fs (join b tp) with g | g | g
    · obtain ⟨c', hc'⟩ := pyIsFile_true g
      exact absurd hc' (hpre b (by simp) c')
    · rw [g]; exact ih (fun b' hb' => hpre b' (by simp [hb']))
    · rw [g]; exact ih (fun b' hb' => hpre b' (by simp [hb']))
  | nil =>
    have hk := stat_of_descend hw hc hb hf hbad hlen
    simp [pkgSearch, parse_strOf tp hwf, join_rel htp, pyIsFile, hk]

theorem canon_walk {fs : FS} {p : PPath} {cb : Comps}
    (h : (match walk false fs.root fs.maxLinks (fs.start p) p.parts with
          | .ok (_, q) => some q
          | .error _ => none) = some cb) :
    ∃ f1, walk false fs.root fs.maxLinks (fs.start p) p.parts = .ok (f1, cb) := by
  split at h
  · rename_i f q hq; cases h; exact ⟨f, hq⟩
  · cases h


theorem fslResolve_target {cfg : FSLConfig} {fs : FS} {name : List Ch} {p : PPath} (h : fslResolve cfg fs name = .ok p) :
    ∃ tp', fslTarget cfg.ext (parse name) = .ok tp' ∧ tp'.root = 0 ∧
      fslSearch cfg.rejectSymlinks fs tp' cfg.search = .ok p := by
  unfold fslResolve at h
  simp only at h
  split at h
  · cases h
  · split at h
    · cases h
    · rename_i tp' ht
      split at h
      · cases h
      · rename_i hchk
        simp only [not_or, PPath.isAbsolute, decide_eq_true_eq, Nat.not_lt, Nat.le_zero_eq] at hchk
        exact ⟨tp', ht, hchk.2, h⟩

/-- the suffix step of `PackageLoader._resolve_path` -/
def pkgTarget (ext : Name) (tp : PPath) : Except Exc PPath :=
  if suffixOf tp.name = [] then withSuffix tp ext else .ok tp

theorem pkgResolve_target {cfg : PkgConfig} {fs : FS} {name : List Ch} {p : PPath} (h : pkgResolve cfg fs name = .ok p) :
    ∃ tp', pkgTarget cfg.ext (parse name) = .ok tp' ∧ tp'.root = 0 ∧ Clean tp'.parts ∧
      pkgSearch fs tp' cfg.paths = .ok p := by
  unfold pkgResolve at h
  simp only at h
  split at h
  · cases h
  · rename_i hn
    split at h
    · cases h
    · rename_i hchk
      simp only [not_or, PPath.isAbsolute, decide_eq_true_eq, Nat.not_lt, Nat.le_zero_eq] at hchk
      split at h
      · cases h
      · rename_i tp' ht
        refine ⟨tp', ht, ?_, ?_, h⟩
        · split at ht
          · rename_i hs; exact (withSuffix_ok hs ht).2.2.1.trans hchk.2
          · cases ht; exact hchk.2
        · split at ht
          · rename_i hs
            obtain ⟨_, _, _, hpl⟩ := withSuffix_parts_plain hs ht (Or.inr trivial) (parse_parts_plain name)
            exact clean_of_plain hpl (no_dotdot_after_suffix hs ht (parse_parts_plain name) hchk.1)
          · cases ht; exact clean_of_plain (parse_parts_plain name) hchk.1

theorem pkgTarget_parts {ext : Name} {tp tp' : PPath} (h : pkgTarget ext tp = .ok tp') :
    tp' = tp ∨ (suffixOf tp.name = [] ∧ tp'.root = tp.root ∧ tp'.parts = tp.parts.dropLast ++ [tp.name ++ ext]) := by
  unfold pkgTarget at h
  split at h
  · rename_i hs
    obtain ⟨_, _, hr, hp⟩ := withSuffix_ok hs h
    exact Or.inr ⟨hs, hr, hp⟩
  · cases h; exact Or.inl rfl

/-! ## the caching loader only ever stores and serves answers `get_source` gave -/

/-- every cached entry is an answer `get_source` gave, for the entry's key, on one of the file systems seen so far -/
def CacheInv (cfg : FSLConfig) (H : List (FS × List Ch)) (cache : List CEntry) : Prop :=
  ∀ e ∈ cache, ∃ fs, (fs, e.key) ∈ H ∧ fslGetSource cfg fs e.key = .ok (e.path, e.content)

theorem cacheFind_some {c : List CEntry} {k : List Ch} {e : CEntry} (h : cacheFind c k = some e) : e ∈ c ∧ e.key = k := by
  unfold cacheFind at h
  exact ⟨List.mem_of_find?_eq_some h, by simpa using List.find?_some h⟩

theorem mem_cacheTouch {c : List CEntry} {k : List Ch} {x : CEntry} (h : x ∈ cacheTouch c k) : x ∈ c := by
  unfold cacheTouch at h
  split at h
  · rename_i e he
    simp only [List.mem_append, List.mem_filter, List.mem_cons, List.not_mem_nil, or_false] at h
    rcases h with h | rfl
    · exact h.1
    · exact (cacheFind_some he).1
  · exact h

theorem mem_cacheSet {cap : Nat} {c : List CEntry} {e x : CEntry} (h : x ∈ cacheSet cap c e) : x ∈ c ∨ x = e := by
  unfold cacheSet at h
  split at h
  · simp only [List.mem_append, List.mem_filter, List.mem_cons, List.not_mem_nil, or_false] at h
    rcases h with h | rfl
    · exact Or.inl h.1
    · exact Or.inr rfl
  · simp only [List.mem_append, List.mem_cons, List.not_mem_nil, or_false] at h
    rcases h with h | rfl
    · split at h
      · exact Or.inl (List.mem_of_mem_drop h)
      · exact Or.inl h
    · exact Or.inr rfl

theorem fslLoad_ok {cfg : FSLConfig} {fs : FS} {mt : Comps → Nat} {name : List Ch} {e : CEntry}
    (h : fslLoad cfg fs mt name = .ok e) : e.key = name ∧ fslGetSource cfg fs name = .ok (e.path, e.content) := by
  unfold fslLoad at h
  split at h
  · cases h
  · rename_i p c hg
    split at h
    · cases h; exact ⟨rfl, hg⟩
    · cases h

theorem CacheInv.mono {cfg : FSLConfig} {H : List (FS × List Ch)} {cache : List CEntry} (x : FS × List Ch)
    (h : CacheInv cfg H cache) : CacheInv cfg (x :: H) cache :=
  fun e he => let ⟨fs, hm, hg⟩ := h e he; ⟨fs, List.mem_cons_of_mem _ hm, hg⟩

/-- one request: the invariant is kept and the answer, if any, is a past or present answer for this very name -/
theorem cachedLoad_step (L : CCfg) (fs : FS) (mt : Comps → Nat) (H : List (FS × List Ch)) (cache : List CEntry)
    (name : List Ch) (hinv : CacheInv L.fsl H cache) :
    CacheInv L.fsl ((fs, name) :: H) (cachedLoad L fs mt cache name).1 ∧
    ∀ p c, (cachedLoad L fs mt cache name).2 = .ok (p, c) →
      ∃ fs', (fs', name) ∈ (fs, name) :: H ∧ fslGetSource L.fsl fs' name = .ok (p, c) := by
  have hmono := CacheInv.mono (fs, name) hinv
  have touch : CacheInv L.fsl ((fs, name) :: H) (cacheTouch cache name) :=
    fun e he => hmono e (mem_cacheTouch he)
  have set_ok : ∀ (c0 : List CEntry) (e : CEntry), CacheInv L.fsl ((fs, name) :: H) c0 →
      fslLoad L.fsl fs mt name = .ok e → CacheInv L.fsl ((fs, name) :: H) (cacheSet L.capacity c0 e) := by
    intro c0 e h0 hl x hx
    rcases mem_cacheSet hx with hx | rfl
    · exact h0 x hx
    · obtain ⟨hk, hg⟩ := fslLoad_ok hl
      exact ⟨fs, by rw [hk]; simp, by rw [hk]; exact hg⟩
  have fresh : ∀ (e : CEntry) p c, fslLoad L.fsl fs mt name = .ok e → (e.path, e.content) = (p, c) →
      ∃ fs', (fs', name) ∈ (fs, name) :: H ∧ fslGetSource L.fsl fs' name = .ok (p, c) := by
    intro e p c hl heq
    obtain ⟨_, hg⟩ := fslLoad_ok hl
    exact ⟨fs, by simp, by rw [← heq]; exact hg⟩
  have stale : ∀ (ent : CEntry) p c, cacheFind cache name = some ent → (ent.path, ent.content) = (p, c) →
      ∃ fs', (fs', name) ∈ (fs, name) :: H ∧ fslGetSource L.fsl fs' name = .ok (p, c) := by
    intro ent p c hf heq
    obtain ⟨hm, hk⟩ := cacheFind_some hf
    obtain ⟨fs', hm', hg⟩ := hinv ent hm
    exact ⟨fs', by rw [← hk]; exact List.mem_cons_of_mem _ hm', by rw [← heq, ← hk]; exact hg⟩
  unfold cachedLoad
  split
  · -- miss
    split
    · rename_i e hl
      exact ⟨set_ok _ _ hmono hl, fun p c h => fresh e p c hl (by simpa using h)⟩
    · exact ⟨hmono, fun p c h => by simp at h⟩
  · rename_i ent hf
    simp only
    split
    · split
      · exact ⟨touch, fun p c h => by simp at h⟩
      · exact ⟨touch, fun p c h => stale ent p c hf (by simpa using h)⟩
      · split
        · rename_i e hl
          exact ⟨set_ok _ _ touch hl, fun p c h => fresh e p c hl (by simpa using h)⟩
        · exact ⟨touch, fun p c h => by simp at h⟩
    · exact ⟨touch, fun p c h => stale ent p c hf (by simpa using h)⟩


end LiquidVerif.PathSafe
