import LiquidVerif.Model.ExcFlow
/-!
Helper lemmas for C02.

* enumeration facts (`mem_all`) and the finite tables decided by the kernel over the generated handler tables;
* the sequencing lemmas that lift the per-step tables to argument lists of any length:
  an outcome of `runFilter f l args` is the post-processing (`decorator handlers`, then `Filter.evaluate` handlers) of
  either an exception of the decorator's conversion, or `ok`, or the arity `TypeError`, or an exception of one single
  step `s0 / s1 args[0]? / s2 args[1]? / s3 args[2]? / sEnd`.
-/
namespace LiquidVerif.C02
open LiquidVerif.Gen.C02 Cls Res

theorem Exc.mem_all (e : Exc) : e ∈ Exc.all := by cases e <;> simp [Exc.all]
theorem Cls.mem_all (c : Cls) : c ∈ Cls.all := by cases c <;> simp [Cls.all]
theorem FilterName.mem_all (f : FilterName) : f ∈ FilterName.all := by cases f <;> simp [FilterName.all]
theorem Site.mem_all (s : Site) : s ∈ Site.all := by cases s <;> simp [Site.all]

def containedB (r : Except Exc Unit) : Bool :=
  match r with
  | .ok _ => true
  | .error e => isLiquid e

/-- every outcome of `m` is success or a Liquid error -/
def allContained (m : Res Unit) : Bool := List.all m containedB

/-! ## `from_string` and the render loop -/

theorem from_string_table :
    (Exc.all.all fun e => !isSub e .Exception || allContained (fromString e)) = true := by decide +kernel

theorem from_string_all (e : Exc) (h : isSub e .Exception = true) : allContained (fromString e) = true := by
  have := List.all_eq_true.mp from_string_table e (Exc.mem_all e)
  simpa [h] using this

/-- the render loop never turns an exception into a different non-Liquid exception: each outcome is `ok`, a Liquid
error, or the very exception that came in -/
def loopOutcomeOk (e : Exc) (r : Except Exc Unit) : Bool :=
  match r with
  | .ok _ => true
  | .error x => isLiquid x || x == e

theorem render_loop_table :
    (Exc.all.all fun e => [true, false].all fun strict => List.all (renderLoop strict e) (loopOutcomeOk e)) = true := by
  decide +kernel

/-! ## Lists of outcomes -/

theorem mem_bind {m : Res α} {k : α → Res β} {o : Except Exc β} (h : o ∈ (Res.bind m k : List _)) :
    (∃ a, (Except.ok a) ∈ (m : List _) ∧ o ∈ (k a : List _)) ∨ (∃ e, (Except.error e) ∈ (m : List _) ∧ o = .error e) := by
  unfold Res.bind at h
  obtain ⟨r, hr, ho⟩ := List.mem_flatMap.mp h
  cases r with
  | ok a => exact Or.inl ⟨a, hr, ho⟩
  | error e =>
    simp only [List.mem_singleton] at ho
    exact Or.inr ⟨e, hr, ho⟩

theorem mem_excs {m : Res α} {e : Exc} (h : (Except.error e) ∈ (m : List _)) : e ∈ m.excs := by
  unfold Res.excs
  exact List.mem_filterMap.mpr ⟨_, h, rfl⟩

theorem mem_oks {m : Res α} {a : α} (h : (Except.ok a) ∈ (m : List _)) : a ∈ m.oks := by
  unfold Res.oks
  exact List.mem_filterMap.mpr ⟨_, h, rfl⟩

/-- which step an exception of the body came from -/
inductive FromStep (f : FilterName) (l : Cls) (a0 a1 a2 : Option Cls) (e : Exc) : Prop
  | s0 (h : e ∈ (steps f l).s0.excs)
  | s1 (h : e ∈ ((steps f l).s1 a0).excs)
  | s2 (h : e ∈ ((steps f l).s2 a1).excs)
  | s3 (h : e ∈ ((steps f l).s3 a2).excs)
  | sEnd (h : e ∈ (steps f l).sEnd.excs)

theorem body_outcome {f : FilterName} {l : Cls} {a0 a1 a2 : Option Cls} {r : Except Exc Unit}
    (h : r ∈ (body f l a0 a1 a2 : List _)) : r = .ok () ∨ ∃ e, r = .error e ∧ FromStep f l a0 a1 a2 e := by
  unfold body at h
  simp only at h
  rcases mem_bind h with ⟨_, _, h⟩ | ⟨e, he, rfl⟩
  · rcases mem_bind h with ⟨_, _, h⟩ | ⟨e, he, rfl⟩
    · rcases mem_bind h with ⟨_, _, h⟩ | ⟨e, he, rfl⟩
      · rcases mem_bind h with ⟨_, _, h⟩ | ⟨e, he, rfl⟩
        · cases r with
          | ok u => exact Or.inl rfl
          | error e => exact Or.inr ⟨e, rfl, .sEnd (mem_excs h)⟩
        · exact Or.inr ⟨e, rfl, .s3 (mem_excs he)⟩
      · exact Or.inr ⟨e, rfl, .s2 (mem_excs he)⟩
    · exact Or.inr ⟨e, rfl, .s1 (mem_excs he)⟩
  · exact Or.inr ⟨e, rfl, .s0 (mem_excs he)⟩

theorem callBody_outcome {f : FilterName} {l : Cls} {args : List Cls} {r : Except Exc Unit}
    (h : r ∈ (callBody f l args : List _)) :
    r = .ok () ∨ r = .error .TypeError ∨
      ∃ e, r = .error e ∧ args.length ≤ f.arity.2 ∧ FromStep f l args[0]? args[1]? args[2]? e := by
  unfold callBody at h
  split at h
  · exact Or.inr (Or.inl (List.mem_singleton.mp h))
  · rename_i hc
    have har : args.length ≤ f.arity.2 := by
      simp only [Bool.or_eq_true, decide_eq_true_eq, not_or, Nat.not_lt] at hc
      exact hc.2
    rcases body_outcome h with h | ⟨e, he, hs⟩
    · exact Or.inl h
    · exact Or.inr (Or.inr ⟨e, he, har, hs⟩)

/-- post-processing of one outcome of the call: the decorator's handlers, then `Filter.evaluate`'s -/
def post (f : FilterName) (r : Except Exc Unit) : Res Unit := List.flatMap postEval (postDeco f r)

/-- where an outcome of `runFilter` comes from -/
theorem runFilter_outcome {f : FilterName} {l : Cls} {args : List Cls} {o : Except Exc Unit}
    (hd : f.decos.length ≤ 1) (h : o ∈ (runFilter f l args : List _)) :
    (∃ e, e ∈ (pre f l).excs ∧ o ∈ (postEval (.error e) : List _)) ∨
    (∃ l', l' ∈ (pre f l).oks ∧ ∃ r, r ∈ (callBody f l' args : List _) ∧ o ∈ (post f r : List _)) := by
  unfold runFilter at h
  rw [if_neg (by omega)] at h
  unfold runFilterCore at h
  obtain ⟨r, hr, ho⟩ := List.mem_flatMap.mp h
  rcases mem_bind hr with ⟨l', hl', hr⟩ | ⟨e, he, rfl⟩
  · obtain ⟨r', hr', hrr⟩ := List.mem_flatMap.mp hr
    exact Or.inr ⟨l', mem_oks hl', r', hr', List.mem_flatMap.mpr ⟨r, hrr, ho⟩⟩
  · exact Or.inl ⟨e, mem_excs he, ho⟩

end LiquidVerif.C02
