import LiquidVerif.Model.ExcFlow
/-! Helper lemmas for C02: enumeration facts decided by the kernel over the generated tables. -/
namespace LiquidVerif.C02
open LiquidVerif.Gen.C02 Cls Res

theorem Exc.mem_all (e : Exc) : e ∈ Exc.all := by cases e <;> decide
theorem Cls.mem_all (c : Cls) : c ∈ Cls.all := by cases c <;> decide
theorem FilterName.mem_all (f : FilterName) : f ∈ FilterName.all := by cases f <;> decide
theorem Site.mem_all (s : Site) : s ∈ Site.all := by cases s <;> decide

def containedB (r : Except Exc Unit) : Bool :=
  match r with
  | .ok _ => true
  | .error e => isLiquid e

theorem from_string_table :
    (Exc.all.all fun e => !isSub e .Exception || (fromString e).all containedB) = true := by decide +kernel

theorem from_string_all (e : Exc) (he : e ∈ Exc.all) (h : isSub e .Exception = true) :
    ∀ o ∈ fromString e, containedB o = true := by
  have := List.all_eq_true.mp from_string_table e he
  simp only [h, Bool.not_true, Bool.false_or] at this
  exact fun o ho => List.all_eq_true.mp this o ho

end LiquidVerif.C02
