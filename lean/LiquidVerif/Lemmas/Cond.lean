import LiquidVerif.Model.Cond
/-! Helper lemmas about `Model/Value.lean` and `Model/Cond.lean`. -/
namespace LiquidVerif.Cond
open LiquidVerif.Value

/-- the substring test of the model is the usual "is a contiguous sublist" -/
theorem isInfixB_iff (n : List Char) : ∀ h : List Char, isInfixB n h = true ↔ n <:+: h
  | [] => by
    simp [isInfixB, List.infix_nil]
  | c :: t => by
    simp only [isInfixB, Bool.or_eq_true, List.isPrefixOf_iff_prefix, isInfixB_iff n t, List.infix_cons_iff]

/-- Python's `True == 1`, `False == 0` read back on booleans -/
theorem boolQ_eq (x y : Bool) :
    Q.eq (Q.ofInt (if x then 1 else 0)) (Q.ofInt (if y then 1 else 0)) = (x == y) := by
  cases x <;> cases y <;> decide

theorem any_eq_true_iff {α} (xs : List α) (f : α → Bool) : xs.any f = true ↔ ∃ x ∈ xs, f x = true := by
  simp

/-- values that are not booleans, undefined or the `empty`/`blank` literals (anything else that render data
    can hold) -/
def Plain : Val → Bool
  | .bool _ => false | .undef => false | .empty => false | .blank => false | _ => true

theorem pyEq_eq_liquidEq_of_plain (x y : Val) (hx : Plain x = true) (hy : Plain y = true) :
    pyEq x y = liquidEq x y := by
  cases x <;> simp [Plain] at hx <;> cases y <;> simp [Plain] at hy <;>
    simp [liquidEq, toLiquid, Val.isSentinel, Val.isBool]

theorem pyEqL_itemwise (xs ys : List Val) (hx : ∀ x ∈ xs, Plain x = true) (hy : ∀ y ∈ ys, Plain y = true) :
    pyEqL xs ys = (decide (xs.length = ys.length) && (List.zipWith liquidEq xs ys).all id) := by
  induction xs generalizing ys with
  | nil => cases ys <;> simp [pyEqL]
  | cons x xs ih =>
    cases ys with
    | nil => simp [pyEqL]
    | cons y ys =>
      simp only [pyEqL, List.length_cons, List.zipWith_cons_cons, List.all_cons, id]
      rw [ih ys (fun a ha => hx a (by simp [ha])) (fun a ha => hy a (by simp [ha])),
        pyEq_eq_liquidEq_of_plain x y (hx x (by simp)) (hy y (by simp))]
      by_cases h : xs.length = ys.length <;> simp [h, Bool.and_comm]


theorem selectFrom_ge (cs : List (Res Bool)) (m n : Nat) (h : selectFrom m cs = .ok (some n)) : m ≤ n := by
  induction cs generalizing m with
  | nil => simp [selectFrom] at h
  | cons c cs ih =>
    cases c with
    | ok b =>
      cases b
      · have := ih (m + 1) (by simpa [selectFrom] using h); omega
      · simp [selectFrom] at h; omega
    | typeError => simp [selectFrom] at h
    | hostError => simp [selectFrom] at h


end LiquidVerif.Cond
