import LiquidVerif.Lemmas.TaintEnt
import LiquidVerif.Lemmas.TaintRender
/-! The `Good` invariant (clean and entity-complete) through expressions, tags and whole templates: the text of
`Lemmas/TaintRender.lean` with `Inv → InvE`, `Good → Good`, `ok → okE` (generated once by substitution, then checked in). -/
namespace LiquidVerif.Taint
open LiquidVerif.Escape

def EnvInvE (e : Env) : Prop := ∀ p ∈ e, p.2.InvE

/-- every value a template can reach satisfies the invariant, and nothing raw has been written so far -/
structure St.InvE (st : St) : Prop where
  scopes : ∀ e ∈ st.scopes, EnvInvE e
  locals : EnvInvE st.locals
  globals : EnvInvE st.globals
  out : Good st.out

theorem lookupEnv_invE {n : String} {e : Env} (he : EnvInvE e) {v : Val} (h : lookupEnv n e = some v) : v.InvE := by
  induction e with
  | nil => cases h
  | cons p r ih =>
    obtain ⟨k, w⟩ := p
    unfold lookupEnv at h
    split at h
    · simp only [Option.some.injEq] at h; subst h; exact he (k, w) (by simp)
    · exact ih (fun q hq => he q (List.mem_cons_of_mem _ hq)) h

theorem lookupScopes_invE {n : String} {ss : List Env} (hs : ∀ e ∈ ss, EnvInvE e) {v : Val}
    (h : lookupScopes n ss = some v) : v.InvE := by
  induction ss with
  | nil => cases h
  | cons e r ih =>
    unfold lookupScopes at h
    split at h
    · rename_i w hw; cases h; exact lookupEnv_invE (hs e (by simp)) hw
    · exact ih (fun e' he' => hs e' (List.mem_cons_of_mem _ he')) h

theorem get_invE {st : St} (hi : st.InvE) (n : String) : (st.get n).InvE := by
  unfold St.get
  split
  · rename_i v hv; exact lookupScopes_invE hi.scopes hv
  · split
    · rename_i v hv; exact lookupEnv_invE hi.locals hv
    · cases hg : lookupEnv n st.globals with
      | none => simp [Val.InvE]
      | some v => simpa using lookupEnv_invE hi.globals hg

theorem evalArg_invE {st : St} (hi : st.InvE) {a : Arg} (ha : a.okE = true) : (evalArg true st a).InvE := by
  cases a with
  | lit s => exact invE_safe (isGood_iff.mp ha)
  | var n => exact get_invE hi n
  | int i => trivial
  | nil => trivial

theorem evalArgs_invE {st : St} (hi : st.InvE) {args : List Arg} (ha : args.all Arg.okE = true) :
    ∀ a ∈ args.map (evalArg true st), a.InvE := by
  intro a hm
  obtain ⟨x, hx, rfl⟩ := List.mem_map.mp hm
  exact evalArg_invE hi (List.all_eq_true.mp ha x hx)

/-- a chain of allowed filters with clean literal arguments preserves the invariant -/
theorem applyChain_invE (P : Prims) {st : St} (hi : st.InvE) : ∀ {fs : List FCall} {v r : Val},
    fs.all FCall.okE = true → v.InvE → applyChain P true st fs v = .ok r → r.InvE := by
  intro fs
  induction fs with
  | nil => intro v r _ hv h; simp only [applyChain, Except.ok.injEq] at h; subst h; exact hv
  | cons f fs ih =>
    intro v r hok hv h
    simp only [List.all_cons, Bool.and_eq_true, FCall.okE] at hok
    unfold applyChain at h
    split at h
    · rename_i v' hv'
      exact ih hok.2 (applyFilter_invE P hok.1.1 hv (evalArgs_invE hi hok.1.2) hv') h
    · cases h

theorem evalExpr_invE (P : Prims) {st : St} (hi : st.InvE) {e : Expr} (he : e.okE = true) {r : Val}
    (h : evalExpr P true st e = .ok r) : r.InvE := by
  cases e with
  | chain hd fs =>
    simp only [Expr.okE, Bool.and_eq_true] at he
    exact applyChain_invE P hi he.2 (evalArg_invE hi he.1) h
  | ternary hd fs c alt tail =>
    simp only [Expr.okE, Bool.and_eq_true] at he
    obtain ⟨⟨⟨⟨h1, h2⟩, _⟩, h4⟩, h5⟩ := he
    simp only [evalExpr] at h
    split at h
    · rename_i v hv
      refine applyChain_invE P hi h5 ?_ h
      split at hv
      · cases hv
      · exact applyChain_invE P hi h2 (evalArg_invE hi h1) hv
      · split at hv
        · rename_i a afs
          simp only [Bool.and_eq_true] at h4
          exact applyChain_invE P hi h4.2 (evalArg_invE hi h4.1) hv
        · simp only [Except.ok.injEq] at hv; subst hv; trivial
    · cases h

theorem setEnv_invE {n : String} {v : Val} (hv : v.InvE) : ∀ {e : Env}, EnvInvE e → EnvInvE (setEnv n v e) := by
  intro e
  induction e with
  | nil => intro _ p hp; simp only [setEnv, List.mem_singleton] at hp; subst hp; exact hv
  | cons q r ih =>
    intro he
    obtain ⟨k, w⟩ := q
    unfold setEnv
    split
    · intro p hp
      rcases List.mem_cons.mp hp with rfl | hp
      · exact hv
      · exact he p (List.mem_cons_of_mem _ hp)
    · intro p hp
      rcases List.mem_cons.mp hp with rfl | hp
      · exact he (k, w) (by simp)
      · exact ih (fun q hq => he q (List.mem_cons_of_mem _ hq)) p hp

theorem assign_invE {st : St} (hi : st.InvE) (n : String) {v : Val} (hv : v.InvE) : (st.assign n v).InvE :=
  ⟨hi.scopes, setEnv_invE hv hi.locals, hi.globals, hi.out⟩

theorem write_invE {st : St} (hi : st.InvE) {s : Str} (hs : Good s) : (st.write s).InvE :=
  ⟨hi.scopes, hi.locals, hi.globals, good_append_mpr ⟨hi.out, hs⟩⟩

theorem evalKw_invE (P : Prims) {st : St} (hi : st.InvE) : ∀ {args : List (String × Expr)} {env : Env},
    args.all (fun p => p.2.okE) = true → evalKw P true st args = .ok env → EnvInvE env := by
  intro args
  induction args with
  | nil => intro env _ h; simp only [evalKw, Except.ok.injEq] at h; subst h; intro p hp; cases hp
  | cons a r ih =>
    intro env hok h
    obtain ⟨k, e⟩ := a
    simp only [List.all_cons, Bool.and_eq_true] at hok
    unfold evalKw at h
    split at h
    · cases h
    · rename_i v hv
      split at h
      · cases h
      · rename_i env' henv
        simp only [Except.ok.injEq] at h; subst h
        intro p hp
        rcases List.mem_cons.mp hp with rfl | hp
        · exact evalExpr_invE P hi hok.1 hv
        · exact ih hok.2 henv p hp

theorem fmtMsg_cleanE {st : St} (hi : st.InvE) : ∀ {msg : List Piece}, msg.all Piece.okE = true → Good (fmtMsg true st msg) := by
  intro msg
  induction msg with
  | nil => intro _; exact good_nil
  | cons p r ih =>
    intro hok
    simp only [List.all_cons, Bool.and_eq_true] at hok
    cases p with
    | text s => exact good_append_mpr ⟨isGood_iff.mp hok.1, ih hok.2⟩
    | var n => exact good_append_mpr ⟨outVal_good (get_invE hi n), ih hok.2⟩

theorem loopItems_invE {v : Val} (hv : v.InvE) : ∀ it ∈ loopItems v, it.InvE := by
  intro it hit
  cases v <;> simp only [loopItems, List.not_mem_nil] at hit
  · split at hit
    · cases hit
    · simp only [List.mem_singleton] at hit; subst hit; exact hv
  · obtain ⟨x, hx, rfl⟩ := List.mem_map.mp hit
    exact hv x hx

theorem kwArgs_invE {st : St} (hi : st.InvE) {args : List (String × Arg)} (ha : args.all (fun p => p.2.okE) = true) :
    EnvInvE (args.map fun (k, a) => (k, evalArg true st a)) := by
  intro p hp
  obtain ⟨⟨k, a⟩, hx, rfl⟩ := List.mem_map.mp hp
  exact evalArg_invE hi (List.all_eq_true.mp ha (k, a) hx)

theorem getD_invE {vals : List Val} (h : ∀ v ∈ vals, v.InvE) (i : Nat) : (vals.getD i .nil).InvE := by
  rw [List.getD_eq_getElem?_getD]
  cases hg : vals[i]? with
  | none => trivial
  | some v => exact h v (List.mem_of_getElem? hg)

/-- **the renderer preserves the invariant** — for one node, for a block, and for the iterations of a loop -/
theorem render_inv_auxE (P : Prims) :
    (∀ (n : Node) (st : St), n.okE = true → st.InvE → ∀ st', renderNode P true n st = .ok st' → st'.InvE) ∧
    (∀ (x : String) (body : List Node) (items : List Val) (st : St), nodesOkE body = true → (∀ it ∈ items, it.InvE) → st.InvE →
        ∀ st', renderLoop P true x body items st = .ok st' → st'.InvE) ∧
    (∀ (ns : List Node) (st : St), nodesOkE ns = true → st.InvE → ∀ st', renderNodes P true ns st = .ok st' → st'.InvE) := by
  apply renderNode.mutual_induct P true
    (motive1 := fun n st => n.okE = true → st.InvE → ∀ st', renderNode P true n st = .ok st' → st'.InvE)
    (motive2 := fun x body items st => nodesOkE body = true → (∀ it ∈ items, it.InvE) → st.InvE →
        ∀ st', renderLoop P true x body items st = .ok st' → st'.InvE)
    (motive3 := fun ns st => nodesOkE ns = true → st.InvE → ∀ st', renderNodes P true ns st = .ok st' → st'.InvE)
  -- text
  · intro s st hok hi st' h
    simp only [renderNode, Except.ok.injEq] at h; subst h
    exact write_invE hi (isGood_iff.mp hok)
  -- output
  · intro e st v hv hok hi st' h
    simp only [renderNode, hv, Except.ok.injEq] at h; subst h
    exact write_invE hi (outVal_good (evalExpr_invE P hi hok hv))
  · intro e st err hv hok hi st' h
    simp only [renderNode, hv, reduceCtorEq] at h
  -- assign
  · intro n e st v hv hok hi st' h
    simp only [renderNode, hv, Except.ok.injEq] at h; subst h
    exact assign_invE hi n (evalExpr_invE P hi hok hv)
  · intro n e st err hv hok hi st' h
    simp only [renderNode, hv, reduceCtorEq] at h
  -- capture: the buffer is stored as Markup; it is clean because the block wrote only clean text
  · intro n body st st1 hb ih hok hi st' h
    simp only [renderNode, hb, Except.ok.injEq] at h; subst h
    have h1 := ih hok ⟨hi.scopes, hi.locals, hi.globals, good_nil⟩ st1 hb
    have h2 : St.InvE { st1 with out := st.out } := ⟨h1.scopes, h1.locals, h1.globals, hi.out⟩
    exact assign_invE h2 n (invE_safe h1.out)
  · intro n body st err hb _ hok hi st' h
    simp only [renderNode, hb, reduceCtorEq] at h
  -- cycle
  · intro args st vals j r' hc hok hi st' h
    simp only [renderNode] at h
    have hv : ∀ v ∈ args.map (evalArg true st), v.InvE := evalArgs_invE hi hok
    generalize cycleStep _ _ st.cycles = cs at h
    obtain ⟨i, cyc⟩ := cs
    simp only [Except.ok.injEq] at h; subst h
    exact write_invE (st := { st with cycles := cyc }) ⟨hi.scopes, hi.locals, hi.globals, hi.out⟩ (outVal_good (getD_invE hv i))
  -- for
  · intro x it body dflt st err hv hok hi st' h
    simp only [renderNode, hv, reduceCtorEq] at h
  · intro x it body dflt st v hv hl ih hok hi st' h
    simp only [Node.okE, Bool.and_eq_true] at hok
    simp only [renderNode, hv, hl] at h
    exact ih hok.2 hi st' h
  · intro x it body dflt st v hv hl ih hok hi st' h
    simp only [Node.okE, Bool.and_eq_true] at hok
    simp only [renderNode, hv] at h
    exact ih hok.1.2 (loopItems_invE (evalExpr_invE P hi hok.1.1 hv)) hi st' h
  -- if
  · intro c thn els st hc ih hok hi st' h
    simp only [Node.okE, Bool.and_eq_true] at hok
    simp only [renderNode, hc] at h
    exact ih hok.1.2 hi st' h
  · intro c thn els st hc ih hok hi st' h
    simp only [Node.okE, Bool.and_eq_true] at hok
    simp only [renderNode, hc] at h
    exact ih hok.2 hi st' h
  · intro c thn els st e hc hok hi st' h
    simp only [renderNode, hc, reduceCtorEq] at h
  -- include: the arguments are a pushed namespace for the duration of the partial
  · intro args body st ns st1 hb ih hok hi st' h
    simp only [Node.okE, Bool.and_eq_true] at hok
    have hns : EnvInvE (args.map fun (k, a) => (k, evalArg true st a)) := kwArgs_invE hi hok.1
    have hns_eq : ns = args.map (fun (k, a) => (k, evalArg true st a)) := kw_attach st args
    rw [hns_eq] at hb ih
    simp only [renderNode, hb, Except.ok.injEq] at h; subst h
    have hi1 : St.InvE { st with scopes := (args.map fun (k, a) => (k, evalArg true st a)) :: st.scopes } := by
      refine ⟨?_, hi.locals, hi.globals, hi.out⟩
      intro e he
      rcases List.mem_cons.mp he with rfl | he
      · exact hns
      · exact hi.scopes e he
    have h1 := ih hok.2 hi1 st1 hb
    exact ⟨hi.scopes, h1.locals, h1.globals, h1.out⟩
  · intro args body st ns err hb _ hok hi st' h
    have hns_eq : ns = args.map (fun (k, a) => (k, evalArg true st a)) := kw_attach st args
    rw [hns_eq] at hb
    simp only [renderNode, hb, reduceCtorEq] at h
  -- render: an isolated context whose globals are the arguments chained before the caller's globals
  · intro args body st ns st1 hb ih hok hi st' h
    simp only [Node.okE, Bool.and_eq_true] at hok
    have hns : EnvInvE (args.map fun (k, a) => (k, evalArg true st a)) := kwArgs_invE hi hok.1
    have hns_eq : ns = args.map (fun (k, a) => (k, evalArg true st a)) := kw_attach st args
    rw [hns_eq] at hb ih
    simp only [renderNode, hb, Except.ok.injEq] at h; subst h
    have hi1 : St.InvE ⟨[], [], (args.map fun (k, a) => (k, evalArg true st a)) ++ st.globals, [], st.out⟩ := by
      refine ⟨fun e he => (by cases he), fun p hp => (by cases hp), ?_, hi.out⟩
      intro p hp
      rcases List.mem_append.mp hp with hp | hp
      · exact hns p hp
      · exact hi.globals p hp
    have h1 := ih hok.2 hi1 st1 hb
    exact ⟨hi.scopes, hi.locals, hi.globals, h1.out⟩
  · intro args body st ns err hb _ hok hi st' h
    have hns_eq : ns = args.map (fun (k, a) => (k, evalArg true st a)) := kw_attach st args
    rw [hns_eq] at hb
    simp only [renderNode, hb, reduceCtorEq] at h
  -- translate
  · intro args msg st err hk hok hi st' h
    simp only [renderNode, hk, reduceCtorEq] at h
  · intro args msg st env hk hok hi st' h
    simp only [Node.okE, Bool.and_eq_true] at hok
    simp only [renderNode, hk, Except.ok.injEq] at h; subst h
    have henv := evalKw_invE P hi hok.1 hk
    have hi2 : St.InvE { st with scopes := env :: st.scopes } := by
      refine ⟨?_, hi.locals, hi.globals, hi.out⟩
      intro e he
      rcases List.mem_cons.mp he with rfl | he
      · exact henv
      · exact hi.scopes e he
    exact write_invE hi (fmtMsg_cleanE hi2 hok.2)
  -- loop
  · intro x body st _ _ hi st' h
    simp only [renderLoop, Except.ok.injEq] at h; subst h; exact hi
  · intro x body it rest st st1 hb ihb ihr hok hits hi st' h
    simp only [renderLoop, hb] at h
    have hi1 : St.InvE { st with scopes := [(x, it)] :: st.scopes } := by
      refine ⟨?_, hi.locals, hi.globals, hi.out⟩
      intro e he
      rcases List.mem_cons.mp he with rfl | he
      · intro p hp; simp only [List.mem_singleton] at hp; subst hp; exact hits it (by simp)
      · exact hi.scopes e he
    have h1 := ihb hok hi1 st1 hb
    have hi2 : St.InvE { st1 with scopes := st.scopes } := ⟨hi.scopes, h1.locals, h1.globals, h1.out⟩
    exact ihr hok (fun i hi' => hits i (List.mem_cons_of_mem _ hi')) hi2 st' h
  · intro x body it rest st err hb _ hok hits hi st' h
    simp only [renderLoop, hb, reduceCtorEq] at h
  -- blocks
  · intro st _ hi st' h
    simp only [renderNodes, Except.ok.injEq] at h; subst h; exact hi
  · intro n ns st st1 hn ihn ihs hok hi st' h
    simp only [nodesOkE, Bool.and_eq_true] at hok
    simp only [renderNodes, hn] at h
    exact ihs hok.2 (ihn hok.1 hi st1 hn) st' h
  · intro n ns st err hn _ hok hi st' h
    simp only [renderNodes, hn, reduceCtorEq] at h

end LiquidVerif.Taint
