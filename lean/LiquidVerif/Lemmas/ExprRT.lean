import LiquidVerif.Model.ExprParse
import LiquidVerif.Lemmas.PathRT
/-! Helper lemmas for C04 (deepening): round trip of primitives, filter lists and loop expressions. -/
namespace LiquidVerif.ExprParse
open LiquidVerif.Printer LiquidVerif.BoolParse

mutual
theorem view_xSeg (first : Bool) (s : Seg) : (xSeg first s).map view = tokSeg first s := by
  cases s with
  | name n => unfold xSeg tokSeg; split <;> (try split) <;> simp [view]
  | idx i => simp [xSeg, tokSeg, view]
  | sub p => simp [xSeg, tokSeg, view, view_xSegs true p]
theorem view_xSegs (first : Bool) (p : Segs) : (xSegs first p).map view = tokSegs first p := by
  cases p with
  | nil => simp [xSegs, tokSegs]
  | cons s r => simp [xSegs, tokSegs, view_xSeg first s, view_xSegs false r]
end

/-- the next token does not continue a path -/
def XStop (rest : List XTok) : Prop := PathStop (rest.map view)

theorem pathX_rt (s : Seg) (p : Segs) (rest : List XTok) (hw : (Segs.cons s p).wf) (hs : XStop rest) :
    (pathX (xSegs true (.cons s p) ++ rest)).map (fun x => (x.1, x.2.1)) = some (.cons s p, rest) := by
  unfold pathX
  have h := path_print_parse_aux s p (rest.map view) hw hs
  rw [List.map_append, view_xSegs, h]
  simp
where
  path_print_parse_aux (s : Seg) (p : Segs) (rest : List PTok) (hw : (Segs.cons s p).wf) (hs : PathStop rest) :
      parsePath (tokSegs true (.cons s p) ++ rest) = some (.cons s p, rest) :=
    parsePath_of_loop _ _ _ _ (segs_rt (.cons s p) true rest hw hs)

/-- primitives that the parser can produce and whose text determines them: everything except the
keyword literals `nil`/`empty`/`blank` (known findings: they print as the empty string); paths are well
formed and start with a word, a quoted name or a bracket (`parse_primitive` accepts nothing else) -/
def PrimOK : Prim → Prop
  | .tru => True
  | .fals => True
  | .int _ => True
  | .float _ => True
  | .str _ => True
  | .range a b => PrimOK a ∧ PrimOK b
  | .path (.cons (.idx _) _) => False
  | .path (.cons s p) => (Segs.cons s p).wf
  | _ => False

theorem xstop_range (r : List XTok) : XStop (.range :: r) := by simp [XStop, view, PathStop]
theorem xstop_rparen (r : List XTok) : XStop (.rparen :: r) := by simp [XStop, view, PathStop]

theorem prim_path (s : Seg) (p : Segs) (rest : List XTok) (hw : (Segs.cons s p).wf)
    (hs : XStop rest) (hi : ∀ i, s ≠ .idx i) :
    prim (xSegs true (.cons s p) ++ rest) = some (.path (.cons s p), rest) := by
  have h := pathX_rt s p rest hw hs
  unfold prim
  cases s with
  | idx i => exact absurd rfl (hi i)
  | name n =>
    by_cases hp : isProperty n = true
    · have e : xSegs true (.cons (.name n) p) ++ rest = .word n :: (xSegs false p ++ rest) := by
        simp [xSegs, xSeg, hp]
      rw [e] at h ⊢
      rw [primS]
      cases hx : pathX (.word n :: (xSegs false p ++ rest)) with
      | none => simp [hx] at h
      | some x => simp [hx] at h ⊢; exact h
    · have e : xSegs true (.cons (.name n) p) ++ rest = .identstring n :: (xSegs false p ++ rest) := by
        simp [xSegs, xSeg, hp]
      rw [e] at h ⊢
      rw [primS]
      cases hx : pathX (.identstring n :: (xSegs false p ++ rest)) with
      | none => simp [hx] at h
      | some x => simp [hx] at h ⊢; exact h
  | sub q =>
    have e : xSegs true (.cons (.sub q) p) ++ rest = .lbracket :: (xSegs true q ++ .rbracket :: (xSegs false p ++ rest)) := by
      simp [xSegs, xSeg]
    rw [e] at h ⊢
    rw [primS]
    cases hx : pathX (.lbracket :: (xSegs true q ++ .rbracket :: (xSegs false p ++ rest))) with
    | none => simp [hx] at h
    | some x => simp [hx] at h ⊢; exact h

/-- **`parse_primitive (tokens(str p) ++ rest) = (p, rest)`** for every primitive of `PrimOK` -/
theorem prim_rt (p : Prim) : PrimOK p → ∀ rest, XStop rest → prim (tokPrim p ++ rest) = some (p, rest) := by
  induction p with
  | nil => intro h; exact absurd h (by simp [PrimOK])
  | empty => intro h; exact absurd h (by simp [PrimOK])
  | blank => intro h; exact absurd h (by simp [PrimOK])
  | word s => intro h; exact absurd h (by simp [PrimOK])
  | tru => intro _ rest _; simp [tokPrim, prim, primS]
  | fals => intro _ rest _; simp [tokPrim, prim, primS]
  | int i => intro _ rest _; simp [tokPrim, prim, primS]
  | float t => intro _ rest _; simp [tokPrim, prim, primS]
  | str v => intro _ rest _; simp [tokPrim, prim, primS]
  | range a b iha ihb =>
    intro h rest _
    obtain ⟨ha, hb⟩ := (by simpa [PrimOK] using h : PrimOK a ∧ PrimOK b)
    have e : tokPrim (.range a b) ++ rest = .rangelit :: (tokPrim a ++ (.range :: (tokPrim b ++ (.rparen :: rest)))) := by
      simp [tokPrim]
    have h1 := iha ha (.range :: (tokPrim b ++ (.rparen :: rest))) (xstop_range _)
    have h2 := ihb hb (.rparen :: rest) (xstop_rparen _)
    rw [e]
    unfold prim at h1 h2 ⊢
    rw [primS]
    cases hx : primS (tokPrim a ++ (.range :: (tokPrim b ++ (.rparen :: rest)))) with
    | none => simp [hx] at h1
    | some x =>
      obtain ⟨a', r1, hr1⟩ := x
      simp only [hx, Option.map_some, Option.some.injEq, Prod.mk.injEq] at h1
      obtain ⟨rfl, rfl⟩ := h1
      simp only
      cases hy : primS (tokPrim b ++ (.rparen :: rest)) with
      | none => simp [hy] at h2
      | some y =>
        obtain ⟨b', r2, hr2⟩ := y
        simp only [hy, Option.map_some, Option.some.injEq, Prod.mk.injEq] at h2
        obtain ⟨rfl, rfl⟩ := h2
        simp
  | path q =>
    intro h rest hs
    cases q with
    | nil => exact absurd h (by simp [PrimOK])
    | cons s p =>
      cases s with
      | idx i => exact absurd h (by simp [PrimOK])
      | name n => exact prim_path _ _ _ (by simpa [PrimOK] using h) hs (by intro i; simp)
      | sub q' => exact prim_path _ _ _ (by simpa [PrimOK] using h) hs (by intro i; simp)

/-! ### loop expressions -/

theorem primS_of_prim {ts rest : List XTok} {v : Prim} (h : prim ts = some (v, rest)) :
    ∃ hr, primS ts = some (v, ⟨rest, hr⟩) := by
  unfold prim at h
  cases hx : primS ts with
  | none => simp [hx] at h
  | some x =>
    obtain ⟨v', r, hr⟩ := x
    simp only [hx, Option.map_some, Option.some.injEq, Prod.mk.injEq] at h
    obtain ⟨rfl, rfl⟩ := h
    exact ⟨hr, rfl⟩

theorem xstop_kw (k : String) (r : List XTok) : XStop (.kw k :: r) := by simp [XStop, view, PathStop]
theorem xstop_nil : XStop [] := by simp [XStop, PathStop]

theorem opts_limit (st : LoopSt) (v : Prim) (X : List XTok) (hv : PrimOK v) (hX : XStop X) :
    loopOptsS st (tokOpt "limit" (some v) ++ X) = loopOptsS { st with limit := some v } X := by
  obtain ⟨hr, hp⟩ := primS_of_prim (prim_rt v hv X hX)
  have e : tokOpt "limit" (some v) ++ X = .kw "limit" :: .colon :: (tokPrim v ++ X) := by simp [tokOpt]
  rw [e, loopOptsS, hp]

theorem opts_cols (st : LoopSt) (v : Prim) (X : List XTok) (hv : PrimOK v) (hX : XStop X) :
    loopOptsS st (tokOpt "cols" (some v) ++ X) = loopOptsS { st with cols := some v } X := by
  obtain ⟨hr, hp⟩ := primS_of_prim (prim_rt v hv X hX)
  have e : tokOpt "cols" (some v) ++ X = .kw "cols" :: .colon :: (tokPrim v ++ X) := by simp [tokOpt]
  rw [e, loopOptsS, hp]

theorem head_not_continue (v : Prim) (hv : PrimOK v) (X r : List XTok) : tokPrim v ++ X ≠ .kw "continue" :: r := by
  cases v with
  | range a b => simp [tokPrim]
  | path q =>
    cases q with
    | nil => simp [PrimOK] at hv
    | cons s p =>
      cases s with
      | name n => simp only [tokPrim, xSegs, xSeg]; split <;> simp
      | idx i => simp [PrimOK] at hv
      | sub q' => simp [tokPrim, xSegs, xSeg]
  | _ => simp_all [tokPrim, PrimOK]

theorem opts_offset (st : LoopSt) (v : Prim) (X : List XTok) (hv : PrimOK v) (hX : XStop X) :
    loopOptsS st (tokOpt "offset" (some v) ++ X) = loopOptsS { st with offset := some v } X := by
  obtain ⟨hr, hp⟩ := primS_of_prim (prim_rt v hv X hX)
  have e : tokOpt "offset" (some v) ++ X = .kw "offset" :: .colon :: (tokPrim v ++ X) := by simp [tokOpt]
  rw [e, loopOptsS]
  · rw [hp]
  · intro r h; exact head_not_continue v hv X r h

theorem opts_reversed (st : LoopSt) (X : List XTok) :
    loopOptsS st (.kw "reversed" :: X) = loopOptsS { st with reversed := true } X := by
  rw [loopOptsS]

theorem opts_nil (st : LoopSt) : loopOptsS st [] = some st := by rw [loopOptsS]

def OptOK : Option Prim → Prop
  | none => True
  | some v => PrimOK v

/-- empty, or starts with a keyword token -/
def KwHead (Y : List XTok) : Prop := Y = [] ∨ ∃ k r, Y = .kw k :: r

theorem KwHead.xstop {Y : List XTok} (h : KwHead Y) : XStop Y := by
  rcases h with rfl | ⟨k, r, rfl⟩
  · exact xstop_nil
  · exact xstop_kw k r

theorem kwhead_opt (k : String) (o : Option Prim) (Y : List XTok) (h : KwHead Y) : KwHead (tokOpt k o ++ Y) := by
  cases o with
  | none => simpa [tokOpt] using h
  | some v => exact Or.inr ⟨k, .colon :: (tokPrim v ++ Y), by simp [tokOpt]⟩

theorem kwhead_rev (b : Bool) : KwHead (if b then [XTok.kw "reversed"] else []) := by
  cases b
  · exact Or.inl rfl
  · exact Or.inr ⟨_, _, rfl⟩

/-- the tokens of the options, and the state the option loop ends in -/
def tokOpts (l : LoopX) : List XTok :=
  tokOpt "limit" l.limit ++ (tokOpt "offset" l.offset ++ (tokOpt "cols" l.cols ++ (if l.reversed then [.kw "reversed"] else [])))

theorem kwhead_opts (l : LoopX) : KwHead (tokOpts l) := by
  unfold tokOpts
  exact kwhead_opt _ _ _ (kwhead_opt _ _ _ (by
    have := kwhead_opt "cols" l.cols _ (kwhead_rev l.reversed); exact this))

def setLimit (st : LoopSt) : Option Prim → LoopSt
  | some v => { st with limit := some v }
  | none => st
def setOffset (st : LoopSt) : Option Prim → LoopSt
  | some v => { st with offset := some v }
  | none => st
def setCols (st : LoopSt) : Option Prim → LoopSt
  | some v => { st with cols := some v }
  | none => st

theorem opts_limit' (st : LoopSt) (o : Option Prim) (X : List XTok) (ho : OptOK o) (hX : KwHead X) :
    loopOptsS st (tokOpt "limit" o ++ X) = loopOptsS (setLimit st o) X := by
  cases o with
  | none => simp [tokOpt, setLimit]
  | some v => exact opts_limit st v X ho hX.xstop

theorem opts_offset' (st : LoopSt) (o : Option Prim) (X : List XTok) (ho : OptOK o) (hX : KwHead X) :
    loopOptsS st (tokOpt "offset" o ++ X) = loopOptsS (setOffset st o) X := by
  cases o with
  | none => simp [tokOpt, setOffset]
  | some v => exact opts_offset st v X ho hX.xstop

theorem opts_cols' (st : LoopSt) (o : Option Prim) (X : List XTok) (ho : OptOK o) (hX : KwHead X) :
    loopOptsS st (tokOpt "cols" o ++ X) = loopOptsS (setCols st o) X := by
  cases o with
  | none => simp [tokOpt, setCols]
  | some v => exact opts_cols st v X ho hX.xstop

theorem opts_last (st : LoopSt) (b : Bool) :
    loopOptsS st (if b then [XTok.kw "reversed"] else []) = some { st with reversed := st.reversed || b } := by
  cases b
  · simp [opts_nil]
  · simp [opts_reversed, opts_nil]

theorem opts_rt (l : LoopX) (h1 : OptOK l.limit) (h2 : OptOK l.offset) (h3 : OptOK l.cols) :
    loopOptsS {} (tokOpts l) = some { limit := l.limit, offset := l.offset, cols := l.cols, reversed := l.reversed } := by
  unfold tokOpts
  have k3 : KwHead (if l.reversed then [XTok.kw "reversed"] else []) := kwhead_rev _
  have k2 := kwhead_opt "cols" l.cols _ k3
  have k1 := kwhead_opt "offset" l.offset _ k2
  rw [opts_limit' _ _ _ h1 k1, opts_offset' _ _ _ h2 k2, opts_cols' _ _ _ h3 k3, opts_last]
  cases l.limit <;> cases l.offset <;> cases l.cols <;> simp [setLimit, setOffset, setCols]

end LiquidVerif.ExprParse
