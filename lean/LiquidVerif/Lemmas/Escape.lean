import LiquidVerif.Model.Escape
/-! Lemmas about `markupsafe.escape` (`LiquidVerif.Escape`): its output is `Clean` and `Ent`. -/
namespace LiquidVerif.Escape

theorem clean_nil : Clean [] := by intro c h; cases h

theorem clean_cons {c : Char} {s : Str} : Clean (c :: s) ↔ special c = false ∧ Clean s := by
  simp [Clean]

theorem clean_append {a b : Str} : Clean (a ++ b) ↔ Clean a ∧ Clean b := by
  simp only [Clean, List.mem_append]
  constructor
  · intro h; exact ⟨fun c hc => h c (Or.inl hc), fun c hc => h c (Or.inr hc)⟩
  · rintro ⟨h1, h2⟩ c (hc | hc)
    · exact h1 c hc
    · exact h2 c hc

theorem isClean_iff {s : Str} : isClean s = true ↔ Clean s := by
  simp [isClean, Clean]

instance (s : Str) : Decidable (Clean s) := decidable_of_iff _ isClean_iff
instance (s : Str) : Decidable (Ent s) := inferInstanceAs (Decidable (isEnt s = true))

theorem clean_of_subset {a b : Str} (h : ∀ c ∈ a, c ∈ b) (hb : Clean b) : Clean a :=
  fun c hc => hb c (h c hc)

theorem clean_flatten {xs : List Str} (h : ∀ x ∈ xs, Clean x) : Clean xs.flatten := by
  intro c hc
  obtain ⟨x, hx, hcx⟩ := List.mem_flatten.mp hc
  exact h x hx c hcx

theorem clean_flatMap {α} {xs : List α} {f : α → Str} (h : ∀ x ∈ xs, Clean (f x)) : Clean (xs.flatMap f) := by
  intro c hc
  obtain ⟨x, hx, hcx⟩ := List.mem_flatMap.mp hc
  exact h x hx c hcx

theorem escChar_clean (c : Char) : Clean (escChar c) := by
  unfold escChar
  split
  · decide
  split
  · decide
  split
  · decide
  split
  · decide
  split
  · decide
  · intro d hd
    simp only [List.mem_singleton] at hd
    subst hd
    simp_all [special]

/-- `escape` never emits a raw `<`, `>`, `'` or `"` -/
theorem escape_isClean (s : Str) : Clean (escape s) := by
  induction s with
  | nil => exact clean_nil
  | cons c cs ih => exact clean_append.mpr ⟨escChar_clean c, ih⟩

theorem startsWith_append (e r : Str) : startsWith e (e ++ r) = true := by
  induction e with
  | nil => rfl
  | cons c cs ih => simp [startsWith, ih]

theorem entityAt_of_mem {e : Str} (he : e ∈ entities) (r : Str) : entityAt (e ++ r) = true := by
  simp only [entityAt, List.any_eq_true]
  exact ⟨e, he, startsWith_append e r⟩

/-- an entity followed by an `Ent` string is `Ent` -/
theorem isEnt_entity_append {e : Str} (he : e ∈ entities) {r : Str} (hr : isEnt r = true) : isEnt (e ++ r) = true := by
  have h := entityAt_of_mem he r
  simp only [entities, List.mem_cons, List.mem_nil_iff, or_false] at he
  rcases he with rfl | rfl | rfl | rfl | rfl <;>
    simp only [List.cons_append, List.nil_append] at h ⊢ <;>
    simp [isEnt, h, hr]

theorem isEnt_escChar_append (c : Char) {r : Str} (hr : isEnt r = true) : isEnt (escChar c ++ r) = true := by
  unfold escChar
  split
  · exact isEnt_entity_append (by simp [entities]) hr
  split
  · exact isEnt_entity_append (by simp [entities]) hr
  split
  · exact isEnt_entity_append (by simp [entities]) hr
  split
  · exact isEnt_entity_append (by simp [entities]) hr
  split
  · exact isEnt_entity_append (by simp [entities]) hr
  · rename_i h _ _ _ _
    simp only [List.cons_append, List.nil_append, isEnt, hr, Bool.and_true, Bool.or_eq_true, bne_iff_ne, ne_eq]
    left
    simpa using h

/-- in the output of `escape` every `&` begins an entity -/
theorem escape_isEnt (s : Str) : Ent (escape s) := by
  induction s with
  | nil => rfl
  | cons c cs ih => exact isEnt_escChar_append c ih

/-- `Ent` strings concatenate -/
theorem isEnt_append {a b : Str} (ha : isEnt a = true) (hb : isEnt b = true) : isEnt (a ++ b) = true := by
  induction a with
  | nil => simpa using hb
  | cons c cs ih =>
    simp only [isEnt, Bool.and_eq_true, Bool.or_eq_true] at ha
    simp only [List.cons_append, isEnt, Bool.and_eq_true, Bool.or_eq_true]
    refine ⟨?_, ih ha.2⟩
    rcases ha.1 with h | h
    · exact Or.inl h
    · right
      simp only [entityAt, List.any_eq_true] at h ⊢
      obtain ⟨e, he, hs⟩ := h
      refine ⟨e, he, ?_⟩
      have : ∀ (e s t : Str), startsWith e s = true → startsWith e (s ++ t) = true := by
        intro e
        induction e with
        | nil => intros; rfl
        | cons x xs ihx =>
          intro s t h
          cases s with
          | nil => simp [startsWith] at h
          | cons y ys =>
            simp only [startsWith, Bool.and_eq_true] at h
            simp only [List.cons_append, startsWith, Bool.and_eq_true]
            exact ⟨h.1, ihx ys t h.2⟩
      exact this e (c :: cs) b hs

end LiquidVerif.Escape
