import LiquidVerif.Model.LexSpec
/-!
Helper lemmas for C10: one lexer step per piece kind, the body of a block comment, heads of token lists,
`parseGo` on the token shapes the lexer produces, and the refinement `lex_parse_spec`.
-/
namespace LiquidVerif.Lex

/-! ## `tokenize` plumbing -/

theorem tokenize_cons_ok {st st' : LexState} {m : Match} {ms : List Match} {ts1 ts2 : List Token}
    (h1 : step st m = .ok (st', ts1)) (h2 : tokenize st' ms = .ok ts2) :
    tokenize st (m :: ms) = .ok (ts1 ++ ts2) := by
  simp only [tokenize, h1, h2]

theorem tokenize_cons_eq {st st' : LexState} {m : Match} {ms : List Match}
    (h1 : step st m = .ok (st', [])) :
    tokenize st (m :: ms) = tokenize st' ms := by
  simp only [tokenize, h1]
  cases tokenize st' ms <;> simp

theorem matchesOf_cons (d : Delims) (off : Nat) (p : Piece) (rest : List Piece) :
    matchesOf d off (p :: rest) =
      pieceMatch d off (nextOpen rest) p :: matchesOf d (off + (p.src d).length) rest := rfl

/-! ## heads of token lists: an `expression` token never comes first -/

def headNotExpr : List Token → Bool
  | [] => true
  | t :: _ => t.kind != .expression

theorem headNotExpr_append {a b : List Token} (ha : headNotExpr a = true) (hb : headNotExpr b = true) :
    headNotExpr (a ++ b) = true := by
  cases a with
  | nil => simpa using hb
  | cons t ts => simpa [headNotExpr] using ha

theorem step_head {st st' : LexState} {m : Match} {ts : List Token} (h : step st m = .ok (st', ts)) :
    headNotExpr ts = true := by
  unfold step at h
  split at h
  · unfold stepComment at h
    repeat' (split at h)
    all_goals (cases h <;> rfl)
  · unfold stepTop at h
    split at h
    case h_6 =>
      unfold stepContent at h
      simp only at h
      repeat' (split at h)
      all_goals (cases h <;> rfl)
    all_goals (repeat' (split at h))
    all_goals (cases h <;> rfl)

theorem tokenize_head : ∀ (ms : List Match) (st : LexState) (ts : List Token),
    tokenize st ms = .ok ts → headNotExpr ts = true
  | [], _, ts, h => by simp [tokenize] at h; subst h; rfl
  | m :: ms, st, ts, h => by
    simp only [tokenize] at h
    split at h
    · cases h
    · rename_i st' ts1 hs
      split at h
      · cases h
      · rename_i ts2 ht
        injection h with h; subst h
        exact headNotExpr_append (step_head hs) (tokenize_head ms st' ts2 ht)


/-! ## one lexer step per piece kind -/

/-- the lexer state at item boundaries outside comments -/
def S (f : Bool) : LexState := { lstrip := f }

theorem textClean_applyStrip {s : Str} (hc : textClean s = true) (a b : Bool) :
    braceStart (applyStrip a b s) = false := by
  simp only [textClean, Bool.and_eq_true, Bool.not_eq_true'] at hc
  obtain ⟨⟨⟨h1, h2⟩, h3⟩, h4⟩ := hc
  cases a <;> cases b <;> assumption

/-- tokens of a text piece -/
def textToks (off : Nat) (v : Str) : List Token := if v = [] then [] else [⟨.content, v, off⟩]

theorem step_text (d : Delims) (off : Nat) (la : Bool) (s : Str) (st : LexState)
    (h : st.depth = 0) (hc : textClean s = true) :
    step st (pieceMatch d off la (.text s)) = .ok (st, textToks off (applyStrip st.lstrip la s)) := by
  have hb := textClean_applyStrip hc st.lstrip la
  simp only [braceStart, Bool.or_eq_false_iff] at hb
  simp only [step, h, ne_eq, not_true_eq_false, if_false, stepTop, pieceMatch, stepContent, textToks]
  by_cases hv : applyStrip st.lstrip la s = []
  · simp [hv]
  · simp [hv, hb.1, hb.2]

/-- tokens a markup piece yields outside a comment -/
def pieceToks (d : Delims) (off : Nat) (p : Piece) : List Token :=
  let m := pieceMatch d off false p
  match p with
  | .text _ => []
  | .output _ _ _ e _ => [⟨.output, m.value, off⟩, ⟨.expression, e, m.stmtStart⟩]
  | .tag _ _ _ name _ e _ => ⟨.tag, name, m.nameStart⟩ :: (if e = [] then [] else [⟨.expression, e, m.exprStart⟩])
  | .raw _ body _ => [⟨.content, body, off⟩]
  | .doc _ body _ => [⟨.doc, body, off⟩]
  | .short l _ body => [⟨.shortComment, hy l ++ body, off⟩]

theorem step_markup (d : Delims) (off : Nat) (la : Bool) (p : Piece) (st : LexState)
    (h : st.depth = 0) (ht : p.isText = false) (hc : isTagNamed kwComment p = false) :
    step st (pieceMatch d off la p) = .ok ({ st with lstrip := p.closeHyphen }, pieceToks d off p) := by
  cases p with
  | text s => simp [Piece.isText] at ht
  | tag l r ws0 name ws1 e ws2 =>
    have hn : ¬ name = kwComment := by simpa [isTagNamed] using hc
    by_cases he : e = [] <;> simp [step, h, stepTop, pieceMatch, pieceToks, Piece.closeHyphen, hn, he]
  | _ => simp [step, h, stepTop, pieceMatch, pieceToks, Piece.closeHyphen]

theorem step_open_comment (d : Delims) (off : Nat) (la : Bool) (o : TagF) (st : LexState) (h : st.depth = 0) :
    step st (pieceMatch d off la (o.piece kwComment)) =
      .ok ({ st with lstrip := o.r, commentIndex := off + ((o.piece kwComment).src d).length, depth := 1 },
           pieceToks d off (o.piece kwComment)) := by
  by_cases he : o.e = [] <;> simp [step, h, stepTop, pieceMatch, pieceToks, TagF.piece, he]

theorem pieceMatch_value (d : Delims) (off : Nat) (la : Bool) (p : Piece) :
    (pieceMatch d off la p).value = p.src d := by
  cases p <;> simp [pieceMatch, Piece.src]

theorem step_in_comment_plain (d : Delims) (off : Nat) (la : Bool) (p : Piece) (st : LexState)
    (h : st.depth ≠ 0) (h1 : isTagNamed kwEndcomment p = false) (h2 : isTagNamed kwComment p = false) :
    step st (pieceMatch d off la p) = .ok ({ st with commentText := st.commentText ++ p.src d }, []) := by
  cases p with
  | tag l r ws0 name ws1 e ws2 =>
    have hn1 : ¬ name = kwEndcomment := by simpa [isTagNamed] using h1
    have hn2 : ¬ name = kwComment := by simpa [isTagNamed] using h2
    simp [step, h, stepComment, pieceMatch, Piece.src, hn1, hn2]
  | _ => simp [step, h, stepComment, pieceMatch, Piece.src]

theorem step_in_comment_open (d : Delims) (off : Nat) (la : Bool) (p : Piece) (st : LexState)
    (h : st.depth ≠ 0) (h2 : isTagNamed kwComment p = true) :
    step st (pieceMatch d off la p) =
      .ok ({ st with depth := st.depth + 1, commentText := st.commentText ++ p.src d }, []) := by
  cases p with
  | tag l r ws0 name ws1 e ws2 =>
    have hn2 : name = kwComment := by simpa [isTagNamed] using h2
    subst hn2
    simp [step, h, stepComment, pieceMatch, Piece.src, kwComment, kwEndcomment]
  | _ => simp [isTagNamed] at h2

theorem step_in_comment_close_inner (d : Delims) (off : Nat) (la : Bool) (p : Piece) (st : LexState)
    (h : ¬ st.depth ≤ 1) (h1 : isTagNamed kwEndcomment p = true) :
    step st (pieceMatch d off la p) =
      .ok ({ st with depth := st.depth - 1, commentText := st.commentText ++ p.src d }, []) := by
  cases p with
  | tag l r ws0 name ws1 e ws2 =>
    have hn : name = kwEndcomment := by simpa [isTagNamed] using h1
    subst hn
    have h0 : st.depth ≠ 0 := by omega
    have h1' : ¬ st.depth - 1 = 0 := by omega
    simp [step, h0, stepComment, pieceMatch, Piece.src, h1']
  | _ => simp [isTagNamed] at h1

theorem step_in_comment_close_outer (d : Delims) (off : Nat) (la : Bool) (c : TagF) (st : LexState)
    (h : st.depth = 1) :
    step st (pieceMatch d off la (c.piece kwEndcomment)) =
      .ok (S c.r, [⟨.comment, st.commentText, st.commentIndex⟩,
                   ⟨.tag, kwEndcomment, (pieceMatch d off false (c.piece kwEndcomment)).nameStart⟩]) := by
  simp [step, h, stepComment, pieceMatch, TagF.piece, S]

/-! ## the body of a block comment is collected verbatim -/

theorem assemble_cons (d : Delims) (p : Piece) (ps : List Piece) :
    assemble d (p :: ps) = p.src d ++ assemble d ps := rfl

theorem isTagNamed_true {n : Str} {p : Piece} (h : isTagNamed n p = true) :
    ∃ l r ws0 ws1 e ws2, p = .tag l r ws0 n ws1 e ws2 := by
  cases p with
  | tag l r ws0 name ws1 e ws2 =>
    have : name = n := by simpa [isTagNamed] using h
    subst this
    exact ⟨l, r, ws0, ws1, e, ws2, rfl⟩
  | _ => simp [isTagNamed] at h

theorem body_tokens (d : Delims) : ∀ (body : List Piece) (k k' : Nat) (st : LexState) (tail : List Piece) (off : Nat),
    st.depth = k → bodyDepth k body = some k' → 1 ≤ k →
    ∃ off', tokenize st (matchesOf d off (body ++ tail)) =
        tokenize { st with commentText := st.commentText ++ assemble d body, depth := k' } (matchesOf d off' tail)
      ∧ 1 ≤ k'
  | [], k, k', st, tail, off, hk, hb, h1 => by
    simp only [bodyDepth, Option.some.injEq] at hb
    subst hb
    refine ⟨off, ?_, h1⟩
    subst hk
    simp [assemble]
  | p :: ps, k, k', st, tail, off, hk, hb, h1 => by
    have h0 : st.depth ≠ 0 := by omega
    simp only [bodyDepth] at hb
    rw [List.cons_append, matchesOf_cons]
    by_cases he : isTagNamed kwEndcomment p = true
    · simp only [he, if_true] at hb
      by_cases hle : k ≤ 1
      · simp [hle] at hb
      · simp only [hle, if_false] at hb
        have hs := step_in_comment_close_inner d off (nextOpen (ps ++ tail)) p st (by omega) he
        rw [tokenize_cons_eq hs]
        obtain ⟨off', h, hk'⟩ := body_tokens d ps (k - 1) k'
          { st with depth := st.depth - 1, commentText := st.commentText ++ p.src d } tail (off + (p.src d).length)
          (by show st.depth - 1 = k - 1; rw [hk]) hb (by omega)
        refine ⟨off', ?_, hk'⟩
        rw [h]
        simp [assemble_cons, List.append_assoc]
    · have he' : isTagNamed kwEndcomment p = false := by simpa using he
      simp only [he', Bool.false_eq_true, if_false] at hb
      by_cases hc : isTagNamed kwComment p = true
      · simp only [hc, if_true] at hb
        have hs := step_in_comment_open d off (nextOpen (ps ++ tail)) p st h0 hc
        rw [tokenize_cons_eq hs]
        obtain ⟨off', h, hk'⟩ := body_tokens d ps (k + 1) k'
          { st with depth := st.depth + 1, commentText := st.commentText ++ p.src d } tail (off + (p.src d).length)
          (by show st.depth + 1 = k + 1; rw [hk]) hb (by omega)
        refine ⟨off', ?_, hk'⟩
        rw [h]
        simp [assemble_cons, List.append_assoc]
      · have hc' : isTagNamed kwComment p = false := by simpa using hc
        simp only [hc', Bool.false_eq_true, if_false] at hb
        have hs := step_in_comment_plain d off (nextOpen (ps ++ tail)) p st h0 he' hc'
        rw [tokenize_cons_eq hs]
        obtain ⟨off', h, hk'⟩ := body_tokens d ps k k'
          { st with commentText := st.commentText ++ p.src d } tail (off + (p.src d).length)
          (by show st.depth = k; exact hk) hb h1
        refine ⟨off', ?_, hk'⟩
        rw [h]
        simp [assemble_cons, List.append_assoc]

/-! ## `parseGo` on the token shapes the lexer produces -/

local macro "pg" : tactic => `(tactic| (rw [parseGo.eq_def]; try simp))

theorem parse_text (off : Nat) (v : Str) (ts : List Token) :
    parseGo none (textToks off v ++ ts) = textNodes v ++ parseGo none ts := by
  by_cases hv : v = []
  · simp [textToks, textNodes, hv]
  · simp only [textToks, textNodes, hv, if_false, List.cons_append, List.nil_append]
    pg

theorem parse_tag_noexpr (name : Str) (n : Nat) (ts : List Token) (hn : ¬ name = kwComment)
    (hh : headNotExpr ts = true) :
    parseGo none (⟨.tag, name, n⟩ :: ts) = tagNode name [] :: parseGo none ts := by
  cases ts with
  | nil => rw [parseGo.eq_def]; simp [hn, tagNode, parseGo]
  | cons t rest =>
    have ht : ¬ t.kind = .expression := by simpa [headNotExpr] using hh
    rw [parseGo.eq_def]; simp [hn, ht, tagNode]

theorem parse_tag_expr (name e : Str) (n k : Nat) (ts : List Token) (hn : ¬ name = kwComment) (he : ¬ e = []) :
    parseGo none (⟨.tag, name, n⟩ :: ⟨.expression, e, k⟩ :: ts) = tagNode name e :: parseGo none ts := by
  rw [parseGo.eq_def]; simp [hn, tagNode, he]

theorem parse_markup (d : Delims) (off : Nat) (p : Piece) (ts : List Token)
    (ht : p.isText = false) (hc : isTagNamed kwComment p = false) (hh : headNotExpr ts = true) :
    parseGo none (pieceToks d off p ++ ts) = (Item.piece p).nodes d ++ parseGo none ts := by
  cases p with
  | text s => simp [Piece.isText] at ht
  | output l r ws1 e ws2 => simp only [pieceToks, List.cons_append, List.nil_append, Item.nodes]; pg
  | tag l r ws0 name ws1 e ws2 =>
    have hn : ¬ name = kwComment := by simpa [isTagNamed] using hc
    by_cases he : e = []
    · subst he
      simp only [pieceToks, if_true, List.cons_append, List.nil_append, Item.nodes]
      exact parse_tag_noexpr name _ ts hn hh
    · simp only [pieceToks, he, if_false, List.cons_append, List.nil_append, Item.nodes]
      exact parse_tag_expr name e _ _ ts hn he
  | raw o body c => simp only [pieceToks, List.cons_append, List.nil_append, Item.nodes]; pg
  | doc o body c => simp only [pieceToks, List.cons_append, List.nil_append, Item.nodes]; pg
  | short l r body => simp only [pieceToks, List.cons_append, List.nil_append, Item.nodes]; pg

theorem parse_comment (d : Delims) (off : Nat) (o : TagF) (txt : Str) (idx n : Nat) (ts : List Token) :
    parseGo none (pieceToks d off (o.piece kwComment) ++ (⟨.comment, txt, idx⟩ :: ⟨.tag, kwEndcomment, n⟩ :: ts))
      = .comment (o.e ++ txt) :: parseGo none ts := by
  by_cases he : o.e = []
  · simp only [pieceToks, TagF.piece, he, if_true, List.cons_append, List.nil_append]
    pg; pg; pg
  · simp only [pieceToks, TagF.piece, he, if_false, List.cons_append, List.nil_append]
    pg; pg; pg; pg

/-! ## the refinement: lexing and parsing the pieces of an item list gives the specified nodes -/

theorem flatten_cons (it : Item) (rest : List Item) : flatten (it :: rest) = it.pieces ++ flatten rest := rfl

theorem nextOpen_flatten : ∀ (items : List Item), nextOpen (flatten items) = nextOpenI items
  | [] => rfl
  | .piece p :: rest => by simp [flatten, Item.pieces, nextOpen, nextOpenI, Item.openHyphen]
  | .comment o body c :: rest => by
    simp [flatten, Item.pieces, nextOpen, nextOpenI, Item.openHyphen, TagF.piece, Piece.openHyphen]

theorem lex_parse_spec (d : Delims) : ∀ (items : List Item) (off : Nat) (f : Bool), allOk items = true →
    ∃ ts, tokenize (S f) (matchesOf d off (flatten items)) = .ok ts ∧ parseGo none ts = specNodes d f items
  | [], off, f, _ => ⟨[], rfl, by simp [parseGo, specNodes]⟩
  | .piece p :: rest, off, f, hok => by
    have hok' : (Item.piece p).ok = true ∧ allOk rest = true := by simpa [allOk] using hok
    rw [flatten_cons]
    simp only [Item.pieces, List.cons_append, List.nil_append, matchesOf_cons]
    by_cases ht : p.isText = true
    · -- text
      cases p with
      | text s =>
        have hc : textClean s = true := by simpa [Item.ok] using hok'.1
        obtain ⟨ts, h1, h2⟩ := lex_parse_spec d rest (off + ((Piece.text s).src d).length) f hok'.2
        have hs := step_text d off (nextOpen (flatten rest)) s (S f) rfl hc
        refine ⟨_, tokenize_cons_ok hs h1, ?_⟩
        rw [parse_text, h2, nextOpen_flatten]
        simp [specNodes, S]
      | _ => simp [Piece.isText] at ht
    · -- markup piece
      have ht' : p.isText = false := by simpa using ht
      have hc : isTagNamed kwComment p = false := by
        cases p <;> simp_all [Item.ok, Piece.isText]
      obtain ⟨ts, h1, h2⟩ := lex_parse_spec d rest (off + (p.src d).length) p.closeHyphen hok'.2
      have hs := step_markup d off (nextOpen (flatten rest)) p (S f) rfl ht' hc
      refine ⟨_, tokenize_cons_ok hs h1, ?_⟩
      rw [parse_markup d off p ts ht' hc (tokenize_head _ _ _ h1), h2]
      cases p <;> simp_all [specNodes, Piece.isText, Item.closeHyphen]
  | .comment o body c :: rest, off, f, hok => by
    have hok' : bodyOk body = true ∧ allOk rest = true := by simpa [allOk, Item.ok] using hok
    have hb : bodyDepth 1 body = some 1 := by simpa [bodyOk] using hok'.1
    rw [flatten_cons]
    simp only [Item.pieces, List.cons_append, List.append_assoc, List.nil_append, matchesOf_cons]
    let st1 : LexState :=
      { lstrip := o.r, commentIndex := off + ((o.piece kwComment).src d).length, commentText := [], depth := 1 }
    let st2 : LexState :=
      { lstrip := o.r, commentIndex := off + ((o.piece kwComment).src d).length, commentText := assemble d body,
        depth := 1 }
    have hs : step (S f) (pieceMatch d off (nextOpen (body ++ c.piece kwEndcomment :: flatten rest)) (o.piece kwComment))
        = .ok (st1, pieceToks d off (o.piece kwComment)) :=
      step_open_comment d off _ o (S f) rfl
    obtain ⟨off', hbody, _⟩ := body_tokens d body 1 1 st1 (c.piece kwEndcomment :: flatten rest)
      (off + ((o.piece kwComment).src d).length) rfl hb (Nat.le_refl 1)
    have hst : ({ st1 with commentText := st1.commentText ++ assemble d body, depth := 1 } : LexState) = st2 := by
      simp [st1, st2]
    rw [hst] at hbody
    obtain ⟨ts, h1, h2⟩ := lex_parse_spec d rest (off' + ((c.piece kwEndcomment).src d).length) c.r hok'.2
    have hclose := step_in_comment_close_outer d off' (nextOpen (flatten rest)) c st2 rfl
    refine ⟨_, tokenize_cons_ok hs (by rw [hbody, matchesOf_cons]; exact tokenize_cons_ok hclose h1), ?_⟩
    simp only [List.cons_append, List.nil_append]
    rw [parse_comment, h2]
    simp [specNodes, Item.nodes, Item.closeHyphen, st2]

/-! ## compositionality of the specification and of `render` -/

theorem specNodesLA_false (d : Delims) : ∀ (items : List Item) (pr : Bool),
    specNodesLA d pr false items = specNodes d pr items
  | [], _ => rfl
  | it :: rest, pr => by
    have hn : nextOpenLA false rest = nextOpenI rest := by cases rest <;> rfl
    cases it with
    | piece p =>
      cases p <;> simp [specNodesLA, specNodes, hn, specNodesLA_false d rest]
    | comment o body c => simp [specNodesLA, specNodes, specNodesLA_false d rest]

theorem nextOpenLA_append (la : Bool) (xs ys : List Item) :
    nextOpenLA la (xs ++ ys) = nextOpenLA (nextOpenLA la ys) xs := by
  cases xs <;> rfl

theorem specNodesLA_append (d : Delims) : ∀ (xs ys : List Item) (pr la : Bool),
    specNodesLA d pr la (xs ++ ys) = specNodesLA d pr (nextOpenLA la ys) xs ++ specNodesLA d (carry pr xs) la ys
  | [], ys, pr, la => by simp [specNodesLA, carry]
  | it :: rest, ys, pr, la => by
    cases it with
    | piece p =>
      cases p <;>
        simp [specNodesLA, carry, Item.isText, nextOpenLA_append, specNodesLA_append d rest ys, List.append_assoc]
    | comment o body c =>
      simp [specNodesLA, carry, Item.isText, specNodesLA_append d rest ys, List.append_assoc]

theorem render_append {σ : Type} (sem : Sem σ) : ∀ (a b : List Node) (st : σ),
    render sem st (a ++ b) =
      ((render sem (render sem st a).1 b).1, (render sem st a).2 ++ (render sem (render sem st a).1 b).2)
  | [], b, st => by simp [render]
  | n :: a, b, st => by
    cases n <;> simp [render, render_append sem a b, List.append_assoc]

theorem render_textNodes {σ : Type} (sem : Sem σ) (st : σ) (s : Str) :
    render sem st (textNodes s) = (st, s) := by
  by_cases h : s = [] <;> simp [textNodes, h, render]

theorem allOk_append (xs ys : List Item) : allOk (xs ++ ys) = (allOk xs && allOk ys) := by
  simp [allOk, List.all_append]

theorem carry_append_markup (pr : Bool) (xs : List Item) (p : Item) (hp : p.isText = false) :
    carry pr (xs ++ [p]) = p.closeHyphen := by
  induction xs generalizing pr with
  | nil => simp [carry, hp]
  | cons x xs ih => simp [carry, ih]

/-! ## token start offsets -/

theorem slice_mid (a v b : Str) (n : Nat) (hn : n = a.length) : ((a ++ v ++ b).drop n).take v.length = v := by
  subst hn
  simp [List.append_assoc]

theorem stepContent_kinds {st st' : LexState} {m : Match} {ts : List Token}
    (h : stepContent st m = .ok (st', ts)) : ∀ t ∈ ts, t.sliced = false := by
  unfold stepContent at h
  simp only at h
  repeat' (split at h)
  all_goals (cases h)
  all_goals (simp [Token.sliced])

theorem step_slice (d : Delims) (p : Piece) (la : Bool) (st st' : LexState) (ts : List Token) (pre post : Str)
    (h : step st (pieceMatch d pre.length la p) = .ok (st', ts)) :
    ∀ t ∈ ts, t.sliced = true → t.inSrc (pre ++ p.src d ++ post) := by
  intro t ht hs
  unfold step at h
  split at h
  · -- inside a comment
    unfold stepComment at h
    repeat' (split at h)
    all_goals (cases h)
    all_goals (first | (simp at ht; done) | skip)
    -- the closing tag
    rename_i hk hn _
    cases p with
    | tag l r ws0 name ws1 e ws2 =>
      simp only [List.mem_cons, List.mem_nil_iff, or_false] at ht
      rcases ht with rfl | rfl
      · simp [Token.sliced] at hs
      · simp only [pieceMatch, Token.inSrc, Piece.src]
        have := slice_mid (pre ++ d.tagS ++ hy l ++ ws0) name (ws1 ++ e ++ ws2 ++ hy r ++ d.tagE ++ post)
          (pre.length + d.tagS.length + (hy l).length + ws0.length) (by simp [List.length_append, Nat.add_assoc])
        simpa [List.append_assoc] using this
    | _ => simp [pieceMatch] at hk
  · rename_i h0
    have h0 : st.depth = 0 := by simpa using h0
    have hts : p.isText = false → ts = pieceToks d pre.length p := by
      intro hp
      have hstep : step st (pieceMatch d pre.length la p) = .ok (st', ts) := by
        simp only [step, h0, ne_eq, not_true_eq_false, if_false]; exact h
      by_cases hc : isTagNamed kwComment p = true
      · obtain ⟨l, r, ws0, ws1, e, ws2, rfl⟩ := isTagNamed_true hc
        have := step_open_comment d pre.length la ⟨l, r, ws0, ws1, e, ws2⟩ st h0
        simp only [TagF.piece] at this
        rw [this] at hstep
        cases hstep; rfl
      · have := step_markup d pre.length la p st h0 hp (by simpa using hc)
        rw [this] at hstep
        cases hstep; rfl
    cases p with
    | text s =>
      simp only [stepTop, pieceMatch] at h
      have := stepContent_kinds h t ht
      simp [this] at hs
    | output l r ws1 e ws2 =>
      have := hts rfl; subst this
      simp only [pieceToks, pieceMatch, List.mem_cons, List.mem_nil_iff, or_false] at ht
      rcases ht with rfl | rfl
      · simp only [Token.inSrc, Piece.src]
        have := slice_mid pre (d.stmtS ++ hy l ++ ws1 ++ e ++ ws2 ++ hy r ++ d.stmtE) post pre.length rfl
        simpa [List.append_assoc] using this
      · simp only [Token.inSrc, Piece.src]
        have := slice_mid (pre ++ d.stmtS ++ hy l ++ ws1) e (ws2 ++ hy r ++ d.stmtE ++ post)
          (pre.length + d.stmtS.length + (hy l).length + ws1.length) (by simp [List.length_append, Nat.add_assoc])
        simpa [List.append_assoc] using this
    | tag l r ws0 name ws1 e ws2 =>
      have := hts rfl; subst this
      have hmem : t = ⟨.tag, name, pre.length + d.tagS.length + (hy l).length + ws0.length⟩ ∨
          t = ⟨.expression, e, pre.length + d.tagS.length + (hy l).length + ws0.length + name.length + ws1.length⟩ := by
        by_cases he : e = [] <;> simp [pieceToks, pieceMatch, he] at ht <;> simp [ht]
      rcases hmem with rfl | rfl
      · simp only [Token.inSrc, Piece.src]
        have := slice_mid (pre ++ d.tagS ++ hy l ++ ws0) name (ws1 ++ e ++ ws2 ++ hy r ++ d.tagE ++ post)
          (pre.length + d.tagS.length + (hy l).length + ws0.length) (by simp [List.length_append, Nat.add_assoc])
        simpa [List.append_assoc] using this
      · simp only [Token.inSrc, Piece.src]
        have := slice_mid (pre ++ d.tagS ++ hy l ++ ws0 ++ name ++ ws1) e (ws2 ++ hy r ++ d.tagE ++ post)
          (pre.length + d.tagS.length + (hy l).length + ws0.length + name.length + ws1.length)
          (by simp [List.length_append, Nat.add_assoc])
        simpa [List.append_assoc] using this
    | raw o b c => have := hts rfl; subst this; simp [pieceToks] at ht; subst ht; simp [Token.sliced] at hs
    | doc o b c => have := hts rfl; subst this; simp [pieceToks] at ht; subst ht; simp [Token.sliced] at hs
    | short l r b => have := hts rfl; subst this; simp [pieceToks] at ht; subst ht; simp [Token.sliced] at hs

theorem tokenize_slice (d : Delims) : ∀ (ps : List Piece) (pre : Str) (st : LexState) (ts : List Token),
    tokenize st (matchesOf d pre.length ps) = .ok ts →
    ∀ t ∈ ts, t.sliced = true → t.inSrc (pre ++ assemble d ps)
  | [], pre, st, ts, h => by simp [matchesOf, tokenize] at h; subst h; simp
  | p :: rest, pre, st, ts, h => by
    rw [matchesOf_cons] at h
    simp only [tokenize] at h
    split at h
    · cases h
    · rename_i st' ts1 hs
      split at h
      · cases h
      · rename_i ts2 ht2
        cases h
        intro t ht hsl
        rcases List.mem_append.mp ht with h1 | h2
        · have := step_slice d p _ st st' ts1 pre (assemble d rest) hs t h1 hsl
          simpa [assemble, List.append_assoc] using this
        · have hlen : (pre ++ p.src d).length = pre.length + (p.src d).length := by simp
          have := tokenize_slice d rest (pre ++ p.src d) st' ts2 (by rw [hlen]; exact ht2) t h2 hsl
          simpa [assemble, List.append_assoc] using this


/-! ## well-formed text is clean (default delimiters) -/

theorem startsWith_append : ∀ (p a b : Str), startsWith p a = true → startsWith p (a ++ b) = true
  | [], _, _, _ => by simp [startsWith]
  | _ :: _, [], _, h => by simp [startsWith] at h
  | x :: p, c :: a, b, h => by
    simp only [startsWith, Bool.and_eq_true] at h
    simp only [List.cons_append, startsWith, Bool.and_eq_true]
    exact ⟨h.1, startsWith_append p a b h.2⟩

theorem lstrip_suffix (s : Str) : ∃ w, s = w ++ lstrip s := by
  induction s with
  | nil => exact ⟨[], rfl⟩
  | cons c cs ih =>
    by_cases h : isSpace c = true
    · obtain ⟨w, hw⟩ := ih
      exact ⟨c :: w, by simp only [lstrip, h, if_true, List.cons_append]; rw [← hw]⟩
    · exact ⟨[], by simp [lstrip, h]⟩

theorem rstrip_prefix (s : Str) : ∃ w, s = rstrip s ++ w := by
  obtain ⟨w, hw⟩ := lstrip_suffix s.reverse
  refine ⟨w.reverse, ?_⟩
  have := congrArg List.reverse hw
  simpa [rstrip] using this

theorem allSuffixes_split (f : Str → Bool) : ∀ (w t next : Str), t ≠ [] →
    allSuffixes f (w ++ t) next = true → f (t ++ next) = true
  | [], t, next, ht, h => by
    cases t with
    | nil => exact absurd rfl ht
    | cons c cs => simp only [List.nil_append, allSuffixes, Bool.and_eq_true] at h; exact h.1
  | x :: w, t, next, ht, h => by
    simp only [List.cons_append, allSuffixes, Bool.and_eq_true] at h
    exact allSuffixes_split f w t next ht h.2

/-- a variant `v` of `s` obtained by stripping does not begin like markup when no suffix of `s` does -/
theorem strip_variant_clean (f : Str → Bool) (p : Str) (hp : p ≠ [])
    (hf : ∀ t, startsWith p t = true → f t = false)
    (s next : Str) (h : allSuffixes f s next = true) (a b : Bool) :
    startsWith p (applyStrip a b s) = false := by
  -- applyStrip a b s = v where s = w1 ++ (v ++ w2)
  have hsplit : ∃ w1 w2, s = w1 ++ (applyStrip a b s ++ w2) := by
    cases a <;> cases b
    · exact ⟨[], [], by simp [applyStrip]⟩
    · obtain ⟨w, hw⟩ := rstrip_prefix s
      exact ⟨[], w, by simpa [applyStrip] using hw⟩
    · obtain ⟨w, hw⟩ := lstrip_suffix s
      exact ⟨w, [], by simpa [applyStrip] using hw⟩
    · obtain ⟨w, hw⟩ := lstrip_suffix s
      obtain ⟨w', hw'⟩ := rstrip_prefix (lstrip s)
      refine ⟨w, w', ?_⟩
      simp only [applyStrip, if_true]
      rw [← hw', ← hw]
  obtain ⟨w1, w2, hs⟩ := hsplit
  cases hv : startsWith p (applyStrip a b s) with
  | false => rfl
  | true =>
    have hne : applyStrip a b s ++ w2 ≠ [] := by
      intro h0
      have : applyStrip a b s = [] := (List.append_eq_nil_iff.mp h0).1
      rw [this] at hv
      cases p with
      | nil => exact hp rfl
      | cons x xs => simp [startsWith] at hv
    rw [hs] at h
    have h1 := allSuffixes_split f w1 (applyStrip a b s ++ w2) next hne h
    have h2 := hf ((applyStrip a b s ++ w2) ++ next)
      (by rw [List.append_assoc]; exact startsWith_append p _ _ hv)
    rw [h1] at h2
    cases h2

/-- Under the default delimiters (with or without shorthand comments) a well-formed text piece is clean: the
side condition of the theorems follows from `srcWf`. -/
theorem wf_text_clean (d : Delims) (hd1 : d.tagS = ['{', '%']) (hd2 : d.stmtS = ['{', '{']) (s next : Str)
    (h : (Piece.text s).wf d next = true) : textClean s = true := by
  simp only [Piece.wf, Bool.and_eq_true] at h
  have h2 := h.2
  have hA := strip_variant_clean (fun t => !startsMarkup d t) ['{', '{'] (by simp)
    (by intro t ht; simp [startsMarkup, hd2, ht]) s next h2
  have hB := strip_variant_clean (fun t => !startsMarkup d t) ['{', '%'] (by simp)
    (by intro t ht; simp [startsMarkup, hd1, ht]) s next h2
  simp [textClean, braceStart, hA, hB]


end LiquidVerif.Lex
