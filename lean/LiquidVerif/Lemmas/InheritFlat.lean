import LiquidVerif.Model.InheritFlat
import LiquidVerif.Lemmas.Inherit
/-! Helper lemmas for the syntactic flattening (C18). -/
namespace LiquidVerif.Inherit

theorem render_eq_flat (lim : Nat) (res : String → List Def) :
    (∀ depth outer parents sc i,
      renderItem lim res depth outer parents sc i = renderPlain outer sc (flatItem lim res depth parents i)) ∧
    (∀ depth outer parents sc v n body k,
      renderLoop lim res depth outer parents sc v n body k
        = renderPlainLoop outer sc v n (flatItems lim res depth parents body) k) ∧
    (∀ depth outer parents sc is,
      renderItems lim res depth outer parents sc is = renderPlains outer sc (flatItems lim res depth parents is)) := by
  apply renderItem.mutual_induct lim res
    (motive1 := fun depth outer parents sc i =>
      renderItem lim res depth outer parents sc i = renderPlain outer sc (flatItem lim res depth parents i))
    (motive2 := fun depth outer parents sc v n body k =>
      renderLoop lim res depth outer parents sc v n body k
        = renderPlainLoop outer sc v n (flatItems lim res depth parents body) k)
    (motive3 := fun depth outer parents sc is =>
      renderItems lim res depth outer parents sc is = renderPlains outer sc (flatItems lim res depth parents is))
  -- text, var
  · intro depth outer parents sc s; rw [renderItem, flatItem, renderPlain]
  · intro depth outer parents sc x; rw [renderItem, flatItem, renderPlain]
  -- super
  · intro depth outer sc; rw [renderItem, flatItem, renderPlain]
  · intro depth outer sc p ps ih; rw [renderItem, flatItem, renderPlain]; exact ih
  -- loop
  · intro depth outer parents sc v n body ih; rw [renderItem, flatItem, renderPlain]; exact ih
  -- block, stack path
  · intro depth outer parents sc name req body d ds hd hreq
    rw [renderItem, flatItem]; simp only [hd, hreq, if_true]; rw [renderPlain]
  · intro depth outer parents sc name req body d ds hd hreq hlim
    rw [renderItem, flatItem]; simp only [hd, hreq, hlim, if_false, dite_true, Bool.false_eq_true]; rw [renderPlain]
  · intro depth outer parents sc name req body d ds hd hreq hlim ih
    rw [renderItem, flatItem]; simp only [hd, hreq, hlim, if_false, dite_false, Bool.false_eq_true]
    rw [renderPlain]; simpa using ih
  -- block, direct path
  · intro depth outer parents sc name body hn
    rw [renderItem, flatItem]; simp only [hn, if_true]; rw [renderPlain]
  · intro depth outer parents sc name req body hn hreq ih
    rw [renderItem, flatItem]; simp only [hn, hreq, if_false, Bool.false_eq_true]
    rw [renderPlain]; simpa using ih
  -- loop iterations
  · intro depth outer parents sc v n body; rw [renderLoop, renderPlainLoop]
  · intro depth outer parents sc v n body k e he ih
    rw [renderLoop, renderPlainLoop, ← ih, he]
  · intro depth outer parents sc v n body k b hb e he ih1 ih2
    rw [renderLoop, renderPlainLoop, ← ih1, ← ih2, hb, he]
  · intro depth outer parents sc v n body k b hb b' hb' ih1 ih2
    rw [renderLoop, renderPlainLoop, ← ih1, ← ih2, hb, hb']
  -- lists
  · intro depth outer parents sc; rw [renderItems, flatItems, renderPlains]
  · intro depth outer parents sc i is e he ih
    rw [renderItems, flatItems, renderPlains, ← ih, he]
  · intro depth outer parents sc i is b hb e he ih1 ih2
    rw [renderItems, flatItems, renderPlains, ← ih1, ← ih2, hb, he]
  · intro depth outer parents sc i is b hb b' hb' ih1 ih2
    rw [renderItems, flatItems, renderPlains, ← ih1, ← ih2, hb, hb']

theorem renderPlains_nil (saved sc) : renderPlains saved sc [] = .ok "" := by rw [renderPlains]

theorem renderPlains_cons (saved sc) (p : Plain) (ps : List Plain) :
    renderPlains saved sc (p :: ps) = seqOut (renderPlain saved sc p) (renderPlains saved sc ps) := by
  rw [renderPlains]; cases renderPlain saved sc p <;> rfl

theorem renderPlains_append (saved sc) (a b : List Plain) :
    renderPlains saved sc (a ++ b) = seqOut (renderPlains saved sc a) (renderPlains saved sc b) := by
  induction a with
  | nil => rw [renderPlains_nil, seqOut_empty_ok]; rfl
  | cons x xs ih => simp only [List.cons_append, renderPlains_cons, ih, seqOut_assoc]

theorem renderPlains_singleton (saved sc) (p : Plain) : renderPlains saved sc [p] = renderPlain saved sc p := by
  rw [renderPlains_cons, renderPlains_nil, seqOut_ok_empty]

theorem renderPlainLoop_zero (saved sc v n body) : renderPlainLoop saved sc v n body 0 = .ok "" := by
  rw [renderPlainLoop]

theorem renderPlainLoop_succ (saved sc v n body k) :
    renderPlainLoop saved sc v n body (k + 1)
      = seqOut (renderPlains saved ((v, toString (n - k)) :: sc) body) (renderPlainLoop saved sc v n body k) := by
  rw [renderPlainLoop]; cases renderPlains saved ((v, toString (n - k)) :: sc) body <;> rfl

def goodSaved (saved : Option Scope) (sc : Scope) : Prop := saved = none ∨ saved = some sc

/-- dropping the scope annotations of a hygienic plain template does not change what it renders -/
theorem erase_scope_aux :
    (∀ saved sc (p : Plain), hygienic p = true →
      ((noOuter p = true ∨ goodSaved saved sc) → renderPlain saved sc p = renderPlains none sc (eraseScope p))) ∧
    (∀ saved sc (ps : List Plain), hygienics ps = true →
      ((noOuters ps = true ∨ goodSaved saved sc) → renderPlains saved sc ps = renderPlains none sc (eraseScopes ps))) ∧
    (∀ saved sc v n (body : List Plain) k, hygienics body = true → noOuters body = true →
      renderPlainLoop saved sc v n body k = renderPlainLoop none sc v n (eraseScopes body) k) := by
  apply renderPlain.mutual_induct
    (motive1 := fun saved sc p => hygienic p = true →
      ((noOuter p = true ∨ goodSaved saved sc) → renderPlain saved sc p = renderPlains none sc (eraseScope p)))
    (motive3 := fun saved sc v n body k => hygienics body = true → noOuters body = true →
      renderPlainLoop saved sc v n body k = renderPlainLoop none sc v n (eraseScopes body) k)
    (motive2 := fun saved sc ps => hygienics ps = true →
      ((noOuters ps = true ∨ goodSaved saved sc) → renderPlains saved sc ps = renderPlains none sc (eraseScopes ps)))
  · intro saved sc s _ _; simp only [eraseScope]; rw [renderPlains_singleton, renderPlain, renderPlain]
  · intro saved sc x _ _; simp only [eraseScope]; rw [renderPlains_singleton, renderPlain, renderPlain]
  · intro saved sc v n body ih hh _
    simp only [hygienic, Bool.and_eq_true] at hh
    rw [eraseScope, renderPlains_singleton, renderPlain, renderPlain]
    exact ih hh.2 hh.1
  · intro saved sc save body ih hh _
    simp only [hygienic] at hh
    rw [eraseScope, renderPlain]
    cases save with
    | true => exact ih hh (Or.inr (Or.inr (by simp)))
    | false => exact ih hh (Or.inr (Or.inl (by simp)))
  · intro saved sc body ih hh hg
    simp only [hygienic] at hh
    rcases hg with hno | hg
    · simp [noOuter] at hno
    · rw [eraseScope, renderPlain]
      have : saved.getD sc = sc := by rcases hg with rfl | rfl <;> rfl
      rw [this] at ih ⊢
      exact ih hh (Or.inr (Or.inl rfl))
  · intro saved sc e _ _; simp only [eraseScope]; rw [renderPlains_singleton, renderPlain, renderPlain]
  -- lists
  · intro saved sc _ _; rw [eraseScopes]
    rw [renderPlains_nil, renderPlains_nil]
  · intro saved sc p ps e he ih1 hh hg
    simp only [hygienics, Bool.and_eq_true] at hh
    have hg1 : noOuter p = true ∨ goodSaved saved sc := by
      rcases hg with h | h
      · simp only [noOuters, Bool.and_eq_true] at h; exact Or.inl h.1
      · exact Or.inr h
    rw [eraseScopes, renderPlains_cons, renderPlains_append, ← ih1 hh.1 hg1, he]; rfl
  · intro saved sc p ps b hb e he ih1 ih2 hh hg
    simp only [hygienics, Bool.and_eq_true] at hh
    have hg1 : noOuter p = true ∨ goodSaved saved sc := by
      rcases hg with h | h
      · simp only [noOuters, Bool.and_eq_true] at h; exact Or.inl h.1
      · exact Or.inr h
    have hg2 : noOuters ps = true ∨ goodSaved saved sc := by
      rcases hg with h | h
      · simp only [noOuters, Bool.and_eq_true] at h; exact Or.inl h.2
      · exact Or.inr h
    rw [eraseScopes, renderPlains_cons, renderPlains_append, ← ih1 hh.1 hg1, ← ih2 hh.2 hg2]
  · intro saved sc p ps b hb b' hb' ih1 ih2 hh hg
    simp only [hygienics, Bool.and_eq_true] at hh
    have hg1 : noOuter p = true ∨ goodSaved saved sc := by
      rcases hg with h | h
      · simp only [noOuters, Bool.and_eq_true] at h; exact Or.inl h.1
      · exact Or.inr h
    have hg2 : noOuters ps = true ∨ goodSaved saved sc := by
      rcases hg with h | h
      · simp only [noOuters, Bool.and_eq_true] at h; exact Or.inl h.2
      · exact Or.inr h
    rw [eraseScopes, renderPlains_cons, renderPlains_append, ← ih1 hh.1 hg1, ← ih2 hh.2 hg2]
  -- loop iterations
  · intro saved sc v n body _ _; rw [renderPlainLoop_zero, renderPlainLoop_zero]
  · intro saved sc v n body k e he ih1 hh hno
    rw [renderPlainLoop_succ, renderPlainLoop_succ, ← ih1 hh (Or.inl hno), he]; rfl
  · intro saved sc v n body k b hb e he ih1 ih2 hh hno
    rw [renderPlainLoop_succ, renderPlainLoop_succ, ← ih1 hh (Or.inl hno), ← ih2 hh hno]
  · intro saved sc v n body k b hb b' hb' ih1 ih2 hh hno
    rw [renderPlainLoop_succ, renderPlainLoop_succ, ← ih1 hh (Or.inl hno), ← ih2 hh hno]


/-- a plain template can only fail with ContextDepthError at a `raise contextDepth` node -/
theorem depth_error_needs_raise :
    (∀ saved sc (p : Plain), renderPlain saved sc p = .error .contextDepth → depthRaise p = true) ∧
    (∀ saved sc (ps : List Plain), renderPlains saved sc ps = .error .contextDepth → depthRaises ps = true) ∧
    (∀ saved sc v n (body : List Plain) k,
      renderPlainLoop saved sc v n body k = .error .contextDepth → depthRaises body = true) := by
  apply renderPlain.mutual_induct
    (motive1 := fun saved sc p => renderPlain saved sc p = .error .contextDepth → depthRaise p = true)
    (motive2 := fun saved sc ps => renderPlains saved sc ps = .error .contextDepth → depthRaises ps = true)
    (motive3 := fun saved sc v n body k =>
      renderPlainLoop saved sc v n body k = .error .contextDepth → depthRaises body = true)
  · intro saved sc s h; rw [renderPlain] at h; cases h
  · intro saved sc x h; rw [renderPlain] at h; cases h
  · intro saved sc v n body ih h; rw [renderPlain] at h; rw [depthRaise]; exact ih h
  · intro saved sc save body ih h; rw [renderPlain] at h; rw [depthRaise]; exact ih h
  · intro saved sc body ih h; rw [renderPlain] at h; rw [depthRaise]; exact ih h
  · intro saved sc e h; rw [renderPlain] at h; cases h; rfl
  · intro saved sc h; rw [renderPlains_nil] at h; cases h
  · intro saved sc p ps e he ih1 h
    rw [renderPlains_cons, he] at h
    simp only [seqOut] at h; cases h
    simp [depthRaises, ih1 he]
  · intro saved sc p ps b hb e he ih1 ih2 h
    rw [renderPlains_cons, hb, he] at h
    simp only [seqOut] at h; cases h
    simp [depthRaises, ih2 he]
  · intro saved sc p ps b hb b' hb' ih1 ih2 h
    rw [renderPlains_cons, hb, hb'] at h
    simp [seqOut] at h
  · intro saved sc v n body h; rw [renderPlainLoop_zero] at h; cases h
  · intro saved sc v n body k e he ih1 h
    rw [renderPlainLoop_succ, he] at h
    simp only [seqOut] at h; cases h
    exact ih1 he
  · intro saved sc v n body k b hb e he ih1 ih2 h
    rw [renderPlainLoop_succ, hb, he] at h
    simp only [seqOut] at h; cases h
    exact ih2 he
  · intro saved sc v n body k b hb b' hb' ih1 ih2 h
    rw [renderPlainLoop_succ, hb, hb'] at h
    simp [seqOut] at h

end LiquidVerif.Inherit
