import LiquidVerif.Model.InheritSpec
import LiquidVerif.Model.InheritParse
/-! Helper lemmas for C18 (block stacks = declarative definitions; chain walk). -/
namespace LiquidVerif.Inherit

/-! ### `_store_blocks` appends to the per-name stack -/

theorem required_rule (stack : List Def) (r : Bool) :
    (if (!stack.isEmpty && !r) = true then false else r) = r := by
  cases r <;> simp

theorem stackOf_storeOne (st : Stacks) (b : Blk) (name : String) :
    stackOf (storeOne st b) name = stackOf st name ++ (if b.name == name then [b.toDef] else []) := by
  induction st with
  | nil =>
    simp only [storeOne, stackOf, lookup_cons, lookup_nil]
    by_cases h : (b.name == name) = true <;> simp [h, Blk.toDef]
  | cons p r ih =>
    obtain ⟨k, stack⟩ := p
    simp only [storeOne]
    by_cases hk : (k == b.name) = true
    · simp only [hk, if_true, required_rule]
      have hkb : k = b.name := by simpa using hk
      simp only [stackOf, lookup_cons]
      by_cases hn : (k == name) = true
      · have : (b.name == name) = true := by rw [← hkb]; exact hn
        simp [hn, this, Blk.toDef]
      · have : (b.name == name) = false := by rw [← hkb]; simpa using hn
        simp [hn, this]
    · simp only [hk]
      simp only [stackOf, lookup_cons] at ih ⊢
      by_cases hn : (k == name) = true
      · have hkn : k = name := by simpa using hn
        have : (b.name == name) = false := by
          cases hb : (b.name == name) with
          | false => rfl
          | true =>
            have : b.name = name := by simpa using hb
            exact absurd (by rw [hkn, this]; simp) hk
        simp [hn, this]
      · have hne : ¬ k = name := by simpa using hn
        simp [hne]; simpa using ih

theorem stackOf_storeBlocks (st : Stacks) (bs : List Blk) (name : String) :
    stackOf (storeBlocks st bs) name
      = stackOf st name ++ (bs.filter (fun b => b.name == name)).map Blk.toDef := by
  induction bs generalizing st with
  | nil => simp [storeBlocks]
  | cons b bs ih =>
    simp only [storeBlocks, ih, stackOf_storeOne, List.filter]
    by_cases h : (b.name == name) = true <;> simp [h]

theorem storeBlocks_append (st : Stacks) (a b : List Blk) :
    storeBlocks st (a ++ b) = storeBlocks (storeBlocks st a) b := by
  induction a generalizing st with
  | nil => rfl
  | cons x a ih => simp [storeBlocks, ih]

/-! ### the `seen_block_names` loop -/

theorem hasDupFrom_false (seen : List String) (bs : List Blk) (h : hasDupFrom seen bs = false) :
    (bs.map (·.name)).Nodup ∧ ∀ b ∈ bs, b.name ∉ seen := by
  induction bs generalizing seen with
  | nil => simp
  | cons b bs ih =>
    simp only [hasDupFrom] at h
    split at h
    · cases h
    · rename_i hs
      have ⟨hn, hm⟩ := ih (b.name :: seen) h
      have hs' : b.name ∉ seen := by simpa using hs
      refine ⟨?_, ?_⟩
      · simp only [List.map_cons, List.nodup_cons]
        refine ⟨?_, hn⟩
        intro hmem
        obtain ⟨b', hb', hname⟩ := List.mem_map.mp hmem
        have := hm b' hb'
        simp [hname] at this
      · intro b' hb'
        rcases List.mem_cons.mp hb' with rfl | hb'
        · exact hs'
        · have := hm b' hb'
          intro hc; exact this (List.mem_cons_of_mem _ hc)

theorem hasDup_false_nodup (bs : List Blk) (h : hasDup bs = false) : (bs.map (·.name)).Nodup :=
  (hasDupFrom_false [] bs h).1

theorem hasDupFrom_true_of_dup (seen : List String) (bs : List Blk)
    (h : ¬ (bs.map (·.name)).Nodup ∨ ∃ b ∈ bs, b.name ∈ seen) : hasDupFrom seen bs = true := by
  cases hd : hasDupFrom seen bs with
  | true => rfl
  | false =>
    have ⟨hn, hm⟩ := hasDupFrom_false seen bs hd
    rcases h with h | ⟨b, hb, hs⟩
    · exact absurd hn h
    · exact absurd hs (hm b hb)

/-- in a duplicate-free block list, the blocks named `name` are exactly the first one found -/
theorem filter_eq_find_of_nodup (bs : List Blk) (name : String) (h : (bs.map (·.name)).Nodup) :
    (bs.filter (fun b => b.name == name)).map Blk.toDef
      = ((bs.find? (fun b => b.name == name)).map Blk.toDef).toList := by
  induction bs with
  | nil => simp
  | cons b bs ih =>
    simp only [List.map_cons, List.nodup_cons] at h
    by_cases hb : (b.name == name) = true
    · have hbn : b.name = name := by simpa using hb
      have hnone : bs.filter (fun b => b.name == name) = [] := by
        apply List.filter_eq_nil_iff.mpr
        intro b' hb' hc
        have : b'.name = name := by simpa using hc
        exact h.1 (List.mem_map.mpr ⟨b', hb', by rw [this, hbn]⟩)
      simp [List.filter, List.find?, hb, hnone]
    · simp only [List.filter, List.find?, hb]
      simpa using ih h.2

/-! ### the chain walk -/

theorem Linked.ne_nil {ld seen t ts} (h : Linked ld seen t ts) : ts ≠ [] := by
  cases h <;> simp

theorem Linked.dupfree {ld seen t ts} (h : Linked ld seen t ts) : ∀ u ∈ ts, hasDup u.blocks = false := by
  induction h with
  | root seen t _ hd => intro u hu; simp at hu; subst hu; exact hd
  | step seen t p t' rest _ hd _ _ _ ih =>
    intro u hu
    rcases List.mem_cons.mp hu with rfl | hu
    · exact hd
    · exact ih u hu

def chainBlocks (ts : List Template) : List Blk := ts.flatMap (·.blocks)

theorem buildFrom_error (ld : Loader) (st : Stacks) (seen : List String) (t : Template) (e : Err)
    (h : stackBlocks st t = .error e) : buildFrom ld st seen t = .error e := by
  rw [buildFrom]; simp only [h]

theorem buildFrom_root (ld : Loader) (st st' : Stacks) (seen : List String) (t : Template)
    (h : stackBlocks st t = .ok (st', none)) : buildFrom ld st seen t = .ok (st', t) := by
  rw [buildFrom]; simp only [h]

theorem buildFrom_seen (ld : Loader) (st st' : Stacks) (seen : List String) (t : Template) (p : String)
    (h : stackBlocks st t = .ok (st', some p)) (hs : seen.contains p = true) :
    buildFrom ld st seen t = .error .inheritance := by
  rw [buildFrom]
  simp only [h]
  split
  · rfl
  · rename_i hc; exact absurd hs hc

theorem buildFrom_missing (ld : Loader) (st st' : Stacks) (seen : List String) (t : Template) (p : String)
    (h : stackBlocks st t = .ok (st', some p)) (hs : seen.contains p = false) (hf : lookup ld p = none) :
    buildFrom ld st seen t = .error .notFound := by
  rw [buildFrom]
  simp only [h]
  split
  · rename_i hc; rw [hs] at hc; cases hc
  · split
    · rfl
    · rename_i t'' heq; rw [hf] at heq; cases heq

theorem buildFrom_step (ld : Loader) (st st' : Stacks) (seen : List String) (t t' : Template) (p : String)
    (h : stackBlocks st t = .ok (st', some p)) (hs : seen.contains p = false) (hf : lookup ld p = some t') :
    buildFrom ld st seen t = buildFrom ld st' (p :: seen) t' := by
  rw [buildFrom]
  simp only [h]
  split
  · rename_i hc; rw [hs] at hc; cases hc
  · split
    · rename_i heq; rw [hf] at heq; cases heq
    · rename_i t'' heq; rw [hf] at heq; cases heq; rfl

theorem stackBlocks_ok (st : Stacks) (t : Template) (he : t.exts.length ≤ 1) (hd : hasDup t.blocks = false) :
    stackBlocks st t = .ok (storeBlocks st t.blocks, t.exts.head?) := by
  unfold stackBlocks
  have : ¬ t.exts.length > 1 := by omega
  simp [this, hd]

theorem buildFrom_linked {ld seen t ts} (h : Linked ld seen t ts) (st : Stacks) :
    ∃ r, ts.getLast? = some r ∧ r.exts = [] ∧
      buildFrom ld st seen t = .ok (storeBlocks st (chainBlocks ts), r) := by
  induction h generalizing st with
  | root seen t he hd =>
    refine ⟨t, rfl, he, ?_⟩
    rw [buildFrom_root ld st _ seen t (by rw [stackBlocks_ok st t (by simp [he]) hd, he]; rfl)]
    simp [chainBlocks]
  | step seen t p t' rest he hd hs hf _ ih =>
    obtain ⟨r, hl, hre, hb⟩ := ih (storeBlocks st t.blocks)
    refine ⟨r, ?_, hre, ?_⟩
    · cases rest with
      | nil => simp at hl
      | cons a as => simpa [List.getLast?_cons_cons] using hl
    · rw [buildFrom_step ld st _ seen t t' p (by rw [stackBlocks_ok st t (by simp [he]) hd, he]; rfl) hs hf, hb]
      simp [chainBlocks, storeBlocks_append]

theorem stackOf_nil (name : String) : stackOf [] name = [] := rfl

theorem stackOf_chain (ts : List Template) (hd : ∀ u ∈ ts, hasDup u.blocks = false) (name : String) :
    stackOf (storeBlocks [] (chainBlocks ts)) name = defsOf ts name := by
  rw [stackOf_storeBlocks, stackOf_nil, List.nil_append]
  induction ts with
  | nil => simp [chainBlocks, defsOf]
  | cons t ts ih =>
    have ht := hd t (List.mem_cons_self ..)
    have := ih (fun u hu => hd u (List.mem_cons_of_mem _ hu))
    simp only [chainBlocks, List.flatMap_cons, List.filter_append, List.map_append] at this ⊢
    rw [this, filter_eq_find_of_nodup _ _ (hasDup_false_nodup _ ht)]
    simp only [defsOf, List.filterMap_cons, defOf]
    cases List.find? (fun b => b.name == name) t.blocks <;> simp

/-! ### rendering -/

theorem seqOut_ok_empty (x : Except Err String) : seqOut x (.ok "") = x := by
  cases x with
  | error e => rfl
  | ok a => simp [seqOut]

theorem seqOut_empty_ok (y : Except Err String) : seqOut (.ok "") y = y := by
  cases y with
  | error e => rfl
  | ok a => simp [seqOut]

theorem seqOut_assoc (x y z : Except Err String) : seqOut (seqOut x y) z = seqOut x (seqOut y z) := by
  cases x <;> cases y <;> cases z <;> simp [seqOut, String.append_assoc]

theorem renderItems_nil (lim res depth outer parents sc) :
    renderItems lim res depth outer parents sc [] = .ok "" := by
  rw [renderItems]

theorem renderItems_cons (lim res depth outer parents sc) (i : Item) (is : List Item) :
    renderItems lim res depth outer parents sc (i :: is)
      = seqOut (renderItem lim res depth outer parents sc i) (renderItems lim res depth outer parents sc is) := by
  rw [renderItems]
  cases renderItem lim res depth outer parents sc i <;> rfl

theorem renderItems_append (lim res depth outer parents sc) (xs ys : List Item) :
    renderItems lim res depth outer parents sc (xs ++ ys)
      = seqOut (renderItems lim res depth outer parents sc xs) (renderItems lim res depth outer parents sc ys) := by
  induction xs with
  | nil =>
    rw [renderItems_nil, seqOut_empty_ok]; rfl
  | cons x xs ih => simp only [List.cons_append, renderItems_cons, ih, seqOut_assoc]

theorem renderItem_block_required (lim res depth outer parents sc) (name : String) (r : Bool) (body : List Item)
    (d : Def) (ds : List Def) (hd : res name = d :: ds) (hreq : d.required = true) :
    renderItem lim res depth outer parents sc (.block name r body) = .error .requiredBlock := by
  rw [renderItem]
  simp [hd, hreq]

theorem renderTops_pre (lim : Nat) (ld : Loader) (self : Template) (data : Scope) (pre : List Item)
    (rest : List Top) :
    renderTops lim ld self data (pre.map .node ++ rest)
      = seqOut (renderItems lim (stackOf []) 0 none [] data pre) (renderTops lim ld self data rest) := by
  induction pre with
  | nil =>
    rw [renderItems_nil, seqOut_empty_ok]; rfl
  | cons x xs ih =>
    simp only [List.map_cons, List.cons_append, renderTops, ih, renderItems_cons, seqOut_assoc]
    cases renderItem lim (stackOf []) 0 none [] data x <;> rfl

theorem tops_of_no_ext (tops : List Top) (h : topsExts tops = []) : tops = (topsNodes tops).map .node := by
  induction tops with
  | nil => rfl
  | cons x xs ih =>
    cases x with
    | ext p => simp [topsExts] at h
    | node i => simp only [topsExts] at h; simp only [topsNodes, List.map_cons]; rw [← ih h]

theorem topsExts_append (a b : List Top) : topsExts (a ++ b) = topsExts a ++ topsExts b := by
  induction a with
  | nil => rfl
  | cons x xs ih => cases x <;> simp [topsExts, ih]

theorem topsBlocks_append (a b : List Top) : topsBlocks (a ++ b) = topsBlocks a ++ topsBlocks b := by
  induction a with
  | nil => rfl
  | cons x xs ih => simp [topsBlocks, ih]

theorem stackBlocks_congr (st : Stacks) (t t' : Template) (he : t.exts = t'.exts) (hb : t.blocks = t'.blocks) :
    stackBlocks st t = stackBlocks st t' := by
  simp only [stackBlocks, he, hb]

/-- the chain walk looks at a template that has an `extends` tag only through its `extends` and `block` nodes -/
theorem buildFrom_congr (ld : Loader) (st : Stacks) (seen : List String) (t t' : Template)
    (he : t.exts = t'.exts) (hb : t.blocks = t'.blocks) (hne : t.exts ≠ []) :
    buildFrom ld st seen t = buildFrom ld st seen t' := by
  have hsb := stackBlocks_congr st t t' he hb
  cases hres : stackBlocks st t with
  | error e => rw [buildFrom_error ld st seen t e hres, buildFrom_error ld st seen t' e (hsb ▸ hres)]
  | ok v =>
    obtain ⟨st', o⟩ := v
    cases o with
    | none =>
      exfalso
      unfold stackBlocks at hres
      split at hres
      · cases hres
      · split at hres
        · cases hres
        · simp only [Except.ok.injEq, Prod.mk.injEq] at hres
          cases hx : t.exts with
          | nil => exact hne hx
          | cons a as => rw [hx] at hres; simp at hres
    | some p =>
      have hres' : stackBlocks st t' = .ok (st', some p) := hsb ▸ hres
      cases hs : seen.contains p with
      | true => rw [buildFrom_seen ld st st' seen t p hres hs, buildFrom_seen ld st st' seen t' p hres' hs]
      | false =>
        cases hf : lookup ld p with
        | none =>
          rw [buildFrom_missing ld st st' seen t p hres hs hf, buildFrom_missing ld st st' seen t' p hres' hs hf]
        | some u =>
          rw [buildFrom_step ld st st' seen t u p hres hs hf, buildFrom_step ld st st' seen t' u p hres' hs hf]

theorem buildFrom_reaches_dup {ld seen t u} (h : Reaches ld seen t u) (hdup : hasDup u.blocks = true)
    (st : Stacks) : buildFrom ld st seen t = .error .inheritance := by
  induction h generalizing st with
  | here seen t =>
    apply buildFrom_error
    unfold stackBlocks
    split
    · rfl
    · simp [hdup]
  | step seen t p t' u he hd hs hf _ ih =>
    rw [buildFrom_step ld st _ seen t t' p (by rw [stackBlocks_ok st t (by simp [he]) hd, he]; rfl) hs hf]
    exact ih hdup _

/-! ### `BlockTag.parse` -/

theorem prun_append (s : PState) (a b : List Tok) :
    prun s (a ++ b) = match prun s a with
      | .error e => .error e
      | .ok s' => prun s' b := by
  induction a generalizing s with
  | nil => rfl
  | cons t r ih =>
    simp only [List.cons_append, prun]
    cases pstep s t with
    | error e => rfl
    | ok s' => exact ih s'

/-- the only step that fails with TemplateInheritanceError is a named `endblock` that differs from the
innermost open block -/
theorem pstep_inheritance (s : PState) (t : Tok) (h : pstep s t = .error .inheritance) :
    ∃ m f fs, t = .cls (some m) ∧ s.frames = f :: fs ∧ m ≠ f.name := by
  cases t with
  | text x => simp [pstep] at h
  | opn n r => simp [pstep] at h
  | cls on =>
    simp only [pstep] at h
    cases hf : s.frames with
    | nil => simp [hf] at h
    | cons f fs =>
      simp only [hf] at h
      cases on with
      | none => simp at h
      | some m =>
        refine ⟨m, f, fs, rfl, rfl, ?_⟩
        by_cases hm : m = f.name
        · simp [hm] at h
        · exact hm

theorem prun_inheritance (s : PState) (toks : List Tok) (h : prun s toks = .error .inheritance) :
    ∃ pre m rest s' f fs, toks = pre ++ .cls (some m) :: rest ∧ prun s pre = .ok s' ∧
      s'.frames = f :: fs ∧ m ≠ f.name := by
  induction toks generalizing s with
  | nil => simp [prun] at h
  | cons t r ih =>
    simp only [prun] at h
    cases hs : pstep s t with
    | error e =>
      simp only [hs] at h
      cases h
      obtain ⟨m, f, fs, rfl, hf, hm⟩ := pstep_inheritance s t hs
      exact ⟨[], m, r, s, f, fs, rfl, rfl, hf, hm⟩
    | ok s1 =>
      simp only [hs] at h
      obtain ⟨pre, m, rest, s', f, fs, rfl, hp, hf, hm⟩ := ih s1 h
      refine ⟨t :: pre, m, rest, s', f, fs, rfl, ?_, hf, hm⟩
      simp [prun, hs, hp]

end LiquidVerif.Inherit
