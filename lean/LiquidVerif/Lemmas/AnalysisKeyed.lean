import LiquidVerif.Lemmas.AnalysisFirst
import LiquidVerif.Lemmas.AnalysisSim
/-! C19, sentence 2 under the hypothesis the `seen` de-duplication actually needs: rendered partials may be
reached any number of times as long as equal keys mean equal static scopes. -/

namespace LiquidVerif.Analysis

/-- `exprStep` in either mode: globals are always recorded, against the current scope. -/
theorem exprs_fold_g (tmpl : Name) (jg : Bool) (es : List Expr) (st : St) :
    let st' := es.foldl (exprStep tmpl jg) st
    st'.root = st.root ∧ st'.iso = st.iso ∧ st'.inIso = st.inIso ∧ st'.seen = st.seen ∧
    st'.globs = st.globs ++ es.flatMap (fun e => (e.refs.filter fun r => !st.cur.has r.root).map (mkLoc tmpl)) := by
  induction es generalizing st with
  | nil => simp
  | cons e es ih =>
    have := ih (exprStep tmpl jg st e)
    simp only [List.foldl_cons, List.flatMap_cons]
    have hc : (exprStep tmpl jg st e).cur = st.cur := rfl
    rw [hc] at this
    obtain ⟨h1, h2, h3, h4, h5⟩ := this
    refine ⟨h1, h2, h3, h4, ?_⟩
    rw [h5]; simp [exprStep, List.append_assoc]

theorem markSeen_frame (tmpl : Name) (jg : Bool) (st : St) :
    (markSeen tmpl jg st).root = st.root ∧ (markSeen tmpl jg st).iso = st.iso ∧
    (markSeen tmpl jg st).inIso = st.inIso ∧ (markSeen tmpl jg st).globs = st.globs := by
  unfold markSeen; split <;> simp

theorem addTag_frame (h : Hdr) (tmpl : Name) (jg : Bool) (st : St) :
    (addTag h tmpl jg st).root = st.root ∧ (addTag h tmpl jg st).iso = st.iso ∧
    (addTag h tmpl jg st).inIso = st.inIso ∧ (addTag h tmpl jg st).globs = st.globs ∧
    (addTag h tmpl jg st).seen = st.seen := by
  unfold addTag
  cases h.tag with
  | none => simp
  | some tp => obtain ⟨t, p⟩ := tp; cases jg <;> simp

/-- The header step in either mode: scope frame, `seen` bookkeeping, and every unbound reference of the
node's expressions lands in `globals`. -/
theorem hdrStep_g (h : Hdr) (tmpl : Name) (jg : Bool) (st : St) (A K : List Name) (hag : Agree st.cur A K) :
    let st' := hdrStep h tmpl jg st
    st'.inIso = st.inIso ∧ (st.inIso = true → st'.root = st.root) ∧
    st'.cur.blocks = st.cur.blocks ∧ (∀ x, x ∈ st'.cur.base ↔ x ∈ st.cur.base ∨ x ∈ h.tscope) ∧
    (∀ l ∈ st.globs, l ∈ st'.globs) ∧
    (∀ p ∈ st'.seen, p ∈ st.seen ∨ p = (tmpl, none)) ∧
    (∀ e ∈ hdrEvents h tmpl A K, ∀ l, e = Ev.get l false → l ∈ st'.globs) := by
  intro st'
  obtain ⟨a1, a2, a3, a5⟩ := markSeen_frame tmpl jg st
  obtain ⟨b1, b2, b3, b5, b7⟩ := addTag_frame h tmpl jg (markSeen tmpl jg st)
  obtain ⟨c1, c2, c3, c4, c7⟩ := exprs_fold_g tmpl jg h.exprs (addTag h tmpl jg (markSeen tmpl jg st))
  obtain ⟨d1, d2, _, _, d5, _, d7, d8, d9⟩ :=
    scopeAdd_fold h.tscope (h.exprs.foldl (exprStep tmpl jg) (addTag h tmpl jg (markSeen tmpl jg st)))
  have hcur : (h.exprs.foldl (exprStep tmpl jg) (addTag h tmpl jg (markSeen tmpl jg st))).cur = st.cur :=
    cur_congr (by rw [c1, b1, a1]) (by rw [c2, b2, a2]) (by rw [c3, b3, a3])
  have hcur2 : (addTag h tmpl jg (markSeen tmpl jg st)).cur = st.cur :=
    cur_congr (by rw [b1, a1]) (by rw [b2, a2]) (by rw [b3, a3])
  have hglobs : st'.globs = st.globs ++
      h.exprs.flatMap (fun e => (e.refs.filter fun r => !st.cur.has r.root).map (mkLoc tmpl)) := by
    show (hdrStep h tmpl jg st).globs = _; unfold hdrStep; rw [d5, c7, b5, a5, hcur2]
  refine ⟨?_, ?_, ?_, ?_, ?_, ?_, ?_⟩
  · show (hdrStep h tmpl jg st).inIso = _; unfold hdrStep; rw [d1, c3, b3, a3]
  · intro hi
    show (hdrStep h tmpl jg st).root = _
    unfold hdrStep
    rw [d7 (by rw [c3, b3, a3]; exact hi), c1, b1, a1]
  · show (hdrStep h tmpl jg st).cur.blocks = _
    unfold hdrStep; rw [d8, hcur]
  · intro x
    show x ∈ (hdrStep h tmpl jg st).cur.base ↔ _
    unfold hdrStep; rw [d9 x, hcur]
  · intro l hl; rw [hglobs]; exact List.mem_append_left _ hl
  · intro p hp
    have : p ∈ (hdrStep h tmpl jg st).seen := hp
    rw [hdrStep_seen_eq] at this
    rcases (markSeen_seen tmpl jg st).2 p this with h1 | ⟨h1, _⟩
    · exact Or.inl h1
    · exact Or.inr h1
  · intro e he l hel
    subst hel
    unfold hdrEvents at he
    rcases List.mem_append.1 he with he | he
    · unfold tagEvents at he
      cases ht : h.tag <;> simp [ht] at he
    · obtain ⟨ex, hex, he⟩ := List.mem_flatMap.1 he
      unfold exprEvents at he
      rcases List.mem_append.1 he with he | he
      · obtain ⟨r, hr, hre⟩ := List.mem_map.1 he
        injection hre with hl hexc
        subst hl
        rw [hglobs]
        refine List.mem_append_right _ (List.mem_flatMap.2 ⟨ex, hex, List.mem_map.2 ⟨r, ?_, rfl⟩⟩)
        rw [List.mem_filter]
        refine ⟨hr, ?_⟩
        have hn : ¬ (st.cur.has r.root = true) := by
          rw [hag r.root]
          simp only [Bool.or_eq_false_iff] at hexc
          intro hh
          rcases hh with hh | hh
          · have := List.contains_iff_mem.2 hh; simp_all
          · have := List.contains_iff_mem.2 hh; simp_all
        simpa using hn
      · obtain ⟨f, _, hfe⟩ := List.mem_map.1 he
        cases hfe

/-! ### names of SHARED and of ISOLATED partials -/

mutual
theorem mem_partNamesNode (n : Node) (nm : Name) (h : nm ∈ partNamesNode n) :
    nm ∈ inclNamesNode n ∨ nm ∈ isoNamesNode n := by
  match n with
  | .plain _ cs => simp only [partNamesNode] at h; simp only [inclNamesNode, isoNamesNode]; exact mem_partNamesNodes cs nm h
  | .part _ iso name _ _ body =>
    simp only [partNamesNode, List.mem_cons] at h
    simp only [inclNamesNode, isoNamesNode, List.mem_append]
    rcases h with h | h
    · cases iso <;> simp [h]
    · rcases mem_partNamesNodes body nm h with h' | h'
      · exact Or.inl (Or.inr h')
      · exact Or.inr (Or.inr h')
theorem mem_partNamesNodes (ns : Nodes) (nm : Name) (h : nm ∈ partNamesNodes ns) :
    nm ∈ inclNamesNodes ns ∨ nm ∈ isoNamesNodes ns := by
  match ns with
  | .nil => simp [partNamesNodes] at h
  | .cons n ns =>
    simp only [partNamesNodes, List.mem_append] at h
    simp only [inclNamesNodes, isoNamesNodes, List.mem_append]
    rcases h with h | h
    · rcases mem_partNamesNode n nm h with h' | h'
      · exact Or.inl (Or.inl h')
      · exact Or.inr (Or.inl h')
    · rcases mem_partNamesNodes ns nm h with h' | h'
      · exact Or.inl (Or.inr h')
      · exact Or.inr (Or.inr h')
end

mutual
theorem incl_nil_of_dead_node (n : Node) (h : noDeadIncNode n true = true) : inclNamesNode n = [] := by
  match n with
  | .plain hd cs =>
    simp only [noDeadIncNode, Bool.true_or] at h
    simp only [inclNamesNode]; exact incl_nil_of_dead_nodes cs h
  | .part _ iso name _ _ body =>
    simp only [noDeadIncNode, Bool.and_eq_true, Bool.true_or] at h
    cases iso with
    | false => simp at h
    | true => simp only [inclNamesNode]; simp; exact incl_nil_of_dead_nodes body h.2
theorem incl_nil_of_dead_nodes (ns : Nodes) (h : noDeadIncNodes ns true = true) : inclNamesNodes ns = [] := by
  match ns with
  | .nil => rfl
  | .cons n ns =>
    simp only [noDeadIncNodes, Bool.and_eq_true] at h
    simp only [inclNamesNodes, incl_nil_of_dead_node n h.1, incl_nil_of_dead_nodes ns h.2, List.append_nil]
end

mutual
/-- The bound variable of a rendered partial is a function of its key (name, argument names):
equal keys mean equal static scopes. -/
def BoundOKNode (Bd : Name → List Name → Option Name) : Node → Prop
  | .plain _ cs => BoundOKNodes Bd cs
  | .part _ iso name args bound body => (iso = true → bound = Bd name args) ∧ BoundOKNodes Bd body
def BoundOKNodes (Bd : Name → List Name → Option Name) : Nodes → Prop
  | .nil => True
  | .cons n ns => BoundOKNode Bd n ∧ BoundOKNodes Bd ns
end

section
variable (B : Name → Nodes) (Bd : Name → List Name → Option Name) (ISO : List Name)

/-- Every unbound lookup of the rendered partial `name` with arguments `args` is already a reported global. -/
def DoneG (st : St) (name : Name) (args : List Name) : Prop :=
  ∀ e ∈ reachNodes (B name) name [] (args ++ (Bd name args).toList) true, ∀ l, e = Ev.get l false → l ∈ st.globs

/-- Every keyed `seen` entry is in progress or done. -/
def InvG (st : St) (P : List (Name × Key)) : Prop :=
  ∀ p ∈ st.seen, ∀ args, p.2 = some (p.1 :: args) → p ∈ P ∨ DoneG B Bd st p.1 args

structure OkG (st st' : St) (tmpl : Name) (incl asg : List Name) (evs : List Ev) (P : List (Name × Key)) : Prop where
  inIso : st'.inIso = st.inIso
  root : st.inIso = true → st'.root = st.root
  blocks : st'.cur.blocks = st.cur.blocks
  base : ∀ x, x ∈ st'.cur.base ↔ x ∈ st.cur.base ∨ x ∈ asg
  gmono : ∀ l ∈ st.globs, l ∈ st'.globs
  seen : ∀ p ∈ st'.seen, p ∈ st.seen ∨ p.1 = tmpl ∨ p.1 ∈ incl ∨ p.1 ∈ ISO
  inv : InvG B Bd st' P
  evs : ∀ e ∈ evs, ∀ l, e = Ev.get l false → l ∈ st'.globs

theorem InvG.mono {st st' : St} {P : List (Name × Key)} (hg : ∀ l ∈ st.globs, l ∈ st'.globs)
    (hs : ∀ p ∈ st'.seen, p ∈ st.seen ∨ ∀ args, p.2 = some (p.1 :: args) → p ∈ P ∨ DoneG B Bd st' p.1 args)
    (hi : InvG B Bd st P) : InvG B Bd st' P := by
  intro p hp args hk
  rcases hs p hp with h1 | h1
  · rcases hi p h1 args hk with h2 | h2
    · exact Or.inl h2
    · exact Or.inr (fun e he l hl => hg l (h2 e he l hl))
  · exact h1 args hk

mutual
theorem visitNode_g (n : Node) (tmpl : Name) (jg : Bool) (st : St) (A K : List Name) (dis : Bool)
    (P : List (Name × Key))
    (hc : ConsNode B n) (hb : BoundOKNode Bd n) (hdead : noDeadIncNode n dis = true)
    (hiso : dis = false → st.inIso = false) (hag : Agree st.cur A K)
    (hfresh : ∀ nm ∈ inclNamesNode n, ∀ k, (nm, k) ∉ st.seen) (hI : (inclNamesNode n).Nodup)
    (hISO1 : ∀ y ∈ isoNamesNode n, y ∈ ISO) (hISO2 : ∀ x ∈ inclNamesNode n, x ∉ ISO)
    (htm : tmpl ∉ inclNamesNode n) (hP : ∀ q ∈ P, q.1 ∉ partNamesNode n) (hinv : InvG B Bd st P) :
    OkG B Bd ISO st (visitNode n tmpl jg st) tmpl (inclNamesNode n) (assignedNode n) (reachNode n tmpl A K dis) P := by
  match n with
  | .plain h cs =>
    obtain ⟨a1, a2, a3, a4, a5, a6, a8⟩ := hdrStep_g h tmpl jg st A K hag
    simp only [ConsNode] at hc
    simp only [BoundOKNode] at hb
    simp only [inclNamesNode] at hfresh hI hISO2 htm
    simp only [isoNamesNode] at hISO1
    simp only [partNamesNode] at hP
    simp only [noDeadIncNode] at hdead
    have hinv1 : InvG B Bd (hdrStep h tmpl jg st) P := by
      refine InvG.mono B Bd a5 ?_ hinv
      intro p hp
      rcases a6 p hp with h1 | h1
      · exact Or.inl h1
      · exact Or.inr (fun args hk => by rw [h1] at hk; cases hk)
    have ih := visitNodes_g cs tmpl jg ((hdrStep h tmpl jg st).modCur (·.push h.bscope))
      (A ++ h.tscope) (K ++ h.bscope) (dis || h.seals) P hc hb hdead
      (by
        intro hd
        rw [St.inIso_modCur, a1]
        exact hiso (by cases dis <;> simp_all))
      (by
        rw [St.cur_modCur]
        exact (hag.step a3 a4).push h.bscope)
      (by
        intro nm hnm k hk
        rw [St.seen_modCur] at hk
        rcases a6 _ hk with h' | h'
        · exact hfresh nm hnm k h'
        · exact htm (by have := congrArg Prod.fst h'; simp at this; rw [← this]; exact hnm))
      hI hISO1 hISO2 htm hP
      (by
        intro p hp args hk
        rw [St.seen_modCur] at hp
        rcases hinv1 p hp args hk with h1 | h1
        · exact Or.inl h1
        · exact Or.inr (fun e he l hl => by rw [St.globs_modCur]; exact h1 e he l hl))
    simp only [visitNode, inclNamesNode, assignedNode, reachNode]
    refine
      { inIso := by rw [St.inIso_modCur, ih.inIso, St.inIso_modCur, a1]
        root := fun hi => by
          have h1 : (hdrStep h tmpl jg st).inIso = true := by rw [a1]; exact hi
          have h2 : ((hdrStep h tmpl jg st).modCur (·.push h.bscope)).inIso = true := by
            rw [St.inIso_modCur]; exact h1
          rw [St.root_modCur _ _ (by rw [ih.inIso]; exact h2), ih.root h2, St.root_modCur _ _ h1, a2 hi]
        blocks := by
          rw [St.cur_modCur, Scope.pop, ih.blocks, St.cur_modCur]
          simp [Scope.push, a3]
        base := fun x => by
          rw [St.cur_modCur]
          show x ∈ (visitNodes cs tmpl jg _).cur.base ↔ _
          rw [ih.base x, St.cur_modCur]
          simp only [Scope.push, List.mem_append]
          rw [a4 x]; grind
        gmono := fun l hl => by
          rw [St.globs_modCur]
          exact ih.gmono l (by rw [St.globs_modCur]; exact a5 l hl)
        seen := fun p hp => by
          rw [St.seen_modCur] at hp
          rcases ih.seen p hp with h' | h' | h'
          · rw [St.seen_modCur] at h'
            rcases a6 p h' with h'' | h''
            · exact Or.inl h''
            · exact Or.inr (Or.inl (by rw [h'']))
          · exact Or.inr (Or.inl h')
          · exact Or.inr (Or.inr h')
        inv := by
          intro p hp args hk
          rw [St.seen_modCur] at hp
          rcases ih.inv p hp args hk with h1 | h1
          · exact Or.inl h1
          · exact Or.inr (fun e he l hl => by rw [St.globs_modCur]; exact h1 e he l hl)
        evs := fun e he l hl => by
          rw [St.globs_modCur]
          rcases List.mem_append.1 he with h' | h'
          · exact ih.gmono l (by rw [St.globs_modCur]; exact a8 e h' l hl)
          · exact ih.evs e h' l hl }
  | .part h iso name argNames bound body =>
    obtain ⟨a1, a2, a3, a4, a5, a6, a8⟩ := hdrStep_g h tmpl jg st A K hag
    simp only [ConsNode] at hc
    obtain ⟨hbody, hne, hacyc, hcb⟩ := hc
    simp only [BoundOKNode] at hb
    simp only [partNamesNode] at hP
    simp only [noDeadIncNode, Bool.and_eq_true] at hdead
    have htm' : (if name = "" then tmpl else name) = name := by rw [if_neg hne]
    have hinv1 : InvG B Bd (hdrStep h tmpl jg st) P := by
      refine InvG.mono B Bd a5 ?_ hinv
      intro p hp
      rcases a6 p hp with h1 | h1
      · exact Or.inl h1
      · exact Or.inr (fun args hk => by rw [h1] at hk; cases hk)
    have hseen1 : ∀ p ∈ (hdrStep h tmpl jg st).seen, p ∈ st.seen ∨ p.1 = tmpl := by
      intro p hp
      rcases a6 p hp with h1 | h1
      · exact Or.inl h1
      · exact Or.inr (by rw [h1])
    cases iso with
    | true =>
      simp only [inclNamesNode, isoNamesNode] at hfresh hI hISO1 hISO2 htm
      simp only [if_true, List.nil_append, List.singleton_append, List.mem_cons] at hfresh hI hISO1 hISO2 htm
      have hbd : bound = Bd name argNames := hb.1 rfl
      have hdeadb : noDeadIncNodes body true = true := by have := hdead.2; simpa using this
      have hinclb : inclNamesNodes body = [] := incl_nil_of_dead_nodes body hdeadb
      simp only [visitNode, htm', assignedNode, reachNode, inclNamesNode, if_true, List.nil_append, Bool.not_true,
        Bool.false_and, Bool.false_eq_true, if_false, List.append_nil]
      split
      · -- same key seen before: skipped; the same static scope was analysed when the key was completed
        rename_i hcont
        have hmem := List.contains_iff_mem.1 hcont
        refine ⟨a1, a2, a3, a4, a5, ?_, hinv1, ?_⟩
        · intro p hp
          rcases hseen1 p hp with h1 | h1
          · exact Or.inl h1
          · exact Or.inr (Or.inl h1)
        · intro e he l hl
          rcases List.mem_append.1 he with h1 | h1
          · exact a8 e h1 l hl
          · rcases hinv1 _ hmem argNames rfl with h2 | h2
            · exact absurd List.mem_cons_self (hP _ h2)
            · exact h2 e (by rw [← hbody, ← hbd]; exact h1) l hl
      · -- visited (normally or for globals only) with a fresh isolated scope
        have ih := visitNodes_g body name (jg || (hdrStep h tmpl jg st).seen.any (·.1 == name))
          (enterIso (addSeen (hdrStep h tmpl jg st) (name, partKey true name argNames)) (argNames ++ bound.toList))
          [] (argNames ++ bound.toList) true ((name, partKey true name argNames) :: P) hcb hb.2 hdeadb
          (fun hd => by cases hd)
          (by
            intro x
            rw [Scope.has_iff]
            show (x ∈ argNames ++ bound.toList ∨ ∃ b ∈ ([] : List (List Name)), x ∈ b) ↔ _
            simp)
          (by rw [hinclb]; intro nm hnm; cases hnm) (by rw [hinclb]; exact List.nodup_nil)
          (fun y hy => hISO1 y (Or.inr hy)) (by rw [hinclb]; intro x hx; cases hx)
          (by rw [hinclb]; intro hh; cases hh)
          (by
            intro q hq
            rcases List.mem_cons.1 hq with h1 | h1
            · rw [h1]; exact hacyc
            · exact fun hh => hP q h1 (List.mem_cons_of_mem _ hh))
          (by
            intro p hp args hk
            rcases List.mem_cons.1 hp with h1 | h1
            · exact Or.inl (by rw [h1]; exact List.mem_cons_self)
            · rcases hinv1 p h1 args hk with h2 | h2
              · exact Or.inl (List.mem_cons_of_mem _ h2)
              · exact Or.inr h2)
        have hcur : ∀ S : St, S.root = (hdrStep h tmpl jg st).root →
            (leaveIso S (addSeen (hdrStep h tmpl jg st) (name, partKey true name argNames))).cur
              = (hdrStep h tmpl jg st).cur := by
          intro S hS
          unfold St.cur leaveIso addSeen
          simp only [hS]
        have hroot := ih.root rfl
        refine
          { inIso := a1
            root := fun hi => by
              show (visitNodes body _ _ _).root = _
              rw [hroot]; exact a2 hi
            blocks := by rw [hcur _ hroot]; exact a3
            base := fun x => by rw [hcur _ hroot]; exact a4 x
            gmono := fun l hl => ih.gmono l (a5 l hl)
            seen := fun p hp => by
              have hp' : p ∈ (visitNodes body name (jg || (hdrStep h tmpl jg st).seen.any (·.1 == name))
                (enterIso (addSeen (hdrStep h tmpl jg st) (name, partKey true name argNames))
                  (argNames ++ bound.toList))).seen := hp
              rcases ih.seen p hp' with h' | h' | h' | h'
              · rcases List.mem_cons.1 h' with h'' | h''
                · exact Or.inr (Or.inr (Or.inr (by rw [h'']; exact hISO1 name (Or.inl rfl))))
                · rcases hseen1 p h'' with h3 | h3
                  · exact Or.inl h3
                  · exact Or.inr (Or.inl h3)
              · exact Or.inr (Or.inr (Or.inr (by rw [h']; exact hISO1 name (Or.inl rfl))))
              · rw [hinclb] at h'; cases h'
              · exact Or.inr (Or.inr (Or.inr h'))
            inv := by
              intro p hp args hk
              have hp' : p ∈ (visitNodes body name (jg || (hdrStep h tmpl jg st).seen.any (·.1 == name))
                (enterIso (addSeen (hdrStep h tmpl jg st) (name, partKey true name argNames))
                  (argNames ++ bound.toList))).seen := hp
              rcases ih.inv p hp' args hk with h1 | h1
              · rcases List.mem_cons.1 h1 with h2 | h2
                · -- the key just completed
                  refine Or.inr ?_
                  rw [h2] at hk
                  have hargs : args = argNames := by
                    simp only [partKey, if_true, Option.some.injEq, List.cons.injEq, true_and] at hk
                    exact hk.symm
                  rw [h2, hargs]
                  intro e he l hl
                  exact ih.evs e (by rw [hbody, hbd]; exact he) l hl
                · exact Or.inl h2
              · exact Or.inr h1
            evs := fun e he l hl => by
              rcases List.mem_append.1 he with h1 | h1
              · exact ih.gmono l (a8 e h1 l hl)
              · exact ih.evs e h1 l hl }
    | false =>
      simp only [inclNamesNode, isoNamesNode] at hfresh hI hISO1 hISO2 htm
      simp only [Bool.false_eq_true, if_false, List.nil_append, List.singleton_append, List.mem_cons] at hfresh hI hISO1 hISO2 htm
      have hdis : dis = false := by have := hdead.1; simpa using this
      subst hdis
      have hin : st.inIso = false := hiso rfl
      have hin1 : (hdrStep h tmpl jg st).inIso = false := by rw [a1]; exact hin
      have hname_fresh : ∀ k, (name, k) ∉ (hdrStep h tmpl jg st).seen := by
        intro k hk
        rcases hseen1 _ hk with h' | h'
        · exact hfresh name (Or.inl rfl) k h'
        · exact htm (Or.inl h'.symm)
      have hcnt := not_contains_of_fresh (partKey false name argNames) hname_fresh
      have hnd' := List.nodup_cons.1 hI
      simp only [visitNode, htm', hcnt, assignedNode, reachNode, inclNamesNode, Bool.false_eq_true, if_false,
        Bool.not_false, Bool.and_false, List.singleton_append]
      have hcur1 : (hdrStep h tmpl jg st).cur = (hdrStep h tmpl jg st).root := by
        unfold St.cur; rw [hin1]; rfl
      have ih := visitNodes_g body name (jg || (hdrStep h tmpl jg st).seen.any (·.1 == name))
        (enterShared (addSeen (hdrStep h tmpl jg st) (name, partKey false name argNames)) (argNames ++ bound.toList))
        (A ++ h.tscope) (K ++ (argNames ++ bound.toList)) false P hcb hb.2
        (by have := hdead.2; simpa using this) (fun _ => rfl)
        (by
          show Agree ((hdrStep h tmpl jg st).root.push (argNames ++ bound.toList)) _ _
          rw [← hcur1]
          exact (hag.step a3 a4).push _)
        (by
          intro nm hnm k hk
          rcases List.mem_cons.1 hk with h' | h'
          · have : nm = name := by simpa using congrArg Prod.fst h'
            exact hnd'.1 (this ▸ hnm)
          · rcases hseen1 _ h' with h'' | h''
            · exact hfresh nm (Or.inr hnm) k h''
            · exact htm (Or.inr (by simp at h''; rw [← h'']; exact hnm)))
        hnd'.2 (fun y hy => hISO1 y hy) (fun x hx => hISO2 x (Or.inr hx)) hnd'.1
        (fun q hq hh => hP q hq (List.mem_cons_of_mem _ hh))
        (by
          intro p hp args hk
          rcases List.mem_cons.1 hp with h1 | h1
          · rw [h1] at hk; simp [partKey] at hk
          · exact hinv1 p h1 args hk)
      have hcurL : ∀ (S : St), (leaveShared S (addSeen (hdrStep h tmpl jg st) (name, partKey false name argNames))).cur
          = S.root.pop := by
        intro S; unfold St.cur leaveShared addSeen; simp [hin1]
      have hcurV : ∀ (S : St), S.inIso = false → S.cur = S.root := by
        intro S hS; unfold St.cur; rw [hS]; rfl
      have hinV : (visitNodes body name (jg || (hdrStep h tmpl jg st).seen.any (·.1 == name))
          (enterShared (addSeen (hdrStep h tmpl jg st) (name, partKey false name argNames)) (argNames ++ bound.toList))).inIso
          = false := by rw [ih.inIso]; rfl
      have hcurE : (enterShared (addSeen (hdrStep h tmpl jg st) (name, partKey false name argNames))
          (argNames ++ bound.toList)).cur = (hdrStep h tmpl jg st).root.push (argNames ++ bound.toList) := rfl
      refine
        { inIso := a1
          root := fun hi => by rw [hin] at hi; cases hi
          blocks := by
            rw [hcurL, Scope.pop]
            show List.tail (visitNodes body _ _ _).root.blocks = _
            rw [← hcurV _ hinV, ih.blocks, hcurE]
            show (hdrStep h tmpl jg st).root.blocks = _
            rw [← hcur1]; exact a3
          base := fun x => by
            rw [hcurL]
            show x ∈ (visitNodes body _ _ _).root.base ↔ _
            rw [← hcurV _ hinV, ih.base x, hcurE]
            show x ∈ (hdrStep h tmpl jg st).root.base ∨ _ ↔ _
            rw [← hcur1, a4 x, List.mem_append]; grind
          gmono := fun l hl => ih.gmono l (a5 l hl)
          seen := fun p hp => by
            have hp' : p ∈ (visitNodes body name (jg || (hdrStep h tmpl jg st).seen.any (·.1 == name))
              (enterShared (addSeen (hdrStep h tmpl jg st) (name, partKey false name argNames))
                (argNames ++ bound.toList))).seen := hp
            rcases ih.seen p hp' with h' | h' | h' | h'
            · rcases List.mem_cons.1 h' with h'' | h''
              · exact Or.inr (Or.inr (Or.inl (by rw [h'']; exact List.mem_cons_self)))
              · rcases hseen1 p h'' with h3 | h3
                · exact Or.inl h3
                · exact Or.inr (Or.inl h3)
            · exact Or.inr (Or.inr (Or.inl (by rw [h']; exact List.mem_cons_self)))
            · exact Or.inr (Or.inr (Or.inl (List.mem_cons_of_mem _ h')))
            · exact Or.inr (Or.inr (Or.inr h'))
          inv := ih.inv
          evs := fun e he l hl => by
            rcases List.mem_append.1 he with h1 | h1
            · exact ih.gmono l (a8 e h1 l hl)
            · exact ih.evs e h1 l hl }
theorem visitNodes_g (ns : Nodes) (tmpl : Name) (jg : Bool) (st : St) (A K : List Name) (dis : Bool)
    (P : List (Name × Key))
    (hc : ConsNodes B ns) (hb : BoundOKNodes Bd ns) (hdead : noDeadIncNodes ns dis = true)
    (hiso : dis = false → st.inIso = false) (hag : Agree st.cur A K)
    (hfresh : ∀ nm ∈ inclNamesNodes ns, ∀ k, (nm, k) ∉ st.seen) (hI : (inclNamesNodes ns).Nodup)
    (hISO1 : ∀ y ∈ isoNamesNodes ns, y ∈ ISO) (hISO2 : ∀ x ∈ inclNamesNodes ns, x ∉ ISO)
    (htm : tmpl ∉ inclNamesNodes ns) (hP : ∀ q ∈ P, q.1 ∉ partNamesNodes ns) (hinv : InvG B Bd st P) :
    OkG B Bd ISO st (visitNodes ns tmpl jg st) tmpl (inclNamesNodes ns) (assignedNodes ns) (reachNodes ns tmpl A K dis) P := by
  match ns with
  | .nil =>
    simp only [visitNodes, inclNamesNodes, assignedNodes, reachNodes]
    exact ⟨rfl, fun _ => rfl, rfl, by simp, fun _ h => h, fun p hp => Or.inl hp, hinv, by simp⟩
  | .cons n ns =>
    simp only [ConsNodes] at hc
    simp only [BoundOKNodes] at hb
    simp only [inclNamesNodes] at hfresh hI hISO2 htm
    simp only [isoNamesNodes] at hISO1
    simp only [partNamesNodes] at hP
    simp only [noDeadIncNodes, Bool.and_eq_true] at hdead
    have hI' := List.nodup_append.1 hI
    have h1 := visitNode_g n tmpl jg st A K dis P hc.1 hb.1 hdead.1 hiso hag
      (fun nm hnm => hfresh nm (List.mem_append_left _ hnm)) hI'.1
      (fun y hy => hISO1 y (List.mem_append_left _ hy)) (fun x hx => hISO2 x (List.mem_append_left _ hx))
      (fun hh => htm (List.mem_append_left _ hh)) (fun q hq hh => hP q hq (List.mem_append_left _ hh)) hinv
    have h2 := visitNodes_g ns tmpl jg (visitNode n tmpl jg st) (A ++ assignedNode n) K dis P hc.2 hb.2 hdead.2
      (fun hd => by rw [h1.inIso]; exact hiso hd) (hag.step h1.blocks h1.base)
      (by
        intro nm hnm k hk
        rcases h1.seen _ hk with h' | h' | h' | h'
        · exact hfresh nm (List.mem_append_right _ hnm) k h'
        · exact htm (List.mem_append_right _ (by simp at h'; rw [← h']; exact hnm))
        · exact hI'.2.2 nm (by simpa using h') nm hnm rfl
        · exact hISO2 nm (List.mem_append_right _ hnm) (by simpa using h'))
      hI'.2.1 (fun y hy => hISO1 y (List.mem_append_right _ hy)) (fun x hx => hISO2 x (List.mem_append_right _ hx))
      (fun hh => htm (List.mem_append_right _ hh)) (fun q hq hh => hP q hq (List.mem_append_right _ hh)) h1.inv
    simp only [visitNodes, inclNamesNodes, assignedNodes, reachNodes]
    exact
      { inIso := by rw [h2.inIso, h1.inIso]
        root := fun hi => by rw [h2.root (by rw [h1.inIso]; exact hi), h1.root hi]
        blocks := by rw [h2.blocks, h1.blocks]
        base := fun x => by rw [h2.base x, h1.base x, List.mem_append]; grind
        gmono := fun l hl => h2.gmono l (h1.gmono l hl)
        seen := fun p hp => by
          rcases h2.seen p hp with h | h | h | h
          · rcases h1.seen p h with h | h | h | h
            · exact Or.inl h
            · exact Or.inr (Or.inl h)
            · exact Or.inr (Or.inr (Or.inl (List.mem_append_left _ h)))
            · exact Or.inr (Or.inr (Or.inr h))
          · exact Or.inr (Or.inl h)
          · exact Or.inr (Or.inr (Or.inl (List.mem_append_right _ h)))
          · exact Or.inr (Or.inr (Or.inr h))
        inv := h2.inv
        evs := fun e he l hl => by
          rcases List.mem_append.1 he with h | h
          · exact h2.gmono l (h1.evs e h l hl)
          · exact h2.evs e h l hl }
end
end

mutual
theorem incl_sub_part_node (n : Node) (nm : Name) (h : nm ∈ inclNamesNode n) : nm ∈ partNamesNode n := by
  match n with
  | .plain _ cs => simp only [inclNamesNode] at h; simp only [partNamesNode]; exact incl_sub_part_nodes cs nm h
  | .part _ iso name _ _ body =>
    simp only [inclNamesNode, List.mem_append] at h
    simp only [partNamesNode, List.mem_cons]
    rcases h with h | h
    · cases iso <;> simp at h; exact Or.inl h
    · exact Or.inr (incl_sub_part_nodes body nm h)
theorem incl_sub_part_nodes (ns : Nodes) (nm : Name) (h : nm ∈ inclNamesNodes ns) : nm ∈ partNamesNodes ns := by
  match ns with
  | .nil => simp [inclNamesNodes] at h
  | .cons n ns =>
    simp only [inclNamesNodes, List.mem_append] at h
    simp only [partNamesNodes, List.mem_append]
    rcases h with h | h
    · exact Or.inl (incl_sub_part_node n nm h)
    · exact Or.inr (incl_sub_part_nodes ns nm h)
end

mutual
theorem boundOK_of_triples_node (ts : List (Name × List Name × Option Name)) (n : Node)
    (h : ∀ t ∈ isoTriplesNode n, bdOf ts t.1 t.2.1 = t.2.2) : BoundOKNode (bdOf ts) n := by
  match n with
  | .plain _ cs => simp only [isoTriplesNode] at h; simp only [BoundOKNode]; exact boundOK_of_triples_nodes ts cs h
  | .part _ iso name args bound body =>
    simp only [isoTriplesNode, List.mem_append] at h
    simp only [BoundOKNode]
    refine ⟨fun hi => ?_, boundOK_of_triples_nodes ts body (fun t ht => h t (Or.inr ht))⟩
    have := h (name, args, bound) (Or.inl (by simp [hi]))
    exact this.symm
theorem boundOK_of_triples_nodes (ts : List (Name × List Name × Option Name)) (ns : Nodes)
    (h : ∀ t ∈ isoTriplesNodes ns, bdOf ts t.1 t.2.1 = t.2.2) : BoundOKNodes (bdOf ts) ns := by
  match ns with
  | .nil => trivial
  | .cons n ns =>
    simp only [isoTriplesNodes, List.mem_append] at h
    exact ⟨boundOK_of_triples_node ts n (fun t ht => h t (Or.inl ht)),
      boundOK_of_triples_nodes ts ns (fun t ht => h t (Or.inr ht))⟩
end

/-- The keyed simulation at top level: from the decidable hypothesis and consistency of the tree, every
unbound reachable lookup is a reported global. -/
theorem keyed_globals (B : Name → Nodes) (ns : Nodes) (tmpl : Name) (hc : ConsNodes B ns)
    (h2 : hyp2b ns tmpl = true) :
    ∀ e ∈ reach ns tmpl, ∀ l, e = Ev.get l false → l ∈ (analyze ns tmpl).globs := by
  simp only [hyp2b, Bool.and_eq_true, decide_eq_true_eq, List.all_eq_true, Bool.not_eq_true',
    boundFunctional, beq_iff_eq] at h2
  obtain ⟨⟨⟨⟨hdead, hnd⟩, hdisj⟩, htm⟩, hbf⟩ := h2
  have htm' : tmpl ∉ partNamesNodes ns := by
    intro hh; have := List.contains_iff_mem.2 hh; simp_all
  have hb := boundOK_of_triples_nodes (isoTriplesNodes ns) ns hbf
  have := visitNodes_g B (bdOf (isoTriplesNodes ns)) (isoNamesNodes ns) ns tmpl false St.init [] [] false []
    hc hb hdead (fun _ => rfl) (by intro n; simp [St.init, St.cur, Scope.has])
    (by intro nm _ k hk; simp [St.init] at hk) hnd (fun y hy => hy)
    (by
      intro x hx hh
      have := hdisj x hx
      have := List.contains_iff_mem.2 hh
      simp_all)
    (fun hh => htm' (incl_sub_part_nodes ns tmpl hh)) (by intro q hq; cases hq)
    (by intro p hp; simp [St.init] at hp)
  exact this.evs

end LiquidVerif.Analysis
