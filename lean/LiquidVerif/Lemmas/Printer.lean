import LiquidVerif.Model.Printer
/-! Helper lemmas for C04: unfolding equations of the parser, and the inductive round-trip lemma. -/
namespace LiquidVerif.Printer
open LiquidVerif.BoolParse

/-! ### unfolding equations for the (well-founded) parser, stated on the proof-free wrappers -/

theorem parsePrim_nil (p : Nat) : parsePrim p [] = none := by
  simp [parsePrim, parsePrimS]

theorem parsePrim_atom (p n : Nat) (r : List Tok) : parsePrim p (.atom n :: r) = loop p (.atom n) r := by
  simp only [parsePrim, loop]
  rw [parsePrimS]
  cases loopS p (.atom n) r <;> simp

theorem parsePrim_not (p : Nat) (r : List Tok) :
    parsePrim p (.not :: r) = (parsePrim 1 r).bind fun x => loop p (.not x.1) x.2 := by
  simp only [parsePrim, loop]
  rw [parsePrimS]
  cases h : parsePrimS 1 r with
  | none => simp
  | some x =>
    obtain ⟨e, r', hr⟩ := x
    simp only [Option.map_some, Option.bind_some]
    cases loopS p (.not e) r' <;> simp

theorem parsePrim_lp (p : Nat) (r : List Tok) :
    parsePrim p (.lp :: r) = (parsePrim 1 r).bind fun x =>
      match x.2 with
      | .rp :: r' => loop p x.1 r'
      | _ => none := by
  simp only [parsePrim, loop]
  rw [parsePrimS]
  cases h : parsePrimS 1 r with
  | none => simp
  | some x =>
    obtain ⟨e, r', hr⟩ := x
    cases r' with
    | nil => simp
    | cons t r'' =>
      cases t <;> simp
      cases loopS p e r'' <;> simp

theorem loop_nil (p : Nat) (l : E) : loop p l [] = some (l, []) := by
  simp [loop, loopS]

theorem loop_cons (p : Nat) (l : E) (t : Tok) (r : List Tok) :
    loop p l (t :: r) =
      if prec t < p then some (l, t :: r)
      else if !isBin t then some (l, t :: r)
      else (parsePrim (prec t) r).bind fun x => loop p (mkInfix t l x.1) x.2 := by
  simp only [parsePrim, loop]
  rw [loopS]
  split
  · simp
  · split
    · simp
    · cases h : parsePrimS (prec t) r with
      | none => simp
      | some x =>
        obtain ⟨e, r', hr⟩ := x
        simp only [Option.map_some, Option.bind_some]
        cases loopS p (mkInfix t l e) r' <;> simp


/-! ### when does the loop stop -/

/-- the loop of `parse_boolean_primitive(q)` stops in front of `rest` -/
def Follow (q : Nat) (rest : List Tok) : Prop :=
  rest = [] ∨ ∃ t r, rest = t :: r ∧ (prec t < q ∨ isBin t = false)

/-- `rest` is empty or starts with a token that is not a binary operator (`)`, `else`, `|`, `||` …):
every loop stops there, whatever its precedence -/
def Stop (rest : List Tok) : Prop := rest = [] ∨ ∃ t r, rest = t :: r ∧ isBin t = false

theorem Stop.follow {rest : List Tok} (h : Stop rest) (q : Nat) : Follow q rest := by
  rcases h with rfl | ⟨t, r, rfl, hb⟩
  · exact Or.inl rfl
  · exact Or.inr ⟨t, r, rfl, Or.inr hb⟩

theorem loop_follow {q : Nat} {rest : List Tok} (l : E) (h : Follow q rest) : loop q l rest = some (l, rest) := by
  rcases h with rfl | ⟨t, r, rfl, hlt | hb⟩
  · exact loop_nil q l
  · rw [loop_cons]; simp [hlt]
  · rw [loop_cons]; simp [hb]

theorem stop_rp (rest : List Tok) : Stop (.rp :: rest) := Or.inr ⟨.rp, rest, rfl, rfl⟩

/-! ### the printer as "bare text, maybe wrapped" -/

def bare : E → List Tok
  | .atom n => [.atom n]
  | .and l r => printB 4 true l ++ [.and] ++ printB 4 false r
  | .or l r => printB 3 true l ++ [.or] ++ printB 3 false r
  | .not x => [.not] ++ printB 7 false x
  | .cmp c l r => wrapIf (isCompound l) (printB 0 false l) ++ [.cmp c] ++ wrapIf (isCompound r) (printB 0 false r)

def parens (parent : Nat) (left : Bool) : E → Bool
  | .atom _ => false
  | .and _ _ => left || decide (4 < parent)
  | .or _ _ => left || decide (3 < parent)
  | .not _ => left || decide (7 < parent)
  | .cmp _ _ _ => false

theorem printB_eq (parent : Nat) (left : Bool) (e : E) :
    printB parent left e = wrapIf (parens parent left e) (bare e) := by
  cases e <;> simp [printB, bare, parens, wrapIf]

/-- side condition under which the *unparenthesised* text of `e`, followed by `rest`, is read back by
`parse_boolean_primitive(p)` as `e` and then continues its loop at `rest` -/
def GoodBare : E → Nat → List Tok → Prop
  | .atom _, _, _ => True
  | .and _ _, p, rest => p ≤ 2 ∧ Stop rest
  | .or _ _, p, rest => p ≤ 2 ∧ Stop rest
  | .not _, _, rest => Stop rest
  | .cmp c _ _, p, rest => p ≤ prec (.cmp c) ∧ Follow (prec (.cmp c)) rest

theorem prec_cmp_ge (c : Cmp) : 5 ≤ prec (.cmp c) := by cases c <;> simp [prec]

theorem good_of_stop (e : E) {p : Nat} {rest : List Tok} (hp : p ≤ 2) (hs : Stop rest) : GoodBare e p rest := by
  cases e with
  | atom n => trivial
  | and l r => exact ⟨hp, hs⟩
  | or l r => exact ⟨hp, hs⟩
  | not x => exact hs
  | cmp c l r => exact ⟨by have := prec_cmp_ge c; omega, hs.follow _⟩

/-- a parenthesised group: `( bare e )` followed by anything -/
theorem group_rt (e : E) (p : Nat) (rest : List Tok)
    (hb : ∀ p rest, GoodBare e p rest → parsePrim p (bare e ++ rest) = loop p e rest) :
    parsePrim p ([.lp] ++ bare e ++ [.rp] ++ rest) = loop p e rest := by
  have h1 := hb 1 (.rp :: rest) (good_of_stop e (by omega) (stop_rp rest))
  rw [loop_follow e ((stop_rp rest).follow 1)] at h1
  have : [Tok.lp] ++ bare e ++ [.rp] ++ rest = .lp :: (bare e ++ .rp :: rest) := by simp
  rw [this, parsePrim_lp, h1]
  simp

/-- **Inductive round-trip lemma.**  The text `_str(e, parent, left)` followed by `rest` is read by
`parse_boolean_primitive(p)` as: "`e` parsed as the left operand, loop continues at `rest`". -/
theorem rt (e : E) : ∀ (parent : Nat) (left : Bool) (p : Nat) (rest : List Tok),
    (parens parent left e = true ∨ GoodBare e p rest) →
    parsePrim p (printB parent left e ++ rest) = loop p e rest := by
  induction e with
  | atom n =>
    intro parent left p rest _
    simp [printB, parsePrim_atom]
  | and l r ihl ihr =>
    have hb : ∀ p rest, GoodBare (.and l r) p rest → parsePrim p (bare (.and l r) ++ rest) = loop p (.and l r) rest := by
      intro p rest ⟨hp, hs⟩
      have e1 : bare (.and l r) ++ rest = printB 4 true l ++ (.and :: (printB 4 false r ++ rest)) := by simp [bare]
      have hl : parens 4 true l = true ∨ GoodBare l p (.and :: (printB 4 false r ++ rest)) := by
        cases l with
        | atom n => exact Or.inr trivial
        | and _ _ => exact Or.inl (by simp [parens])
        | or _ _ => exact Or.inl (by simp [parens])
        | not _ => exact Or.inl (by simp [parens])
        | cmp c _ _ =>
          refine Or.inr ⟨by have := prec_cmp_ge c; omega, Or.inr ⟨.and, _, rfl, Or.inl ?_⟩⟩
          have := prec_cmp_ge c
          have h2 : prec Tok.and = 2 := rfl
          omega
      have hr : parens 4 false r = true ∨ GoodBare r 2 rest := by
        cases r with
        | or _ _ => exact Or.inl (by simp [parens])
        | _ => exact Or.inr (good_of_stop _ (by omega) hs)
      rw [e1, ihl 4 true p _ hl, loop_cons]
      have hpa : prec Tok.and = 2 := rfl
      have h2 : ¬ (2 < p) := by omega
      simp only [hpa, h2, isBin, if_false, Bool.not_true, Bool.false_eq_true]
      rw [ihr 4 false 2 rest hr, loop_follow r (hs.follow 2)]
      simp [mkInfix, loop_follow _ (hs.follow p)]
    intro parent left p rest h
    rw [printB_eq]
    by_cases hw : parens parent left (.and l r) = true
    · simp only [hw, wrapIf, if_true]
      exact group_rt _ p rest hb
    · simp only [hw, wrapIf]
      exact hb p rest (h.resolve_left hw)
  | or l r ihl ihr =>
    have hb : ∀ p rest, GoodBare (.or l r) p rest → parsePrim p (bare (.or l r) ++ rest) = loop p (.or l r) rest := by
      intro p rest ⟨hp, hs⟩
      have e1 : bare (.or l r) ++ rest = printB 3 true l ++ (.or :: (printB 3 false r ++ rest)) := by simp [bare]
      have hl : parens 3 true l = true ∨ GoodBare l p (.or :: (printB 3 false r ++ rest)) := by
        cases l with
        | atom n => exact Or.inr trivial
        | and _ _ => exact Or.inl (by simp [parens])
        | or _ _ => exact Or.inl (by simp [parens])
        | not _ => exact Or.inl (by simp [parens])
        | cmp c _ _ =>
          refine Or.inr ⟨by have := prec_cmp_ge c; omega, Or.inr ⟨.or, _, rfl, Or.inl ?_⟩⟩
          have := prec_cmp_ge c
          have h2 : prec Tok.or = 2 := rfl
          omega
      have hr : parens 3 false r = true ∨ GoodBare r 2 rest := Or.inr (good_of_stop _ (by omega) hs)
      rw [e1, ihl 3 true p _ hl, loop_cons]
      have hpa : prec Tok.or = 2 := rfl
      have h2 : ¬ (2 < p) := by omega
      simp only [hpa, h2, isBin, if_false, Bool.not_true, Bool.false_eq_true]
      rw [ihr 3 false 2 rest hr, loop_follow r (hs.follow 2)]
      simp [mkInfix, loop_follow _ (hs.follow p)]
    intro parent left p rest h
    rw [printB_eq]
    by_cases hw : parens parent left (.or l r) = true
    · simp only [hw, wrapIf, if_true]
      exact group_rt _ p rest hb
    · simp only [hw, wrapIf]
      exact hb p rest (h.resolve_left hw)
  | not x ih =>
    have hb : ∀ p rest, GoodBare (.not x) p rest → parsePrim p (bare (.not x) ++ rest) = loop p (.not x) rest := by
      intro p rest hs
      have hs' : Stop rest := hs
      have e1 : bare (.not x) ++ rest = .not :: (printB 7 false x ++ rest) := by simp [bare]
      have hx : parens 7 false x = true ∨ GoodBare x 1 rest := by
        cases x with
        | and _ _ => exact Or.inl (by simp [parens])
        | or _ _ => exact Or.inl (by simp [parens])
        | _ => exact Or.inr (good_of_stop _ (by omega) hs')
      rw [e1, parsePrim_not, ih 7 false 1 rest hx, loop_follow x (hs'.follow 1)]
      simp
    intro parent left p rest h
    rw [printB_eq]
    by_cases hw : parens parent left (.not x) = true
    · simp only [hw, wrapIf, if_true]
      exact group_rt _ p rest hb
    · simp only [hw, wrapIf]
      exact hb p rest (h.resolve_left hw)
  | cmp c l r ihl ihr =>
    -- `_operand(x)`: bare when primitive, else a parenthesised group
    have operand : ∀ (x : E), (∀ (parent : Nat) (left : Bool) (p : Nat) (rest : List Tok),
          (parens parent left x = true ∨ GoodBare x p rest) → parsePrim p (printB parent left x ++ rest) = loop p x rest) →
        ∀ q rest', parsePrim q (wrapIf (isCompound x) (printB 0 false x) ++ rest') = loop q x rest' := by
      intro x ihx q rest'
      by_cases hc : isCompound x = true
      · have hp0 : parens 0 false x = false := by cases x <;> simp [parens]
        have hpe : printB 0 false x = bare x := by rw [printB_eq, hp0]; simp [wrapIf]
        simp only [hc, wrapIf, if_true, hpe]
        refine group_rt x q rest' ?_
        intro p rest hg
        have := ihx 0 false p rest (Or.inr hg)
        rwa [hpe] at this
      · cases x with
        | atom n => simp [wrapIf, isCompound, printB, parsePrim_atom]
        | _ => simp [isCompound] at hc
    intro parent left p rest h
    have hg : GoodBare (.cmp c l r) p rest := by
      rcases h with h | h
      · simp [parens] at h
      · exact h
    obtain ⟨hp, hf⟩ := hg
    have e1 : printB parent left (.cmp c l r) ++ rest
        = wrapIf (isCompound l) (printB 0 false l) ++ (.cmp c :: (wrapIf (isCompound r) (printB 0 false r) ++ rest)) := by
      simp [printB]
    rw [e1, operand l ihl, loop_cons]
    have h2 : ¬ (prec (Tok.cmp c) < p) := by omega
    simp only [h2, isBin, if_false, Bool.not_true, Bool.false_eq_true]
    rw [operand r ihr, loop_follow r hf]
    simp [mkInfix]

end LiquidVerif.Printer
