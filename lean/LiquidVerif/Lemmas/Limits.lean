import LiquidVerif.Model.Limits
/-!
Helper lemmas for C07 / C08 about `LiquidVerif.Model.Limits`.

* `utf8Len_append`;
* the order on limit configurations (`LimLe`: `None` is the top element, `0` is falsy for the two limits the code
  tests with `if limit and …`), `Tight` (which limit error a tighter configuration may raise), `Agree`;
* `agree_all`: under a tighter configuration a render either agrees with the looser one or raises a limit error of
  a limit that differs (one mutual functional induction);
* `binv_all`: the buffer invariant `size = utf8Len text ≤ limit`;
* `ns_all`: the local-namespace invariant and the log of measured sizes.
-/
namespace LiquidVerif.Limits

/-! ## UTF-8 length -/

theorem utf8Len_append (a b : Text) : utf8Len (a ++ b) = utf8Len a + utf8Len b := by
  induction a with
  | nil => simp [utf8Len]
  | cons c cs ih => simp [utf8Len, ih, Nat.add_assoc]

theorem cpLen_pos (c : Nat) : 1 ≤ cpLen c ∧ cpLen c ≤ 4 := by
  unfold cpLen; repeat' split
  all_goals omega

/-! ## The order on limits -/

/-- `if limit and …`: `0` means the same as `None` -/
def eff : Option Nat → Option Nat
  | some 0 => none
  | x => x

/-- `a ≤ b` where `none` is "no limit" (top) -/
def OLe (a b : Option Nat) : Prop :=
  match b with
  | none => True
  | some y => match a with
    | none => False
    | some x => x ≤ y

theorem OLe.refl (a : Option Nat) : OLe a a := by cases a <;> simp [OLe]

/-- `L` is at least as tight as `L'`, limit by limit -/
structure LimLe (L L' : Limits) : Prop where
  output : OLe L.output L'.output
  ns : OLe (eff L.ns) (eff L'.ns)
  loop : OLe (eff L.loop) (eff L'.loop)
  depth : L.depth ≤ L'.depth
  nesting : L.nesting ≤ L'.nesting

theorem LimLe.refl (L : Limits) : LimLe L L := ⟨OLe.refl _, OLe.refl _, OLe.refl _, Nat.le_refl _, Nat.le_refl _⟩

/-- the limit errors that the tighter configuration `L` may raise where `L'` does not: those of a limit on which the
two configurations differ -/
def Tight (L L' : Limits) : Err → Prop
  | .outputLimit => L.output ≠ L'.output
  | .nsLimit => eff L.ns ≠ eff L'.ns
  | .loopLimit => eff L.loop ≠ eff L'.loop
  | .contextDepth => L.depth ≠ L'.depth
  | .blockNesting => L.nesting ≠ L'.nesting
  | .notFound => False
  | .disabledTag => False

theorem Tight.isLimit {L L' : Limits} {e : Err} (h : Tight L L' e) : e.isLimit = true := by
  cases e <;> simp_all [Tight, Err.isLimit]

/-- the tighter render agrees with the looser one (same final state, or the same error raised in the same state), or
raises an error of a limit that differs -/
def Agree (L L' : Limits) (a b : Res) : Prop := a = b ∨ ∃ e w, a = .error (e, w) ∧ Tight L L' e

theorem agree_refl {L L' : Limits} (a : Res) : Agree L L' a a := Or.inl rfl

theorem agree_guard {L L' : Limits} {b b' : Bool} {e : Err} {w : W} {x y : Res}
    (hb : b' = true → b = true) (ht : b = true → b' = false → Tight L L' e) (hxy : Agree L L' x y) :
    Agree L L' (guardE b e w x) (guardE b' e w y) := by
  unfold guardE
  cases b <;> cases b' <;> simp_all
  · exact Or.inr ⟨e, w, rfl, ht⟩
  · exact Or.inl rfl

theorem agree_guard_same {L L' : Limits} {b : Bool} {e : Err} {w : W} {x y : Res} (hxy : Agree L L' x y) :
    Agree L L' (guardE b e w x) (guardE b e w y) :=
  agree_guard id (fun h h' => by simp_all) hxy

theorem agree_bind {L L' : Limits} {a b : Res} {f g : W → Res}
    (hab : Agree L L' a b) (hfg : ∀ w, Agree L L' (f w) (g w)) : Agree L L' (bindR a f) (bindR b g) := by
  rcases hab with rfl | ⟨e, w, rfl, ht⟩
  · cases a with
    | error e => exact Or.inl rfl
    | ok w => exact hfg w
  · exact Or.inr ⟨e, w, rfl, ht⟩

theorem agree_restore {L L' : Limits} {a b : Res} (w : W) (hab : Agree L L' a b) :
    Agree L L' (restoreW w a) (restoreW w b) := by
  rcases hab with rfl | ⟨e, w1, rfl, ht⟩
  · exact Or.inl rfl
  · exact Or.inr ⟨e, _, rfl, ht⟩

theorem agree_mapErr {L L' : Limits} {a b : Res} (g : W → W) (hab : Agree L L' a b) :
    Agree L L' (mapErr g a) (mapErr g b) := by
  rcases hab with rfl | ⟨e, w1, rfl, ht⟩
  · exact Or.inl rfl
  · exact Or.inr ⟨e, _, rfl, ht⟩

theorem catchR_false (r : Res) : catchR false r = r := by
  cases r with
  | error p => cases p; rfl
  | ok w => rfl

theorem agree_depth {L L' : Limits} (hle : L.depth ≤ L'.depth) (n : Nat) (w : W) {x y : Res}
    (h : ¬ n > L.depth → Agree L L' x y) :
    Agree L L' (if n > L.depth then .error (.contextDepth, w) else x)
      (if n > L'.depth then .error (.contextDepth, w) else y) := by
  by_cases h1 : n > L.depth
  · by_cases h2 : n > L'.depth
    · simp [h1, h2, agree_refl]
    · simp only [h1, h2, if_true, if_false]
      exact Or.inr ⟨_, _, rfl, by simp only [Tight]; omega⟩
  · have h2 : ¬ n > L'.depth := by omega
    simp only [h1, h2, if_false]
    exact h h1

/-! ## The individual checks under two configurations -/

theorem loopOver_eff (lim : Option Nat) (c : Cx) (w : W) (n : Nat) : loopOver lim c w n = loopOver (eff lim) c w n := by
  cases lim with
  | none => rfl
  | some N => cases N <;> simp [loopOver, eff]

theorem nsOver_eff (lim : Option Nat) (n : Nat) : nsOver lim n = nsOver (eff lim) n := by
  cases lim with
  | none => rfl
  | some N => cases N <;> simp [nsOver, eff]

theorem loopOver_mono {a b : Option Nat} (h : OLe (eff a) (eff b)) (c : Cx) (w : W) (n : Nat) :
    loopOver b c w n = true → loopOver a c w n = true := by
  rcases a with _ | _ | a <;> rcases b with _ | _ | b <;> simp_all [OLe, loopOver, eff]
  omega

theorem loopOver_tight {L L' : Limits} (c : Cx) (w : W) (n : Nat) :
    loopOver L.loop c w n = true → loopOver L'.loop c w n = false → Tight L L' .loopLimit := by
  intro h1 h2 heq
  rw [loopOver_eff] at h1 h2
  rw [heq] at h1
  simp_all

theorem nsOver_mono {a b : Option Nat} (h : OLe (eff a) (eff b)) (n : Nat) :
    nsOver b n = true → nsOver a n = true := by
  rcases a with _ | _ | a <;> rcases b with _ | _ | b <;> simp_all [OLe, nsOver, eff]
  omega

theorem nsOver_tight {L L' : Limits} (n : Nat) :
    nsOver L.ns n = true → nsOver L'.ns n = false → Tight L L' .nsLimit := by
  intro h1 h2 heq
  rw [nsOver_eff] at h1 h2
  rw [heq] at h1
  simp_all

theorem agree_loop {L L' : Limits} (hle : LimLe L L') (c : Cx) (w w0 : W) (n : Nat) {x y : Res} (hxy : Agree L L' x y) :
    Agree L L' (guardE (loopOver L.loop c w n) .loopLimit w0 x) (guardE (loopOver L'.loop c w n) .loopLimit w0 y) :=
  agree_guard (loopOver_mono hle.loop c w n) (loopOver_tight c w n) hxy

theorem agree_nest {L L' : Limits} (hle : LimLe L L') (n : Nat) (w : W) {x y : Res} (hxy : Agree L L' x y) :
    Agree L L' (guardE (decide (n > L.nesting)) .blockNesting w x) (guardE (decide (n > L'.nesting)) .blockNesting w y) := by
  apply agree_guard _ _ hxy
  · have := hle.nesting; simp; omega
  · simp [Tight]; omega

theorem agree_assign {L L' : Limits} (hle : LimLe L L') (P : Prog) (c : Cx) (w : W) (name : String) (v : Val) :
    Agree L L' (assignW L P c w name v) (assignW L' P c w name v) := by
  unfold assignW
  simp only []
  generalize sizeOfLocals P c _ = n
  cases h1 : nsOver L.ns n <;> cases h2 : nsOver L'.ns n <;> simp
  · exact agree_refl _
  · have := nsOver_mono hle.ns n h2; simp_all
  · exact Or.inr ⟨_, _, rfl, nsOver_tight n h1 h2⟩
  · exact agree_refl _

/-! ## Buffers under two configurations -/

/-- how the current buffers of the two renders relate: the same class, and the tighter render's limit is not larger.
When the two output limits are equal the buffers are equal. -/
def BKLe (L L' : Limits) (bk bk' : BK) : Prop :=
  bk = bk' ∨ (L.output ≠ L'.output ∧
    ((∃ l l', bk = .real (some l) ∧ bk' = .real (some l') ∧ l ≤ l') ∨ (∃ l, bk = .real l ∧ bk' = .real none)))

theorem bkle_refl {L L' : Limits} (bk : BK) : BKLe L L' bk bk := Or.inl rfl

theorem agree_write {L L' : Limits} {bk bk' : BK} (hk : BKLe L L' bk bk') (w : W) (s : Text) :
    Agree L L' (writeW bk w s) (writeW bk' w s) := by
  rcases hk with rfl | ⟨hne, ⟨l, l', rfl, rfl, hl⟩ | ⟨l, rfl, rfl⟩⟩
  · exact agree_refl _
  · unfold writeW write
    by_cases hs : s = []
    · simp [hs, agree_refl]
    · simp only [hs, if_false]
      by_cases h1 : w.buf.size + utf8Len s > l
      · by_cases h2 : w.buf.size + utf8Len s > l'
        · simp [h1, h2, agree_refl]
        · simp only [h1, h2, if_true, if_false]
          exact Or.inr ⟨_, _, rfl, hne⟩
      · have h2 : ¬ w.buf.size + utf8Len s > l' := by omega
        simp [h1, h2, agree_refl]
  · unfold writeW write
    by_cases hs : s = []
    · simp [hs, agree_refl]
    · simp only [hs, if_false]
      cases l with
      | none => exact agree_refl _
      | some l =>
        by_cases h1 : w.buf.size + utf8Len s > l
        · simp only [h1, if_true]
          exact Or.inr ⟨_, _, rfl, hne⟩
        · simp [h1, agree_refl]

theorem subKind_le {L L' : Limits} (hle : LimLe L L') {bk bk' : BK} (hk : BKLe L L' bk bk') (b : Buf) :
    BKLe L L' (subKind L bk b) (subKind L' bk' b) := by
  have ho := hle.output
  unfold subKind
  cases h1 : L.output with
  | none =>
    cases h2 : L'.output with
    | none => exact Or.inl rfl
    | some l' => rw [h1, h2] at ho; simp [OLe] at ho
  | some l =>
    cases h2 : L'.output with
    | none =>
      refine Or.inr ⟨by rw [h1, h2]; simp, Or.inr ⟨_, rfl, rfl⟩⟩
    | some l' =>
      rw [h1, h2] at ho
      simp only [OLe] at ho
      by_cases hll : l = l'
      · subst hll
        rcases hk with rfl | ⟨hne, _⟩
        · exact Or.inl rfl
        · rw [h1, h2] at hne; exact absurd rfl hne
      · have hne : L.output ≠ L'.output := by rw [h1, h2]; simpa using hll
        refine Or.inr ⟨hne, Or.inl ?_⟩
        rcases hk with rfl | ⟨_, ⟨a, a', rfl, rfl, _⟩ | ⟨a, rfl, rfl⟩⟩
        · exact ⟨_, _, rfl, rfl, by omega⟩
        · exact ⟨_, _, rfl, rfl, by simp only; omega⟩
        · exact ⟨_, _, rfl, rfl, by simp only; split <;> omega⟩

theorem bkle_blank {L L' : Limits} {bk bk' : BK} (hk : BKLe L L' bk bk') (blank : Bool) :
    BKLe L L' (if blank then .null else bk) (if blank then .null else bk') := by
  cases blank <;> simp [hk, bkle_refl]

theorem bkle_top {L L' : Limits} (hle : LimLe L L') : BKLe L L' (.real L.output) (.real L'.output) := by
  have ho := hle.output
  by_cases h : L.output = L'.output
  · rw [h]; exact Or.inl rfl
  · refine Or.inr ⟨h, ?_⟩
    cases h1 : L.output with
    | none =>
      cases h2 : L'.output with
      | none => rw [h1, h2] at h; exact absurd rfl h
      | some l' => rw [h1, h2] at ho; simp [OLe] at ho
    | some l =>
      cases h2 : L'.output with
      | none => exact Or.inr ⟨_, rfl, rfl⟩
      | some l' =>
        rw [h1, h2] at ho
        exact Or.inl ⟨_, _, rfl, rfl, by simpa [OLe] using ho⟩

theorem agree_cycle {L L' : Limits} {bk bk' : BK} (hk : BKLe L L' bk bk') (P : Prog) (c : Cx) (w : W) (g : Text)
    (a : List Expr) : Agree L L' (cycleW P c bk w g a) (cycleW P c bk' w g a) := by
  unfold cycleW
  cases (cyclePick P c w g a).2 with
  | none => exact agree_refl _
  | some v => exact agree_write hk _ _

theorem agree_cellOpen {L L' : Limits} {bk bk' : BK} (hk : BKLe L L' bk bk') (w : W) (col : Option Nat) :
    Agree L L' (cellOpen bk w col) (cellOpen bk' w col) := by
  cases col with
  | none => exact agree_refl _
  | some k => exact agree_write hk _ _

theorem agree_cellClose {L L' : Limits} {bk bk' : BK} (hk : BKLe L L' bk bk') (w : W) (col : Option Nat) :
    Agree L L' (cellClose bk w col) (cellClose bk' w col) := by
  cases col with
  | none => exact agree_refl _
  | some k => exact agree_write hk _ _

/-! ## The simulation (STRICT mode): a tighter configuration agrees with a looser one or raises a limit error -/

theorem agree_all {L L' : Limits} (hle : LimLe L L') (P : Prog) (hlax : P.lax = false) :
    (∀ c bk w node, ∀ bk', BKLe L L' bk bk' → Agree L L' (render L P c bk w node) (render L' P c bk' w node)) ∧
    (∀ c bk w g key body items, ∀ bk', BKLe L L' bk bk' →
      Agree L L' (iterPartial L P c bk w g key body items) (iterPartial L' P c bk' w g key body items)) ∧
    (∀ c bk w body, ∀ bk', BKLe L L' bk bk' →
      Agree L L' (renderPartial L P c bk w body) (renderPartial L' P c bk' w body)) ∧
    (∀ c bk w nodes, ∀ bk', BKLe L L' bk bk' →
      Agree L L' (renderTop L P c bk w nodes) (renderTop L' P c bk' w nodes)) ∧
    (∀ c bk w var body col items, ∀ bk', BKLe L L' bk bk' →
      Agree L L' (iter L P c bk w var body col items) (iter L' P c bk' w var body col items)) ∧
    (∀ c bk w nodes blank, ∀ bk', BKLe L L' bk bk' →
      Agree L L' (renderBlock L P c bk w nodes blank) (renderBlock L' P c bk' w nodes blank)) ∧
    (∀ c bk w nodes, ∀ bk', BKLe L L' bk bk' →
      Agree L L' (renderList L P c bk w nodes) (renderList L' P c bk' w nodes)) := by
  apply render.mutual_induct L P
    (motive1 := fun c bk w node => ∀ bk', BKLe L L' bk bk' →
      Agree L L' (render L P c bk w node) (render L' P c bk' w node))
    (motive2 := fun c bk w g key body items => ∀ bk', BKLe L L' bk bk' →
      Agree L L' (iterPartial L P c bk w g key body items) (iterPartial L' P c bk' w g key body items))
    (motive3 := fun c bk w body => ∀ bk', BKLe L L' bk bk' →
      Agree L L' (renderPartial L P c bk w body) (renderPartial L' P c bk' w body))
    (motive4 := fun c bk w nodes => ∀ bk', BKLe L L' bk bk' →
      Agree L L' (renderTop L P c bk w nodes) (renderTop L' P c bk' w nodes))
    (motive5 := fun c bk w var body col items => ∀ bk', BKLe L L' bk bk' →
      Agree L L' (iter L P c bk w var body col items) (iter L' P c bk' w var body col items))
    (motive6 := fun c bk w nodes blank => ∀ bk', BKLe L L' bk bk' →
      Agree L L' (renderBlock L P c bk w nodes blank) (renderBlock L' P c bk' w nodes blank))
    (motive7 := fun c bk w nodes => ∀ bk', BKLe L L' bk bk' →
      Agree L L' (renderList L P c bk w nodes) (renderList L' P c bk' w nodes))
  case case1 => intro c bk w s bk' hk; simp only [render]; exact agree_write hk _ _
  case case2 => intro c bk w e bk' hk; simp only [render]; exact agree_write hk _ _
  case case3 => intro c bk w name e bk' hk; simp only [render]; exact agree_assign hle ..
  case case4 =>
    intro c bk w name body ih bk' hk
    simp only [render]
    exact agree_bind (agree_mapErr _ (ih _ (subKind_le hle hk _))) (fun w1 => agree_assign hle ..)
  case case5 =>
    intro c bk w body ih bk' hk
    simp only [render]
    refine agree_bind (agree_mapErr _ (ih _ (subKind_le hle hk _))) (fun w1 => ?_)
    by_cases h : w1.buf.text ≠ w1.ifch
    · rw [if_pos h, if_pos h]; exact agree_write hk _ _
    · rw [if_neg h, if_neg h]; exact agree_refl _
  case case6 => intro c bk w g a bk' hk; simp only [render]; exact agree_cycle hk ..
  case case7 =>
    intro c bk w cond body els h ih bk' hk
    simp only [render, if_pos h]; exact ih _ hk
  case case8 =>
    intro c bk w cond body els h ih bk' hk
    simp only [render, if_neg h]; exact ih _ hk
  case case9 =>
    intro c bk w cond body els h ih bk' hk
    simp only [render, if_pos h]; exact ih _ hk
  case case10 =>
    intro c bk w cond body els h ih bk' hk
    simp only [render, if_neg h]; exact ih _ hk
  case case11 =>
    intro c bk w args body h bk' hk
    simp only [render, dite_eq_ite]
    exact agree_depth hle.depth _ _ (fun hd => absurd h hd)
  case case12 =>
    intro c bk w args body h ih bk' hk
    simp only [render, dite_eq_ite]
    exact agree_depth hle.depth _ _ (fun _ => ih _ hk)
  case case13 =>
    intro c bk w var src body dflt hn ih bk' hk
    simp only [render, if_pos hn, dite_eq_ite]
    refine agree_loop hle _ _ _ _ (agree_depth hle.depth _ _ (fun hd => ih hd _ hk))
  case case14 =>
    intro c bk w var src body dflt hn ih bk' hk
    simp only [render, if_neg hn]; exact ih _ hk
  case case15 =>
    intro c bk w var src body ih bk' hk
    simp only [render, dite_eq_ite]
    refine agree_loop hle _ _ _ _ (agree_bind (agree_write hk _ _) (fun w0 => ?_))
    refine agree_depth hle.depth _ _ (fun hd => ?_)
    exact agree_bind (ih w0 hd _ hk) (fun w1 => agree_write hk _ _)
  case case16 =>
    intro c bk w name bind args ih1 ih2 ih3 bk' hk
    simp only [render, dite_eq_ite]
    refine agree_guard_same ?_
    cases lookupA P.templates name with
    | none => exact agree_refl _
    | some body =>
      simp only []
      refine agree_nest hle _ _ (agree_depth hle.depth _ _ (fun hd => ?_))
      cases boundInclude P _ w bind with
      | none => exact ih1 body hd _ hk
      | one key v => exact ih2 body hd key v _ hk
      | many key items => exact agree_loop hle _ _ _ _ (ih3 body hd key items _ hk)
  case case17 =>
    intro c bk w name bind args hl bk' hk
    simp only [render, hl]; exact agree_refl _
  case case18 =>
    intro c bk w name bind args body hl ih1 ih2 ih3 bk' hk
    simp only [render, hl, dite_eq_ite]
    refine agree_nest hle _ _ (agree_depth hle.depth _ _ (fun hd => ?_))
    cases boundRender P c w bind with
    | none => exact agree_restore _ (ih1 hd _ hk)
    | one key v => exact agree_restore _ (ih2 hd key v _ hk)
    | many key items => exact agree_loop hle _ _ _ _ (agree_restore _ (ih3 hd key items _ hk))
  case case19 => intro c bk w g key body bk' hk; simp only [iterPartial]; exact agree_refl _
  case case20 =>
    intro c bk w g key body itm rest ih1 ih2 bk' hk
    simp only [iterPartial]
    exact agree_bind (ih1 _ hk) (fun w1 => ih2 w1 _ hk)
  case case21 =>
    intro c bk w body h bk' hk
    simp only [renderPartial, dite_eq_ite]
    exact agree_depth hle.depth _ _ (fun hd => absurd h hd)
  case case22 =>
    intro c bk w body h ih bk' hk
    simp only [renderPartial, dite_eq_ite]
    exact agree_depth hle.depth _ _ (fun _ => ih _ hk)
  case case23 => intro c bk w bk' hk; simp only [renderTop]; exact agree_refl _
  case case24 =>
    intro c bk w n ns ih1 ih2 bk' hk
    simp only [renderTop, hlax, catchR_false]
    exact agree_bind (ih1 _ hk) (fun w1 => ih2 w1 _ hk)
  case case25 => intro c bk w var body col bk' hk; simp only [iter]; exact agree_refl _
  case case26 =>
    intro c bk w var body col itm rest ih1 ih2 bk' hk
    simp only [iter]
    refine agree_bind (agree_cellOpen hk _ _) (fun w0 => ?_)
    refine agree_bind (ih1 w0 _ hk) (fun w1 => ?_)
    exact agree_bind (agree_cellClose hk _ _) (fun w2 => ih2 w2 _ hk)
  case case27 =>
    intro c bk w nodes blank ih bk' hk
    simp only [renderBlock]
    simp only [dite_eq_ite] at ih
    exact ih _ (bkle_blank hk blank)
  case case28 => intro c bk w bk' hk; simp only [renderList]; exact agree_refl _
  case case29 =>
    intro c bk w n ns ih1 ih2 bk' hk
    simp only [renderList]
    exact agree_bind (ih1 _ hk) (fun w1 => ih2 w1 _ hk)

theorem agree_template {L L' : Limits} (hle : LimLe L L') (P : Prog) (hlax : P.lax = false) (nodes : List Node) :
    Agree L L' (renderTemplate L P nodes) (renderTemplate L' P nodes) := by
  unfold renderTemplate
  refine agree_nest hle _ _ ?_
  simp only []
  exact agree_depth hle.depth _ _ (fun _ => (agree_all hle P hlax).2.2.2.1 _ _ _ _ _ (bkle_top hle))

/-! ## Inversion of the sequencing combinators -/

theorem bindR_ok {a : Res} {f : W → Res} {w' : W} : bindR a f = .ok w' ↔ ∃ w1, a = .ok w1 ∧ f w1 = .ok w' := by
  cases a with
  | error e => simp [bindR]
  | ok w => simp [bindR]

theorem guardE_ok {b : Bool} {e : Err} {w : W} {k : Res} {w' : W} :
    guardE b e w k = .ok w' ↔ b = false ∧ k = .ok w' := by
  cases b <;> simp [guardE]

theorem restoreW_ok {w : W} {r : Res} {w' : W} :
    restoreW w r = .ok w' ↔ ∃ w1, r = .ok w1 ∧ w' = { w with buf := w1.buf, log := w1.log } := by
  cases r with
  | error e => cases e; simp [restoreW]
  | ok w1 => simp [restoreW, eq_comm]

theorem mapErr_ok {g : W → W} {r : Res} {w' : W} : mapErr g r = .ok w' ↔ r = .ok w' := by
  cases r with
  | error e => cases e; simp [mapErr]
  | ok w1 => simp [mapErr]

/-! ## The buffer invariant (STRICT mode) -/

/-- `size` is the UTF-8 length of what was written, and it never exceeds the buffer's limit -/
def BInv (bk : BK) (b : Buf) : Prop :=
  match bk with
  | .null => True
  | .real none => b.size = utf8Len b.text
  | .real (some l) => b.size = utf8Len b.text ∧ b.size ≤ l

/-- what a step may do to the current buffer: nothing when it is a `NullIO`, and it keeps the invariant -/
def BufOK (bk : BK) (b b' : Buf) : Prop := (bk = .null → b' = b) ∧ (BInv bk b → BInv bk b')

theorem bufok_refl (bk : BK) (b : Buf) : BufOK bk b b := ⟨fun _ => rfl, id⟩

theorem bufok_trans {bk : BK} {b b1 b2 : Buf} (h1 : BufOK bk b b1) (h2 : BufOK bk b1 b2) : BufOK bk b b2 :=
  ⟨fun hn => by rw [h2.1 hn, h1.1 hn], fun hi => h2.2 (h1.2 hi)⟩

theorem bufok_blank {bk : BK} {blank : Bool} {b b' : Buf} (h : BufOK (if blank then .null else bk) b b') :
    BufOK bk b b' := by
  cases blank with
  | false => simpa using h
  | true =>
    have : b' = b := h.1 (by simp)
    rw [this]; exact bufok_refl _ _

theorem binv_fresh (L : Limits) (bk : BK) (b : Buf) : BInv (subKind L bk b) ⟨0, []⟩ := by
  unfold subKind
  cases L.output <;> simp [BInv, utf8Len]

theorem write_ok {bk : BK} {b b' : Buf} {s : Text} (h : write bk b s = .ok b') : BufOK bk b b' := by
  unfold write at h
  cases bk with
  | null => simp at h; subst h; exact bufok_refl _ _
  | real lim =>
    simp only at h
    by_cases hs : s = []
    · simp [hs] at h; subst h; exact bufok_refl _ _
    · simp only [hs, if_false] at h
      refine ⟨fun hn => (by cases hn), ?_⟩
      cases lim with
      | none =>
        simp at h; subst h
        intro hi; simp only [BInv] at hi ⊢
        simp [utf8Len_append, hi]
      | some l =>
        simp only at h
        split at h
        · cases h
        · simp at h; subst h
          intro hi; simp only [BInv] at hi ⊢
          refine ⟨by simp [utf8Len_append, hi.1], by omega⟩

theorem writeW_ok {bk : BK} {w w' : W} {s : Text} (h : writeW bk w s = .ok w') :
    BufOK bk w.buf w'.buf ∧ w'.locals = w.locals ∧ w'.log = w.log := by
  unfold writeW at h
  cases hw : write bk w.buf s with
  | error e => rw [hw] at h; cases h
  | ok b =>
    rw [hw] at h
    simp at h; subst h
    exact ⟨write_ok hw, rfl, rfl⟩

theorem assignW_buf {L : Limits} {P : Prog} {c : Cx} {w w' : W} {name : String} {v : Val}
    (h : assignW L P c w name v = .ok w') : w'.buf = w.buf := by
  unfold assignW at h
  simp only [] at h
  split at h
  · cases h
  · simp at h; subst h; rfl

theorem cycleW_ok {P : Prog} {c : Cx} {bk : BK} {w w' : W} {g : Text} {a : List Expr}
    (h : cycleW P c bk w g a = .ok w') : BufOK bk w.buf w'.buf := by
  unfold cycleW at h
  have hb : (cyclePick P c w g a).1.buf = w.buf := rfl
  split at h
  · simp at h; subst h; rw [hb]; exact bufok_refl _ _
  · have := (writeW_ok h).1; rwa [hb] at this

theorem cellOpen_ok {bk : BK} {w w' : W} {col : Option Nat} (h : cellOpen bk w col = .ok w') :
    BufOK bk w.buf w'.buf ∧ w'.locals = w.locals ∧ w'.log = w.log := by
  cases col with
  | none => simp [cellOpen] at h; subst h; exact ⟨bufok_refl _ _, rfl, rfl⟩
  | some k => exact writeW_ok h

theorem cellClose_ok {bk : BK} {w w' : W} {col : Option Nat} (h : cellClose bk w col = .ok w') :
    BufOK bk w.buf w'.buf ∧ w'.locals = w.locals ∧ w'.log = w.log := by
  cases col with
  | none => simp [cellClose] at h; subst h; exact ⟨bufok_refl _ _, rfl, rfl⟩
  | some k => exact writeW_ok h

theorem binv_all (L : Limits) (P : Prog) (hlax : P.lax = false) :
    (∀ c bk w node, ∀ w', render L P c bk w node = .ok w' → BufOK bk w.buf w'.buf) ∧
    (∀ c bk w g key body items, ∀ w', iterPartial L P c bk w g key body items = .ok w' → BufOK bk w.buf w'.buf) ∧
    (∀ c bk w body, ∀ w', renderPartial L P c bk w body = .ok w' → BufOK bk w.buf w'.buf) ∧
    (∀ c bk w nodes, ∀ w', renderTop L P c bk w nodes = .ok w' → BufOK bk w.buf w'.buf) ∧
    (∀ c bk w var body col items, ∀ w', iter L P c bk w var body col items = .ok w' → BufOK bk w.buf w'.buf) ∧
    (∀ c bk w nodes blank, ∀ w', renderBlock L P c bk w nodes blank = .ok w' → BufOK bk w.buf w'.buf) ∧
    (∀ c bk w nodes, ∀ w', renderList L P c bk w nodes = .ok w' → BufOK bk w.buf w'.buf) := by
  apply render.mutual_induct L P
    (motive1 := fun c bk w node => ∀ w', render L P c bk w node = .ok w' → BufOK bk w.buf w'.buf)
    (motive2 := fun c bk w g key body items => ∀ w', iterPartial L P c bk w g key body items = .ok w' → BufOK bk w.buf w'.buf)
    (motive3 := fun c bk w body => ∀ w', renderPartial L P c bk w body = .ok w' → BufOK bk w.buf w'.buf)
    (motive4 := fun c bk w nodes => ∀ w', renderTop L P c bk w nodes = .ok w' → BufOK bk w.buf w'.buf)
    (motive5 := fun c bk w var body col items => ∀ w', iter L P c bk w var body col items = .ok w' → BufOK bk w.buf w'.buf)
    (motive6 := fun c bk w nodes blank => ∀ w', renderBlock L P c bk w nodes blank = .ok w' → BufOK bk w.buf w'.buf)
    (motive7 := fun c bk w nodes => ∀ w', renderList L P c bk w nodes = .ok w' → BufOK bk w.buf w'.buf)
  case case1 => intro c bk w s w' h; simp only [render] at h; exact (writeW_ok h).1
  case case2 => intro c bk w e w' h; simp only [render] at h; exact (writeW_ok h).1
  case case3 => intro c bk w name e w' h; simp only [render] at h; rw [assignW_buf h]; exact bufok_refl _ _
  case case4 =>
    intro c bk w name body _ w' h
    simp only [render, bindR_ok] at h
    obtain ⟨w1, _, h2⟩ := h
    rw [assignW_buf h2]; exact bufok_refl _ _
  case case5 =>
    intro c bk w body _ w' h
    simp only [render, bindR_ok] at h
    obtain ⟨w1, _, h2⟩ := h
    split at h2
    · exact (writeW_ok h2).1
    · simp at h2; subst h2; exact bufok_refl _ _
  case case6 => intro c bk w g a w' h; simp only [render] at h; exact cycleW_ok h
  case case7 =>
    intro c bk w cond body els hc ih w' h
    simp only [render, if_pos hc] at h; exact ih _ h
  case case8 =>
    intro c bk w cond body els hc ih w' h
    simp only [render, if_neg hc] at h; exact ih _ h
  case case9 =>
    intro c bk w cond body els hc ih w' h
    simp only [render, if_pos hc] at h; exact ih _ h
  case case10 =>
    intro c bk w cond body els hc ih w' h
    simp only [render, if_neg hc] at h; exact ih _ h
  case case11 =>
    intro c bk w args body hd w' h
    simp only [render, dif_pos hd] at h; cases h
  case case12 =>
    intro c bk w args body hd ih w' h
    simp only [render, dif_neg hd] at h; exact ih _ h
  case case13 =>
    intro c bk w var src body dflt hn ih w' h
    simp only [render, if_pos hn, guardE_ok, dite_eq_ite] at h
    obtain ⟨_, h⟩ := h
    split at h
    · cases h
    · rename_i hd; exact ih hd _ h
  case case14 =>
    intro c bk w var src body dflt hn ih w' h
    simp only [render, if_neg hn] at h; exact ih _ h
  case case15 =>
    intro c bk w var src body ih w' h
    simp only [render, guardE_ok, bindR_ok, dite_eq_ite] at h
    obtain ⟨_, w0, h0, h⟩ := h
    split at h
    · cases h
    · rename_i hd
      simp only [bindR_ok] at h
      obtain ⟨w1, h1, h2⟩ := h
      exact bufok_trans (writeW_ok h0).1 (bufok_trans (ih w0 hd _ h1) (writeW_ok h2).1)
  case case16 =>
    intro c bk w name bind args ih1 ih2 ih3 w' h
    simp only [render, guardE_ok, dite_eq_ite] at h
    obtain ⟨_, h⟩ := h
    cases hl : lookupA P.templates name with
    | none => rw [hl] at h; cases h
    | some body =>
      rw [hl] at h
      simp only [guardE_ok] at h
      obtain ⟨_, h⟩ := h
      split at h
      · cases h
      · rename_i hd
        split at h
        · exact ih1 body hd _ h
        · exact ih2 body hd _ _ _ h
        · simp only [guardE_ok] at h
          exact ih3 body hd _ _ _ h.2
  case case17 =>
    intro c bk w name bind args hl w' h
    simp only [render, hl] at h; cases h
  case case18 =>
    intro c bk w name bind args body hl ih1 ih2 ih3 w' h
    simp only [render, hl, guardE_ok, dite_eq_ite] at h
    obtain ⟨_, h⟩ := h
    split at h
    · cases h
    · rename_i hd
      split at h
      · simp only [restoreW_ok] at h
        obtain ⟨w1, h1, rfl⟩ := h
        have := ih1 hd _ h1
        exact this
      · simp only [restoreW_ok] at h
        obtain ⟨w1, h1, rfl⟩ := h
        have := ih2 hd _ _ _ h1
        exact this
      · simp only [guardE_ok, restoreW_ok] at h
        obtain ⟨_, w1, h1, rfl⟩ := h
        have := ih3 hd _ _ _ h1
        exact this
  case case19 => intro c bk w g key body w' h; simp only [iterPartial] at h; simp at h; subst h; exact bufok_refl _ _
  case case20 =>
    intro c bk w g key body itm rest ih1 ih2 w' h
    simp only [iterPartial, bindR_ok] at h
    obtain ⟨w1, h1, h2⟩ := h
    exact bufok_trans (ih1 _ h1) (ih2 w1 _ h2)
  case case21 =>
    intro c bk w body hd w' h
    simp only [renderPartial, dif_pos hd] at h; cases h
  case case22 =>
    intro c bk w body hd ih w' h
    simp only [renderPartial, dif_neg hd] at h; exact ih _ h
  case case23 => intro c bk w w' h; simp only [renderTop] at h; simp at h; subst h; exact bufok_refl _ _
  case case24 =>
    intro c bk w n ns ih1 ih2 w' h
    simp only [renderTop, hlax, catchR_false, bindR_ok] at h
    obtain ⟨w1, h1, h2⟩ := h
    exact bufok_trans (ih1 _ h1) (ih2 w1 _ h2)
  case case25 => intro c bk w var body col w' h; simp only [iter] at h; simp at h; subst h; exact bufok_refl _ _
  case case26 =>
    intro c bk w var body col itm rest ih1 ih2 w' h
    simp only [iter, bindR_ok] at h
    obtain ⟨w0, h0, w1, h1, w2, h2, h3⟩ := h
    exact bufok_trans (cellOpen_ok h0).1 (bufok_trans (ih1 w0 _ h1) (bufok_trans (cellClose_ok h2).1 (ih2 w2 _ h3)))
  case case27 =>
    intro c bk w nodes blank ih w' h
    simp only [renderBlock] at h
    simp only [dite_eq_ite] at ih
    exact bufok_blank (ih _ h)
  case case28 => intro c bk w w' h; simp only [renderList] at h; simp at h; subst h; exact bufok_refl _ _
  case case29 =>
    intro c bk w n ns ih1 ih2 w' h
    simp only [renderList, bindR_ok] at h
    obtain ⟨w1, h1, h2⟩ := h
    exact bufok_trans (ih1 _ h1) (ih2 w1 _ h2)

/-! ## The local-namespace invariant (STRICT mode) -/

@[simp] theorem bindVar_nsCarry (g : Bool) (c : Cx) (k : String) (v : Val) : (bindVar g c k v).nsCarry = c.nsCarry := by
  unfold bindVar; split <;> rfl

/-- the measured size of the current context (own locals plus what was carried into it) is within `M`, and so was
every size measured after an assignment so far -/
def NsInv (P : Prog) (M : Nat) (carry : Nat) (w : W) : Prop :=
  sumSz P.sz w.locals + carry ≤ M ∧ ∀ s ∈ w.log, s ≤ M

def NsOK (P : Prog) (M : Nat) (carry : Nat) (w w' : W) : Prop := NsInv P M carry w → NsInv P M carry w'

theorem nsok_refl {P : Prog} {M carry : Nat} (w : W) : NsOK P M carry w w := id

theorem nsok_trans {P : Prog} {M carry : Nat} {w w1 w2 : W} (h1 : NsOK P M carry w w1) (h2 : NsOK P M carry w1 w2) :
    NsOK P M carry w w2 := fun h => h2 (h1 h)

theorem nsok_of_eq {P : Prog} {M carry : Nat} {w w' : W} (h1 : w'.locals = w.locals) (h2 : w'.log = w.log) :
    NsOK P M carry w w' := by
  intro h; unfold NsInv at h ⊢; rw [h1, h2]; exact h

theorem assignW_ns {L : Limits} {P : Prog} {c : Cx} {w w' : W} {name : String} {v : Val} {M : Nat}
    (hl : L.ns = some M) (hM : M ≠ 0) (h : assignW L P c w name v = .ok w') (hlog : ∀ s ∈ w.log, s ≤ M) :
    NsInv P M c.nsCarry w' := by
  unfold assignW at h
  simp only [hl] at h
  split at h
  · cases h
  · rename_i hno
    simp at h; subst h
    have hle : sizeOfLocals P c { w with locals := setA w.locals name v } ≤ M := by
      simp only [nsOver, Bool.and_eq_true, bne_iff_ne, ne_eq, decide_eq_true_eq, not_and, Nat.not_lt] at hno
      exact hno hM
    refine ⟨hle, ?_⟩
    intro s hs
    simp only [List.mem_append, List.mem_singleton] at hs
    rcases hs with hs | rfl
    · exact hlog s hs
    · exact hle

theorem cycleW_ns {P : Prog} {c : Cx} {bk : BK} {w w' : W} {g : Text} {a : List Expr}
    (h : cycleW P c bk w g a = .ok w') : w'.locals = w.locals ∧ w'.log = w.log := by
  unfold cycleW at h
  have h1 : (cyclePick P c w g a).1.locals = w.locals := rfl
  have h2 : (cyclePick P c w g a).1.log = w.log := rfl
  split at h
  · simp at h; subst h; exact ⟨h1, h2⟩
  · have := writeW_ok h; exact ⟨this.2.1.trans h1, this.2.2.trans h2⟩

theorem ns_all (L : Limits) (P : Prog) (hlax : P.lax = false) (M : Nat) (hl : L.ns = some M) (hM : M ≠ 0) :
    (∀ c bk w node, ∀ w', render L P c bk w node = .ok w' → NsOK P M c.nsCarry w w') ∧
    (∀ c bk w g key body items, ∀ w', iterPartial L P c bk w g key body items = .ok w' → NsOK P M c.nsCarry w w') ∧
    (∀ c bk w body, ∀ w', renderPartial L P c bk w body = .ok w' → NsOK P M c.nsCarry w w') ∧
    (∀ c bk w nodes, ∀ w', renderTop L P c bk w nodes = .ok w' → NsOK P M c.nsCarry w w') ∧
    (∀ c bk w var body col items, ∀ w', iter L P c bk w var body col items = .ok w' → NsOK P M c.nsCarry w w') ∧
    (∀ c bk w nodes blank, ∀ w', renderBlock L P c bk w nodes blank = .ok w' → NsOK P M c.nsCarry w w') ∧
    (∀ c bk w nodes, ∀ w', renderList L P c bk w nodes = .ok w' → NsOK P M c.nsCarry w w') := by
  apply render.mutual_induct L P
    (motive1 := fun c bk w node => ∀ w', render L P c bk w node = .ok w' → NsOK P M c.nsCarry w w')
    (motive2 := fun c bk w g key body items => ∀ w', iterPartial L P c bk w g key body items = .ok w' → NsOK P M c.nsCarry w w')
    (motive3 := fun c bk w body => ∀ w', renderPartial L P c bk w body = .ok w' → NsOK P M c.nsCarry w w')
    (motive4 := fun c bk w nodes => ∀ w', renderTop L P c bk w nodes = .ok w' → NsOK P M c.nsCarry w w')
    (motive5 := fun c bk w var body col items => ∀ w', iter L P c bk w var body col items = .ok w' → NsOK P M c.nsCarry w w')
    (motive6 := fun c bk w nodes blank => ∀ w', renderBlock L P c bk w nodes blank = .ok w' → NsOK P M c.nsCarry w w')
    (motive7 := fun c bk w nodes => ∀ w', renderList L P c bk w nodes = .ok w' → NsOK P M c.nsCarry w w')
  case case1 => intro c bk w s w' h; simp only [render] at h; exact nsok_of_eq (writeW_ok h).2.1 (writeW_ok h).2.2
  case case2 => intro c bk w e w' h; simp only [render] at h; exact nsok_of_eq (writeW_ok h).2.1 (writeW_ok h).2.2
  case case3 =>
    intro c bk w name e w' h hi
    simp only [render] at h
    exact assignW_ns hl hM h hi.2
  case case4 =>
    intro c bk w name body ih w' h hi
    simp only [render, bindR_ok, mapErr_ok] at h
    obtain ⟨w1, h1, h2⟩ := h
    have := ih _ h1 hi
    exact assignW_ns hl hM h2 this.2
  case case5 =>
    intro c bk w body ih w' h hi
    simp only [render, bindR_ok, mapErr_ok] at h
    obtain ⟨w1, h1, h2⟩ := h
    have h3 : NsInv P M c.nsCarry w1 := ih _ h1 hi
    split at h2
    · exact nsok_of_eq (writeW_ok h2).2.1 (writeW_ok h2).2.2 h3
    · simp at h2; subst h2; exact h3
  case case6 =>
    intro c bk w g a w' h
    simp only [render] at h
    exact nsok_of_eq (cycleW_ns h).1 (cycleW_ns h).2
  case case7 =>
    intro c bk w cond body els hc ih w' h
    simp only [render, if_pos hc] at h; exact ih _ h
  case case8 =>
    intro c bk w cond body els hc ih w' h
    simp only [render, if_neg hc] at h; exact ih _ h
  case case9 =>
    intro c bk w cond body els hc ih w' h
    simp only [render, if_pos hc] at h; exact ih _ h
  case case10 =>
    intro c bk w cond body els hc ih w' h
    simp only [render, if_neg hc] at h; exact ih _ h
  case case11 =>
    intro c bk w args body hd w' h
    simp only [render, dif_pos hd] at h; cases h
  case case12 =>
    intro c bk w args body hd ih w' h
    simp only [render, dif_neg hd] at h; exact ih _ h
  case case13 =>
    intro c bk w var src body dflt hn ih w' h
    simp only [render, if_pos hn, guardE_ok, dite_eq_ite] at h
    obtain ⟨_, h⟩ := h
    split at h
    · cases h
    · rename_i hd; exact ih hd _ h
  case case14 =>
    intro c bk w var src body dflt hn ih w' h
    simp only [render, if_neg hn] at h; exact ih _ h
  case case15 =>
    intro c bk w var src body ih w' h
    simp only [render, guardE_ok, bindR_ok, dite_eq_ite] at h
    obtain ⟨_, w0, h0, h⟩ := h
    split at h
    · cases h
    · rename_i hd
      simp only [bindR_ok] at h
      obtain ⟨w1, h1, h2⟩ := h
      exact nsok_trans (nsok_of_eq (writeW_ok h0).2.1 (writeW_ok h0).2.2)
        (nsok_trans (ih w0 hd _ h1) (nsok_of_eq (writeW_ok h2).2.1 (writeW_ok h2).2.2))
  case case16 =>
    intro c bk w name bind args ih1 ih2 ih3 w' h
    simp only [render, guardE_ok, dite_eq_ite] at h
    obtain ⟨_, h⟩ := h
    cases hlk : lookupA P.templates name with
    | none => rw [hlk] at h; cases h
    | some body =>
      rw [hlk] at h
      simp only [guardE_ok] at h
      obtain ⟨_, h⟩ := h
      split at h
      · cases h
      · rename_i hd
        split at h
        · exact ih1 body hd _ h
        · have := ih2 body hd _ _ _ h
          simpa only [bindVar_nsCarry] using this
        · simp only [guardE_ok] at h
          exact ih3 body hd _ _ _ h.2
  case case17 =>
    intro c bk w name bind args hlk w' h
    simp only [render, hlk] at h; cases h
  case case18 =>
    intro c bk w name bind args body hlk ih1 ih2 ih3 w' h hi
    have hfresh : NsInv P M (copied P c w (evalArgs P c w args)).nsCarry (freshW w) := by
      refine ⟨?_, hi.2⟩
      show sumSz P.sz [] + (sumSz P.sz w.locals + c.nsCarry) ≤ M
      simp only [sumSz, Nat.zero_add]; exact hi.1
    simp only [render, hlk, guardE_ok, dite_eq_ite] at h
    obtain ⟨_, h⟩ := h
    split at h
    · cases h
    · rename_i hd
      split at h
      · simp only [restoreW_ok] at h
        obtain ⟨w1, h1, rfl⟩ := h
        have := ih1 hd _ h1 hfresh
        exact ⟨hi.1, this.2⟩
      · simp only [restoreW_ok] at h
        obtain ⟨w1, h1, rfl⟩ := h
        have := ih2 hd _ _ _ h1
        simp only [bindVar_nsCarry] at this
        exact ⟨hi.1, (this hfresh).2⟩
      · simp only [guardE_ok, restoreW_ok] at h
        obtain ⟨_, w1, h1, rfl⟩ := h
        have := ih3 hd _ _ _ h1 hfresh
        exact ⟨hi.1, this.2⟩
  case case19 => intro c bk w g key body w' h; simp only [iterPartial] at h; simp at h; subst h; exact nsok_refl _
  case case20 =>
    intro c bk w g key body itm rest ih1 ih2 w' h
    simp only [iterPartial, bindR_ok] at h
    obtain ⟨w1, h1, h2⟩ := h
    have := ih1 _ h1
    simp only [bindVar_nsCarry] at this
    exact nsok_trans this (ih2 w1 _ h2)
  case case21 =>
    intro c bk w body hd w' h
    simp only [renderPartial, dif_pos hd] at h; cases h
  case case22 =>
    intro c bk w body hd ih w' h
    simp only [renderPartial, dif_neg hd] at h; exact ih _ h
  case case23 => intro c bk w w' h; simp only [renderTop] at h; simp at h; subst h; exact nsok_refl _
  case case24 =>
    intro c bk w n ns ih1 ih2 w' h
    simp only [renderTop, hlax, catchR_false, bindR_ok] at h
    obtain ⟨w1, h1, h2⟩ := h
    exact nsok_trans (ih1 _ h1) (ih2 w1 _ h2)
  case case25 => intro c bk w var body col w' h; simp only [iter] at h; simp at h; subst h; exact nsok_refl _
  case case26 =>
    intro c bk w var body col itm rest ih1 ih2 w' h
    simp only [iter, bindR_ok] at h
    obtain ⟨w0, h0, w1, h1, w2, h2, h3⟩ := h
    exact nsok_trans (nsok_of_eq (cellOpen_ok h0).2.1 (cellOpen_ok h0).2.2)
      (nsok_trans (ih1 w0 _ h1) (nsok_trans (nsok_of_eq (cellClose_ok h2).2.1 (cellClose_ok h2).2.2) (ih2 w2 _ h3)))
  case case27 =>
    intro c bk w nodes blank ih w' h
    simp only [renderBlock] at h
    simp only [dite_eq_ite] at ih
    exact ih _ h
  case case28 => intro c bk w w' h; simp only [renderList] at h; simp at h; subst h; exact nsok_refl _
  case case29 =>
    intro c bk w n ns ih1 ih2 w' h
    simp only [renderList, bindR_ok] at h
    obtain ⟨w1, h1, h2⟩ := h
    exact nsok_trans (ih1 _ h1) (ih2 w1 _ h2)

/-! ## Every mode: what a buffer holds never exceeds its limit (LAX / WARN included)

In LAX/WARN mode the render loop drops a node's error and goes on from the state the failing node left behind. A failed
`LimitedStringIO.write` has already increased `size` (without writing), so `size = utf8Len text` is lost — what remains
true in every mode is `utf8Len text ≤ size` and `utf8Len text ≤ limit`. -/

/-- the state of either outcome -/
def resW : Res → W
  | .ok w => w
  | .error (_, w) => w

def LInv (bk : BK) (b : Buf) : Prop :=
  match bk with
  | .real (some l) => utf8Len b.text ≤ b.size ∧ utf8Len b.text ≤ l
  | _ => True

def LaxOK (bk : BK) (b b' : Buf) : Prop := (bk = .null → b' = b) ∧ (LInv bk b → LInv bk b')

theorem laxok_refl (bk : BK) (b : Buf) : LaxOK bk b b := ⟨fun _ => rfl, id⟩

theorem laxok_of_eq {bk : BK} {b b' : Buf} (h : b' = b) : LaxOK bk b b' := by rw [h]; exact laxok_refl _ _

theorem laxok_trans {bk : BK} {b b1 b2 : Buf} (h1 : LaxOK bk b b1) (h2 : LaxOK bk b1 b2) : LaxOK bk b b2 :=
  ⟨fun hn => by rw [h2.1 hn, h1.1 hn], fun hi => h2.2 (h1.2 hi)⟩

theorem laxok_blank {bk : BK} {blank : Bool} {b b' : Buf} (h : LaxOK (if blank then .null else bk) b b') :
    LaxOK bk b b' := by
  cases blank with
  | false => simpa using h
  | true =>
    have : b' = b := h.1 (by simp)
    rw [this]; exact laxok_refl _ _

theorem lax_bind {bk : BK} {b : Buf} {a : Res} {f : W → Res} (h1 : LaxOK bk b (resW a).buf)
    (h2 : ∀ w1, a = .ok w1 → LaxOK bk w1.buf (resW (f w1)).buf) : LaxOK bk b (resW (bindR a f)).buf := by
  cases a with
  | error p => exact h1
  | ok w1 => exact laxok_trans h1 (h2 w1 rfl)

theorem lax_guard {bk : BK} {b0 : Buf} {b : Bool} {e : Err} {w : W} {k : Res} (hw : LaxOK bk b0 w.buf)
    (hk : LaxOK bk b0 (resW k).buf) : LaxOK bk b0 (resW (guardE b e w k)).buf := by
  cases b with
  | false => exact hk
  | true => exact hw

theorem resW_catch (lax : Bool) (r : Res) : resW (catchR lax r) = resW r := by
  cases r with
  | error p => cases p; cases lax <;> rfl
  | ok w => rfl

theorem resW_restore_buf (w : W) (r : Res) : (resW (restoreW w r)).buf = (resW r).buf := by
  cases r with
  | error p => cases p; rfl
  | ok w1 => rfl

theorem lax_depth {bk : BK} {b0 : Buf} {p : Prop} [Decidable p] {e : Err} {w : W} {k : Res} (hw : LaxOK bk b0 w.buf)
    (hk : ¬ p → LaxOK bk b0 (resW k).buf) : LaxOK bk b0 (resW (if p then .error (e, w) else k)).buf := by
  by_cases h : p
  · simp [h, resW, hw]
  · simp only [h, if_false]; exact hk h

theorem writeW_lax (bk : BK) (w : W) (s : Text) : LaxOK bk w.buf (resW (writeW bk w s)).buf := by
  unfold writeW write
  cases bk with
  | null => exact laxok_refl _ _
  | real lim =>
    simp only
    by_cases hs : s = []
    · simp [hs, resW, laxok_refl]
    · simp only [hs, if_false]
      cases lim with
      | none => exact ⟨fun hn => (by cases hn), fun _ => trivial⟩
      | some l =>
        simp only
        by_cases h1 : w.buf.size + utf8Len s > l
        · simp only [h1, if_true, resW]
          refine ⟨fun hn => (by cases hn), fun hi => ?_⟩
          simp only [LInv] at hi ⊢
          omega
        · simp only [h1, if_false, resW]
          refine ⟨fun hn => (by cases hn), fun hi => ?_⟩
          simp only [LInv, utf8Len_append] at hi ⊢
          omega

theorem assignW_resbuf (L : Limits) (P : Prog) (c : Cx) (w : W) (name : String) (v : Val) :
    (resW (assignW L P c w name v)).buf = w.buf := by
  unfold assignW
  simp only []
  split <;> rfl

theorem cycleW_lax (P : Prog) (c : Cx) (bk : BK) (w : W) (g : Text) (a : List Expr) :
    LaxOK bk w.buf (resW (cycleW P c bk w g a)).buf := by
  unfold cycleW
  have hb : (cyclePick P c w g a).1.buf = w.buf := rfl
  split
  · exact laxok_of_eq hb
  · have := writeW_lax bk (cyclePick P c w g a).1 (toStr ‹Val›); rwa [hb] at this

theorem cellOpen_lax (bk : BK) (w : W) (col : Option Nat) : LaxOK bk w.buf (resW (cellOpen bk w col)).buf := by
  cases col with
  | none => exact laxok_refl _ _
  | some k => exact writeW_lax _ _ _

theorem cellClose_lax (bk : BK) (w : W) (col : Option Nat) : LaxOK bk w.buf (resW (cellClose bk w col)).buf := by
  cases col with
  | none => exact laxok_refl _ _
  | some k => exact writeW_lax _ _ _

theorem lax_all (L : Limits) (P : Prog) :
    (∀ c bk w node, LaxOK bk w.buf (resW (render L P c bk w node)).buf) ∧
    (∀ c bk w g key body items, LaxOK bk w.buf (resW (iterPartial L P c bk w g key body items)).buf) ∧
    (∀ c bk w body, LaxOK bk w.buf (resW (renderPartial L P c bk w body)).buf) ∧
    (∀ c bk w nodes, LaxOK bk w.buf (resW (renderTop L P c bk w nodes)).buf) ∧
    (∀ c bk w var body col items, LaxOK bk w.buf (resW (iter L P c bk w var body col items)).buf) ∧
    (∀ c bk w nodes blank, LaxOK bk w.buf (resW (renderBlock L P c bk w nodes blank)).buf) ∧
    (∀ c bk w nodes, LaxOK bk w.buf (resW (renderList L P c bk w nodes)).buf) := by
  apply render.mutual_induct L P
    (motive1 := fun c bk w node => LaxOK bk w.buf (resW (render L P c bk w node)).buf)
    (motive2 := fun c bk w g key body items => LaxOK bk w.buf (resW (iterPartial L P c bk w g key body items)).buf)
    (motive3 := fun c bk w body => LaxOK bk w.buf (resW (renderPartial L P c bk w body)).buf)
    (motive4 := fun c bk w nodes => LaxOK bk w.buf (resW (renderTop L P c bk w nodes)).buf)
    (motive5 := fun c bk w var body col items => LaxOK bk w.buf (resW (iter L P c bk w var body col items)).buf)
    (motive6 := fun c bk w nodes blank => LaxOK bk w.buf (resW (renderBlock L P c bk w nodes blank)).buf)
    (motive7 := fun c bk w nodes => LaxOK bk w.buf (resW (renderList L P c bk w nodes)).buf)
  case case1 => intro c bk w s; simp only [render]; exact writeW_lax _ _ _
  case case2 => intro c bk w e; simp only [render]; exact writeW_lax _ _ _
  case case3 => intro c bk w name e; simp only [render]; exact laxok_of_eq (assignW_resbuf ..)
  case case4 =>
    intro c bk w name body _
    simp only [render]
    refine laxok_of_eq ?_
    cases renderBlock L P c (subKind L bk w.buf) { w with buf := ⟨0, []⟩ } body (blankList body) with
    | error p => cases p; rfl
    | ok w1 => exact assignW_resbuf ..
  case case5 =>
    intro c bk w body _
    simp only [render]
    cases renderBlock L P c (subKind L bk w.buf) { w with buf := ⟨0, []⟩ } body (blankList body) with
    | error p => cases p; exact laxok_refl _ _
    | ok w1 =>
      simp only [mapErr, bindR]
      split
      · exact writeW_lax bk { w1 with buf := w.buf, ifch := w1.buf.text } _
      · exact laxok_refl _ _
  case case6 => intro c bk w g a; simp only [render]; exact cycleW_lax ..
  case case7 =>
    intro c bk w cond body els h ih
    simp only [render, if_pos h]; exact ih
  case case8 =>
    intro c bk w cond body els h ih
    simp only [render, if_neg h]; exact ih
  case case9 =>
    intro c bk w cond body els h ih
    simp only [render, if_pos h]; exact ih
  case case10 =>
    intro c bk w cond body els h ih
    simp only [render, if_neg h]; exact ih
  case case11 =>
    intro c bk w args body h
    simp only [render, dif_pos h]; exact laxok_refl _ _
  case case12 =>
    intro c bk w args body h ih
    simp only [render, dif_neg h]; exact ih
  case case13 =>
    intro c bk w var src body dflt hn ih
    simp only [render, if_pos hn, dite_eq_ite]
    exact lax_guard (laxok_refl _ _) (lax_depth (laxok_refl _ _) (fun hd => ih hd))
  case case14 =>
    intro c bk w var src body dflt hn ih
    simp only [render, if_neg hn]; exact ih
  case case15 =>
    intro c bk w var src body ih
    simp only [render, dite_eq_ite]
    refine lax_guard (laxok_refl _ _) (lax_bind (writeW_lax _ _ _) (fun w0 _ => ?_))
    refine lax_depth (laxok_refl _ _) (fun hd => ?_)
    exact lax_bind (ih w0 hd) (fun w1 _ => writeW_lax _ _ _)
  case case16 =>
    intro c bk w name bind args ih1 ih2 ih3
    simp only [render, dite_eq_ite]
    refine lax_guard (laxok_refl _ _) ?_
    cases lookupA P.templates name with
    | none => exact laxok_refl _ _
    | some body =>
      simp only []
      refine lax_guard (laxok_refl _ _) (lax_depth (laxok_refl _ _) (fun hd => ?_))
      cases boundInclude P _ w bind with
      | none => exact ih1 body hd
      | one key v => exact ih2 body hd key v
      | many key items => exact lax_guard (laxok_refl _ _) (ih3 body hd key items)
  case case17 =>
    intro c bk w name bind args hl
    simp only [render, hl]; exact laxok_refl _ _
  case case18 =>
    intro c bk w name bind args body hl ih1 ih2 ih3
    simp only [render, hl, dite_eq_ite]
    refine lax_guard (laxok_refl _ _) (lax_depth (laxok_refl _ _) (fun hd => ?_))
    cases boundRender P c w bind with
    | none => simp only []; rw [resW_restore_buf]; exact ih1 hd
    | one key v => simp only []; rw [resW_restore_buf]; exact ih2 hd key v
    | many key items =>
      simp only []
      refine lax_guard (laxok_refl _ _) ?_
      rw [resW_restore_buf]; exact ih3 hd key items
  case case19 => intro c bk w g key body; simp only [iterPartial]; exact laxok_refl _ _
  case case20 =>
    intro c bk w g key body itm rest ih1 ih2
    simp only [iterPartial]
    exact lax_bind ih1 (fun w1 _ => ih2 w1)
  case case21 =>
    intro c bk w body h
    simp only [renderPartial, dif_pos h]; exact laxok_refl _ _
  case case22 =>
    intro c bk w body h ih
    simp only [renderPartial, dif_neg h]; exact ih
  case case23 => intro c bk w; simp only [renderTop]; exact laxok_refl _ _
  case case24 =>
    intro c bk w n ns ih1 ih2
    simp only [renderTop]
    refine lax_bind (by rw [resW_catch]; exact ih1) (fun w1 _ => ih2 w1)
  case case25 => intro c bk w var body col; simp only [iter]; exact laxok_refl _ _
  case case26 =>
    intro c bk w var body col itm rest ih1 ih2
    simp only [iter]
    refine lax_bind (cellOpen_lax _ _ _) (fun w0 _ => ?_)
    refine lax_bind (ih1 w0) (fun w1 _ => ?_)
    exact lax_bind (cellClose_lax _ _ _) (fun w2 _ => ih2 w2)
  case case27 =>
    intro c bk w nodes blank ih
    simp only [renderBlock]
    simp only [dite_eq_ite] at ih
    exact laxok_blank ih
  case case28 => intro c bk w; simp only [renderList]; exact laxok_refl _ _
  case case29 =>
    intro c bk w n ns ih1 ih2
    simp only [renderList]
    exact lax_bind ih1 (fun w1 _ => ih2 w1)

theorem renderTop_within_limit (L : Limits) (P : Prog) (c : Cx) (l : Nat) (w : W) (nodes : List Node)
    (h : renderTop L P c (.real (some l)) initW nodes = .ok w) : utf8Len w.buf.text ≤ l := by
  have := ((lax_all L P).2.2.2.1 c (.real (some l)) initW nodes).2
  rw [h] at this
  exact (this (by simp [LInv, initW, utf8Len])).2

/-- in LAX/WARN mode the node loop never fails: every node's error is dropped -/
theorem renderTop_lax_ok (L : Limits) (P : Prog) (hlax : P.lax = true) (c : Cx) (bk : BK) (w : W) (nodes : List Node) :
    ∃ w', renderTop L P c bk w nodes = .ok w' := by
  induction nodes generalizing w with
  | nil => exact ⟨w, by simp only [renderTop]⟩
  | cons n ns ih =>
    simp only [renderTop, hlax]
    cases render L P c bk w n with
    | error p => cases p; simpa [catchR, bindR] using ih _
    | ok w1 => simpa [catchR, bindR] using ih _

/-! ## Tables compared with the generated source tables (C08) -/

/-- `cls` is `target` or has it among its (transitive) bases in the class table -/
def derives (tbl : List (String × List String)) : Nat → String → String → Bool
  | 0, _, _ => false
  | fuel + 1, cls, target =>
    cls == target ||
      (match tbl.lookup cls with
       | none => false
       | some bases => bases.any fun b => derives tbl fuel b target)

/-- what the model assumes about each limit check of the source, in source order: the class raised, the comparison
(`Gt`: raise when measure > limit, equality is allowed), and whether a limit of 0 is falsy (= no limit) -/
def modelChecks : List (String × String × Bool) := [
  (Err.outputLimit.pyName, "Gt", false),     -- LimitedStringIO.write
  (Err.nsLimit.pyName, "Gt", true),          -- RenderContext.assign
  (Err.loopLimit.pyName, "Gt", true),        -- RenderContext.raise_for_loop_limit
  (Err.contextDepth.pyName, "Gt", false),    -- RenderContext.extend
  (Err.contextDepth.pyName, "Gt", false),    -- RenderContext.copy
  (Err.blockNesting.pyName, "Gt", false)     -- Parser.parse_block
]

end LiquidVerif.Limits
