import LiquidVerif.Model.Mode
/-! Helper lemmas for C03 (`Model/Mode.lean`): dispatch by mode, the three passes over the parse functions
(never raises / log invariants / strict-success agreement) and the same for rendering. -/
namespace LiquidVerif.Mode

variable {σ : Type}

def Cfg.withMode (c : Cfg σ) (m : Mode) : Cfg σ := { c with mode := m }

@[simp] theorem withMode_mode (c : Cfg σ) (m) : (c.withMode m).mode = m := rfl
@[simp] theorem withMode_tags (c : Cfg σ) (m) : (c.withMode m).tags = c.tags := rfl
@[simp] theorem withMode_warnTable (c : Cfg σ) (m) : (c.withMode m).warnTable = c.warnTable := rfl
@[simp] theorem withMode_syntaxClasses (c : Cfg σ) (m) : (c.withMode m).syntaxClasses = c.syntaxClasses := rfl
@[simp] theorem withMode_nestLimit (c : Cfg σ) (m) : (c.withMode m).nestLimit = c.nestLimit := rfl
@[simp] theorem withMode_depthLimit (c : Cfg σ) (m) : (c.withMode m).depthLimit = c.depthLimit := rfl
@[simp] theorem withMode_loader (c : Cfg σ) (m) : (c.withMode m).loader = c.loader := rfl

/-! ### `Environment.error` -/

theorem error_strict (c : Cfg σ) (h : c.mode = .strict) (log : Log) (e : Err) : c.error log e = .error e := by
  simp [Cfg.error, h]

theorem error_warn (c : Cfg σ) (h : c.mode = .warn) (log : Log) (e : Err) :
    c.error log e = .ok { suppressed := log.suppressed ++ [e], warnings := log.warnings ++ [lookupWarning c.warnTable e] } := by
  simp [Cfg.error, h]

theorem error_lax (c : Cfg σ) (h : c.mode = .lax) (log : Log) (e : Err) :
    c.error log e = .ok { log with suppressed := log.suppressed ++ [e] } := by
  simp [Cfg.error, h]

theorem error_ok_of_not_strict (c : Cfg σ) (h : c.mode ≠ .strict) (log : Log) (e : Err) :
    ∃ log', c.error log e = .ok log' := by
  cases hm : c.mode with
  | strict => exact absurd hm h
  | warn => exact ⟨_, error_warn c hm log e⟩
  | lax => exact ⟨_, error_lax c hm log e⟩

theorem error_ok_not_strict (c : Cfg σ) {log log' : Log} {e : Err} (h : c.error log e = .ok log') : c.mode ≠ .strict := by
  intro hm; rw [error_strict c hm] at h; cases h

theorem error_error (c : Cfg σ) {log : Log} {e e' : Err} (h : c.error log e = .error e') : c.mode = .strict ∧ e' = e := by
  unfold Cfg.error at h
  split at h
  · simp at h; exact ⟨by assumption, h.symm⟩
  · split at h <;> simp at h

/-! ### Pass 1: outside strict mode nothing raises -/

theorem getNode_ok (c : Cfg σ) (h : c.mode ≠ .strict) (k : TagKind) (ts : List (Tok σ)) (r : R (Node σ)) :
    ∃ x, getNode c k ts r = .ok x := by
  unfold getNode
  cases hr : r.res with
  | ok n => exact ⟨_, rfl⟩
  | error e =>
    obtain ⟨log', hl⟩ := error_ok_of_not_strict c h r.ps.log e
    simp [hl]

theorem dispatch_ok (c : Cfg σ) (h : c.mode ≠ .strict) (pb : ParseBlockFn σ) (ts : List (Tok σ)) (ps : PS) :
    ∃ x, dispatch c pb ts ps = .ok x := by
  unfold dispatch
  split
  · exact getNode_ok c h _ _ _
  · split <;> exact getNode_ok c h _ _ _
  · exact getNode_ok c h _ _ _

theorem loopFrom_ok (c : Cfg σ) (h : c.mode ≠ .strict) (gn : GetNodeFn σ) (ends : Option (List String)) :
    ∀ (ts : List (Tok σ)) (skip : Nat) (ps : PS), ∃ x, loopFrom c gn ends skip ts ps = .ok x := by
  intro ts
  induction ts with
  | nil => intro skip ps; exact ⟨([], 0, ps), by simp [loopFrom]⟩
  | cons t rest ih =>
    intro skip ps
    cases skip with
    | succ k =>
      obtain ⟨⟨ns, cnt, ps'⟩, hx⟩ := ih k ps
      simp [loopFrom, hx]
    | zero =>
      simp only [loopFrom]
      cases hstop : stopsAt ends t with
      | true => exact ⟨([], 0, ps), by simp⟩
      | false =>
        simp only [Bool.false_eq_true, if_false]
        cases hg : gn (t :: rest) ps with
        | ok r =>
          obtain ⟨n, adv, ps'⟩ := r
          obtain ⟨⟨ns, cnt, ps''⟩, hx⟩ := ih adv ps'
          simp [hx]
        | error e =>
          obtain ⟨log', hl⟩ := error_ok_of_not_strict c h ps.log e
          obtain ⟨⟨ns, cnt, ps''⟩, hx⟩ := ih 0 { ps with log := log' }
          simp [hl, hx]

theorem parseTemplate_ok (c : Cfg σ) (h : c.mode ≠ .strict) (ts : List (Tok σ)) (log : Log) :
    ∃ x, parseTemplate c ts log = .ok x := by
  unfold parseTemplate
  obtain ⟨⟨ns, cnt, ps⟩, hx⟩ := loopFrom_ok c h (dispatch c (parseBlock c c.nestLimit)) none ts 0 ⟨log, 0⟩
  simp [hx]


/-! ### Pass 2: any predicate on the log that `error` preserves is preserved by parsing -/

/-- `P` is stable under `Environment.error` -/
def Stable (c : Cfg σ) (P : Log → Prop) : Prop := ∀ log e log', P log → c.error log e = .ok log' → P log'

def PBInv (P : Log → Prop) (pb : ParseBlockFn σ) : Prop := ∀ ends ts ps, P ps.log → P (pb ends ts ps).ps.log
def GNInv (P : Log → Prop) (gn : GetNodeFn σ) : Prop := ∀ ts ps n adv ps', P ps.log → gn ts ps = .ok (n, adv, ps') → P ps'.log

theorem getNode_inv (c : Cfg σ) {P} (hP : Stable c P) (k : TagKind) (ts : List (Tok σ)) (r : R (Node σ)) (n adv ps')
    (h0 : P r.ps.log) (h : getNode c k ts r = .ok (n, adv, ps')) : P ps'.log := by
  unfold getNode at h
  cases hr : r.res with
  | ok n => simp [hr] at h; obtain ⟨_, _, h⟩ := h; subst h; exact h0
  | error e =>
    simp only [hr] at h
    cases hl : c.error r.ps.log e with
    | error e' => simp [hl] at h
    | ok log' => simp [hl] at h; obtain ⟨_, _, h⟩ := h; subst h; exact hP _ _ _ h0 hl

theorem parseBlockTag_inv (c : Cfg σ) {P} {pb : ParseBlockFn σ} (hpb : PBInv P pb) (endName hasElse mk) (ts : List (Tok σ)) (ps : PS)
    (h0 : P ps.log) : P (parseBlockTag c pb endName hasElse mk ts ps).ps.log := by
  unfold parseBlockTag PBInv at *
  repeat' split
  all_goals grind

def ElsifOut.ps : ElsifOut σ → PS
  | .alts _ _ ps => ps
  | .illegal _ ps => ps
  | .raised _ _ ps => ps

theorem elsifLoop_inv (c : Cfg σ) {P} (hP : Stable c P) {pb : ParseBlockFn σ} (hpb : PBInv P pb) (ends : List String) :
    ∀ (ts : List (Tok σ)) (skip : Nat) (ps : PS), P ps.log → P (elsifLoop c pb ends skip ts ps).ps.log := by
  intro ts
  induction ts with
  | nil => intro skip ps h0; simpa [elsifLoop, ElsifOut.ps] using h0
  | cons t rest ih =>
    intro skip ps h0
    cases skip with
    | succ k =>
      have := ih k ps h0
      simp only [elsifLoop]
      split <;> simp_all [ElsifOut.ps]
    | zero =>
      simp only [elsifLoop]
      unfold PBInv Stable at *
      repeat' split
      all_goals grind [ElsifOut.ps]

theorem parseCond_inv (c : Cfg σ) {P} (hP : Stable c P) {pb : ParseBlockFn σ} (hpb : PBInv P pb) (endName negate)
    (ts : List (Tok σ)) (ps : PS) (h0 : P ps.log) : P (parseCond c pb endName negate ts ps).ps.log := by
  have hel := elsifLoop_inv c hP hpb [endName, "elsif", "else"]
  unfold parseCond PBInv at *
  repeat' split
  all_goals grind [ElsifOut.ps]

theorem parsePlainBlock_inv {P} {pb : ParseBlockFn σ} (hpb : PBInv P pb) (endName) (ts : List (Tok σ)) (ps : PS)
    (h0 : P ps.log) : P (parsePlainBlock pb endName ts ps).ps.log := by
  unfold parsePlainBlock PBInv at *
  repeat' split
  all_goals grind

theorem whenLoop_inv (c : Cfg σ) {P} {pb : ParseBlockFn σ} (hpb : PBInv P pb) (endName : String) :
    ∀ (ts : List (Tok σ)) (skip : Nat) (ps : PS), P ps.log → P (whenLoop c pb endName skip ts ps).ps.log := by
  intro ts
  induction ts with
  | nil => intro skip ps h0; simpa [whenLoop] using h0
  | cons t rest ih =>
    intro skip ps h0
    cases skip with
    | succ k =>
      have := ih k ps h0
      simp only [whenLoop]
      repeat' split
      all_goals grind
    | zero =>
      simp only [whenLoop]
      unfold PBInv at *
      repeat' split
      all_goals grind

theorem parseCase_inv (c : Cfg σ) {P} {pb : ParseBlockFn σ} (hpb : PBInv P pb) (endName)
    (ts : List (Tok σ)) (ps : PS) (h0 : P ps.log) : P (parseCase c pb endName ts ps).ps.log := by
  have hw := whenLoop_inv c hpb endName
  unfold parseCase
  dsimp only
  repeat' split
  all_goals grind

theorem dispatch_inv (c : Cfg σ) {P} (hP : Stable c P) {pb : ParseBlockFn σ} (hpb : PBInv P pb) : GNInv P (dispatch c pb) := by
  intro ts ps n adv ps' h0 h
  unfold dispatch at h
  split at h
  · exact getNode_inv c hP _ _ _ _ _ _ (by simpa [parseOutput] using (by split <;> exact h0)) h
  · split at h
    · refine getNode_inv c hP _ _ _ _ _ _ ?_ h; unfold parseEvalTag; repeat' split
      all_goals exact h0
    · exact getNode_inv c hP _ _ _ _ _ _ h0 h
    · refine getNode_inv c hP _ _ _ _ _ _ ?_ h; unfold parseEvalTag; repeat' split
      all_goals exact h0
    · refine getNode_inv c hP _ _ _ _ _ _ ?_ h; unfold parseEvalTag; repeat' split
      all_goals exact h0
    · exact getNode_inv c hP _ _ _ _ _ _ (parseBlockTag_inv c hpb _ _ _ _ _ h0) h
    · exact getNode_inv c hP _ _ _ _ _ _ (parseBlockTag_inv c hpb _ _ _ _ _ h0) h
    · exact getNode_inv c hP _ _ _ _ _ _ (parseCond_inv c hP hpb _ _ _ _ h0) h
    · exact getNode_inv c hP _ _ _ _ _ _ (parseCase_inv c hpb _ _ _ h0) h
    · exact getNode_inv c hP _ _ _ _ _ _ (parseBlockTag_inv c hpb _ _ _ _ _ h0) h
    · exact getNode_inv c hP _ _ _ _ _ _ (parsePlainBlock_inv hpb _ _ _ h0) h
    · refine getNode_inv c hP _ _ _ _ _ _ ?_ h; unfold parseIllegal; repeat' split
      all_goals exact h0
  · refine getNode_inv c hP _ _ _ _ _ _ ?_ h; unfold parseContent; repeat' split
    all_goals exact h0

theorem loopFrom_inv (c : Cfg σ) {P} (hP : Stable c P) {gn : GetNodeFn σ} (hgn : GNInv P gn) (ends : Option (List String)) :
    ∀ (ts : List (Tok σ)) (skip : Nat) (ps : PS) ns cnt ps', P ps.log → loopFrom c gn ends skip ts ps = .ok (ns, cnt, ps') → P ps'.log := by
  intro ts
  induction ts with
  | nil => intro skip ps ns cnt ps' h0 h; simp [loopFrom] at h; obtain ⟨_, _, h⟩ := h; subst h; exact h0
  | cons t rest ih =>
    intro skip ps ns cnt ps' h0 h
    cases skip with
    | succ k =>
      simp only [loopFrom] at h
      split at h
      · rename_i heq; simp at h; obtain ⟨_, _, h⟩ := h; subst h; exact ih k ps _ _ _ h0 heq
      · simp at h
    | zero =>
      simp only [loopFrom] at h
      unfold GNInv Stable at *
      repeat' split at h
      all_goals grind

theorem parseBlock_inv (c : Cfg σ) {P} (hP : Stable c P) : ∀ b, PBInv P (parseBlock c b : ParseBlockFn σ) := by
  intro b
  induction b with
  | zero => intro ends ts ps h0; simpa [parseBlock] using h0
  | succ b ih =>
    intro ends ts ps h0
    simp only [parseBlock]
    split
    · exact h0
    · have := loopFrom_inv c hP (dispatch_inv c hP ih) (some ends) ts 0 ps
      split
      · rename_i heq; exact this _ _ _ h0 heq
      · exact h0

theorem parseTemplate_inv (c : Cfg σ) {P} (hP : Stable c P) (ts : List (Tok σ)) (log : Log) (r) (h0 : P log)
    (h : parseTemplate c ts log = .ok r) : P r.2 := by
  unfold parseTemplate at h
  split at h
  · rename_i heq
    simp at h; subst h
    exact loopFrom_inv c hP (dispatch_inv c hP (parseBlock_inv c hP _)) none ts 0 ⟨log, 0⟩ _ _ _ h0 heq
  · simp at h

/-! ### Pass 3: a strict-mode success is reproduced verbatim in every mode -/

theorem PBeh.parse_strict_none {b : PBeh} (h : b.parse .strict = none) (m : Mode) : b.parse m = none := by
  cases b <;> simp_all [PBeh.parse]

theorem intoInner_agree (c : Cfg σ) (m : Mode) (eat : Bool) (ts : List (Tok σ)) (e a)
    (h : intoInner (c.withMode .strict) eat ts = (.ok e, a)) : intoInner (c.withMode m) eat ts = (.ok e, a) := by
  unfold intoInner at *
  split at h
  · rename_i e' _
    simp only [withMode_mode] at *
    cases hp : e'.beh.parse .strict with
    | some err => simp [hp] at h
    | none => rw [hp] at h; rw [PBeh.parse_strict_none hp m]; exact h
  · simp at h

def PBAgree (pbS pbM : ParseBlockFn σ) : Prop := ∀ ends ts ps x, (pbS ends ts ps).res = .ok x → pbM ends ts ps = pbS ends ts ps
def GNAgree (gnS gnM : GetNodeFn σ) : Prop := ∀ ts ps r, gnS ts ps = .ok r → gnM ts ps = .ok r

theorem getNode_strict_ok (c : Cfg σ) (k : TagKind) (ts : List (Tok σ)) (r : R (Node σ)) (x)
    (h : getNode (c.withMode .strict) k ts r = .ok x) : ∃ n, r.res = .ok n ∧ x = (n, r.adv, r.ps) := by
  unfold getNode at h
  cases hr : r.res with
  | ok n => simp [hr] at h; exact ⟨n, rfl, h.symm⟩
  | error e => simp [hr, error_strict (c.withMode .strict) rfl] at h

theorem getNode_agree (c : Cfg σ) (m : Mode) (k : TagKind) (ts : List (Tok σ)) (rS rM : R (Node σ)) (x)
    (hr : ∀ n, rS.res = .ok n → rM = rS)
    (h : getNode (c.withMode .strict) k ts rS = .ok x) : getNode (c.withMode m) k ts rM = .ok x := by
  obtain ⟨n, hn, rfl⟩ := getNode_strict_ok c k ts rS x h
  rw [hr n hn]
  simp [getNode, hn]

theorem parseOutput_agree (c : Cfg σ) (m : Mode) (ts : List (Tok σ)) (ps : PS) (n)
    (h : (parseOutput (c.withMode .strict) ts ps).res = .ok n) :
    parseOutput (c.withMode m) ts ps = parseOutput (c.withMode .strict) ts ps := by
  unfold parseOutput at *
  cases hi : intoInner (c.withMode .strict) false (ts.drop 1) with
  | mk r a =>
    cases r with
    | error e => rw [hi] at h; simp at h
    | ok e => rw [intoInner_agree c m _ _ _ _ hi]

theorem parseEvalTag_agree (c : Cfg σ) (m : Mode) (z mk) (ts : List (Tok σ)) (ps : PS) (n)
    (h : (parseEvalTag (c.withMode .strict) z mk ts ps).res = .ok n) :
    parseEvalTag (c.withMode m) z mk ts ps = parseEvalTag (c.withMode .strict) z mk ts ps := by
  unfold parseEvalTag at *
  split
  · rfl
  · rename_i hz
    simp only [hz] at h
    cases hi : intoInner (c.withMode .strict) false (ts.drop 1) with
    | mk r a =>
        cases r with
      | error e => rw [hi] at h; simp at h
      | ok e => rw [intoInner_agree c m _ _ _ _ hi]

theorem parseBlockTag_agree (c : Cfg σ) (m : Mode) {pbS pbM : ParseBlockFn σ} (hpb : PBAgree pbS pbM) (endName hasElse mk)
    (ts : List (Tok σ)) (ps : PS) (n)
    (h : (parseBlockTag (c.withMode .strict) pbS endName hasElse mk ts ps).res = .ok n) :
    parseBlockTag (c.withMode m) pbM endName hasElse mk ts ps = parseBlockTag (c.withMode .strict) pbS endName hasElse mk ts ps := by
  have hi := intoInner_agree c m true (ts.drop 1)
  unfold parseBlockTag PBAgree at *
  repeat' split at h
  all_goals grind

/-- in strict mode the elsif loop never takes the recovery exit -/
theorem elsifLoop_strict_not_illegal (c : Cfg σ) (pb : ParseBlockFn σ) (ends : List String) :
    ∀ (ts : List (Tok σ)) (skip : Nat) (ps : PS) a ps', elsifLoop (c.withMode .strict) pb ends skip ts ps ≠ .illegal a ps' := by
  intro ts
  induction ts with
  | nil => intro skip ps a ps'; simp [elsifLoop]
  | cons t rest ih =>
    intro skip ps a ps'
    cases skip with
    | succ k =>
      simp only [elsifLoop]
      have := ih k ps
      split <;> simp_all
    | zero =>
      simp only [elsifLoop]
      have hs := error_strict (c.withMode .strict) rfl
      repeat' split
      all_goals grind

theorem elsifLoop_agree (c : Cfg σ) (m : Mode) {pbS pbM : ParseBlockFn σ} (hpb : PBAgree pbS pbM) (ends : List String) :
    ∀ (ts : List (Tok σ)) (skip : Nat) (ps : PS) as a ps',
      elsifLoop (c.withMode .strict) pbS ends skip ts ps = .alts as a ps' →
      elsifLoop (c.withMode m) pbM ends skip ts ps = .alts as a ps' := by
  intro ts
  induction ts with
  | nil => intro skip ps as a ps' h; simpa [elsifLoop] using h
  | cons t rest ih =>
    intro skip ps as a ps' h
    cases skip with
    | succ k =>
      simp only [elsifLoop] at h ⊢
      have := ih k ps
      split at h <;> grind
    | zero =>
      have hi := intoInner_agree c m true rest
      simp only [elsifLoop] at h ⊢
      unfold PBAgree at hpb
      repeat' split at h
      all_goals grind

theorem parseCond_agree (c : Cfg σ) (m : Mode) {pbS pbM : ParseBlockFn σ} (hpb : PBAgree pbS pbM) (endName negate)
    (ts : List (Tok σ)) (ps : PS) (n)
    (h : (parseCond (c.withMode .strict) pbS endName negate ts ps).res = .ok n) :
    parseCond (c.withMode m) pbM endName negate ts ps = parseCond (c.withMode .strict) pbS endName negate ts ps := by
  have hi := intoInner_agree c m true (ts.drop 1)
  have hel := elsifLoop_agree c m hpb [endName, "elsif", "else"]
  have hni := elsifLoop_strict_not_illegal c pbS [endName, "elsif", "else"]
  unfold parseCond PBAgree at *
  dsimp only at h ⊢
  repeat' split at h
  all_goals grind

theorem parsePlainBlock_agree {pbS pbM : ParseBlockFn σ} (hpb : PBAgree pbS pbM) (endName) (ts : List (Tok σ)) (ps : PS) (n)
    (h : (parsePlainBlock pbS endName ts ps).res = .ok n) :
    parsePlainBlock pbM endName ts ps = parsePlainBlock pbS endName ts ps := by
  unfold parsePlainBlock PBAgree at *
  repeat' split at h
  all_goals grind

theorem whenLoop_agree (c : Cfg σ) (m : Mode) {pbS pbM : ParseBlockFn σ} (hpb : PBAgree pbS pbM) (endName : String) :
    ∀ (ts : List (Tok σ)) (skip : Nat) (ps : PS) x,
      (whenLoop (c.withMode .strict) pbS endName skip ts ps).res = .ok x →
      whenLoop (c.withMode m) pbM endName skip ts ps = whenLoop (c.withMode .strict) pbS endName skip ts ps := by
  intro ts
  induction ts with
  | nil => intro skip ps x h; simp [whenLoop]
  | cons t rest ih =>
    intro skip ps x h
    cases skip with
    | succ k =>
      simp only [whenLoop] at h ⊢
      have := ih k ps
      repeat' split at h
      all_goals grind
    | zero =>
      have hi := intoInner_agree c m true rest
      simp only [whenLoop] at h ⊢
      unfold PBAgree at hpb
      repeat' split at h
      all_goals grind

theorem parseCase_agree (c : Cfg σ) (m : Mode) {pbS pbM : ParseBlockFn σ} (hpb : PBAgree pbS pbM) (endName)
    (ts : List (Tok σ)) (ps : PS) (n)
    (h : (parseCase (c.withMode .strict) pbS endName ts ps).res = .ok n) :
    parseCase (c.withMode m) pbM endName ts ps = parseCase (c.withMode .strict) pbS endName ts ps := by
  have hi := intoInner_agree c m true (ts.drop 1)
  have hw := whenLoop_agree c m hpb endName
  unfold parseCase at *
  dsimp only at h ⊢
  repeat' split at h
  all_goals grind

theorem dispatch_agree (c : Cfg σ) (m : Mode) {pbS pbM : ParseBlockFn σ} (hpb : PBAgree pbS pbM) :
    GNAgree (dispatch (c.withMode .strict) pbS) (dispatch (c.withMode m) pbM) := by
  intro ts ps r h
  unfold dispatch at h ⊢
  split at h
  · exact getNode_agree c m _ _ _ _ _ (fun n hn => parseOutput_agree c m _ _ n hn) h
  · simp only [withMode_tags] at h ⊢
    split at h
    · exact getNode_agree c m _ _ _ _ _ (fun n hn => parseEvalTag_agree c m _ _ _ _ n hn) h
    · exact getNode_agree c m _ _ _ _ _ (fun n hn => rfl) h
    · exact getNode_agree c m _ _ _ _ _ (fun n hn => parseEvalTag_agree c m _ _ _ _ n hn) h
    · exact getNode_agree c m _ _ _ _ _ (fun n hn => parseEvalTag_agree c m _ _ _ _ n hn) h
    · exact getNode_agree c m _ _ _ _ _ (fun n hn => parseBlockTag_agree c m hpb _ _ _ _ _ n hn) h
    · exact getNode_agree c m _ _ _ _ _ (fun n hn => parseBlockTag_agree c m hpb _ _ _ _ _ n hn) h
    · exact getNode_agree c m _ _ _ _ _ (fun n hn => parseCond_agree c m hpb _ _ _ _ n hn) h
    · exact getNode_agree c m _ _ _ _ _ (fun n hn => parseCase_agree c m hpb _ _ _ n hn) h
    · exact getNode_agree c m _ _ _ _ _ (fun n hn => parseBlockTag_agree c m hpb _ _ _ _ _ n hn) h
    · exact getNode_agree c m _ _ _ _ _ (fun n hn => parsePlainBlock_agree hpb _ _ _ n hn) h
    · exact getNode_agree c m _ _ _ _ _ (fun n hn => rfl) h
  · exact getNode_agree c m _ _ _ _ _ (fun n hn => rfl) h

theorem loopFrom_agree (c : Cfg σ) (m : Mode) {gnS gnM : GetNodeFn σ} (hgn : GNAgree gnS gnM) (ends : Option (List String)) :
    ∀ (ts : List (Tok σ)) (skip : Nat) (ps : PS) r,
      loopFrom (c.withMode .strict) gnS ends skip ts ps = .ok r → loopFrom (c.withMode m) gnM ends skip ts ps = .ok r := by
  intro ts
  induction ts with
  | nil => intro skip ps r h; simpa [loopFrom] using h
  | cons t rest ih =>
    intro skip ps r h
    cases skip with
    | succ k =>
      simp only [loopFrom] at h ⊢
      have := ih k ps
      split at h <;> grind
    | zero =>
      have hs := error_strict (c.withMode .strict) rfl
      simp only [loopFrom] at h ⊢
      unfold GNAgree at hgn
      repeat' split at h
      all_goals grind

theorem parseBlock_agree (c : Cfg σ) (m : Mode) : ∀ b, PBAgree (parseBlock (c.withMode .strict) b) (parseBlock (c.withMode m) b : ParseBlockFn σ) := by
  intro b
  induction b with
  | zero => intro ends ts ps x h; simp [parseBlock] at h
  | succ b ih =>
    intro ends ts ps x h
    have hl := loopFrom_agree c m (dispatch_agree c m ih) (some ends) ts 0 ps
    simp only [parseBlock] at h ⊢
    repeat' split at h
    all_goals grind

theorem parseTemplate_agree (c : Cfg σ) (m : Mode) (ts : List (Tok σ)) (log : Log) (r)
    (h : parseTemplate (c.withMode .strict) ts log = .ok r) : parseTemplate (c.withMode m) ts log = .ok r := by
  have hl := loopFrom_agree c m (dispatch_agree c m (parseBlock_agree c m c.nestLimit)) none ts 0 ⟨log, 0⟩
  unfold parseTemplate at h ⊢
  simp only [withMode_nestLimit] at h ⊢
  split at h
  · rename_i heq; rw [hl _ heq]; exact h
  · simp at h

/-! ## Rendering -/

/-- induction over the nested `Node` / `List Node` structure -/
theorem node_ind {P : Node σ → Prop} {Q : List (Node σ) → Prop}
    (text : ∀ s, P (.text s)) (eval : ∀ e, P (.eval e)) (illegal : P .illegal) (interrupt : ∀ b, P (.interrupt b))
    (partial_ : ∀ iso e, P (.partial_ iso e)) (extends_ : ∀ e, P (.extends_ e))
    (cond : ∀ neg c cons alts dflt, Q cons → Q alts → Q dflt → P (.cond neg c cons alts dflt))
    (condBlock : ∀ e body, Q body → P (.condBlock e body))
    (loop : ∀ e body dflt, Q body → Q dflt → P (.loop e body dflt))
    (capture : ∀ e body, Q body → P (.capture e body))
    (case_ : ∀ e blocks, Q blocks → P (.case_ e blocks))
    (whenBlock : ∀ e body, Q body → P (.whenBlock e body))
    (elseBlock : ∀ body, Q body → P (.elseBlock body))
    (scoped_ : ∀ e body, Q body → P (.scoped e body))
    (block : ∀ body, Q body → P (.block body))
    (nil : Q []) (cons : ∀ n ns, P n → Q ns → Q (n :: ns)) : (∀ n, P n) ∧ (∀ ns, Q ns) :=
  ⟨fun n => Node.rec (motive_1 := P) (motive_2 := Q) text eval illegal interrupt partial_ extends_ cond condBlock loop capture case_ whenBlock elseBlock scoped_ block nil cons n,
   fun ns => Node.rec_1 (motive_1 := P) (motive_2 := Q) text eval illegal interrupt partial_ extends_ cond condBlock loop capture case_ whenBlock elseBlock scoped_ block nil cons ns⟩

/-! ### Pass 1: the top-level template loop never lets anything escape outside strict mode -/

theorem templateLoop_top (c : Cfg σ) (rn : Node σ → RS σ → RS σ × Sig) (bs : Bool) :
    ∀ (ns : List (Node σ)) (rs : RS σ),
      (templateLoop c rn false bs ns rs).2 = .done ∨ (c.mode = .strict ∧ ∃ e, (templateLoop c rn false bs ns rs).2 = .err e) := by
  intro ns
  induction ns with
  | nil => intro rs; simp [templateLoop]
  | cons n ns ih =>
    intro rs
    simp only [templateLoop]
    have he := fun log e e' => error_error c (log := log) (e := e) (e' := e')
    repeat' split
    all_goals grind

theorem render_sig (c : Cfg σ) (nodes : List (Node σ)) (st : σ) (log : Log) :
    (render c nodes st log).2 = .done ∨ (c.mode = .strict ∧ ∃ e, (render c nodes st log).2 = .err e) := by
  unfold render
  simp only [renderTemplate]
  exact templateLoop_top c _ false nodes _

/-! ### Pass 2: stable log predicates are preserved by rendering -/

def RTInv (P : Log → Prop) (rt : RenderTemplateFn σ) : Prop := ∀ ns p b rs, P rs.log → P (rt ns p b rs).1.log

theorem evalExpr_log (e : Expr σ) (rs : RS σ) : (evalExpr e rs).1.log = rs.log := rfl

theorem iterate_inv {P : Log → Prop} (body : RS σ → RS σ × Sig) (hb : ∀ rs, P rs.log → P (body rs).1.log) :
    ∀ n rs, P rs.log → P (iterate body n rs).1.log := by
  intro n
  induction n with
  | zero => intro rs h; simpa [iterate] using h
  | succ n ih =>
    intro rs h
    simp only [iterate]
    repeat' split
    all_goals grind

theorem repeatN_inv {P : Log → Prop} (body : RS σ → RS σ × Sig) (hb : ∀ rs, P rs.log → P (body rs).1.log) :
    ∀ n rs, P rs.log → P (repeatN body n rs).1.log := by
  intro n
  induction n with
  | zero => intro rs h; simpa [repeatN] using h
  | succ n ih =>
    intro rs h
    simp only [repeatN]
    repeat' split
    all_goals grind

theorem renderNode_inv (c : Cfg σ) {P} (hP : Stable c P) {rt : RenderTemplateFn σ} (hrt : RTInv P rt) :
    (∀ n : Node σ, ∀ rs, P rs.log → P (renderNode c rt n rs).1.log) ∧
    (∀ ns : List (Node σ), (∀ rs, P rs.log → P (renderList c rt ns rs).1.log) ∧ (∀ rs, P rs.log → P (renderAlts c rt ns rs).1.log) ∧
      (∀ d rs, P rs.log → P (renderCase c rt ns d rs).1.log)) := by
  have hpt := fun ts log r => parseTemplate_inv c hP ts log r
  have hev := @evalExpr_log σ
  unfold RTInv at hrt
  apply node_ind
  case text => intro s rs h; simpa [renderNode] using h
  case eval =>
    intro e rs h; simp only [renderNode]
    split <;> grind
  case illegal => intro rs h; simpa [renderNode] using h
  case interrupt => intro b rs h; simpa [renderNode] using h
  case partial_ =>
    intro iso e rs h; simp only [renderNode]
    repeat' split
    all_goals grind
  case extends_ =>
    intro e rs h; simp only [renderNode]
    repeat' split
    all_goals grind
  case cond =>
    intro neg cnd cons alts dflt h1 h2 h3 rs h; simp only [renderNode]
    repeat' split
    all_goals grind
  case condBlock =>
    intro e body h1 rs h; simp only [renderNode]
    repeat' split
    all_goals grind
  case loop =>
    intro e body dflt h1 h2 rs h; simp only [renderNode]
    have hit := iterate_inv (P := P) (renderList c rt body) h1.1
    repeat' split
    all_goals grind
  case capture =>
    intro e body h1 rs h; simp only [renderNode]
    have := h1.1 { rs with out := "" } h
    repeat' split
    all_goals grind
  case case_ => intro e blocks h1 rs h; simp only [renderNode]; exact h1.2.2 true rs h
  case whenBlock =>
    intro e body h1 rs h; simp only [renderNode]
    have hr := repeatN_inv (P := P) (renderList c rt body) h1.1
    repeat' split
    all_goals grind
  case elseBlock => intro body h1 rs h; simp only [renderNode]; exact h1.1 rs h
  case scoped_ =>
    intro e body h1 rs h; simp only [renderNode]
    repeat' split
    all_goals grind
  case block => intro body h1 rs h; simp only [renderNode]; exact h1.1 rs h
  case nil => exact ⟨fun rs h => by simpa [renderList] using h, fun rs h => by simpa [renderAlts] using h,
    fun d rs h => by simpa [renderCase] using h⟩
  case cons =>
    intro n ns hn hns
    refine ⟨?_, ?_, ?_⟩
    · intro rs h; simp only [renderList]
      repeat' split
      all_goals grind
    · intro rs h
      cases n <;> simp only [renderAlts] <;> (try exact hns.2.1 rs h)
      rename_i e body
      have hb := hn
      simp only [renderNode] at hb
      repeat' split
      all_goals grind
    · intro d rs h
      cases n <;> simp only [renderCase] <;> (try exact hns.2.2 d rs h)
      all_goals
        have hb := hn
        have hc := hns.2.2
        simp only [renderNode] at hb
        repeat' split
        all_goals grind

theorem templateLoop_inv (c : Cfg σ) {P} (hP : Stable c P) {rn : Node σ → RS σ → RS σ × Sig}
    (hrn : ∀ n rs, P rs.log → P (rn n rs).1.log) (p b : Bool) :
    ∀ (ns : List (Node σ)) rs, P rs.log → P (templateLoop c rn p b ns rs).1.log := by
  intro ns
  induction ns with
  | nil => intro rs h; simpa [templateLoop] using h
  | cons n ns ih =>
    intro rs h
    simp only [templateLoop]
    unfold Stable at hP
    repeat' split
    all_goals grind

theorem renderTemplate_inv (c : Cfg σ) {P} (hP : Stable c P) : ∀ d, RTInv P (renderTemplate c d : RenderTemplateFn σ) := by
  intro d
  induction d with
  | zero => intro ns p b rs h; simpa [renderTemplate] using h
  | succ d ih =>
    intro ns p b rs h
    simp only [renderTemplate]
    exact templateLoop_inv c hP (renderNode_inv c hP ih).1 p b ns rs h

theorem render_inv (c : Cfg σ) {P} (hP : Stable c P) (nodes : List (Node σ)) (st : σ) (log : Log) (h : P log) :
    P (render c nodes st log).1.log :=
  renderTemplate_inv c hP _ nodes false false ⟨st, "", log⟩ h

/-! ### Pass 3: a strict-mode render that raises nothing is reproduced verbatim in every mode -/

def RTAgree (rtS rtM : RenderTemplateFn σ) : Prop := ∀ ns p b rs, (rtS ns p b rs).2.isErr = false → rtM ns p b rs = rtS ns p b rs

theorem iterate_agree (fS fM : RS σ → RS σ × Sig) (hf : ∀ rs, (fS rs).2.isErr = false → fM rs = fS rs) :
    ∀ n rs, (iterate fS n rs).2.isErr = false → iterate fM n rs = iterate fS n rs := by
  intro n
  induction n with
  | zero => intro rs _; simp [iterate]
  | succ n ih =>
    intro rs h
    simp only [iterate] at h ⊢
    cases hs : fS rs with
    | mk rs' s =>
      rw [hs] at h
      have : (fS rs).2.isErr = false := by
        cases s <;> simp_all [Sig.isErr]
      rw [hf rs this, hs]
      cases s <;> simp_all [Sig.isErr]

theorem repeatN_agree (fS fM : RS σ → RS σ × Sig) (hf : ∀ rs, (fS rs).2.isErr = false → fM rs = fS rs) :
    ∀ n rs, (repeatN fS n rs).2.isErr = false → repeatN fM n rs = repeatN fS n rs := by
  intro n
  induction n with
  | zero => intro rs _; simp [repeatN]
  | succ n ih =>
    intro rs h
    simp only [repeatN] at h ⊢
    cases hs : fS rs with
    | mk rs' s =>
      rw [hs] at h
      have : (fS rs).2.isErr = false := by
        cases s <;> simp_all [Sig.isErr]
      rw [hf rs this, hs]
      cases s <;> simp_all [Sig.isErr]

theorem renderNode_agree (c : Cfg σ) (m : Mode) {rtS rtM : RenderTemplateFn σ} (hrt : RTAgree rtS rtM) :
    (∀ n : Node σ, ∀ rs, (renderNode (c.withMode .strict) rtS n rs).2.isErr = false →
        renderNode (c.withMode m) rtM n rs = renderNode (c.withMode .strict) rtS n rs) ∧
    (∀ ns : List (Node σ),
      (∀ rs, (renderList (c.withMode .strict) rtS ns rs).2.isErr = false →
        renderList (c.withMode m) rtM ns rs = renderList (c.withMode .strict) rtS ns rs) ∧
      (∀ rs, (∀ s, (renderAlts (c.withMode .strict) rtS ns rs).2 = some s → s.isErr = false) →
        renderAlts (c.withMode m) rtM ns rs = renderAlts (c.withMode .strict) rtS ns rs) ∧
      (∀ d rs, (renderCase (c.withMode .strict) rtS ns d rs).2.isErr = false →
        renderCase (c.withMode m) rtM ns d rs = renderCase (c.withMode .strict) rtS ns d rs)) := by
  have hpt := fun ts log r => parseTemplate_agree c m ts log r
  unfold RTAgree at hrt
  apply node_ind
  case text => intro s rs _; simp [renderNode]
  case eval => intro e rs _; simp [renderNode]
  case illegal => intro rs _; simp [renderNode]
  case interrupt => intro b rs _; simp [renderNode]
  case partial_ =>
    intro iso e rs h; simp only [renderNode, withMode_loader] at h ⊢
    repeat' split at h
    all_goals grind [Sig.isErr]
  case extends_ =>
    intro e rs h; simp only [renderNode, withMode_loader] at h ⊢
    repeat' split at h
    all_goals grind [Sig.isErr]
  case cond =>
    intro neg cnd cons alts dflt h1 h2 h3 rs h; simp only [renderNode] at h ⊢
    repeat' split at h
    all_goals grind [Sig.isErr]
  case condBlock =>
    intro e body h1 rs h; simp only [renderNode] at h ⊢
    repeat' split at h
    all_goals grind [Sig.isErr]
  case loop =>
    intro e body dflt h1 h2 rs h; simp only [renderNode] at h ⊢
    have hit := iterate_agree (renderList (c.withMode .strict) rtS body) (renderList (c.withMode m) rtM body) h1.1
    repeat' split at h
    all_goals grind [Sig.isErr]
  case capture =>
    intro e body h1 rs h; simp only [renderNode] at h ⊢
    have := h1.1 { rs with out := "" }
    repeat' split at h
    all_goals grind [Sig.isErr]
  case case_ => intro e blocks h1 rs h; simp only [renderNode] at h ⊢; exact h1.2.2 true rs h
  case whenBlock =>
    intro e body h1 rs h; simp only [renderNode] at h ⊢
    have hr := repeatN_agree (renderList (c.withMode .strict) rtS body) (renderList (c.withMode m) rtM body) h1.1
    repeat' split at h
    all_goals grind [Sig.isErr]
  case elseBlock => intro body h1 rs h; simp only [renderNode] at h ⊢; exact h1.1 rs h
  case scoped_ =>
    intro e body h1 rs h; simp only [renderNode] at h ⊢
    repeat' split at h
    all_goals grind [Sig.isErr]
  case block => intro body h1 rs h; simp only [renderNode] at h ⊢; exact h1.1 rs h
  case nil => exact ⟨fun rs _ => by simp [renderList], fun rs _ => by simp [renderAlts], fun d rs _ => by simp [renderCase]⟩
  case cons =>
    intro n ns hn hns
    refine ⟨?_, ?_, ?_⟩
    · intro rs h; simp only [renderList] at h ⊢
      repeat' split at h
      all_goals grind [Sig.isErr]
    · intro rs h
      cases n <;> simp only [renderAlts] at h ⊢ <;> (try exact hns.2.1 rs h)
      rename_i e body
      have hb := hns.1
      have ha := hns.2.1
      have hn' := hn
      simp only [renderNode] at hn'
      repeat' split at h
      all_goals grind [Sig.isErr]
    · intro d rs h
      cases n <;> simp only [renderCase] at h ⊢ <;> (try exact hns.2.2 d rs h)
      all_goals
        have hc := hns.2.2
        have hn' := hn
        simp only [renderNode] at hn'
        repeat' split at h
        all_goals grind [Sig.isErr]

theorem templateLoop_agree (c : Cfg σ) (m : Mode) {rnS rnM : Node σ → RS σ → RS σ × Sig}
    (hrn : ∀ n rs, (rnS n rs).2.isErr = false → rnM n rs = rnS n rs) (p b : Bool) :
    ∀ (ns : List (Node σ)) rs, (templateLoop (c.withMode .strict) rnS p b ns rs).2.isErr = false →
      templateLoop (c.withMode m) rnM p b ns rs = templateLoop (c.withMode .strict) rnS p b ns rs := by
  intro ns
  induction ns with
  | nil => intro rs _; simp [templateLoop]
  | cons n ns ih =>
    intro rs h
    have hs := error_strict (c.withMode .strict) rfl
    simp only [templateLoop] at h ⊢
    cases hx : rnS n rs with
    | mk rs' s =>
      rw [hx] at h
      have h1 : (rnS n rs).2.isErr = false := by
        rw [hx]; cases s <;> simp_all [Sig.isErr]
      rw [hrn n rs h1, hx]
      cases s <;> simp_all [Sig.isErr]
      all_goals (split <;> simp_all)

theorem renderTemplate_agree (c : Cfg σ) (m : Mode) :
    ∀ d, RTAgree (renderTemplate (c.withMode .strict) d) (renderTemplate (c.withMode m) d : RenderTemplateFn σ) := by
  intro d
  induction d with
  | zero => intro ns p b rs h; simp [renderTemplate, Sig.isErr] at h
  | succ d ih =>
    intro ns p b rs h
    simp only [renderTemplate] at h ⊢
    exact templateLoop_agree c m (renderNode_agree c m ih).1 p b ns rs h

theorem render_agree (c : Cfg σ) (m : Mode) (nodes : List (Node σ)) (st : σ) (log : Log)
    (h : (render (c.withMode .strict) nodes st log).2.isErr = false) :
    render (c.withMode m) nodes st log = render (c.withMode .strict) nodes st log := by
  unfold render at h ⊢
  exact renderTemplate_agree c m _ nodes false false _ h

end LiquidVerif.Mode
