import LiquidVerif.Lemmas.Analysis
/-! C19: the simulation between `_visit` and the textual context, by mutual structural induction. -/

namespace LiquidVerif.Analysis

theorem not_contains_of_fresh {seen : List (Name × Key)} {name : Name} (k : Key)
    (h : ∀ k, (name, k) ∉ seen) : seen.contains (name, k) = false := by
  cases hc : seen.contains (name, k) with
  | false => rfl
  | true => exact absurd (List.contains_iff_mem.1 hc) (h k)

theorem not_any_of_fresh {seen : List (Name × Key)} {name : Name}
    (h : ∀ k, (name, k) ∉ seen) : seen.any (·.1 == name) = false := by
  cases hc : seen.any (·.1 == name) with
  | false => rfl
  | true =>
    obtain ⟨p, hp, hpe⟩ := List.any_eq_true.1 hc
    have : p.1 = name := by simpa using hpe
    exact absurd (by rw [← this]; exact hp) (h p.2)

mutual
theorem visitNode_ok (n : Node) (tmpl : Name) (st : St) (A K : List Name) (dis : Bool)
    (hfresh : ∀ nm ∈ partNamesNode n, ∀ k, (nm, k) ∉ st.seen)
    (hnd : (partNamesNode n).Nodup)
    (htm : tmpl ∉ partNamesNode n)
    (hdead : noDeadIncNode n dis = true)
    (hiso : dis = false → st.inIso = false)
    (hag : Agree st.cur A K) :
    Ok st (visitNode n tmpl false st) tmpl (partNamesNode n) (assignedNode n) (reachNode n tmpl A K dis) := by
  match n with
  | .plain h cs =>
    obtain ⟨a1, a2, a3, a4, a5, a6, _, a8⟩ := hdrStep_ok h tmpl st A K hag
    simp only [partNamesNode] at hfresh hnd htm
    simp only [noDeadIncNode] at hdead
    have ih := visitNodes_ok cs tmpl ((hdrStep h tmpl false st).modCur (·.push h.bscope))
      (A ++ h.tscope) (K ++ h.bscope) (dis || h.seals)
      (by
        intro nm hnm k hk
        rw [St.seen_modCur] at hk
        rcases a6 _ hk with h' | h'
        · exact hfresh nm hnm k h'
        · exact htm (by have := congrArg Prod.fst h'; simp at this; rw [← this]; exact hnm))
      hnd htm hdead
      (by
        intro hd
        rw [St.inIso_modCur, a1]
        exact hiso (by cases dis <;> simp_all))
      (by
        rw [St.cur_modCur]
        exact (hag.step a3 a4).push h.bscope)
    simp only [visitNode, partNamesNode, assignedNode, reachNode]
    refine
      { inIso := by rw [St.inIso_modCur, ih.inIso, St.inIso_modCur, a1]
        root := fun hi => by
          have h1 : (hdrStep h tmpl false st).inIso = true := by rw [a1]; exact hi
          have h2 : ((hdrStep h tmpl false st).modCur (·.push h.bscope)).inIso = true := by
            rw [St.inIso_modCur]; exact h1
          rw [St.root_modCur _ _ (by rw [ih.inIso]; exact h2), ih.root h2, St.root_modCur _ _ h1, a2 hi]
        blocks := by
          rw [St.cur_modCur, Scope.pop, ih.blocks, St.cur_modCur]
          simp [Scope.push, a3]
        base := fun x => by
          rw [St.cur_modCur]
          show x ∈ (visitNodes cs tmpl false _).cur.base ↔ _
          rw [ih.base x, St.cur_modCur]
          simp only [Scope.push, List.mem_append]
          rw [a4 x]; grind
        mono := by
          refine (a5.trans ?_).trans (ih.mono.trans ?_)
          · exact Mono.of_eq (St.vars_modCur _ _) (St.globs_modCur _ _) (St.filters_modCur _ _) (St.tags_modCur _ _)
          · exact Mono.of_eq (St.vars_modCur _ _) (St.globs_modCur _ _) (St.filters_modCur _ _) (St.tags_modCur _ _)
        seen := fun p hp => by
          rw [St.seen_modCur] at hp
          rcases ih.seen p hp with h' | h' | h'
          · rw [St.seen_modCur] at h'
            rcases a6 p h' with h'' | h''
            · exact Or.inl h''
            · exact Or.inr (Or.inl (by rw [h'']))
          · exact Or.inr (Or.inl h')
          · exact Or.inr (Or.inr h')
        evs := fun e he => by
          have hm : Mono (visitNodes cs tmpl false ((hdrStep h tmpl false st).modCur (·.push h.bscope)))
              ((visitNodes cs tmpl false ((hdrStep h tmpl false st).modCur (·.push h.bscope))).modCur (·.pop)) :=
            Mono.of_eq (St.vars_modCur _ _) (St.globs_modCur _ _) (St.filters_modCur _ _) (St.tags_modCur _ _)
          rcases List.mem_append.1 he with h' | h'
          · refine evOk_mono (Mono.trans ?_ (ih.mono.trans hm)) e (a8 e h')
            exact Mono.of_eq (St.vars_modCur _ _) (St.globs_modCur _ _) (St.filters_modCur _ _) (St.tags_modCur _ _)
          · exact evOk_mono hm e (ih.evs e h') }
  | .part h iso name argNames bound body =>
    obtain ⟨a1, a2, a3, a4, a5, a6, a7, a8⟩ := hdrStep_ok h tmpl st A K hag
    simp only [partNamesNode] at hfresh hnd htm
    simp only [noDeadIncNode, Bool.and_eq_true] at hdead
    have hname_fresh : ∀ k, (name, k) ∉ (hdrStep h tmpl false st).seen := by
      intro k hk
      rcases a6 _ hk with h' | h'
      · exact hfresh name List.mem_cons_self k h'
      · have : name = tmpl := by simpa using congrArg Prod.fst h'
        exact htm (this ▸ List.mem_cons_self)
    have hc := not_contains_of_fresh (partKey iso name argNames) hname_fresh
    have hany := not_any_of_fresh hname_fresh
    have hnd' := List.nodup_cons.1 hnd
    have htm' : (if name = "" then tmpl else name) ∉ partNamesNodes body := by
      split
      · exact fun hh => htm (List.mem_cons_of_mem _ hh)
      · exact hnd'.1
    have hfresh' : ∀ (S : St), S.seen = (name, partKey iso name argNames) :: (hdrStep h tmpl false st).seen →
        ∀ nm ∈ partNamesNodes body, ∀ k, (nm, k) ∉ S.seen := by
      intro S hS nm hnm k hk
      rw [hS] at hk
      rcases List.mem_cons.1 hk with h' | h'
      · have : nm = name := by simpa using congrArg Prod.fst h'
        exact hnd'.1 (this ▸ hnm)
      · rcases a6 _ h' with h'' | h''
        · exact hfresh nm (List.mem_cons_of_mem _ hnm) k h''
        · have : nm = tmpl := by simpa using congrArg Prod.fst h''
          exact htm (List.mem_cons_of_mem _ (this ▸ hnm))
    cases iso with
    | true =>
      simp only [visitNode, hc, hany, assignedNode, reachNode, partNamesNode, Bool.false_eq_true, if_false,
        if_true, Bool.or_false, Bool.not_true, Bool.false_and, List.append_nil]
      have ih := visitNodes_ok body (if name = "" then tmpl else name)
        (enterIso (addSeen (hdrStep h tmpl false st) (name, partKey true name argNames)) (argNames ++ bound.toList))
        [] (argNames ++ bound.toList) true
        (hfresh' _ rfl) hnd'.2 htm'
        (by have := hdead.2; simpa using this)
        (fun hd => by simp at hd)
        (by
          intro x
          rw [Scope.has_iff]
          show (x ∈ argNames ++ bound.toList ∨ ∃ b ∈ ([] : List (List Name)), x ∈ b) ↔ _
          simp)
      have hS : ∀ (S : St), (leaveIso S (addSeen (hdrStep h tmpl false st) (name, partKey true name argNames))).cur
          = if st.inIso then (hdrStep h tmpl false st).iso else S.root := by
        intro S; unfold St.cur leaveIso addSeen; simp [a1]
      have hcur : (leaveIso (visitNodes body (if name = "" then tmpl else name) false
            (enterIso (addSeen (hdrStep h tmpl false st) (name, partKey true name argNames)) (argNames ++ bound.toList)))
            (addSeen (hdrStep h tmpl false st) (name, partKey true name argNames))).cur = (hdrStep h tmpl false st).cur := by
        rw [hS, ih.root rfl]
        unfold St.cur; rw [a1]; rfl
      have hm1 : Mono (hdrStep h tmpl false st)
          (enterIso (addSeen (hdrStep h tmpl false st) (name, partKey true name argNames)) (argNames ++ bound.toList)) :=
        Mono.of_eq rfl rfl rfl rfl
      have hm2 : Mono (visitNodes body (if name = "" then tmpl else name) false
          (enterIso (addSeen (hdrStep h tmpl false st) (name, partKey true name argNames)) (argNames ++ bound.toList)))
          (leaveIso (visitNodes body (if name = "" then tmpl else name) false
            (enterIso (addSeen (hdrStep h tmpl false st) (name, partKey true name argNames)) (argNames ++ bound.toList)))
            (addSeen (hdrStep h tmpl false st) (name, partKey true name argNames))) :=
        Mono.of_eq rfl rfl rfl rfl
      refine
        { inIso := by show (hdrStep h tmpl false st).inIso = _; exact a1
          root := fun hi => by
            show (visitNodes body _ false _).root = _
            rw [ih.root rfl]; exact a2 hi
          blocks := by rw [hcur]; exact a3
          base := fun x => by rw [hcur]; exact a4 x
          mono := a5.trans ((hm1.trans ih.mono).trans hm2)
          seen := fun p hp => by
            have hp' : p ∈ (visitNodes body (if name = "" then tmpl else name) false
              (enterIso (addSeen (hdrStep h tmpl false st) (name, partKey true name argNames)) (argNames ++ bound.toList))).seen := hp
            rcases ih.seen p hp' with h' | h' | h'
            · rcases List.mem_cons.1 h' with h'' | h''
              · exact Or.inr (Or.inr (by rw [h'']; exact List.mem_cons_self))
              · rcases a6 p h'' with h3 | h3
                · exact Or.inl h3
                · exact Or.inr (Or.inl (by rw [h3]))
            · split at h'
              · exact Or.inr (Or.inl h')
              · exact Or.inr (Or.inr (by rw [h']; exact List.mem_cons_self))
            · exact Or.inr (Or.inr (List.mem_cons_of_mem _ h'))
          evs := fun e he => by
            rcases List.mem_append.1 he with h' | h'
            · exact evOk_mono ((hm1.trans ih.mono).trans hm2) e (a8 e h')
            · exact evOk_mono hm2 e (ih.evs e h') }
    | false =>
      have hdis : dis = false := by have := hdead.1; simpa using this
      subst hdis
      have hin : st.inIso = false := hiso rfl
      have hin1 : (hdrStep h tmpl false st).inIso = false := by rw [a1]; exact hin
      simp only [visitNode, hc, hany, assignedNode, reachNode, partNamesNode, Bool.false_eq_true, if_false,
        Bool.not_false, Bool.and_false, Bool.or_self]
      have hcur1 : (hdrStep h tmpl false st).cur = (hdrStep h tmpl false st).root := by
        unfold St.cur; rw [hin1]; rfl
      have hcur0 : st.cur = st.root := by unfold St.cur; rw [hin]; rfl
      have ih := visitNodes_ok body (if name = "" then tmpl else name)
        (enterShared (addSeen (hdrStep h tmpl false st) (name, partKey false name argNames)) (argNames ++ bound.toList))
        (A ++ h.tscope) (K ++ (argNames ++ bound.toList)) false
        (hfresh' _ rfl) hnd'.2 htm'
        (by have := hdead.2; simpa using this)
        (fun _ => rfl)
        (by
          show Agree ((hdrStep h tmpl false st).root.push (argNames ++ bound.toList)) _ _
          rw [← hcur1]
          exact (hag.step a3 a4).push _)
      have hcurE : (enterShared (addSeen (hdrStep h tmpl false st) (name, partKey false name argNames))
          (argNames ++ bound.toList)).cur = (hdrStep h tmpl false st).root.push (argNames ++ bound.toList) := rfl
      have hcurL : ∀ (S : St), (leaveShared S (addSeen (hdrStep h tmpl false st) (name, partKey false name argNames))).cur
          = S.root.pop := by
        intro S; unfold St.cur leaveShared addSeen; simp [hin1]
      have hcurV : ∀ (S : St), S.inIso = false → S.cur = S.root := by
        intro S hS; unfold St.cur; rw [hS]; rfl
      have hinV : (visitNodes body (if name = "" then tmpl else name) false
          (enterShared (addSeen (hdrStep h tmpl false st) (name, partKey false name argNames)) (argNames ++ bound.toList))).inIso
          = false := by rw [ih.inIso]; rfl
      have hm1 : Mono (hdrStep h tmpl false st)
          (enterShared (addSeen (hdrStep h tmpl false st) (name, partKey false name argNames)) (argNames ++ bound.toList)) :=
        Mono.of_eq rfl rfl rfl rfl
      have hm2 : Mono (visitNodes body (if name = "" then tmpl else name) false
          (enterShared (addSeen (hdrStep h tmpl false st) (name, partKey false name argNames)) (argNames ++ bound.toList)))
          (leaveShared (visitNodes body (if name = "" then tmpl else name) false
            (enterShared (addSeen (hdrStep h tmpl false st) (name, partKey false name argNames)) (argNames ++ bound.toList)))
            (addSeen (hdrStep h tmpl false st) (name, partKey false name argNames))) :=
        Mono.of_eq rfl rfl rfl rfl
      refine
        { inIso := by show (hdrStep h tmpl false st).inIso = _; exact a1
          root := fun hi => by rw [hin] at hi; cases hi
          blocks := by
            rw [hcurL, Scope.pop]
            show List.tail (visitNodes body _ false _).root.blocks = _
            rw [← hcurV _ hinV, ih.blocks, hcurE]
            show (hdrStep h tmpl false st).root.blocks = _
            rw [← hcur1]; exact a3
          base := fun x => by
            rw [hcurL]
            show x ∈ (visitNodes body _ false _).root.base ↔ _
            rw [← hcurV _ hinV, ih.base x, hcurE]
            show x ∈ (hdrStep h tmpl false st).root.base ∨ _ ↔ _
            rw [← hcur1, a4 x, List.mem_append]; grind
          mono := a5.trans ((hm1.trans ih.mono).trans hm2)
          seen := fun p hp => by
            have hp' : p ∈ (visitNodes body (if name = "" then tmpl else name) false
              (enterShared (addSeen (hdrStep h tmpl false st) (name, partKey false name argNames)) (argNames ++ bound.toList))).seen := hp
            rcases ih.seen p hp' with h' | h' | h'
            · rcases List.mem_cons.1 h' with h'' | h''
              · exact Or.inr (Or.inr (by rw [h'']; exact List.mem_cons_self))
              · rcases a6 p h'' with h3 | h3
                · exact Or.inl h3
                · exact Or.inr (Or.inl (by rw [h3]))
            · split at h'
              · exact Or.inr (Or.inl h')
              · exact Or.inr (Or.inr (by rw [h']; exact List.mem_cons_self))
            · exact Or.inr (Or.inr (List.mem_cons_of_mem _ h'))
          evs := fun e he => by
            rcases List.mem_append.1 he with h' | h'
            · exact evOk_mono ((hm1.trans ih.mono).trans hm2) e (a8 e h')
            · exact evOk_mono hm2 e (ih.evs e h') }
theorem visitNodes_ok (ns : Nodes) (tmpl : Name) (st : St) (A K : List Name) (dis : Bool)
    (hfresh : ∀ nm ∈ partNamesNodes ns, ∀ k, (nm, k) ∉ st.seen)
    (hnd : (partNamesNodes ns).Nodup)
    (htm : tmpl ∉ partNamesNodes ns)
    (hdead : noDeadIncNodes ns dis = true)
    (hiso : dis = false → st.inIso = false)
    (hag : Agree st.cur A K) :
    Ok st (visitNodes ns tmpl false st) tmpl (partNamesNodes ns) (assignedNodes ns) (reachNodes ns tmpl A K dis) := by
  match ns with
  | .nil => simp only [visitNodes, partNamesNodes, assignedNodes, reachNodes]; exact Ok.nil st tmpl
  | .cons n ns =>
    simp only [partNamesNodes] at hfresh hnd htm
    simp only [noDeadIncNodes, Bool.and_eq_true] at hdead
    have hnd' := List.nodup_append.1 hnd
    have h1 := visitNode_ok n tmpl st A K dis
      (fun nm hnm => hfresh nm (List.mem_append_left _ hnm)) hnd'.1
      (fun h => htm (List.mem_append_left _ h)) hdead.1 hiso hag
    have h2 := visitNodes_ok ns tmpl (visitNode n tmpl false st) (A ++ assignedNode n) K dis
      (by
        intro nm hnm k hk
        rcases h1.seen _ hk with h' | h' | h'
        · exact hfresh nm (List.mem_append_right _ hnm) k h'
        · exact htm (List.mem_append_right _ (by simp at h'; rw [← h']; exact hnm))
        · exact hnd'.2.2 nm (by simpa using h') nm hnm rfl)
      hnd'.2.1 (fun h => htm (List.mem_append_right _ h)) hdead.2
      (fun hd => by rw [h1.inIso]; exact hiso hd)
      (hag.step h1.blocks h1.base)
    simp only [visitNodes, partNamesNodes, assignedNodes, reachNodes]
    exact h1.trans h2
end

end LiquidVerif.Analysis

namespace LiquidVerif.Analysis

theorem choose_sub (evs : List Ev) (ch : List Bool) : ∀ e ∈ (choose evs ch).1, e ∈ evs := by
  induction evs generalizing ch with
  | nil => simp [choose]
  | cons x xs ih =>
    intro e he
    simp only [choose] at he
    split at he
    · rcases List.mem_cons.1 he with h | h
      · exact h ▸ List.mem_cons_self
      · exact List.mem_cons_of_mem _ (ih _ e h)
    · exact List.mem_cons_of_mem _ (ih _ e he)

mutual
theorem renderNode_sub (n : Node) (tmpl : Name) (A K : List Name) (dis : Bool) (ch : List Bool) :
    ∀ e ∈ (renderNode n tmpl A K dis ch).1, e ∈ reachNode n tmpl A K dis := by
  match n with
  | .plain h cs =>
    intro e he
    simp only [renderNode] at he
    simp only [reachNode]
    split at he
    · rcases List.mem_append.1 he with h' | h'
      · exact List.mem_append_left _ (choose_sub _ _ e h')
      · exact List.mem_append_right _ (renderNodes_sub cs tmpl _ _ _ _ e h')
    · cases he
  | .part h iso name argNames bound body =>
    intro e he
    simp only [renderNode] at he
    simp only [reachNode]
    split at he
    · split at he
      · cases he
      · rename_i hcond
        rw [if_neg hcond]
        rcases List.mem_append.1 he with h' | h'
        · exact List.mem_append_left _ (choose_sub _ _ e h')
        · refine List.mem_append_right _ ?_
          cases iso with
          | true => exact renderNodes_sub body _ _ _ _ _ e h'
          | false => exact renderNodes_sub body _ _ _ _ _ e h'
    · cases he
theorem renderNodes_sub (ns : Nodes) (tmpl : Name) (A K : List Name) (dis : Bool) (ch : List Bool) :
    ∀ e ∈ (renderNodes ns tmpl A K dis ch).1, e ∈ reachNodes ns tmpl A K dis := by
  match ns with
  | .nil => intro e he; simp [renderNodes] at he
  | .cons n ns =>
    intro e he
    simp only [renderNodes] at he
    simp only [reachNodes]
    rcases List.mem_append.1 he with h' | h'
    · exact List.mem_append_left _ (renderNode_sub n tmpl A K dis ch e h')
    · exact List.mem_append_right _ (renderNodes_sub ns tmpl _ K dis _ e h')
end

mutual
theorem noDead_of_noParts_node (n : Node) (d : Bool) (h : partNamesNode n = []) : noDeadIncNode n d = true := by
  match n with
  | .plain hd cs => simp only [partNamesNode] at h; simp only [noDeadIncNode]; exact noDead_of_noParts_nodes cs _ h
  | .part .. => simp [partNamesNode] at h
theorem noDead_of_noParts_nodes (ns : Nodes) (d : Bool) (h : partNamesNodes ns = []) : noDeadIncNodes ns d = true := by
  match ns with
  | .nil => rfl
  | .cons n ns =>
    simp only [partNamesNodes, List.append_eq_nil_iff] at h
    simp only [noDeadIncNodes, Bool.and_eq_true]
    exact ⟨noDead_of_noParts_node n d h.1, noDead_of_noParts_nodes ns d h.2⟩
end


end LiquidVerif.Analysis
