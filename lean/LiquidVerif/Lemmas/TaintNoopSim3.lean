import LiquidVerif.Lemmas.TaintNoopSim2
/-! Two-run simulation, part 3: variables, arguments and filter chains. -/
namespace LiquidVerif.Taint
open LiquidVerif.Escape

def Env.plain (e : Env) : Env := e.map fun p => (p.1, p.2.plain)
def EnvNoSp (e : Env) : Prop := ∀ p ∈ e, p.2.NoSp

/-- the state the engine holds with autoescape off: every value without its `Markup` flag -/
def St.plain (st : St) : St :=
  { scopes := st.scopes.map Env.plain, locals := Env.plain st.locals, globals := Env.plain st.globals,
    cycles := st.cycles, out := st.out }

structure St.NoSp (st : St) : Prop where
  scopes : ∀ e ∈ st.scopes, EnvNoSp e
  locals : EnvNoSp st.locals
  globals : EnvNoSp st.globals

theorem lookupEnv_plain (n : String) (e : Env) : lookupEnv n (Env.plain e) = (lookupEnv n e).map Val.plain := by
  induction e with
  | nil => rfl
  | cons p r ih =>
    obtain ⟨k, w⟩ := p
    simp only [Env.plain, List.map_cons, lookupEnv] at ih ⊢
    split
    · rfl
    · exact ih

theorem lookupEnv_nosp {n : String} {e : Env} (he : EnvNoSp e) {v : Val} (h : lookupEnv n e = some v) : v.NoSp := by
  induction e with
  | nil => cases h
  | cons p r ih =>
    obtain ⟨k, w⟩ := p
    unfold lookupEnv at h
    split at h
    · simp only [Option.some.injEq] at h; subst h; exact he (k, w) (by simp)
    · exact ih (fun q hq => he q (List.mem_cons_of_mem _ hq)) h

theorem lookupScopes_plain (n : String) (ss : List Env) :
    lookupScopes n (ss.map Env.plain) = (lookupScopes n ss).map Val.plain := by
  induction ss with
  | nil => rfl
  | cons e r ih =>
    simp only [List.map_cons, lookupScopes, lookupEnv_plain]
    cases lookupEnv n e with
    | some v => rfl
    | none => exact ih

theorem lookupScopes_nosp {n : String} {ss : List Env} (hs : ∀ e ∈ ss, EnvNoSp e) {v : Val}
    (h : lookupScopes n ss = some v) : v.NoSp := by
  induction ss with
  | nil => cases h
  | cons e r ih =>
    unfold lookupScopes at h
    split at h
    · rename_i w hw; simp only [Option.some.injEq] at h; subst h; exact lookupEnv_nosp (hs e (by simp)) hw
    · exact ih (fun e' he' => hs e' (List.mem_cons_of_mem _ he')) h

theorem get_sim {st : St} (hi : st.NoSp) (n : String) : st.plain.get n = (st.get n).plain ∧ (st.get n).NoSp := by
  simp only [St.get, St.plain, lookupScopes_plain, lookupEnv_plain]
  cases h1 : lookupScopes n st.scopes with
  | some v => exact ⟨rfl, lookupScopes_nosp hi.scopes h1⟩
  | none =>
    cases h2 : lookupEnv n st.locals with
    | some v => exact ⟨rfl, lookupEnv_nosp hi.locals h2⟩
    | none =>
      cases h3 : lookupEnv n st.globals with
      | some v => exact ⟨rfl, lookupEnv_nosp hi.globals h3⟩
      | none => exact ⟨rfl, trivial⟩

/-- a literal free of the five characters -/
def Arg.noSp : Arg → Bool
  | .lit s => isNoSp s
  | _ => true

theorem evalArg_sim {st : St} (hi : st.NoSp) {a : Arg} (ha : a.noSp = true) :
    evalArg false st.plain a = (evalArg true st a).plain ∧ (evalArg true st a).NoSp := by
  cases a with
  | lit s => exact ⟨rfl, isNoSp_iff.mp ha⟩
  | var n => exact get_sim hi n
  | int i => exact ⟨rfl, trivial⟩
  | nil => exact ⟨rfl, trivial⟩

/-- the hypothesis of `autoescape_noop_on_clean` on one filter call -/
def FCall.noopOk (f : FCall) : Bool := f.name.noopOk && f.args.all Arg.noSp

theorem applyChain_sim {P : Prims} (hP : PClean P) {st : St} (hi : st.NoSp) : ∀ {fs : List FCall} {v : Val},
    fs.all FCall.noopOk = true → v.NoSp → SimR (applyChain P true st fs v) (applyChain P false st.plain fs v.plain) := by
  intro fs
  induction fs with
  | nil => intro v _ hv; exact simR_ok rfl hv
  | cons f fs ih =>
    intro v hok hv
    simp only [List.all_cons, Bool.and_eq_true, FCall.noopOk] at hok
    have hargs : (f.args.map (evalArg false st.plain)) = (f.args.map (evalArg true st)).map Val.plain := by
      rw [List.map_map]
      apply List.map_congr_left
      intro a ha
      exact (evalArg_sim hi (List.all_eq_true.mp hok.1.2 a ha)).1
    have hnosp : ∀ a ∈ f.args.map (evalArg true st), a.NoSp := by
      intro a ha
      obtain ⟨x, hx, rfl⟩ := List.mem_map.mp ha
      exact (evalArg_sim hi (List.all_eq_true.mp hok.1.2 x hx)).2
    have hsim := applyFilter_sim hP hok.1.1 hv hnosp
    rw [← hargs] at hsim
    unfold applyChain
    generalize applyFilter P true f.name v (f.args.map (evalArg true st)) = ron at hsim
    generalize applyFilter P false f.name v.plain (f.args.map (evalArg false st.plain)) = roff at hsim
    cases ron with
    | error e1 =>
      cases roff with
      | error e2 => simp only [SimR] at hsim; subst hsim; exact simR_err _
      | ok b => exact absurd hsim (by simp [SimR])
    | ok a =>
      cases roff with
      | error e2 => exact absurd hsim (by simp [SimR])
      | ok b =>
        obtain ⟨h1, h2⟩ := hsim
        subst h1
        exact ih hok.2 h2

end LiquidVerif.Taint
