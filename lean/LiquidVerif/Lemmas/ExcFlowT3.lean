import LiquidVerif.Lemmas.ExcFlowKnown
/-! C02 finite table (one file per table so that lake checks them in parallel). -/
namespace LiquidVerif.C02
open LiquidVerif.Gen.C02 Cls Res

theorem table_s3 :
    (FilterName.all.all fun f => Cls.all.all fun l => (pre f l).oks.all fun l' => (argRange f 3).all fun a =>
      ((steps f l').s3 a).excs.all fun e => knownLeak f l 3 a || postOk f (.error e)) = true := by decide +kernel

end LiquidVerif.C02
