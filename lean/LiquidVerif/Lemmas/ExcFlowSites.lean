import LiquidVerif.Lemmas.ExcFlowKnown
/-! C02 finite table for the tag-level sites. -/
namespace LiquidVerif.C02
open LiquidVerif.Gen.C02 Cls Res

/-- known-leak cells of the tag-level sites -/
def knownSiteLeak (s : Site) (x : Cls) : Bool :=
  match s with
  -- str() of an int with more than 4300 digits
  | .output | .cycle_item | .include_name | .contains_in_str => x == int_giant
  | _ => false

theorem table_sites :
    (Site.all.all fun s => Cls.all.all fun x => [true, false].all fun strict =>
      knownSiteLeak s x || allContained (runSiteMode strict s x)) = true := by decide +kernel

end LiquidVerif.C02
