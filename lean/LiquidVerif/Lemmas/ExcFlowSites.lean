import LiquidVerif.Lemmas.ExcFlowKnown
/-! C02 finite table for the tag-level sites. -/
namespace LiquidVerif.C02
open LiquidVerif.Gen.C02 Cls Res

theorem table_sites :
    (Site.all.all fun s => Cls.all.all fun x => [true, false].all fun strict =>
      knownSiteLeak s x || allContained (runSiteMode strict s x)) = true := by decide +kernel

end LiquidVerif.C02
