import LiquidVerif.Lemmas.ExcFlowKnown
/-! C02 finite table (one file per table so that lake checks them in parallel). -/
namespace LiquidVerif.C02
open LiquidVerif.Gen.C02 Cls Res

theorem table_s2 :
    (FilterName.all.all fun f => Cls.all.all fun l => (pre f l).oks.all fun l' => (argRange f 2).all fun a =>
      ((steps f l').s2 a).excs.all fun e => knownLeak f l 2 a || postOk f (.error e)) = true := by decide +kernel

end LiquidVerif.C02
