import LiquidVerif.Lemmas.AnalysisFirst
/-! C19/C20: the analysis reports no phantom locations — every reported variable or global location is the
(template, token index) of a `Path` of the expanded tree. -/
namespace LiquidVerif.Analysis

def IsRef (l : Loc) (evs : List Ev) : Prop := Ev.get l false ∈ evs

theorem exprs_locs_sub (tmpl : Name) (jg : Bool) (es : List Expr) (st : St) :
    (∀ l ∈ (es.foldl (exprStep tmpl jg) st).vars, l ∈ st.vars ∨ ∃ e ∈ es, ∃ r ∈ e.refs, l = mkLoc tmpl r) ∧
    (∀ l ∈ (es.foldl (exprStep tmpl jg) st).globs, l ∈ st.globs ∨ ∃ e ∈ es, ∃ r ∈ e.refs, l = mkLoc tmpl r) := by
  induction es generalizing st with
  | nil => simp
  | cons e es ih =>
    obtain ⟨h1, h2⟩ := ih (exprStep tmpl jg st e)
    simp only [List.foldl_cons]
    constructor
    · intro l hl
      rcases h1 l hl with h | ⟨e', he', r, hr, rfl⟩
      · have : l ∈ st.vars ∨ ∃ r ∈ e.refs, l = mkLoc tmpl r := by
          cases jg <;> simp [exprStep] at h <;> grind
        rcases this with h | ⟨r, hr, rfl⟩
        · exact Or.inl h
        · exact Or.inr ⟨e, List.mem_cons_self, r, hr, rfl⟩
      · exact Or.inr ⟨e', List.mem_cons_of_mem _ he', r, hr, rfl⟩
    · intro l hl
      rcases h2 l hl with h | ⟨e', he', r, hr, rfl⟩
      · have : l ∈ st.globs ∨ ∃ r ∈ e.refs, l = mkLoc tmpl r := by
          simp [exprStep] at h; grind
        rcases this with h | ⟨r, hr, rfl⟩
        · exact Or.inl h
        · exact Or.inr ⟨e, List.mem_cons_self, r, hr, rfl⟩
      · exact Or.inr ⟨e', List.mem_cons_of_mem _ he', r, hr, rfl⟩

theorem ref_in_hdrEvents (h : Hdr) (tmpl : Name) (e : Expr) (he : e ∈ h.exprs) (r : PRef) (hr : r ∈ e.refs) :
    Ev.get (mkLoc tmpl r) false ∈ hdrEvents h tmpl [] [] := by
  unfold hdrEvents
  refine List.mem_append_right _ (List.mem_flatMap.2 ⟨e, he, ?_⟩)
  unfold exprEvents
  exact List.mem_append_left _ (List.mem_map.2 ⟨r, hr, by simp⟩)

theorem hdrStep_locs_sub (h : Hdr) (tmpl : Name) (jg : Bool) (st : St) :
    (∀ l ∈ (hdrStep h tmpl jg st).vars, l ∈ st.vars ∨ Ev.get l false ∈ hdrEvents h tmpl [] []) ∧
    (∀ l ∈ (hdrStep h tmpl jg st).globs, l ∈ st.globs ∨ Ev.get l false ∈ hdrEvents h tmpl [] []) := by
  obtain ⟨_, _, _, d4, d5, _, _, _, _⟩ :=
    scopeAdd_fold h.tscope (h.exprs.foldl (exprStep tmpl jg) (addTag h tmpl jg (markSeen tmpl jg st)))
  obtain ⟨e1, e2⟩ := exprs_locs_sub tmpl jg h.exprs (addTag h tmpl jg (markSeen tmpl jg st))
  have hv : (addTag h tmpl jg (markSeen tmpl jg st)).vars = st.vars := by
    unfold addTag markSeen; cases h.tag <;> cases jg <;> simp <;> split <;> rfl
  have hg : (addTag h tmpl jg (markSeen tmpl jg st)).globs = st.globs := by
    unfold addTag markSeen; cases h.tag <;> cases jg <;> simp <;> split <;> rfl
  constructor
  · intro l hl
    unfold hdrStep at hl; rw [d4] at hl
    rcases e1 l hl with h1 | ⟨e, he, r, hr, rfl⟩
    · exact Or.inl (hv ▸ h1)
    · exact Or.inr (ref_in_hdrEvents h tmpl e he r hr)
  · intro l hl
    unfold hdrStep at hl; rw [d5] at hl
    rcases e2 l hl with h1 | ⟨e, he, r, hr, rfl⟩
    · exact Or.inl (hg ▸ h1)
    · exact Or.inr (ref_in_hdrEvents h tmpl e he r hr)

/-- Locations of `st'` are locations of `st` or references among `evs`. -/
def LocsSub (st st' : St) (evs : List Ev) : Prop :=
  (∀ l ∈ st'.vars, l ∈ st.vars ∨ Ev.get l false ∈ evs) ∧ (∀ l ∈ st'.globs, l ∈ st.globs ∨ Ev.get l false ∈ evs)

theorem LocsSub.trans {a b c : St} {e1 e2 : List Ev} (h1 : LocsSub a b e1) (h2 : LocsSub b c e2) :
    LocsSub a c (e1 ++ e2) := by
  constructor
  · intro l hl
    rcases h2.1 l hl with h | h
    · rcases h1.1 l h with h' | h'
      · exact Or.inl h'
      · exact Or.inr (List.mem_append_left _ h')
    · exact Or.inr (List.mem_append_right _ h)
  · intro l hl
    rcases h2.2 l hl with h | h
    · rcases h1.2 l h with h' | h'
      · exact Or.inl h'
      · exact Or.inr (List.mem_append_left _ h')
    · exact Or.inr (List.mem_append_right _ h)

theorem LocsSub.of_eq {a b : St} (hv : b.vars = a.vars) (hg : b.globs = a.globs) : LocsSub a b [] :=
  ⟨fun l hl => Or.inl (hv ▸ hl), fun l hl => Or.inl (hg ▸ hl)⟩

theorem LocsSub.cast {a b : St} {e e' : List Ev} (h : LocsSub a b e) (he : e = e') : LocsSub a b e' := he ▸ h

mutual
theorem visitNode_locs (n : Node) (tmpl : Name) (jg : Bool) (st : St) :
    LocsSub st (visitNode n tmpl jg st) (allEvNode n tmpl) := by
  match n with
  | .plain h cs =>
    simp only [visitNode, allEvNode]
    have h1 : LocsSub st (hdrStep h tmpl jg st) (hdrEvents h tmpl [] []) := hdrStep_locs_sub h tmpl jg st
    have h2 : LocsSub (hdrStep h tmpl jg st) ((hdrStep h tmpl jg st).modCur (·.push h.bscope)) [] :=
      LocsSub.of_eq (St.vars_modCur _ _) (St.globs_modCur _ _)
    have h3 := visitNodes_locs cs tmpl jg ((hdrStep h tmpl jg st).modCur (·.push h.bscope))
    have h4 : LocsSub (visitNodes cs tmpl jg ((hdrStep h tmpl jg st).modCur (·.push h.bscope)))
        ((visitNodes cs tmpl jg ((hdrStep h tmpl jg st).modCur (·.push h.bscope))).modCur (·.pop)) [] :=
      LocsSub.of_eq (St.vars_modCur _ _) (St.globs_modCur _ _)
    exact (((h1.trans h2).trans h3).trans h4).cast (by simp)
  | .part h iso name argNames bound body =>
    simp only [visitNode, allEvNode]
    have h1 : LocsSub st (hdrStep h tmpl jg st) (hdrEvents h tmpl [] []) := hdrStep_locs_sub h tmpl jg st
    split
    · exact ⟨fun l hl => by
          rcases h1.1 l hl with h | h
          · exact Or.inl h
          · exact Or.inr (List.mem_append_left _ h),
        fun l hl => by
          rcases h1.2 l hl with h | h
          · exact Or.inl h
          · exact Or.inr (List.mem_append_left _ h)⟩
    · cases iso with
      | true =>
        have h2 : LocsSub (hdrStep h tmpl jg st)
            (enterIso (addSeen (hdrStep h tmpl jg st) (name, partKey true name argNames)) (argNames ++ bound.toList)) [] :=
          LocsSub.of_eq rfl rfl
        have h3 := visitNodes_locs body (if name = "" then tmpl else name)
          (jg || (hdrStep h tmpl jg st).seen.any (·.1 == name))
          (enterIso (addSeen (hdrStep h tmpl jg st) (name, partKey true name argNames)) (argNames ++ bound.toList))
        have h4 : LocsSub (visitNodes body (if name = "" then tmpl else name)
            (jg || (hdrStep h tmpl jg st).seen.any (·.1 == name))
            (enterIso (addSeen (hdrStep h tmpl jg st) (name, partKey true name argNames)) (argNames ++ bound.toList)))
            (leaveIso (visitNodes body (if name = "" then tmpl else name)
              (jg || (hdrStep h tmpl jg st).seen.any (·.1 == name))
              (enterIso (addSeen (hdrStep h tmpl jg st) (name, partKey true name argNames)) (argNames ++ bound.toList)))
              (addSeen (hdrStep h tmpl jg st) (name, partKey true name argNames))) [] :=
          LocsSub.of_eq rfl rfl
        exact (((h1.trans h2).trans h3).trans h4).cast (by simp)
      | false =>
        have h2 : LocsSub (hdrStep h tmpl jg st)
            (enterShared (addSeen (hdrStep h tmpl jg st) (name, partKey false name argNames)) (argNames ++ bound.toList)) [] :=
          LocsSub.of_eq rfl rfl
        have h3 := visitNodes_locs body (if name = "" then tmpl else name)
          (jg || (hdrStep h tmpl jg st).seen.any (·.1 == name))
          (enterShared (addSeen (hdrStep h tmpl jg st) (name, partKey false name argNames)) (argNames ++ bound.toList))
        have h4 : LocsSub (visitNodes body (if name = "" then tmpl else name)
            (jg || (hdrStep h tmpl jg st).seen.any (·.1 == name))
            (enterShared (addSeen (hdrStep h tmpl jg st) (name, partKey false name argNames)) (argNames ++ bound.toList)))
            (leaveShared (visitNodes body (if name = "" then tmpl else name)
              (jg || (hdrStep h tmpl jg st).seen.any (·.1 == name))
              (enterShared (addSeen (hdrStep h tmpl jg st) (name, partKey false name argNames)) (argNames ++ bound.toList)))
              (addSeen (hdrStep h tmpl jg st) (name, partKey false name argNames))) [] :=
          LocsSub.of_eq rfl rfl
        exact (((h1.trans h2).trans h3).trans h4).cast (by simp)
theorem visitNodes_locs (ns : Nodes) (tmpl : Name) (jg : Bool) (st : St) :
    LocsSub st (visitNodes ns tmpl jg st) (allEvNodes ns tmpl) := by
  match ns with
  | .nil => simp only [visitNodes, allEvNodes]; exact LocsSub.of_eq rfl rfl
  | .cons n ns =>
    simp only [visitNodes, allEvNodes]
    exact (visitNode_locs n tmpl jg st).trans (visitNodes_locs ns tmpl jg (visitNode n tmpl jg st))
end

end LiquidVerif.Analysis
