import LiquidVerif.Model.Translate
/-!
Helper lemmas for C26: the shape of a `%(name)s` match, how CPython's formatter reads one, how the
escaping passes over it.
-/
namespace LiquidVerif.Translate
open LiquidVerif.PyFormat

/-- what the theorems need of the `\w` class -/
structure WordClass (w : Char → Bool) : Prop where
  percent : w '%' = false
  lparen : w '(' = false
  rparen : w ')' = false

theorem asciiWord_wordClass : WordClass asciiWord := ⟨by decide, by decide, by decide⟩

theorem tagNameChar_wordClass : WordClass tagNameChar := ⟨by decide, by decide, by decide⟩

theorem mem_takeWhile_true {p : Char → Bool} {l : Str} {c : Char} (h : c ∈ l.takeWhile p) : p c = true := by
  induction l with
  | nil => simp at h
  | cons a l' ih =>
    simp only [List.takeWhile_cons] at h
    split at h
    · rename_i ha
      rcases List.mem_cons.mp h with rfl | h'
      · exact ha
      · exact ih h'
    · simp at h

/-- a successful `placeholder?` pins down the text: `(` name `)s` rest, the name non-empty and all `\w` -/
theorem placeholder?_some {w : Char → Bool} {rest n u : Str} (h : placeholder? w rest = some (n, u)) :
    rest = '(' :: (n ++ ')' :: 's' :: u) ∧ n ≠ [] ∧ (∀ c ∈ n, w c = true) := by
  unfold placeholder? at h
  cases rest with
  | nil => simp at h
  | cons c t =>
    simp only at h
    split at h
    · rename_i hc
      subst hc
      have htd := List.takeWhile_append_dropWhile (p := w) (l := t)
      split at h
      · rename_i c1 c2 u' hd
        split at h
        · rename_i hcond
          obtain ⟨h1, h2, h3⟩ := hcond
          simp only [Option.some.injEq, Prod.mk.injEq] at h
          obtain ⟨rfl, rfl⟩ := h
          subst h1 h2
          refine ⟨?_, h3, ?_⟩
          · rw [← hd, htd]
          · intro c hc
            exact mem_takeWhile_true hc
        · cases h
      · cases h
    · cases h

theorem placeholder?_length {w : Char → Bool} {rest n u : Str} (h : placeholder? w rest = some (n, u)) :
    u.length < rest.length := by
  obtain ⟨rfl, _, _⟩ := placeholder?_some h
  simp only [List.length_cons, List.length_append]; omega

/-- the converse: text of that shape is recognised -/
theorem placeholder?_of_shape {w : Char → Bool} (hw : WordClass w) {n u : Str} (hn : n ≠ [])
    (hall : ∀ c ∈ n, w c = true) : placeholder? w ('(' :: (n ++ ')' :: 's' :: u)) = some (n, u) := by
  have htw : (n ++ ')' :: 's' :: u).takeWhile w = n := by
    rw [List.takeWhile_append_of_pos hall]
    simp [hw.rparen]
  have hdw : (n ++ ')' :: 's' :: u).dropWhile w = ')' :: 's' :: u := by
    rw [List.dropWhile_append_of_pos hall]
    simp [hw.rparen]
  simp only [placeholder?, if_true, htw, hdw]
  simp [hn]

/-! ### CPython reads `(name)s` as: look up `name`, write the value -/

theorem parseKey_word {n : Str} (hl : ∀ c ∈ n, c ≠ '(' ∧ c ≠ ')') (r : Str) :
    parseKey 0 (n ++ ')' :: r) = some (n, r) := by
  induction n with
  | nil => simp [parseKey]
  | cons c n' ih =>
    have hc := hl c (by simp)
    have := ih (fun x hx => hl x (by simp [hx]))
    simp only [List.cons_append, parseKey, hc.1, hc.2, if_false, this, Option.map_some]

theorem pad_zero (v : Str) (left : Bool) : pad v left 0 none = v := by
  simp [pad]

theorem directiveCore_placeholder (env : Env) (used : Bool) {n : Str} (v : Str) (r : Str)
    (hl : ∀ c ∈ n, c ≠ '(' ∧ c ≠ ')') (hk : env.lookup n = some v) :
    directiveCore env used ('(' :: (n ++ ')' :: 's' :: r)) = .ok (v, true, r) := by
  have hkey : keyPart env ('(' :: (n ++ ')' :: 's' :: r)) = .ok (some v, 's' :: r) := by
    simp only [keyPart, parseKey_word hl, hk]
  have hf : isFlag 's' = false := by decide
  have hd : isDigit 's' = false := by decide
  have hprec : precPart ('s' :: r) = .ok (none, 's' :: r) := by
    unfold precPart
    split
    · rename_i t heq
      have : ('s' : Char) = '.' := by injection heq
      exact absurd this (by decide)
    · rfl
  have hlen : lenPart ('s' :: r) = 's' :: r := by
    simp only [lenPart]
    have : isLenMod 's' = false := by decide
    simp [this]
  have hstar : ¬ (('s' : Char) = '*') := by decide
  simp only [directiveCore, hkey, List.takeWhile_cons, List.dropWhile_cons, hf, hd, hprec, hlen,
    hstar, if_false, convert, if_true, Bool.false_eq_true]
  simp [digitsVal, pad_zero]

theorem directive_placeholder (env : Env) (used : Bool) {n : Str} (v : Str) (r : Str)
    (hl : ∀ c ∈ n, c ≠ '(' ∧ c ≠ ')') (hk : env.lookup n = some v) :
    directive env used ('(' :: (n ++ ')' :: 's' :: r)) = .ok (v, true, r) := by
  have : ¬ (('(' : Char) = '%') := by decide
  simp only [directive, this, if_false]
  exact directiveCore_placeholder env used v r hl hk

theorem directive_percent (env : Env) (used : Bool) (r : Str) :
    directive env used ('%' :: r) = .ok (['%'], used, r) := by
  simp [directive]

/-! ### one step of `formatAux` -/

theorem formatAux_nil (env : Env) (used : Bool) : formatAux env used [] = .ok [] := by
  rw [formatAux]

theorem formatAux_literal (env : Env) (used : Bool) {c : Char} (hc : c ≠ '%') (r : Str) :
    formatAux env used (c :: r) = (formatAux env used r).map (c :: ·) := by
  rw [formatAux]; simp [hc]

theorem formatAux_directive (env : Env) (used : Bool) (r : Str) {out r' : Str} {u : Bool}
    (h : directive env used r = .ok (out, u, r')) :
    formatAux env used ('%' :: r) = (formatAux env u r').map (out ++ ·) := by
  rw [formatAux]
  simp only [if_true]
  split
  · rename_i e he
    rw [h] at he; cases he
  · rename_i out2 u2 r2 he
    rw [h] at he
    simp only [Except.ok.injEq, Prod.mk.injEq] at he
    obtain ⟨rfl, rfl, rfl⟩ := he
    rfl

theorem formatAux_directive_error (env : Env) (used : Bool) (r : Str) {e : PyExc}
    (h : directive env used r = .error e) : formatAux env used ('%' :: r) = .error e := by
  rw [formatAux]
  simp only [if_true]
  split
  · rename_i e2 he
    rw [h] at he; cases he; rfl
  · rename_i out2 u2 r2 he
    rw [h] at he; cases he

/-! ### escaping and variable search pass over text -/

theorem word_no_special {w : Char → Bool} (hw : WordClass w) {n : Str} (hall : ∀ c ∈ n, w c = true) :
    ∀ c ∈ n, c ≠ '%' ∧ c ≠ '(' ∧ c ≠ ')' := by
  intro c hc
  have := hall c hc
  refine ⟨?_, ?_, ?_⟩ <;> (intro h; subst h; simp [hw.percent, hw.lparen, hw.rparen] at this)

theorem escapePercent_prefix (w : Char → Bool) {p : Str} (hp : ∀ c ∈ p, c ≠ '%') (u : Str) :
    escapePercent w (p ++ u) = p ++ escapePercent w u := by
  induction p with
  | nil => rfl
  | cons c p' ih =>
    have hc := hp c (by simp)
    simp only [List.cons_append, escapePercent, hc, false_and, if_false,
      ih (fun x hx => hp x (by simp [hx]))]

theorem findVars_cons_subset (w : Char → Bool) (c : Char) (rest : Str) :
    ∀ n ∈ findVars w rest, n ∈ findVars w (c :: rest) := by
  intro n hn
  simp only [findVars]
  split
  · split <;> simp [hn]
  · exact hn

theorem findVars_append_subset (w : Char → Bool) (p u : Str) :
    ∀ n ∈ findVars w u, n ∈ findVars w (p ++ u) := by
  induction p with
  | nil => intro n hn; exact hn
  | cons c p' ih => intro n hn; exact findVars_cons_subset w c (p' ++ u) n (ih n hn)

/-! ### the tag's message text -/

theorem findVarsTag_cons_ne (w : Char → Bool) {c : Char} (hc : c ≠ '%') (x : Str) :
    findVarsTag w (c :: x) = findVarsTag w x := by
  cases x with
  | nil => simp [findVarsTag]
  | cons d rest => simp [findVarsTag, hc]

theorem findVarsTag_prefix (w : Char → Bool) {p : Str} (hp : ∀ c ∈ p, c ≠ '%') (t : Str) :
    findVarsTag w (p ++ t) = findVarsTag w t := by
  induction p with
  | nil => rfl
  | cons c p' ih =>
    rw [List.cons_append, findVarsTag_cons_ne w (hp c (by simp)), ih (fun x hx => hp x (by simp [hx]))]

theorem findVarsTag_doublePercent (w : Char → Bool) (s t : Str) :
    findVarsTag w (doublePercent s ++ t) = findVarsTag w t := by
  induction s with
  | nil => rfl
  | cons c s' ih =>
    by_cases hc : c = '%'
    · subst hc
      simp only [doublePercent, if_true, List.cons_append, findVarsTag, ih]
    · simp only [doublePercent, hc, if_false, List.cons_append]
      rw [findVarsTag_cons_ne w hc, ih]

theorem findVarsTag_placeholder (w : Char → Bool) (hw : WordClass w) {n : Str} (hn : n ≠ [])
    (hall : ∀ c ∈ n, w c = true) (t : Str) :
    findVarsTag w ('%' :: '(' :: (n ++ ')' :: 's' :: t)) = n :: findVarsTag w t := by
  have hne : ¬ (('(' : Char) = '%') := by decide
  have hns := word_no_special hw hall
  have hpre : ∀ c ∈ ('(' :: (n ++ [')', 's'])), c ≠ '%' := by
    intro c hc
    simp only [List.mem_cons, List.mem_append, List.not_mem_nil, or_false] at hc
    rcases hc with rfl | hc | rfl | rfl
    · decide
    · exact (hns c hc).1
    · decide
    · decide
  have h2 : '(' :: (n ++ ')' :: 's' :: t) = ('(' :: (n ++ [')', 's'])) ++ t := by simp
  simp only [findVarsTag, if_true, hne, if_false, placeholder?_of_shape hw hn hall]
  rw [h2, findVarsTag_prefix w hpre]

/-- the names of the `{{ var }}` pieces, in order -/
def varNames : List Piece → List Str
  | [] => []
  | .content _ :: ps => varNames ps
  | .var n :: ps => n :: varNames ps

/-- every variable name of the block is a non-empty `\w+` -/
def WordNames (w : Char → Bool) (ps : List Piece) : Prop :=
  ∀ n ∈ varNames ps, n ≠ [] ∧ ∀ c ∈ n, w c = true

theorem findVarsTag_messageText (w : Char → Bool) (hw : WordClass w) (ps : List Piece) (hn : WordNames w ps) :
    findVarsTag w (messageText ps) = varNames ps := by
  induction ps with
  | nil => rfl
  | cons p ps ih =>
    cases p with
    | content s =>
      have := ih (fun n h => hn n (by simpa [varNames] using h))
      simp only [messageText, List.flatMap_cons, pieceText, varNames] at this ⊢
      rw [findVarsTag_doublePercent, this]
    | var n =>
      have hnn := hn n (by simp [varNames])
      have := ih (fun m h => hn m (by simp [varNames, h]))
      simp only [messageText, List.flatMap_cons, pieceText, varNames] at this ⊢
      have h2 : '%' :: '(' :: (n ++ [')', 's']) ++ List.flatMap pieceText ps
          = '%' :: '(' :: (n ++ ')' :: 's' :: List.flatMap pieceText ps) := by simp
      rw [h2, findVarsTag_placeholder w hw hnn.1 hnn.2, this]

theorem formatAux_doublePercent (env : Env) (used : Bool) (s t : Str) :
    formatAux env used (doublePercent s ++ t) = (formatAux env used t).map (s ++ ·) := by
  induction s with
  | nil =>
    simp only [doublePercent, List.nil_append]
    generalize formatAux env used t = r
    cases r <;> rfl
  | cons c s' ih =>
    by_cases hc : c = '%'
    · subst hc
      simp only [doublePercent, if_true, List.cons_append]
      rw [formatAux_directive env used _ (directive_percent env used _), ih]
      generalize formatAux env used t = r
      cases r <;> rfl
    · simp only [doublePercent, hc, if_false, List.cons_append]
      rw [formatAux_literal env used hc, ih]
      generalize formatAux env used t = r
      cases r <;> rfl

end LiquidVerif.Translate
