import LiquidVerif.Model.Memo
/-! Helper lemmas for C11: an `lru_cache` whose entries hold `f key` keeps doing so. -/
namespace LiquidVerif.MemoL
open LiquidVerif.Memo

variable {κ β : Type}

/-- every stored result is the function's result for the stored key -/
def Inv (f : κ → β) (c : Cache κ β) : Prop := ∀ p ∈ c.entries, p.2 = f p.1

theorem find_some {keyEq : κ → κ → Bool} {l : List (κ × β)} {k k' : κ} {v : β}
    (h : find keyEq l k = some (k', v)) : (k', v) ∈ l ∧ keyEq k' k = true := by
  induction l with
  | nil => simp [find] at h
  | cons p r ih =>
    obtain ⟨a, b⟩ := p
    simp only [find] at h
    split at h
    · next hk => cases h; exact ⟨by simp, hk⟩
    · exact ⟨List.mem_cons_of_mem _ (ih h).1, (ih h).2⟩

theorem mem_remove {keyEq : κ → κ → Bool} {l : List (κ × β)} {k : κ} {p : κ × β} (h : p ∈ remove keyEq l k) : p ∈ l := by
  unfold remove at h
  exact (List.mem_filter.mp h).1

theorem mem_tail {l : List (κ × β)} {p : κ × β} (h : p ∈ l.tail) : p ∈ l := List.mem_of_mem_tail h

/-- one call returns `f k` and keeps the invariant, provided equal keys give equal results -/
theorem call_spec (keyEq : κ → κ → Bool) (f : κ → β) (hf : ∀ a b, keyEq a b = true → f a = f b)
    (c : Cache κ β) (k : κ) (hc : Inv f c) :
    (call keyEq f c k).2 = f k ∧ Inv f (call keyEq f c k).1 ∧ (call keyEq f c k).1.maxsize = c.maxsize := by
  unfold call
  split
  · next k' v hfind =>
    obtain ⟨hmem, hk⟩ := find_some hfind
    have hv : v = f k' := hc _ hmem
    refine ⟨by simp only; rw [hv]; exact hf _ _ hk, ?_, rfl⟩
    intro p hp
    simp only [List.mem_append, List.mem_singleton] at hp
    rcases hp with hp | hp
    · exact hc _ (mem_remove hp)
    · subst hp; exact hv
  · simp only
    split
    · exact ⟨rfl, hc, rfl⟩
    · split
      · refine ⟨rfl, ?_, rfl⟩
        intro p hp
        simp only [List.mem_append, List.mem_singleton] at hp
        rcases hp with hp | hp
        · exact hc _ (mem_tail hp)
        · subst hp; rfl
      · refine ⟨rfl, ?_, rfl⟩
        intro p hp
        simp only [List.mem_append, List.mem_singleton] at hp
        rcases hp with hp | hp
        · exact hc _ hp
        · subst hp; rfl

theorem length_remove_le (keyEq : κ → κ → Bool) (l : List (κ × β)) (k : κ) : (remove keyEq l k).length ≤ l.length := by
  unfold remove; exact List.length_filter_le _ _

theorem length_remove_lt {keyEq : κ → κ → Bool} {l : List (κ × β)} {k k' : κ} {v : β}
    (h : find keyEq l k = some (k', v)) : (remove keyEq l k).length < l.length := by
  induction l with
  | nil => simp [find] at h
  | cons p r ih =>
    obtain ⟨a, b⟩ := p
    simp only [find] at h
    unfold remove
    split at h
    · next hk =>
      simp only [List.filter_cons, hk, Bool.not_true, Bool.false_eq_true, if_false]
      have := List.length_filter_le (fun p : κ × β => !keyEq p.1 k) r
      simp; omega
    · next hk =>
      have := ih h
      unfold remove at this
      simp only [List.filter_cons]
      split
      · simp only [List.length_cons]; omega
      · simp only [List.length_cons]; omega

/-- the cache never holds more than `maxsize` entries -/
theorem call_bounded (keyEq : κ → κ → Bool) (f : κ → β) (c : Cache κ β) (k : κ)
    (hb : c.entries.length ≤ c.maxsize) : (call keyEq f c k).1.entries.length ≤ c.maxsize := by
  unfold call
  split
  · next k' v hfind =>
    have := length_remove_lt hfind
    simp; omega
  · simp only
    split
    · exact hb
    · next h0 =>
      have hpos : c.maxsize ≠ 0 := by simpa using h0
      split
      · simp; omega
      · simp; omega

end LiquidVerif.MemoL
