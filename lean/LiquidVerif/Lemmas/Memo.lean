import LiquidVerif.Model.Memo
/-! Helper lemmas for C11: an `lru_cache` whose entries hold `f key` keeps doing so. -/
namespace LiquidVerif.MemoL
open LiquidVerif.Memo

variable {κ β : Type}

/-- every stored result is the function's result for the stored key -/
def Inv (f : κ → β) (c : Cache κ β) : Prop := ∀ p ∈ c.entries, p.2 = f p.1

theorem find_some {keyEq : κ → κ → Bool} {l : List (κ × β)} {k k' : κ} {v : β}
    (h : find keyEq l k = some (k', v)) : (k', v) ∈ l ∧ keyEq k' k = true := by
  induction l with
  | nil => simp [find] at h
  | cons p r ih =>
    obtain ⟨a, b⟩ := p
    simp only [find] at h
    split at h
    · next hk => cases h; exact ⟨by simp, hk⟩
    · exact ⟨List.mem_cons_of_mem _ (ih h).1, (ih h).2⟩

theorem mem_remove {keyEq : κ → κ → Bool} {l : List (κ × β)} {k : κ} {p : κ × β} (h : p ∈ remove keyEq l k) : p ∈ l := by
  unfold remove at h
  exact (List.mem_filter.mp h).1

theorem mem_tail {l : List (κ × β)} {p : κ × β} (h : p ∈ l.tail) : p ∈ l := List.mem_of_mem_tail h

/-- one call returns `f k` and keeps the invariant, provided equal keys give equal results -/
theorem call_spec (keyEq : κ → κ → Bool) (f : κ → β) (hf : ∀ a b, keyEq a b = true → f a = f b)
    (c : Cache κ β) (k : κ) (hc : Inv f c) :
    (call keyEq f c k).2 = f k ∧ Inv f (call keyEq f c k).1 ∧ (call keyEq f c k).1.maxsize = c.maxsize := by
  unfold call
  split
  · next k' v hfind =>
    obtain ⟨hmem, hk⟩ := find_some hfind
    have hv : v = f k' := hc _ hmem
    refine ⟨by simp only; rw [hv]; exact hf _ _ hk, ?_, rfl⟩
    intro p hp
    simp only [List.mem_append, List.mem_singleton] at hp
    rcases hp with hp | hp
    · exact hc _ (mem_remove hp)
    · subst hp; exact hv
  · simp only
    split
    · exact ⟨rfl, hc, rfl⟩
    · split
      · refine ⟨rfl, ?_, rfl⟩
        intro p hp
        simp only [List.mem_append, List.mem_singleton] at hp
        rcases hp with hp | hp
        · exact hc _ (mem_tail hp)
        · subst hp; rfl
      · refine ⟨rfl, ?_, rfl⟩
        intro p hp
        simp only [List.mem_append, List.mem_singleton] at hp
        rcases hp with hp | hp
        · exact hc _ hp
        · subst hp; rfl

theorem length_remove_le (keyEq : κ → κ → Bool) (l : List (κ × β)) (k : κ) : (remove keyEq l k).length ≤ l.length := by
  unfold remove; exact List.length_filter_le _ _

theorem length_remove_lt {keyEq : κ → κ → Bool} {l : List (κ × β)} {k k' : κ} {v : β}
    (h : find keyEq l k = some (k', v)) : (remove keyEq l k).length < l.length := by
  induction l with
  | nil => simp [find] at h
  | cons p r ih =>
    obtain ⟨a, b⟩ := p
    simp only [find] at h
    unfold remove
    split at h
    · next hk =>
      simp only [List.filter_cons, hk, Bool.not_true, Bool.false_eq_true, if_false]
      have := List.length_filter_le (fun p : κ × β => !keyEq p.1 k) r
      simp; omega
    · next hk =>
      have := ih h
      unfold remove at this
      simp only [List.filter_cons]
      split
      · simp only [List.length_cons]; omega
      · simp only [List.length_cons]; omega

/-- the cache never holds more than `maxsize` entries -/
theorem call_bounded (keyEq : κ → κ → Bool) (f : κ → β) (c : Cache κ β) (k : κ)
    (hb : c.entries.length ≤ c.maxsize) : (call keyEq f c k).1.entries.length ≤ c.maxsize := by
  unfold call
  split
  · next k' v hfind =>
    have := length_remove_lt hfind
    simp; omega
  · simp only
    split
    · exact hb
    · next h0 =>
      have hpos : c.maxsize ≠ 0 := by simpa using h0
      split
      · simp; omega
      · simp; omega

/-! ## the cache-free specification of the process -/

/-- a process without caches: every parse uses a lexer compiled from the environment's own delimiters
and a parser that refers to the environment itself -/
def specStep (envs : List EnvCfg) : Op → List EnvCfg × Option Used
  | .newEnv cfg => (envs ++ [cfg], none)
  | .setMode id m => (modify envs id fun c => { c with mode := m }, none)
  | .setTags id t => (modify envs id fun c => { c with tags := t }, none)
  | .setFilters id t => (modify envs id fun c => { c with filters := t }, none)
  | .parse id => match envs[id]? with
    | none => (envs, none)
    | some cfg => (envs, some ⟨cfg.delims, id, some cfg⟩)

def specRun (envs : List EnvCfg) : List Op → List (Option Used)
  | [] => []
  | op :: ops => (specStep envs op).2 :: specRun (specStep envs op).1 ops

def ProcInv (p : Proc) : Prop := Inv (fun d => d) p.lexers ∧ Inv (fun k : ParserKey => k.id) p.parsers

theorem step_spec (p : Proc) (op : Op) (hp : ProcInv p) :
    (step p op).2 = (specStep p.envs op).2 ∧ (step p op).1.envs = (specStep p.envs op).1 ∧ ProcInv (step p op).1 := by
  cases op with
  | newEnv cfg =>
    have hpr := call_spec parserKeyEq (fun k : ParserKey => k.id)
      (by intro a b h; simp [parserKeyEq] at h; exact h.1) p.parsers ⟨p.envs.length, (cfg.delims, cfg.mode)⟩ hp.2
    exact ⟨rfl, rfl, hp.1, hpr.2.1⟩
  | setMode id m => exact ⟨rfl, rfl, hp⟩
  | setTags id t => exact ⟨rfl, rfl, hp⟩
  | setFilters id t => exact ⟨rfl, rfl, hp⟩
  | parse id =>
    cases hcfg : p.envs[id]? with
    | none =>
      have e1 : step p (.parse id) = (p, none) := by simp [step, hcfg]
      have e2 : specStep p.envs (.parse id) = (p.envs, none) := by simp [specStep, hcfg]
      rw [e1, e2]; exact ⟨rfl, rfl, hp⟩
    | some cfg =>
      have hl := call_spec lexerKeyEq (fun d => d) (by intro a b h; simpa [lexerKeyEq] using h) p.lexers cfg.delims hp.1
      have hpr := call_spec parserKeyEq (fun k : ParserKey => k.id)
        (by intro a b h; simp [parserKeyEq] at h; exact h.1) p.parsers ⟨id, (cfg.delims, cfg.mode)⟩ hp.2
      have e1 : step p (.parse id) =
          ({ p with parsers := (call parserKeyEq (fun k => k.id) p.parsers ⟨id, (cfg.delims, cfg.mode)⟩).1,
                    lexers := (call lexerKeyEq (fun d => d) p.lexers cfg.delims).1 },
           some ⟨(call lexerKeyEq (fun d => d) p.lexers cfg.delims).2,
                 (call parserKeyEq (fun k => k.id) p.parsers ⟨id, (cfg.delims, cfg.mode)⟩).2,
                 p.envs[(call parserKeyEq (fun k => k.id) p.parsers ⟨id, (cfg.delims, cfg.mode)⟩).2]?⟩) := by
        simp [step, hcfg]
      have e2 : specStep p.envs (.parse id) = (p.envs, some ⟨cfg.delims, id, some cfg⟩) := by simp [specStep, hcfg]
      rw [e1, e2]
      refine ⟨?_, rfl, hl.2.1, hpr.2.1⟩
      simp only
      rw [hl.1, hpr.1, hcfg]

end LiquidVerif.MemoL
