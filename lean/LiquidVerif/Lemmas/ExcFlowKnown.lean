import LiquidVerif.Lemmas.ExcFlow
import LiquidVerif.Model.C02Known
/-!
The finite tables of C02, decided by the kernel over the generated handler tables and the primitive table:
one obligation per (filter, left class, step, argument class).  `knownLeak` lists the cells where the current code
does let a non-Liquid exception out (each has a counterexample theorem in `Props/C02.lean` and a known finding).
-/
namespace LiquidVerif.C02
open LiquidVerif.Gen.C02 Cls Res

def optClsAll : List (Option Cls) := none :: Cls.all.map some

theorem optCls_mem_all (a : Option Cls) : a ∈ optClsAll := by
  cases a with
  | none => exact List.mem_cons_self
  | some c => exact List.mem_cons_of_mem _ (List.mem_map.mpr ⟨c, Cls.mem_all c, rfl⟩)

def postOk (f : FilterName) (r : Except Exc Unit) : Bool := allContained (post f r)

/-- the argument classes position `pos` can receive without the call failing on arity -/
def argRange (f : FilterName) (pos : Nat) : List (Option Cls) := if pos ≤ f.arity.2 then optClsAll else [none]

theorem arg_in_range {f : FilterName} {args : List Cls} (h : args.length ≤ f.arity.2) (i : Nat) :
    args[i]? ∈ argRange f (i + 1) := by
  unfold argRange
  split
  · exact optCls_mem_all _
  · rename_i hp
    have : args.length ≤ i := by omega
    rw [List.getElem?_eq_none this]
    exact List.mem_singleton.mpr rfl

/-- the registered filters in four chunks (the last takes whatever remains) -/
def filterChunk : Nat → List FilterName
  | 0 => FilterName.all.take 20
  | 1 => (FilterName.all.drop 20).take 20
  | 2 => (FilterName.all.drop 40).take 20
  | _ => FilterName.all.drop 60

theorem mem_take_or_drop {α} {x : α} {xs : List α} (n : Nat) (h : x ∈ xs) : x ∈ xs.take n ∨ x ∈ xs.drop n := by
  rw [← List.take_append_drop n xs] at h
  exact List.mem_append.mp h

theorem filter_in_chunk (f : FilterName) : f ∈ filterChunk 0 ∨ f ∈ filterChunk 1 ∨ f ∈ filterChunk 2 ∨ f ∈ filterChunk 3 := by
  rcases mem_take_or_drop 20 (FilterName.mem_all f) with h | h
  · exact Or.inl h
  · rcases mem_take_or_drop 20 h with h | h
    · exact Or.inr (Or.inl h)
    · rcases mem_take_or_drop 20 h with h | h
      · exact Or.inr (Or.inr (Or.inl h))
      · refine Or.inr (Or.inr (Or.inr ?_))
        simpa [filterChunk, List.drop_drop] using h

end LiquidVerif.C02
