import LiquidVerif.Lemmas.Translate
/-!
C26, `trim_messages`: whitespace trimming of a translate block's message text commutes with the
`%` / placeholder encoding.  The specification side works on *atoms* (a literal character or a whole
`{{ name }}` placeholder); the implementation side on the characters of the message text.
-/
namespace LiquidVerif.Translate
open LiquidVerif.PyFormat

/-- a literal character of the block, or a `{{ name }}` -/
inductive Atom where
  | ch (c : Char)
  | ph (n : Str)
  deriving DecidableEq, Repr

def atomsOf : List Piece → List Atom
  | [] => []
  | .content s :: ps => s.map Atom.ch ++ atomsOf ps
  | .var n :: ps => Atom.ph n :: atomsOf ps

/-- a placeholder is never whitespace -/
def atomWs (ws : Char → Bool) : Atom → Bool
  | .ch c => ws c
  | .ph _ => false

def atomNl : Atom → Bool
  | .ch c => decide (c = '\n')
  | .ph _ => false

theorem length_dropWhile_le' {α} (p : α → Bool) (l : List α) : (l.dropWhile p).length ≤ l.length := by
  induction l with
  | nil => simp
  | cons a r ih => simp only [List.dropWhile_cons]; split <;> simp <;> omega

/-- `strip`, on atoms -/
def stripA (ws : Char → Bool) (as : List Atom) : List Atom :=
  ((as.dropWhile (atomWs ws)).reverse.dropWhile (atomWs ws)).reverse

/-- "every whitespace run that contains a newline becomes one space", on atoms -/
def collapseA (ws : Char → Bool) (as : List Atom) : List Atom :=
  match as with
  | [] => []
  | a :: rest =>
    if atomWs ws a then
      if (a :: rest.takeWhile (atomWs ws)).any atomNl then
        Atom.ch ' ' :: collapseA ws (rest.dropWhile (atomWs ws))
      else (a :: rest.takeWhile (atomWs ws)) ++ collapseA ws (rest.dropWhile (atomWs ws))
    else a :: collapseA ws rest
termination_by as.length
decreasing_by
  all_goals
    have := length_dropWhile_le' (atomWs ws) rest
    simp only [List.length_cons]; omega

/-- the trimmed block: what `trim_messages` is documented to leave -/
def trimAtoms (ws : Char → Bool) (as : List Atom) : List Atom := collapseA ws (stripA ws as)

/-- the message-text encoding of an atom -/
def enc : Atom → Str
  | .ch c => if c = '%' then ['%', '%'] else [c]
  | .ph n => '%' :: '(' :: (n ++ [')', 's'])

def expandAtoms (val : Str → Str) : List Atom → Str
  | [] => []
  | .ch c :: r => c :: expandAtoms val r
  | .ph n :: r => val n ++ expandAtoms val r

def piecesOf : List Atom → List Piece
  | [] => []
  | .ch c :: r => .content [c] :: piecesOf r
  | .ph n :: r => .var n :: piecesOf r

/-- what trimming needs of `\s`: none of the characters of the encoding is whitespace -/
structure SpaceClass (ws : Char → Bool) : Prop where
  percent : ws '%' = false
  lparen : ws '(' = false
  rparen : ws ')' = false
  ess : ws 's' = false

/-- no placeholder name contains whitespace -/
def NoWsNames (ws : Char → Bool) (as : List Atom) : Prop := ∀ n, Atom.ph n ∈ as → ∀ c ∈ n, ws c = false

theorem isPySpace_spaceClass : SpaceClass isPySpace := ⟨by decide, by decide, by decide, by decide⟩

/-! ### the encoding of whitespace and of non-whitespace atoms -/

theorem enc_ws {ws : Char → Bool} (hs : SpaceClass ws) {a : Atom} (h : atomWs ws a = true) :
    ∃ c, a = .ch c ∧ enc a = [c] ∧ ws c = true := by
  cases a with
  | ph n => simp [atomWs] at h
  | ch c =>
    refine ⟨c, rfl, ?_, h⟩
    have : c ≠ '%' := by
      intro e; subst e; simp [atomWs, hs.percent] at h
    simp [enc, this]

theorem enc_nonws {ws : Char → Bool} (hs : SpaceClass ws) {a : Atom}
    (hn : ∀ n, a = .ph n → ∀ c ∈ n, ws c = false) (h : atomWs ws a = false) :
    enc a ≠ [] ∧ ∀ c ∈ enc a, ws c = false := by
  cases a with
  | ch c =>
    by_cases hc : c = '%'
    · subst hc; simp [enc, hs.percent]
    · simp only [atomWs] at h; simp [enc, hc, h]
  | ph n =>
    refine ⟨by simp [enc], ?_⟩
    intro c hc
    simp only [enc, List.mem_cons, List.mem_append, List.not_mem_nil, or_false] at hc
    rcases hc with rfl | rfl | hc | rfl | rfl
    · exact hs.percent
    · exact hs.lparen
    · exact hn n rfl c hc
    · exact hs.rparen
    · exact hs.ess

/-! ### `dropWhile` / `takeWhile` through an encoding -/

theorem dropWhile_flatMap (ws : Char → Bool) (f : Atom → Str) (as : List Atom)
    (hW : ∀ a ∈ as, atomWs ws a = true → ∃ c, f a = [c] ∧ ws c = true)
    (hN : ∀ a ∈ as, atomWs ws a = false → ∃ d ds, f a = d :: ds ∧ ws d = false) :
    (as.flatMap f).dropWhile ws = (as.dropWhile (atomWs ws)).flatMap f := by
  induction as with
  | nil => rfl
  | cons a r ih =>
    have ih' := ih (fun x hx => hW x (by simp [hx])) (fun x hx => hN x (by simp [hx]))
    by_cases h : atomWs ws a = true
    · obtain ⟨c, hf, hc⟩ := hW a (by simp) h
      simp only [List.flatMap_cons, hf, List.singleton_append, List.dropWhile_cons, hc, h, if_true, ih']
    · have h' : atomWs ws a = false := by simpa using h
      obtain ⟨d, ds, hf, hd⟩ := hN a (by simp) h'
      simp [List.flatMap_cons, hf, List.dropWhile_cons, hd, h']

theorem takeWhile_flatMap (ws : Char → Bool) (f : Atom → Str) (as : List Atom)
    (hW : ∀ a ∈ as, atomWs ws a = true → ∃ c, f a = [c] ∧ ws c = true)
    (hN : ∀ a ∈ as, atomWs ws a = false → ∃ d ds, f a = d :: ds ∧ ws d = false) :
    (as.flatMap f).takeWhile ws = (as.takeWhile (atomWs ws)).flatMap f := by
  induction as with
  | nil => rfl
  | cons a r ih =>
    have ih' := ih (fun x hx => hW x (by simp [hx])) (fun x hx => hN x (by simp [hx]))
    by_cases h : atomWs ws a = true
    · obtain ⟨c, hf, hc⟩ := hW a (by simp) h
      simp only [List.flatMap_cons, hf, List.singleton_append, List.takeWhile_cons, hc, h, if_true, ih']
    · have h' : atomWs ws a = false := by simpa using h
      obtain ⟨d, ds, hf, hd⟩ := hN a (by simp) h'
      simp [List.flatMap_cons, hf, List.takeWhile_cons, hd, h']

theorem reverse_flatMap' {α β} (f : α → List β) (l : List α) :
    (l.flatMap f).reverse = l.reverse.flatMap (fun a => (f a).reverse) := by
  induction l with
  | nil => rfl
  | cons a r ih => simp [List.flatMap_cons, List.flatMap_append, ih]

theorem mem_dropWhile {α} {p : α → Bool} {l : List α} {x : α} (h : x ∈ l.dropWhile p) : x ∈ l :=
  (List.dropWhile_suffix p).subset h

theorem mem_takeWhile {α} {p : α → Bool} {l : List α} {x : α} (h : x ∈ l.takeWhile p) : x ∈ l :=
  (List.takeWhile_prefix p).subset h

/-- the hypotheses `dropWhile_flatMap` wants, for `enc` and for the reversed encoding -/
theorem enc_hyps {ws : Char → Bool} (hs : SpaceClass ws) {as : List Atom} (hn : NoWsNames ws as) :
    (∀ a ∈ as, atomWs ws a = true → ∃ c, enc a = [c] ∧ ws c = true) ∧
    (∀ a ∈ as, atomWs ws a = false → ∃ d ds, enc a = d :: ds ∧ ws d = false) ∧
    (∀ a ∈ as, atomWs ws a = true → ∃ c, (enc a).reverse = [c] ∧ ws c = true) ∧
    (∀ a ∈ as, atomWs ws a = false → ∃ d ds, (enc a).reverse = d :: ds ∧ ws d = false) := by
  have hN : ∀ a ∈ as, atomWs ws a = false → enc a ≠ [] ∧ ∀ c ∈ enc a, ws c = false := by
    intro a ha h
    exact enc_nonws hs (fun n e c hc => hn n (e ▸ ha) c hc) h
  refine ⟨?_, ?_, ?_, ?_⟩
  · intro a _ h; obtain ⟨c, _, he, hc⟩ := enc_ws hs h; exact ⟨c, he, hc⟩
  · intro a ha h
    obtain ⟨hne, hall⟩ := hN a ha h
    cases he : enc a with
    | nil => exact absurd he hne
    | cons d ds => exact ⟨d, ds, rfl, hall d (by simp [he])⟩
  · intro a _ h; obtain ⟨c, _, he, hc⟩ := enc_ws hs h; exact ⟨c, by simp [he], hc⟩
  · intro a ha h
    obtain ⟨hne, hall⟩ := hN a ha h
    cases he : (enc a).reverse with
    | nil => simp at he; exact absurd he hne
    | cons d ds =>
      refine ⟨d, ds, rfl, hall d ?_⟩
      have : d ∈ (enc a).reverse := by simp [he]
      simpa using this

/-- **`strip` commutes with the encoding** -/
theorem strip_flatMap {ws : Char → Bool} (hs : SpaceClass ws) (as : List Atom) (hn : NoWsNames ws as) :
    strip ws (as.flatMap enc) = (stripA ws as).flatMap enc := by
  obtain ⟨h1, h2, _, _⟩ := enc_hyps hs hn
  have hn1 : NoWsNames ws (as.dropWhile (atomWs ws)).reverse := by
    intro n hm; exact hn n (mem_dropWhile (by simpa using hm))
  obtain ⟨_, _, h3, h4⟩ := enc_hyps hs hn1
  unfold strip stripA
  rw [dropWhile_flatMap ws enc as h1 h2, reverse_flatMap',
    dropWhile_flatMap ws (fun a => (enc a).reverse) _ h3 h4, reverse_flatMap']
  simp

/-! ### unfolding `collapse` and `collapseA` -/

theorem collapse_nil (ws : Char → Bool) : collapse ws [] = [] := by rw [collapse]

theorem collapse_cons_ws (ws : Char → Bool) {c : Char} (h : ws c = true) (r : Str) :
    collapse ws (c :: r) =
      if (c :: r.takeWhile ws).contains '\n' then ' ' :: collapse ws (r.dropWhile ws)
      else (c :: r.takeWhile ws) ++ collapse ws (r.dropWhile ws) := by
  rw [collapse]; simp [h]

theorem collapse_cons_nonws (ws : Char → Bool) {c : Char} (h : ws c = false) (r : Str) :
    collapse ws (c :: r) = c :: collapse ws r := by
  rw [collapse]; simp [h]

theorem collapse_nonws_prefix (ws : Char → Bool) (p : Str) (hp : ∀ c ∈ p, ws c = false) (x : Str) :
    collapse ws (p ++ x) = p ++ collapse ws x := by
  induction p with
  | nil => rfl
  | cons c p' ih =>
    rw [List.cons_append, collapse_cons_nonws ws (hp c (by simp)), ih (fun y hy => hp y (by simp [hy]))]
    rfl

theorem collapseA_nil (ws : Char → Bool) : collapseA ws [] = [] := by rw [collapseA]

theorem collapseA_cons_ws (ws : Char → Bool) {a : Atom} (h : atomWs ws a = true) (r : List Atom) :
    collapseA ws (a :: r) =
      if (a :: r.takeWhile (atomWs ws)).any atomNl then Atom.ch ' ' :: collapseA ws (r.dropWhile (atomWs ws))
      else (a :: r.takeWhile (atomWs ws)) ++ collapseA ws (r.dropWhile (atomWs ws)) := by
  rw [collapseA]; simp [h]

theorem collapseA_cons_nonws (ws : Char → Bool) {a : Atom} (h : atomWs ws a = false) (r : List Atom) :
    collapseA ws (a :: r) = a :: collapseA ws r := by
  rw [collapseA]; simp [h]

/-- a run of whitespace atoms contains a newline exactly when its encoding does -/
theorem contains_nl_flatMap {ws : Char → Bool} (hs : SpaceClass ws) (R : List Atom)
    (hR : ∀ a ∈ R, atomWs ws a = true) : (R.flatMap enc).contains '\n' = R.any atomNl := by
  induction R with
  | nil => rfl
  | cons a r ih =>
    obtain ⟨c, rfl, he, _⟩ := enc_ws hs (hR a (by simp))
    have := ih (fun x hx => hR x (by simp [hx]))
    simp only [List.flatMap_cons, he, List.singleton_append, List.contains_cons, List.any_cons, atomNl, this]
    congr 1
    by_cases hc : c = '\n'
    · subst hc; simp
    · have : ¬ '\n' = c := fun e => hc e.symm
      simp [hc, this]

/-- **`re.sub(r"\s*\n\s*", " ")` commutes with the encoding** -/
theorem collapse_flatMap {ws : Char → Bool} (hs : SpaceClass ws) :
    ∀ (as : List Atom), NoWsNames ws as → collapse ws (as.flatMap enc) = (collapseA ws as).flatMap enc := by
  intro as
  induction h : as.length using Nat.strongRecOn generalizing as with
  | _ len ih =>
    intro hn
    cases as with
    | nil => simp [collapse_nil, collapseA_nil]
    | cons a rest =>
      have hnr : NoWsNames ws rest := fun n hm => hn n (by simp [hm])
      obtain ⟨h1, h2, _, _⟩ := enc_hyps hs hnr
      by_cases hw : atomWs ws a = true
      · obtain ⟨c, rfl, he, hc⟩ := enc_ws hs hw
        have hnd : NoWsNames ws (rest.dropWhile (atomWs ws)) := fun n hm => hnr n (mem_dropWhile hm)
        have ihd := ih (rest.dropWhile (atomWs ws)).length
          (by subst h; have := length_dropWhile_le' (atomWs ws) rest; simp; omega) _ rfl hnd
        have htw := takeWhile_flatMap ws enc rest h1 h2
        have hdw := dropWhile_flatMap ws enc rest h1 h2
        have hrun : ∀ x ∈ Atom.ch c :: rest.takeWhile (atomWs ws), atomWs ws x = true := by
          intro x hx
          rcases List.mem_cons.mp hx with rfl | hx
          · exact hw
          · exact mem_takeWhile_atom hx
        have hnl := contains_nl_flatMap hs (Atom.ch c :: rest.takeWhile (atomWs ws)) hrun
        simp only [List.flatMap_cons, he, List.singleton_append] at hnl ⊢
        rw [collapse_cons_ws ws hc, collapseA_cons_ws ws hw, htw, hdw, ihd, hnl]
        split
        · simp [List.flatMap_cons, enc]
        · simp [List.flatMap_cons, List.flatMap_append, he]
      · have hw' : atomWs ws a = false := by simpa using hw
        obtain ⟨_, hall⟩ := enc_nonws hs (fun n e c hc => hn n (by simp [e]) c hc) hw'
        have ihr := ih rest.length (by subst h; simp) rest rfl hnr
        rw [List.flatMap_cons, collapse_nonws_prefix ws _ hall, collapseA_cons_nonws ws hw', ihr]
        simp [List.flatMap_cons]
where
  mem_takeWhile_atom {ws : Char → Bool} {l : List Atom} {x : Atom} (h : x ∈ l.takeWhile (atomWs ws)) :
      atomWs ws x = true := by
    induction l with
    | nil => simp at h
    | cons a l' ih =>
      simp only [List.takeWhile_cons] at h
      split at h
      · rename_i ha
        rcases List.mem_cons.mp h with rfl | h'
        · exact ha
        · exact ih h'
      · simp at h

/-! ### what trimming keeps -/

theorem mem_stripA {ws : Char → Bool} {as : List Atom} {x : Atom} (h : x ∈ stripA ws as) : x ∈ as := by
  unfold stripA at h
  have h1 : x ∈ (as.dropWhile (atomWs ws)).reverse.dropWhile (atomWs ws) := by simpa using h
  have h2 := mem_dropWhile h1
  exact mem_dropWhile (by simpa using h2)

theorem mem_collapseA {ws : Char → Bool} : ∀ (as : List Atom) (x : Atom), x ∈ collapseA ws as → x ∈ as ∨ x = .ch ' ' := by
  intro as
  induction h : as.length using Nat.strongRecOn generalizing as with
  | _ len ih =>
    intro x hx
    cases as with
    | nil => simp [collapseA_nil] at hx
    | cons a rest =>
      by_cases hw : atomWs ws a = true
      · have ihd := ih (rest.dropWhile (atomWs ws)).length
          (by subst h; have := length_dropWhile_le' (atomWs ws) rest; simp; omega) _ rfl x
        rw [collapseA_cons_ws ws hw] at hx
        split at hx
        · rcases List.mem_cons.mp hx with rfl | hx
          · exact Or.inr rfl
          · rcases ihd hx with h1 | h1
            · exact Or.inl (List.mem_cons_of_mem _ (mem_dropWhile h1))
            · exact Or.inr h1
        · rcases List.mem_append.mp hx with hx | hx
          · rcases List.mem_cons.mp hx with rfl | hx
            · exact Or.inl (by simp)
            · exact Or.inl (List.mem_cons_of_mem _ (mem_takeWhile hx))
          · rcases ihd hx with h1 | h1
            · exact Or.inl (List.mem_cons_of_mem _ (mem_dropWhile h1))
            · exact Or.inr h1
      · have hw' : atomWs ws a = false := by simpa using hw
        rw [collapseA_cons_nonws ws hw'] at hx
        rcases List.mem_cons.mp hx with rfl | hx
        · exact Or.inl (by simp)
        · rcases ih rest.length (by subst h; simp) rest rfl x hx with h1 | h1
          · exact Or.inl (List.mem_cons_of_mem _ h1)
          · exact Or.inr h1

theorem ph_mem_trimAtoms {ws : Char → Bool} {as : List Atom} {n : Str} (h : Atom.ph n ∈ trimAtoms ws as) :
    Atom.ph n ∈ as := by
  unfold trimAtoms at h
  rcases mem_collapseA _ _ h with h | h
  · exact mem_stripA h
  · cases h

/-- **trimming commutes with the encoding** -/
theorem trimMessage_flatMap {ws : Char → Bool} (hs : SpaceClass ws) (as : List Atom) (hn : NoWsNames ws as) :
    trimMessage ws (as.flatMap enc) = (trimAtoms ws as).flatMap enc := by
  unfold trimMessage trimAtoms
  rw [strip_flatMap hs as hn]
  exact collapse_flatMap hs _ (fun n hm => hn n (mem_stripA hm))

/-! ### atoms and pieces -/

theorem messageText_eq_flatMap (ps : List Piece) : messageText ps = (atomsOf ps).flatMap enc := by
  induction ps with
  | nil => rfl
  | cons p ps ih =>
    cases p with
    | content s =>
      have hs : doublePercent s = (s.map Atom.ch).flatMap enc := by
        induction s with
        | nil => rfl
        | cons c s' ih2 =>
          by_cases hc : c = '%'
          · subst hc; simp [doublePercent, enc, ih2, List.flatMap_cons]
          · simp [doublePercent, enc, hc, ih2, List.flatMap_cons]
      simp only [messageText, List.flatMap_cons, pieceText, atomsOf, List.flatMap_append] at ih ⊢
      rw [hs, ih]
    | var n =>
      simp only [messageText, List.flatMap_cons, pieceText, atomsOf, enc] at ih ⊢
      rw [ih]

theorem messageText_piecesOf (as : List Atom) : messageText (piecesOf as) = as.flatMap enc := by
  induction as with
  | nil => rfl
  | cons a r ih =>
    cases a with
    | ch c =>
      simp only [messageText, piecesOf, List.flatMap_cons, pieceText] at ih ⊢
      rw [ih]
      by_cases hc : c = '%' <;> simp [doublePercent, enc, hc]
    | ph n =>
      simp only [messageText, piecesOf, List.flatMap_cons, pieceText, enc] at ih ⊢
      rw [ih]

theorem varNames_piecesOf (as : List Atom) (n : Str) : n ∈ varNames (piecesOf as) ↔ Atom.ph n ∈ as := by
  induction as with
  | nil => simp [piecesOf, varNames]
  | cons a r ih =>
    cases a with
    | ch c => simp [piecesOf, varNames, ih]
    | ph m => simp [piecesOf, varNames, ih]

theorem ph_mem_atomsOf (ps : List Piece) (n : Str) : Atom.ph n ∈ atomsOf ps ↔ n ∈ varNames ps := by
  induction ps with
  | nil => simp [atomsOf, varNames]
  | cons p ps ih =>
    cases p with
    | content s => simp [atomsOf, varNames, ih]
    | var m => simp [atomsOf, varNames, ih]

end LiquidVerif.Translate
