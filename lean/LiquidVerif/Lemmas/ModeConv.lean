import LiquidVerif.Lemmas.Mode
/-! Helper lemmas for C03, pass 5 (the converse direction): on streams without strict-only guards, a lax run that
suppresses nothing is the strict run — so a strict failure forces at least one suppressed error. -/
namespace LiquidVerif.Mode
variable {σ : Type}

/-! ### Pass 5 (converse): without strict-only guards, a lax run that suppresses nothing is a strict run -/

def PBeh.guardFree : PBeh → Bool
  | .strictOnly _ _ => false
  | _ => true

def Tok.guardFree : Tok σ → Bool
  | .expr e => e.beh.guardFree
  | _ => true

/-- no expression token of the stream sits behind one of the strict-only raise guards -/
def GuardFree (ts : List (Tok σ)) : Prop := ∀ t ∈ ts, t.guardFree = true

theorem GuardFree.drop {ts : List (Tok σ)} (h : GuardFree ts) (n : Nat) : GuardFree (ts.drop n) :=
  fun t ht => h t (List.mem_of_mem_drop ht)

theorem GuardFree.tail {t : Tok σ} {ts : List (Tok σ)} (h : GuardFree (t :: ts)) : GuardFree ts :=
  fun x hx => h x (List.mem_cons_of_mem _ hx)

abbrev nsup (ps : PS) : Nat := ps.log.suppressed.length

theorem PBeh.parse_guardFree {b : PBeh} (h : b.guardFree = true) (m : Mode) : b.parse m = b.parse .lax := by
  cases b <;> simp_all [PBeh.parse, PBeh.guardFree]

theorem intoInner_gf (c : Cfg σ) (eat : Bool) (ts : List (Tok σ)) (h : GuardFree ts) :
    intoInner (c.withMode .strict) eat ts = intoInner (c.withMode .lax) eat ts := by
  unfold intoInner
  split
  · rename_i e _
    have := h (.expr e) (by simp)
    simp only [Tok.guardFree] at this
    simp only [withMode_mode, PBeh.parse_guardFree this .strict]
  · rfl

theorem error_lax_len (c : Cfg σ) (log log' : Log) (e : Err) (h : (c.withMode .lax).error log e = .ok log') :
    log'.suppressed.length = log.suppressed.length + 1 := by
  simp [Cfg.error] at h; subst h; simp

/-- monotonicity: in lax mode the number of suppressed errors never decreases -/
def Mono (n : Nat) : Log → Prop := fun l => n ≤ l.suppressed.length

theorem mono_stable (c : Cfg σ) (n : Nat) : Stable (c.withMode .lax) (Mono n) := by
  intro log e log' h he
  have := error_lax_len c log log' e he
  simp only [Mono] at *; omega

def PBConv (pbS pbL : ParseBlockFn σ) : Prop :=
  ∀ ends ts ps, GuardFree ts → nsup (pbL ends ts ps).ps = nsup ps → pbS ends ts ps = pbL ends ts ps
def PBMono (pbL : ParseBlockFn σ) : Prop := ∀ ends ts ps, nsup ps ≤ nsup (pbL ends ts ps).ps

theorem pbMono_of_inv {pb : ParseBlockFn σ} (h : ∀ n, PBInv (Mono n) pb) : PBMono pb :=
  fun ends ts ps => h (nsup ps) ends ts ps (Nat.le_refl _)

theorem parseBlockTag_conv (c : Cfg σ) {pbS pbL : ParseBlockFn σ} (hpb : PBConv pbS pbL) (hm : PBMono pbL) (endName hasElse mk)
    (ts : List (Tok σ)) (ps : PS) (hg : GuardFree ts)
    (h : nsup (parseBlockTag (c.withMode .lax) pbL endName hasElse mk ts ps).ps = nsup ps) :
    parseBlockTag (c.withMode .strict) pbS endName hasElse mk ts ps = parseBlockTag (c.withMode .lax) pbL endName hasElse mk ts ps := by
  have hi := intoInner_gf c true (ts.drop 1) (hg.drop 1)
  have hd := fun n => hg.drop n
  unfold parseBlockTag PBConv PBMono at *
  rw [hi]
  dsimp only at h ⊢
  repeat' split at h
  all_goals grind

theorem parsePlainBlock_conv {pbS pbL : ParseBlockFn σ} (hpb : PBConv pbS pbL) (endName)
    (ts : List (Tok σ)) (ps : PS) (hg : GuardFree ts)
    (h : nsup (parsePlainBlock pbL endName ts ps).ps = nsup ps) :
    parsePlainBlock pbS endName ts ps = parsePlainBlock pbL endName ts ps := by
  have hd := fun n => hg.drop n
  unfold parsePlainBlock PBConv at *
  repeat' split at h
  all_goals grind

theorem elsifLoop_mono (c : Cfg σ) {pbL : ParseBlockFn σ} (hm : ∀ n, PBInv (Mono n) pbL) (ends) (ts : List (Tok σ)) (skip) (ps : PS) :
    nsup ps ≤ nsup (elsifLoop (c.withMode .lax) pbL ends skip ts ps).ps :=
  elsifLoop_inv (c.withMode .lax) (mono_stable c _) (hm _) ends ts skip ps (Nat.le_refl _)

theorem whenLoop_mono (c : Cfg σ) {pbL : ParseBlockFn σ} (hm : ∀ n, PBInv (Mono n) pbL) (e) (ts : List (Tok σ)) (skip) (ps : PS) :
    nsup ps ≤ nsup (whenLoop (c.withMode .lax) pbL e skip ts ps).ps :=
  whenLoop_inv (c.withMode .lax) (hm _) e ts skip ps (Nat.le_refl _)

theorem elsifLoop_conv (c : Cfg σ) {pbS pbL : ParseBlockFn σ} (hpb : PBConv pbS pbL) (hm : ∀ n, PBInv (Mono n) pbL) (ends : List String) :
    ∀ (ts : List (Tok σ)) (skip : Nat) (ps : PS), GuardFree ts →
      nsup (elsifLoop (c.withMode .lax) pbL ends skip ts ps).ps = nsup ps →
      elsifLoop (c.withMode .strict) pbS ends skip ts ps = elsifLoop (c.withMode .lax) pbL ends skip ts ps := by
  intro ts
  induction ts with
  | nil => intro skip ps _ _; simp [elsifLoop]
  | cons t rest ih =>
    intro skip ps hg h
    have hgr := hg.tail
    cases skip with
    | succ k =>
      simp only [elsifLoop] at h ⊢
      have := ih k ps hgr
      repeat' split at h
      all_goals grind [ElsifOut.ps]
    | zero =>
      have hi := intoInner_gf c true rest hgr
      have hd := fun n => hgr.drop n
      have hmm := pbMono_of_inv hm
      have hem := elsifLoop_mono c hm ends rest
      have hle : ∀ log e, (c.withMode .lax).error log e = .ok { suppressed := log.suppressed ++ [e], warnings := log.warnings } := by
        intro log e; simp [Cfg.error]
      have hse := error_strict (c.withMode .strict) rfl
      simp only [elsifLoop, hle, hse, withMode_syntaxClasses] at h ⊢
      rw [hi]
      unfold PBConv PBMono at *
      repeat' split at h
      all_goals grind [ElsifOut.ps]


theorem error_lax_eq (c : Cfg σ) (log : Log) (e : Err) :
    (c.withMode .lax).error log e = .ok { suppressed := log.suppressed ++ [e], warnings := log.warnings } := by
  simp [Cfg.error]

theorem parseCond_conv (c : Cfg σ) {pbS pbL : ParseBlockFn σ} (hpb : PBConv pbS pbL) (hm : ∀ n, PBInv (Mono n) pbL) (endName negate)
    (ts : List (Tok σ)) (ps : PS) (hg : GuardFree ts)
    (h : nsup (parseCond (c.withMode .lax) pbL endName negate ts ps).ps = nsup ps) :
    parseCond (c.withMode .strict) pbS endName negate ts ps = parseCond (c.withMode .lax) pbL endName negate ts ps := by
  have hi := intoInner_gf c true (ts.drop 1) (hg.drop 1)
  have hd := fun n => hg.drop n
  have hmm := pbMono_of_inv hm
  have hem := fun ts skip ps => elsifLoop_mono c hm [endName, "elsif", "else"] ts skip ps
  have hel := elsifLoop_conv c hpb hm [endName, "elsif", "else"]
  unfold parseCond PBConv PBMono at *
  rw [hi]
  dsimp only at h ⊢
  repeat' split at h
  all_goals grind [ElsifOut.ps]

theorem whenLoop_conv (c : Cfg σ) {pbS pbL : ParseBlockFn σ} (hpb : PBConv pbS pbL) (hm : ∀ n, PBInv (Mono n) pbL) (endName : String) :
    ∀ (ts : List (Tok σ)) (skip : Nat) (ps : PS), GuardFree ts →
      nsup (whenLoop (c.withMode .lax) pbL endName skip ts ps).ps = nsup ps →
      whenLoop (c.withMode .strict) pbS endName skip ts ps = whenLoop (c.withMode .lax) pbL endName skip ts ps := by
  intro ts
  induction ts with
  | nil => intro skip ps _ _; simp [whenLoop]
  | cons t rest ih =>
    intro skip ps hg h
    have hgr := hg.tail
    cases skip with
    | succ k =>
      simp only [whenLoop] at h ⊢
      have := ih k ps hgr
      repeat' split at h
      all_goals grind
    | zero =>
      have hi := intoInner_gf c true rest hgr
      have hd := fun n => hgr.drop n
      have hmm := pbMono_of_inv hm
      have hwm := whenLoop_mono c hm endName rest
      simp only [whenLoop] at h ⊢
      rw [hi]
      unfold PBConv PBMono at *
      repeat' split at h
      all_goals grind

theorem parseCase_conv (c : Cfg σ) {pbS pbL : ParseBlockFn σ} (hpb : PBConv pbS pbL) (hm : ∀ n, PBInv (Mono n) pbL) (endName)
    (ts : List (Tok σ)) (ps : PS) (hg : GuardFree ts)
    (h : nsup (parseCase (c.withMode .lax) pbL endName ts ps).ps = nsup ps) :
    parseCase (c.withMode .strict) pbS endName ts ps = parseCase (c.withMode .lax) pbL endName ts ps := by
  have hi := intoInner_gf c true (ts.drop 1) (hg.drop 1)
  have hd := fun n => hg.drop n
  have hw := whenLoop_conv c hpb hm endName
  unfold parseCase at *
  rw [hi]
  dsimp only at h ⊢
  repeat' split at h
  all_goals grind

/-- `get_node`: a lax call that reports nothing returns what the strict call returns -/
theorem getNode_conv (c : Cfg σ) (k : TagKind) (ts : List (Tok σ)) (ps : PS) (rS rL : R (Node σ))
    (hmono : nsup ps ≤ nsup rL.ps)
    (heq : ∀ n, rL.res = .ok n → nsup rL.ps = nsup ps → rS = rL) (n adv ps')
    (h : getNode (c.withMode .lax) k ts rL = .ok (n, adv, ps')) (hn : nsup ps' = nsup ps) :
    getNode (c.withMode .strict) k ts rS = .ok (n, adv, ps') := by
  unfold getNode at h ⊢
  cases hres : rL.res with
  | ok m =>
    simp only [hres] at h
    simp at h
    obtain ⟨h1, h2, h3⟩ := h
    subst h3
    rw [heq m hres hn]
    simp [hres, h1, h2]
  | error e =>
    simp only [hres, error_lax_eq] at h
    simp at h
    obtain ⟨_, _, h3⟩ := h
    subst h3
    simp [nsup] at hn hmono
    omega

def GNConv (gnS gnL : GetNodeFn σ) : Prop :=
  ∀ ts ps n adv ps', GuardFree ts → gnL ts ps = .ok (n, adv, ps') → nsup ps' = nsup ps → gnS ts ps = .ok (n, adv, ps')
def GNMono (gnL : GetNodeFn σ) : Prop := ∀ ts ps n adv ps', gnL ts ps = .ok (n, adv, ps') → nsup ps ≤ nsup ps'

theorem parseLeaf_gf (c : Cfg σ) (ts : List (Tok σ)) (ps : PS) (hg : GuardFree ts) :
    parseOutput (c.withMode .strict) ts ps = parseOutput (c.withMode .lax) ts ps ∧
    (∀ z mk, parseEvalTag (c.withMode .strict) z mk ts ps = parseEvalTag (c.withMode .lax) z mk ts ps) := by
  have hi := intoInner_gf c false (ts.drop 1) (hg.drop 1)
  refine ⟨?_, ?_⟩
  · unfold parseOutput; rw [hi]
  · intro z mk; unfold parseEvalTag; rw [hi]

theorem dispatch_conv (c : Cfg σ) {pbS pbL : ParseBlockFn σ} (hpb : PBConv pbS pbL) (hm : ∀ n, PBInv (Mono n) pbL) :
    GNConv (dispatch (c.withMode .strict) pbS) (dispatch (c.withMode .lax) pbL) := by
  intro ts ps n adv ps' hg h hn
  obtain ⟨h3, h4⟩ := parseLeaf_gf c ts ps hg
  have hmm := pbMono_of_inv hm
  unfold dispatch at h ⊢
  split at h
  · refine getNode_conv c _ _ ps _ _ ?_ (fun _ _ _ => h3) n adv ps' h hn
    unfold parseOutput; split <;> exact Nat.le_refl _
  · simp only [withMode_tags] at h ⊢
    split at h
    · refine getNode_conv c _ _ ps _ _ ?_ (fun _ _ _ => h4 _ _) n adv ps' h hn
      unfold parseEvalTag; repeat' split
      all_goals exact Nat.le_refl _
    · exact getNode_conv c _ _ ps _ _ (Nat.le_refl _) (fun _ _ _ => rfl) n adv ps' h hn
    · refine getNode_conv c _ _ ps _ _ ?_ (fun _ _ _ => h4 _ _) n adv ps' h hn
      unfold parseEvalTag; repeat' split
      all_goals exact Nat.le_refl _
    · refine getNode_conv c _ _ ps _ _ ?_ (fun _ _ _ => h4 _ _) n adv ps' h hn
      unfold parseEvalTag; repeat' split
      all_goals exact Nat.le_refl _
    · exact getNode_conv c _ _ ps _ _ (parseBlockTag_inv (c.withMode .lax) (hm _) _ _ _ _ _ (Nat.le_refl _))
        (fun _ _ hq => parseBlockTag_conv c hpb hmm _ _ _ _ ps hg hq) n adv ps' h hn
    · exact getNode_conv c _ _ ps _ _ (parseBlockTag_inv (c.withMode .lax) (hm _) _ _ _ _ _ (Nat.le_refl _))
        (fun _ _ hq => parseBlockTag_conv c hpb hmm _ _ _ _ ps hg hq) n adv ps' h hn
    · exact getNode_conv c _ _ ps _ _ (parseCond_inv (c.withMode .lax) (mono_stable c _) (hm _) _ _ _ _ (Nat.le_refl _))
        (fun _ _ hq => parseCond_conv c hpb hm _ _ _ ps hg hq) n adv ps' h hn
    · exact getNode_conv c _ _ ps _ _ (parseCase_inv (c.withMode .lax) (hm _) _ _ _ (Nat.le_refl _))
        (fun _ _ hq => parseCase_conv c hpb hm _ _ ps hg hq) n adv ps' h hn
    · exact getNode_conv c _ _ ps _ _ (parseBlockTag_inv (c.withMode .lax) (hm _) _ _ _ _ _ (Nat.le_refl _))
        (fun _ _ hq => parseBlockTag_conv c hpb hmm _ _ _ _ ps hg hq) n adv ps' h hn
    · exact getNode_conv c _ _ ps _ _ (parsePlainBlock_inv (hm _) _ _ _ (Nat.le_refl _))
        (fun _ _ hq => parsePlainBlock_conv hpb _ _ ps hg hq) n adv ps' h hn
    · refine getNode_conv c _ _ ps _ _ ?_ (fun _ _ _ => rfl) n adv ps' h hn
      unfold parseIllegal; split <;> exact Nat.le_refl _
  · refine getNode_conv c _ _ ps _ _ ?_ (fun _ _ _ => rfl) n adv ps' h hn
    unfold parseContent; split <;> exact Nat.le_refl _

theorem loopFrom_conv (c : Cfg σ) {gnS gnL : GetNodeFn σ} (hgn : GNConv gnS gnL) (hgm : ∀ n, GNInv (Mono n) gnL)
    (ends : Option (List String)) :
    ∀ (ts : List (Tok σ)) (skip : Nat) (ps : PS) ns cnt ps', GuardFree ts →
      loopFrom (c.withMode .lax) gnL ends skip ts ps = .ok (ns, cnt, ps') → nsup ps' = nsup ps →
      loopFrom (c.withMode .strict) gnS ends skip ts ps = .ok (ns, cnt, ps') := by
  intro ts
  induction ts with
  | nil => intro skip ps ns cnt ps' _ h _; simpa [loopFrom] using h
  | cons t rest ih =>
    intro skip ps ns cnt ps' hg h hn
    have hgr := hg.tail
    have hlm : ∀ skip ps ns cnt ps', loopFrom (c.withMode .lax) gnL ends skip rest ps = .ok (ns, cnt, ps') → nsup ps ≤ nsup ps' :=
      fun skip ps ns cnt ps' hh => loopFrom_inv (c.withMode .lax) (mono_stable c _) (hgm _) ends rest skip ps ns cnt ps' (Nat.le_refl _) hh
    have hgmm : ∀ ts ps n adv ps', gnL ts ps = .ok (n, adv, ps') → nsup ps ≤ nsup ps' :=
      fun ts ps n adv ps' hh => hgm _ ts ps n adv ps' (Nat.le_refl _) hh
    cases skip with
    | succ k =>
      simp only [loopFrom] at h ⊢
      have := ih k ps
      repeat' split at h
      all_goals grind
    | zero =>
      simp only [loopFrom, error_lax_eq] at h ⊢
      unfold GNConv at hgn
      repeat' split at h
      all_goals grind

theorem parseBlock_mono (c : Cfg σ) (b : Nat) : ∀ n, PBInv (Mono n) (parseBlock (c.withMode .lax) b : ParseBlockFn σ) :=
  fun n => parseBlock_inv (c.withMode .lax) (mono_stable c n) b

theorem parseBlock_conv (c : Cfg σ) : ∀ b, PBConv (parseBlock (c.withMode .strict) b) (parseBlock (c.withMode .lax) b : ParseBlockFn σ) := by
  intro b
  induction b with
  | zero => intro ends ts ps _ _; simp [parseBlock]
  | succ b ih =>
    intro ends ts ps hg h
    have hl := loopFrom_conv c (dispatch_conv c ih (parseBlock_mono c b))
      (fun n => dispatch_inv (c.withMode .lax) (mono_stable c n) (parseBlock_mono c b n)) (some ends) ts 0 ps
    have hok := loopFrom_ok (c.withMode .lax) (by simp) (dispatch (c.withMode .lax) (parseBlock (c.withMode .lax) b)) (some ends) ts 0 ps
    simp only [parseBlock] at h ⊢
    repeat' split at h
    all_goals grind

/-- `Parser.parse`: on a guard-free stream, a lax parse that suppresses nothing is the strict parse -/
theorem parseTemplate_conv (c : Cfg σ) (ts : List (Tok σ)) (log : Log) (hg : GuardFree ts) (ns log')
    (h : parseTemplate (c.withMode .lax) ts log = .ok (ns, log')) (hn : log'.suppressed.length = log.suppressed.length) :
    parseTemplate (c.withMode .strict) ts log = .ok (ns, log') := by
  have hl := loopFrom_conv c (dispatch_conv c (parseBlock_conv c c.nestLimit) (parseBlock_mono c c.nestLimit))
    (fun n => dispatch_inv (c.withMode .lax) (mono_stable c n) (parseBlock_mono c c.nestLimit n)) none ts 0 ⟨log, 0⟩
  unfold parseTemplate at h ⊢
  simp only [withMode_nestLimit] at h ⊢
  split at h
  · rename_i ns' cnt ps heq
    simp at h
    obtain ⟨h1, h2⟩ := h
    subst h1; subst h2
    rw [hl _ _ _ hg heq (by simpa [nsup] using hn)]
  · simp at h

/-- converse at parse level: if strict `from_string` raises on a guard-free stream, lax `from_string` suppresses ≥ 1 error -/
theorem parse_strict_fails_lax_suppresses (c : Cfg σ) (ts : List (Tok σ)) (log : Log) (hg : GuardFree ts) (e : Err)
    (h : parseTemplate (c.withMode .strict) ts log = .error e) :
    ∃ ns log', parseTemplate (c.withMode .lax) ts log = .ok (ns, log') ∧ log.suppressed.length < log'.suppressed.length := by
  obtain ⟨⟨ns, log'⟩, hx⟩ := parseTemplate_ok (c.withMode .lax) (by simp) ts log
  refine ⟨ns, log', hx, ?_⟩
  have hmono : log.suppressed.length ≤ log'.suppressed.length :=
    parseTemplate_inv (c.withMode .lax) (mono_stable c _) ts log (ns, log') (Nat.le_refl _) hx
  rcases Nat.lt_or_eq_of_le hmono with hlt | heq
  · exact hlt
  · rw [parseTemplate_conv c ts log hg ns log' hx heq.symm] at h
    cases h


/-! rendering -/

abbrev nsupR (rs : RS σ) : Nat := rs.log.suppressed.length

/-- every template the loader can return is guard-free -/
def LoaderGuardFree (c : Cfg σ) : Prop := ∀ name src, c.loader name = some src → GuardFree src

def RTConv (rtS rtL : RenderTemplateFn σ) : Prop := ∀ ns p b rs, nsupR (rtL ns p b rs).1 = nsupR rs → rtS ns p b rs = rtL ns p b rs

theorem iterate_conv (fS fL : RS σ → RS σ × Sig) (hf : ∀ rs, nsupR (fL rs).1 = nsupR rs → fS rs = fL rs)
    (hm : ∀ rs, nsupR rs ≤ nsupR (fL rs).1) :
    ∀ k rs, nsupR (iterate fL k rs).1 = nsupR rs → iterate fS k rs = iterate fL k rs := by
  intro k
  induction k with
  | zero => intro rs _; simp [iterate]
  | succ k ih =>
    intro rs h
    have him : ∀ rs, nsupR rs ≤ nsupR (iterate fL k rs).1 :=
      fun rs => iterate_inv (P := Mono (nsupR rs)) fL (fun r hr => Nat.le_trans hr (hm r)) k rs (Nat.le_refl _)
    simp only [iterate] at h ⊢
    have h1 := hm rs
    cases hx : fL rs with
    | mk rs' s =>
      rw [hx] at h h1
      have h2 := him rs'
      have : nsupR (fL rs).1 = nsupR rs := by
        rw [hx]; cases s <;> simp_all <;> omega
      rw [hf rs this, hx]
      cases s <;> simp_all
      all_goals (apply ih; omega)

theorem repeatN_conv (fS fL : RS σ → RS σ × Sig) (hf : ∀ rs, nsupR (fL rs).1 = nsupR rs → fS rs = fL rs)
    (hm : ∀ rs, nsupR rs ≤ nsupR (fL rs).1) :
    ∀ k rs, nsupR (repeatN fL k rs).1 = nsupR rs → repeatN fS k rs = repeatN fL k rs := by
  intro k
  induction k with
  | zero => intro rs _; simp [repeatN]
  | succ k ih =>
    intro rs h
    have him : ∀ rs, nsupR rs ≤ nsupR (repeatN fL k rs).1 :=
      fun rs => repeatN_inv (P := Mono (nsupR rs)) fL (fun r hr => Nat.le_trans hr (hm r)) k rs (Nat.le_refl _)
    simp only [repeatN] at h ⊢
    have h1 := hm rs
    cases hx : fL rs with
    | mk rs' s =>
      rw [hx] at h h1
      have h2 := him rs'
      have : nsupR (fL rs).1 = nsupR rs := by
        rw [hx]; cases s <;> simp_all <;> omega
      rw [hf rs this, hx]
      cases s <;> simp_all
      all_goals (apply ih; omega)

theorem renderNode_conv (c : Cfg σ) (hld : LoaderGuardFree c) {rtS rtL : RenderTemplateFn σ} (hrt : RTConv rtS rtL)
    (hrm : ∀ n, RTInv (Mono n) rtL) :
    (∀ n : Node σ, ∀ rs, nsupR (renderNode (c.withMode .lax) rtL n rs).1 = nsupR rs →
        renderNode (c.withMode .strict) rtS n rs = renderNode (c.withMode .lax) rtL n rs) ∧
    (∀ ns : List (Node σ),
      (∀ rs, nsupR (renderList (c.withMode .lax) rtL ns rs).1 = nsupR rs →
        renderList (c.withMode .strict) rtS ns rs = renderList (c.withMode .lax) rtL ns rs) ∧
      (∀ rs, nsupR (renderAlts (c.withMode .lax) rtL ns rs).1 = nsupR rs →
        renderAlts (c.withMode .strict) rtS ns rs = renderAlts (c.withMode .lax) rtL ns rs) ∧
      (∀ d rs, nsupR (renderCase (c.withMode .lax) rtL ns d rs).1 = nsupR rs →
        renderCase (c.withMode .strict) rtS ns d rs = renderCase (c.withMode .lax) rtL ns d rs)) := by
  have hinv := fun n => renderNode_inv (c.withMode .lax) (mono_stable c n) (hrm n)
  have hmn : ∀ (n : Node σ) rs, nsupR rs ≤ nsupR (renderNode (c.withMode .lax) rtL n rs).1 :=
    fun n rs => (hinv (nsupR rs)).1 n rs (Nat.le_refl _)
  have hml : ∀ (ns : List (Node σ)) rs, nsupR rs ≤ nsupR (renderList (c.withMode .lax) rtL ns rs).1 :=
    fun ns rs => ((hinv (nsupR rs)).2 ns).1 rs (Nat.le_refl _)
  have hma : ∀ (ns : List (Node σ)) rs, nsupR rs ≤ nsupR (renderAlts (c.withMode .lax) rtL ns rs).1 :=
    fun ns rs => ((hinv (nsupR rs)).2 ns).2.1 rs (Nat.le_refl _)
  have hmc : ∀ (ns : List (Node σ)) d rs, nsupR rs ≤ nsupR (renderCase (c.withMode .lax) rtL ns d rs).1 :=
    fun ns d rs => ((hinv (nsupR rs)).2 ns).2.2 d rs (Nat.le_refl _)
  have hmrt : ∀ ns p b rs, nsupR rs ≤ nsupR (rtL ns p b rs).1 := fun ns p b rs => hrm _ ns p b rs (Nat.le_refl _)
  have hpm : ∀ ts log ns log', parseTemplate (c.withMode .lax) ts log = .ok (ns, log') → log.suppressed.length ≤ log'.suppressed.length :=
    fun ts log ns log' hx => parseTemplate_inv (c.withMode .lax) (mono_stable c _) ts log (ns, log') (Nat.le_refl _) hx
  have hpc := fun ts log hg ns log' => parseTemplate_conv c ts log hg ns log'
  have hpne : ∀ (ts : List (Tok σ)) log err, parseTemplate (c.withMode .lax) ts log ≠ .error err := by
    intro ts log err hh
    obtain ⟨x, hx⟩ := parseTemplate_ok (c.withMode .lax) (by simp) ts log
    rw [hx] at hh; cases hh
  clear hinv
  have hev := @evalExpr_log σ
  unfold RTConv at hrt
  unfold LoaderGuardFree at hld
  apply node_ind
  case text => intro s rs _; simp [renderNode]
  case eval => intro e rs _; simp [renderNode]
  case illegal => intro rs _; simp [renderNode]
  case interrupt => intro b rs _; simp [renderNode]
  case partial_ =>
    intro iso e rs h; simp only [renderNode, withMode_loader] at h ⊢
    repeat' split at h
    all_goals grind
  case extends_ =>
    intro e rs h; simp only [renderNode, withMode_loader] at h ⊢
    repeat' split at h
    all_goals grind
  case cond =>
    intro neg cnd cons alts dflt h1 h2 h3 rs h; simp only [renderNode] at h ⊢
    repeat' split at h
    all_goals grind
  case condBlock =>
    intro e body h1 rs h; simp only [renderNode] at h ⊢
    repeat' split at h
    all_goals grind
  case loop =>
    intro e body dflt h1 h2 rs h; simp only [renderNode] at h ⊢
    have hit := iterate_conv (renderList (c.withMode .strict) rtS body) (renderList (c.withMode .lax) rtL body) h1.1 (hml body)
    repeat' split at h
    all_goals grind
  case capture =>
    intro e body h1 rs h; simp only [renderNode] at h ⊢
    have := h1.1 { rs with out := "" }
    have := hml body { rs with out := "" }
    repeat' split at h
    all_goals grind
  case case_ => intro e blocks h1 rs h; simp only [renderNode] at h ⊢; exact h1.2.2 true rs h
  case whenBlock =>
    intro e body h1 rs h; simp only [renderNode] at h ⊢
    have hr := repeatN_conv (renderList (c.withMode .strict) rtS body) (renderList (c.withMode .lax) rtL body) h1.1 (hml body)
    repeat' split at h
    all_goals grind
  case elseBlock => intro body h1 rs h; simp only [renderNode] at h ⊢; exact h1.1 rs h
  case scoped_ =>
    intro e body h1 rs h; simp only [renderNode] at h ⊢
    repeat' split at h
    all_goals grind
  case block => intro body h1 rs h; simp only [renderNode] at h ⊢; exact h1.1 rs h
  case nil => exact ⟨fun rs _ => by simp [renderList], fun rs _ => by simp [renderAlts], fun d rs _ => by simp [renderCase]⟩
  case cons =>
    intro n ns hn hns
    have hmn' := hmn n
    refine ⟨?_, ?_, ?_⟩
    · intro rs h; simp only [renderList] at h ⊢
      have := hml ns
      repeat' split at h
      all_goals grind
    · intro rs h
      cases n <;> simp only [renderAlts] at h ⊢ <;> (try exact hns.2.1 rs h)
      rename_i e body
      have hb := hns.1
      have ha := hns.2.1
      have hn' := hn
      have hmn'' := hmn'
      have := hma ns
      have := hml body
      simp only [renderNode] at hn' hmn''
      repeat' split at h
      all_goals grind
    · intro d rs h
      cases n <;> simp only [renderCase] at h ⊢ <;> (try exact hns.2.2 d rs h)
      all_goals
        have hc := hns.2.2
        have hn' := hn
        have hmn'' := hmn'
        have hmc' := hmc ns
        simp only [renderNode] at hn' hmn''
        repeat' split at h
        all_goals grind

theorem templateLoop_conv (c : Cfg σ) {rnS rnL : Node σ → RS σ → RS σ × Sig}
    (hrn : ∀ n rs, nsupR (rnL n rs).1 = nsupR rs → rnS n rs = rnL n rs)
    (hmn : ∀ n rs, nsupR rs ≤ nsupR (rnL n rs).1) (p b : Bool) :
    ∀ (ns : List (Node σ)) rs, nsupR (templateLoop (c.withMode .lax) rnL p b ns rs).1 = nsupR rs →
      templateLoop (c.withMode .strict) rnS p b ns rs = templateLoop (c.withMode .lax) rnL p b ns rs := by
  intro ns
  induction ns with
  | nil => intro rs _; simp [templateLoop]
  | cons n ns ih =>
    intro rs h
    have hml : ∀ rs, nsupR rs ≤ nsupR (templateLoop (c.withMode .lax) rnL p b ns rs).1 :=
      fun rs => templateLoop_inv (c.withMode .lax) (mono_stable c _) (fun n r hr => Nat.le_trans hr (hmn n r)) p b ns rs (Nat.le_refl _)
    have hse := error_strict (c.withMode .strict) rfl
    have h1 := hmn n rs
    simp only [templateLoop, error_lax_eq, hse] at h ⊢
    cases hx : rnL n rs with
    | mk rs' s =>
      rw [hx] at h h1
      dsimp only at h1
      have h2 := hml rs'
      cases s with
      | done =>
        simp only at h ⊢
        have : nsupR (rnL n rs).1 = nsupR rs := by rw [hx]; dsimp only; omega
        rw [hrn n rs this, hx]
        exact ih rs' (by omega)
      | stop =>
        simp only at h ⊢
        rw [hrn n rs (by rw [hx]; exact h), hx]
      | err e =>
        exfalso
        simp only at h
        have := hml { rs' with log := { suppressed := rs'.log.suppressed ++ [e], warnings := rs'.log.warnings } }
        simp [nsupR] at this h h1
        omega
      | brk =>
        simp only at h ⊢
        split at h
        · exfalso
          have := hml { rs' with log := { suppressed := rs'.log.suppressed ++ [synErr], warnings := rs'.log.warnings } }
          simp [nsupR] at this h h1
          omega
        · rename_i hc
          rw [hrn n rs (by rw [hx]; exact h), hx]
          simp [hc]
      | cont =>
        simp only at h ⊢
        split at h
        · exfalso
          have := hml { rs' with log := { suppressed := rs'.log.suppressed ++ [synErr], warnings := rs'.log.warnings } }
          simp [nsupR] at this h h1
          omega
        · rename_i hc
          rw [hrn n rs (by rw [hx]; exact h), hx]
          simp [hc]

theorem renderTemplate_mono (c : Cfg σ) (d : Nat) : ∀ n, RTInv (Mono n) (renderTemplate (c.withMode .lax) d : RenderTemplateFn σ) :=
  fun n => renderTemplate_inv (c.withMode .lax) (mono_stable c n) d

theorem renderTemplate_conv (c : Cfg σ) (hld : LoaderGuardFree c) :
    ∀ d, RTConv (renderTemplate (c.withMode .strict) d) (renderTemplate (c.withMode .lax) d : RenderTemplateFn σ) := by
  intro d
  induction d with
  | zero => intro ns p b rs _; simp [renderTemplate]
  | succ d ih =>
    intro ns p b rs h
    simp only [renderTemplate] at h ⊢
    refine templateLoop_conv c (renderNode_conv c hld ih (renderTemplate_mono c d)).1 ?_ p b ns rs h
    intro n rs
    exact (renderNode_inv (c.withMode .lax) (mono_stable c _) (renderTemplate_mono c d _)).1 n rs (Nat.le_refl _)

theorem render_conv (c : Cfg σ) (hld : LoaderGuardFree c) (nodes : List (Node σ)) (st : σ) (log : Log)
    (h : (render (c.withMode .lax) nodes st log).1.log.suppressed.length = log.suppressed.length) :
    render (c.withMode .strict) nodes st log = render (c.withMode .lax) nodes st log := by
  unfold render at h ⊢
  exact renderTemplate_conv c hld _ nodes false false _ h

/-- the whole pipeline: guard-free, and lax suppressed nothing ⇒ strict returns the same output -/
theorem run_conv (c : Cfg σ) (hld : LoaderGuardFree c) (src : List (Tok σ)) (hg : GuardFree src) (st : σ) (out : String) (log : Log)
    (h : run (c.withMode .lax) src st = .ok out log) (hq : log.suppressed = []) :
    run (c.withMode .strict) src st = .ok out log := by
  unfold run at h ⊢
  split at h
  · simp at h
  · rename_i nodes log1 hp
    have hm1 : ([] : List Err).length ≤ log1.suppressed.length := Nat.zero_le _
    have hm2 : log1.suppressed.length ≤ (render (c.withMode .lax) nodes st log1).1.log.suppressed.length :=
      render_inv (c.withMode .lax) (mono_stable c _) nodes st log1 (Nat.le_refl _)
    cases hx : render (c.withMode .lax) nodes st log1 with
    | mk rs s =>
      rw [hx] at h hm2
      cases s <;> simp at h
      obtain ⟨h1, h2⟩ := h
      subst h1; subst h2
      dsimp only at hm2
      rw [hq] at hm2
      have hl1 : log1.suppressed.length = 0 := by simpa using hm2
      have hps := parseTemplate_conv c src {} hg nodes log1 hp (by simpa using hl1)
      rw [hps]
      dsimp only
      have hr := render_conv c hld nodes st log1 (by rw [hx]; dsimp only; rw [hq, hl1]; rfl)
      rw [hr, hx]

end LiquidVerif.Mode
