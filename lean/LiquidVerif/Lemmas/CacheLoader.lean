import LiquidVerif.Model.CacheLoader
/-!
Helper definitions and lemmas for C23 (`Props/C23.lean`): the hypotheses on the underlying loader,
the cache invariant, LRU membership facts, globals look-up facts, and injectivity of the
`f"{ns}/{name}"` key strings.
-/
namespace LiquidVerif.CacheLoader

instance : DecidableEq (Except Err Resp) := fun a b =>
  match a, b with
  | .ok x, .ok y => if h : x = y then isTrue (by rw [h]) else isFalse (by intro e; cases e; exact h rfl)
  | .error x, .error y => if h : x = y then isTrue (by rw [h]) else isFalse (by intro e; cases e; exact h rfl)
  | .ok _, .error _ => isFalse (by intro e; cases e)
  | .error _, .ok _ => isFalse (by intro e; cases e)

variable {σ η : Type}

/-! ## hypotheses on the underlying loader -/

/-- what a caller of `get_source` can see of its answer once the template is built: text and name -/
def srcObs (x : Except Err (Text × Str × η)) : Except Err (Text × Str) :=
  match x with
  | .error e => .error e
  | .ok (t, f, _) => .ok (t, f)

/-- the underlying loader uses keyword arguments and context only through the namespace that
`namespace_key` names, and `get_source` / `get_source_async` find the same thing -/
def Respects (L : Loader σ η) (cfg : Cfg) : Prop :=
  ∀ s m m' (r r' : Req), ident cfg r = ident cfg r' →
    srcObs (L.getSource s m r.name r.ctx r.kw) = srcObs (L.getSource s m' r'.name r'.ctx r'.kw)

/-- on the stores `P` admits: an `uptodate` that answers `True` means `get_source` would give the
same text and name again; and `is_up_to_date(_async)` does not raise -/
def UptodateSound (L : Loader σ η) (P : σ → Prop) : Prop :=
  ∀ s s' m name ctx kw text full h mu, P s → P s' →
    L.getSource s m name ctx kw = .ok (text, full, h) →
    (L.uptodate s' mu h = .ok true → srcObs (L.getSource s' m name ctx kw) = .ok (text, full)) ∧
    (∀ e, L.uptodate s' mu h ≠ .error e)

/-- distinct (name, namespace) pairs among the requests `R` get distinct cache-key strings -/
def KeyInj (cfg : Cfg) (R : Req → Prop) : Prop :=
  ∀ r r', R r → R r' →
    cacheKey cfg r.name r.ctx r.kw = cacheKey cfg r'.name r'.ctx r'.kw → ident cfg r = ident cfg r'

/-- a cache entry is what the underlying loader produced, at some admitted store, for a request
whose key is the entry's key -/
def Good (L : Loader σ η) (cfg : Cfg) (P : σ → Prop) (R : Req → Prop) (k : Str) (t : Tpl η) : Prop :=
  ∃ r s0 m0, R r ∧ P s0 ∧ k = cacheKey cfg r.name r.ctx r.kw ∧
    L.getSource s0 m0 r.name r.ctx r.kw = .ok (t.text, t.full, t.h) ∧ t.name = basename t.full

def Inv (L : Loader σ η) (cfg : Cfg) (P : σ → Prop) (R : Req → Prop) (c : Cache (Tpl η)) : Prop :=
  ∀ p ∈ c.items, Good L cfg P R p.1 p.2

/-- the response is a template the underlying loader produced for this very request's
(name, namespace) at an admitted store -/
def Served (L : Loader σ η) (P : σ → Prop) (r : Req) (resp : Resp) : Prop :=
  ∃ s0 m full, P s0 ∧ srcObs (L.getSource s0 m r.name r.ctx r.kw) = .ok (resp.text, full) ∧
    resp.name = basename full

def reqsOf : List (Event σ) → List Req
  | [] => []
  | .req r :: evs => r :: reqsOf evs
  | .store _ :: evs => reqsOf evs

def storesOf : List (Event σ) → List σ
  | [] => []
  | .req _ :: evs => storesOf evs
  | .store s :: evs => s :: storesOf evs

/-! ## LRU facts -/

theorem find_some_mem {τ} {l : List (Str × τ)} {k : Str} {v : τ} (h : find l k = some v) : (k, v) ∈ l := by
  induction l with
  | nil => simp [find] at h
  | cons p r ih =>
    obtain ⟨a, b⟩ := p
    simp only [find] at h
    split at h
    · next e => cases h; subst e; exact List.mem_cons_self
    · exact List.mem_cons_of_mem _ (ih h)

theorem mem_eraseKey {τ} {l : List (Str × τ)} {k : Str} {p : Str × τ} (h : p ∈ eraseKey l k) : p ∈ l :=
  (List.mem_filter.mp h).1

theorem getitem_some_mem {τ} {c : Cache τ} {k : Str} {v : τ} (h : (c.getitem k).2 = some v) : (k, v) ∈ c.items := by
  unfold Cache.getitem at h
  cases hf : find c.items k with
  | none => simp [hf] at h
  | some w => simp [hf] at h; subst h; exact find_some_mem hf

theorem getitem_none {τ} {c : Cache τ} {k : Str} (h : (c.getitem k).2 = none) : find c.items k = none := by
  unfold Cache.getitem at h
  cases hf : find c.items k with
  | none => rfl
  | some w => simp [hf] at h

theorem getitem_snd {τ} (c : Cache τ) (k : Str) : (c.getitem k).2 = find c.items k := by
  unfold Cache.getitem; cases find c.items k <;> rfl

theorem mem_getitem {τ} {c : Cache τ} {k : Str} {p : Str × τ} (h : p ∈ (c.getitem k).1.items) : p ∈ c.items := by
  unfold Cache.getitem at h
  cases hf : find c.items k with
  | none => simpa [hf] using h
  | some w =>
    simp only [hf, List.mem_append, List.mem_singleton] at h
    rcases h with h | h
    · exact mem_eraseKey h
    · subst h; exact find_some_mem hf

theorem mem_setitem {τ} {c : Cache τ} {k : Str} {v : τ} {p : Str × τ} (h : p ∈ (c.setitem k v).items) :
    p = (k, v) ∨ p ∈ c.items := by
  unfold Cache.setitem at h
  cases hf : find c.items k with
  | some w =>
    simp only [hf, List.mem_append, List.mem_singleton] at h
    rcases h with h | h
    · exact Or.inr (mem_eraseKey h)
    · exact Or.inl h
  | none =>
    simp only [hf, List.mem_append, List.mem_singleton] at h
    rcases h with h | h
    · right
      split at h
      · exact List.mem_of_mem_tail h
      · exact h
    · exact Or.inl h

theorem mem_mutate {τ} {c : Cache τ} {k : Str} {v : τ} {p : Str × τ} (h : p ∈ (c.mutate k v).items) :
    p = (k, v) ∨ p ∈ c.items := by
  unfold Cache.mutate at h
  simp only [List.mem_map] at h
  obtain ⟨q, hq, e⟩ := h
  split at e
  · exact Or.inl e.symm
  · subst e; exact Or.inr hq

theorem find_append_single {τ} (l : List (Str × τ)) (k x : Str) (v : τ) :
    find (l ++ [(k, v)]) x = match find l x with | some w => some w | none => if k = x then some v else none := by
  induction l with
  | nil => simp [find]
  | cons p r ih =>
    obtain ⟨a, b⟩ := p
    simp only [List.cons_append, find]
    split
    · rfl
    · exact ih

theorem find_eraseKey_self {τ} (l : List (Str × τ)) (k : Str) : find (eraseKey l k) k = none := by
  induction l with
  | nil => rfl
  | cons p r ih =>
    obtain ⟨a, b⟩ := p
    unfold eraseKey at *
    simp only [List.filter]
    by_cases e : a = k
    · simp [e]; simpa using ih
    · simp [e, find]; simpa using ih

theorem find_tail_none {τ} {l : List (Str × τ)} {k : Str} (h : find l k = none) : find l.tail k = none := by
  cases l with
  | nil => rfl
  | cons p r =>
    obtain ⟨a, b⟩ := p
    simp only [find] at h
    split at h
    · cases h
    · exact h

theorem find_setitem_self {τ} (c : Cache τ) (k : Str) (v : τ) : find (c.setitem k v).items k = some v := by
  unfold Cache.setitem
  cases hf : find c.items k with
  | some w => simp [find_append_single, find_eraseKey_self]
  | none =>
    simp only
    split
    · simp [find_append_single, find_tail_none hf]
    · simp [find_append_single, hf]

theorem find_getitem_self {τ} (c : Cache τ) (k : Str) : find (c.getitem k).1.items k = find c.items k := by
  unfold Cache.getitem
  cases hf : find c.items k with
  | none => simp [hf]
  | some w => simp [find_append_single, find_eraseKey_self]

theorem find_mutate_self {τ} (c : Cache τ) (k : Str) (v w : τ) (h : find c.items k = some w) :
    find (c.mutate k v).items k = some v := by
  unfold Cache.mutate
  simp only
  generalize c.items = l at h
  induction l with
  | nil => simp [find] at h
  | cons p r ih =>
    obtain ⟨a, b⟩ := p
    simp only [find] at h
    by_cases e : a = k
    · simp [e, find]
    · simp only [e, if_false] at h
      simp [List.map, e, find, ih h]

/-! ## the two code paths of the mixin are one function of the mode -/

/-- `_check_cache` / `_check_cache_async` with the mode as an argument -/
def checkCacheM (mu : Mode) (L : Loader σ η) (cfg : Cfg) (c : Cache (Tpl η)) (s : σ) (key : Str)
    (g : Option Globals) (loadFunc : Except Err (Tpl η)) : Cache (Tpl η) × Except Err (Tpl η) :=
  match c.getitem key with
  | (c1, none) =>
    match loadFunc with
    | .error e => (c1, .error e)
    | .ok t => (c1.setitem key t, .ok t)
  | (c1, some cached) =>
    let hit : Cache (Tpl η) × Except Err (Tpl η) :=
      let t' := { cached with globals := makeGlobals cfg.eg g }
      (c1.mutate key t', .ok t')
    if cfg.autoReload then
      match L.uptodate s mu cached.h with
      | .error e => (c1, .error e)
      | .ok false =>
        match loadFunc with
        | .error e => (c1, .error e)
        | .ok t => (c1.setitem key t, .ok t)
      | .ok true => hit
    else hit

theorem checkCache_eq (L : Loader σ η) cfg c s key g lf :
    checkCache L cfg c s key g lf = checkCacheM .sync L cfg c s key g lf := rfl

theorem checkCacheAsync_eq (L : Loader σ η) cfg c s key g lf :
    checkCacheAsync L cfg c s key g lf = checkCacheM .async L cfg c s key g lf := rfl

/-- `get_template(_async)` is: key from the request, `_check_cache(_async)` around the base loader's
`load(_async)` with the request's own arguments -/
theorem getTemplate_eq (L : Loader σ η) (cfg : Cfg) (c : Cache (Tpl η)) (s : σ) (r : Req) :
    getTemplate L cfg c s r =
      checkCacheM r.mode L cfg c s (cacheKey cfg r.name r.ctx r.kw) (some (makeGlobals cfg.eg r.globals))
        (refGetTemplate L cfg s r) := by
  unfold getTemplate refGetTemplate
  cases r.mode <;> rfl

/-! ## globals -/

theorem glookup_append (a b : Globals) (k : Nat) :
    glookup (a ++ b) k = match glookup a k with | some v => some v | none => glookup b k := by
  induction a with
  | nil => simp [glookup]
  | cons p r ih =>
    obtain ⟨x, y⟩ := p
    simp only [List.cons_append, glookup]
    split
    · rfl
    · exact ih

theorem glookup_none_iff (b : Globals) (k : Nat) : glookup b k = none ↔ k ∉ gkeys b := by
  induction b with
  | nil => simp [glookup, gkeys]
  | cons p r ih =>
    obtain ⟨x, y⟩ := p
    simp only [glookup, gkeys, List.map_cons, List.mem_cons, not_or]
    by_cases e : x = k
    · simp [e]
    · simp only [e, if_false]
      rw [ih]
      constructor
      · intro h; exact ⟨fun h' => e h'.symm, h⟩
      · intro h; exact h.2

theorem glookup_filter (a : Globals) (ks : List Nat) (k : Nat) :
    glookup (a.filter (fun p => !ks.contains p.1)) k = if k ∈ ks then none else glookup a k := by
  induction a with
  | nil => simp [glookup]
  | cons p r ih =>
    obtain ⟨x, y⟩ := p
    by_cases hx : x ∈ ks
    · have : (!ks.contains x) = false := by simp [hx]
      simp only [List.filter, this, glookup]
      rw [ih]
      by_cases e : x = k
      · subst e; simp [hx]
      · simp [e]
    · have : (!ks.contains x) = true := by simp [hx]
      simp only [List.filter, this, glookup]
      by_cases e : x = k
      · subst e; simp [hx]
      · simp only [e, if_false]; exact ih

/-- `{**a, **b}[k]` -/
theorem glookup_merge (a b : Globals) (k : Nat) :
    glookup (merge a b) k = match glookup b k with | some v => some v | none => glookup a k := by
  unfold merge
  rw [glookup_append, glookup_filter]
  cases hb : glookup b k with
  | some v => rfl
  | none =>
    have := (glookup_none_iff b k).mp hb
    simp [this]

/-- `env.make_globals(g)[k]`: the request's value if it has one, else the environment's -/
theorem glookup_makeGlobals (eg : Globals) (g : Option Globals) (k : Nat) :
    glookup (makeGlobals eg g) k =
      match g.bind (fun g => glookup g k) with | some v => some v | none => glookup eg k := by
  cases g with
  | none => rfl
  | some l =>
    cases l with
    | nil => rfl
    | cons p ps => simp only [makeGlobals, Option.bind]; exact glookup_merge eg (p :: ps) k

/-! ## key strings -/

/-- the key is the bare name without a namespace, `ns/name` with one -/
theorem cacheKey_eq (cfg : Cfg) (name : Str) (ctx : Option (Option Str)) (kw : Option Str) :
    cacheKey cfg name ctx kw =
      match resolveNs cfg ctx kw with | none => name | some ns => ns ++ '/' :: name := by
  unfold cacheKey resolveNs
  cases cfg.nsKey <;> simp
  cases kw with
  | some ns => rfl
  | none =>
    cases ctx with
    | none => rfl
    | some o => cases o <;> rfl

theorem prefix_sep_inj {c : Char} : ∀ (x x' y y' : Str), c ∉ x → c ∉ x' →
    x ++ c :: y = x' ++ c :: y' → x = x' ∧ y = y'
  | [], [], y, y', _, _, h => by simpa using h
  | [], d :: xs', y, y', _, h2, h => by
      simp only [List.nil_append, List.cons_append, List.cons.injEq] at h
      exact absurd (h.1 ▸ List.mem_cons_self) h2
  | d :: xs, [], y, y', h1, _, h => by
      simp only [List.nil_append, List.cons_append, List.cons.injEq] at h
      exact absurd (h.1 ▸ List.mem_cons_self) h1
  | d :: xs, d' :: xs', y, y', h1, h2, h => by
      simp only [List.cons_append, List.cons.injEq] at h
      have := prefix_sep_inj xs xs' y y' (fun m => h1 (List.mem_cons_of_mem _ m))
        (fun m => h2 (List.mem_cons_of_mem _ m)) h.2
      exact ⟨by rw [h.1, this.1], this.2⟩

theorem suffix_sep_inj {c : Char} (x x' y y' : Str) (hy : c ∉ y) (hy' : c ∉ y')
    (h : x ++ c :: y = x' ++ c :: y') : x = x' ∧ y = y' := by
  have hr := congrArg List.reverse h
  simp only [List.reverse_append, List.reverse_cons, List.append_assoc, List.singleton_append] at hr
  have := prefix_sep_inj y.reverse y'.reverse x.reverse x'.reverse (by simpa using hy) (by simpa using hy') hr
  exact ⟨List.reverse_inj.mp this.2, List.reverse_inj.mp this.1⟩

end LiquidVerif.CacheLoader
