import LiquidVerif.Model.CacheLoader
/-!
Helper definitions and lemmas for C23 (`Props/C23.lean`): the hypotheses on the underlying loader,
the cache invariant, LRU membership facts, globals look-up facts, and injectivity of the
`f"{ns}/{name}"` key strings.
-/
namespace LiquidVerif.CacheLoader

instance : DecidableEq (Except Err Resp) := fun a b =>
  match a, b with
  | .ok x, .ok y => if h : x = y then isTrue (by rw [h]) else isFalse (by intro e; cases e; exact h rfl)
  | .error x, .error y => if h : x = y then isTrue (by rw [h]) else isFalse (by intro e; cases e; exact h rfl)
  | .ok _, .error _ => isFalse (by intro e; cases e)
  | .error _, .ok _ => isFalse (by intro e; cases e)

variable {σ η : Type}

/-! ## hypotheses on the underlying loader -/

/-- what a caller of `get_source` can see of its answer once the template is built: text and name -/
def srcObs (x : Except Err (Text × Str × η)) : Except Err (Text × Str) :=
  match x with
  | .error e => .error e
  | .ok (t, f, _) => .ok (t, f)

/-- the underlying loader uses keyword arguments and context only through the namespace that
`namespace_key` names, and `get_source` / `get_source_async` find the same thing -/
def Respects (L : Loader σ η) (cfg : Cfg) : Prop :=
  ∀ s m m' (r r' : Req), ident cfg r = ident cfg r' →
    srcObs (L.getSource s m r.name r.ctx r.kw) = srcObs (L.getSource s m' r'.name r'.ctx r'.kw)

/-- on the stores `P` admits: an `uptodate` that answers `True` means `get_source` would give the
same text and name again; and `is_up_to_date(_async)` does not raise -/
def UptodateSound (L : Loader σ η) (P : σ → Prop) : Prop :=
  ∀ s s' m name ctx kw text full h mu, P s → P s' →
    L.getSource s m name ctx kw = .ok (text, full, h) →
    (L.uptodate s' mu h = .ok true → srcObs (L.getSource s' m name ctx kw) = .ok (text, full)) ∧
    (∀ e, L.uptodate s' mu h ≠ .error e)

/-- distinct (name, namespace) pairs among the requests `R` get distinct cache-key strings -/
def KeyInj (cfg : Cfg) (R : Req → Prop) : Prop :=
  ∀ r r', R r → R r' →
    cacheKey cfg r.name r.ctx r.kw = cacheKey cfg r'.name r'.ctx r'.kw → ident cfg r = ident cfg r'

/-- a cache entry is what the underlying loader produced, at some admitted store, for a request
whose key is the entry's key -/
def Good (L : Loader σ η) (cfg : Cfg) (P : σ → Prop) (R : Req → Prop) (k : Str) (t : Tpl η) : Prop :=
  ∃ r s0 m0, R r ∧ P s0 ∧ k = cacheKey cfg r.name r.ctx r.kw ∧
    L.getSource s0 m0 r.name r.ctx r.kw = .ok (t.text, t.full, t.h) ∧ t.name = basename t.full

def Inv (L : Loader σ η) (cfg : Cfg) (P : σ → Prop) (R : Req → Prop) (c : Cache (Tpl η)) : Prop :=
  ∀ p ∈ c.items, Good L cfg P R p.1 p.2

/-- the response is a template the underlying loader produced for this very request's
(name, namespace) at an admitted store -/
def Served (L : Loader σ η) (P : σ → Prop) (r : Req) (resp : Resp) : Prop :=
  ∃ s0 m full, P s0 ∧ srcObs (L.getSource s0 m r.name r.ctx r.kw) = .ok (resp.text, full) ∧
    resp.name = basename full

def reqsOf : List (Event σ) → List Req
  | [] => []
  | .req r :: evs => r :: reqsOf evs
  | .store _ :: evs => reqsOf evs

def storesOf : List (Event σ) → List σ
  | [] => []
  | .req _ :: evs => storesOf evs
  | .store s :: evs => s :: storesOf evs

/-! ## LRU facts -/

theorem find_some_mem {τ} {l : List (Str × τ)} {k : Str} {v : τ} (h : find l k = some v) : (k, v) ∈ l := by
  induction l with
  | nil => simp [find] at h
  | cons p r ih =>
    obtain ⟨a, b⟩ := p
    simp only [find] at h
    split at h
    · next e => cases h; subst e; exact List.mem_cons_self
    · exact List.mem_cons_of_mem _ (ih h)

theorem mem_eraseKey {τ} {l : List (Str × τ)} {k : Str} {p : Str × τ} (h : p ∈ eraseKey l k) : p ∈ l :=
  (List.mem_filter.mp h).1

theorem getitem_some_mem {τ} {c : Cache τ} {k : Str} {v : τ} (h : (c.getitem k).2 = some v) : (k, v) ∈ c.items := by
  unfold Cache.getitem at h
  cases hf : find c.items k with
  | none => simp [hf] at h
  | some w => simp [hf] at h; subst h; exact find_some_mem hf

theorem getitem_none {τ} {c : Cache τ} {k : Str} (h : (c.getitem k).2 = none) : find c.items k = none := by
  unfold Cache.getitem at h
  cases hf : find c.items k with
  | none => rfl
  | some w => simp [hf] at h

theorem getitem_snd {τ} (c : Cache τ) (k : Str) : (c.getitem k).2 = find c.items k := by
  unfold Cache.getitem; cases find c.items k <;> rfl

theorem mem_getitem {τ} {c : Cache τ} {k : Str} {p : Str × τ} (h : p ∈ (c.getitem k).1.items) : p ∈ c.items := by
  unfold Cache.getitem at h
  cases hf : find c.items k with
  | none => simpa [hf] using h
  | some w =>
    simp only [hf, List.mem_append, List.mem_singleton] at h
    rcases h with h | h
    · exact mem_eraseKey h
    · subst h; exact find_some_mem hf

theorem mem_setitem {τ} {c : Cache τ} {k : Str} {v : τ} {p : Str × τ} (h : p ∈ (c.setitem k v).items) :
    p = (k, v) ∨ p ∈ c.items := by
  unfold Cache.setitem at h
  cases hf : find c.items k with
  | some w =>
    simp only [hf, List.mem_append, List.mem_singleton] at h
    rcases h with h | h
    · exact Or.inr (mem_eraseKey h)
    · exact Or.inl h
  | none =>
    simp only [hf, List.mem_append, List.mem_singleton] at h
    rcases h with h | h
    · right
      split at h
      · exact List.mem_of_mem_tail h
      · exact h
    · exact Or.inl h

theorem mem_mutate {τ} {c : Cache τ} {k : Str} {v : τ} {p : Str × τ} (h : p ∈ (c.mutate k v).items) :
    p = (k, v) ∨ p ∈ c.items := by
  unfold Cache.mutate at h
  simp only [List.mem_map] at h
  obtain ⟨q, hq, e⟩ := h
  split at e
  · exact Or.inl e.symm
  · subst e; exact Or.inr hq

theorem find_append_single {τ} (l : List (Str × τ)) (k x : Str) (v : τ) :
    find (l ++ [(k, v)]) x = match find l x with | some w => some w | none => if k = x then some v else none := by
  induction l with
  | nil => simp [find]
  | cons p r ih =>
    obtain ⟨a, b⟩ := p
    simp only [List.cons_append, find]
    split
    · rfl
    · exact ih

theorem find_eraseKey_self {τ} (l : List (Str × τ)) (k : Str) : find (eraseKey l k) k = none := by
  induction l with
  | nil => rfl
  | cons p r ih =>
    obtain ⟨a, b⟩ := p
    unfold eraseKey at *
    simp only [List.filter]
    by_cases e : a = k
    · simp [e]; simpa using ih
    · simp [e, find]; simpa using ih

theorem find_tail_none {τ} {l : List (Str × τ)} {k : Str} (h : find l k = none) : find l.tail k = none := by
  cases l with
  | nil => rfl
  | cons p r =>
    obtain ⟨a, b⟩ := p
    simp only [find] at h
    split at h
    · cases h
    · exact h

theorem find_setitem_self {τ} (c : Cache τ) (k : Str) (v : τ) : find (c.setitem k v).items k = some v := by
  unfold Cache.setitem
  cases hf : find c.items k with
  | some w => simp [find_append_single, find_eraseKey_self]
  | none =>
    simp only
    split
    · simp [find_append_single, find_tail_none hf]
    · simp [find_append_single, hf]

theorem find_getitem_self {τ} (c : Cache τ) (k : Str) : find (c.getitem k).1.items k = find c.items k := by
  unfold Cache.getitem
  cases hf : find c.items k with
  | none => simp [hf]
  | some w => simp [find_append_single, find_eraseKey_self]

theorem find_mutate_self {τ} (c : Cache τ) (k : Str) (v w : τ) (h : find c.items k = some w) :
    find (c.mutate k v).items k = some v := by
  unfold Cache.mutate
  simp only
  generalize c.items = l at h
  induction l with
  | nil => simp [find] at h
  | cons p r ih =>
    obtain ⟨a, b⟩ := p
    simp only [find] at h
    by_cases e : a = k
    · simp [e, find]
    · simp only [e, if_false] at h
      simp [List.map, e, find, ih h]

/-! ## the two code paths of the mixin are one function of the mode -/

/-- `_check_cache` / `_check_cache_async` with the mode as an argument -/
def checkCacheM (mu : Mode) (L : Loader σ η) (cfg : Cfg) (c : Cache (Tpl η)) (s : σ) (key : Str)
    (g : Option Globals) (loadFunc : Except Err (Tpl η)) : Cache (Tpl η) × Except Err (Tpl η) :=
  match c.getitem key with
  | (c1, none) =>
    match loadFunc with
    | .error e => (c1, .error e)
    | .ok t => (c1.setitem key t, .ok t)
  | (c1, some cached) =>
    let hit : Cache (Tpl η) × Except Err (Tpl η) :=
      let t' := { cached with globals := makeGlobals cfg.eg g }
      (c1.mutate key t', .ok t')
    if cfg.autoReload then
      match L.uptodate s mu cached.h with
      | .error e => (c1, .error e)
      | .ok false =>
        match loadFunc with
        | .error e => (c1, .error e)
        | .ok t => (c1.setitem key t, .ok t)
      | .ok true => hit
    else hit

theorem checkCache_eq (L : Loader σ η) cfg c s key g lf :
    checkCache L cfg c s key g lf = checkCacheM .sync L cfg c s key g lf := rfl

theorem checkCacheAsync_eq (L : Loader σ η) cfg c s key g lf :
    checkCacheAsync L cfg c s key g lf = checkCacheM .async L cfg c s key g lf := rfl

/-- `get_template(_async)` is: key from the request, `_check_cache(_async)` around the base loader's
`load(_async)` with the request's own arguments -/
theorem getTemplate_eq (L : Loader σ η) (cfg : Cfg) (c : Cache (Tpl η)) (s : σ) (r : Req) :
    getTemplate L cfg c s r =
      checkCacheM r.mode L cfg c s (cacheKey cfg r.name r.ctx r.kw) (some (makeGlobals cfg.eg r.globals))
        (refGetTemplate L cfg s r) := by
  unfold getTemplate refGetTemplate
  cases r.mode <;> rfl

/-! ## globals -/

theorem glookup_append (a b : Globals) (k : Nat) :
    glookup (a ++ b) k = match glookup a k with | some v => some v | none => glookup b k := by
  induction a with
  | nil => simp [glookup]
  | cons p r ih =>
    obtain ⟨x, y⟩ := p
    simp only [List.cons_append, glookup]
    split
    · rfl
    · exact ih

theorem glookup_none_iff (b : Globals) (k : Nat) : glookup b k = none ↔ k ∉ gkeys b := by
  induction b with
  | nil => simp [glookup, gkeys]
  | cons p r ih =>
    obtain ⟨x, y⟩ := p
    simp only [glookup, gkeys, List.map_cons, List.mem_cons, not_or]
    by_cases e : x = k
    · simp [e]
    · simp only [e, if_false]
      rw [ih]
      constructor
      · intro h; exact ⟨fun h' => e h'.symm, h⟩
      · intro h; exact h.2

theorem glookup_filter (a : Globals) (ks : List Nat) (k : Nat) :
    glookup (a.filter (fun p => !ks.contains p.1)) k = if k ∈ ks then none else glookup a k := by
  induction a with
  | nil => simp [glookup]
  | cons p r ih =>
    obtain ⟨x, y⟩ := p
    by_cases hx : x ∈ ks
    · have : (!ks.contains x) = false := by simp [hx]
      simp only [List.filter, this, glookup]
      rw [ih]
      by_cases e : x = k
      · subst e; simp [hx]
      · simp [e]
    · have : (!ks.contains x) = true := by simp [hx]
      simp only [List.filter, this, glookup]
      by_cases e : x = k
      · subst e; simp [hx]
      · simp only [e, if_false]; exact ih

/-- `{**a, **b}[k]` -/
theorem glookup_merge (a b : Globals) (k : Nat) :
    glookup (merge a b) k = match glookup b k with | some v => some v | none => glookup a k := by
  unfold merge
  rw [glookup_append, glookup_filter]
  cases hb : glookup b k with
  | some v => rfl
  | none =>
    have := (glookup_none_iff b k).mp hb
    simp [this]

/-- `env.make_globals(g)[k]`: the request's value if it has one, else the environment's -/
theorem glookup_makeGlobals (eg : Globals) (g : Option Globals) (k : Nat) :
    glookup (makeGlobals eg g) k =
      match g.bind (fun g => glookup g k) with | some v => some v | none => glookup eg k := by
  cases g with
  | none => rfl
  | some l =>
    cases l with
    | nil => rfl
    | cons p ps => simp only [makeGlobals, Option.bind]; exact glookup_merge eg (p :: ps) k

/-! ## key strings -/

/-- the key is the bare name without a namespace, `ns/name` with one -/
theorem cacheKey_eq (cfg : Cfg) (name : Str) (ctx : Option (Option Str)) (kw : Option Str) :
    cacheKey cfg name ctx kw =
      match resolveNs cfg ctx kw with | none => name | some ns => ns ++ '/' :: name := by
  unfold cacheKey resolveNs
  cases cfg.nsKey <;> simp
  cases kw with
  | some ns => rfl
  | none =>
    cases ctx with
    | none => rfl
    | some o => cases o <;> rfl

theorem prefix_sep_inj {c : Char} : ∀ (x x' y y' : Str), c ∉ x → c ∉ x' →
    x ++ c :: y = x' ++ c :: y' → x = x' ∧ y = y'
  | [], [], y, y', _, _, h => by simpa using h
  | [], d :: xs', y, y', _, h2, h => by
      simp only [List.nil_append, List.cons_append, List.cons.injEq] at h
      exact absurd (h.1 ▸ List.mem_cons_self) h2
  | d :: xs, [], y, y', h1, _, h => by
      simp only [List.nil_append, List.cons_append, List.cons.injEq] at h
      exact absurd (h.1 ▸ List.mem_cons_self) h1
  | d :: xs, d' :: xs', y, y', h1, h2, h => by
      simp only [List.cons_append, List.cons.injEq] at h
      have := prefix_sep_inj xs xs' y y' (fun m => h1 (List.mem_cons_of_mem _ m))
        (fun m => h2 (List.mem_cons_of_mem _ m)) h.2
      exact ⟨by rw [h.1, this.1], this.2⟩

theorem suffix_sep_inj {c : Char} (x x' y y' : Str) (hy : c ∉ y) (hy' : c ∉ y')
    (h : x ++ c :: y = x' ++ c :: y') : x = x' ∧ y = y' := by
  have hr := congrArg List.reverse h
  simp only [List.reverse_append, List.reverse_cons, List.append_assoc, List.singleton_append] at hr
  have := prefix_sep_inj y.reverse y'.reverse x.reverse x'.reverse (by simpa using hy) (by simpa using hy') hr
  exact ⟨List.reverse_inj.mp this.2, List.reverse_inj.mp this.1⟩

end LiquidVerif.CacheLoader

/-! ## LRU: keys, other keys, no duplicates (deepening round) -/
namespace LiquidVerif.CacheLoader

def ckeys {τ} (l : List (Str × τ)) : List Str := l.map (·.1)

theorem find_none_iff {τ} (l : List (Str × τ)) (k : Str) : find l k = none ↔ k ∉ ckeys l := by
  induction l with
  | nil => simp [find, ckeys]
  | cons p r ih =>
    obtain ⟨a, b⟩ := p
    simp only [find, ckeys, List.map_cons, List.mem_cons, not_or]
    by_cases e : a = k
    · simp [e]
    · simp only [e, if_false]
      rw [ih]
      exact ⟨fun h => ⟨fun h' => e h'.symm, h⟩, fun h => h.2⟩

theorem find_eraseKey_ne {τ} (l : List (Str × τ)) {k x : Str} (h : x ≠ k) :
    find (eraseKey l k) x = find l x := by
  induction l with
  | nil => rfl
  | cons p r ih =>
    obtain ⟨a, b⟩ := p
    unfold eraseKey at *
    by_cases e : a = k
    · subst e
      have : ¬ a = x := fun e' => h e'.symm
      simp [List.filter, find, this]; simpa using ih
    · simp only [List.filter, e, decide_false, Bool.not_false, find]
      split
      · rfl
      · simpa using ih

theorem find_getitem_other {τ} (c : Cache τ) {k x : Str} (h : x ≠ k) :
    find (c.getitem k).1.items x = find c.items x := by
  unfold Cache.getitem
  cases hf : find c.items k with
  | none => rfl
  | some w =>
    simp only [find_append_single, find_eraseKey_ne _ h]
    cases find c.items x with
    | some z => rfl
    | none => simp [Ne.symm h]

theorem find_mutate_other {τ} (c : Cache τ) {k x : Str} (v : τ) (h : x ≠ k) :
    find (c.mutate k v).items x = find c.items x := by
  unfold Cache.mutate
  simp only
  induction c.items with
  | nil => rfl
  | cons p r ih =>
    obtain ⟨a, b⟩ := p
    by_cases e : a = k
    · subst e
      have : ¬ a = x := fun e' => h e'.symm
      simp [List.map, find, this, ih]
    · simp only [List.map, e, if_false, find]
      split
      · rfl
      · exact ih

theorem ckeys_mutate {τ} (c : Cache τ) (k : Str) (v : τ) : ckeys (c.mutate k v).items = ckeys c.items := by
  unfold Cache.mutate ckeys
  simp only [List.map_map]
  apply List.map_congr_left
  intro p _
  simp only [Function.comp]
  split
  · next e => exact e.symm
  · rfl

theorem nodup_ckeys_eraseKey {τ} {l : List (Str × τ)} (k : Str) (h : (ckeys l).Nodup) :
    (ckeys (eraseKey l k)).Nodup := by
  unfold ckeys eraseKey at *
  exact (List.Sublist.map _ List.filter_sublist).nodup h

theorem nodup_ckeys_append {τ} {l : List (Str × τ)} {k : Str} {v : τ} (h : (ckeys l).Nodup)
    (hk : find l k = none) : (ckeys (l ++ [(k, v)])).Nodup := by
  have hk' := (find_none_iff l k).mp hk
  unfold ckeys at *
  simp only [List.map_append, List.map_cons, List.map_nil]
  rw [List.nodup_append]
  refine ⟨h, by simp, ?_⟩
  intro a ha b hb
  simp only [List.mem_singleton] at hb
  subst hb
  intro e; subst e; exact hk' ha

theorem nodup_ckeys_tail {τ} {l : List (Str × τ)} (h : (ckeys l).Nodup) : (ckeys l.tail).Nodup := by
  cases l with
  | nil => exact h
  | cons p r => simp only [ckeys, List.map_cons, List.tail_cons] at *; exact (List.nodup_cons.mp h).2

theorem nodup_getitem {τ} (c : Cache τ) (k : Str) (h : (ckeys c.items).Nodup) :
    (ckeys (c.getitem k).1.items).Nodup := by
  unfold Cache.getitem
  cases hf : find c.items k with
  | none => exact h
  | some w => exact nodup_ckeys_append (nodup_ckeys_eraseKey k h) (find_eraseKey_self _ _)

theorem nodup_setitem {τ} (c : Cache τ) (k : Str) (v : τ) (h : (ckeys c.items).Nodup) :
    (ckeys (c.setitem k v).items).Nodup := by
  unfold Cache.setitem
  cases hf : find c.items k with
  | some w => exact nodup_ckeys_append (nodup_ckeys_eraseKey k h) (find_eraseKey_self _ _)
  | none =>
    simp only
    split
    · exact nodup_ckeys_append (nodup_ckeys_tail h) (find_tail_none hf)
    · exact nodup_ckeys_append h hf

theorem find_tail_sub {τ} {l : List (Str × τ)} {x : Str} {w : τ} (hn : (ckeys l).Nodup)
    (h : find l.tail x = some w) : find l x = some w := by
  cases l with
  | nil => simp [find] at h
  | cons p r =>
    obtain ⟨a, b⟩ := p
    simp only [List.tail_cons] at h
    have hmem : x ∈ ckeys r := by
      have := find_some_mem h
      exact List.mem_map_of_mem (f := (·.1)) this
    have hax : ¬ a = x := by
      simp only [ckeys, List.map_cons] at hn
      intro e; subst e; exact (List.nodup_cons.mp hn).1 hmem
    simp [find, hax, h]

/-- an entry found under another key after a store was there before (it may have been evicted) -/
theorem find_setitem_other_sub {τ} (c : Cache τ) (k : Str) (v : τ) {x : Str} {w : τ}
    (hn : (ckeys c.items).Nodup) (hxk : x ≠ k) (hx : find (c.setitem k v).items x = some w) :
    find c.items x = some w := by
  unfold Cache.setitem at hx
  have hkx : ¬ k = x := fun e => hxk e.symm
  cases hf : find c.items k with
  | some u =>
    simp only [hf] at hx
    rw [find_append_single, find_eraseKey_ne _ hxk] at hx
    cases hfx : find c.items x with
    | some z => rw [hfx] at hx; simpa using hx
    | none => rw [hfx] at hx; simp [hkx] at hx
  | none =>
    simp only [hf] at hx
    by_cases hge : c.items.length ≥ c.cap
    · simp only [hge, if_true] at hx
      rw [find_append_single] at hx
      cases hft : find c.items.tail x with
      | some z => rw [hft] at hx; simp at hx; subst hx; exact find_tail_sub hn hft
      | none => rw [hft] at hx; simp [hkx] at hx
    · simp only [hge, if_false] at hx
      rw [find_append_single] at hx
      cases hfx : find c.items x with
      | some z => rw [hfx] at hx; simpa using hx
      | none => rw [hfx] at hx; simp [hkx] at hx

/-- below capacity a store leaves every other key alone -/
theorem find_setitem_other_noevict {τ} (c : Cache τ) (k : Str) (v : τ) {x : Str} (hxk : x ≠ k)
    (hlt : find c.items k = none → c.items.length < c.cap) :
    find (c.setitem k v).items x = find c.items x := by
  unfold Cache.setitem
  have hkx : ¬ k = x := fun e => hxk e.symm
  cases hf : find c.items k with
  | some u =>
    simp only [find_append_single, find_eraseKey_ne _ hxk]
    cases find c.items x <;> simp [hkx]
  | none =>
    have : ¬ c.items.length ≥ c.cap := by have := hlt hf; omega
    simp only [this, if_false, find_append_single]
    cases find c.items x <;> simp [hkx]

theorem mem_ckeys_getitem {τ} {c : Cache τ} {k x : Str} (h : x ∈ ckeys (c.getitem k).1.items) :
    x ∈ ckeys c.items := by
  unfold ckeys at *
  obtain ⟨p, hp, e⟩ := List.mem_map.mp h
  exact List.mem_map.mpr ⟨p, mem_getitem hp, e⟩

theorem mem_ckeys_setitem {τ} {c : Cache τ} {k x : Str} {v : τ} (h : x ∈ ckeys (c.setitem k v).items) :
    x = k ∨ x ∈ ckeys c.items := by
  unfold ckeys at *
  obtain ⟨p, hp, e⟩ := List.mem_map.mp h
  rcases mem_setitem hp with h1 | h1
  · left; rw [← e, h1]
  · right; exact List.mem_map.mpr ⟨p, h1, e⟩

/-- a duplicate-free list inside `K` is no longer than `K` -/
theorem nodup_subset_length {α} [DecidableEq α] : ∀ (l K : List α), l.Nodup → (∀ x ∈ l, x ∈ K) → l.length ≤ K.length
  | [], _, _, _ => by simp
  | a :: l, K, hn, hs => by
    have ha : a ∈ K := hs a List.mem_cons_self
    have hn' := List.nodup_cons.mp hn
    have := nodup_subset_length l (K.erase a) hn'.2 (by
      intro x hx
      have hxa : x ≠ a := fun e => hn'.1 (e ▸ hx)
      exact (List.mem_erase_of_ne hxa).mpr (hs x (List.mem_cons_of_mem _ hx)))
    rw [List.length_erase_of_mem ha] at this
    have : 0 < K.length := List.length_pos_of_mem ha
    simp only [List.length_cons]; omega

theorem cap_getitem {τ} (c : Cache τ) (k : Str) : (c.getitem k).1.cap = c.cap := by
  unfold Cache.getitem; cases find c.items k <;> rfl

theorem cap_setitem {τ} (c : Cache τ) (k : Str) (v : τ) : (c.setitem k v).cap = c.cap := by
  unfold Cache.setitem; cases find c.items k <;> rfl

theorem getitem_none_eq {τ} (c : Cache τ) (k : Str) (h : find c.items k = none) : c.getitem k = (c, none) := by
  unfold Cache.getitem; rw [h]

end LiquidVerif.CacheLoader
