import LiquidVerif.Model.LexDelims
import LiquidVerif.Lemmas.SpanLex
/-!
Helper lemmas about the piece-level template lexer: group offsets computed from the delimiter lengths
are where the groups are in the assembled source; the token stream does not depend on the delimiters.
-/
namespace LiquidVerif.LexDelimsL
open LiquidVerif.LexDelims LiquidVerif.SpanLex

/-- what the tokens that carry reported locations need from a match -/
def Good (full : List Char) (m : Match) : Prop :=
  (m.kind = .output → Located full m.start m.whole ∧ Located full m.bodyOff m.body) ∧
  (m.kind = .tag → Located full m.nameOff m.name ∧ Located full m.bodyOff m.body)

theorem contentMatches_kind (pos : Nat) (s : List Char) (rstrip : Bool) :
    ∀ m ∈ contentMatches pos s rstrip, m.kind = .content := by
  intro m hm
  unfold contentMatches at hm
  split at hm
  · simp at hm
  · simp [contentMatch] at hm; subst hm; rfl

theorem good_of_kind {full : List Char} {m : Match} (h1 : m.kind ≠ .output) (h2 : m.kind ≠ .tag) : Good full m :=
  ⟨fun h => absurd h h1, fun h => absurd h h2⟩

theorem matchesOf_good (d : Delims) : ∀ (ps : List Piece) (pre : List Char),
    ∀ m ∈ matchesOf d pre.length ps, Good (pre ++ assemble d ps) m := by
  intro ps
  induction ps with
  | nil => intro pre m hm; simp [matchesOf] at hm
  | cons p ps ih =>
    intro pre m hm
    have tail : ∀ (txt : List Char), p.render d = txt →
        m ∈ matchesOf d (pre.length + txt.length) ps → Good (pre ++ assemble d (p :: ps)) m := by
      intro txt htxt h
      have := ih (pre ++ txt) m (by simpa using h)
      simpa [assemble, htxt, List.append_assoc] using this
    cases p with
    | text s =>
      simp only [matchesOf, List.mem_append] at hm
      rcases hm with h | h
      · have hk := contentMatches_kind _ _ _ m h
        exact good_of_kind (by rw [hk]; decide) (by rw [hk]; decide)
      · exact tail s rfl h
    | out lw ws1 e ws2 rw =>
      simp only [matchesOf, List.mem_cons] at hm
      rcases hm with h | h
      · subst h
        refine ⟨fun _ => ⟨⟨pre, assemble d ps, by simp [assemble, pieceMatch], rfl⟩,
          ⟨pre ++ (d.ss ++ (dash lw ++ ws1)), ws2 ++ (dash rw ++ d.se) ++ assemble d ps, ?_, ?_⟩⟩, fun h => by simp [pieceMatch] at h⟩
        · simp [assemble, pieceMatch, Piece.render, List.append_assoc]
        · simp [pieceMatch, Nat.add_assoc]
      · exact tail _ rfl h
    | tag lw ws1 name ws2 e ws3 rw =>
      simp only [matchesOf, List.mem_cons] at hm
      rcases hm with h | h
      · subst h
        refine ⟨fun h => by simp [pieceMatch] at h, fun _ =>
          ⟨⟨pre ++ (d.ts ++ (dash lw ++ ws1)), ws2 ++ (e ++ (ws3 ++ (dash rw ++ d.te))) ++ assemble d ps, ?_, ?_⟩,
           ⟨pre ++ (d.ts ++ (dash lw ++ (ws1 ++ (name ++ ws2)))), ws3 ++ (dash rw ++ d.te) ++ assemble d ps, ?_, ?_⟩⟩⟩
        · simp [assemble, pieceMatch, Piece.render, List.append_assoc]
        · simp [pieceMatch, Nat.add_assoc]
        · simp [assemble, pieceMatch, Piece.render, List.append_assoc]
        · simp [pieceMatch, Nat.add_assoc]
      · exact tail _ rfl h
    | raw lw1 a1 a2 rw1 body lw2 b1 b2 rw2 =>
      simp only [matchesOf, List.mem_cons] at hm
      rcases hm with h | h
      · subst h; exact good_of_kind (by simp [pieceMatch]) (by simp [pieceMatch])
      · exact tail _ rfl h
    | doc lw1 a1 a2 rw1 body lw2 b1 b2 rw2 =>
      simp only [matchesOf, List.mem_cons] at hm
      rcases hm with h | h
      · subst h; exact good_of_kind (by simp [pieceMatch]) (by simp [pieceMatch])
      · exact tail _ rfl h
    | sc body rw =>
      simp only [matchesOf, List.mem_cons] at hm
      rcases hm with h | h
      · subst h; exact good_of_kind (by simp [pieceMatch]) (by simp [pieceMatch])
      · exact tail _ rfl h

theorem tagToks_located (full : List Char) (m : Match) (hn : Located full m.nameOff m.name)
    (hb : Located full m.bodyOff m.body) : ∀ t ∈ tagToks m, Located full t.start t.value := by
  intro t ht
  unfold tagToks at ht
  split at ht
  · simp at ht; subst ht; exact hn
  · simp at ht
    rcases ht with h | h
    · subst h; exact hn
    · subst h; exact hb

theorem contentStep_kind (st : St) (m : Match) : ∀ t ∈ (contentStep st m).2.1, t.kind = .content := by
  intro t ht
  unfold contentStep at ht
  split at ht
  · simp at ht
  · split at ht
    · simp at ht
    · simp at ht; subst ht; rfl

theorem commentStep_located (full : List Char) (st : St) (m : Match) (hg : Good full m) :
    ∀ t ∈ (commentStep st m).2.1, (t.kind = .tag ∨ t.kind = .expression ∨ t.kind = .output) →
      Located full t.start t.value := by
  intro t ht hk
  unfold commentStep at ht
  split at ht
  · next hc =>
    split at ht
    · simp only [List.mem_cons, List.not_mem_nil, or_false] at ht
      rcases ht with h | h
      · subst h; simp at hk
      · subst h
        have : m.kind = .tag := by simp at hc; exact hc.1
        exact (hg.2 this).1
    · simp at ht
  · split at ht <;> simp at ht

/-- tokens of the three location-carrying kinds yielded by one loop iteration sit where they say -/
theorem stepM_located (full : List Char) (st : St) (m : Match) (hg : Good full m) :
    ∀ t ∈ (stepM st m).2.1, (t.kind = .tag ∨ t.kind = .expression ∨ t.kind = .output) →
      Located full t.start t.value := by
  intro t ht hk
  unfold stepM at ht
  split at ht
  · exact commentStep_located full st m hg t ht hk
  · split at ht
    · next hkind =>
      simp only [List.mem_cons, List.not_mem_nil, or_false] at ht
      rcases ht with h | h
      · subst h; exact (hg.1 hkind).1
      · subst h; exact (hg.1 hkind).2
    · next hkind =>
      have hn := (hg.2 hkind).1
      have hb := (hg.2 hkind).2
      split at ht <;> exact tagToks_located full m hn hb t ht
    · simp at ht; subst ht; simp at hk
    · simp at ht; subst ht; simp at hk
    · simp at ht; subst ht; simp at hk
    · have := contentStep_kind st m t ht
      rw [this] at hk; simp at hk

theorem tokenizeM_located (full : List Char) : ∀ (ms : List Match) (st : St),
    (∀ m ∈ ms, Good full m) →
    ∀ t ∈ (tokenizeM st ms).1, (t.kind = .tag ∨ t.kind = .expression ∨ t.kind = .output) →
      Located full t.start t.value := by
  intro ms
  induction ms with
  | nil => intro st _ t ht; simp [tokenizeM] at ht
  | cons m ms ih =>
    intro st hg t ht hk
    have hstep := stepM_located full st m (hg m (by simp))
    simp only [tokenizeM] at ht
    split at ht
    · next st' toks e heq =>
      have : (stepM st m).2.1 = toks := by rw [heq]
      exact hstep t (this ▸ ht) hk
    · next st' toks heq =>
      have h1 : (stepM st m).2.1 = toks := by rw [heq]
      simp only [List.mem_append] at ht
      rcases ht with h | h
      · exact hstep t (h1 ▸ h) hk
      · exact ih st' (fun m' hm' => hg m' (List.mem_cons_of_mem _ hm')) t h hk

theorem lex_located (d : Delims) (ps : List Piece) (t : Tok) (h : t ∈ (lex d ps).1)
    (hk : t.kind = .tag ∨ t.kind = .expression ∨ t.kind = .output) :
    Located (assemble d ps) t.start t.value := by
  have hg := matchesOf_good d ps []
  simp only [List.length_nil, List.nil_append] at hg
  exact tokenizeM_located (assemble d ps) _ _ hg t h hk

/-! ## independence of the delimiters -/

/-- the part of a match that `_tokenize_template` reads and that does not mention delimiters -/
def Sim (m m' : Match) : Prop :=
  m.kind = m'.kind ∧ m.name = m'.name ∧ m.body = m'.body ∧ m.rs = m'.rs ∧ m.rstrip = m'.rstrip ∧
  (m.kind = .content → m.whole = m'.whole)

/-- what is left of a token when positions and delimiter-bearing text are forgotten: kind and value,
except that an `output` token's value (the whole `{{ … }}` text) and a block comment's value (the raw
text between `{% comment %}` and `{% endcomment %}`) are dropped -/
def erase (t : Tok) : TKind × List Char :=
  match t.kind with
  | .output => (.output, [])
  | .comment => (.comment, [])
  | .eof => (.eof, [])
  | k => (k, t.value)

inductive Sims : List Match → List Match → Prop
  | nil : Sims [] []
  | cons {m m' : Match} {ms ms' : List Match} : Sim m m' → Sims ms ms' → Sims (m :: ms) (m' :: ms')

theorem Sims.append {a a' b b' : List Match} (h1 : Sims a a') (h2 : Sims b b') : Sims (a ++ b) (a' ++ b') := by
  induction h1 with
  | nil => simpa using h2
  | cons h _ ih => exact .cons h ih

theorem matchesOf_sim (d d' : Delims) : ∀ (ps : List Piece) (pos pos' : Nat),
    Sims (matchesOf d pos ps) (matchesOf d' pos' ps) := by
  intro ps
  induction ps with
  | nil => intro _ _; simp only [matchesOf]; exact .nil
  | cons p ps ih =>
    intro pos pos'
    cases p with
    | text s =>
      simp only [matchesOf]
      refine Sims.append ?_ (ih _ _)
      unfold contentMatches
      split
      · exact .nil
      · exact .cons ⟨rfl, rfl, rfl, rfl, rfl, fun _ => rfl⟩ .nil
    | out lw ws1 e ws2 rw =>
      simp only [matchesOf]
      exact .cons ⟨rfl, rfl, rfl, rfl, rfl, fun h => by simp [pieceMatch] at h⟩ (ih _ _)
    | tag lw ws1 name ws2 e ws3 rw =>
      simp only [matchesOf]
      exact .cons ⟨rfl, rfl, rfl, rfl, rfl, fun h => by simp [pieceMatch] at h⟩ (ih _ _)
    | raw lw1 a1 a2 rw1 body lw2 b1 b2 rw2 =>
      simp only [matchesOf]
      exact .cons ⟨rfl, rfl, rfl, rfl, rfl, fun h => by simp [pieceMatch] at h⟩ (ih _ _)
    | doc lw1 a1 a2 rw1 body lw2 b1 b2 rw2 =>
      simp only [matchesOf]
      exact .cons ⟨rfl, rfl, rfl, rfl, rfl, fun h => by simp [pieceMatch] at h⟩ (ih _ _)
    | sc body rw =>
      simp only [matchesOf]
      exact .cons ⟨rfl, rfl, rfl, rfl, rfl, fun h => by simp [pieceMatch] at h⟩ (ih _ _)

/-- states agree on what controls the loop -/
def StSim (s s' : St) : Prop := s.lstrip = s'.lstrip ∧ s.depth = s'.depth

/-- the three results of a step agree up to `erase` -/
def OutSim (r r' : St × List Tok × Option Tok) : Prop :=
  StSim r.1 r'.1 ∧ r.2.1.map erase = r'.2.1.map erase ∧ r.2.2.map erase = r'.2.2.map erase

theorem tagToks_sim (m m' : Match) (hn : m.name = m'.name) (hb : m.body = m'.body) :
    (tagToks m).map erase = (tagToks m').map erase := by
  unfold tagToks
  rw [← hb, ← hn]
  split <;> simp [erase]

theorem contentStep_sim (st st' : St) (m m' : Match) (hs : StSim st st') (hrs : m.rstrip = m'.rstrip)
    (hw : m.whole = m'.whole) : OutSim (contentStep st m) (contentStep st' m') := by
  have hst : stripped st m = stripped st' m' := by
    unfold stripped; rw [hs.1, hrs, hw]
  unfold contentStep
  rw [← hst]
  split
  · exact ⟨hs, rfl, rfl⟩
  · split
    · exact ⟨hs, rfl, by simp [erase]⟩
    · exact ⟨hs, by simp [erase], rfl⟩

theorem commentStep_sim (st st' : St) (m m' : Match) (hs : StSim st st') (hk : m.kind = m'.kind)
    (hn : m.name = m'.name) (hr : m.rs = m'.rs) : OutSim (commentStep st m) (commentStep st' m') := by
  unfold commentStep
  rw [← hk, ← hn, ← hs.2, ← hr]
  split
  · split
    · exact ⟨⟨rfl, rfl⟩, by simp [erase], rfl⟩
    · exact ⟨⟨hs.1, rfl⟩, rfl, rfl⟩
  · split
    · exact ⟨⟨hs.1, rfl⟩, rfl, rfl⟩
    · exact ⟨⟨hs.1, rfl⟩, rfl, rfl⟩

theorem stepM_sim (st st' : St) (m m' : Match) (hs : StSim st st') (hm : Sim m m') :
    OutSim (stepM st m) (stepM st' m') := by
  obtain ⟨hk, hn, hb, hr, hrs, hw⟩ := hm
  unfold stepM
  rw [← hs.2, ← hk]
  split
  · exact commentStep_sim st st' m m' hs hk hn hr
  · cases hkind : m.kind <;> simp only
    · exact ⟨⟨hr, rfl⟩, by simp [erase, hb], rfl⟩
    · rw [← hn, ← hr]
      split
      · exact ⟨⟨rfl, rfl⟩, tagToks_sim m m' hn hb, rfl⟩
      · exact ⟨⟨rfl, rfl⟩, tagToks_sim m m' hn hb, rfl⟩
    · exact ⟨⟨hr, rfl⟩, by simp [erase, hb], rfl⟩
    · exact ⟨⟨hr, rfl⟩, by simp [erase, hb], rfl⟩
    · exact ⟨⟨hr, rfl⟩, by simp [erase, hb], rfl⟩
    · exact contentStep_sim st st' m m' hs hrs (hw hkind)

theorem tokenizeM_sim : ∀ (ms ms' : List Match) (st st' : St), Sims ms ms' → StSim st st' →
    (tokenizeM st ms).1.map erase = (tokenizeM st' ms').1.map erase ∧
    (tokenizeM st ms).2.map erase = (tokenizeM st' ms').2.map erase := by
  intro ms ms' st st' h
  induction h generalizing st st' with
  | nil => intro _; simp [tokenizeM]
  | @cons m m' ms ms' hm _ ih =>
    intro hs
    obtain ⟨h1, h2, h3⟩ := stepM_sim st st' m m' hs hm
    simp only [tokenizeM]
    rcases hA : stepM st m with ⟨sa, ta, ea⟩
    rcases hB : stepM st' m' with ⟨sb, tb, eb⟩
    rw [hA, hB] at h1 h2 h3
    simp only at h1 h2 h3
    cases ea with
    | some e =>
      cases eb with
      | some e' => exact ⟨h2, h3⟩
      | none => cases h3
    | none =>
      cases eb with
      | some e' => cases h3
      | none =>
        obtain ⟨i1, i2⟩ := ih sa sb h1
        exact ⟨by simp [h2, i1], i2⟩

end LiquidVerif.LexDelimsL

/-! ## the block-comment token: its value is the source text between `{% comment %}` and `{% endcomment %}` -/
namespace LiquidVerif.LexDelimsL
open LiquidVerif.LexDelims LiquidVerif.SpanLex

theorem located_append {full : List Char} {a : Nat} {x y : List Char} (hx : Located full a x)
    (hy : Located full (a + x.length) y) : Located full a (x ++ y) := by
  obtain ⟨p, q, hf, hp⟩ := hx
  obtain ⟨p', q', hf', hp'⟩ := hy
  have h1 : p ++ x ++ q = p' ++ (y ++ q') := by rw [List.append_assoc, ← hf, hf']
  have hl : (p ++ x).length = p'.length := by simp [hp, hp']
  obtain ⟨e1, e2⟩ := List.append_inj h1 hl
  exact ⟨p, q', by rw [hf, e2]; simp, hp⟩

theorem located_end_nil {full : List Char} {a : Nat} {x : List Char} (hx : Located full a x) :
    Located full (a + x.length) [] := by
  obtain ⟨p, q, hf, hp⟩ := hx
  exact ⟨p ++ x, q, by simp [hf], by simp [hp]⟩

/-- the matches tile the source from `pos` on -/
inductive Chain (full : List Char) : Nat → List Match → Prop
  | nil (pos : Nat) : Chain full pos []
  | cons {pos : Nat} {m : Match} {ms : List Match} : m.start = pos → Located full pos m.whole →
      Chain full (pos + m.whole.length) ms → Chain full pos (m :: ms)

theorem matchesOf_chain (d : Delims) : ∀ (ps : List Piece) (pre : List Char),
    Chain (pre ++ assemble d ps) pre.length (matchesOf d pre.length ps) := by
  intro ps
  induction ps with
  | nil => intro pre; simp only [matchesOf]; exact .nil _
  | cons p ps ih =>
    intro pre
    have step : ∀ (txt : List Char), p.render d = txt →
        Chain (pre ++ assemble d (p :: ps)) (pre.length + txt.length) (matchesOf d (pre.length + txt.length) ps) := by
      intro txt htxt
      have := ih (pre ++ txt)
      simpa [assemble, htxt, List.append_assoc] using this
    have here : ∀ (txt : List Char), p.render d = txt → Located (pre ++ assemble d (p :: ps)) pre.length txt := by
      intro txt htxt
      exact ⟨pre, assemble d ps, by simp [assemble, htxt], rfl⟩
    cases p with
    | text s =>
      simp only [matchesOf, contentMatches]
      split
      · next he =>
        have : s = [] := by simpa using he
        subst this
        simpa using step [] rfl
      · exact .cons rfl (here s rfl) (step s rfl)
    | out lw ws1 e ws2 rw => simp only [matchesOf]; exact .cons rfl (here _ rfl) (step _ rfl)
    | tag lw ws1 name ws2 e ws3 rw => simp only [matchesOf]; exact .cons rfl (here _ rfl) (step _ rfl)
    | raw lw1 a1 a2 rw1 body lw2 b1 b2 rw2 => simp only [matchesOf]; exact .cons rfl (here _ rfl) (step _ rfl)
    | doc lw1 a1 a2 rw1 body lw2 b1 b2 rw2 => simp only [matchesOf]; exact .cons rfl (here _ rfl) (step _ rfl)
    | sc body rw => simp only [matchesOf]; exact .cons rfl (here _ rfl) (step _ rfl)

/-- while inside a block comment, the collected text is the source from `comment_index` up to here -/
def CInv (full : List Char) (st : St) (pos : Nat) : Prop :=
  (st.depth = 0 → st.ctext = []) ∧
  (st.depth ≠ 0 → Located full st.cidx st.ctext ∧ st.cidx + st.ctext.length = pos)

theorem commentStep_cinv (full : List Char) (st : St) (m : Match) (hd : st.depth ≠ 0)
    (hi : CInv full st m.start) (hm : Located full m.start m.whole) :
    CInv full (commentStep st m).1 (m.start + m.whole.length) ∧
    ∀ t ∈ (commentStep st m).2.1, t.kind = .comment → Located full t.start t.value := by
  obtain ⟨hl, he⟩ := hi.2 hd
  have happ : Located full st.cidx (st.ctext ++ m.whole) := located_append hl (by rw [he]; exact hm)
  have hlen : st.cidx + (st.ctext ++ m.whole).length = m.start + m.whole.length := by
    simp only [List.length_append]; omega
  unfold commentStep
  split
  · split
    · refine ⟨⟨fun _ => rfl, fun h => absurd rfl h⟩, ?_⟩
      intro t ht hk
      simp only [List.mem_cons, List.not_mem_nil, or_false] at ht
      rcases ht with h | h
      · subst h; exact hl
      · subst h; simp at hk
    · next hne =>
      refine ⟨⟨fun h => ?_, fun _ => ⟨happ, hlen⟩⟩, by intro t ht; simp at ht⟩
      simp at hne; simp at h; omega
  · split
    · exact ⟨⟨fun h => by simp at h, fun _ => ⟨happ, hlen⟩⟩, by intro t ht; simp at ht⟩
    · exact ⟨⟨fun h => absurd h hd, fun _ => ⟨happ, hlen⟩⟩, by intro t ht; simp at ht⟩

theorem tagToks_kind (m : Match) : ∀ t ∈ tagToks m, t.kind ≠ .comment := by
  intro t ht
  unfold tagToks at ht
  split at ht <;> simp at ht
  · subst ht; simp
  · rcases ht with h | h <;> subst h <;> simp

theorem stepM_cinv (full : List Char) (st : St) (m : Match) (hi : CInv full st m.start)
    (hm : Located full m.start m.whole) :
    CInv full (stepM st m).1 (m.start + m.whole.length) ∧
    ∀ t ∈ (stepM st m).2.1, t.kind = .comment → Located full t.start t.value := by
  unfold stepM
  split
  · next hd => exact commentStep_cinv full st m (by simpa using hd) hi hm
  · next hd =>
    have hd0 : st.depth = 0 := by simpa using hd
    have hc := hi.1 hd0
    have keep : ∀ (b : Bool), CInv full { st with lstrip := b } (m.start + m.whole.length) :=
      fun b => ⟨fun _ => hc, fun h => absurd hd0 h⟩
    split
    · exact ⟨keep _, by intro t ht hk; simp at ht; rcases ht with h | h <;> subst h <;> simp at hk⟩
    · split
      · refine ⟨⟨fun h => by simp at h, fun _ => ?_⟩, fun t ht hk => absurd hk (tagToks_kind m t ht)⟩
        simp only [hc, List.length_nil, Nat.add_zero, and_true]
        exact located_end_nil hm
      · exact ⟨keep _, fun t ht hk => absurd hk (tagToks_kind m t ht)⟩
    · exact ⟨keep _, by intro t ht hk; simp at ht; subst ht; simp at hk⟩
    · exact ⟨keep _, by intro t ht hk; simp at ht; subst ht; simp at hk⟩
    · exact ⟨keep _, by intro t ht hk; simp at ht; subst ht; simp at hk⟩
    · have hk := contentStep_kind st m
      have hs : (contentStep st m).1 = st := by
        unfold contentStep; split <;> (try split) <;> rfl
      rw [hs]
      exact ⟨⟨fun _ => hc, fun h => absurd hd0 h⟩, fun t ht hkc => by rw [hk t ht] at hkc; simp at hkc⟩

theorem tokenizeM_comment (full : List Char) : ∀ (ms : List Match) (st : St) (pos : Nat),
    Chain full pos ms → CInv full st pos →
    ∀ t ∈ (tokenizeM st ms).1, t.kind = .comment → Located full t.start t.value := by
  intro ms st pos hc
  induction hc generalizing st with
  | nil => intro _ t ht; simp [tokenizeM] at ht
  | @cons pos m ms hs hl _ ih =>
    intro hi t ht hk
    subst hs
    obtain ⟨h1, h2⟩ := stepM_cinv full st m hi hl
    simp only [tokenizeM] at ht
    split at ht
    · next st' toks e heq =>
      have : (stepM st m).2.1 = toks := by rw [heq]
      exact h2 t (this ▸ ht) hk
    · next st' toks heq =>
      have e1 : (stepM st m).2.1 = toks := by rw [heq]
      have e2 : (stepM st m).1 = st' := by rw [heq]
      simp only [List.mem_append] at ht
      rcases ht with h | h
      · exact h2 t (e1 ▸ h) hk
      · exact ih st' (e2 ▸ h1) t h hk

theorem lex_comment_located (d : Delims) (ps : List Piece) (t : Tok) (h : t ∈ (lex d ps).1)
    (hk : t.kind = .comment) : Located (assemble d ps) t.start t.value := by
  have hc := matchesOf_chain d ps []
  simp only [List.length_nil, List.nil_append] at hc
  exact tokenizeM_comment (assemble d ps) _ {} 0 hc ⟨fun _ => rfl, fun h => absurd rfl h⟩ t h hk

end LiquidVerif.LexDelimsL
