import LiquidVerif.Model.Scope
/-! Helper lemmas for the scope model (C14, C15). -/
namespace LiquidVerif.Scope

/-! ## association lists -/

theorem dictGet_dictSet {α} (d : List (String × α)) (k k' : String) (v : α) :
    dictGet (dictSet d k v) k' = if k = k' then some v else dictGet d k' := by
  induction d with
  | nil => simp [dictSet, dictGet]
  | cons p r ih =>
    obtain ⟨a, b⟩ := p
    by_cases h : a = k
    · subst h; by_cases h2 : a = k' <;> simp [dictSet, dictGet, h2]
    · by_cases h2 : a = k'
      · subst h2; simp [dictSet, dictGet, h]; intro h3; exact absurd h3.symm h
      · simp [dictSet, dictGet, h, h2, ih]

/-- the last binding of `k` in a list of pairs -/
def lastOf {α} : List (String × α) → String → Option α
  | [], _ => none
  | (k', v) :: r, k =>
    match lastOf r k with
    | some x => some x
    | none => if k' = k then some v else none

theorem dictGet_foldl_dictSet {α} (b a : List (String × α)) (k : String) :
    dictGet (b.foldl (fun d p => dictSet d p.1 p.2) a) k =
      match lastOf b k with | some v => some v | none => dictGet a k := by
  induction b generalizing a with
  | nil => simp [lastOf]
  | cons p r ih =>
    obtain ⟨k', v⟩ := p
    simp only [List.foldl_cons, ih, lastOf]
    cases h : lastOf r k with
    | some x => simp
    | none =>
      simp only [dictGet_dictSet]
      by_cases hk : k' = k <;> simp [hk]

/-- `{**a, **b}[k]`: the (last) binding in `b`, else the one in `a` -/
theorem dictGet_dictMerge {α} (a b : List (String × α)) (k : String) :
    dictGet (dictMerge a b) k = match lastOf b k with | some v => some v | none => dictGet a k :=
  dictGet_foldl_dictSet b a k

theorem dictGet_dictOf {α} (b : List (String × α)) (k : String) : dictGet (dictOf b) k = lastOf b k := by
  have := dictGet_foldl_dictSet b [] k
  simp only [dictOf, this]
  cases lastOf b k <;> simp [dictGet]

theorem lastOf_eq_dictGet {α} (b : List (String × α)) (k : String) (h : (b.map (·.1)).Nodup) :
    lastOf b k = dictGet b k := by
  induction b with
  | nil => rfl
  | cons p r ih =>
    obtain ⟨k', v⟩ := p
    simp only [List.map_cons, List.nodup_cons] at h
    simp only [lastOf, dictGet, ih h.2]
    by_cases hk : k' = k
    · subst hk
      have : dictGet r k' = none := by
        have hn := h.1
        clear ih h
        induction r with
        | nil => rfl
        | cons q r ih2 =>
          obtain ⟨a, b⟩ := q
          simp only [List.map_cons, List.mem_cons, not_or] at hn
          simp [dictGet, Ne.symm hn.1, ih2 hn.2]
      simp [this]
    · simp only [hk, if_false]
      cases dictGet r k <;> rfl

/-! ## the chain -/

theorem lookupChain_append (a b : List NS) (k : String) :
    lookupChain (a ++ b) k = match lookupChain a k with | some v => some v | none => lookupChain b k := by
  induction a with
  | nil => simp [lookupChain]
  | cons ns r ih =>
    simp only [List.cons_append, lookupChain]
    cases dictGet ns k <;> simp [ih]

/-! ## results -/

theorem popRes_ok {r : Res} {st' o} (h : popRes r = .ok (st', o)) :
    ∃ st1, r = .ok (st1, o) ∧ st' = { st1 with pushed := st1.pushed.tail } := by
  unfold popRes at h
  split at h
  · cases h
  · cases h; exact ⟨_, rfl, rfl⟩

theorem popLoopRes_ok {r : Res} {st' o} (h : popLoopRes r = .ok (st', o)) :
    ∃ st1, r = .ok (st1, o) ∧ st' = { st1 with pushed := st1.pushed.tail, loops := st1.loops.tail } := by
  unfold popLoopRes at h
  split at h
  · cases h
  · cases h; exact ⟨_, rfl, rfl⟩

theorem popCatchRes_ok {r : Res} {st' o} (h : popCatchRes r = .ok (st', o)) :
    ∃ st1, r = .ok (st1, o) ∧ st' = { st1 with pushed := st1.pushed.tail, stopped := false } := by
  unfold popCatchRes at h
  split at h
  · cases h
  · cases h; exact ⟨_, rfl, rfl⟩

theorem extendsRes_ok {r : Res} {st' o} (h : extendsRes r = .ok (st', o)) :
    ∃ st1, r = .ok (st1, o) ∧ st' = { st1 with pushed := st1.pushed.tail, stacks := [], stopped := true } := by
  unfold extendsRes at h
  split at h
  · cases h
  · cases h; exact ⟨_, rfl, rfl⟩

theorem rowRes_ok {r : Res} {st' o} (h : rowRes r = .ok (st', o)) :
    ∃ st1 o1, r = .ok (st1, o1) ∧ st' = { st1 with pushed := st1.pushed.tail } := by
  unfold rowRes at h
  split at h
  · cases h
  · cases h; exact ⟨_, _, rfl, rfl⟩

theorem keepStopRes_ok {st : St} {r : Res} {st' o} (h : keepStopRes st r = .ok (st', o)) :
    ∃ st1, r = .ok (st1, o) ∧ st' = { st with stopped := st1.stopped } := by
  unfold keepStopRes at h
  split at h
  · cases h
  · cases h; exact ⟨_, rfl, rfl⟩

theorem keepRes_ok {st : St} {r : Res} {st' o} (h : keepRes st r = .ok (st', o)) :
    st' = st ∧ ∃ st1, r = .ok (st1, o) := by
  unfold keepRes at h
  split at h
  · cases h
  · cases h; exact ⟨rfl, _, rfl⟩

/-! ## push / pop balance (functional induction over the six mutually recursive render functions) -/


/-- a successful result leaves the pushed namespaces and the loop stack as they were -/
def Bal (st : St) (r : Res) : Prop := ∀ st' o, r = .ok (st', o) → st'.pushed = st.pushed ∧ st'.loops = st.loops
/-- … up to their innermost entry (which a `for` iteration rewrites) -/
def BalT (st : St) (r : Res) : Prop := ∀ st' o, r = .ok (st', o) → st'.pushed.tail = st.pushed.tail ∧ st'.loops.tail = st.loops.tail
/-- … up to the innermost pushed namespace (which `include … for` rewrites) -/
def BalI (st : St) (r : Res) : Prop := ∀ st' o, r = .ok (st', o) → st'.pushed.tail = st.pushed.tail ∧ st'.loops = st.loops

theorem bal_pop {st st1 : St} {r : Res} (hp : st1.pushed.tail = st.pushed) (hl : st1.loops = st.loops)
    (h : BalI st1 r) : Bal st (popRes r) := by
  intro st' o hr
  obtain ⟨s1, h1, h2⟩ := popRes_ok hr
  obtain ⟨a, b⟩ := h s1 o h1
  subst h2
  exact ⟨by simp only [a, hp], by simp only [b, hl]⟩

theorem bal_balI {st : St} {r : Res} (h : Bal st r) : BalI st r := by
  intro st' o hr
  obtain ⟨a, b⟩ := h st' o hr
  exact ⟨by rw [a], b⟩

theorem bal_popLoop {st st1 : St} {r : Res} (hp : st1.pushed.tail = st.pushed) (hl : st1.loops.tail = st.loops)
    (h : BalT st1 r) : Bal st (popLoopRes r) := by
  intro st' o hr
  obtain ⟨s1, h1, h2⟩ := popLoopRes_ok hr
  obtain ⟨a, b⟩ := h s1 o h1
  subst h2
  exact ⟨by simp only [a, hp], by simp only [b, hl]⟩

theorem bal_keep {st : St} {r : Res} : Bal st (keepRes st r) := by
  intro st' o hr
  obtain ⟨a, _⟩ := keepRes_ok hr
  subst a; exact ⟨rfl, rfl⟩


theorem bal_popCatch {st st1 : St} {r : Res} (hp : st1.pushed.tail = st.pushed) (hl : st1.loops = st.loops)
    (h : BalI st1 r) : Bal st (popCatchRes r) := by
  intro st' o hr
  obtain ⟨s1, h1, h2⟩ := popCatchRes_ok hr
  obtain ⟨a, b⟩ := h s1 o h1
  subst h2
  exact ⟨by simp only [a, hp], by simp only [b, hl]⟩

theorem bal_extends {st st1 : St} {r : Res} (hp : st1.pushed.tail = st.pushed) (hl : st1.loops = st.loops)
    (h : BalI st1 r) : Bal st (extendsRes r) := by
  intro st' o hr
  obtain ⟨s1, h1, h2⟩ := extendsRes_ok hr
  obtain ⟨a, b⟩ := h s1 o h1
  subst h2
  exact ⟨by simp only [a, hp], by simp only [b, hl]⟩

theorem bal_row {st st1 : St} {r : Res} (hp : st1.pushed.tail = st.pushed) (hl : st1.loops = st.loops)
    (h : BalI st1 r) : Bal st (rowRes r) := by
  intro st' o hr
  obtain ⟨s1, o1, h1, h2⟩ := rowRes_ok hr
  obtain ⟨a, b⟩ := h s1 o1 h1
  subst h2
  exact ⟨by simp only [a, hp], by simp only [b, hl]⟩

theorem bal_keepStop {st : St} {r : Res} : Bal st (keepStopRes st r) := by
  intro st' o hr
  obtain ⟨s1, _, h2⟩ := keepStopRes_ok hr
  subst h2; exact ⟨rfl, rfl⟩

theorem balanced_aux (E : Env) :
    (∀ G st n, Bal st (render E G st n)) ∧
    (∀ G st key n args pg i items body, True ∨ iterRen E G st key n args pg i items body = .error .undefined) ∧
    (∀ G st body, Bal st (renderPartial E G st body)) ∧
    (∀ G st ns, Bal st (renderList E G st ns)) ∧
    (∀ G st key items body, BalI st (iterInc E G st key items body)) ∧
    (∀ G st var n i items body, BalI st (iterRow E G st var n i items body)) ∧
    (∀ G st var label n parent i items body, BalT st (iterFor E G st var label n parent i items body)) := by
  apply render.mutual_induct E
    (motive1 := fun G st n => Bal st (render E G st n))
    (motive2 := fun G st key n args pg i items body => True ∨ iterRen E G st key n args pg i items body = .error .undefined)
    (motive3 := fun G st body => Bal st (renderPartial E G st body))
    (motive4 := fun G st ns => Bal st (renderList E G st ns))
    (motive5 := fun G st key items body => BalI st (iterInc E G st key items body))
    (motive6 := fun G st var n i items body => BalI st (iterRow E G st var n i items body))
    (motive7 := fun G st var label n parent i items body => BalT st (iterFor E G st var label n parent i items body))
  all_goals try (intros; exact Or.inl trivial)
  all_goals try (intros; simp_all [Bal, BalT, BalI, render, renderList, renderPartial, iterFor, iterInc, iterRow]; done)
  case case12 =>
    intro G st c body els r hx h1 h2 ih
    simp only [render, hx, h1, h2]; exact ih
  case case13 =>
    intro G st c body els r hx h1 h2 ih
    simp only [render, hx, h1, h2]; exact ih
  case case16 =>
    intro G st var label it body els r hx h1 h2 ih
    simp only [render, hx, h1]; simp only [h2]; exact ih
  case case17 =>
    intro G st var label it body els r hx h1 h2 h3
    simp only [render, hx, h1]; simp only [h2, h3]
    intro st' o h; simp at h
  case case18 =>
    intro G st var label it body els r hx h1 h2 h3 h4
    simp only [render, hx, h1]; simp only [h2, h3, h4]
    intro st' o h; simp at h
  case case19 =>
    intro G st var label it body els r hx h1 h2 h3 h4 ih
    simp only [render, hx, h1]; simp only [h2, h3, h4]
    exact bal_popLoop rfl rfl ih
  case case22 =>
    intro G st var it body r hx h1 h2
    simp only [render, hx, h1]; simp only [h2]
    intro st' o h; simp at h
  case case23 =>
    intro G st var it body r hx h1 h2 h3
    simp only [render, hx, h1]; simp only [h2, h3]
    intro st' o h; simp at h
  case case24 =>
    intro G st var it body r hx h1 h2 h3 ih
    simp only [render, hx, h1]; simp only [h2, h3]
    exact bal_row (st1 := { st with pushed := [("tablerowloop", rowDrop (iterItems E.cfg r).length 0)] :: st.pushed }) rfl rfl ih
  case case28 =>
    intro G st args body ns hx h0 h ih
    simp only [render, hx, h0, h]
    exact bal_pop (st1 := { st with pushed := dictOf ns :: st.pushed }) rfl rfl (bal_balI ih)
  case case36 =>
    intro G st name bind args h1 body hl ns hx h0 h ih
    have h1' : G.noInclude = false := by simpa using h1
    simp only [h1'] at ih
    simp only [render, h1', hl, hx, h0, h, Bool.false_eq_true, if_false]
    apply bal_pop (st1 := { st with pushed := dictOf ns :: st.pushed }) rfl rfl
    cases bind with
    | none => exact bal_balI ih
    | some p =>
      obtain ⟨e, alias⟩ := p
      simp only at ih ⊢
      split
      · intro st' o hh; cases hh
      · split
        · intro st' o hh; cases hh
        · split
          · exact ih.1 _
          · intro st' o hh
            obtain ⟨a, b⟩ := ih.2 _ st' o hh
            exact ⟨by simp only [a, List.tail_cons], by simp only [b]⟩
  case case40 =>
    intro G st name bind args body hl ns hx h ih
    simp only [render, hl, hx, h]
    exact bal_keep
  case case46 =>
    intro G st name pos kw m hm ns hx h ih
    simp only [render, hm, hx, h]
    exact bal_keepStop
  case case48 =>
    intro G st name body item tail hx h ih
    simp only [render, hx, h]
    exact bal_keepStop
  case case51 =>
    intro G st name body h1 h2 hx ih
    simp only [render]
    split
    · rename_i hb; exact absurd hb h1
    · first
      | exact bal_pop (st1 := { st with pushed := [("block", Val.drop)] :: st.pushed }) rfl rfl (bal_balI ih)
      | (simp only [h2]; exact bal_pop (st1 := { st with pushed := [("block", Val.drop)] :: st.pushed }) rfl rfl (bal_balI ih))
  case case57 =>
    intro G st name nm stk hx base stk' hc h1 h2 ih
    simp only [render, hx, hc, h1, h2]
    exact bal_extends (st1 := { st with stacks := stk', pushed := [("partial", Val.bool false)] :: st.pushed }) rfl rfl (bal_balI ih)
  case case64 =>
    intro G st body h1 h2 ih
    rw [renderPartial]; simp only [h1, h2]
    exact bal_popCatch (st1 := { st with pushed := [("partial", .bool true)] :: st.pushed }) rfl rfl (bal_balI ih)

end LiquidVerif.Scope
