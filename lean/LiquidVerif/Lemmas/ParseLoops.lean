import LiquidVerif.Model.ParseLoops
/-! Helper lemmas for C09 (parser side). -/
namespace LiquidVerif.ParseLoops

/-- one iteration of the `parse_block` / `_parse` loop that does not raise: the loop goes on with the tail of the
stream the tag parser left (`next(stream)`) -/
theorem blockLoop_step (cfg : Cfg) (ends : List String) (d : Nat) (t : Tok) (r : List Tok)
    (hend : t.isTagIn ends = false) (hok : (getNode cfg d t r).1.err = none) :
    (blockLoop cfg ends d (t :: r)).1.rest =
      (blockLoop cfg ends (getNode cfg d t r).1.depth (getNode cfg d t r).1.rest.tail).1.rest ∧
    (blockLoop cfg ends d (t :: r)).1.err =
      (blockLoop cfg ends (getNode cfg d t r).1.depth (getNode cfg d t r).1.rest.tail).1.err := by
  rw [blockLoop]
  simp only [hend, Bool.false_eq_true, if_false]
  split
  · rename_i e heq; rw [hok] at heq; cases heq
  · exact ⟨rfl, rfl⟩

theorem blockLoop_nil (cfg : Cfg) (ends : List String) (d : Nat) :
    (blockLoop cfg ends d []).1 = ok [] [] d 0 := by
  rw [blockLoop]

theorem caseLoop_nil (cfg : Cfg) (d : Nat) : (caseLoop cfg d []).1.err = some .syntax := by
  rw [caseLoop]
  · rfl
  · intro n r h; cases h

theorem recover_lax (cfg : Cfg) (hl : cfg.lax = true) (be : Option String) (t : Tok) (r : List Tok) (p : PR)
    (hw : wl p.rest ≤ wl r) (hk : p.iters + phi p.rest ≤ wl r) (k : String) :
    (recover cfg be t r p hw hk k).1.err = none := by
  unfold recover
  simp only
  split
  · rename_i h
    split <;> simp [h]
  · simp only [hl, Bool.not_true, Bool.false_eq_true, if_false]
    split <;> rfl

theorem ite_prop {α : Sort _} (P : α → Prop) (c : Prop) [Decidable c] (a b : α) (ha : P a) (hb : P b) :
    P (if c then a else b) := by
  split <;> assumption

/-- In LAX/WARN mode `Tag.get_node` never lets an error out. -/
theorem getNode_lax_ok (cfg : Cfg) (hl : cfg.lax = true) (d : Nat) (t : Tok) (r : List Tok) :
    (getNode cfg d t r).1.err = none := by
  cases t with
  | tag n =>
    unfold getNode
    simp only
    repeat (first
      | exact recover_lax cfg hl _ _ _ _ _ _ _
      | rfl
      | rw [if_pos hl]
      | apply ite_prop (fun x : ResN (Tok.tag n) r => x.1.err = none)
      | split)
  | expr inner => rw [getNode, if_pos hl]; rfl
  | output =>
    rw [getNode]
    apply ite_prop (fun x : ResN Tok.output r => x.1.err = none)
    · rfl
    · rw [if_pos hl]; rfl
  | content => rw [getNode]; rfl
  | comment => rw [getNode]; rfl
  | doc => rw [getNode]; rfl

/-- In LAX/WARN mode the top-level loop of the parser (`ends = []`) runs to the end of the stream without raising. -/
theorem blockLoop_lax_total (cfg : Cfg) (hl : cfg.lax = true) :
    ∀ n ts d, wl ts = n → (blockLoop cfg [] d ts).1.err = none ∧ (blockLoop cfg [] d ts).1.rest = [] := by
  intro n
  induction n using Nat.strongRecOn with
  | ind n ih =>
    intro ts d hn
    cases ts with
    | nil => rw [blockLoop_nil]; exact ⟨rfl, rfl⟩
    | cons t r =>
      have hend : t.isTagIn [] = false := by cases t <;> simp [Tok.isTagIn]
      have hok := getNode_lax_ok cfg hl d t r
      obtain ⟨h1, h2⟩ := blockLoop_step cfg [] d t r hend hok
      have hlt := wl_tail_lt (getNode cfg d t r).2.w
      obtain ⟨i1, i2⟩ := ih _ (by rw [← hn]; exact hlt) (getNode cfg d t r).1.rest.tail (getNode cfg d t r).1.depth rfl
      exact ⟨by rw [h2]; exact i1, by rw [h1]; exact i2⟩

/-- the number of completed loop passes of a whole parse, plus the potential of what an exception left unread,
is at most the weight of the token stream -/
theorem parseTemplate_steps (cfg : Cfg) (ts : List Tok) :
    (parseTemplate cfg ts).iters + phi (parseTemplate cfg ts).rest ≤ wl ts :=
  (blockLoop cfg [] 0 ts).2.k

end LiquidVerif.ParseLoops
