import LiquidVerif.Model.MemoHist
/-! Lemmas for C17: a sound memo (every stored value is `f` of its stored key) stays sound; a hit on a sound memo
    returns `f` of the stored key; bounded size. -/
namespace LiquidVerif.MemoHist

section
variable {K V : Type}

/-- every stored value is the function's value at the stored key -/
def Sound (f : K → V) (m : List (K × V)) : Prop := ∀ p ∈ m, p.2 = f p.1

theorem find_mem {keq : K → K → Bool} {k : K} {m : List (K × V)} {p : K × V} (h : find keq k m = some p) :
    p ∈ m ∧ keq k p.1 = true := by
  induction m with
  | nil => simp [find] at h
  | cons q r ih =>
    obtain ⟨k', v⟩ := q
    simp only [find] at h
    split at h
    · cases h; exact ⟨List.mem_cons_self, by assumption⟩
    · obtain ⟨h1, h2⟩ := ih h; exact ⟨List.mem_cons_of_mem _ h1, h2⟩

theorem find_none {keq : K → K → Bool} {k : K} {m : List (K × V)} (h : find keq k m = none) :
    ∀ p ∈ m, keq k p.1 = false := by
  induction m with
  | nil => intro p hp; cases hp
  | cons q r ih =>
    obtain ⟨k', v⟩ := q
    simp only [find] at h
    split at h
    · cases h
    · intro p hp
      cases hp with
      | head => simpa using ‹¬keq k k' = true›
      | tail _ hp' => exact ih h p hp'

theorem remove_subset {keq : K → K → Bool} {k : K} {m : List (K × V)} : ∀ p ∈ remove keq k m, p ∈ m := by
  induction m with
  | nil => intro p hp; cases hp
  | cons q r ih =>
    obtain ⟨k', v⟩ := q
    intro p hp
    simp only [remove] at hp
    split at hp
    · exact List.mem_cons_of_mem _ hp
    · cases hp with
      | head => exact List.mem_cons_self
      | tail _ hp' => exact List.mem_cons_of_mem _ (ih p hp')

theorem remove_length {keq : K → K → Bool} {k : K} {m : List (K × V)} {p : K × V} (h : find keq k m = some p) :
    (remove keq k m).length + 1 = m.length := by
  induction m with
  | nil => simp [find] at h
  | cons q r ih =>
    obtain ⟨k', v⟩ := q
    simp only [find] at h
    simp only [remove]
    split at h
    · rw [if_pos (by assumption)]; simp
    · rw [if_neg (by assumption)]; simp [ih h]

theorem call_sound {keq : K → K → Bool} {f : K → V} {cap : Nat} {m : List (K × V)} (k : K) (hs : Sound f m) :
    Sound f (call keq f cap m k).2 := by
  unfold call
  cases hf : find keq k m with
  | some p =>
    obtain ⟨k', v⟩ := p
    intro q hq
    simp only [List.mem_append, List.mem_singleton] at hq
    rcases hq with hq | hq
    · exact hs q (remove_subset q hq)
    · rw [hq]; exact hs _ (find_mem hf).1
  | none =>
    simp only
    split
    · exact hs
    · intro q hq
      have := List.mem_of_mem_drop hq
      simp only [List.mem_append, List.mem_singleton] at this
      rcases this with h1 | h1
      · exact hs q h1
      · rw [h1]

theorem run_sound {keq : K → K → Bool} {f : K → V} {cap : Nat} : ∀ (hist : List K) (m : List (K × V)),
    Sound f m → Sound f (run keq f cap m hist) := by
  intro hist
  induction hist with
  | nil => intro m hs; exact hs
  | cons k ks ih => intro m hs; exact ih _ (call_sound k hs)

/-- on a sound memo, a call returns `f` of the stored key it hit, or `f k` -/
theorem call_result {keq : K → K → Bool} {f : K → V} {cap : Nat} {m : List (K × V)} (k : K) (hs : Sound f m) :
    (call keq f cap m k).1 = f k ∨ ∃ k', keq k k' = true ∧ (call keq f cap m k).1 = f k' := by
  unfold call
  cases hf : find keq k m with
  | some p =>
    obtain ⟨k', v⟩ := p
    right
    exact ⟨k', (find_mem hf).2, hs _ (find_mem hf).1⟩
  | none =>
    left
    simp only
    split <;> rfl

theorem call_length_le {keq : K → K → Bool} {f : K → V} {cap : Nat} {m : List (K × V)} (k : K)
    (h : m.length ≤ cap) : (call keq f cap m k).2.length ≤ cap := by
  unfold call
  cases hf : find keq k m with
  | some p =>
    obtain ⟨k', v⟩ := p
    simp only [List.length_append, List.length_singleton]
    have := remove_length hf
    omega
  | none =>
    simp only
    split
    · exact h
    · simp only [List.length_drop, List.length_append, List.length_singleton]; omega

theorem run_length_le {keq : K → K → Bool} {f : K → V} {cap : Nat} : ∀ (hist : List K) (m : List (K × V)),
    m.length ≤ cap → (run keq f cap m hist).length ≤ cap := by
  intro hist
  induction hist with
  | nil => intro m h; exact h
  | cons k ks ih => intro m h; exact ih _ (call_length_le k h)

end

section
variable {K V : Type}

theorem mem_call {keq : K → K → Bool} {f : K → V} {cap : Nat} {m : List (K × V)} (k : K) :
    ∀ p ∈ (call keq f cap m k).2, p ∈ m ∨ p.1 = k := by
  unfold call
  cases hf : find keq k m with
  | some q =>
    obtain ⟨k', v⟩ := q
    intro p hp
    simp only [List.mem_append, List.mem_singleton] at hp
    rcases hp with hp | hp
    · exact .inl (remove_subset p hp)
    · rw [hp]; exact .inl (find_mem hf).1
  | none =>
    simp only
    split
    · intro p hp; exact .inl hp
    · intro p hp
      have := List.mem_of_mem_drop hp
      simp only [List.mem_append, List.mem_singleton] at this
      rcases this with h1 | h1
      · exact .inl h1
      · right; rw [h1]

theorem mem_run {keq : K → K → Bool} {f : K → V} {cap : Nat} : ∀ (hist : List K) (m : List (K × V)),
    ∀ p ∈ run keq f cap m hist, p ∈ m ∨ p.1 ∈ hist := by
  intro hist
  induction hist with
  | nil => intro m p hp; exact .inl hp
  | cons k ks ih =>
    intro m p hp
    rcases ih _ p hp with h | h
    · rcases mem_call k p h with h2 | h2
      · exact .inl h2
      · right; rw [h2]; exact List.mem_cons_self
    · exact .inr (List.mem_cons_of_mem _ h)

end

theorem canon_of_pyEq {a b : PyKey} (h : pyEq a b = true) : canon a = canon b := by
  simpa [pyEq] using h

theorem map_canon_of_keyEq : ∀ {a b : List PyKey}, keyEq a b = true → a.map canon = b.map canon := by
  intro a
  induction a with
  | nil => intro b h; cases b with
    | nil => rfl
    | cons y ys => simp [keyEq] at h
  | cons x xs ih => intro b h; cases b with
    | nil => simp [keyEq] at h
    | cons y ys =>
      simp only [keyEq, Bool.and_eq_true] at h
      simp only [List.map_cons, canon_of_pyEq h.1, ih h.2]

/-- `lru_cache` key equality is at most argument-tuple equality -/
theorem keyEq_of_lruKeyEq {a b : List PyKey} (h : lruKeyEq a b = true) : keyEq a b = true := by
  unfold lruKeyEq at h
  split at h
  · rename_i x y
    simp only [keyEq, Bool.and_true]
    split at h
    · simp only [Bool.and_eq_true] at h; exact h.2
    · exact h
  · exact h

theorem map_canon_of_lruKeyEq {a b : List PyKey} (h : lruKeyEq a b = true) : a.map canon = b.map canon :=
  map_canon_of_keyEq (keyEq_of_lruKeyEq h)

theorem keyEq_refl : ∀ (a : List PyKey), keyEq a a = true := by
  intro a
  induction a with
  | nil => rfl
  | cons x xs ih => simp [keyEq, pyEq, ih]

end LiquidVerif.MemoHist
