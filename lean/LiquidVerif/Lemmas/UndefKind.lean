import LiquidVerif.Model.UndefKind
/-!
Simulation lemmas for C16: every operation of `Model/UndefKind.lean`, run on a value whose undefined objects are
of any kind, either raises or returns what the same operation returns on the *relaxed* value (every undefined
object replaced by the default `Undefined`).
-/
namespace LiquidVerif.UndefKind

/-- replace an undefined object of any kind by the default `Undefined` -/
def relax : Val → Val
  | .data d => .data d
  | .undef _ => .undef .dflt

def relaxScope (s : Scope) : Scope := s.map (fun kv => (kv.1, relax kv.2))

def relaxEnv (e : Env) : Env :=
  { scopes := e.scopes.map relaxScope, locals := relaxScope e.locals, globals := relaxScope e.globals }

/-- a filter table only refines: whenever it returns under some kinds, it returns the relaxed result on the
    relaxed operands -/
def Refines (F : FilterSem) : Prop :=
  ∀ name v args r, F name v args = .ok r → F name (relax v) (args.map relax) = .ok (relax r)

@[simp] theorem relax_data (d : Data) : relax (.data d) = .data d := rfl
@[simp] theorem relax_undef (k : Kind) : relax (.undef k) = .undef .dflt := rfl
@[simp] theorem relax_relax (v : Val) : relax (relax v) = relax v := by cases v <;> rfl

@[simp] theorem poke_dflt (p : Poke) : poke .dflt p = .ok () := rfl

theorem poke_ok_or_err (k : Kind) (p : Poke) : poke k p = .ok () ∨ ∃ e, poke k p = .error e := by
  unfold poke; cases pokeErr k p <;> simp

theorem toStr_relax {v : Val} {s : String} (h : toStr v = .ok s) : toStr (relax v) = .ok s := by
  cases v with
  | data d => exact h
  | undef k =>
    simp only [toStr] at h
    rcases poke_ok_or_err k .cls with h1 | ⟨e, h1⟩ <;> rw [h1] at h
    · rcases poke_ok_or_err k .str with h2 | ⟨e, h2⟩ <;> rw [h2] at h
      · simpa [toStr] using h
      · cases h
    · cases h

theorem liquidOf_relax {v : Val} {d : Data} (h : liquidOf v = .ok d) : liquidOf (relax v) = .ok d := by
  cases v with
  | data d => exact h
  | undef k =>
    simp only [liquidOf] at h
    rcases poke_ok_or_err k .liquid with h1 | ⟨e, h1⟩ <;> rw [h1] at h
    · simpa [liquidOf] using h
    · cases h

theorem truthy_relax {v : Val} {b : Bool} (h : truthy v = .ok b) : truthy (relax v) = .ok b := by
  unfold truthy at h ⊢
  cases hl : liquidOf v with
  | error e => rw [hl] at h; cases h
  | ok d => rw [hl] at h; rw [liquidOf_relax hl]; exact h

theorem toIter_relax {v : Val} {xs : List Data} (h : toIter v = .ok xs) : toIter (relax v) = .ok xs := by
  cases v with
  | data d => exact h
  | undef k =>
    simp only [toIter] at h
    rcases poke_ok_or_err k .iter with h1 | ⟨e, h1⟩ <;> rw [h1] at h
    · simpa [toIter] using h
    · cases h

theorem getItem_relax {v : Val} {s : Seg} {o : Option Val} (h : getItem v s = .ok o) :
    getItem (relax v) s = .ok (o.map relax) := by
  cases v with
  | data d =>
    simp only [getItem, relax_data] at h ⊢
    cases h
    cases getItemD d s with
    | none => rfl
    | some x => rfl
  | undef k =>
    simp only [getItem] at h
    rcases poke_ok_or_err k .getitem with h1 | ⟨e, h1⟩ <;> rw [h1] at h
    · cases h; simp [getItem]
    · cases h

theorem lookupKv_relax (s : Scope) (n : String) : lookupKv (relaxScope s) n = (lookupKv s n).map relax := by
  induction s with
  | nil => rfl
  | cons kv r ih =>
    obtain ⟨m, v⟩ := kv
    simp only [relaxScope, List.map_cons, lookupKv]
    split
    · rfl
    · exact ih

theorem lookupScopes_relax (ss : List Scope) (n : String) :
    lookupScopes (ss.map relaxScope) n = (lookupScopes ss n).map relax := by
  induction ss with
  | nil => rfl
  | cons s r ih =>
    simp only [List.map_cons, lookupScopes, lookupKv_relax]
    cases lookupKv s n with
    | none => simpa using ih
    | some v => rfl

theorem lookup_relax (e : Env) (n : String) : (relaxEnv e).lookup n = (e.lookup n).map relax := by
  simp only [Env.lookup, relaxEnv, lookupScopes_relax, lookupKv_relax]
  cases lookupScopes e.scopes n with
  | some v => rfl
  | none =>
    cases lookupKv e.locals n with
    | some v => rfl
    | none => rfl

theorem walk_relax {k : Kind} {segs : List Seg} : ∀ {v r : Val}, walk k v segs = .ok r →
    walk .dflt (relax v) segs = .ok (relax r) := by
  induction segs with
  | nil => intro v r h; simp only [walk] at h ⊢; cases h; rfl
  | cons s rest ih =>
    intro v r h
    simp only [walk] at h ⊢
    cases hg : getItem v s with
    | error e => rw [hg] at h; cases h
    | ok o =>
      rw [hg] at h; rw [getItem_relax hg]
      cases o with
      | none => cases h; rfl
      | some w => exact ih h

theorem evalPrim_relax {k : Kind} {e : Env} {p : Prim} {v : Val} (h : evalPrim k e p = .ok v) :
    evalPrim .dflt (relaxEnv e) p = .ok (relax v) := by
  cases p with
  | lit d => simp only [evalPrim] at h ⊢; cases h; rfl
  | path root segs =>
    simp only [evalPrim, lookup_relax] at h ⊢
    cases hl : e.lookup root with
    | none => rw [hl] at h; cases h; rfl
    | some w => rw [hl] at h; exact walk_relax h

theorem evalPrims_relax {k : Kind} {e : Env} : ∀ {ps : List Prim} {vs : List Val}, evalPrims k e ps = .ok vs →
    evalPrims .dflt (relaxEnv e) ps = .ok (vs.map relax) := by
  intro ps
  induction ps with
  | nil => intro vs h; simp only [evalPrims] at h ⊢; cases h; rfl
  | cons p r ih =>
    intro vs h
    simp only [evalPrims] at h ⊢
    cases hp : evalPrim k e p with
    | error err => rw [hp] at h; cases h
    | ok v =>
      rw [hp] at h; rw [evalPrim_relax hp]
      cases hr : evalPrims k e r with
      | error err => rw [hr] at h; cases h
      | ok ws => rw [hr] at h; rw [ih hr]; cases h; rfl

theorem applyFilters_relax {F : FilterSem} (hF : Refines F) {k : Kind} {e : Env} :
    ∀ {fs : List FCall} {v r : Val}, applyFilters F k e v fs = .ok r →
      applyFilters F .dflt (relaxEnv e) (relax v) fs = .ok (relax r) := by
  intro fs
  induction fs with
  | nil => intro v r h; simp only [applyFilters] at h ⊢; cases h; rfl
  | cons f rest ih =>
    intro v r h
    simp only [applyFilters] at h ⊢
    cases ha : evalPrims k e f.args with
    | error err => rw [ha] at h; cases h
    | ok args =>
      rw [ha] at h; rw [evalPrims_relax ha]
      simp only at h ⊢
      cases hf : F f.name v args with
      | error err => rw [hf] at h; cases h
      | ok w => rw [hf] at h; rw [hF _ _ _ _ hf]; exact ih h

theorem evalF_relax {F : FilterSem} (hF : Refines F) {k : Kind} {e : Env} {x : FExpr} {v : Val}
    (h : evalF F k e x = .ok v) : evalF F .dflt (relaxEnv e) x = .ok (relax v) := by
  unfold evalF at h ⊢
  cases hp : evalPrim k e x.head with
  | error err => rw [hp] at h; cases h
  | ok w => rw [hp] at h; rw [evalPrim_relax hp]; exact applyFilters_relax hF h

theorem eqV_relax {l r : Val} {b : Bool} (h : eqV l r = .ok b) : eqV (relax l) (relax r) = .ok b := by
  unfold eqV at h ⊢
  cases hl : liquidOf l with
  | error e => rw [hl] at h; cases h
  | ok a =>
    rw [hl] at h; rw [liquidOf_relax hl]
    cases hr : liquidOf r with
    | error e => rw [hr] at h; cases h
    | ok c => rw [hr] at h; rw [liquidOf_relax hr]; exact h

theorem ltV_relax {l r : Val} {b : Bool} (h : ltV l r = .ok b) : ltV (relax l) (relax r) = .ok b := by
  unfold ltV at h ⊢
  cases hl : liquidOf l with
  | error e => rw [hl] at h; cases h
  | ok a =>
    rw [hl] at h; rw [liquidOf_relax hl]
    cases hr : liquidOf r with
    | error e => rw [hr] at h; cases h
    | ok c => rw [hr] at h; rw [liquidOf_relax hr]; exact h

/-- a truthy value is plain data -/
theorem truthy_true_data {v : Val} (h : truthy v = .ok true) : ∃ d, v = .data d := by
  cases v with
  | data d => exact ⟨d, rfl⟩
  | undef k =>
    simp only [truthy, liquidOf] at h
    rcases poke_ok_or_err k .liquid with h1 | ⟨e, h1⟩ <;> rw [h1] at h <;> simp [truthyD] at h

theorem containsV_relax {l r : Val} {b : Bool} (h : containsV l r = .ok b) :
    containsV (relax l) (relax r) = .ok b := by
  unfold containsV at h ⊢
  cases hl : truthy l with
  | error e => rw [hl] at h; cases h
  | ok tl =>
    rw [hl] at h; rw [truthy_relax hl]
    cases tl with
    | false => exact h
    | true =>
      simp only at h ⊢
      cases hr : truthy r with
      | error e => rw [hr] at h; cases h
      | ok tr =>
        rw [hr] at h; rw [truthy_relax hr]
        cases tr with
        | false => exact h
        | true =>
          obtain ⟨a, rfl⟩ := truthy_true_data hl
          obtain ⟨c, rfl⟩ := truthy_true_data hr
          exact h

theorem cmpV_relax {op : Op} {l r : Val} {b : Bool} (h : cmpV op l r = .ok b) :
    cmpV op (relax l) (relax r) = .ok b := by
  cases op with
  | eq => exact eqV_relax h
  | ne =>
    simp only [cmpV] at h ⊢
    cases he : eqV l r with
    | error e => rw [he] at h; cases h
    | ok c => rw [he] at h; rw [eqV_relax he]; exact h
  | lt => exact ltV_relax h
  | contains => exact containsV_relax h

theorem evalCond_relax {k : Kind} {e : Env} {c : Cond} : ∀ {b : Bool}, evalCond k e c = .ok b →
    evalCond .dflt (relaxEnv e) c = .ok b := by
  induction c with
  | prim p =>
    intro b h
    simp only [evalCond] at h ⊢
    cases hp : evalPrim k e p with
    | error err => rw [hp] at h; cases h
    | ok v => rw [hp] at h; rw [evalPrim_relax hp]; exact truthy_relax h
  | cmp op l r =>
    intro b h
    simp only [evalCond] at h ⊢
    cases hl : evalPrim k e l with
    | error err => rw [hl] at h; cases h
    | ok a =>
      rw [hl] at h; rw [evalPrim_relax hl]
      cases hr : evalPrim k e r with
      | error err => rw [hr] at h; cases h
      | ok c => rw [hr] at h; rw [evalPrim_relax hr]; exact cmpV_relax h
  | and_ a c iha ihc =>
    intro b h
    simp only [evalCond] at h ⊢
    cases ha : evalCond k e a with
    | error err => rw [ha] at h; cases h
    | ok x =>
      rw [ha] at h; rw [iha ha]
      cases x with
      | false => exact h
      | true => exact ihc h
  | or_ a c iha ihc =>
    intro b h
    simp only [evalCond] at h ⊢
    cases ha : evalCond k e a with
    | error err => rw [ha] at h; cases h
    | ok x =>
      rw [ha] at h; rw [iha ha]
      cases x with
      | true => exact h
      | false => exact ihc h

theorem setKv_relax (s : Scope) (n : String) (v : Val) :
    relaxScope (setKv s n v) = setKv (relaxScope s) n (relax v) := by
  induction s with
  | nil => rfl
  | cons kv r ih =>
    obtain ⟨m, w⟩ := kv
    simp only [setKv, relaxScope, List.map_cons]
    split
    · rfl
    · simp only [List.map_cons]; congr 1

theorem assign_relax (e : Env) (n : String) (v : Val) :
    relaxEnv (e.assign n v) = (relaxEnv e).assign n (relax v) := by
  simp only [relaxEnv, Env.assign, setKv_relax]

/-- the loop transfers the simulation from its body to the whole iteration -/
theorem iterFor_relax {b1 b2 : Env → Data → Except Err (Env × String)}
    (hb : ∀ e x e' o, b1 e x = .ok (e', o) → b2 (relaxEnv e) x = .ok (relaxEnv e', o)) :
    ∀ (xs : List Data) (e : Env) (out : String) (e' : Env) (o : String),
      iterFor b1 e xs out = .ok (e', o) → iterFor b2 (relaxEnv e) xs out = .ok (relaxEnv e', o) := by
  intro xs
  induction xs with
  | nil => intro e out e' o h; simp only [iterFor] at h ⊢; cases h; rfl
  | cons x r ih =>
    intro e out e' o h
    simp only [iterFor] at h ⊢
    cases hx : b1 e x with
    | error err => rw [hx] at h; cases h
    | ok p =>
      obtain ⟨e1, o1⟩ := p
      rw [hx] at h; rw [hb _ _ _ _ hx]
      exact ih _ _ _ _ h

/-- the simulation carried through `render` -/
theorem render_relax {F : FilterSem} (hF : Refines F) {k : Kind} (s : Stmt) :
    ∀ (e e' : Env) (o : String), render F k e s = .ok (e', o) →
      render F .dflt (relaxEnv e) s = .ok (relaxEnv e', o) := by
  induction s with
  | nop => intro e e' o h; simp only [render] at h ⊢; cases h; rfl
  | text t => intro e e' o h; simp only [render] at h ⊢; cases h; rfl
  | output x =>
    intro e e' o h
    simp only [render] at h ⊢
    cases hx : evalF F k e x with
    | error err => rw [hx] at h; cases h
    | ok v =>
      rw [hx] at h; rw [evalF_relax hF hx]
      simp only at h ⊢
      cases hs : toStr v with
      | error err => rw [hs] at h; cases h
      | ok str => rw [hs] at h; rw [toStr_relax hs]; cases h; rfl
  | assign n x =>
    intro e e' o h
    simp only [render] at h ⊢
    cases hx : evalF F k e x with
    | error err => rw [hx] at h; cases h
    | ok v => rw [hx] at h; rw [evalF_relax hF hx]; cases h; rw [assign_relax]
  | ifs c t f iht ihf =>
    intro e e' o h
    simp only [render] at h ⊢
    cases hc : evalCond k e c with
    | error err => rw [hc] at h; cases h
    | ok b =>
      rw [hc] at h; rw [evalCond_relax hc]
      cases b with
      | true => exact iht _ _ _ h
      | false => exact ihf _ _ _ h
  | for_ x it body els ihb ihe =>
    intro e e' o h
    simp only [render] at h ⊢
    cases hp : evalPrim k e it with
    | error err => rw [hp] at h; cases h
    | ok v =>
      rw [hp] at h; rw [evalPrim_relax hp]
      simp only at h ⊢
      cases hi : toIter v with
      | error err => rw [hi] at h; cases h
      | ok items =>
        rw [hi] at h; rw [toIter_relax hi]
        cases items with
        | nil => exact ihe _ _ _ h
        | cons i is =>
          simp only at h ⊢
          refine iterFor_relax ?_ _ _ _ _ _ h
          intro e1 item e2 o2 hb
          cases hr : render F k { e1 with scopes := [(x, .data item)] :: e1.scopes } body with
          | error err => rw [hr] at hb; cases hb
          | ok p =>
            obtain ⟨e3, o3⟩ := p
            rw [hr] at hb
            have := ihb _ _ _ hr
            simp only [relaxEnv, List.map_cons, relaxScope, List.map_nil, relax_data] at this ⊢
            rw [this]
            cases hb
            rfl
  | seq a b iha ihb =>
    intro e e' o h
    simp only [render] at h ⊢
    cases h1 : render F k e a with
    | error err => rw [h1] at h; cases h
    | ok p =>
      obtain ⟨e1, o1⟩ := p
      rw [h1] at h; rw [iha _ _ _ h1]
      simp only at h ⊢
      cases h2 : render F k e1 b with
      | error err => rw [h2] at h; cases h
      | ok q =>
        obtain ⟨e2, o2⟩ := q
        rw [h2] at h; rw [ihb _ _ _ h2]
        cases h
        rfl

end LiquidVerif.UndefKind
