import LiquidVerif.Model.UndefKind
/-!
Simulation lemmas for C16: every operation of `Model/UndefKind.lean`, run on a value whose undefined objects are
of any kind, either raises or returns what the same operation returns on the *relaxed* value (every undefined
object replaced by the default `Undefined`).
-/
namespace LiquidVerif.UndefKind

/-- replace an undefined object of any kind by the default `Undefined` -/
def relax : Val → Val
  | .data d => .data d
  | .undef _ => .undef .dflt

def relaxScope (s : Scope) : Scope := s.map (fun kv => (kv.1, relax kv.2))

def relaxEnv (e : Env) : Env :=
  { scopes := e.scopes.map relaxScope, locals := relaxScope e.locals, globals := relaxScope e.globals }

/-- a filter table only refines: whenever it returns under some kinds, it returns the relaxed result on the
    relaxed operands -/
def Refines (F : FilterSem) : Prop :=
  ∀ name v args r, F name v args = .ok r → F name (relax v) (args.map relax) = .ok (relax r)

@[simp] theorem relax_data (d : Data) : relax (.data d) = .data d := rfl
@[simp] theorem relax_undef (k : Kind) : relax (.undef k) = .undef .dflt := rfl
@[simp] theorem relax_relax (v : Val) : relax (relax v) = relax v := by cases v <;> rfl

@[simp] theorem poke_dflt (p : Poke) : poke .dflt p = .ok () := rfl

theorem poke_ok_or_err (k : Kind) (p : Poke) : poke k p = .ok () ∨ ∃ e, poke k p = .error e := by
  unfold poke; cases pokeErr k p <;> simp

theorem toStr_relax {v : Val} {s : String} (h : toStr v = .ok s) : toStr (relax v) = .ok s := by
  cases v with
  | data d => exact h
  | undef k =>
    simp only [toStr] at h
    rcases poke_ok_or_err k .cls with h1 | ⟨e, h1⟩ <;> rw [h1] at h
    · rcases poke_ok_or_err k .str with h2 | ⟨e, h2⟩ <;> rw [h2] at h
      · simpa [toStr] using h
      · cases h
    · cases h

theorem liquidOf_relax {v : Val} {d : Data} (h : liquidOf v = .ok d) : liquidOf (relax v) = .ok d := by
  cases v with
  | data d => exact h
  | undef k =>
    simp only [liquidOf] at h
    rcases poke_ok_or_err k .liquid with h1 | ⟨e, h1⟩ <;> rw [h1] at h
    · simpa [liquidOf] using h
    · cases h

theorem truthy_relax {v : Val} {b : Bool} (h : truthy v = .ok b) : truthy (relax v) = .ok b := by
  unfold truthy at h ⊢
  cases hl : liquidOf v with
  | error e => rw [hl] at h; cases h
  | ok d => rw [hl] at h; rw [liquidOf_relax hl]; exact h

theorem toIter_relax {v : Val} {xs : List Data} (h : toIter v = .ok xs) : toIter (relax v) = .ok xs := by
  cases v with
  | data d => exact h
  | undef k =>
    simp only [toIter] at h
    rcases poke_ok_or_err k .cls with h0 | ⟨e, h0⟩ <;> rw [h0] at h
    · rcases poke_ok_or_err k .iter with h1 | ⟨e, h1⟩ <;> rw [h1] at h
      · simpa [toIter] using h
      · cases h
    · cases h

theorem getItem_relax {v : Val} {s : Seg} {o : Option Val} (h : getItem v s = .ok o) :
    getItem (relax v) s = .ok (o.map relax) := by
  cases v with
  | data d =>
    simp only [getItem, relax_data] at h ⊢
    cases h
    cases getItemD d s with
    | none => rfl
    | some x => rfl
  | undef k =>
    simp only [getItem] at h
    rcases poke_ok_or_err k .getitem with h1 | ⟨e, h1⟩ <;> rw [h1] at h
    · cases h; simp [getItem]
    · cases h

theorem lookupKv_relax (s : Scope) (n : String) : lookupKv (relaxScope s) n = (lookupKv s n).map relax := by
  induction s with
  | nil => rfl
  | cons kv r ih =>
    obtain ⟨m, v⟩ := kv
    simp only [relaxScope, List.map_cons, lookupKv]
    split
    · rfl
    · exact ih

theorem lookupScopes_relax (ss : List Scope) (n : String) :
    lookupScopes (ss.map relaxScope) n = (lookupScopes ss n).map relax := by
  induction ss with
  | nil => rfl
  | cons s r ih =>
    simp only [List.map_cons, lookupScopes, lookupKv_relax]
    cases lookupKv s n with
    | none => simpa using ih
    | some v => rfl

theorem lookup_relax (e : Env) (n : String) : (relaxEnv e).lookup n = (e.lookup n).map relax := by
  simp only [Env.lookup, relaxEnv, lookupScopes_relax, lookupKv_relax]
  cases lookupScopes e.scopes n with
  | some v => rfl
  | none =>
    cases lookupKv e.locals n with
    | some v => rfl
    | none => rfl

theorem walk_relax {k : Kind} {segs : List Seg} : ∀ {v r : Val}, walk k v segs = .ok r →
    walk .dflt (relax v) segs = .ok (relax r) := by
  induction segs with
  | nil => intro v r h; simp only [walk] at h ⊢; cases h; rfl
  | cons s rest ih =>
    intro v r h
    simp only [walk] at h ⊢
    cases hg : getItem v s with
    | error e => rw [hg] at h; cases h
    | ok o =>
      rw [hg] at h; rw [getItem_relax hg]
      cases o with
      | none => cases h; rfl
      | some w => exact ih h

theorem evalPrim_relax {k : Kind} {e : Env} {p : Prim} {v : Val} (h : evalPrim k e p = .ok v) :
    evalPrim .dflt (relaxEnv e) p = .ok (relax v) := by
  cases p with
  | lit d => simp only [evalPrim] at h ⊢; cases h; rfl
  | path root segs =>
    simp only [evalPrim, lookup_relax] at h ⊢
    cases hl : e.lookup root with
    | none => rw [hl] at h; cases h; rfl
    | some w => rw [hl] at h; exact walk_relax h

theorem evalPrims_relax {k : Kind} {e : Env} : ∀ {ps : List Prim} {vs : List Val}, evalPrims k e ps = .ok vs →
    evalPrims .dflt (relaxEnv e) ps = .ok (vs.map relax) := by
  intro ps
  induction ps with
  | nil => intro vs h; simp only [evalPrims] at h ⊢; cases h; rfl
  | cons p r ih =>
    intro vs h
    simp only [evalPrims] at h ⊢
    cases hp : evalPrim k e p with
    | error err => rw [hp] at h; cases h
    | ok v =>
      rw [hp] at h; rw [evalPrim_relax hp]
      cases hr : evalPrims k e r with
      | error err => rw [hr] at h; cases h
      | ok ws => rw [hr] at h; rw [ih hr]; cases h; rfl

theorem applyFilters_relax {F : FilterSem} (hF : Refines F) {k : Kind} {e : Env} :
    ∀ {fs : List FCall} {v r : Val}, applyFilters F k e v fs = .ok r →
      applyFilters F .dflt (relaxEnv e) (relax v) fs = .ok (relax r) := by
  intro fs
  induction fs with
  | nil => intro v r h; simp only [applyFilters] at h ⊢; cases h; rfl
  | cons f rest ih =>
    intro v r h
    simp only [applyFilters] at h ⊢
    cases ha : evalPrims k e f.args with
    | error err => rw [ha] at h; cases h
    | ok args =>
      rw [ha] at h; rw [evalPrims_relax ha]
      simp only at h ⊢
      cases hf : F f.name v args with
      | error err => rw [hf] at h; cases h
      | ok w => rw [hf] at h; rw [hF _ _ _ _ hf]; exact ih h

theorem evalF_relax {F : FilterSem} (hF : Refines F) {k : Kind} {e : Env} {x : FExpr} {v : Val}
    (h : evalF F k e x = .ok v) : evalF F .dflt (relaxEnv e) x = .ok (relax v) := by
  unfold evalF at h ⊢
  cases hp : evalPrim k e x.head with
  | error err => rw [hp] at h; cases h
  | ok w => rw [hp] at h; rw [evalPrim_relax hp]; exact applyFilters_relax hF h

theorem eqV_relax {l r : Val} {b : Bool} (h : eqV l r = .ok b) : eqV (relax l) (relax r) = .ok b := by
  unfold eqV at h ⊢
  cases hl : liquidOf l with
  | error e => rw [hl] at h; cases h
  | ok a =>
    rw [hl] at h; rw [liquidOf_relax hl]
    cases hr : liquidOf r with
    | error e => rw [hr] at h; cases h
    | ok c => rw [hr] at h; rw [liquidOf_relax hr]; exact h

theorem ltV_relax {l r : Val} {b : Bool} (h : ltV l r = .ok b) : ltV (relax l) (relax r) = .ok b := by
  unfold ltV at h ⊢
  cases hl : liquidOf l with
  | error e => rw [hl] at h; cases h
  | ok a =>
    rw [hl] at h; rw [liquidOf_relax hl]
    cases hr : liquidOf r with
    | error e => rw [hr] at h; cases h
    | ok c => rw [hr] at h; rw [liquidOf_relax hr]; exact h

/-- a truthy value is plain data -/
theorem truthy_true_data {v : Val} (h : truthy v = .ok true) : ∃ d, v = .data d := by
  cases v with
  | data d => exact ⟨d, rfl⟩
  | undef k =>
    simp only [truthy, liquidOf] at h
    rcases poke_ok_or_err k .liquid with h1 | ⟨e, h1⟩ <;> rw [h1] at h <;> simp [truthyD] at h

theorem containsV_relax {l r : Val} {b : Bool} (h : containsV l r = .ok b) :
    containsV (relax l) (relax r) = .ok b := by
  unfold containsV at h ⊢
  cases hl : truthy l with
  | error e => rw [hl] at h; cases h
  | ok tl =>
    rw [hl] at h; rw [truthy_relax hl]
    cases tl with
    | false => exact h
    | true =>
      simp only at h ⊢
      cases hr : truthy r with
      | error e => rw [hr] at h; cases h
      | ok tr =>
        rw [hr] at h; rw [truthy_relax hr]
        cases tr with
        | false => exact h
        | true =>
          obtain ⟨a, rfl⟩ := truthy_true_data hl
          obtain ⟨c, rfl⟩ := truthy_true_data hr
          exact h

theorem cmpV_relax {op : Op} {l r : Val} {b : Bool} (h : cmpV op l r = .ok b) :
    cmpV op (relax l) (relax r) = .ok b := by
  cases op with
  | eq => exact eqV_relax h
  | ne =>
    simp only [cmpV] at h ⊢
    cases he : eqV l r with
    | error e => rw [he] at h; cases h
    | ok c => rw [he] at h; rw [eqV_relax he]; exact h
  | lt => exact ltV_relax h
  | contains => exact containsV_relax h

theorem evalCond_relax {k : Kind} {e : Env} {c : Cond} : ∀ {b : Bool}, evalCond k e c = .ok b →
    evalCond .dflt (relaxEnv e) c = .ok b := by
  induction c with
  | prim p =>
    intro b h
    simp only [evalCond] at h ⊢
    cases hp : evalPrim k e p with
    | error err => rw [hp] at h; cases h
    | ok v => rw [hp] at h; rw [evalPrim_relax hp]; exact truthy_relax h
  | cmp op l r =>
    intro b h
    simp only [evalCond] at h ⊢
    cases hl : evalPrim k e l with
    | error err => rw [hl] at h; cases h
    | ok a =>
      rw [hl] at h; rw [evalPrim_relax hl]
      cases hr : evalPrim k e r with
      | error err => rw [hr] at h; cases h
      | ok c => rw [hr] at h; rw [evalPrim_relax hr]; exact cmpV_relax h
  | and_ a c iha ihc =>
    intro b h
    simp only [evalCond] at h ⊢
    cases ha : evalCond k e a with
    | error err => rw [ha] at h; cases h
    | ok x =>
      rw [ha] at h; rw [iha ha]
      cases x with
      | false => exact h
      | true => exact ihc h
  | or_ a c iha ihc =>
    intro b h
    simp only [evalCond] at h ⊢
    cases ha : evalCond k e a with
    | error err => rw [ha] at h; cases h
    | ok x =>
      rw [ha] at h; rw [iha ha]
      cases x with
      | true => exact h
      | false => exact ihc h

theorem setKv_relax (s : Scope) (n : String) (v : Val) :
    relaxScope (setKv s n v) = setKv (relaxScope s) n (relax v) := by
  induction s with
  | nil => rfl
  | cons kv r ih =>
    obtain ⟨m, w⟩ := kv
    simp only [setKv, relaxScope, List.map_cons]
    split
    · rfl
    · simp only [List.map_cons]; congr 1

theorem assign_relax (e : Env) (n : String) (v : Val) :
    relaxEnv (e.assign n v) = (relaxEnv e).assign n (relax v) := by
  simp only [relaxEnv, Env.assign, setKv_relax]

/-- the loop transfers the simulation from its body to the whole iteration -/
theorem iterFor_relax {b1 b2 : Env → Data → Except Err (Env × String)}
    (hb : ∀ e x e' o, b1 e x = .ok (e', o) → b2 (relaxEnv e) x = .ok (relaxEnv e', o)) :
    ∀ (xs : List Data) (e : Env) (out : String) (e' : Env) (o : String),
      iterFor b1 e xs out = .ok (e', o) → iterFor b2 (relaxEnv e) xs out = .ok (relaxEnv e', o) := by
  intro xs
  induction xs with
  | nil => intro e out e' o h; simp only [iterFor] at h ⊢; cases h; rfl
  | cons x r ih =>
    intro e out e' o h
    simp only [iterFor] at h ⊢
    cases hx : b1 e x with
    | error err => rw [hx] at h; cases h
    | ok p =>
      obtain ⟨e1, o1⟩ := p
      rw [hx] at h; rw [hb _ _ _ _ hx]
      exact ih _ _ _ _ h

/-- the simulation carried through `render` -/
theorem render_relax {F : FilterSem} (hF : Refines F) {k : Kind} (s : Stmt) :
    ∀ (e e' : Env) (o : String), render F k e s = .ok (e', o) →
      render F .dflt (relaxEnv e) s = .ok (relaxEnv e', o) := by
  induction s with
  | nop => intro e e' o h; simp only [render] at h ⊢; cases h; rfl
  | text t => intro e e' o h; simp only [render] at h ⊢; cases h; rfl
  | output x =>
    intro e e' o h
    simp only [render] at h ⊢
    cases hx : evalF F k e x with
    | error err => rw [hx] at h; cases h
    | ok v =>
      rw [hx] at h; rw [evalF_relax hF hx]
      simp only at h ⊢
      cases hs : toStr v with
      | error err => rw [hs] at h; cases h
      | ok str => rw [hs] at h; rw [toStr_relax hs]; cases h; rfl
  | assign n x =>
    intro e e' o h
    simp only [render] at h ⊢
    cases hx : evalF F k e x with
    | error err => rw [hx] at h; cases h
    | ok v => rw [hx] at h; rw [evalF_relax hF hx]; cases h; rw [assign_relax]
  | ifs c t f iht ihf =>
    intro e e' o h
    simp only [render] at h ⊢
    cases hc : evalCond k e c with
    | error err => rw [hc] at h; cases h
    | ok b =>
      rw [hc] at h; rw [evalCond_relax hc]
      cases b with
      | true => exact iht _ _ _ h
      | false => exact ihf _ _ _ h
  | for_ x it body els ihb ihe =>
    intro e e' o h
    simp only [render] at h ⊢
    cases hp : evalPrim k e it with
    | error err => rw [hp] at h; cases h
    | ok v =>
      rw [hp] at h; rw [evalPrim_relax hp]
      simp only at h ⊢
      cases hi : toIter v with
      | error err => rw [hi] at h; cases h
      | ok items =>
        rw [hi] at h; rw [toIter_relax hi]
        cases items with
        | nil => exact ihe _ _ _ h
        | cons i is =>
          simp only at h ⊢
          refine iterFor_relax ?_ _ _ _ _ _ h
          intro e1 item e2 o2 hb
          cases hr : render F k { e1 with scopes := [(x, .data item)] :: e1.scopes } body with
          | error err => rw [hr] at hb; cases hb
          | ok p =>
            obtain ⟨e3, o3⟩ := p
            rw [hr] at hb
            have := ihb _ _ _ hr
            simp only [relaxEnv, List.map_cons, relaxScope, List.map_nil, relax_data] at this ⊢
            rw [this]
            cases hb
            rfl
  | seq a b iha ihb =>
    intro e e' o h
    simp only [render] at h ⊢
    cases h1 : render F k e a with
    | error err => rw [h1] at h; cases h
    | ok p =>
      obtain ⟨e1, o1⟩ := p
      rw [h1] at h; rw [iha _ _ _ h1]
      simp only at h ⊢
      cases h2 : render F k e1 b with
      | error err => rw [h2] at h; cases h
      | ok q =>
        obtain ⟨e2, o2⟩ := q
        rw [h2] at h; rw [ihb _ _ _ h2]
        cases h
        rfl

/-! ## The concrete filters refine -/

theorem strArg_relax {v : Val} {s : String} (h : strArg v = .ok s) : strArg (relax v) = .ok s := by
  cases v with
  | data d => exact h
  | undef k =>
    simp only [strArg] at h
    rcases poke_ok_or_err k .cls with h1 | ⟨e, h1⟩ <;> rw [h1] at h
    · rcases poke_ok_or_err k .str with h2 | ⟨e, h2⟩ <;> rw [h2] at h
      · simpa [strArg] using h
      · cases h
    · cases h

theorem softStr_relax {v : Val} {s : String} (h : softStr v = .ok s) : softStr (relax v) = .ok s := by
  cases v with
  | data d => exact h
  | undef k =>
    simp only [softStr] at h
    rcases poke_ok_or_err k .cls with h1 | ⟨e, h1⟩ <;> rw [h1] at h
    · rcases poke_ok_or_err k .str with h2 | ⟨e, h2⟩ <;> rw [h2] at h
      · simpa [softStr] using h
      · cases h
    · cases h

theorem numArg_relax {v : Val} {i : Int} (h : numArg v = .ok i) : numArg (relax v) = .ok i := by
  cases v with
  | data d => exact h
  | undef k =>
    simp only [numArg] at h
    rcases poke_ok_or_err k .cls with h1 | ⟨e, h1⟩ <;> rw [h1] at h
    · simpa [numArg] using h
    · cases h

theorem fUpcase_relax {v r : Val} (h : fUpcase v = .ok r) : fUpcase (relax v) = .ok (relax r) := by
  unfold fUpcase at h ⊢
  cases hs : strArg v with
  | error e => rw [hs] at h; cases h
  | ok s => rw [hs] at h; rw [strArg_relax hs]; cases h; rfl

theorem fAppend_relax {v a r : Val} (h : fAppend v a = .ok r) : fAppend (relax v) (relax a) = .ok (relax r) := by
  unfold fAppend at h ⊢
  cases hs : strArg v with
  | error e => rw [hs] at h; cases h
  | ok s =>
    rw [hs] at h; rw [strArg_relax hs]
    cases ht : softStr a with
    | error e => rw [ht] at h; cases h
    | ok t => rw [ht] at h; rw [softStr_relax ht]; cases h; rfl

theorem fSize_relax {v r : Val} (h : fSize v = .ok r) : fSize (relax v) = .ok (relax r) := by
  cases v with
  | data d => simp only [fSize] at h ⊢; cases h; rfl
  | undef k =>
    simp only [fSize] at h
    rcases poke_ok_or_err k .len with h1 | ⟨e, h1⟩ <;> rw [h1] at h
    · cases h; rfl
    · cases h

theorem fFirst_relax {v r : Val} (h : fFirst v = .ok r) : fFirst (relax v) = .ok (relax r) := by
  cases v with
  | data d => simp only [fFirst] at h ⊢; cases h; rfl
  | undef k =>
    simp only [fFirst] at h
    rcases poke_ok_or_err k .cls with h1 | ⟨e, h1⟩ <;> rw [h1] at h
    · rcases poke_ok_or_err k .getitem with h2 | ⟨e, h2⟩ <;> rw [h2] at h
      · cases h; rfl
      · cases h
    · cases h

theorem fJoin_relax {v a r : Val} (h : fJoin v a = .ok r) : fJoin (relax v) (relax a) = .ok (relax r) := by
  cases v with
  | data d =>
    simp only [fJoin, relax_data] at h ⊢
    cases ht : softStr a with
    | error e => rw [ht] at h; cases h
    | ok t => rw [ht] at h; rw [softStr_relax ht]; cases h; rfl
  | undef k =>
    simp only [fJoin] at h
    rcases poke_ok_or_err k .cls with h1 | ⟨e, h1⟩ <;> rw [h1] at h
    · cases ht : softStr a with
      | error e => rw [ht] at h; cases h
      | ok t =>
        rw [ht] at h
        rcases poke_ok_or_err k .iter with h2 | ⟨e, h2⟩ <;> rw [h2] at h
        · cases h; simp [fJoin, softStr_relax ht]
        · cases h
    · cases h

theorem fPlus_relax {v a r : Val} (h : fPlus v a = .ok r) : fPlus (relax v) (relax a) = .ok (relax r) := by
  unfold fPlus at h ⊢
  cases hx : numArg v with
  | error e => rw [hx] at h; cases h
  | ok x =>
    rw [hx] at h; rw [numArg_relax hx]
    cases hy : numArg a with
    | error e => rw [hy] at h; cases h
    | ok y => rw [hy] at h; rw [numArg_relax hy]; cases h; rfl

theorem fDefault_relax {v a r : Val} (h : fDefault v a = .ok r) : fDefault (relax v) (relax a) = .ok (relax r) := by
  cases v with
  | data d =>
    simp only [fDefault, relax_data] at h ⊢
    cases h
    cases useDefault d <;> rfl
  | undef k =>
    simp only [fDefault] at h
    by_cases hf : forceDefault k = true
    · rw [if_pos hf] at h; cases h; simp [fDefault, forceDefault]
    · rw [if_neg hf] at h
      rcases poke_ok_or_err k .liquid with h1 | ⟨e, h1⟩ <;> rw [h1] at h
      · cases h; simp [fDefault, forceDefault]
      · cases h

theorem fSplit_relax {v a r : Val} (h : fSplit v a = .ok r) : fSplit (relax v) (relax a) = .ok (relax r) := by
  unfold fSplit at h ⊢
  cases hs : strArg v with
  | error e => rw [hs] at h; cases h
  | ok s =>
    rw [hs] at h; rw [strArg_relax hs]
    cases a with
    | data d => simp only [relax_data] at h ⊢; cases h; rfl
    | undef k =>
      simp only at h
      rcases poke_ok_or_err k .cls with h0 | ⟨e, h0⟩ <;> rw [h0] at h
      · rcases poke_ok_or_err k .attr with h1 | ⟨e, h1⟩ <;> rw [h1] at h
        · cases h; rfl
        · cases h
      · cases h

theorem isUndef_relax {v : Val} {b : Bool} (h : isUndef v = .ok b) : isUndef (relax v) = .ok b := by
  cases v with
  | data d => exact h
  | undef k =>
    simp only [isUndef] at h
    rcases poke_ok_or_err k .cls with h1 | ⟨e, h1⟩ <;> rw [h1] at h
    · simpa [isUndef] using h
    · cases h

theorem fRound_relax {v a r : Val} (h : fRound v a = .ok r) : fRound (relax v) (relax a) = .ok (relax r) := by
  unfold fRound at h ⊢
  cases hx : numArg v with
  | error e => rw [hx] at h; cases h
  | ok x =>
    rw [hx] at h; rw [numArg_relax hx]
    cases a with
    | data d =>
      simp only [relax_data] at h ⊢
      cases d <;> (simp only [isUndef] at h ⊢; cases h; rfl)
    | undef k =>
      simp only at h
      cases hu : isUndef (.undef k) with
      | error e => rw [hu] at h; cases h
      | ok b =>
        rw [hu] at h
        have hb : b = true := by
          simp only [isUndef] at hu
          rcases poke_ok_or_err k .cls with h1 | ⟨e, h1⟩ <;> rw [h1] at hu
          · cases hu; rfl
          · cases hu
        subst hb
        cases h
        rfl

/-- the nine concrete filters only refine -/
theorem builtin_refines : Refines builtinFilters := by
  intro name v args r h
  unfold builtinFilters at h ⊢
  split at h
  · rw [if_pos (by assumption)]
    cases args with
    | nil => exact fUpcase_relax h
    | cons a t => cases h
  split at h
  · rw [if_neg (by assumption), if_pos (by assumption)]
    match args, h with
    | [a], h => exact fAppend_relax h
  split at h
  · rw [if_neg (by assumption), if_neg (by assumption), if_pos (by assumption)]
    cases args with
    | nil => exact fSize_relax h
    | cons a t => cases h
  split at h
  · rw [if_neg (by assumption), if_neg (by assumption), if_neg (by assumption), if_pos (by assumption)]
    cases args with
    | nil => exact fFirst_relax h
    | cons a t => cases h
  split at h
  · rw [if_neg (by assumption), if_neg (by assumption), if_neg (by assumption), if_neg (by assumption),
      if_pos (by assumption)]
    match args, h with
    | [a], h => exact fJoin_relax h
  split at h
  · rw [if_neg (by assumption), if_neg (by assumption), if_neg (by assumption), if_neg (by assumption),
      if_neg (by assumption), if_pos (by assumption)]
    match args, h with
    | [a], h => exact fPlus_relax h
  split at h
  · rw [if_neg (by assumption), if_neg (by assumption), if_neg (by assumption), if_neg (by assumption),
      if_neg (by assumption), if_neg (by assumption), if_pos (by assumption)]
    match args, h with
    | [a], h => exact fDefault_relax h
  split at h
  · rw [if_neg (by assumption), if_neg (by assumption), if_neg (by assumption), if_neg (by assumption),
      if_neg (by assumption), if_neg (by assumption), if_neg (by assumption), if_pos (by assumption)]
    match args, h with
    | [a], h => exact fSplit_relax h
  split at h
  · rw [if_neg (by assumption), if_neg (by assumption), if_neg (by assumption), if_neg (by assumption),
      if_neg (by assumption), if_neg (by assumption), if_neg (by assumption), if_neg (by assumption),
      if_pos (by assumption)]
    match args, h with
    | [a], h => exact fRound_relax h
  cases h

/-! ## The default kind never raises `UndefinedError` -/

/-- a filter table never raises `UndefinedError` when every undefined operand is the default `Undefined` -/
def QuietOnDefault (F : FilterSem) : Prop :=
  ∀ (name : String) (v : Val) (args : List Val), F name (relax v) (args.map relax) ≠ .error .undefined

theorem relaxed_cases {v : Val} (h : relax v = v) : (∃ d, v = .data d) ∨ v = .undef .dflt := by
  cases v with
  | data d => exact .inl ⟨d, rfl⟩
  | undef k => right; rw [← h]; rfl

theorem toStr_relaxed {v : Val} (h : relax v = v) : ∃ s, toStr v = .ok s := by
  rcases relaxed_cases h with ⟨d, rfl⟩ | rfl
  · exact ⟨_, rfl⟩
  · exact ⟨"", rfl⟩

theorem liquidOf_relaxed {v : Val} (h : relax v = v) : ∃ d, liquidOf v = .ok d := by
  rcases relaxed_cases h with ⟨d, rfl⟩ | rfl
  · exact ⟨d, rfl⟩
  · exact ⟨.nil, rfl⟩

theorem toIter_relaxed {v : Val} (h : relax v = v) : ∃ xs, toIter v = .ok xs := by
  rcases relaxed_cases h with ⟨d, rfl⟩ | rfl
  · cases d <;> exact ⟨_, rfl⟩
  · exact ⟨[], rfl⟩

theorem getItem_relaxed {v : Val} (h : relax v = v) (s : Seg) :
    ∃ o, getItem v s = .ok o ∧ o.map relax = o := by
  rcases relaxed_cases h with ⟨d, rfl⟩ | rfl
  · refine ⟨(getItemD d s).map .data, rfl, ?_⟩
    cases getItemD d s <;> rfl
  · exact ⟨some (.undef .dflt), rfl, rfl⟩

theorem walk_relaxed {segs : List Seg} : ∀ {v : Val}, relax v = v → ∃ w, walk .dflt v segs = .ok w := by
  induction segs with
  | nil => intro v _; exact ⟨v, rfl⟩
  | cons s rest ih =>
    intro v h
    obtain ⟨o, ho, hr⟩ := getItem_relaxed h s
    simp only [walk, ho]
    cases o with
    | none => exact ⟨_, rfl⟩
    | some w =>
      have : relax w = w := by simpa using hr
      exact ih this

theorem evalPrim_relaxed {e : Env} (he : relaxEnv e = e) (p : Prim) :
    ∃ v, evalPrim .dflt e p = .ok v ∧ relax v = v := by
  have key : ∀ v, evalPrim .dflt e p = .ok v → relax v = v := by
    intro v hv
    have := evalPrim_relax hv
    rw [he, hv] at this
    exact (Except.ok.inj this).symm
  cases p with
  | lit d => exact ⟨.data d, rfl, rfl⟩
  | path root segs =>
    cases hl : e.lookup root with
    | none => exact ⟨.undef .dflt, by simp [evalPrim, hl], rfl⟩
    | some w =>
      have hw : relax w = w := by
        have := lookup_relax e root
        rw [he, hl] at this
        simpa using this.symm
      obtain ⟨r, hr⟩ := walk_relaxed (segs := segs) hw
      have hv : evalPrim .dflt e (.path root segs) = .ok r := by simp [evalPrim, hl, hr]
      exact ⟨r, hv, key r hv⟩

theorem map_relax_of_evalPrims {e : Env} (he : relaxEnv e = e) {ps : List Prim} {vs : List Val}
    (h : evalPrims .dflt e ps = .ok vs) : vs.map relax = vs := by
  have := evalPrims_relax h
  rw [he, h] at this
  exact (Except.ok.inj this).symm

theorem evalPrims_relaxed {e : Env} (he : relaxEnv e = e) (ps : List Prim) :
    ∃ vs, evalPrims .dflt e ps = .ok vs := by
  induction ps with
  | nil => exact ⟨[], rfl⟩
  | cons p r ih =>
    obtain ⟨v, hv, _⟩ := evalPrim_relaxed he p
    obtain ⟨vs, hvs⟩ := ih
    exact ⟨v :: vs, by simp [evalPrims, hv, hvs]⟩

theorem applyFilters_quiet {F : FilterSem} (hF : Refines F) (hQ : QuietOnDefault F) {e : Env}
    (he : relaxEnv e = e) : ∀ (fs : List FCall) (v : Val), relax v = v →
      applyFilters F .dflt e v fs ≠ .error .undefined := by
  intro fs
  induction fs with
  | nil => intro v _ h; simp [applyFilters] at h
  | cons f rest ih =>
    intro v hv
    obtain ⟨args, ha⟩ := evalPrims_relaxed he f.args
    have hargs := map_relax_of_evalPrims he ha
    simp only [applyFilters, ha]
    cases hf : F f.name v args with
    | error err =>
      intro h
      simp only at h
      cases h
      have := hQ f.name v args
      rw [hv, hargs] at this
      exact this hf
    | ok w =>
      have hw : relax w = w := by
        have := hF _ _ _ _ hf
        rw [hv, hargs, hf] at this
        exact (Except.ok.inj this).symm
      exact ih w hw

theorem evalF_quiet {F : FilterSem} (hF : Refines F) (hQ : QuietOnDefault F) {e : Env}
    (he : relaxEnv e = e) (x : FExpr) : evalF F .dflt e x ≠ .error .undefined := by
  obtain ⟨v, hv, hr⟩ := evalPrim_relaxed he x.head
  simp only [evalF, hv]
  exact applyFilters_quiet hF hQ he _ _ hr

theorem cmpV_quiet {op : Op} {l r : Val} (hl : relax l = l) (hr : relax r = r) :
    cmpV op l r ≠ .error .undefined := by
  obtain ⟨a, ha⟩ := liquidOf_relaxed hl
  obtain ⟨b, hb⟩ := liquidOf_relaxed hr
  cases op with
  | eq => simp [cmpV, eqV, ha, hb]
  | ne => simp [cmpV, eqV, ha, hb]
  | lt => simp only [cmpV, ltV, ha, hb]; cases ltD a b <;> simp
  | contains =>
    simp only [cmpV, containsV, truthy, ha, hb]
    cases truthyD a with
    | false => simp
    | true =>
      cases truthyD b with
      | false => simp
      | true =>
        simp only
        rcases relaxed_cases hl with ⟨d1, rfl⟩ | rfl <;> rcases relaxed_cases hr with ⟨d2, rfl⟩ | rfl
        · simp only; cases containsD d1 d2 <;> simp
        · simp
        · simp
        · simp

theorem evalCond_quiet {e : Env} (he : relaxEnv e = e) (c : Cond) : evalCond .dflt e c ≠ .error .undefined := by
  induction c with
  | prim p =>
    obtain ⟨v, hv, hr⟩ := evalPrim_relaxed he p
    obtain ⟨d, hd⟩ := liquidOf_relaxed hr
    simp [evalCond, hv, truthy, hd]
  | cmp op l r =>
    obtain ⟨a, ha, har⟩ := evalPrim_relaxed he l
    obtain ⟨b, hb, hbr⟩ := evalPrim_relaxed he r
    simp only [evalCond, ha, hb]
    exact cmpV_quiet har hbr
  | and_ a b iha ihb =>
    simp only [evalCond]
    cases h : evalCond .dflt e a with
    | error err => intro h2; simp only at h2; cases h2; exact iha h
    | ok x => cases x <;> simp [ihb]
  | or_ a b iha ihb =>
    simp only [evalCond]
    cases h : evalCond .dflt e a with
    | error err => intro h2; simp only at h2; cases h2; exact iha h
    | ok x => cases x <;> simp [ihb]

theorem iterFor_quiet {body : Env → Data → Except Err (Env × String)} {P : Env → Prop}
    (hq : ∀ e x, P e → body e x ≠ .error .undefined)
    (hp : ∀ e x e' o, P e → body e x = .ok (e', o) → P e') :
    ∀ (xs : List Data) (e : Env) (out : String), P e → iterFor body e xs out ≠ .error .undefined := by
  intro xs
  induction xs with
  | nil => intro e out _ h; simp [iterFor] at h
  | cons x r ih =>
    intro e out hP
    simp only [iterFor]
    cases hx : body e x with
    | error err => intro h; simp only at h; cases h; exact hq e x hP hx
    | ok p =>
      obtain ⟨e1, o1⟩ := p
      exact ih _ _ (hp _ _ _ _ hP hx)

theorem relaxEnv_push {e : Env} (h : relaxEnv e = e) (x : String) (d : Data) :
    relaxEnv { e with scopes := [(x, Val.data d)] :: e.scopes } = { e with scopes := [(x, Val.data d)] :: e.scopes } := by
  have hs : e.scopes.map relaxScope = e.scopes := congrArg Env.scopes h
  have hl : relaxScope e.locals = e.locals := congrArg Env.locals h
  have hg : relaxScope e.globals = e.globals := congrArg Env.globals h
  simp only [relaxEnv, List.map_cons, hs, hl, hg]
  rfl

/-- a relaxed context stays relaxed -/
theorem render_keeps_relaxed {F : FilterSem} (hF : Refines F) {s : Stmt} {e e' : Env} {o : String}
    (he : relaxEnv e = e) (h : render F .dflt e s = .ok (e', o)) : relaxEnv e' = e' := by
  have := render_relax hF s e e' o h
  rw [he, h] at this
  exact (Prod.mk.inj (Except.ok.inj this)).1.symm

theorem render_quiet {F : FilterSem} (hF : Refines F) (hQ : QuietOnDefault F) (s : Stmt) :
    ∀ (e : Env), relaxEnv e = e → render F .dflt e s ≠ .error .undefined := by
  induction s with
  | nop => intro e _ h; simp [render] at h
  | text t => intro e _ h; simp [render] at h
  | output x =>
    intro e he
    simp only [render]
    cases hx : evalF F .dflt e x with
    | error err => intro h; simp only at h; cases h; exact evalF_quiet hF hQ he x hx
    | ok v =>
      have hv : relax v = v := by
        have := evalF_relax hF hx
        rw [he, hx] at this
        exact (Except.ok.inj this).symm
      obtain ⟨str, hs⟩ := toStr_relaxed hv
      simp [hs]
  | assign n x =>
    intro e he
    simp only [render]
    cases hx : evalF F .dflt e x with
    | error err => intro h; simp only at h; cases h; exact evalF_quiet hF hQ he x hx
    | ok v => simp
  | ifs c t f iht ihf =>
    intro e he
    simp only [render]
    cases hc : evalCond .dflt e c with
    | error err => intro h; simp only at h; cases h; exact evalCond_quiet he c hc
    | ok b => cases b <;> simp [iht e he, ihf e he]
  | for_ x it body els ihb ihe =>
    intro e he
    obtain ⟨v, hv, hr⟩ := evalPrim_relaxed he it
    obtain ⟨items, hi⟩ := toIter_relaxed hr
    simp only [render, hv, hi]
    cases items with
    | nil => exact ihe e he
    | cons i is =>
      simp only
      refine iterFor_quiet (P := fun e => relaxEnv e = e) ?_ ?_ _ _ _ he
      · intro e1 item h1
        have h1' := relaxEnv_push h1 x item
        cases hb : render F .dflt { e1 with scopes := [(x, Val.data item)] :: e1.scopes } body with
        | error err => intro h; simp only at h; cases h; exact ihb _ h1' hb
        | ok p => simp
      · intro e1 item e2 o2 h1 hb
        have h1' := relaxEnv_push h1 x item
        cases hr2 : render F .dflt { e1 with scopes := [(x, Val.data item)] :: e1.scopes } body with
        | error err => rw [hr2] at hb; cases hb
        | ok p =>
          obtain ⟨e3, o3⟩ := p
          rw [hr2] at hb
          cases hb
          have h3 := render_keeps_relaxed hF h1' hr2
          have hl : relaxScope e3.locals = e3.locals := congrArg Env.locals h3
          have hg : relaxScope e3.globals = e3.globals := congrArg Env.globals h3
          have hs : e1.scopes.map relaxScope = e1.scopes := congrArg Env.scopes h1
          simp only [relaxEnv, hl, hg, hs]
  | seq a b iha ihb =>
    intro e he
    simp only [render]
    cases h1 : render F .dflt e a with
    | error err => intro h; simp only at h; cases h; exact iha e he h1
    | ok p =>
      obtain ⟨e1, o1⟩ := p
      have he1 := render_keeps_relaxed hF he h1
      simp only
      cases h2 : render F .dflt e1 b with
      | error err => intro h; simp only at h; cases h; exact ihb e1 he1 h2
      | ok q => simp

/-- the nine concrete filters never raise `UndefinedError` on default-kind operands -/
theorem builtin_quiet : QuietOnDefault builtinFilters := by
  intro name v args h
  have hs : ∀ w : Val, ∃ s, strArg (relax w) = .ok s := by
    intro w; cases w with
    | data d => cases d <;> exact ⟨_, rfl⟩
    | undef k => exact ⟨"", rfl⟩
  have hso : ∀ w : Val, ∃ s, softStr (relax w) = .ok s := by
    intro w; cases w with
    | data d => exact ⟨_, rfl⟩
    | undef k => exact ⟨"", rfl⟩
  have hn : ∀ w : Val, ∃ i, numArg (relax w) = .ok i := by
    intro w; cases w with
    | data d => cases d <;> exact ⟨_, rfl⟩
    | undef k => exact ⟨0, rfl⟩
  unfold builtinFilters at h
  split at h
  · cases args with
    | nil => obtain ⟨s, h1⟩ := hs v; simp [fUpcase, h1] at h
    | cons a t => cases h
  split at h
  · match args, h with
    | [], h => cases h
    | [a], h =>
      obtain ⟨s, h1⟩ := hs v; obtain ⟨t, h2⟩ := hso a
      simp [fAppend, h1, h2] at h
    | _ :: _ :: _, h => cases h
  split at h
  · cases args with
    | nil => cases v <;> simp [fSize, relax] at h
    | cons a t => cases h
  split at h
  · cases args with
    | nil => cases v <;> simp [fFirst, relax] at h
    | cons a t => cases h
  split at h
  · match args, h with
    | [], h => cases h
    | [a], h =>
      obtain ⟨t, h2⟩ := hso a
      cases v <;> simp [fJoin, h2] at h
    | _ :: _ :: _, h => cases h
  split at h
  · match args, h with
    | [], h => cases h
    | [a], h =>
      obtain ⟨x, h1⟩ := hn v; obtain ⟨y, h2⟩ := hn a
      simp [fPlus, h1, h2] at h
    | _ :: _ :: _, h => cases h
  split at h
  · match args, h with
    | [], h => cases h
    | [a], h => cases v <;> simp [fDefault, relax, forceDefault] at h
    | _ :: _ :: _, h => cases h
  split at h
  · match args, h with
    | [], h => cases h
    | [a], h =>
      obtain ⟨s, h1⟩ := hs v
      cases a <;> simp [fSplit, h1] at h
    | _ :: _ :: _, h => cases h
  split at h
  · match args, h with
    | [], h => cases h
    | [a], h =>
      obtain ⟨x, h1⟩ := hn v
      cases a with
      | data d => cases d <;> simp [fRound, h1, isUndef] at h
      | undef k => simp [fRound, h1, isUndef] at h
    | _ :: _ :: _, h => cases h
  cases h

end LiquidVerif.UndefKind
