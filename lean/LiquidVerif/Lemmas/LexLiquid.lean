import LiquidVerif.Lemmas.Lex
import LiquidVerif.Lemmas.SpanLex
/-!
Helper lemmas for C10's deepening round: the inner tokens of a `{% liquid %}` tag (line scanner model
`Model/LiquidLines.lean`, shared with C20) located in the *template* source assembled from pieces.
-/
namespace LiquidVerif.Lex
open LiquidVerif.SpanLex

/-- every inner token of a liquid body is written in the body at `start - base` (C20's argument, restated on the
lemmas of `Lemmas/SpanLex.lean`) -/
theorem liquid_token_located (commentStart : Str) (base : Nat) (src : Str) (t : LiquidLines.Token)
    (h : t ∈ (LiquidLines.tokenizeLiquid commentStart base src).1) :
    base ≤ t.start ∧ Located src (t.start - base) t.value := by
  unfold LiquidLines.tokenizeLiquid at h
  obtain ⟨p, hp, hc⟩ := lcollect_mem _ base _ t h
  obtain ⟨hloc, inp, hok⟩ :=
    scanLines_located (LiquidLines.markerOf commentStart) src.length src [] rfl p (by simpa using hp)
  simp only [List.nil_append] at hloc
  rcases hc with ⟨hv, hs⟩ | ⟨hv, hs⟩
  · obtain ⟨pre, post, hraw, hlen⟩ := hok.nameAt
    refine ⟨by omega, ?_⟩
    have : t.start - base = p.1 + pre.length := by omega
    rw [this, hv]; exact located_inner hloc hraw
  · obtain ⟨pre, post, hraw, hlen⟩ := hok.exprAt
    refine ⟨by omega, ?_⟩
    have : t.start - base = p.1 + pre.length := by omega
    rw [this, hv]; exact located_inner hloc hraw

theorem assemble_append (d : Delims) : ∀ (xs ys : List Piece), assemble d (xs ++ ys) = assemble d xs ++ assemble d ys
  | [], _ => rfl
  | x :: xs, ys => by simp [assemble, assemble_append d xs ys, List.append_assoc]

/-- a text written in `e` at offset `k` is written in `a ++ (e ++ b)` at offset `|a| + k` -/
theorem located_embed {e v : Str} {k : Nat} (h : Located e k v) (a b : Str) :
    Located (a ++ (e ++ b)) (a.length + k) v := by
  obtain ⟨x, y, rfl, rfl⟩ := h
  exact ⟨a ++ x, y ++ b, by simp [List.append_assoc], by simp⟩

end LiquidVerif.Lex
