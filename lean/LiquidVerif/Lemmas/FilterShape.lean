import LiquidVerif.Lemmas.UndefKind
import LiquidVerif.Model.FilterShape
/-! `shapeSem sh g` only refines, for every shape and every plain computation `g`. -/
namespace LiquidVerif.UndefKind

@[simp] theorem pokeAll_dflt (ps : List Poke) : pokeAll .dflt ps = .ok () := by
  induction ps with
  | nil => rfl
  | cons p r ih => simp [pokeAll, ih]

theorem convOperand_relax {o : Operand} {v : Val} {d : Data} (h : convOperand o v = .ok d) :
    convOperand o (relax v) = .ok d := by
  cases v with
  | data x => exact h
  | undef k =>
    simp only [convOperand] at h
    cases hp : pokeAll k o.pokes with
    | error e => rw [hp] at h; cases h
    | ok u => rw [hp] at h; simpa [convOperand] using h

theorem convArgs_relax : ∀ {os : List Operand} {vs : List Val} {ds : List Data}, convArgs os vs = .ok ds →
    convArgs os (vs.map relax) = .ok ds := by
  intro os vs
  induction vs generalizing os with
  | nil => intro ds h; simpa [convArgs] using h
  | cons v r ih =>
    intro ds h
    cases os with
    | nil => simp [convArgs] at h
    | cons o os' =>
      simp only [convArgs, List.map_cons] at h ⊢
      cases hc : convOperand o v with
      | error e => rw [hc] at h; cases h
      | ok d =>
        rw [hc] at h; rw [convOperand_relax hc]
        cases hr : convArgs os' r with
        | error e => rw [hr] at h; cases h
        | ok ds' => rw [hr] at h; rw [ih hr]; exact h

theorem getArg_relax {args : List Val} {i : Nat} {r : Val} (h : getArg args i = .ok r) :
    getArg (args.map relax) i = .ok (relax r) := by
  unfold getArg at h ⊢
  rw [List.getElem?_map]
  cases ha : args[i]? with
  | none => rw [ha] at h; cases h
  | some a => rw [ha] at h; cases h; rfl

theorem runShape_relax {sh : Shape} {g : Data → List Data → Res} {d : Data} {args : List Val} {r : Val}
    (h : runShape sh g d args = .ok r) : runShape sh g d (args.map relax) = .ok (relax r) := by
  unfold runShape at h ⊢
  cases hc : convArgs sh.args args with
  | error e => rw [hc] at h; cases h
  | ok ds =>
    rw [hc] at h; rw [convArgs_relax hc]
    simp only at h ⊢
    cases hg : g d ds with
    | data x => rw [hg] at h; cases h; rfl
    | arg i => rw [hg] at h; exact getArg_relax h
    | fail => rw [hg] at h; cases h

/-- **per-shape refinement**: whatever the plain computation `g` is -/
theorem shape_refines (sh : Shape) (g : Data → List Data → Res) :
    ∀ v args r, shapeSem sh g v args = .ok r → shapeSem sh g (relax v) (args.map relax) = .ok (relax r) := by
  intro v args r h
  unfold shapeSem at h ⊢
  rw [List.length_map]
  split at h
  · cases h
  · rw [if_neg (by assumption)]
    cases v with
    | data d => exact runShape_relax h
    | undef k =>
      simp only [relax_undef, pokeAll_dflt] at h ⊢
      cases hp : pokeAll k sh.inPokes with
      | error e => rw [hp] at h; cases h
      | ok u =>
        rw [hp] at h
        simp only at h
        cases hi : sh.inUndef with
        | conv d => rw [hi] at h; exact runShape_relax h
        | self => rw [hi] at h; cases h; rfl
        | arg i => rw [hi] at h; exact getArg_relax h
        | fail => rw [hi] at h; cases h

theorem convOperand_relaxed (o : Operand) {v : Val} (hv : relax v = v) : ∃ d, convOperand o v = .ok d := by
  rcases relaxed_cases hv with ⟨d, rfl⟩ | rfl
  · exact ⟨d, rfl⟩
  · exact ⟨o.asData, by simp [convOperand]⟩

theorem convArgs_quiet : ∀ (os : List Operand) (vs : List Val), convArgs os (vs.map relax) ≠ .error .undefined := by
  intro os vs
  induction vs generalizing os with
  | nil => intro h; simp [convArgs] at h
  | cons v r ih =>
    cases os with
    | nil => intro h; simp [convArgs] at h
    | cons o os' =>
      obtain ⟨d, hd⟩ := convOperand_relaxed o (relax_relax v)
      simp only [List.map_cons, convArgs, hd]
      cases hr : convArgs os' (r.map relax) with
      | error e => intro h; simp only at h; cases h; exact ih os' hr
      | ok ds => simp

theorem getArg_quiet (args : List Val) (i : Nat) : getArg args i ≠ .error .undefined := by
  unfold getArg
  cases args[i]? with
  | none => simp
  | some a => simp

theorem runShape_quiet (sh : Shape) (g : Data → List Data → Res) (d : Data) (args : List Val) :
    runShape sh g d (args.map relax) ≠ .error .undefined := by
  unfold runShape
  cases hc : convArgs sh.args (args.map relax) with
  | error e => intro h; simp only at h; cases h; exact convArgs_quiet _ _ hc
  | ok ds =>
    simp only
    cases g d ds with
    | data x => simp
    | arg i => exact getArg_quiet _ _
    | fail => simp

/-- **per-shape quietness**: no `UndefinedError` when every undefined operand is the default `Undefined` -/
theorem shape_quiet (sh : Shape) (g : Data → List Data → Res) (v : Val) (args : List Val) :
    shapeSem sh g (relax v) (args.map relax) ≠ .error .undefined := by
  unfold shapeSem
  split
  · simp
  · cases v with
    | data d => exact runShape_quiet sh g d args
    | undef k =>
      simp only [relax_undef, pokeAll_dflt]
      cases sh.inUndef with
      | conv d => exact runShape_quiet sh g d args
      | self => simp
      | arg i => exact getArg_quiet _ _
      | fail => simp

/-- a `StrictUndefined` raises at the first poke of any non-empty conversion -/
theorem pokeAll_strict {ps : List Poke} (h : ps ≠ []) :
    pokeAll .strict ps = .error .undefined ∧ pokeAll .strictDefault ps = .error .undefined := by
  cases ps with
  | nil => exact absurd rfl h
  | cons p r => exact ⟨rfl, rfl⟩

/-- **per-shape strictness, input**: a filter whose conversion of the left value pokes it raises `UndefinedError`
    on a `StrictUndefined` input (given enough arguments) -/
theorem shape_strict_input (sh : Shape) (g : Data → List Data → Res) (args : List Val)
    (hp : sh.inPokes ≠ []) (ha : ¬ args.length < sh.minArgs) :
    shapeSem sh g (.undef .strict) args = .error .undefined := by
  unfold shapeSem
  rw [if_neg ha]
  simp only [(pokeAll_strict hp).1]

/-- **per-shape strictness, argument**: with a plain input and plain arguments before it, a `StrictUndefined` in an
    argument position whose conversion pokes it raises `UndefinedError` -/
theorem convArgs_strict : ∀ (os : List Operand) (pre : List Data) (rest : List Val) (o : Operand),
    os[pre.length]? = some o → o.pokes ≠ [] →
    convArgs os (pre.map Val.data ++ Val.undef .strict :: rest) = .error .undefined := by
  intro os pre
  induction pre generalizing os with
  | nil =>
    intro rest o ho hp
    cases os with
    | nil => simp at ho
    | cons o' os' =>
      simp only [List.length_nil, List.getElem?_cons_zero, Option.some.injEq] at ho
      subst ho
      simp [convArgs, convOperand, (pokeAll_strict hp).1]
  | cons d r ih =>
    intro rest o ho hp
    cases os with
    | nil => simp at ho
    | cons o' os' =>
      simp only [List.length_cons, List.getElem?_cons_succ] at ho
      simp only [List.map_cons, List.cons_append, convArgs, convOperand, ih os' rest o ho hp]

end LiquidVerif.UndefKind
