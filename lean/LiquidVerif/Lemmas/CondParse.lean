import LiquidVerif.Model.CondParse
/-! Helper lemmas about the Pratt parser model (`Model/CondParse.lean`). -/
namespace LiquidVerif.CondParse
open LiquidVerif.Gen

/-- Every successful parse consumes at least one token, and the loop never produces tokens: the three
    `if _ : r'.length … then … else none` tests of the model are always true (their `else` is dead code). -/
theorem consumes_aux (fl : Flags) : ∀ (n : Nat) (ts : List Tok), ts.length ≤ n →
    (∀ p e r, parsePrim fl p ts = some (e, r) → r.length < ts.length) ∧
    (∀ p l e r, loop fl p l ts = some (e, r) → r.length ≤ ts.length) := by
  intro n
  induction n with
  | zero =>
    intro ts h
    have : ts = [] := by cases ts <;> simp_all
    subst this
    constructor
    · intro p e r h; rw [parsePrim] at h; simp at h
    · intro p l e r h; rw [loop] at h; simp at h; simp [h]
  | succ n ih =>
    intro ts hlen
    have loopPart : ∀ p l e r, loop fl p l ts = some (e, r) → r.length ≤ ts.length := by
      intro p l e r h
      cases ts with
      | nil => rw [loop] at h; simp at h; simp [h]
      | cons t rest =>
        rw [loop] at h
        split at h
        · simp at h; simp [← h.2]
        · split at h
          · simp at h; simp [← h.2]
          · split at h
            · rename_i right r' hp
              split at h
              · split at h
                · rename_i e' hm hle
                  have := (ih r' (by simp at hlen; omega)).2 p e' e r h
                  simp; omega
                · simp at h
              · simp at h
            · simp at h
    refine ⟨?_, loopPart⟩
    intro p e r h
    cases ts with
    | nil => rw [parsePrim] at h; simp at h
    | cons t rest =>
      have hr : rest.length ≤ n := by simp at hlen; omega
      cases t with
      | atom k =>
        rw [parsePrim] at h
        have := (ih rest hr).2 p _ e r h
        simp; omega
      | lp =>
        rw [parsePrim] at h
        split at h
        · simp at h
        · split at h
          · rename_i e' r' hp
            split at h
            · rename_i hlt
              have := (ih r' (by omega)).2 p _ e r h
              simp; omega
            · simp at h
          · simp at h
      | not =>
        rw [parsePrim] at h
        split at h
        · simp at h
        · split at h
          · rename_i e' r' hp
            split at h
            · rename_i hle
              have := (ih r' (by omega)).2 p _ e r h
              simp; omega
            · simp at h
          · simp at h
      | op o => rw [parsePrim] at h; simp at h
      | rp => rw [parsePrim] at h; simp at h
      | junk => rw [parsePrim] at h; simp at h

theorem parsePrim_consumes {fl p ts e r} (h : parsePrim fl p ts = some (e, r)) : r.length < ts.length :=
  (consumes_aux fl ts.length ts (Nat.le_refl _)).1 p e r h

theorem loop_consumes {fl p l ts e r} (h : loop fl p l ts = some (e, r)) : r.length ≤ ts.length :=
  (consumes_aux fl ts.length ts (Nat.le_refl _)).2 p l e r h


/-! ### one-step unfoldings with the dead `else none` branches discharged -/

theorem loop_nil (fl : Flags) (p : Nat) (l : E) : loop fl p l [] = some (l, []) := by
  rw [loop]

theorem loop_stop (fl : Flags) (p : Nat) (l : E) (t : Tok) (r : List Tok)
    (h : stops t p = true ∨ isBin t = false) : loop fl p l (t :: r) = some (l, t :: r) := by
  rw [loop]
  rcases h with h | h <;> simp [h]

theorem loop_bin (fl : Flags) (p : Nat) (l : E) (t : Tok) (r r' : List Tok) (right e : E)
    (hs : stops t p = false) (hb : isBin t = true)
    (hp : parsePrim fl (prec t) r = some (right, r')) (hm : mkInfix t l right = some e) :
    loop fl p l (t :: r) = loop fl p e r' := by
  rw [loop]
  have := parsePrim_consumes hp
  simp [hs, hb, hp, hm]
  omega

theorem parsePrim_atom (fl : Flags) (p n : Nat) (r : List Tok) :
    parsePrim fl p (.atom n :: r) = loop fl p (.atom n) r := by
  rw [parsePrim]

theorem parsePrim_group (fl : Flags) (p : Nat) (r r' : List Tok) (e : E) (ha : fl.allowParens = true)
    (hp : parsePrim fl C12Tables.groupPrec r = some (e, .rp :: r')) :
    parsePrim fl p (.lp :: r) = loop fl p e r' := by
  rw [parsePrim]
  have := parsePrim_consumes hp
  simp [ha, hp]
  simp at this
  omega

theorem parsePrim_not (fl : Flags) (p : Nat) (r r' : List Tok) (e : E) (ha : fl.allowNot = true)
    (hp : parsePrim fl C12Tables.notOperandPrec r = some (e, r')) :
    parsePrim fl p (.not :: r) = loop fl p (.not e) r' := by
  rw [parsePrim]
  have := parsePrim_consumes hp
  simp [ha, hp]
  omega

/-- what may follow a complete expression: nothing, or a token that is not a binary operator (`)`, `,`, `else` …) -/
def Stop (rest : List Tok) : Prop := rest = [] ∨ ∃ t r, rest = t :: r ∧ isBin t = false

theorem loop_at_stop (fl : Flags) (p : Nat) (l : E) (rest : List Tok) (h : Stop rest) :
    loop fl p l rest = some (l, rest) := by
  rcases h with rfl | ⟨t, r, rfl, hb⟩
  · exact loop_nil ..
  · exact loop_stop _ _ _ _ _ (Or.inr hb)

/-- Append stability: if a token list parses leaving `r`, then followed by a `Stop` tail it parses to the same
    tree leaving `r ++ tail` (the parser never looks past a token that is not a binary operator). -/
theorem append_aux (fl : Flags) (tail : List Tok) (ht : Stop tail) : ∀ (n : Nat) (ts : List Tok), ts.length ≤ n →
    (∀ p e r, parsePrim fl p ts = some (e, r) → parsePrim fl p (ts ++ tail) = some (e, r ++ tail)) ∧
    (∀ p l e r, loop fl p l ts = some (e, r) → loop fl p l (ts ++ tail) = some (e, r ++ tail)) := by
  intro n
  induction n with
  | zero =>
    intro ts h
    have : ts = [] := by cases ts <;> simp_all
    subst this
    constructor
    · intro p e r h; rw [parsePrim] at h; simp at h
    · intro p l e r h
      rw [loop] at h; simp at h
      obtain ⟨rfl, rfl⟩ := h
      simpa using loop_at_stop fl p l tail ht
  | succ n ih =>
    intro ts hlen
    constructor
    · intro p e r h
      cases ts with
      | nil => rw [parsePrim] at h; simp at h
      | cons t rest =>
        have hr : rest.length ≤ n := by simp at hlen; omega
        cases t with
        | atom k =>
          rw [parsePrim] at h
          have := (ih rest hr).2 p _ e r h
          simpa [parsePrim_atom] using this
        | lp =>
          rw [parsePrim] at h
          split at h
          · simp at h
          · rename_i hal
            split at h
            · rename_i e' r' hp
              split at h
              · rename_i hlt
                have h1 := (ih rest hr).1 _ e' _ hp
                have h2 := (ih r' (by omega)).2 p _ e r h
                have := parsePrim_group fl p (rest ++ tail) (r' ++ tail) e' (by simpa using hal) (by simpa using h1)
                simpa [this] using h2
              · simp at h
            · simp at h
        | not =>
          rw [parsePrim] at h
          split at h
          · simp at h
          · rename_i hal
            split at h
            · rename_i e' r' hp
              split at h
              · rename_i hle
                have h1 := (ih rest hr).1 _ e' _ hp
                have h2 := (ih r' (by omega)).2 p _ e r h
                have := parsePrim_not fl p (rest ++ tail) (r' ++ tail) e' (by simpa using hal) h1
                simpa [this] using h2
              · simp at h
            · simp at h
        | op o => rw [parsePrim] at h; simp at h
        | rp => rw [parsePrim] at h; simp at h
        | junk => rw [parsePrim] at h; simp at h
    · intro p l e r h
      cases ts with
      | nil =>
        rw [loop] at h; simp at h
        obtain ⟨rfl, rfl⟩ := h
        simpa using loop_at_stop fl p l tail ht
      | cons t rest =>
        have hr : rest.length ≤ n := by simp at hlen; omega
        rw [loop] at h
        split at h
        · rename_i hs
          simp at h
          obtain ⟨rfl, rfl⟩ := h
          simpa using loop_stop fl p l t (rest ++ tail) (Or.inl hs)
        · rename_i hs
          split at h
          · rename_i hb
            simp at h
            obtain ⟨rfl, rfl⟩ := h
            simpa using loop_stop fl p l t (rest ++ tail) (Or.inr (by simpa using hb))
          · rename_i hb
            split at h
            · rename_i right r' hp
              split at h
              · rename_i e' hm
                split at h
                · rename_i hle
                  have h1 := (ih rest hr).1 _ right _ hp
                  have h2 := (ih r' (by omega)).2 p _ e r h
                  have := loop_bin fl p l t (rest ++ tail) (r' ++ tail) right e' (by simpa using hs) (by simpa using hb) h1 hm
                  simpa [this] using h2
                · simp at h
              · simp at h
            · simp at h

theorem parsePrim_append {fl p ts e r} (tail : List Tok) (ht : Stop tail) (h : parsePrim fl p ts = some (e, r)) :
    parsePrim fl p (ts ++ tail) = some (e, r ++ tail) :=
  (append_aux fl tail ht ts.length ts (Nat.le_refl _)).1 p e r h

end LiquidVerif.CondParse
