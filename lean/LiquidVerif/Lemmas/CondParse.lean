import LiquidVerif.Model.CondParse
/-! Helper lemmas about the Pratt parser model (`Model/CondParse.lean`). -/
namespace LiquidVerif.CondParse
open LiquidVerif.Gen

/-- Every successful parse consumes at least one token, and the loop never produces tokens: the three
    `if _ : r'.length … then … else none` tests of the model are always true (their `else` is dead code). -/
theorem consumes_aux (fl : Flags) : ∀ (n : Nat) (ts : List Tok), ts.length ≤ n →
    (∀ p e r, parsePrim fl p ts = some (e, r) → r.length < ts.length) ∧
    (∀ p l e r, loop fl p l ts = some (e, r) → r.length ≤ ts.length) := by
  intro n
  induction n with
  | zero =>
    intro ts h
    have : ts = [] := by cases ts <;> simp_all
    subst this
    constructor
    · intro p e r h; rw [parsePrim] at h; simp at h
    · intro p l e r h; rw [loop] at h; simp at h; simp [h]
  | succ n ih =>
    intro ts hlen
    have loopPart : ∀ p l e r, loop fl p l ts = some (e, r) → r.length ≤ ts.length := by
      intro p l e r h
      cases ts with
      | nil => rw [loop] at h; simp at h; simp [h]
      | cons t rest =>
        rw [loop] at h
        split at h
        · simp at h; simp [← h.2]
        · split at h
          · simp at h; simp [← h.2]
          · split at h
            · rename_i right r' hp
              split at h
              · split at h
                · rename_i e' hm hle
                  have := (ih r' (by simp at hlen; omega)).2 p e' e r h
                  simp; omega
                · simp at h
              · simp at h
            · simp at h
    refine ⟨?_, loopPart⟩
    intro p e r h
    cases ts with
    | nil => rw [parsePrim] at h; simp at h
    | cons t rest =>
      have hr : rest.length ≤ n := by simp at hlen; omega
      cases t with
      | atom k =>
        rw [parsePrim] at h
        have := (ih rest hr).2 p _ e r h
        simp; omega
      | lp =>
        rw [parsePrim] at h
        split at h
        · simp at h
        · split at h
          · rename_i e' r' hp
            split at h
            · rename_i hlt
              have := (ih r' (by omega)).2 p _ e r h
              simp; omega
            · simp at h
          · simp at h
      | not =>
        rw [parsePrim] at h
        split at h
        · simp at h
        · split at h
          · rename_i e' r' hp
            split at h
            · rename_i hle
              have := (ih r' (by omega)).2 p _ e r h
              simp; omega
            · simp at h
          · simp at h
      | op o => rw [parsePrim] at h; simp at h
      | rp => rw [parsePrim] at h; simp at h
      | junk => rw [parsePrim] at h; simp at h

theorem parsePrim_consumes {fl p ts e r} (h : parsePrim fl p ts = some (e, r)) : r.length < ts.length :=
  (consumes_aux fl ts.length ts (Nat.le_refl _)).1 p e r h

theorem loop_consumes {fl p l ts e r} (h : loop fl p l ts = some (e, r)) : r.length ≤ ts.length :=
  (consumes_aux fl ts.length ts (Nat.le_refl _)).2 p l e r h


/-! ### one-step unfoldings with the dead `else none` branches discharged -/

theorem loop_nil (fl : Flags) (p : Nat) (l : E) : loop fl p l [] = some (l, []) := by
  rw [loop]

theorem loop_stop (fl : Flags) (p : Nat) (l : E) (t : Tok) (r : List Tok)
    (h : stops t p = true ∨ isBin t = false) : loop fl p l (t :: r) = some (l, t :: r) := by
  rw [loop]
  rcases h with h | h <;> simp [h]

theorem loop_bin (fl : Flags) (p : Nat) (l : E) (t : Tok) (r r' : List Tok) (right e : E)
    (hs : stops t p = false) (hb : isBin t = true)
    (hp : parsePrim fl (prec t) r = some (right, r')) (hm : mkInfix t l right = some e) :
    loop fl p l (t :: r) = loop fl p e r' := by
  rw [loop]
  have := parsePrim_consumes hp
  simp [hs, hb, hp, hm]
  omega

theorem parsePrim_atom (fl : Flags) (p n : Nat) (r : List Tok) :
    parsePrim fl p (.atom n :: r) = loop fl p (.atom n) r := by
  rw [parsePrim]

theorem parsePrim_group (fl : Flags) (p : Nat) (r r' : List Tok) (e : E) (ha : fl.allowParens = true)
    (hp : parsePrim fl C12Tables.groupPrec r = some (e, .rp :: r')) :
    parsePrim fl p (.lp :: r) = loop fl p e r' := by
  rw [parsePrim]
  have := parsePrim_consumes hp
  simp [ha, hp]
  simp at this
  omega

theorem parsePrim_not (fl : Flags) (p : Nat) (r r' : List Tok) (e : E) (ha : fl.allowNot = true)
    (hp : parsePrim fl C12Tables.notOperandPrec r = some (e, r')) :
    parsePrim fl p (.not :: r) = loop fl p (.not e) r' := by
  rw [parsePrim]
  have := parsePrim_consumes hp
  simp [ha, hp]
  omega

/-- what may follow a complete expression: nothing, or a token that is not a binary operator (`)`, `,`, `else` …) -/
def Stop (rest : List Tok) : Prop := rest = [] ∨ ∃ t r, rest = t :: r ∧ isBin t = false

theorem loop_at_stop (fl : Flags) (p : Nat) (l : E) (rest : List Tok) (h : Stop rest) :
    loop fl p l rest = some (l, rest) := by
  rcases h with rfl | ⟨t, r, rfl, hb⟩
  · exact loop_nil ..
  · exact loop_stop _ _ _ _ _ (Or.inr hb)

/-- Append stability: if a token list parses leaving `r`, then followed by a `Stop` tail it parses to the same
    tree leaving `r ++ tail` (the parser never looks past a token that is not a binary operator). -/
theorem append_aux (fl : Flags) (tail : List Tok) (ht : Stop tail) : ∀ (n : Nat) (ts : List Tok), ts.length ≤ n →
    (∀ p e r, parsePrim fl p ts = some (e, r) → parsePrim fl p (ts ++ tail) = some (e, r ++ tail)) ∧
    (∀ p l e r, loop fl p l ts = some (e, r) → loop fl p l (ts ++ tail) = some (e, r ++ tail)) := by
  intro n
  induction n with
  | zero =>
    intro ts h
    have : ts = [] := by cases ts <;> simp_all
    subst this
    constructor
    · intro p e r h; rw [parsePrim] at h; simp at h
    · intro p l e r h
      rw [loop] at h; simp at h
      obtain ⟨rfl, rfl⟩ := h
      simpa using loop_at_stop fl p l tail ht
  | succ n ih =>
    intro ts hlen
    constructor
    · intro p e r h
      cases ts with
      | nil => rw [parsePrim] at h; simp at h
      | cons t rest =>
        have hr : rest.length ≤ n := by simp at hlen; omega
        cases t with
        | atom k =>
          rw [parsePrim] at h
          have := (ih rest hr).2 p _ e r h
          simpa [parsePrim_atom] using this
        | lp =>
          rw [parsePrim] at h
          split at h
          · simp at h
          · rename_i hal
            split at h
            · rename_i e' r' hp
              split at h
              · rename_i hlt
                have h1 := (ih rest hr).1 _ e' _ hp
                have h2 := (ih r' (by omega)).2 p _ e r h
                have := parsePrim_group fl p (rest ++ tail) (r' ++ tail) e' (by simpa using hal) (by simpa using h1)
                simpa [this] using h2
              · simp at h
            · simp at h
        | not =>
          rw [parsePrim] at h
          split at h
          · simp at h
          · rename_i hal
            split at h
            · rename_i e' r' hp
              split at h
              · rename_i hle
                have h1 := (ih rest hr).1 _ e' _ hp
                have h2 := (ih r' (by omega)).2 p _ e r h
                have := parsePrim_not fl p (rest ++ tail) (r' ++ tail) e' (by simpa using hal) h1
                simpa [this] using h2
              · simp at h
            · simp at h
        | op o => rw [parsePrim] at h; simp at h
        | rp => rw [parsePrim] at h; simp at h
        | junk => rw [parsePrim] at h; simp at h
    · intro p l e r h
      cases ts with
      | nil =>
        rw [loop] at h; simp at h
        obtain ⟨rfl, rfl⟩ := h
        simpa using loop_at_stop fl p l tail ht
      | cons t rest =>
        have hr : rest.length ≤ n := by simp at hlen; omega
        rw [loop] at h
        split at h
        · rename_i hs
          simp at h
          obtain ⟨rfl, rfl⟩ := h
          simpa using loop_stop fl p l t (rest ++ tail) (Or.inl hs)
        · rename_i hs
          split at h
          · rename_i hb
            simp at h
            obtain ⟨rfl, rfl⟩ := h
            simpa using loop_stop fl p l t (rest ++ tail) (Or.inr (by simpa using hb))
          · rename_i hb
            split at h
            · rename_i right r' hp
              split at h
              · rename_i e' hm
                split at h
                · rename_i hle
                  have h1 := (ih rest hr).1 _ right _ hp
                  have h2 := (ih r' (by omega)).2 p _ e r h
                  have := loop_bin fl p l t (rest ++ tail) (r' ++ tail) right e' (by simpa using hs) (by simpa using hb) h1 hm
                  simpa [this] using h2
                · simp at h
              · simp at h
            · simp at h

theorem parsePrim_append {fl p ts e r} (tail : List Tok) (ht : Stop tail) (h : parsePrim fl p ts = some (e, r)) :
    parsePrim fl p (ts ++ tail) = some (e, r ++ tail) :=
  (append_aux fl tail ht ts.length ts (Nat.le_refl _)).1 p e r h


/-! ### deepening round: the loop factors through precedence levels; grammar-level equation -/

/-- Running the loop at a higher precedence first and then continuing at a lower one is the same as running it
    at the lower one: the loop of `parse_boolean_primitive` factors through precedence levels. -/
theorem loop_split_aux (fl : Flags) (p q : Nat) (hpq : q ≤ p) : ∀ (n : Nat) (ts : List Tok) (l : E), ts.length ≤ n →
    loop fl q l ts = (loop fl p l ts).bind (fun x => loop fl q x.1 x.2) := by
  intro n
  induction n with
  | zero =>
    intro ts l h
    have : ts = [] := by cases ts <;> simp_all
    subst this
    simp [loop_nil]
  | succ n ih =>
    intro ts l hlen
    cases ts with
    | nil => simp [loop_nil]
    | cons t rest =>
      by_cases hsp : stops t p = true
      · rw [loop_stop fl p l t rest (Or.inl hsp)]; simp
      · by_cases hb : isBin t = true
        · have hsq : stops t q = false := by
            simp only [stops, C12Tables.breakStrict, if_true, decide_eq_true_eq, decide_eq_false_iff_not] at hsp ⊢
            omega
          cases hp : parsePrim fl (prec t) rest with
          | none =>
            have e1 : loop fl q l (t :: rest) = none := by rw [loop]; simp [hsq, hb, hp]
            have e2 : loop fl p l (t :: rest) = none := by rw [loop]; simp [hsp, hb, hp]
            simp [e1, e2]
          | some res =>
            obtain ⟨right, r'⟩ := res
            cases hm : mkInfix t l right with
            | none =>
              have e1 : loop fl q l (t :: rest) = none := by rw [loop]; simp [hsq, hb, hp, hm]
              have e2 : loop fl p l (t :: rest) = none := by rw [loop]; simp [hsp, hb, hp, hm]
              simp [e1, e2]
            | some e =>
              have hc := parsePrim_consumes hp
              rw [loop_bin fl q l t rest r' right e hsq hb hp hm,
                loop_bin fl p l t rest r' right e (by simpa using hsp) hb hp hm]
              exact ih r' e (by simp at hlen; omega)
        · have hb' : isBin t = false := by simpa using hb
          rw [loop_stop fl p l t rest (Or.inr hb'), loop_stop fl q l t rest (Or.inr hb')]
          simp [loop_stop fl q l t rest (Or.inr hb')]

theorem loop_split (fl : Flags) (p q : Nat) (hpq : q ≤ p) (l : E) (ts : List Tok) :
    loop fl q l ts = (loop fl p l ts).bind (fun x => loop fl q x.1 x.2) :=
  loop_split_aux fl p q hpq ts.length ts l (Nat.le_refl _)


/-- the same for a whole operand-and-loop: parsing at a low precedence = parsing at a higher one, then
    continuing the loop at the low one -/
theorem parsePrim_split (fl : Flags) (p q : Nat) (hpq : q ≤ p) (ts : List Tok) :
    parsePrim fl q ts = (parsePrim fl p ts).bind (fun x => loop fl q x.1 x.2) := by
  cases ts with
  | nil => rw [parsePrim, parsePrim]; rfl
  | cons t rest =>
    cases t with
    | atom n => rw [parsePrim_atom, parsePrim_atom]; exact loop_split fl p q hpq _ _
    | lp =>
      by_cases ha : fl.allowParens = true
      · cases hp : parsePrim fl C12Tables.groupPrec rest with
        | none => rw [parsePrim, parsePrim]; simp [ha, hp]
        | some res =>
          obtain ⟨e, r⟩ := res
          cases r with
          | nil => rw [parsePrim, parsePrim]; simp [ha, hp]
          | cons t' r' =>
            by_cases ht : t' = .rp
            · subst ht
              rw [parsePrim_group fl q rest r' e ha hp, parsePrim_group fl p rest r' e ha hp]
              exact loop_split fl p q hpq _ _
            · rw [parsePrim, parsePrim]; cases t' <;> simp_all
      · rw [parsePrim, parsePrim]; simp [ha]
    | not =>
      by_cases ha : fl.allowNot = true
      · cases hp : parsePrim fl C12Tables.notOperandPrec rest with
        | none => rw [parsePrim, parsePrim]; simp [ha, hp]
        | some res =>
          obtain ⟨e, r'⟩ := res
          rw [parsePrim_not fl q rest r' e ha hp, parsePrim_not fl p rest r' e ha hp]
          exact loop_split fl p q hpq _ _
      · rw [parsePrim, parsePrim]; simp [ha]
    | op o => rw [parsePrim, parsePrim]; rfl
    | rp => rw [parsePrim, parsePrim]; rfl
    | junk => rw [parsePrim, parsePrim]; rfl


/-- where a parse at precedence `p` stops: at the end, or at a token that breaks the loop at `p` -/
def AtStop (p : Nat) (r : List Tok) : Prop :=
  r = [] ∨ ∃ t r', r = t :: r' ∧ (stops t p = true ∨ isBin t = false)

theorem loop_atStop_aux (fl : Flags) (p : Nat) : ∀ (n : Nat) (ts : List Tok) (l e : E) (r : List Tok), ts.length ≤ n →
    loop fl p l ts = some (e, r) → AtStop p r := by
  intro n
  induction n with
  | zero =>
    intro ts l e r h hl
    have : ts = [] := by cases ts <;> simp_all
    subst this
    rw [loop_nil] at hl; simp at hl; exact Or.inl hl.2
  | succ n ih =>
    intro ts l e r hlen hl
    cases ts with
    | nil => rw [loop_nil] at hl; simp at hl; exact Or.inl hl.2
    | cons t rest =>
      by_cases hsp : stops t p = true
      · rw [loop_stop fl p l t rest (Or.inl hsp)] at hl; simp at hl
        exact Or.inr ⟨t, rest, hl.2.symm, Or.inl hsp⟩
      · by_cases hb : isBin t = true
        · cases hp : parsePrim fl (prec t) rest with
          | none => rw [loop] at hl; simp [hsp, hb, hp] at hl
          | some res =>
            obtain ⟨right, r'⟩ := res
            cases hm : mkInfix t l right with
            | none => rw [loop] at hl; simp [hsp, hb, hp, hm] at hl
            | some e' =>
              have hc := parsePrim_consumes hp
              rw [loop_bin fl p l t rest r' right e' (by simpa using hsp) hb hp hm] at hl
              exact ih r' e' e r (by simp at hlen; omega) hl
        · have hb' : isBin t = false := by simpa using hb
          rw [loop_stop fl p l t rest (Or.inr hb')] at hl; simp at hl
          exact Or.inr ⟨t, rest, hl.2.symm, Or.inr hb'⟩

theorem parsePrim_atStop {fl p ts e r} (h : parsePrim fl p ts = some (e, r)) : AtStop p r := by
  have key : ∀ l ts', loop fl p l ts' = some (e, r) → AtStop p r :=
    fun l ts' hl => loop_atStop_aux fl p ts'.length ts' l e r (Nat.le_refl _) hl
  cases ts with
  | nil => rw [parsePrim] at h; simp at h
  | cons t rest =>
    cases t with
    | atom n => rw [parsePrim_atom] at h; exact key _ _ h
    | lp =>
      rw [parsePrim] at h
      split at h
      · simp at h
      · split at h
        · split at h
          · exact key _ _ h
          · simp at h
        · simp at h
    | not =>
      rw [parsePrim] at h
      split at h
      · simp at h
      · split at h
        · split at h
          · exact key _ _ h
          · simp at h
        · simp at h
    | op o => rw [parsePrim] at h; simp at h
    | rp => rw [parsePrim] at h; simp at h
    | junk => rw [parsePrim] at h; simp at h


/-- one level of the grammar: after an expression of the next-higher level, at most one operator of this level,
    whose right operand is again an expression of this level (right recursion) -/
def levelStep (fl : Flags) (q lv : Nat) (x : E × List Tok) : Option (E × List Tok) :=
  match x.2 with
  | [] => some (x.1, [])
  | t :: r' =>
    if stops t q || !isBin t then some (x.1, t :: r')
    else (parsePrim fl lv r').bind fun y => (mkInfix t x.1 y.1).map fun e => (e, y.2)

/-- **The Pratt parser satisfies the defining equation of a stratified right-recursive grammar level**, for all
    token lists: parsing at precedence `q` = parsing at the next level `hi`, then `levelStep`. -/
theorem level_eq (fl : Flags) (q hi lv : Nat) (hq : q ≤ hi)
    (hS : ∀ t, isBin t = true → stops t hi = true → stops t q = false → prec t = lv)
    (hstop : ∀ t, stops t lv = true → stops t q = true ∨ isBin t = false) (ts : List Tok) :
    parsePrim fl q ts = (parsePrim fl hi ts).bind (levelStep fl q lv) := by
  rw [parsePrim_split fl hi q hq ts]
  cases h : parsePrim fl hi ts with
  | none => rfl
  | some x =>
    obtain ⟨l, r⟩ := x
    have hst := parsePrim_atStop h
    simp only [Option.bind_some, levelStep]
    cases r with
    | nil => exact loop_nil ..
    | cons t r' =>
      by_cases hc : (stops t q || !isBin t) = true
      · simp only [hc, if_true]
        apply loop_stop
        simpa using hc
      · simp only [hc]
        have hsq : stops t q = false := by simpa using (by simpa using hc : ¬ stops t q = true ∧ isBin t = true).1
        have hb : isBin t = true := (by simpa using hc : ¬ stops t q = true ∧ isBin t = true).2
        have hpt : prec t = lv := by
          rcases hst with h0 | ⟨t0, r0, h0, h1⟩
          · simp at h0
          · simp at h0; obtain ⟨rfl, rfl⟩ := h0
            rcases h1 with h1 | h1
            · exact hS _ hb h1 hsq
            · simp [hb] at h1
        cases hp : parsePrim fl lv r' with
        | none => rw [loop]; simp [hsq, hb, hpt, hp]
        | some y =>
          obtain ⟨z, r''⟩ := y
          cases hm : mkInfix t l z with
          | none => rw [loop]; simp [hsq, hb, hpt, hp, hm]
          | some e =>
            rw [loop_bin fl q l t r' r'' z e hsq hb (by rw [hpt]; exact hp) hm]
            simp only [Option.bind_some, hm, Option.map_some, if_false, Bool.false_eq_true]
            rcases parsePrim_atStop hp with h0 | ⟨t0, r0, rfl, h1⟩
            · subst h0; exact loop_nil ..
            · apply loop_stop
              rcases h1 with h1 | h1
              · exact hstop _ h1
              · exact Or.inr h1

end LiquidVerif.CondParse
