import LiquidVerif.Model.LoopLimit
/-!
Helper lemmas for `Props/C06.lean`: arithmetic of `reduceMul`/`prod`, the ghost invariant, trace membership.
-/
set_option linter.unusedSimpArgs false
namespace LiquidVerif.LoopLimit

theorem reduceMul_eq (init : Nat) (xs : List Nat) : reduceMul init xs = init * prod xs := by
  unfold prod reduceMul
  induction xs generalizing init with
  | nil => simp
  | cons x xs ih =>
    simp only [List.foldl_cons]
    rw [ih (init * x), ih (1 * x)]
    simp [Nat.mul_assoc]

@[simp] theorem prod_nil : prod [] = 1 := rfl

theorem prod_append (xs ys : List Nat) : prod (xs ++ ys) = prod xs * prod ys := by
  unfold prod reduceMul
  rw [List.foldl_append]
  have := reduceMul_eq (List.foldl (· * ·) 1 xs) ys
  unfold reduceMul prod at this
  exact this

@[simp] theorem prod_singleton (n : Nat) : prod [n] = n := by simp [prod, reduceMul]

theorem prod_snoc (xs : List Nat) (n : Nat) : prod (xs ++ [n]) = prod xs * n := by
  rw [prod_append, prod_singleton]

/-- what `raise_for_loop_limit` measures for the current context (length 1) -/
def Cx.measured (c : Cx) : Nat := reduceMul c.carry c.loops

/-- **The ghost invariant**: the product of the true lengths of all enclosing repeating constructs is exactly what the
code measures from its loop stack and carry. -/
def GhostInv (c : Cx) : Prop := prod c.ghost = c.measured

theorem measured_eq (c : Cx) : c.measured = c.carry * prod c.loops := reduceMul_eq _ _

/-- `raise_for_loop_limit(n)` compares `measured * n` with the limit. -/
theorem overLimit_some (N : Nat) (hN : N ≠ 0) (c : Cx) (n : Nat) :
    overLimit (some N) c n = decide (c.measured * n > N) := by
  simp only [overLimit, Cx.measured, reduceMul_eq]
  have : (N != 0) = true := by simpa using hN
  rw [this, Bool.true_and]
  congr 1
  rw [Nat.mul_comm n c.carry, Nat.mul_assoc, Nat.mul_comm n, ← Nat.mul_assoc]

theorem overLimit_none (c : Cx) (n : Nat) : overLimit none c n = false := rfl

theorem overLimit_zero (c : Cx) (n : Nat) : overLimit (some 0) c n = false := by simp [overLimit]

theorem reduceMul_snoc (k : Nat) (l : List Nat) (n : Nat) : reduceMul k (l ++ [n]) = reduceMul k l * n := by
  simp [reduceMul, List.foldl_append]

theorem reduceMul_mul (k n : Nat) (l : List Nat) : reduceMul (k * n) l = reduceMul k l * n := by
  rw [reduceMul_eq, reduceMul_eq, Nat.mul_assoc, Nat.mul_comm n, ← Nat.mul_assoc]

@[simp] theorem reduceMul_nil (k : Nat) : reduceMul k [] = k := rfl

/-- a construct of length `n` that makes the code measure `n` times more keeps the invariant -/
theorem ghostInv_step {c c' : Cx} {n : Nat} (hg : c'.ghost = c.ghost ++ [n]) (hm : c'.measured = c.measured * n)
    (hi : GhostInv c) : GhostInv c' := by
  unfold GhostInv at *
  rw [hg, hm, prod_snoc, hi]

/-- a context change that leaves ghost and measure alone keeps the invariant -/
theorem ghostInv_same {c c' : Cx} (hg : c'.ghost = c.ghost) (hm : c'.measured = c.measured)
    (hi : GhostInv c) : GhostInv c' := by
  unfold GhostInv at *
  rw [hg, hm, hi]

/-- after a passed `raise_for_loop_limit(n)` the true product including `n` is within the limit -/
theorem le_of_not_over {N : Nat} (hN : N ≠ 0) {c c0 : Cx} {n : Nat} (hi : GhostInv c)
    (h0 : c0.measured = c.measured) (ho : ¬ overLimit (some N) c0 n = true) :
    prod (c.ghost ++ [n]) ≤ N := by
  rw [overLimit_some N hN, h0] at ho
  rw [prod_snoc, hi]
  simpa using ho

theorem ghostInv_copied {c : Cx} (hi : GhostInv c) : GhostInv c.copied := by
  unfold GhostInv at *
  simpa [Cx.copied, Cx.measured] using hi


/-- every execution in the trace happened under a product of enclosing lengths `≤ N` -/
def AllLe (N : Nat) (tr : List Ev) : Prop := ∀ e ∈ tr, prod e.enclosing ≤ N

theorem allLe_nil (N) : AllLe N [] := by simp [AllLe]
theorem allLe_append {N a b} : AllLe N (a ++ b) ↔ AllLe N a ∧ AllLe N b := by
  simp only [AllLe, List.mem_append]; constructor
  · intro h; exact ⟨fun e he => h e (Or.inl he), fun e he => h e (Or.inr he)⟩
  · rintro ⟨h1, h2⟩ e (he | he); exact h1 e he; exact h2 e he
theorem allLe_cons {N e a} : AllLe N (e :: a) ↔ prod e.enclosing ≤ N ∧ AllLe N a := by
  simp [AllLe]

/-- the same environment with no loop iteration limit configured -/
def Env.unlimited (E : Env) : Env := { E with limit := none }

/-- How the limited result `r` relates to the unlimited result `u` of the same computation. -/
def Rel (N : Nat) (u r : Res) : Prop :=
  match u with
  | .ok (m, tr) => (AllLe N tr → r = .ok (m, tr)) ∧ (¬ AllLe N tr → r = .error .loopLimit)
  | .error e => r = .error e ∨ r = .error .loopLimit

theorem rel_refl_error (N e) : Rel N (.error e) (.error e) := Or.inl rfl

theorem rel_ok {N m tr} (h : AllLe N tr) : Rel N (.ok (m, tr)) (.ok (m, tr)) :=
  ⟨fun _ => rfl, fun hn => absurd h hn⟩

theorem rel_loopLimit {N} {u : Res} (h : ∀ m tr, u = .ok (m, tr) → ¬ AllLe N tr) : Rel N u (.error .loopLimit) := by
  cases u with
  | error e => exact Or.inr rfl
  | ok p => obtain ⟨m, tr⟩ := p; exact ⟨fun ha => absurd ha (h m tr rfl), fun _ => rfl⟩

theorem rel_seq {N} {u a : Res} {pre : List Ev} {bu b : Macros → Res} (hpre : AllLe N pre) (ha : Rel N u a)
    (hb : ∀ m1 t1, a = .ok (m1, t1) → Rel N (bu m1) (b m1)) : Rel N (seqRes u pre bu) (seqRes a pre b) := by
  cases u with
  | error e =>
    rcases ha with rfl | rfl
    · exact Or.inl rfl
    · exact Or.inr rfl
  | ok p =>
    obtain ⟨m1, t1⟩ := p
    by_cases h1 : AllLe N t1
    · have := ha.1 h1; subst this
      have hb' := hb m1 t1 rfl
      simp only [seqRes]
      cases hbu : bu m1 with
      | error e =>
        rw [hbu] at hb'
        rcases hb' with h | h <;> rw [h]
        · exact Or.inl rfl
        · exact Or.inr rfl
      | ok q =>
        obtain ⟨m2, t2⟩ := q
        rw [hbu] at hb'
        by_cases h2 : AllLe N t2
        · rw [hb'.1 h2]; exact rel_ok (allLe_append.mpr ⟨allLe_append.mpr ⟨hpre, h1⟩, h2⟩)
        · rw [hb'.2 h2]; exact ⟨fun h => absurd (allLe_append.mp h).2 h2, fun _ => rfl⟩
    · have := ha.2 h1; subst this
      simp only [seqRes]
      cases hbu : bu m1 with
      | error e => exact Or.inr rfl
      | ok q =>
        obtain ⟨m2, t2⟩ := q
        exact ⟨fun h => absurd (allLe_append.mp (allLe_append.mp h).1).2 h1, fun _ => rfl⟩

theorem rel_discard {N} {u a : Res} (m : Macros) (ha : Rel N u a) : Rel N (discardRes m u) (discardRes m a) := by
  cases u with
  | error e => rcases ha with rfl | rfl; exact Or.inl rfl; exact Or.inr rfl
  | ok p =>
    obtain ⟨m1, t1⟩ := p
    by_cases h1 : AllLe N t1
    · rw [ha.1 h1]; exact rel_ok h1
    · rw [ha.2 h1]; exact ⟨fun h => absurd h h1, fun _ => rfl⟩


theorem renderList_cons (E c m n ns) :
    renderList E c m (n :: ns) = seqRes (render E c m n) [] (fun m1 => renderList E c m1 ns) := by
  rw [renderList]

theorem iter_succ (E c m id body k) :
    iter E c m id body (k + 1) = seqRes (renderList E c m body) [⟨id, c.ghost⟩] (fun m1 => iter E c m1 id body k) := by
  rw [iter]

theorem iterPartial_succ (E c m site body k) :
    iterPartial E c m site body (k + 1)
      = seqRes (renderPartial E c m site body) [] (fun m1 => iterPartial E c m1 site body k) := by
  rw [iterPartial]

theorem renderPartial_eq (E c m site body) :
    renderPartial E c m site body =
      if c.scope > E.depth then .error .contextDepth else
      seqRes (renderList E { c with scope := c.scope + 1 } m body) [⟨site, c.ghost⟩] (fun m1 => .ok (m1, [])) := by
  rw [renderPartial]; rfl

theorem seqRes_ok {a : Res} {pre : List Ev} {b : Macros → Res} {m' tr} (h : seqRes a pre b = .ok (m', tr)) :
    ∃ m1 t1 t2, a = .ok (m1, t1) ∧ b m1 = .ok (m', t2) ∧ tr = pre ++ t1 ++ t2 := by
  unfold seqRes at h
  cases a with
  | error e => cases h
  | ok p =>
    obtain ⟨m1, t1⟩ := p
    simp only [] at h
    cases hb : b m1 with
    | error e => rw [hb] at h; cases h
    | ok q =>
      obtain ⟨m2, t2⟩ := q
      rw [hb] at h; cases h
      exact ⟨m1, t1, t2, rfl, hb, rfl⟩

theorem iter_head_mem {E c m id body k m' tr} (h : iter E c m id body (k + 1) = .ok (m', tr)) :
    ⟨id, c.ghost⟩ ∈ tr := by
  rw [iter_succ] at h
  obtain ⟨m1, t1, t2, _, _, rfl⟩ := seqRes_ok h
  simp

theorem renderPartial_head_mem {E c m site body m' tr} (h : renderPartial E c m site body = .ok (m', tr)) :
    ⟨site, c.ghost⟩ ∈ tr := by
  rw [renderPartial_eq] at h
  split at h
  · cases h
  · obtain ⟨m1, t1, t2, _, _, rfl⟩ := seqRes_ok h
    simp

theorem iterPartial_head_mem {E c m site body k m' tr} (h : iterPartial E c m site body (k + 1) = .ok (m', tr)) :
    ⟨site, c.ghost⟩ ∈ tr := by
  rw [iterPartial_succ] at h
  obtain ⟨m1, t1, t2, h1, _, rfl⟩ := seqRes_ok h
  have := renderPartial_head_mem h1
  simp [this]


theorem not_allLe_of_mem {N : Nat} {e : Ev} {tr : List Ev} (he : e ∈ tr) (hp : prod e.enclosing > N) : ¬ AllLe N tr :=
  fun h => Nat.lt_irrefl _ (Nat.lt_of_lt_of_le hp (h e he))

/-- a failed `raise_for_loop_limit(n)` means the true product including `n` exceeds the limit (and `n ≠ 0`) -/
theorem gt_of_over {N : Nat} (hN : N ≠ 0) {c c0 : Cx} {n : Nat} (hi : GhostInv c)
    (h0 : c0.measured = c.measured) (ho : overLimit (some N) c0 n = true) :
    prod (c.ghost ++ [n]) > N ∧ n ≠ 0 := by
  rw [overLimit_some N hN, h0] at ho
  rw [prod_snoc, hi]
  have : c.measured * n > N := by simpa using ho
  refine ⟨this, ?_⟩
  rintro rfl
  simp at this

/-- the limited run raised at a check; if the unlimited run completes it executed a block beyond the limit -/
theorem rel_over {N : Nat} {u : Res} {ev : Ev} (hp : prod ev.enclosing > N)
    (h : ∀ m tr, u = .ok (m, tr) → ev ∈ tr) : Rel N u (.error .loopLimit) :=
  rel_loopLimit fun m tr hu => not_allLe_of_mem (h m tr hu) hp

theorem discardRes_ok {m : Macros} {a : Res} {m' tr} (h : discardRes m a = .ok (m', tr)) : ∃ m1, a = .ok (m1, tr) := by
  unfold discardRes at h
  cases a with
  | error e => cases h
  | ok p => obtain ⟨m1, t1⟩ := p; cases h; exact ⟨m1, rfl⟩

theorem rel_aux (E : Env) (N : Nat) (hl : E.limit = some N) (hN : N ≠ 0) :
    (∀ c m node, GhostInv c → prod c.ghost ≤ N → Rel N (render E.unlimited c m node) (render E c m node)) ∧
    (∀ c m site body, GhostInv c → prod c.ghost ≤ N → Rel N (renderPartial E.unlimited c m site body) (renderPartial E c m site body)) ∧
    (∀ c m body, GhostInv c → prod c.ghost ≤ N → Rel N (renderList E.unlimited c m body) (renderList E c m body)) ∧
    (∀ c m site body k, GhostInv c → prod c.ghost ≤ N → Rel N (iterPartial E.unlimited c m site body k) (iterPartial E c m site body k)) ∧
    (∀ c m id body k, GhostInv c → prod c.ghost ≤ N → Rel N (iter E.unlimited c m id body k) (iter E c m id body k)) := by
  have hud : E.unlimited.depth = E.depth := rfl
  have hut : E.unlimited.templates = E.templates := rfl
  have hul : E.unlimited.limit = none := rfl
  apply render.mutual_induct E
    (motive1 := fun c m node => GhostInv c → prod c.ghost ≤ N → Rel N (render E.unlimited c m node) (render E c m node))
    (motive2 := fun c m site body => GhostInv c → prod c.ghost ≤ N → Rel N (renderPartial E.unlimited c m site body) (renderPartial E c m site body))
    (motive3 := fun c m body => GhostInv c → prod c.ghost ≤ N → Rel N (renderList E.unlimited c m body) (renderList E c m body))
    (motive4 := fun c m site body k => GhostInv c → prod c.ghost ≤ N → Rel N (iterPartial E.unlimited c m site body k) (iterPartial E c m site body k))
    (motive5 := fun c m id body k => GhostInv c → prod c.ghost ≤ N → Rel N (iter E.unlimited c m id body k) (iter E c m id body k))
  all_goals try (intros; simp [render, renderList, iter, renderPartial, iterPartial, hud, hut, hul, overLimit_none, rel_refl_error, rel_ok, allLe_nil, allLe_cons, *]; done)
  case case4 =>
    intro c m id n body dflt hn ho hi hb
    rw [hl] at ho
    obtain ⟨hgt, _⟩ := gt_of_over hN hi rfl ho
    simp only [render, hn, hl, ho, hul, hud, overLimit_none, ne_eq, not_false_eq_true, if_true, if_false]
    refine rel_over (ev := ⟨id, c.ghost ++ [n]⟩) hgt ?_
    intro m' tr h
    by_cases hs : c.scope > E.depth
    · simp [hs] at h
    · simp only [hs, dite_false] at h
      obtain ⟨k, rfl⟩ := Nat.exists_eq_succ_of_ne_zero hn
      exact iter_head_mem h
  case case5 =>
    intro c m id n body dflt hn ho hs hi hb
    rw [hl] at ho
    simp [render, hn, hl, ho, hs, hul, hud, overLimit_none, rel_refl_error]
  case case6 =>
    intro c m id n body dflt hn ho hs ih hi hb
    rw [hl] at ho
    simp only [render, hn, hl, ho, hs, hul, hud, overLimit_none, ne_eq, not_false_eq_true, if_true, if_false, dite_false]
    exact ih (ghostInv_step rfl (by simp [Cx.measured, reduceMul_snoc]) hi) (le_of_not_over hN hi rfl ho)
  case case8 =>
    intro c m id n body ho hi hb
    rw [hl] at ho
    obtain ⟨hgt, hn⟩ := gt_of_over hN hi rfl ho
    simp only [render, hl, ho, hul, hud, overLimit_none, if_true, if_false]
    refine rel_over (ev := ⟨id, c.ghost ++ [n]⟩) hgt ?_
    intro m' tr h
    by_cases hs : c.scope > E.depth
    · simp [hs] at h
    · simp only [hs, dite_false] at h
      obtain ⟨k, rfl⟩ := Nat.exists_eq_succ_of_ne_zero hn
      exact iter_head_mem h
  case case9 =>
    intro c m id n body ho hs hi hb
    rw [hl] at ho
    simp [render, hl, ho, hs, hul, hud, overLimit_none, rel_refl_error]
  case case10 =>
    intro c m id n body ho hs ih hi hb
    rw [hl] at ho
    simp only [render, hl, ho, hs, hul, hud, overLimit_none, if_true, if_false, dite_false]
    exact ih (ghostInv_step rfl (by simp [Cx.measured, reduceMul_mul]) hi) (le_of_not_over hN hi rfl ho)
  case case14 =>
    intro c m site name hni body hlk hs n ho hi hb
    rw [hl] at ho
    have hni' : c.noInclude = false := by simpa using hni
    obtain ⟨hgt, hn⟩ := gt_of_over hN hi rfl ho
    simp only [hni'] at ho
    simp only [render, hl, ho, hs, hni', hlk, hul, hud, hut, overLimit_none, if_true, if_false, dite_false]
    simp only [Bool.false_eq_true, if_false]
    refine rel_over (ev := ⟨site, c.ghost ++ [n]⟩) hgt ?_
    intro m' tr h
    obtain ⟨k, rfl⟩ := Nat.exists_eq_succ_of_ne_zero hn
    simp at h
    exact iterPartial_head_mem h
  case case15 =>
    intro c m site name hni body hlk hs n ho ih hi hb
    rw [hl] at ho
    have hni' : c.noInclude = false := by simpa using hni
    simp only [hni'] at ho ih
    simp only [render, hl, ho, hs, hni', hlk, hul, hud, hut, overLimit_none, if_true, if_false, dite_false]
    simp
    exact ih (ghostInv_step rfl (by simp [Cx.measured, reduceMul_mul]) hi) (le_of_not_over hN hi rfl ho)
  case case16 =>
    intro c m site name hni body hlk hs ih hi hb
    have hni' : c.noInclude = false := by simpa using hni
    simp only [hni'] at ih
    simp only [render, hs, hni', hlk, hud, hut, if_true, if_false, dite_false]
    simp
    exact ih (ghostInv_same rfl rfl hi) hb
  case case19 =>
    intro c m site name body hlk hd n ho hi hb
    rw [hl] at ho
    obtain ⟨hgt, hn⟩ := gt_of_over hN hi (by simp [Cx.measured, Cx.copied]) ho
    simp only [render, hl, ho, hd, hlk, hul, hud, hut, overLimit_none, if_true, if_false, dite_false]
    refine rel_over (ev := ⟨site, c.ghost ++ [n]⟩) hgt ?_
    intro m' tr h
    obtain ⟨k, rfl⟩ := Nat.exists_eq_succ_of_ne_zero hn
    simp at h
    obtain ⟨m1, h1⟩ := discardRes_ok h
    exact iterPartial_head_mem h1
  case case20 =>
    intro c m site name body hlk hd n ho ih hi hb
    rw [hl] at ho
    simp only [render, hl, ho, hd, hlk, hul, hud, hut, overLimit_none, if_true, if_false, dite_false]
    simp
    exact rel_discard m (ih (ghostInv_step rfl (by simp [Cx.measured, Cx.copied]) hi)
      (le_of_not_over hN hi (by simp [Cx.measured, Cx.copied]) ho))
  case case21 =>
    intro c m site name body hlk hd ih hi hb
    simp only [render, hd, hlk, hud, hut, if_true, if_false, dite_false]
    exact rel_discard m (ih (ghostInv_copied hi) hb)
  case case25 =>
    intro c m name body hlk hd ih hi hb
    simp only [render, hd, hlk, hud, if_true, if_false, dite_false]
    exact rel_discard m (ih (ghostInv_copied hi) hb)
  case case27 =>
    intro c m site body hs ih hi hb
    rw [renderPartial_eq, renderPartial_eq]
    simp only [hs, hud, if_false]
    exact rel_seq (allLe_cons.mpr ⟨hb, allLe_nil N⟩) (ih (ghostInv_same rfl rfl hi) hb) (fun m1 t1 _ => rel_ok (allLe_nil N))
  case case29 =>
    intro c m n ns ih1 ih2 hi hb
    rw [renderList_cons, renderList_cons]
    exact rel_seq (allLe_nil N) (ih1 hi hb) (fun m1 t1 _ => ih2 m1 hi hb)
  case case31 =>
    intro c m site body k ih1 ih2 hi hb
    rw [iterPartial_succ, iterPartial_succ]
    exact rel_seq (allLe_nil N) (ih1 hi hb) (fun m1 t1 _ => ih2 m1 hi hb)
  case case33 =>
    intro c m id body k ih1 ih2 hi hb
    rw [iter_succ, iter_succ]
    exact rel_seq (allLe_cons.mpr ⟨hb, allLe_nil N⟩) (ih1 hi hb) (fun m1 t1 _ => ih2 m1 hi hb)
/-- The top-level context of `BoundTemplate.render` satisfies the ghost invariant with product 1. -/
theorem rel_template (E : Env) (N : Nat) (hl : E.limit = some N) (hN : N ≠ 0) (nodes : List Node) :
    Rel N (renderTemplate E.unlimited nodes) (renderTemplate E nodes) := by
  unfold renderTemplate
  have hud : E.unlimited.depth = E.depth := rfl
  simp only [hud]
  split
  · exact rel_refl_error N _
  · exact (rel_aux E N hl hN).2.2.1 _ _ _ (by simp [GhostInv, Cx.measured]) (by simp; omega)


theorem seqRes_ne {a : Res} {pre : List Ev} {b : Macros → Res} {e : Err}
    (ha : a ≠ .error e) (hb : ∀ m1, b m1 ≠ .error e) : seqRes a pre b ≠ .error e := by
  unfold seqRes
  cases a with
  | error e' => intro h; cases h; exact ha rfl
  | ok p =>
    obtain ⟨m1, t1⟩ := p
    simp only []
    cases hb1 : b m1 with
    | error e' => intro h; cases h; exact hb m1 hb1
    | ok q => intro h; cases h

theorem discardRes_ne {m : Macros} {a : Res} {e : Err} (ha : a ≠ .error e) : discardRes m a ≠ .error e := by
  unfold discardRes
  cases a with
  | error e' => intro h; cases h; exact ha rfl
  | ok p => intro h; cases h

/-- with no limit configured (`None`, or the falsy `0`) no check ever fires -/
theorem never_raises_aux (E : Env) (hl : ∀ c n, overLimit E.limit c n = false) :
    (∀ c m node, render E c m node ≠ .error .loopLimit) ∧
    (∀ c m site body, renderPartial E c m site body ≠ .error .loopLimit) ∧
    (∀ c m body, renderList E c m body ≠ .error .loopLimit) ∧
    (∀ c m site body k, iterPartial E c m site body k ≠ .error .loopLimit) ∧
    (∀ c m id body k, iter E c m id body k ≠ .error .loopLimit) := by
  apply render.mutual_induct E
    (motive1 := fun c m node => render E c m node ≠ .error .loopLimit)
    (motive2 := fun c m site body => renderPartial E c m site body ≠ .error .loopLimit)
    (motive3 := fun c m body => renderList E c m body ≠ .error .loopLimit)
    (motive4 := fun c m site body k => iterPartial E c m site body k ≠ .error .loopLimit)
    (motive5 := fun c m id body k => iter E c m id body k ≠ .error .loopLimit)
  all_goals try (intros; simp_all [render, renderList, iter, renderPartial, iterPartial]; done)
  all_goals try (intros; simp only [render, renderList, iter, renderPartial, iterPartial, *]; simp_all [seqRes_ne, discardRes_ne]; done)
  case case16 =>
    intro c m site name hni body hlk hs ih
    have hni' : c.noInclude = false := by simpa using hni
    simp only [hni'] at ih
    simp only [render, hni', hlk, hs, dite_false]
    simpa using ih
  case case21 =>
    intro c m site name body hlk hd ih
    simp only [render, hlk, hd, dite_false]
    exact discardRes_ne ih
  case case31 =>
    intro c m site body k ih1 ih2
    rw [iterPartial_succ]
    exact seqRes_ne ih1 ih2


/-- what remains of a result when the ghost lists are erased: error class, macro table, executed block ids -/
def erase (r : Res) : Except Err (Macros × List Nat) :=
  match r with
  | .error e => .error e
  | .ok (m, tr) => .ok (m, tr.map (·.id))

theorem erase_seq {a a' : Res} {pre pre' : List Ev} {b b' : Macros → Res}
    (ha : erase a = erase a') (hp : pre.map (·.id) = pre'.map (·.id)) (hb : ∀ m1, erase (b m1) = erase (b' m1)) :
    erase (seqRes a pre b) = erase (seqRes a' pre' b') := by
  cases a with
  | error e =>
    cases a' with
    | error e' => simpa [erase, seqRes] using ha
    | ok p => simp [erase] at ha
  | ok p =>
    obtain ⟨m1, t1⟩ := p
    cases a' with
    | error e' => simp [erase] at ha
    | ok p' =>
      obtain ⟨m1', t1'⟩ := p'
      simp only [erase, Except.ok.injEq, Prod.mk.injEq] at ha
      obtain ⟨rfl, ht⟩ := ha
      have := hb m1
      simp only [seqRes]
      cases hb1 : b m1 with
      | error e =>
        rw [hb1] at this
        cases hb2 : b' m1 with
        | error e' => rw [hb2] at this; simpa [erase] using this
        | ok q => rw [hb2] at this; simp [erase] at this
      | ok q =>
        obtain ⟨m2, t2⟩ := q
        rw [hb1] at this
        cases hb2 : b' m1 with
        | error e' => rw [hb2] at this; simp [erase] at this
        | ok q' =>
          obtain ⟨m2', t2'⟩ := q'
          rw [hb2] at this
          simp only [erase, Except.ok.injEq, Prod.mk.injEq] at this
          obtain ⟨rfl, ht2⟩ := this
          simp [erase, hp, ht, ht2]

theorem erase_discard {a a' : Res} (m : Macros) (ha : erase a = erase a') :
    erase (discardRes m a) = erase (discardRes m a') := by
  cases a with
  | error e =>
    cases a' with
    | error e' => simpa [erase, discardRes] using ha
    | ok p => simp [erase] at ha
  | ok p =>
    cases a' with
    | error e' => simp [erase] at ha
    | ok p' =>
      simp only [erase, Except.ok.injEq, Prod.mk.injEq] at ha
      simp [erase, discardRes, ha.2]

@[simp] theorem overLimit_ghost (lim : Option Nat) (c : Cx) (g : List Nat) (n : Nat) :
    overLimit lim { c with ghost := g } n = overLimit lim c n := rfl

theorem erase_aux (E : Env) :
    (∀ c m node, ∀ g, erase (render E { c with ghost := g } m node) = erase (render E c m node)) ∧
    (∀ c m site body, ∀ g, erase (renderPartial E { c with ghost := g } m site body) = erase (renderPartial E c m site body)) ∧
    (∀ c m body, ∀ g, erase (renderList E { c with ghost := g } m body) = erase (renderList E c m body)) ∧
    (∀ c m site body k, ∀ g, erase (iterPartial E { c with ghost := g } m site body k) = erase (iterPartial E c m site body k)) ∧
    (∀ c m id body k, ∀ g, erase (iter E { c with ghost := g } m id body k) = erase (iter E c m id body k)) := by
  apply render.mutual_induct E
    (motive1 := fun c m node => ∀ g, erase (render E { c with ghost := g } m node) = erase (render E c m node))
    (motive2 := fun c m site body => ∀ g, erase (renderPartial E { c with ghost := g } m site body) = erase (renderPartial E c m site body))
    (motive3 := fun c m body => ∀ g, erase (renderList E { c with ghost := g } m body) = erase (renderList E c m body))
    (motive4 := fun c m site body k => ∀ g, erase (iterPartial E { c with ghost := g } m site body k) = erase (iterPartial E c m site body k))
    (motive5 := fun c m id body k => ∀ g, erase (iter E { c with ghost := g } m id body k) = erase (iter E c m id body k))
  all_goals try (intros; simp [render, renderList, iter, iterPartial, renderPartial_eq, erase, *]; done)
  case case2 =>
    intro c m body ih g
    simpa [render] using ih g
  case case6 =>
    intro c m id n body dflt hn ho hs ih g
    simp only [render, hn, ho, hs, overLimit_ghost, ne_eq, not_false_eq_true, if_true, if_false, dite_false]
    exact ih (g ++ [n])
  case case7 =>
    intro c m id n body dflt hn ih g
    have hn' : n = 0 := by simpa using hn
    simpa [render, hn'] using ih g
  case case10 =>
    intro c m id n body ho hs ih g
    simp only [render, ho, hs, overLimit_ghost, if_true, if_false, dite_false]
    exact ih (g ++ [n])
  case case14 =>
    intro c m site name hni body hlk hs n ho g
    have hni' : c.noInclude = false := by simpa using hni
    simp only [hni'] at ho
    have ho' : overLimit E.limit (Cx.mk c.loops c.carry c.copyDepth (c.scope + 1) false g) n = true := ho
    simp [render, hni', hlk, hs, ho, ho', erase]
  case case15 =>
    intro c m site name hni body hlk hs n ho ih g
    have hni' : c.noInclude = false := by simpa using hni
    simp only [hni'] at ho ih
    have ho' : ¬ overLimit E.limit (Cx.mk c.loops c.carry c.copyDepth (c.scope + 1) false g) n = true := ho
    simp only [render, hni', hlk, hs, ho, ho', Bool.false_eq_true, if_false, dite_false]
    exact ih (g ++ [n])
  case case16 =>
    intro c m site name hni body hlk hs ih g
    have hni' : c.noInclude = false := by simpa using hni
    simp only [hni'] at ih
    simp only [render, hni', hlk, hs, Bool.false_eq_true, if_false, dite_false]
    exact ih g
  case case19 =>
    intro c m site name body hlk hd n ho g
    have ho' : overLimit E.limit (Cx.copied { c with ghost := g }) n = true := ho
    simp [render, hlk, hd, ho, ho', erase]
  case case20 =>
    intro c m site name body hlk hd n ho ih g
    have ho' : ¬ overLimit E.limit (Cx.copied { c with ghost := g }) n = true := ho
    simp only [render, hlk, hd, ho, ho', if_false, dite_false]
    exact erase_discard m (ih (g ++ [n]))
  case case21 =>
    intro c m site name body hlk hd ih g
    simp only [render, hlk, hd, dite_false]
    exact erase_discard m (ih g)
  case case25 =>
    intro c m name body hlk hd ih g
    simp only [render, hlk, hd, dite_false]
    exact erase_discard m (ih g)
  case case27 =>
    intro c m site body hs ih g
    rw [renderPartial_eq, renderPartial_eq]
    simp only [hs, if_false]
    exact erase_seq (ih g) (by simp) (fun m1 => rfl)
  case case29 =>
    intro c m n ns ih1 ih2 g
    rw [renderList_cons, renderList_cons]
    exact erase_seq (ih1 g) rfl (fun m1 => ih2 m1 g)
  case case31 =>
    intro c m site body k ih1 ih2 g
    rw [iterPartial_succ, iterPartial_succ]
    exact erase_seq (ih1 g) rfl (fun m1 => ih2 m1 g)
  case case33 =>
    intro c m id body k ih1 ih2 g
    rw [iter_succ, iter_succ]
    exact erase_seq (ih1 g) (by simp) (fun m1 => ih2 m1 g)

end LiquidVerif.LoopLimit


