import LiquidVerif.Lemmas.Taint
/-! `applyFilter` preserves the invariant (one case per filter of `Model/Taint.lean`). -/
namespace LiquidVerif.Taint
open LiquidVerif.Escape
open LiquidVerif.Filters (isSpace upcase downcase capitalize lstrip rstrip strip splitWs splitOn joinStr hasPrefix
  truncateChars truncateWords MAX_TRUNC_WORDS parseIntStr)

theorem joinT_inv {sep : TStr} {items : List TStr} (hsep : sep.Inv) (hi : ∀ x ∈ items, x.Inv) : (joinT sep items).Inv := by
  unfold joinT
  split
  · rename_i h
    refine inv_safe (clean_joinStr (hsep h) ?_)
    intro x hx
    obtain ⟨t, ht, rfl⟩ := List.mem_map.mp hx
    exact clean_escT (hi t ht)
  · exact inv_unsafe _

theorem joinSep_inv (P : Prims) (auto : Bool) {args : List Val} (ha : ∀ a ∈ args, a.Inv) : (joinSep P auto args).Inv := by
  have h0 : (match args with | [a] => argS P a | _ => (⟨[' '], false⟩ : TStr)).Inv := by
    split
    · rename_i a; exact argS_inv P (ha a (by simp))
    · exact inv_unsafe _
  have h1 : ∀ sep0 : TStr, sep0.Inv → (if (auto && sep0.chars == [' ']) = true then (⟨[' '], true⟩ : TStr) else sep0).Inv := by
    intro sep0 h
    split
    · exact inv_safe (c := [' ']) (by decide)
    · exact h
  exact h1 _ h0

theorem defaultArg_inv {args : List Val} (ha : ∀ a ∈ args, a.Inv) : (defaultArg args).Inv := by
  unfold defaultArg
  split
  · rename_i a; exact ha a (by simp)
  · exact inv_unsafe _

theorem not_contains_lt {s : Str} (h : Clean s) : s.contains '<' = false := by
  cases hc : s.contains '<' with
  | false => rfl
  | true =>
    have hm : '<' ∈ s := by simpa using hc
    have := h '<' hm
    simp [special] at this

/-- **every allowed filter preserves the invariant**: applied to a value whose `Markup` parts are free of raw specials,
with arguments of the same kind, it returns such a value — whatever the opaque text functions `P` are. -/
theorem applyFilter_inv (P : Prims) {f : FName} {v : Val} {args : List Val} {r : Val}
    (hf : f.allowed = true) (hv : v.Inv) (ha : ∀ a ∈ args, a.Inv)
    (h : applyFilter P true f v args = .ok r) : r.Inv := by
  have hs := recvS_inv P hv
  unfold applyFilter at h
  simp only [] at h
  split at h
  all_goals first
    | (cases h; done)
    | exact okS_inv h (mixAdd_inv hs (argS_inv P (ha _ (by simp))))
    | exact okS_inv h (mixAdd_inv (argS_inv P (ha _ (by simp))) hs)
    | exact okS_inv h (keepSafe_inv (fun _ => clean_upcase) hs)
    | exact okS_inv h (keepSafe_inv (fun _ => clean_downcase) hs)
    | exact okS_inv h (keepSafe_inv (fun _ => clean_capitalize) hs)
    | exact okS_inv h (keepSafe_inv (fun _ => clean_lstrip) hs)
    | exact okS_inv h (keepSafe_inv (fun _ => clean_rstrip) hs)
    | exact okS_inv h (keepSafe_inv (fun _ => clean_strip) hs)
    | exact okS_inv h (replaceT_inv _ _ hs (inv_unsafe _))
    | exact okS_inv h (replaceT_inv _ _ hs (argS_inv P (ha _ (by simp))))
    | exact okS_inv h (inv_unsafe _)
    | exact okS_inv h (inv_safe (clean_quotePlus _))
    | exact okS_inv h (inv_safe (clean_jsEscape _))
    | (simp [FName.allowed] at hf; done)
    | skip
  -- escape
  case h_6 =>
    simp only [↓reduceIte] at h
    exact okS_inv h (inv_safe (escape_isClean _))
  -- remove_last
  case h_13 =>
    split at h
    · exact okS_inv h hs
    · split at h
      · rename_i b r' heq
        split at h
        · exact okS_inv h hs
        · exact okS_inv h (inv_mk fun hsafe => clean_append.mpr ⟨(rpartition_clean (hs hsafe) heq).1, (rpartition_clean (hs hsafe) heq).2⟩)
      · exact okS_inv h hs
  -- replace_last
  case h_18 =>
    rename_i a b
    have hsub := argS_inv P (ha b (by simp))
    split at h
    · exact okS_inv h (mixAdd_inv hs hsub)
    · split at h
      · rename_i bf af heq
        split at h
        · exact okS_inv h hs
        · exact okS_inv h (mixAdd_inv (mixAdd_inv (inv_mk fun hsafe => (rpartition_clean (hs hsafe) heq).1) hsub)
            (inv_mk fun hsafe => (rpartition_clean (hs hsafe) heq).2))
      · exact okS_inv h hs
  -- slice
  case h_19 =>
    split at h
    · cases h
    · cases h
    · split at h
      · split at h
        · simp only [Except.ok.injEq] at h; subst h
          intro x hx; exact hv x (mem_sliceSeq hx)
        · exact okS_inv h (keepSafe_inv (fun _ hc => clean_sliceSeq _ _ hc) hv)
        · exact okS_inv h (inv_unsafe _)
        · exact okS_inv h (inv_unsafe _)
      · cases h
  -- split
  case h_20 =>
    repeat' (split at h)
    all_goals first | (cases h; done) | (simp only [Except.ok.injEq] at h; subst h; intro x hx)
    all_goals first
      | (cases hx; done)
      | (obtain ⟨c, _, rfl⟩ := List.mem_map.mp hx; exact inv_unsafe _)
      | (obtain ⟨p, hp, rfl⟩ := List.mem_map.mp hx; exact inv_mk (fun hsafe => splitWs_clean (hs hsafe) p hp))
      | (obtain ⟨p, hp, rfl⟩ := List.mem_map.mp hx; exact inv_mk (fun hsafe => splitOn_clean (hs hsafe) p hp))
  -- strip_html: `strip_tags` returns its argument unless it contains both `<` and `>`
  case h_21 =>
    refine okS_inv h (inv_mk fun hsafe => ?_)
    simp only [Bool.true_and] at hsafe
    have hc := hs hsafe
    simp only [not_contains_lt hc, Bool.false_and, Bool.false_eq_true, if_false]
    exact hc
  -- strip_newlines
  case h_22 =>
    simp only [↓reduceIte] at h
    exact okS_inv h (inv_safe (clean_subNewlines clean_nil (clean_escT hs)))
  -- truncate
  case h_24 =>
    repeat' (split at h)
    all_goals first | (cases h; done) | exact okS_inv h hs | exact okS_inv h (inv_unsafe _)
  -- truncatewords
  case h_25 =>
    repeat' (split at h)
    all_goals first | (cases h; done) | exact okS_inv h hs | exact okS_inv h (inv_unsafe _)
  -- url_decode
  case h_27 =>
    have ht := replaceT_inv false ⟨['+'], false⟩ hs (inv_unsafe [' '])
    split at h
    · exact okS_inv h (inv_unsafe _)
    · exact okS_inv h ht
  -- base64 family
  case h_28 => split at h <;> first | exact okS_inv h (inv_unsafe _) | cases h
  case h_29 => split at h <;> first | exact okS_inv h (inv_unsafe _) | cases h
  case h_30 => split at h <;> first | exact okS_inv h (inv_unsafe _) | cases h
  case h_31 => split at h <;> first | exact okS_inv h (inv_unsafe _) | cases h
  -- join
  case h_35 =>
    split at h
    · cases h
    · split at h
      · cases h
      · rename_i items hq
        exact okS_inv h (joinT_inv (joinSep_inv P true ha) (seqOf_inv P hv hq))
  -- first
  case h_36 =>
    split at h
    · exact okS_inv h (hv _ (by simp))
    · simp only [Except.ok.injEq] at h; subst h; trivial
    · simp only [Except.ok.injEq] at h; subst h; trivial
  -- last
  case h_37 =>
    split at h
    · split at h
      · rename_i xs x hl
        exact okS_inv h (hv x (List.mem_of_getLast? hl))
      · simp only [Except.ok.injEq] at h; subst h; trivial
    · simp only [Except.ok.injEq] at h; subst h; trivial
    · simp only [Except.ok.injEq] at h; subst h; trivial
  -- reverse
  case h_38 =>
    split at h
    · rename_i items hq
      simp only [Except.ok.injEq] at h; subst h
      intro x hx
      exact seqOf_inv P hv hq x (List.mem_reverse.mp hx)
    · cases h
  -- concat
  case h_39 =>
    rename_i a
    split at h
    · rename_i ys
      split at h
      · rename_i items hq
        simp only [Except.ok.injEq] at h; subst h
        intro x hx
        rcases List.mem_append.mp hx with hx | hx
        · exact seqOf_inv P hv hq x hx
        · exact ha (.arr ys) (by simp) x hx
      · cases h
    · cases h
  -- size
  case h_40 =>
    repeat' (split at h)
    all_goals (simp only [Except.ok.injEq] at h; subst h; trivial)
  -- default
  case h_41 =>
    have hd := defaultArg_inv ha
    repeat' (split at h)
    all_goals first
      | (cases h; done)
      | (simp only [Except.ok.injEq] at h; subst h; first | exact hv | exact hd)

end LiquidVerif.Taint
