import LiquidVerif.Lemmas.TaintNoop
import LiquidVerif.Lemmas.TaintEnt
/-! Two-run simulation for `autoescape_noop_on_clean`: with every string free of `< > ' " &`, the run with autoescape off on the
flag-free data is the flag-free image of the run with autoescape on. Part 1: text helpers, coercions, filters. -/
namespace LiquidVerif.Taint
open LiquidVerif.Escape
open LiquidVerif.Filters (upcase downcase capitalize lstrip rstrip strip joinStr upperC lowerC)

theorem nosp_iff {s : Str} : NoSp s ↔ Clean s ∧ ∀ c ∈ s, c ≠ '&' := by
  simp only [NoSp, Clean]
  exact ⟨fun h => ⟨fun c hc => (h c hc).1, fun c hc => (h c hc).2⟩, fun h c hc => ⟨h.1 c hc, h.2 c hc⟩⟩

theorem nosp_nil : NoSp [] := by intro c hc; cases hc

theorem nosp_append {a b : Str} : NoSp (a ++ b) ↔ NoSp a ∧ NoSp b := by
  simp only [NoSp, List.mem_append]
  exact ⟨fun h => ⟨fun c hc => h c (Or.inl hc), fun c hc => h c (Or.inr hc)⟩, fun h c hc => hc.elim (h.1 c) (h.2 c)⟩

theorem nosp_subset {a b : Str} (h : ∀ c ∈ a, c ∈ b) (hb : NoSp b) : NoSp a := fun c hc => hb c (h c hc)

theorem nosp_map {f : Char → Char} (hf : ∀ c, (special c = false ∧ c ≠ '&') → (special (f c) = false ∧ f c ≠ '&')) {s : Str}
    (h : NoSp s) : NoSp (s.map f) := by
  intro c hc
  obtain ⟨d, hd, rfl⟩ := List.mem_map.mp hc
  exact hf d (h d hd)

theorem nosp_upperC (c : Char) (h : special c = false ∧ c ≠ '&') : special (upperC c) = false ∧ upperC c ≠ '&' :=
  ⟨special_upperC h.1, fun he => h.2 (upperC_amp c he)⟩
theorem nosp_lowerC (c : Char) (h : special c = false ∧ c ≠ '&') : special (lowerC c) = false ∧ lowerC c ≠ '&' :=
  ⟨special_lowerC h.1, fun he => h.2 (lowerC_amp c he)⟩

theorem nosp_upcase {s : Str} (h : NoSp s) : NoSp (upcase s) := nosp_map nosp_upperC h
theorem nosp_downcase {s : Str} (h : NoSp s) : NoSp (downcase s) := nosp_map nosp_lowerC h
theorem nosp_capitalize {s : Str} (h : NoSp s) : NoSp (capitalize s) := by
  cases s with
  | nil => exact h
  | cons c cs =>
    intro d hd
    simp only [capitalize, List.mem_cons] at hd
    rcases hd with rfl | hd
    · exact nosp_upperC c (h c (by simp))
    · exact nosp_map nosp_lowerC (s := cs) (fun x hx => h x (List.mem_cons_of_mem _ hx)) d hd

theorem nosp_lstrip {s : Str} (h : NoSp s) : NoSp (lstrip s) := nosp_subset (fun _ hc => (lstrip_sublist s).subset hc) h
theorem nosp_reverse {s : Str} (h : NoSp s) : NoSp s.reverse := nosp_subset (fun _ hc => List.mem_reverse.mp hc) h
theorem nosp_rstrip {s : Str} (h : NoSp s) : NoSp (rstrip s) := by
  unfold rstrip; exact nosp_reverse (nosp_lstrip (nosp_reverse h))
theorem nosp_strip {s : Str} (h : NoSp s) : NoSp (strip s) := by unfold strip; exact nosp_rstrip (nosp_lstrip h)

theorem mem_subNewlines_nil : ∀ {s : Str} {c : Char}, c ∈ subNewlines [] s → c ∈ s := by
  intro s
  fun_induction subNewlines [] s with
  | case1 => intro c h; exact h
  | case2 cs ih => intro c h; exact List.mem_cons_of_mem _ (List.mem_cons_of_mem _ (ih (by simpa using h)))
  | case3 c cs hne hc ih => intro d h; exact List.mem_cons_of_mem _ (ih (by simpa using h))
  | case4 c cs hne hc ih =>
    intro d h
    rcases List.mem_cons.mp h with rfl | h
    · simp
    · exact List.mem_cons_of_mem _ (ih h)

theorem nosp_subNewlines_nil {s : Str} (h : NoSp s) : NoSp (subNewlines [] s) := nosp_subset (fun _ => mem_subNewlines_nil) h

theorem nosp_joinStr {sep : Str} {xs : List Str} (hs : NoSp sep) (hx : ∀ x ∈ xs, NoSp x) : NoSp (joinStr sep xs) := by
  induction xs with
  | nil => exact nosp_nil
  | cons x r ih =>
    cases r with
    | nil => exact hx x (by simp)
    | cons y r' =>
      unfold joinStr
      exact nosp_append.mpr ⟨nosp_append.mpr ⟨hx x (by simp), hs⟩, ih (fun z hz => hx z (List.mem_cons_of_mem _ hz))⟩

theorem nosp_quotePlus (s : Str) : NoSp (quotePlus s) := nosp_iff.mpr ⟨clean_quotePlus s, noAmp_quotePlus s⟩
theorem nosp_jsEscape (s : Str) : NoSp (jsEscape s) := nosp_iff.mpr ⟨clean_jsEscape s, noAmp_jsEscape s⟩

theorem nosp_intStr (i : Int) : NoSp (intStr i) := by
  refine nosp_iff.mpr ⟨clean_intStr i, ?_⟩
  unfold intStr
  split
  · intro c hc
    rcases List.mem_cons.mp hc with rfl | hc
    · decide
    · exact noAmp_natDigits _ c hc
  · exact noAmp_natDigits _

theorem nosp_boolStr (b : Bool) : NoSp (boolStr b) := by
  cases b <;> exact isNoSp_iff.mp (by decide)

/-! ### flag-free images -/

/-- the same string without its `Markup` flag -/
def plT (s : TStr) : TStr := ⟨s.chars, false⟩

theorem plain_str (s : TStr) : (Val.str s).plain = .str (plT s) := rfl
theorem plain_arr (xs : List TStr) : (Val.arr xs).plain = .arr (xs.map plT) := rfl

/-- what the theorem asks of the opaque text functions: they introduce no special character on special-free input, and
`str(list)` does not show the flags. (`html.unescape` is the identity on text without `&`; base64 encoders emit `A-Za-z0-9+/=_-`;
for the real `str(list)` this holds of the empty list only — a non-empty list prints quotes, and `Markup(…)` under autoescape.) -/
structure PClean (P : Prims) : Prop where
  unescape : ∀ s, NoSp s → P.unescape s = s
  b64enc : ∀ s r, NoSp s → (P.b64 0 s = some r ∨ P.b64 2 s = some r) → NoSp r
  listStr : ∀ xs, (∀ x ∈ xs, NoSp x.chars) → NoSp (P.listStr xs) ∧ P.listStr (xs.map plT) = P.listStr xs

theorem recvS_nosp {P : Prims} (hP : PClean P) {v : Val} (hv : v.NoSp) : NoSp (recvS P v).chars := by
  cases v with
  | str s => exact hv
  | arr xs => exact (hP.listStr xs hv).1
  | num n => exact nosp_intStr n
  | nil => exact nosp_nil
  | undef => exact nosp_nil
  | bool b => exact nosp_boolStr b
  | obj h t => exact hv.2 ▸ hv.1
  | other t => exact hv

theorem recvS_plain {P : Prims} (hP : PClean P) {v : Val} (hv : v.NoSp) : recvS P v.plain = plT (recvS P v) := by
  cases v with
  | arr xs =>
    have h := (hP.listStr xs hv).2
    simp only [Val.plain, recvS]
    show (⟨P.listStr (xs.map plT), false⟩ : TStr) = _
    rw [h]; rfl
  | _ => rfl

theorem argS_nosp {P : Prims} (hP : PClean P) {v : Val} (hv : v.NoSp) : NoSp (argS P v).chars := by
  cases v with
  | nil => exact (isNoSp_iff (s := "None".toList)).mp (by decide)
  | str s => exact hv
  | arr xs => exact (hP.listStr xs hv).1
  | num n => exact nosp_intStr n
  | undef => exact nosp_nil
  | bool b => exact nosp_boolStr b
  | obj h t => exact hv.2 ▸ hv.1
  | other t => exact hv

theorem argS_plain {P : Prims} (hP : PClean P) {v : Val} (hv : v.NoSp) : argS P v.plain = plT (argS P v) := by
  cases v with
  | arr xs =>
    have h := (hP.listStr xs hv).2
    simp only [Val.plain, argS, recvS]
    show (⟨P.listStr (xs.map plT), false⟩ : TStr) = _
    rw [h]; rfl
  | _ => rfl

theorem seqOf_plain (P : Prims) (v : Val) : seqOf P v.plain = (seqOf P v).map (List.map plT) := by
  cases v <;> rfl

theorem seqOf_nosp (P : Prims) {v : Val} (hv : v.NoSp) {items : List TStr} (hq : seqOf P v = some items) :
    ∀ x ∈ items, NoSp x.chars := by
  cases v <;> simp only [seqOf, Option.some.injEq, reduceCtorEq] at hq
  · subst hq; intro x hx; simp only [List.mem_singleton] at hx; subst hx; exact hv
  · subst hq; exact hv
  · subst hq; intro x hx; simp only [List.mem_singleton] at hx; subst hx; exact nosp_intStr _
  · subst hq; intro x hx; cases hx
  · subst hq; intro x hx; simp only [List.mem_singleton] at hx; subst hx; exact hv

theorem mixAdd_plT {a b : TStr} (ha : NoSp a.chars) (hb : NoSp b.chars) : mixAdd (plT a) (plT b) = plT (mixAdd a b) := by
  simp only [plT, mixAdd_noop ha hb]
  simp [mixAdd]

theorem mixAdd_nosp {a b : TStr} (ha : NoSp a.chars) (hb : NoSp b.chars) : NoSp (mixAdd a b).chars := by
  rw [mixAdd_noop ha hb]; exact nosp_append.mpr ⟨ha, hb⟩

theorem joinT_plT {sep : TStr} {items : List TStr} (hi : ∀ x ∈ items, NoSp x.chars) :
    joinT (plT sep) (items.map plT) = plT (joinT sep items) := by
  simp only [plT, joinT_noop hi]
  simp [joinT, List.map_map, Function.comp_def, plT]

theorem joinT_nosp {sep : TStr} {items : List TStr} (hs : NoSp sep.chars) (hi : ∀ x ∈ items, NoSp x.chars) :
    NoSp (joinT sep items).chars := by
  rw [joinT_noop hi]
  refine nosp_joinStr hs ?_
  intro x hx
  obtain ⟨t, ht, rfl⟩ := List.mem_map.mp hx
  exact hi t ht

/-- the result of a filter with autoescape on (`on`) and with autoescape off on the flag-free inputs (`off`) -/
def SimR (on off : R) : Prop :=
  match on, off with
  | .ok a, .ok b => b = a.plain ∧ a.NoSp
  | .error e1, .error e2 => e1 = e2
  | _, _ => False

theorem simR_ok {a b : Val} (h1 : b = a.plain) (h2 : a.NoSp) : SimR (.ok a) (.ok b) := ⟨h1, h2⟩
theorem simR_okS {a b : TStr} (h1 : b = plT a) (h2 : NoSp a.chars) : SimR (okS a) (okS b) := by
  subst h1; exact ⟨rfl, h2⟩
theorem simR_err (e : Err) : SimR (.error e) (.error e) := rfl

theorem isEmptyVal_plain (v : Val) : isEmptyVal v.plain = isEmptyVal v := by
  cases v <;> simp [isEmptyVal, Val.plain]

theorem plain_nosp {v : Val} (h : v.NoSp) : v.plain.NoSp := by
  cases v with
  | str s => exact h
  | arr xs =>
    intro x hx
    obtain ⟨t, ht, rfl⟩ := List.mem_map.mp hx
    exact h t ht
  | _ => exact h

end LiquidVerif.Taint
