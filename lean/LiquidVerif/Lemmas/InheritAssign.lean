import LiquidVerif.Model.InheritAssign
/-! Which frames can a render touch (C18, assign/capture inside blocks). -/
namespace LiquidVerif.Inherit

/-- what a render in mode `m` (`true`: in the copied context of a most-derived definition) may change:
never the number of live contexts; on the drop's own context only the innermost locals; in a copy only its own
locals and — through `block.super` — those of the block tag's context, and not even those when no `block.super`
is written at the top level of the definition. -/
def Pres (m noTop : Bool) (fr fr' : Frames) : Prop :=
  fr'.length = fr.length ∧
  (m = false → fr'.tail = fr.tail) ∧
  (m = true → fr'.tail.tail = fr.tail.tail ∧ (noTop = true → fr'.tail = fr.tail))

def Sized (m : Bool) (fr : Frames) : Prop := if m then 2 ≤ fr.length else 1 ≤ fr.length

theorem Pres.refl (m nt : Bool) (fr : Frames) : Pres m nt fr fr := ⟨rfl, fun _ => rfl, fun _ => ⟨rfl, fun _ => rfl⟩⟩

theorem Pres.trans {m a b : Bool} {f0 f1 f2 : Frames} (h1 : Pres m a f0 f1) (h2 : Pres m b f1 f2) :
    Pres m (a && b) f0 f2 := by
  refine ⟨h2.1.trans h1.1, fun hm => (h2.2.1 hm).trans (h1.2.1 hm), fun hm => ⟨?_, ?_⟩⟩
  · exact ((h2.2.2 hm).1).trans ((h1.2.2 hm).1)
  · intro hab
    simp only [Bool.and_eq_true] at hab
    exact ((h2.2.2 hm).2 hab.2).trans ((h1.2.2 hm).2 hab.1)

theorem Sized.of_length {m : Bool} {f0 f1 : Frames} (h : f1.length = f0.length) (hs : Sized m f0) : Sized m f1 := by
  unfold Sized at *; rw [h]; exact hs

theorem pres_assign (m nt : Bool) (fr : Frames) (x s : String) (hs : Sized m fr) :
    Pres m nt fr (assignHead fr x s) := by
  cases fr with
  | nil => cases m <;> simp [Sized] at hs
  | cons f r => exact ⟨rfl, fun _ => rfl, fun _ => ⟨rfl, fun _ => rfl⟩⟩

theorem assign_frames :
    (∀ depth m parents fr (i : AItem), Sized m fr → ∀ out fr',
      arenderItem lim res globals depth m parents fr i = .ok (out, fr') → Pres m (noTopSuper i) fr fr') ∧
    (∀ depth m parents fr (is : List AItem), Sized m fr → ∀ out fr',
      arenderItems lim res globals depth m parents fr is = .ok (out, fr') → Pres m (noTopSupers is) fr fr') := by
  apply arenderItem.mutual_induct lim res globals
    (motive1 := fun depth m parents fr i => Sized m fr → ∀ out fr',
      arenderItem lim res globals depth m parents fr i = .ok (out, fr') → Pres m (noTopSuper i) fr fr')
    (motive2 := fun depth m parents fr is => Sized m fr → ∀ out fr',
      arenderItems lim res globals depth m parents fr is = .ok (out, fr') → Pres m (noTopSupers is) fr fr')
  -- text, var, assign
  · intro depth m parents fr s _ out fr' h
    rw [arenderItem] at h; cases h; exact Pres.refl _ _ _
  · intro depth m parents fr x _ out fr' h
    rw [arenderItem] at h; cases h; exact Pres.refl _ _ _
  · intro depth m parents fr x s hs out fr' h
    rw [arenderItem] at h; cases h; exact pres_assign _ _ _ _ _ hs
  -- super, no parent
  · intro depth m fr _ out fr' h
    rw [arenderItem] at h; cases h; exact Pres.refl _ _ _
  -- super from the copied context: error / ok / no frame
  · intro depth p ps f rest e he _ _ out fr' h
    rw [arenderItem] at h; simp [he] at h
  · intro depth p ps f rest out0 rest' hok ih hs out fr' h
    rw [arenderItem] at h; simp only [hok, if_true] at h
    cases h
    have hrest : Sized false rest := by
      simp only [Sized, List.length_cons, if_true] at hs; simp only [Sized]; simp; omega
    have := ih hrest _ _ hok
    refine ⟨by simp [this.1], (fun hm => by cases hm), (fun _ => ⟨?_, (fun hnt => by simp [noTopSuper] at hnt)⟩)⟩
    simpa using this.2.1 rfl
  · intro depth p ps hs out fr' h
    simp [Sized] at hs
  -- super on the drop's own context
  · intro depth m fr p ps hm ih hs out fr' h
    have hm' : m = false := by simpa using hm
    subst hm'
    rw [arenderItem.eq_def] at h; simp only [Bool.false_eq_true, if_false] at h
    have := ih hs _ _ h
    exact ⟨this.1, this.2.1, (fun hc => by cases hc)⟩
  -- block: depth guard, error, ok
  · intro depth m parents fr name body d ds hd hlim _ out fr' h
    rw [arenderItem] at h; simp [hd, hlim] at h
  · intro depth m parents fr name body d ds hd hlim e he _ _ out fr' h
    rw [arenderItem] at h; simp [hd, hlim, he] at h
  · intro depth m parents fr name body d ds hd hlim out0 r hok ih hs out fr' h
    rw [arenderItem] at h; simp only [hd, hlim, dite_false, hok] at h
    cases h
    have hne : 1 ≤ fr.length := by cases m <;> simp [Sized] at hs <;> omega
    have hs2 : Sized true ([] :: fr) := by simp [Sized]; omega
    have := ih hs2 _ _ hok
    have hl : r.tail.length = fr.length := by simp [List.length_tail, this.1]
    have ht : r.tail.tail = fr.tail := by simpa using (this.2.2 rfl).1
    exact ⟨hl, fun _ => ht, fun _ => ⟨by rw [ht], fun _ => ht⟩⟩
  -- block rendered directly
  · intro depth m parents fr name body hn ih hs out fr' h
    rw [arenderItem] at h; simp only [hn] at h
    have hs1 : Sized false fr := by cases m <;> simp [Sized] at hs ⊢ <;> omega
    have := ih hs1 _ _ h
    exact ⟨this.1, fun _ => this.2.1 rfl, fun _ => ⟨by rw [this.2.1 rfl], fun _ => this.2.1 rfl⟩⟩
  -- lists
  · intro depth m parents fr _ out fr' h
    rw [arenderItems] at h; cases h; exact Pres.refl _ _ _
  · intro depth m parents fr i is e he _ _ out fr' h
    rw [arenderItems] at h; simp [he] at h
  · intro depth m parents fr i is out0 fr1 hok e he _ _ _ out fr' h
    rw [arenderItems] at h; simp [hok, he] at h
  · intro depth m parents fr i is out0 fr1 hok out1 fr2 hok2 ih1 ih2 hs out fr' h
    rw [arenderItems] at h; simp only [hok, hok2] at h
    cases h
    have h1 := ih1 hs _ _ hok
    have h2 := ih2 (Sized.of_length h1.1 hs) _ _ hok2
    simpa [noTopSupers] using Pres.trans h1 h2

end LiquidVerif.Inherit
