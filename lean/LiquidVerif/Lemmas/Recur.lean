import LiquidVerif.Model.Recur
/-! Helper lemmas for C09 (render side): every probe execution happens in a context reachable from the
starting context by the guarded transitions of the model (`Reach`), so any invariant of the transitions
holds at every execution. -/
namespace LiquidVerif.Recur

def evOf (id : Nat) (c : Cx) : Ev := ⟨id, c.copyDepth, c.scope, c.frames, c.path, c.blocks⟩

/-- one context transition of the model, with the guard under which the code performs it -/
inductive Step (E : Env) : Cx → Cx → Prop
  | blk (c : Cx) (k : BKind) : Step E c { c with frames := c.frames + k.frames, blocks := c.blocks + 1 }
  | forn (c : Cx) : c.scope ≤ E.depth →
      Step E c { c with scope := c.scope + 1, frames := c.frames + kBlock, blocks := c.blocks + 1 }
  | include (c : Cx) (name : String) : c.scope + 1 ≤ E.depth →
      Step E c { c with scope := c.scope + 2, tname := name, frames := c.frames + kPartial, path := c.path + 1 }
  | render (c : Cx) (name : String) : c.copyDepth ≤ E.depth → 4 ≤ E.depth →
      Step E c { c.copied true false name kPartial with scope := 5 }
  | call (c : Cx) : c.copyDepth ≤ E.depth → Step E c (c.copied true true c.tname kCall)
  | extends (c : Cx) : c.scope ≤ E.depth →
      Step E c { c with scope := c.scope + 1, frames := c.frames + kPartial, path := c.path + 1 }
  | blockPush (c : Cx) : c.scope ≤ E.depth →
      Step E c { c with scope := c.scope + 1, frames := c.frames + kCall, path := c.path + 1 }
  | blockCopy (c : Cx) : c.copyDepth ≤ E.depth → Step E c (c.copied c.noInclude c.noBlock c.tname kCall)

inductive Reach (E : Env) : Cx → Cx → Prop
  | refl (c : Cx) : Reach E c c
  | step {a b c : Cx} : Step E a b → Reach E b c → Reach E a c

/-- "every event of `r` was emitted in a context reachable from `c`" -/
def From (E : Env) (c : Cx) (r : Res) : Prop := ∀ e ∈ r.evs, ∃ c', Reach E c c' ∧ e = evOf e.id c'

theorem From.of_step {E : Env} {a b : Cx} {r : Res} (h : Step E a b) (hr : From E b r) : From E a r := by
  intro e he
  obtain ⟨c', hc, heq⟩ := hr e he
  exact ⟨c', .step h hc, heq⟩

theorem From.nil {E : Env} {c : Cx} {r : Res} (h : r.evs = []) : From E c r := by
  intro e he; rw [h] at he; cases he

theorem From.evs_eq {E : Env} {c : Cx} {r r' : Res} (h : r'.evs = r.evs) (hr : From E c r) : From E c r' := by
  intro e he; rw [h] at he; exact hr e he

theorem From.append {E : Env} {c : Cx} {r1 r2 r : Res} (h : r.evs = r1.evs ++ r2.evs)
    (h1 : From E c r1) (h2 : From E c r2) : From E c r := by
  intro e he; rw [h] at he
  rcases List.mem_append.mp he with he | he
  · exact h1 e he
  · exact h2 e he

theorem From.seq {E : Env} {c : Cx} {a : Res} {b : St → Res} (ha : From E c a) (hb : ∀ s, From E c (b s)) :
    From E c (seq a b) := by
  unfold Recur.seq
  split
  · exact From.append (r1 := a) (r2 := b a.st) rfl ha (hb _)
  · exact ha

set_option maxHeartbeats 1000000 in
/-- the four functions only emit events from reachable contexts -/
theorem from_all (E : Env) :
    (∀ c s n, From E c (render E c s n)) ∧ (∀ c s ns, From E c (bodyLoop E c s ns)) ∧
    (∀ c s body k, From E c (iter E c s body k)) ∧ (∀ c s ns, From E c (renderList E c s ns)) := by
  apply render.mutual_induct E
    (motive1 := fun c s n => From E c (render E c s n))
    (motive2 := fun c s ns => From E c (bodyLoop E c s ns))
    (motive3 := fun c s body k => From E c (iter E c s body k))
    (motive4 := fun c s ns => From E c (renderList E c s ns))
  -- 1 probe
  · intro c s id e he
    simp only [render, List.mem_singleton] at he
    exact ⟨c, .refl c, by subst he; rfl⟩
  -- 2 blk
  · intro c s k body ih
    simp only [render]
    exact From.of_step (Step.blk c k) ih
  -- 3-5 forn
  · intro c s body; simp only [render]; exact From.nil rfl
  · intro c s n body hn hs; simp only [render, hn, hs, if_false, dite_true]; exact From.nil rfl
  · intro c s n body hn hs ih
    simp only [render, hn, hs, if_false, dite_false]
    exact From.of_step (Step.forn c (by omega)) ih
  -- 6-10 include
  · intro c s name h; simp only [render, h, if_true]; exact From.nil rfl
  · intro c s name h hl; simp only [render, h, hl]; exact From.nil rfl
  · intro c s name h body hl hs; simp only [render, h, hl, hs, dite_true]; exact From.nil rfl
  · intro c s name h body hl hs hs2; simp only [render, h, hl, hs, hs2, dite_true, dite_false]; exact From.nil rfl
  · intro c s name h body hl hs hs2 ih
    simp only [render, hl, hs, hs2, dite_false]
    rw [if_neg h]
    exact From.of_step (Step.include c name (by omega)) ih
  -- 11-14 render
  · intro c s name hl; simp only [render, hl]; exact From.nil rfl
  · intro c s name body hl h; simp only [render, hl, h, dite_true]; exact From.nil rfl
  · intro c s name body hl h h4; simp only [render, hl, h, h4, dite_false, if_true]; exact From.nil rfl
  · intro c s name body hl h h4 ih
    simp only [render, hl, h, h4, dite_false, if_false]
    exact From.of_step (Step.render c name (by omega) (by omega)) (From.evs_eq rfl ih)
  -- 15 macro
  · intro c s name body; simp only [render]; exact From.nil rfl
  -- 16-18 call
  · intro c s name hl; simp only [render, hl]; exact From.nil rfl
  · intro c s name body hl h; simp only [render, hl, h, dite_true]; exact From.nil rfl
  · intro c s name body hl h ih
    simp only [render, hl, h, dite_false]
    exact From.of_step (Step.call c (by omega)) (From.evs_eq rfl ih)
  -- 19-23 extends
  · intro c s parent hl; simp only [render, hl]; exact From.nil rfl
  · intro c s parent body hl st' e hb; simp only [render, hl, hb]; exact From.nil rfl
  · intro c s parent body hl st' base hb hs; simp only [render, hl, hb, hs, dite_true]; exact From.nil rfl
  · intro c s parent body hl st' base hb hs r e hr ih
    simp only [render, hl, hb, hs, dite_false]
    have hr' : (bodyLoop E { c with scope := c.scope + 1, frames := c.frames + kPartial, path := c.path + 1 }
        { s with stacks := st' } base).out = .err e := hr
    simp only [hr']
    exact From.of_step (Step.extends c (by omega)) (From.evs_eq rfl ih)
  · intro c s parent body hl st' base hb hs r hr ih
    simp only [render, hl, hb, hs, dite_false]
    split
    · rename_i e he; exact absurd he (fun h => hr e h)
    · exact From.of_step (Step.extends c (by omega)) (From.evs_eq rfl ih)
  -- 24-28 block
  · intro c s name body h; simp only [render, h, if_true]; exact From.nil rfl
  · intro c s name body h hl hs; simp only [render, h, hl, hs, dite_true]; exact From.nil rfl
  · intro c s name body h hl hs ih
    simp only [render, hl, hs, dite_false]
    rw [if_neg h]
    exact From.of_step (Step.blockPush c (by omega)) ih
  · intro c s name body h d tail hl hc; simp only [render, h, hl, hc, dite_true]; exact From.nil rfl
  · intro c s name body h d tail hl hc ih
    simp only [render, hl, hc, dite_false]
    rw [if_neg h]
    exact From.of_step (Step.blockCopy c (by omega)) (From.evs_eq rfl ih)
  -- 29-34 bodyLoop
  · intro c s; simp only [bodyLoop]; exact From.nil rfl
  · intro c s n ns r hr ih1 ih2
    have hr' : (render E c s n).out = .ok := hr
    simp only [bodyLoop, hr']
    exact From.append (r1 := render E c s n) (r2 := bodyLoop E c (render E c s n).st ns) rfl ih1 ih2
  · intro c s n ns r hr ih1
    have hr' : (render E c s n).out = .stop := hr
    simp only [bodyLoop, hr']
    exact From.evs_eq rfl ih1
  · intro c s n ns r hr ih1
    have hr' : (render E c s n).out = .err .assertion := hr
    simp only [bodyLoop, hr', if_true]
    exact ih1
  · intro c s n ns r a hr ha hlax ih1 ih2
    have hr' : (render E c s n).out = .err a := hr
    simp only [bodyLoop, hr', ha, hlax, if_false, if_true]
    exact From.append (r1 := render E c s n) (r2 := bodyLoop E c (render E c s n).st ns) rfl ih1 ih2
  · intro c s n ns r a hr ha hlax ih1
    have hr' : (render E c s n).out = .err a := hr
    simp only [bodyLoop, hr', ha, hlax, if_false]
    exact ih1
  -- 35-36 iter
  · intro c s body; simp only [iter]; exact From.nil rfl
  · intro c s body k ih1 ih2
    simp only [iter]
    exact From.seq ih1 ih2
  -- 37-38 renderList
  · intro c s; simp only [renderList]; exact From.nil rfl
  · intro c s n ns ih1 ih2
    simp only [renderList]
    exact From.seq ih1 ih2

/-! ### invariants of the transitions -/

/-- depth accounting: `4 ≤ D` is what the first `extend` of a render establishes -/
structure Inv (D : Nat) (c : Cx) : Prop where
  d4 : 4 ≤ D
  copy : c.copyDepth ≤ D + 1
  scope : c.scope ≤ D + 1
  path : c.path ≤ c.copyDepth * (D + 2) + c.scope

theorem Inv.step {E : Env} {a b : Cx} (h : Step E a b) (ha : Inv E.depth a) : Inv E.depth b := by
  obtain ⟨h4, hc, hs, hp⟩ := ha
  have hm : (a.copyDepth + 1) * (E.depth + 2) = a.copyDepth * (E.depth + 2) + (E.depth + 2) := Nat.succ_mul _ _
  cases h <;> (constructor <;> (try simp only [Cx.copied] at *) <;> omega)

theorem Inv.reach {E : Env} {a b : Cx} (h : Reach E a b) (ha : Inv E.depth a) : Inv E.depth b := by
  induction h with
  | refl => exact ha
  | step hs _ ih => exact ih (Inv.step hs ha)

/-- frame accounting: frames grow by at most 5 per activation and 7 per block level -/
def FRel (a b : Cx) : Prop :=
  a.path ≤ b.path ∧ a.blocks ≤ b.blocks ∧ a.frames ≤ b.frames ∧
  b.frames - a.frames ≤ 5 * (b.path - a.path) + 7 * (b.blocks - a.blocks)

theorem FRel.step {E : Env} {a b : Cx} (h : Step E a b) : FRel a b := by
  cases h <;> simp only [FRel, Cx.copied, kBlock, kPartial, kCall] <;> try omega
  rename_i k; cases k <;> simp only [BKind.frames, kBlock, kWhen] <;> omega

theorem FRel.reach {E : Env} {a b : Cx} (h : Reach E a b) : FRel a b := by
  induction h with
  | refl => simp only [FRel]; omega
  | step hs _ ih => have h1 := FRel.step hs; simp only [FRel] at *; omega

/-! ### a recursive call site wrapped in block levels -/

/-- one enclosing block level around the first child; `rest` are the later siblings -/
inductive W where
  | blk (k : BKind) (rest : List Node)
  | forn (m : Nat) (rest : List Node)        -- `for`/`tablerow`/`with` over `m + 1 ≥ 1` items

/-- `x` nested in the block levels `ws` (outermost first), as the first node of each level -/
def nest : List W → Node → Node
  | [], x => x
  | .blk k rest :: ws, x => .blk k (nest ws x :: rest)
  | .forn m rest :: ws, x => .forn (m + 1) (nest ws x :: rest)

theorem seq_err {a : Res} {b : St → Res} {e : Err} (h : a.out = .err e) : seq a b = a := by
  unfold Recur.seq; rw [h]

theorem renderList_head_err {E : Env} {c : Cx} {s : St} {n : Node} {ns : List Node} {e : Err}
    (h : (render E c s n).out = .err e) : renderList E c s (n :: ns) = render E c s n := by
  rw [renderList]; exact seq_err h

theorem iter_head_err {E : Env} {c : Cx} {s : St} {body : List Node} {k : Nat} {e : Err}
    (h : (renderList E c s body).out = .err e) : iter E c s body (k + 1) = renderList E c s body := by
  rw [iter]; exact seq_err h

/-- If the call site fails with ContextDepthError in every context satisfying `P`, and `P` survives entering a
block level, then the wrapped call site fails the same way: nothing between the block levels catches it. -/
theorem nest_cut (E : Env) (x : Node) (P : Cx → Prop)
    (hblk : ∀ (c : Cx) (k : BKind), P c → P { c with frames := c.frames + k.frames, blocks := c.blocks + 1 })
    (hfor : ∀ c, P c → P { c with scope := c.scope + 1, frames := c.frames + kBlock, blocks := c.blocks + 1 })
    (hx : ∀ c s, P c → (render E c s x).out = .err .contextDepth) :
    ∀ ws c s, P c → (render E c s (nest ws x)).out = .err .contextDepth := by
  intro ws
  induction ws with
  | nil => intro c s hc; exact hx c s hc
  | cons w ws ih =>
    intro c s hc
    cases w with
    | blk k rest =>
      simp only [nest, render]
      rw [renderList_head_err (ih _ _ (hblk c k hc))]
      exact ih _ _ (hblk c k hc)
    | forn m rest =>
      simp only [nest, render]
      have hm : ¬ (m + 1 = 0) := by omega
      simp only [hm, if_false]
      split
      · rfl
      · have h1 := ih _ s (hfor c hc)
        rw [iter_head_err (by rw [renderList_head_err h1]; exact h1), renderList_head_err h1]
        exact h1

theorem bodyLoop_head_strict {E : Env} (hl : E.lax = false) {c : Cx} {s : St} {n : Node} {ns : List Node}
    (h : (render E c s n).out = .err .contextDepth) : bodyLoop E c s (n :: ns) = render E c s n := by
  rw [bodyLoop]; simp only [h, hl]; simp

/-- **render chains**: a set `R` of template names, each of whose bodies starts (at any block depth) with a
`render` of a member of `R`.  In STRICT mode `{% render n %}` of a member fails with ContextDepthError in every
context.  Induction on `depth + 1 - _copy_depth`. -/
theorem render_family_cut (E : Env) (hl : E.lax = false) (R : String → Prop)
    (hclosed : ∀ n, R n → ∃ ws n' post, lookup E.templates n = some (nest ws (.render n') :: post) ∧ R n') :
    ∀ k c s n, R n → E.depth + 1 - c.copyDepth = k → (render E c s (.render n)).out = .err .contextDepth := by
  intro k
  induction k with
  | zero =>
    intro c s n hn hk
    obtain ⟨ws, n', post, hlk, _⟩ := hclosed n hn
    simp only [render, hlk]
    have : c.copyDepth > E.depth := by omega
    simp only [this, dite_true]
  | succ k ih =>
    intro c s n hn hk
    obtain ⟨ws, n', post, hlk, hn'⟩ := hclosed n hn
    simp only [render, hlk]
    have h1 : ¬ c.copyDepth > E.depth := by omega
    simp only [h1, dite_false]
    split
    · rfl
    · have hcut := nest_cut E (.render n') (fun c' => c'.copyDepth = c.copyDepth + 1)
        (fun _ _ h => h) (fun _ h => h) (fun c' s' hc' => ih c' s' n' hn' (by omega)) ws
      rw [bodyLoop_head_strict hl (hcut _ _ rfl)]
      exact hcut _ _ rfl

/-- **include chains**: same for `include` (while `include` is not disabled). Induction on `depth + 1 - scope.size()`. -/
theorem include_family_cut (E : Env) (hl : E.lax = false) (R : String → Prop)
    (hclosed : ∀ n, R n → ∃ ws n' post, lookup E.templates n = some (nest ws (.include n') :: post) ∧ R n') :
    ∀ k c s n, R n → c.noInclude = false → E.depth + 1 - c.scope = k →
      (render E c s (.include n)).out = .err .contextDepth := by
  intro k
  induction k using Nat.strongRecOn with
  | ind k ih =>
    intro c s n hn hni hk
    obtain ⟨ws, n', post, hlk, hn'⟩ := hclosed n hn
    simp only [render, hlk]
    rw [if_neg (by rw [hni]; simp)]
    split
    · rfl
    · split
      · rfl
      · rename_i h1 h2
        have hcut := nest_cut E (.include n') (fun c' => c'.scope ≥ c.scope + 2 ∧ c'.noInclude = false)
          (fun _ _ h => h) (fun _ h => ⟨by have := h.1; simp only; omega, h.2⟩)
          (fun c' s' hc' => ih (E.depth + 1 - c'.scope) (by have := hc'.1; omega) c' s' n' hn' hc'.2 rfl) ws
        have hc0 : ({ c with scope := c.scope + 2, tname := n, frames := c.frames + kPartial, path := c.path + 1 } : Cx).scope ≥ c.scope + 2 ∧
            ({ c with scope := c.scope + 2, tname := n, frames := c.frames + kPartial, path := c.path + 1 } : Cx).noInclude = false := ⟨Nat.le_refl _, hni⟩
        rw [bodyLoop_head_strict hl (hcut _ _ hc0)]
        exact hcut _ _ hc0

/-! ### circular `extends` -/

theorem buildFrom_error (ld : Tpls) (st : Stacks) (seen : List String) (first : Bool) (t : List Node) (e : Err)
    (h : stackBlocks st t = .error e) : (buildFrom ld st seen first t).2 = .error e := by
  rw [buildFrom]; simp only [h]

theorem buildFrom_seen (ld : Tpls) (st st' : Stacks) (seen : List String) (first : Bool) (t : List Node) (p : String)
    (h : stackBlocks st t = .ok (st', some p)) (hs : seen.contains p = true) :
    (buildFrom ld st seen first t).2 = .error .inheritance := by
  rw [buildFrom]
  simp only [h]
  split
  · rfl
  · rename_i hc; exact absurd hs hc

theorem buildFrom_step (ld : Tpls) (st st' : Stacks) (seen : List String) (first : Bool) (t t' : List Node) (p : String)
    (h : stackBlocks st t = .ok (st', some p)) (hs : seen.contains p = false) (hf : lookup ld p = some t') :
    buildFrom ld st seen first t = buildFrom ld st' (p :: seen) false t' := by
  rw [buildFrom]
  simp only [h]
  split
  · rename_i hc; rw [hs] at hc; cases hc
  · split
    · rename_i heq; rw [hf] at heq; cases heq
    · rename_i t'' heq; rw [hf] at heq; cases heq; rfl

/-- A set `R` of template bodies, each with exactly one `extends` whose parent is loadable and again in `R`
(every cycle of `extends` is such a set): the chain walk from a member ends in TemplateInheritanceError. -/
theorem buildFrom_cycle (ld : Tpls) (R : List Node → Prop)
    (hclosed : ∀ t, R t → ∃ p t', extsOfList t = [p] ∧ lookup ld p = some t' ∧ R t')
    (st : Stacks) (seen : List String) (first : Bool) (t : List Node) (ht : R t) :
    (buildFrom ld st seen first t).2 = .error .inheritance := by
  generalize hn : (unseen ld seen).length = n
  induction n using Nat.strongRecOn generalizing st seen first t with
  | ind n ih =>
    obtain ⟨p, t', he, hf, hR⟩ := hclosed t ht
    cases hdup : hasDupFrom [] (blocksOfList t) with
    | true =>
      apply buildFrom_error
      simp [stackBlocks, he, hdup]
    | false =>
      have hsb : stackBlocks st t = .ok (storeBlocks st (blocksOfList t), some p) := by
        simp [stackBlocks, he, hdup]
      cases hs : seen.contains p with
      | true => exact buildFrom_seen ld st _ seen first t p hsb hs
      | false =>
        rw [buildFrom_step ld st _ seen first t t' p hsb hs hf]
        exact ih _ (by rw [← hn]; exact unseen_lt ld seen p t' hs hf) _ _ _ _ hR rfl

/-! ### the self-rendering partial `a` = `probe; render a; render a` (fan-out 2) -/

def fanBody : List Node := [.probe 1, .render "a", .render "a"]
def fanEnv (lax : Bool) (D : Nat) : Env := { lax := lax, depth := D, templates := [("a", fanBody)] }

theorem fan_lookup (lax : Bool) (D : Nat) : lookup (fanEnv lax D).templates "a" = some fanBody := by
  simp [fanEnv, lookup]

/-- the three-node loop of `render_with_context` in LAX mode, when neither `render` stops it -/
theorem fan_bodyLoop_lax (D : Nat) (c : Cx) (s : St) (N : Nat)
    (h : ∀ s', ((render (fanEnv true D) c s' (.render "a")).out = .ok ∨
                (render (fanEnv true D) c s' (.render "a")).out = .err .contextDepth) ∧
               (render (fanEnv true D) c s' (.render "a")).evs.length = N) :
    ((bodyLoop (fanEnv true D) c s fanBody).out = .ok) ∧
    (bodyLoop (fanEnv true D) c s fanBody).evs.length = 1 + 2 * N := by
  have step : ∀ (s0 : St) (rest : List Node) (M : Nat),
      (∀ s1, (bodyLoop (fanEnv true D) c s1 rest).out = .ok ∧ (bodyLoop (fanEnv true D) c s1 rest).evs.length = M) →
      (bodyLoop (fanEnv true D) c s0 (.render "a" :: rest)).out = .ok ∧
      (bodyLoop (fanEnv true D) c s0 (.render "a" :: rest)).evs.length = N + M := by
    intro s0 rest M hrest
    obtain ⟨ho, hn⟩ := h s0
    rw [bodyLoop]
    rcases ho with ho | ho
    · simp only [ho]
      exact ⟨(hrest _).1, by simp only [List.length_append, hn, (hrest _).2]⟩
    · simp only [ho]
      have hl : (fanEnv true D).lax = true := rfl
      simp only [hl, if_true]
      have hne : ¬ (Err.contextDepth = Err.assertion) := by decide
      simp only [hne, if_false]
      exact ⟨(hrest _).1, by simp only [List.length_append, hn, (hrest _).2]⟩
  have hnil : ∀ s1, (bodyLoop (fanEnv true D) c s1 []).out = .ok ∧ (bodyLoop (fanEnv true D) c s1 []).evs.length = 0 := by
    intro s1; simp [bodyLoop]
  have h1 := fun s0 => step s0 [] 0 hnil
  have h2 := fun s0 => step s0 [.render "a"] (N + 0) h1
  unfold fanBody
  rw [bodyLoop]
  simp only [render]
  obtain ⟨ha, hb⟩ := h2 s
  exact ⟨ha, by simp only [List.length_append, List.length_singleton, hb]; omega⟩

/-- LAX mode: `{% render 'a' %}` at copy depth `D + 1 - k` executes `2^k - 1` probes. -/
theorem fan_render_lax (D : Nat) (h4 : 4 ≤ D) :
    ∀ k c s, c.copyDepth + k = D + 1 →
      ((render (fanEnv true D) c s (.render "a")).out = .ok ∨
       (render (fanEnv true D) c s (.render "a")).out = .err .contextDepth) ∧
      (render (fanEnv true D) c s (.render "a")).evs.length = 2 ^ k - 1 := by
  intro k
  induction k with
  | zero =>
    intro c s hk
    have hd : (fanEnv true D).depth = D := rfl
    have : c.copyDepth > (fanEnv true D).depth := by rw [hd]; omega
    simp only [render, fan_lookup, this, dite_true]
    exact ⟨Or.inr trivial, rfl⟩
  | succ k ih =>
    intro c s hk
    have hd : (fanEnv true D).depth = D := rfl
    have h1 : ¬ c.copyDepth > (fanEnv true D).depth := by rw [hd]; omega
    have h2 : ¬ 4 > (fanEnv true D).depth := by rw [hd]; omega
    simp only [render, fan_lookup, h1, h2, dite_false, if_false]
    have hb := fan_bodyLoop_lax D { c.copied true false "a" kPartial with scope := 5 } ⟨[], []⟩ (2 ^ k - 1)
      (fun s' => ih _ s' (by simp only [Cx.copied]; omega))
    refine ⟨Or.inl hb.1, ?_⟩
    rw [hb.2]
    have : 1 ≤ 2 ^ k := Nat.one_le_two_pow
    rw [Nat.pow_succ]; omega

/-- STRICT mode: the first `render` that hits the limit aborts everything: `{% render 'a' %}` at copy depth
`D + 1 - k` executes `k` probes and fails with ContextDepthError. -/
theorem fan_render_strict (D : Nat) (h4 : 4 ≤ D) :
    ∀ k c s, c.copyDepth + k = D + 1 →
      (render (fanEnv false D) c s (.render "a")).out = .err .contextDepth ∧
      (render (fanEnv false D) c s (.render "a")).evs.length = k := by
  intro k
  induction k with
  | zero =>
    intro c s hk
    have hd : (fanEnv false D).depth = D := rfl
    have : c.copyDepth > (fanEnv false D).depth := by rw [hd]; omega
    simp only [render, fan_lookup, this, dite_true]
    exact ⟨trivial, rfl⟩
  | succ k ih =>
    intro c s hk
    have hd : (fanEnv false D).depth = D := rfl
    have h1 : ¬ c.copyDepth > (fanEnv false D).depth := by rw [hd]; omega
    have h2 : ¬ 4 > (fanEnv false D).depth := by rw [hd]; omega
    simp only [render, fan_lookup, h1, h2, dite_false, if_false]
    obtain ⟨io, il⟩ := ih { c.copied true false "a" kPartial with scope := 5 } ⟨[], []⟩ (by simp only [Cx.copied]; omega)
    unfold fanBody
    rw [bodyLoop]
    simp only [render]
    rw [bodyLoop]
    simp only [io]
    have hl : (fanEnv false D).lax = false := rfl
    have hne : ¬ (Err.contextDepth = Err.assertion) := by decide
    simp only [hl, hne, if_false, Bool.false_eq_true]
    exact ⟨io, by simp only [List.length_append, List.length_singleton, il]; omega⟩

/-! ### the self-rendering partial at block depth `d + 1`: `a` = `{% if %}`^(d+1) `probe; render a` -/

def deep : Nat → List Node → List Node
  | 0, body => body
  | d + 1, body => [.blk .plain (deep d body)]

def stackBody (d : Nat) : List Node := [.blk .plain (deep d [.probe 1, .render "a"])]
def stackEnv (D d : Nat) : Env := { lax := false, depth := D, templates := [("a", stackBody d)] }

theorem stack_lookup (D d : Nat) : lookup (stackEnv D d).templates "a" = some (stackBody d) := by
  simp [stackEnv, lookup]

/-- the context `d` plain block levels further down -/
def down : Nat → Cx → Cx
  | 0, c => c
  | d + 1, c => down d { c with frames := c.frames + BKind.plain.frames, blocks := c.blocks + 1 }

theorem down_frames (d : Nat) (c : Cx) : (down d c).frames = c.frames + 5 * d ∧ (down d c).copyDepth = c.copyDepth := by
  induction d generalizing c with
  | zero => simp [down]
  | succ d ih =>
    obtain ⟨h1, h2⟩ := ih { c with frames := c.frames + BKind.plain.frames, blocks := c.blocks + 1 }
    simp only [down]
    rw [h1, h2]
    simp only [BKind.frames, kBlock]
    exact ⟨by omega, trivial⟩

theorem seq_evs_left {a : Res} {b : St → Res} {e : Ev} (h : e ∈ a.evs) : e ∈ (seq a b).evs := by
  unfold Recur.seq
  split
  · exact List.mem_append_left _ h
  · exact h

theorem renderList_head_evs {E : Env} {c : Cx} {s : St} {n : Node} {ns : List Node} {e : Ev}
    (h : e ∈ (render E c s n).evs) : e ∈ (renderList E c s (n :: ns)).evs := by
  rw [renderList]; exact seq_evs_left h

theorem bodyLoop_head_evs {E : Env} {c : Cx} {s : St} {n : Node} {ns : List Node} {e : Ev}
    (h : e ∈ (render E c s n).evs) : e ∈ (bodyLoop E c s (n :: ns)).evs := by
  rw [bodyLoop]
  split
  · exact List.mem_append_left _ h
  · exact h
  · split
    · exact h
    · split
      · exact List.mem_append_left _ h
      · exact h

theorem deep_evs (E : Env) (body : List Node) (e : Ev) :
    ∀ d c s, e ∈ (renderList E (down d c) s body).evs → e ∈ (renderList E c s (deep d body)).evs := by
  intro d
  induction d with
  | zero => intro c s h; exact h
  | succ d ih =>
    intro c s h
    simp only [deep]
    apply renderList_head_evs
    simp only [render]
    exact ih _ s h

/-- the events of `{% render 'a' %}` met after the probe inside the `d + 1` block levels are events of the whole -/
theorem stack_inner_evs (E : Env) (d : Nat) (c : Cx) (s : St) (e : Ev)
    (h : e ∈ (renderList E (down (d + 1) c) s [.probe 1, .render "a"]).evs) :
    e ∈ (bodyLoop E c s (stackBody d)).evs := by
  unfold stackBody
  apply bodyLoop_head_evs
  simp only [render]
  exact deep_evs E _ e d _ s h

theorem probe_then_evs (E : Env) (c : Cx) (s : St) (n : Node) (e : Ev)
    (h : e = evOf 1 c ∨ e ∈ (render E c s n).evs) : e ∈ (renderList E c s [.probe 1, n]).evs := by
  rw [renderList]
  simp only [render, Recur.seq]
  rcases h with h | h
  · exact List.mem_append_left _ (by simp [h, evOf])
  · exact List.mem_append_right _ (renderList_head_evs h)

/-- `{% render 'a' %}` at copy depth `D + 1 - k` (`k ≥ 1`) reaches a probe `k` activations further down:
`k · (3 + 5·(d+1))` Python frames deeper. -/
theorem stack_render_deep (D d : Nat) (h4 : 4 ≤ D) :
    ∀ k c s, c.copyDepth + (k + 1) = D + 1 →
      ∃ e ∈ (render (stackEnv D d) c s (.render "a")).evs, e.frames = c.frames + (k + 1) * (3 + 5 * (d + 1)) := by
  intro k
  induction k with
  | zero =>
    intro c s hk
    have hd : (stackEnv D d).depth = D := rfl
    have h1 : ¬ c.copyDepth > (stackEnv D d).depth := by rw [hd]; omega
    have h2 : ¬ 4 > (stackEnv D d).depth := by rw [hd]; omega
    simp only [render, stack_lookup, h1, h2, dite_false, if_false]
    refine ⟨evOf 1 (down (d + 1) { c.copied true false "a" kPartial with scope := 5 }), ?_, ?_⟩
    · exact stack_inner_evs _ d _ _ _ (probe_then_evs _ _ _ _ _ (Or.inl rfl))
    · simp only [evOf, (down_frames (d + 1) _).1, Cx.copied, kPartial]; omega
  | succ k ih =>
    intro c s hk
    have hd : (stackEnv D d).depth = D := rfl
    have h1 : ¬ c.copyDepth > (stackEnv D d).depth := by rw [hd]; omega
    have h2 : ¬ 4 > (stackEnv D d).depth := by rw [hd]; omega
    simp only [render, stack_lookup, h1, h2, dite_false, if_false]
    obtain ⟨e, he, hf⟩ := ih (down (d + 1) { c.copied true false "a" kPartial with scope := 5 }) ⟨[], []⟩
      (by rw [(down_frames (d + 1) _).2]; simp only [Cx.copied]; omega)
    refine ⟨e, stack_inner_evs _ d _ _ _ (probe_then_evs _ _ _ _ _ (Or.inr he)), ?_⟩
    rw [hf, (down_frames (d + 1) _).1]
    simp only [Cx.copied, kPartial]
    have : (k + 1 + 1) * (3 + 5 * (d + 1)) = (k + 1) * (3 + 5 * (d + 1)) + (3 + 5 * (d + 1)) := Nat.succ_mul _ _
    omega

/-- rendering `a` itself: a probe runs `5·(d+1) + D·(3 + 5·(d+1))` frames below the first one -/
theorem stack_template_deep (D d : Nat) (h4 : 4 ≤ D) :
    ∃ e ∈ (renderTemplate (stackEnv D d) "a").evs, e.frames = 5 * (d + 1) + (D + 1) * (3 + 5 * (d + 1)) := by
  have hd : (stackEnv D d).depth = D := rfl
  have h2 : ¬ 4 > (stackEnv D d).depth := by rw [hd]; omega
  simp only [renderTemplate, stack_lookup, h2, if_false]
  obtain ⟨e, he, hf⟩ := stack_render_deep D d h4 D (down (d + 1) { Cx.root "a" with scope := 5 }) ⟨[], []⟩
    (by rw [(down_frames (d + 1) _).2]; simp [Cx.root])
  refine ⟨e, stack_inner_evs _ d _ _ _ (probe_then_evs _ _ _ _ _ (Or.inr he)), ?_⟩
  rw [hf, (down_frames (d + 1) _).1]
  simp [Cx.root]

/-! ### the ghost fields are erasable -/

/-- the same context with other ghost values -/
def Cx.withGhost (c : Cx) (f p b : Nat) : Cx := { c with frames := f, path := p, blocks := b }
def Ev.core (e : Ev) : Ev := { e with frames := 0, path := 0, blocks := 0 }
/-- a result with the ghost fields of its events erased -/
def Res.core (r : Res) : Res := ⟨r.evs.map Ev.core, r.st, r.out⟩

theorem Res.core_eq {a b : Res} (h : a.core = b.core) : a.st = b.st ∧ a.out = b.out ∧ a.evs.map Ev.core = b.evs.map Ev.core := by
  simp only [Res.core, Res.mk.injEq] at h
  exact ⟨h.2.1, h.2.2, h.1⟩

theorem seq_core {a a' : Res} {b b' : St → Res} (ha : a.core = a'.core) (hb : ∀ s, (b s).core = (b' s).core) :
    (seq a b).core = (seq a' b').core := by
  obtain ⟨h1, h2, h3⟩ := Res.core_eq ha
  unfold Recur.seq
  rw [h2, h1]
  split
  · obtain ⟨g1, g2, g3⟩ := Res.core_eq (hb a'.st)
    simp only [Res.core, List.map_append, h3, g1, g2, g3]
  · exact ha

set_option maxHeartbeats 1000000 in
theorem ghost_all (E : Env) :
    (∀ c s n, ∀ f p b, (render E (c.withGhost f p b) s n).core = (render E c s n).core) ∧
    (∀ c s ns, ∀ f p b, (bodyLoop E (c.withGhost f p b) s ns).core = (bodyLoop E c s ns).core) ∧
    (∀ c s body k, ∀ f p b, (iter E (c.withGhost f p b) s body k).core = (iter E c s body k).core) ∧
    (∀ c s ns, ∀ f p b, (renderList E (c.withGhost f p b) s ns).core = (renderList E c s ns).core) := by
  apply render.mutual_induct E
    (motive1 := fun c s n => ∀ f p b, (render E (c.withGhost f p b) s n).core = (render E c s n).core)
    (motive2 := fun c s ns => ∀ f p b, (bodyLoop E (c.withGhost f p b) s ns).core = (bodyLoop E c s ns).core)
    (motive3 := fun c s body k => ∀ f p b, (iter E (c.withGhost f p b) s body k).core = (iter E c s body k).core)
    (motive4 := fun c s ns => ∀ f p b, (renderList E (c.withGhost f p b) s ns).core = (renderList E c s ns).core)
  -- 1 probe
  · intro c s id f p b
    simp only [render, Cx.withGhost, Res.core, List.map, Ev.core]
  -- 2 blk
  · intro c s k body ih f p b
    simp only [render]
    exact ih (f + k.frames) p (b + 1)
  -- 3-5 forn
  · intro c s body f p b; simp only [render, ↓reduceIte]
  · intro c s n body hn hs f p b
    have hs' : (c.withGhost f p b).scope > E.depth := hs
    simp only [render, hn, hs, hs', if_false, dite_true]
  · intro c s n body hn hs ih f p b
    have hs' : ¬ (c.withGhost f p b).scope > E.depth := hs
    simp only [render, hn, hs, hs', if_false, dite_false]
    exact ih (f + kBlock) p (b + 1)
  -- 6-10 include
  · intro c s name h f p b
    have h' : (c.withGhost f p b).noInclude = true := h
    simp only [render, h, h', if_true]
  · intro c s name h hl f p b
    have h' : ¬ (c.withGhost f p b).noInclude = true := h
    simp only [render, hl]; rw [if_neg h, if_neg h']
  · intro c s name h body hl hs f p b
    have h' : ¬ (c.withGhost f p b).noInclude = true := h
    have hs' : (c.withGhost f p b).scope > E.depth := hs
    simp only [render, hl, hs, hs', dite_true]; rw [if_neg h, if_neg h']
  · intro c s name h body hl hs hs2 f p b
    have h' : ¬ (c.withGhost f p b).noInclude = true := h
    have hs' : ¬ (c.withGhost f p b).scope > E.depth := hs
    have hs2' : (c.withGhost f p b).scope + 1 > E.depth := hs2
    simp only [render, hl, hs, hs', hs2, hs2', dite_true, dite_false]; rw [if_neg h, if_neg h']
  · intro c s name h body hl hs hs2 ih f p b
    have h' : ¬ (c.withGhost f p b).noInclude = true := h
    have hs' : ¬ (c.withGhost f p b).scope > E.depth := hs
    have hs2' : ¬ (c.withGhost f p b).scope + 1 > E.depth := hs2
    simp only [render, hl, hs, hs', hs2, hs2', dite_false]; rw [if_neg h, if_neg h']
    exact ih (f + kPartial) (p + 1) b
  -- 11-14 render
  · intro c s name hl f p b; simp only [render, hl]
  · intro c s name body hl h f p b
    have h' : (c.withGhost f p b).copyDepth > E.depth := h
    simp only [render, hl, h, h', dite_true]
  · intro c s name body hl h h4 f p b
    have h' : ¬ (c.withGhost f p b).copyDepth > E.depth := h
    simp only [render, hl, h, h', h4, dite_false, if_true]
  · intro c s name body hl h h4 ih f p b
    have h' : ¬ (c.withGhost f p b).copyDepth > E.depth := h
    simp only [render, hl, h, h', h4, dite_false, if_false]
    obtain ⟨g1, g2, g3⟩ := Res.core_eq (ih (f + kPartial) (p + 1) b)
    simp only [Res.core, Cx.copied, Cx.withGhost] at *
    rw [g2, g3]
  -- 15 macro
  · intro c s name body f p b; simp only [render]
  -- 16-18 call
  · intro c s name hl f p b; simp only [render, hl]
  · intro c s name body hl h f p b
    have h' : (c.withGhost f p b).copyDepth > E.depth := h
    simp only [render, hl, h, h', dite_true]
  · intro c s name body hl h ih f p b
    have h' : ¬ (c.withGhost f p b).copyDepth > E.depth := h
    simp only [render, hl, h, h', dite_false]
    obtain ⟨g1, g2, g3⟩ := Res.core_eq (ih (f + kCall) (p + 1) b)
    simp only [Res.core, Cx.copied, Cx.withGhost] at *
    rw [g2, g3]
  -- 19-23 extends
  · intro c s parent hl f p b
    have hl' : lookup E.templates (c.withGhost f p b).tname = none := hl
    simp only [render, hl, hl']
  · intro c s parent body hl st' e hb f p b
    have hl' : lookup E.templates (c.withGhost f p b).tname = some body := hl
    simp only [render, hl, hl', hb]
  · intro c s parent body hl st' base hb hs f p b
    have hl' : lookup E.templates (c.withGhost f p b).tname = some body := hl
    have hs' : (c.withGhost f p b).scope > E.depth := hs
    simp only [render, hl, hl', hb, hs, hs', dite_true]
  · intro c s parent body hl st' base hb hs r e hr ih f p b
    have hl' : lookup E.templates (c.withGhost f p b).tname = some body := hl
    have hs' : ¬ (c.withGhost f p b).scope > E.depth := hs
    simp only [render, hl, hl', hb, hs, hs', dite_false]
    have hr' : (bodyLoop E { c with scope := c.scope + 1, frames := c.frames + kPartial, path := c.path + 1 }
        { s with stacks := st' } base).out = .err e := hr
    obtain ⟨g1, g2, g3⟩ := Res.core_eq (ih (f + kPartial) (p + 1) b)
    simp only [Cx.withGhost] at g1 g2 g3 ⊢
    rw [hr'] at g2
    simp only [hr', g2]
    simp only [Res.core, g1, g3]
  · intro c s parent body hl st' base hb hs r hr ih f p b
    have hl' : lookup E.templates (c.withGhost f p b).tname = some body := hl
    have hs' : ¬ (c.withGhost f p b).scope > E.depth := hs
    simp only [render, hl, hl', hb, hs, hs', dite_false]
    obtain ⟨g1, g2, g3⟩ := Res.core_eq (ih (f + kPartial) (p + 1) b)
    simp only [Cx.withGhost] at g1 g2 g3 ⊢
    rw [g2]
    split
    · rename_i e he; exact absurd he (fun h => hr e h)
    · simp only [Res.core, g1, g3]
  -- 24-28 block
  · intro c s name body h f p b
    have h' : (c.withGhost f p b).noBlock = true := h
    simp only [render, h, h', if_true]
  · intro c s name body h hl hs f p b
    have h' : ¬ (c.withGhost f p b).noBlock = true := h
    have hs' : (c.withGhost f p b).scope > E.depth := hs
    simp only [render, hl, hs, hs', dite_true]; rw [if_neg h, if_neg h']
  · intro c s name body h hl hs ih f p b
    have h' : ¬ (c.withGhost f p b).noBlock = true := h
    have hs' : ¬ (c.withGhost f p b).scope > E.depth := hs
    simp only [render, hl, hs, hs', dite_false]; rw [if_neg h, if_neg h']
    exact ih (f + kCall) (p + 1) b
  · intro c s name body h d tail hl hc f p b
    have h' : ¬ (c.withGhost f p b).noBlock = true := h
    have hc' : (c.withGhost f p b).copyDepth > E.depth := hc
    simp only [render, hl, hc, hc', dite_true]; rw [if_neg h, if_neg h']
  · intro c s name body h d tail hl hc ih f p b
    have h' : ¬ (c.withGhost f p b).noBlock = true := h
    have hc' : ¬ (c.withGhost f p b).copyDepth > E.depth := hc
    simp only [render, hl, hc, hc', dite_false]; rw [if_neg h, if_neg h']
    obtain ⟨g1, g2, g3⟩ := Res.core_eq (ih (f + kCall) (p + 1) b)
    simp only [Res.core, Cx.copied, Cx.withGhost] at *
    rw [g1, g2, g3]
  -- 29-34 bodyLoop
  · intro c s f p b; simp only [bodyLoop]
  · intro c s n ns r hr ih1 ih2 f p b
    have hr' : (render E c s n).out = .ok := hr
    obtain ⟨g1, g2, g3⟩ := Res.core_eq (ih1 f p b)
    have ih2' : ∀ f p b, (bodyLoop E (c.withGhost f p b) (render E c s n).st ns).core = (bodyLoop E c (render E c s n).st ns).core := ih2
    obtain ⟨k1, k2, k3⟩ := Res.core_eq (ih2' f p b)
    rw [bodyLoop, bodyLoop]
    simp only [g2, hr', g1]
    simp only [Res.core, List.map_append, g3, k1, k2, k3]
  · intro c s n ns r hr ih1 f p b
    have hr' : (render E c s n).out = .stop := hr
    obtain ⟨g1, g2, g3⟩ := Res.core_eq (ih1 f p b)
    rw [bodyLoop, bodyLoop]
    simp only [g2, hr']
    simp only [Res.core, g1, g3]
  · intro c s n ns r hr ih1 f p b
    have hr' : (render E c s n).out = .err .assertion := hr
    obtain ⟨g1, g2, g3⟩ := Res.core_eq (ih1 f p b)
    rw [bodyLoop, bodyLoop]
    simp only [g2, hr', if_true]
    exact ih1 f p b
  · intro c s n ns r a hr ha hlax ih1 ih2 f p b
    have hr' : (render E c s n).out = .err a := hr
    obtain ⟨g1, g2, g3⟩ := Res.core_eq (ih1 f p b)
    have ih2' : ∀ f p b, (bodyLoop E (c.withGhost f p b) (render E c s n).st ns).core = (bodyLoop E c (render E c s n).st ns).core := ih2
    obtain ⟨k1, k2, k3⟩ := Res.core_eq (ih2' f p b)
    rw [bodyLoop, bodyLoop]
    simp only [g2, hr', ha, hlax, if_false, if_true, g1]
    simp only [Res.core, List.map_append, g3, k1, k2, k3]
  · intro c s n ns r a hr ha hlax ih1 f p b
    have hr' : (render E c s n).out = .err a := hr
    obtain ⟨g1, g2, g3⟩ := Res.core_eq (ih1 f p b)
    rw [bodyLoop, bodyLoop]
    simp only [g2, hr', ha, hlax, if_false]
    exact ih1 f p b
  -- 35-36 iter
  · intro c s body f p b; simp only [iter]
  · intro c s body k ih1 ih2 f p b
    simp only [iter]
    exact seq_core (ih1 f p b) (fun s1 => ih2 s1 f p b)
  -- 37-38 renderList
  · intro c s f p b; simp only [renderList]
  · intro c s n ns ih1 ih2 f p b
    simp only [renderList]
    exact seq_core (ih1 f p b) (fun s1 => ih2 s1 f p b)


/-- `nest_cut` with a condition on the state too: the wrapped call site is the first node of every level, so it
meets the state the outermost level was entered with -/
theorem nest_cutQ (E : Env) (x : Node) (P : Cx → Prop) (Q : St → Prop)
    (hblk : ∀ (c : Cx) (k : BKind), P c → P { c with frames := c.frames + k.frames, blocks := c.blocks + 1 })
    (hfor : ∀ c, P c → P { c with scope := c.scope + 1, frames := c.frames + kBlock, blocks := c.blocks + 1 })
    (hx : ∀ c s, P c → Q s → (render E c s x).out = .err .contextDepth) :
    ∀ ws c s, P c → Q s → (render E c s (nest ws x)).out = .err .contextDepth := by
  intro ws
  induction ws with
  | nil => intro c s hc hs; exact hx c s hc hs
  | cons w ws ih =>
    intro c s hc hs
    cases w with
    | blk k rest =>
      simp only [nest, render]
      rw [renderList_head_err (ih _ _ (hblk c k hc) hs)]
      exact ih _ _ (hblk c k hc) hs
    | forn m rest =>
      simp only [nest, render]
      have hm : ¬ (m + 1 = 0) := by omega
      simp only [hm, if_false]
      split
      · rfl
      · have h1 := ih _ s (hfor c hc) hs
        rw [iter_head_err (by rw [renderList_head_err h1]; exact h1), renderList_head_err h1]
        exact h1

/-- **macro recursion**: a set `R` of template names; the body of each member defines a macro whose body begins
(at any block depth) with a `render` of a member, and then calls that macro (at any block depth).  Two context
copies per cycle.  In STRICT mode `{% render n %}` of a member fails with ContextDepthError in every context. -/
theorem call_family_cut (E : Env) (hl : E.lax = false) (R : String → Prop)
    (hclosed : ∀ n, R n → ∃ m ws' n' post' ws post,
      lookup E.templates n = some (.macro m (nest ws' (.render n') :: post') :: nest ws (.call m) :: post) ∧ R n') :
    ∀ k c s n, R n → E.depth + 1 - c.copyDepth = k → (render E c s (.render n)).out = .err .contextDepth := by
  intro k
  induction k using Nat.strongRecOn with
  | ind k ih =>
    intro c s n hn hk
    obtain ⟨m, ws', n', post', ws, post, hlk, hn'⟩ := hclosed n hn
    simp only [render, hlk]
    split
    · rfl
    · rename_i h1
      split
      · rfl
      · -- the body of `n` in the copied context: `macro`, then the wrapped `call`
        rw [bodyLoop]
        simp only [render]
        -- the call, in any context of the same copy depth whose macro table binds `m` to the body
        have hcall : ∀ (c' : Cx) (s' : St), c'.copyDepth = c.copyDepth + 1 →
            lookup s'.macros m = some (nest ws' (.render n') :: post') →
            (render E c' s' (.call m)).out = .err .contextDepth := by
          intro c' s' hc' hm
          simp only [render, hm]
          split
          · rfl
          · rename_i h2
            have hr := nest_cut E (.render n') (fun c'' => c''.copyDepth = c.copyDepth + 2)
              (fun _ _ h => h) (fun _ h => h)
              (fun c'' s'' hc'' => ih (E.depth + 1 - c''.copyDepth) (by omega) c'' s'' n' hn' rfl) ws'
              (c'.copied true true c'.tname kCall) ⟨[], []⟩ (by simp only [Cx.copied]; omega)
            rw [renderList_head_err hr]
            exact hr
        have hcut := nest_cutQ E (.call m) (fun c' => c'.copyDepth = c.copyDepth + 1)
          (fun s' => lookup s'.macros m = some (nest ws' (.render n') :: post'))
          (fun _ _ h => h) (fun _ h => h) hcall ws
        have hq : lookup ({ macros := (m, nest ws' (.render n') :: post') :: ([] : Macros), stacks := [] } : St).macros m =
            some (nest ws' (.render n') :: post') := by simp [lookup]
        have h3 := hcut { c.copied true false n kPartial with scope := 5 }
          { macros := (m, nest ws' (.render n') :: post') :: [], stacks := [] } rfl hq
        rw [bodyLoop_head_strict hl h3]
        exact h3

/-- **block recursion** (a `block` rendered directly, i.e. with no block stack): each member's body begins (at any
block depth) with a `block` whose body begins (at any block depth) with an `include` of a member.  Three scope
pushes per cycle.  STRICT mode, `include` and `block` not disabled, no block stacks: ContextDepthError. -/
theorem block_family_cut (E : Env) (hl : E.lax = false) (R : String → Prop)
    (hclosed : ∀ n, R n → ∃ ws0 bn ws n' post post0,
      lookup E.templates n = some (nest ws0 (.block bn (nest ws (.include n') :: post)) :: post0) ∧ R n') :
    ∀ k c s n, R n → c.noInclude = false → c.noBlock = false → s.stacks = [] → E.depth + 1 - c.scope = k →
      (render E c s (.include n)).out = .err .contextDepth := by
  intro k
  induction k using Nat.strongRecOn with
  | ind k ih =>
    intro c s n hn hni hnb hst hk
    obtain ⟨ws0, bn, ws, n', post, post0, hlk, hn'⟩ := hclosed n hn
    simp only [render, hlk]
    rw [if_neg (by rw [hni]; simp)]
    split
    · rfl
    · split
      · rfl
      · rename_i h1 h2
        let P : Cx → Prop := fun c' => c'.scope ≥ c.scope + 2 ∧ c'.noInclude = false ∧ c'.noBlock = false
        have hP1 : ∀ (c' : Cx) (k' : BKind), P c' → P { c' with frames := c'.frames + k'.frames, blocks := c'.blocks + 1 } :=
          fun _ _ h => h
        have hP2 : ∀ c', P c' → P { c' with scope := c'.scope + 1, frames := c'.frames + kBlock, blocks := c'.blocks + 1 } :=
          fun _ h => ⟨by have := h.1; simp only; omega, h.2.1, h.2.2⟩
        have hinc : ∀ c' s', P c' → s'.stacks = [] → (render E c' s' (.include n')).out = .err .contextDepth :=
          fun c' s' hc' hs' => ih (E.depth + 1 - c'.scope) (by have := hc'.1; omega) c' s' n' hn' hc'.2.1 hc'.2.2 hs' rfl
        have hblock : ∀ c' s', P c' → s'.stacks = [] →
            (render E c' s' (.block bn (nest ws (.include n') :: post))).out = .err .contextDepth := by
          intro c' s' hc' hs'
          simp only [render]
          rw [if_neg (by rw [hc'.2.2]; simp)]
          simp only [hs', lookup, Option.getD]
          split
          · rfl
          · have hi := nest_cutQ E (.include n') P (fun s'' => s''.stacks = []) hP1 hP2 hinc ws
              { c' with scope := c'.scope + 1, frames := c'.frames + kCall, path := c'.path + 1 } s'
              ⟨by have := hc'.1; simp only; omega, hc'.2.1, hc'.2.2⟩ hs'
            rw [renderList_head_err hi]
            exact hi
        have hcut := nest_cutQ E _ P (fun s'' => s''.stacks = []) hP1 hP2 hblock ws0
          { c with scope := c.scope + 2, tname := n, frames := c.frames + kPartial, path := c.path + 1 } s
          ⟨Nat.le_refl _, hni, hnb⟩ hst
        rw [bodyLoop_head_strict hl hcut]
        exact hcut


/-! ### the self-rendering partial with fan-out `f`: `a` = `probe; render a; … (f times)` -/

def fanBodyN (f : Nat) : List Node := .probe 1 :: List.replicate f (.render "a")
def fanEnvN (lax : Bool) (D f : Nat) : Env := { lax := lax, depth := D, templates := [("a", fanBodyN f)] }

/-- `1 + f + f² + … + f^(k-1)` -/
def geom (f : Nat) : Nat → Nat
  | 0 => 0
  | k + 1 => 1 + f * geom f k

theorem geom_closed (f k : Nat) : (f - 1) * geom f k + 1 = f ^ k ∨ f = 0 := by
  cases f with
  | zero => exact Or.inr rfl
  | succ g =>
    left
    induction k with
    | zero => simp [geom]
    | succ k ih =>
      simp only [geom, Nat.add_sub_cancel] at *
      rw [Nat.pow_succ, ← ih]
      have e1 : g * (1 + (g + 1) * geom (g + 1) k) = g + g * geom (g + 1) k * (g + 1) := by
        rw [Nat.mul_add, Nat.mul_one, Nat.mul_comm (g + 1) (geom (g + 1) k), ← Nat.mul_assoc]
      have e2 : (g * geom (g + 1) k + 1) * (g + 1) = g * geom (g + 1) k * (g + 1) + (g + 1) := by
        rw [Nat.add_mul, Nat.one_mul]
      rw [e1, e2]; omega

theorem fanN_lookup (lax : Bool) (D f : Nat) : lookup (fanEnvN lax D f).templates "a" = some (fanBodyN f) := by
  simp [fanEnvN, lookup]

/-- `m` consecutive `render a` nodes in the loop of `render_with_context`, LAX mode: none of them stops the loop -/
theorem fanN_loop_lax (D f : Nat) (c : Cx) (N : Nat)
    (h : ∀ s', ((render (fanEnvN true D f) c s' (.render "a")).out = .ok ∨
                (render (fanEnvN true D f) c s' (.render "a")).out = .err .contextDepth) ∧
               (render (fanEnvN true D f) c s' (.render "a")).evs.length = N) :
    ∀ m s, (bodyLoop (fanEnvN true D f) c s (List.replicate m (.render "a"))).out = .ok ∧
           (bodyLoop (fanEnvN true D f) c s (List.replicate m (.render "a"))).evs.length = m * N := by
  intro m
  induction m with
  | zero => intro s; simp [bodyLoop]
  | succ m ih =>
    intro s
    obtain ⟨ho, hn⟩ := h s
    simp only [List.replicate_succ]
    rw [bodyLoop]
    have hl : (fanEnvN true D f).lax = true := rfl
    have hne : ¬ (Err.contextDepth = Err.assertion) := by decide
    rcases ho with ho | ho
    · simp only [ho]
      exact ⟨(ih _).1, by simp only [List.length_append, hn, (ih _).2]; rw [Nat.succ_mul]; omega⟩
    · simp only [ho, hl, hne, if_true, if_false]
      exact ⟨(ih _).1, by simp only [List.length_append, hn, (ih _).2]; rw [Nat.succ_mul]; omega⟩

theorem fanN_body_lax (D f : Nat) (c : Cx) (s : St) (N : Nat)
    (h : ∀ s', ((render (fanEnvN true D f) c s' (.render "a")).out = .ok ∨
                (render (fanEnvN true D f) c s' (.render "a")).out = .err .contextDepth) ∧
               (render (fanEnvN true D f) c s' (.render "a")).evs.length = N) :
    (bodyLoop (fanEnvN true D f) c s (fanBodyN f)).out = .ok ∧
    (bodyLoop (fanEnvN true D f) c s (fanBodyN f)).evs.length = 1 + f * N := by
  unfold fanBodyN
  rw [bodyLoop]
  simp only [render]
  obtain ⟨a, b⟩ := fanN_loop_lax D f c N h f s
  exact ⟨a, by simp only [List.length_append, List.length_singleton, b]⟩

/-- LAX mode: `{% render 'a' %}` at copy depth `D + 1 - k` executes `1 + f + … + f^(k-1)` probes. -/
theorem fanN_render_lax (D f : Nat) (h4 : 4 ≤ D) :
    ∀ k c s, c.copyDepth + k = D + 1 →
      ((render (fanEnvN true D f) c s (.render "a")).out = .ok ∨
       (render (fanEnvN true D f) c s (.render "a")).out = .err .contextDepth) ∧
      (render (fanEnvN true D f) c s (.render "a")).evs.length = geom f k := by
  intro k
  induction k with
  | zero =>
    intro c s hk
    have hd : (fanEnvN true D f).depth = D := rfl
    have : c.copyDepth > (fanEnvN true D f).depth := by rw [hd]; omega
    simp only [render, fanN_lookup, this, dite_true]
    exact ⟨Or.inr trivial, rfl⟩
  | succ k ih =>
    intro c s hk
    have hd : (fanEnvN true D f).depth = D := rfl
    have h1 : ¬ c.copyDepth > (fanEnvN true D f).depth := by rw [hd]; omega
    have h2 : ¬ 4 > (fanEnvN true D f).depth := by rw [hd]; omega
    simp only [render, fanN_lookup, h1, h2, dite_false, if_false]
    have hb := fanN_body_lax D f { c.copied true false "a" kPartial with scope := 5 } ⟨[], []⟩ (geom f k)
      (fun s' => ih _ s' (by simp only [Cx.copied]; omega))
    exact ⟨Or.inl hb.1, by rw [hb.2]; rfl⟩

theorem fanN_template_lax (D f : Nat) (h4 : 4 ≤ D) :
    (renderTemplate (fanEnvN true D f) "a").out = .ok ∧
    (renderTemplate (fanEnvN true D f) "a").evs.length = geom f (D + 2) := by
  have hd : (fanEnvN true D f).depth = D := rfl
  have h2 : ¬ 4 > (fanEnvN true D f).depth := by rw [hd]; omega
  simp only [renderTemplate, fanN_lookup, h2, if_false]
  have hb := fanN_body_lax D f { Cx.root "a" with scope := 5 } ⟨[], []⟩ (geom f (D + 1))
    (fun s' => fanN_render_lax D f h4 (D + 1) _ s' (by simp [Cx.root]))
  exact ⟨hb.1, by rw [hb.2]; rfl⟩


end LiquidVerif.Recur
