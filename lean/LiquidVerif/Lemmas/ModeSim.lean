import LiquidVerif.Lemmas.Mode
/-! Helper lemmas for C03, pass 4: a warn-mode run and a lax-mode run are the same computation up to the emitted warnings
(`silent` erases the warnings of a log). -/
namespace LiquidVerif.Mode
variable {σ : Type}

/-! ### Pass 4: warn mode and lax mode compute the same thing; only the warnings differ -/

def Log.silent (l : Log) : Log := { l with warnings := [] }
def PS.silent (p : PS) : PS := { p with log := p.log.silent }
def R.silent {α} (r : R α) : R α := { r with ps := r.ps.silent }

@[simp] theorem PS.silent_leak (p : PS) : p.silent.leak = p.leak := rfl
@[simp] theorem PS.silent_log (p : PS) : p.silent.log = p.log.silent := rfl
@[simp] theorem Log.silent_suppressed (l : Log) : l.silent.suppressed = l.suppressed := rfl
@[simp] theorem Log.silent_warnings (l : Log) : l.silent.warnings = [] := rfl

theorem error_sim (c : Cfg σ) (log : Log) (e : Err) :
    (c.withMode .lax).error log.silent e = ((c.withMode .warn).error log e).map Log.silent := by
  simp [Cfg.error, Except.map, Log.silent]

theorem error_sim_ok (c : Cfg σ) (log : Log) (e : Err) :
    ∃ l, (c.withMode .warn).error log e = .ok l ∧ (c.withMode .lax).error log.silent e = .ok l.silent := by
  simp [Cfg.error, Log.silent]

theorem error_warn' (c : Cfg σ) (log : Log) (e : Err) : (c.withMode .warn).error log e =
    .ok { suppressed := log.suppressed ++ [e], warnings := log.warnings ++ [lookupWarning c.warnTable e] } := by
  simp [Cfg.error]

theorem error_lax' (c : Cfg σ) (log : Log) (e : Err) : (c.withMode .lax).error log e =
    .ok { suppressed := log.suppressed ++ [e], warnings := log.warnings } := by
  simp [Cfg.error]

theorem PBeh.parse_lax_warn (b : PBeh) : b.parse .lax = b.parse .warn := by
  cases b <;> simp [PBeh.parse]

theorem intoInner_sim (c : Cfg σ) (eat : Bool) (ts : List (Tok σ)) :
    intoInner (c.withMode .lax) eat ts = intoInner (c.withMode .warn) eat ts := by
  unfold intoInner
  split
  · simp only [withMode_mode, PBeh.parse_lax_warn]
  · rfl

def PBSim (pbW pbL : ParseBlockFn σ) : Prop := ∀ ends ts ps, pbL ends ts ps.silent = (pbW ends ts ps).silent
def GNSim (gnW gnL : GetNodeFn σ) : Prop :=
  ∀ ts ps, gnL ts ps.silent = (gnW ts ps).map (fun x => (x.1, x.2.1, x.2.2.silent))

theorem getNode_sim (c : Cfg σ) (k : TagKind) (ts : List (Tok σ)) (r : R (Node σ)) :
    getNode (c.withMode .lax) k ts r.silent = (getNode (c.withMode .warn) k ts r).map (fun x => (x.1, x.2.1, x.2.2.silent)) := by
  unfold getNode
  cases hr : r.res with
  | ok n => simp [R.silent, hr, Except.map]
  | error e =>
    obtain ⟨l, h1, h2⟩ := error_sim_ok c r.ps.log e
    simp [R.silent, hr, Except.map, h1, h2, PS.silent]

theorem parseBlockTag_sim (c : Cfg σ) {pbW pbL : ParseBlockFn σ} (hpb : PBSim pbW pbL) (endName hasElse mk)
    (ts : List (Tok σ)) (ps : PS) :
    parseBlockTag (c.withMode .lax) pbL endName hasElse mk ts ps.silent =
      (parseBlockTag (c.withMode .warn) pbW endName hasElse mk ts ps).silent := by
  unfold parseBlockTag PBSim at *
  rw [intoInner_sim]
  repeat' split
  all_goals grind [R.silent]

def ElsifOut.silent : ElsifOut σ → ElsifOut σ
  | .alts as a ps => .alts as a ps.silent
  | .illegal a ps => .illegal a ps.silent
  | .raised e a ps => .raised e a ps.silent

theorem elsifLoop_sim (c : Cfg σ) {pbW pbL : ParseBlockFn σ} (hpb : PBSim pbW pbL) (ends : List String) :
    ∀ (ts : List (Tok σ)) (skip : Nat) (ps : PS),
      elsifLoop (c.withMode .lax) pbL ends skip ts ps.silent = (elsifLoop (c.withMode .warn) pbW ends skip ts ps).silent := by
  intro ts
  induction ts with
  | nil => intro skip ps; simp [elsifLoop, ElsifOut.silent]
  | cons t rest ih =>
    intro skip ps
    cases skip with
    | succ k =>
      simp only [elsifLoop, ih k ps]
      cases elsifLoop (c.withMode .warn) pbW ends k rest ps <;> simp [ElsifOut.silent]
    | zero =>
      simp only [elsifLoop, intoInner_sim, withMode_syntaxClasses, error_warn', error_lax']
      unfold PBSim at hpb
      repeat' split
      all_goals grind [R.silent, ElsifOut.silent, PS.silent, Log.silent]

theorem parseCond_sim (c : Cfg σ) {pbW pbL : ParseBlockFn σ} (hpb : PBSim pbW pbL) (endName negate)
    (ts : List (Tok σ)) (ps : PS) :
    parseCond (c.withMode .lax) pbL endName negate ts ps.silent =
      (parseCond (c.withMode .warn) pbW endName negate ts ps).silent := by
  have hel := elsifLoop_sim c hpb [endName, "elsif", "else"]
  unfold parseCond PBSim at *
  rw [intoInner_sim]
  dsimp only
  repeat' split
  all_goals grind [R.silent, ElsifOut.silent]

theorem parsePlainBlock_sim {pbW pbL : ParseBlockFn σ} (hpb : PBSim pbW pbL) (endName) (ts : List (Tok σ)) (ps : PS) :
    parsePlainBlock pbL endName ts ps.silent = (parsePlainBlock pbW endName ts ps).silent := by
  unfold parsePlainBlock PBSim at *
  repeat' split
  all_goals grind [R.silent]

theorem whenLoop_sim (c : Cfg σ) {pbW pbL : ParseBlockFn σ} (hpb : PBSim pbW pbL) (endName : String) :
    ∀ (ts : List (Tok σ)) (skip : Nat) (ps : PS),
      whenLoop (c.withMode .lax) pbL endName skip ts ps.silent = (whenLoop (c.withMode .warn) pbW endName skip ts ps).silent := by
  intro ts
  induction ts with
  | nil => intro skip ps; simp [whenLoop, R.silent]
  | cons t rest ih =>
    intro skip ps
    cases skip with
    | succ k =>
      simp only [whenLoop, ih k ps]
      cases whenLoop (c.withMode .warn) pbW endName k rest ps
      simp [R.silent]
    | zero =>
      simp only [whenLoop, intoInner_sim]
      unfold PBSim at hpb
      repeat' split
      all_goals grind [R.silent, PS.silent]

theorem parseCase_sim (c : Cfg σ) {pbW pbL : ParseBlockFn σ} (hpb : PBSim pbW pbL) (endName)
    (ts : List (Tok σ)) (ps : PS) :
    parseCase (c.withMode .lax) pbL endName ts ps.silent = (parseCase (c.withMode .warn) pbW endName ts ps).silent := by
  have hw := whenLoop_sim c hpb endName
  unfold parseCase
  rw [intoInner_sim]
  dsimp only
  repeat' split
  all_goals grind [R.silent]

theorem parseLeaf_sim (c : Cfg σ) (ts : List (Tok σ)) (ps : PS) :
    parseContent ts ps.silent = (parseContent ts ps).silent ∧
    parseIllegal ts ps.silent = (parseIllegal ts ps).silent ∧
    parseOutput (c.withMode .lax) ts ps.silent = (parseOutput (c.withMode .warn) ts ps).silent ∧
    (∀ z mk, parseEvalTag (c.withMode .lax) z mk ts ps.silent = (parseEvalTag (c.withMode .warn) z mk ts ps).silent) := by
  refine ⟨?_, ?_, ?_, ?_⟩
  · unfold parseContent; split <;> rfl
  · unfold parseIllegal; split <;> rfl
  · unfold parseOutput; rw [intoInner_sim]; split <;> rfl
  · intro z mk; unfold parseEvalTag; rw [intoInner_sim]; repeat' split
    all_goals rfl

theorem dispatch_sim (c : Cfg σ) {pbW pbL : ParseBlockFn σ} (hpb : PBSim pbW pbL) :
    GNSim (dispatch (c.withMode .warn) pbW) (dispatch (c.withMode .lax) pbL) := by
  intro ts ps
  obtain ⟨h1, h2, h3, h4⟩ := parseLeaf_sim c ts ps
  unfold dispatch
  split
  · rw [h3]; exact getNode_sim c _ _ _
  · simp only [withMode_tags]
    split
    · rw [h4]; exact getNode_sim c _ _ _
    · exact getNode_sim c _ _ ⟨.ok _, 0, ps⟩
    · rw [h4]; exact getNode_sim c _ _ _
    · rw [h4]; exact getNode_sim c _ _ _
    · rw [parseBlockTag_sim c hpb]; exact getNode_sim c _ _ _
    · rw [parseBlockTag_sim c hpb]; exact getNode_sim c _ _ _
    · rw [parseCond_sim c hpb]; exact getNode_sim c _ _ _
    · rw [parseCase_sim c hpb]; exact getNode_sim c _ _ _
    · rw [parseBlockTag_sim c hpb]; exact getNode_sim c _ _ _
    · rw [parsePlainBlock_sim hpb]; exact getNode_sim c _ _ _
    · rw [h2]; exact getNode_sim c _ _ _
  · rw [h1]; exact getNode_sim c _ _ _

theorem loopFrom_sim (c : Cfg σ) {gnW gnL : GetNodeFn σ} (hgn : GNSim gnW gnL) (ends : Option (List String)) :
    ∀ (ts : List (Tok σ)) (skip : Nat) (ps : PS),
      loopFrom (c.withMode .lax) gnL ends skip ts ps.silent =
        (loopFrom (c.withMode .warn) gnW ends skip ts ps).map (fun x => (x.1, x.2.1, x.2.2.silent)) := by
  intro ts
  induction ts with
  | nil => intro skip ps; simp [loopFrom, Except.map]
  | cons t rest ih =>
    intro skip ps
    cases skip with
    | succ k =>
      simp only [loopFrom, ih k ps]
      cases loopFrom (c.withMode .warn) gnW ends k rest ps <;> simp [Except.map]
    | zero =>
      simp only [loopFrom, error_warn', error_lax']
      unfold GNSim at hgn
      rw [hgn]
      repeat' split
      all_goals grind [Except.map, PS.silent, Log.silent]

theorem parseBlock_sim (c : Cfg σ) : ∀ b, PBSim (parseBlock (c.withMode .warn) b) (parseBlock (c.withMode .lax) b : ParseBlockFn σ) := by
  intro b
  induction b with
  | zero => intro ends ts ps; simp [parseBlock, R.silent, PS.silent]
  | succ b ih =>
    intro ends ts ps
    have hl := loopFrom_sim c (dispatch_sim c ih) (some ends) ts 0 ps
    simp only [parseBlock, PS.silent_leak]
    rw [hl]
    repeat' split
    all_goals grind [Except.map, R.silent, PS.silent]

theorem parseTemplate_sim (c : Cfg σ) (ts : List (Tok σ)) (log : Log) :
    parseTemplate (c.withMode .lax) ts log.silent =
      (parseTemplate (c.withMode .warn) ts log).map (fun x => (x.1, x.2.silent)) := by
  have hl := loopFrom_sim c (dispatch_sim c (parseBlock_sim c c.nestLimit)) none ts 0 ⟨log, 0⟩
  unfold parseTemplate
  simp only [withMode_nestLimit]
  have : (⟨log.silent, 0⟩ : PS) = PS.silent ⟨log, 0⟩ := rfl
  rw [this, hl]
  repeat' split
  all_goals grind [Except.map, PS.silent]

/-! rendering -/

def RS.silent (r : RS σ) : RS σ := { r with log := r.log.silent }
@[simp] theorem RS.silent_st (r : RS σ) : r.silent.st = r.st := rfl
@[simp] theorem RS.silent_out (r : RS σ) : r.silent.out = r.out := rfl
@[simp] theorem RS.silent_log (r : RS σ) : r.silent.log = r.log.silent := rfl

def sil {α} (x : RS σ × α) : RS σ × α := (x.1.silent, x.2)

def RTSim (rtW rtL : RenderTemplateFn σ) : Prop := ∀ ns p b rs, rtL ns p b rs.silent = sil (rtW ns p b rs)

theorem evalExpr_sim (e : Expr σ) (rs : RS σ) : evalExpr e rs.silent = sil (evalExpr e rs) := rfl

theorem iterate_sim (fW fL : RS σ → RS σ × Sig) (hf : ∀ rs, fL rs.silent = sil (fW rs)) :
    ∀ n rs, iterate fL n rs.silent = sil (iterate fW n rs) := by
  intro n
  induction n with
  | zero => intro rs; simp [iterate, sil]
  | succ n ih =>
    intro rs
    simp only [iterate, hf]
    cases hx : fW rs with
    | mk rs' s => cases s <;> simp [sil, ih]

theorem repeatN_sim (fW fL : RS σ → RS σ × Sig) (hf : ∀ rs, fL rs.silent = sil (fW rs)) :
    ∀ n rs, repeatN fL n rs.silent = sil (repeatN fW n rs) := by
  intro n
  induction n with
  | zero => intro rs; simp [repeatN, sil]
  | succ n ih =>
    intro rs
    simp only [repeatN, hf]
    cases hx : fW rs with
    | mk rs' s => cases s <;> simp [sil, ih]

theorem renderNode_sim (c : Cfg σ) {rtW rtL : RenderTemplateFn σ} (hrt : RTSim rtW rtL) :
    (∀ n : Node σ, ∀ rs, renderNode (c.withMode .lax) rtL n rs.silent = sil (renderNode (c.withMode .warn) rtW n rs)) ∧
    (∀ ns : List (Node σ),
      (∀ rs, renderList (c.withMode .lax) rtL ns rs.silent = sil (renderList (c.withMode .warn) rtW ns rs)) ∧
      (∀ rs, renderAlts (c.withMode .lax) rtL ns rs.silent = sil (renderAlts (c.withMode .warn) rtW ns rs)) ∧
      (∀ d rs, renderCase (c.withMode .lax) rtL ns d rs.silent = sil (renderCase (c.withMode .warn) rtW ns d rs))) := by
  have hpt := fun ts log => parseTemplate_sim c ts log
  have hev := @evalExpr_sim σ
  unfold RTSim at hrt
  apply node_ind
  case text => intro s rs; simp [renderNode, sil, RS.silent]
  case eval =>
    intro e rs; simp only [renderNode, hev]
    cases hx : evalExpr e rs with
    | mk rs' r => cases r <;> simp [sil, RS.silent]
  case illegal => intro rs; simp [renderNode, sil]
  case interrupt => intro b rs; simp [renderNode, sil]
  case partial_ =>
    intro iso e rs; simp only [renderNode, withMode_loader, hev]
    cases hx : evalExpr e rs with
    | mk rs' r =>
      cases r with
      | error err => simp [sil]
      | ok v =>
        simp only [sil, RS.silent_log, hpt]
        cases c.loader v.str with
        | none => simp
        | some src =>
          simp only
          cases hp : parseTemplate (c.withMode .warn) src rs'.log with
          | error err => simp [Except.map]
          | ok r =>
            obtain ⟨nodes, log⟩ := r
            have := hrt nodes true iso { rs' with log := log }
            simp [Except.map, sil, RS.silent] at this ⊢
            exact this
  case extends_ =>
    intro e rs; simp only [renderNode, withMode_loader, hev]
    cases hx : evalExpr e rs with
    | mk rs' r =>
      cases r with
      | error err => simp [sil]
      | ok v =>
        simp only [sil, RS.silent_log, hpt]
        cases c.loader v.str with
        | none => simp
        | some src =>
          simp only
          cases hp : parseTemplate (c.withMode .warn) src rs'.log with
          | error err => simp [Except.map]
          | ok r =>
            obtain ⟨nodes, log⟩ := r
            have := hrt nodes false false { rs' with log := log }
            simp [Except.map, sil, RS.silent] at this ⊢
            rw [this]
            cases hy : rtW nodes false false { st := rs'.st, out := rs'.out, log := log } with
            | mk rs'' s => cases s <;> simp
  case cond =>
    intro neg cnd cons alts dflt h1 h2 h3 rs; simp only [renderNode, hev]
    cases hx : evalExpr cnd rs with
    | mk rs' r =>
      cases r with
      | error err => simp [sil]
      | ok v =>
        simp only [sil]
        split
        · exact h1.1 rs'
        · rw [h2.2.1 rs']
          cases hy : renderAlts (c.withMode .warn) rtW alts rs' with
          | mk rs'' o =>
            cases o with
            | some s => simp [sil]
            | none => simp only [sil]; exact h3.1 rs''
  case condBlock =>
    intro e body h1 rs; simp only [renderNode, hev]
    cases hx : evalExpr e rs with
    | mk rs' r =>
      cases r with
      | error err => simp [sil]
      | ok v =>
        simp only [sil]
        split
        · exact h1.1 rs'
        · rfl
  case loop =>
    intro e body dflt h1 h2 rs; simp only [renderNode, hev]
    cases hx : evalExpr e rs with
    | mk rs' r =>
      cases r with
      | error err => simp [sil]
      | ok v =>
        simp only [sil]
        split
        · exact h2.1 rs'
        · exact iterate_sim _ _ h1.1 v.num rs'
  case capture =>
    intro e body h1 rs; simp only [renderNode]
    have := h1.1 { rs with out := "" }
    simp only [RS.silent] at this ⊢
    rw [this]
    cases hy : renderList (c.withMode .warn) rtW body { st := rs.st, out := "", log := rs.log } with
    | mk rs'' s => cases s <;> simp [sil, RS.silent]
  case case_ => intro e blocks h1 rs; simp only [renderNode]; exact h1.2.2 true rs
  case whenBlock =>
    intro e body h1 rs; simp only [renderNode, hev]
    cases hx : evalExpr e rs with
    | mk rs' r =>
      cases r with
      | error err => simp [sil]
      | ok v => simp only [sil]; exact repeatN_sim _ _ h1.1 v.num rs'
  case elseBlock => intro body h1 rs; simp only [renderNode]; exact h1.1 rs
  case scoped_ =>
    intro e body h1 rs; simp only [renderNode, hev]
    cases hx : evalExpr e rs with
    | mk rs' r =>
      cases r with
      | error err => simp [sil]
      | ok v => simp only [sil]; exact h1.1 rs'
  case block => intro body h1 rs; simp only [renderNode]; exact h1.1 rs
  case nil => exact ⟨fun rs => by simp [renderList, sil], fun rs => by simp [renderAlts, sil], fun d rs => by simp [renderCase, sil]⟩
  case cons =>
    intro n ns hn hns
    refine ⟨?_, ?_, ?_⟩
    · intro rs; simp only [renderList, hn]
      cases hy : renderNode (c.withMode .warn) rtW n rs with
      | mk rs' s => cases s <;> simp [sil, hns.1]
    · intro rs
      cases n <;> simp only [renderAlts] <;> (try exact hns.2.1 rs)
      rename_i e body
      have hb := hn
      simp only [renderNode] at hb
      simp only [hev]
      cases hx : evalExpr e rs with
      | mk rs' r =>
        cases r with
        | error err => simp [sil]
        | ok v =>
          have hb' := hb rs
          simp only [hev, hx, sil] at hb' ⊢
          split
          · rename_i hv
            simp only [hv, if_true] at hb'
            rw [hb']
          · exact hns.2.1 rs'

    · intro d rs
      cases n <;> simp only [renderCase] <;> (try exact hns.2.2 d rs)
      · rename_i e body
        have hb := hn
        simp only [renderNode] at hb
        simp only [hev]
        cases hx : evalExpr e rs with
        | mk rs' r =>
          cases r with
          | error err => simp [sil]
          | ok v =>
            have hb' := hb rs
            simp only [hev, hx, sil] at hb' ⊢
            split
            · rw [hb']
              cases hy : repeatN (renderList (c.withMode .warn) rtW body) v.num rs' with
              | mk rs'' s => cases s <;> simp [hns.2.2, sil]
            · exact hns.2.2 d rs'
      · rename_i body
        have hb := hn
        simp only [renderNode] at hb
        split
        · rw [hb rs]
          cases hy : renderList (c.withMode .warn) rtW body rs with
          | mk rs' s => cases s <;> simp [hns.2.2, sil]
        · exact hns.2.2 d rs

theorem templateLoop_sim (c : Cfg σ) {rnW rnL : Node σ → RS σ → RS σ × Sig}
    (hrn : ∀ n rs, rnL n rs.silent = sil (rnW n rs)) (p b : Bool) :
    ∀ (ns : List (Node σ)) rs,
      templateLoop (c.withMode .lax) rnL p b ns rs.silent = sil (templateLoop (c.withMode .warn) rnW p b ns rs) := by
  intro ns
  induction ns with
  | nil => intro rs; simp [templateLoop, sil]
  | cons n ns ih =>
    intro rs
    simp only [templateLoop, hrn, error_warn', error_lax']
    cases hx : rnW n rs with
    | mk rs' s =>
      cases s with
      | done => exact ih rs'
      | stop => rfl
      | err e => exact ih { rs' with log := ⟨rs'.log.suppressed ++ [e], rs'.log.warnings ++ [lookupWarning c.warnTable e]⟩ }
      | brk =>
        simp only [sil]
        split
        · exact ih { rs' with log := ⟨rs'.log.suppressed ++ [synErr], rs'.log.warnings ++ [lookupWarning c.warnTable synErr]⟩ }
        · rfl
      | cont =>
        simp only [sil]
        split
        · exact ih { rs' with log := ⟨rs'.log.suppressed ++ [synErr], rs'.log.warnings ++ [lookupWarning c.warnTable synErr]⟩ }
        · rfl

theorem renderTemplate_sim (c : Cfg σ) :
    ∀ d, RTSim (renderTemplate (c.withMode .warn) d) (renderTemplate (c.withMode .lax) d : RenderTemplateFn σ) := by
  intro d
  induction d with
  | zero => intro ns p b rs; simp [renderTemplate, sil]
  | succ d ih =>
    intro ns p b rs
    simp only [renderTemplate]
    exact templateLoop_sim c (renderNode_sim c ih).1 p b ns rs

def Outcome.silent : Outcome → Outcome
  | .ok out log => .ok out log.silent
  | .parseError e => .parseError e
  | .renderError e log => .renderError e log.silent
  | .interrupt => .interrupt

theorem render_sim (c : Cfg σ) (nodes : List (Node σ)) (st : σ) (log : Log) :
    render (c.withMode .lax) nodes st log.silent = sil (render (c.withMode .warn) nodes st log) := by
  unfold render
  exact renderTemplate_sim c _ nodes false false ⟨st, "", log⟩


theorem run_sim (c : Cfg σ) (src : List (Tok σ)) (st : σ) :
    run (c.withMode .lax) src st = (run (c.withMode .warn) src st).silent := by
  have hp := parseTemplate_sim c src {}
  have h0 : ({} : Log).silent = {} := rfl
  rw [h0] at hp
  unfold run
  rw [hp]
  cases hx : parseTemplate (c.withMode .warn) src {} with
  | error e => simp [Except.map, Outcome.silent]
  | ok r =>
    obtain ⟨nodes, log⟩ := r
    simp only [Except.map, render_sim]
    cases hy : render (c.withMode .warn) nodes st log with
    | mk rs s => cases s <;> simp [sil, Outcome.silent]

end LiquidVerif.Mode
