import Driver.Util
import LiquidVerif.Model.CondParse
import LiquidVerif.Model.CondSpec
open Lean LiquidVerif.Value LiquidVerif.Cond LiquidVerif.CondParse

namespace Driver.C12

def field (j : Json) (k : String) : Json := j.getObjValD k

def parseQ (j : Json) : Option Q := do
  match ← asArr? j with
  | [n, d] =>
    let n ← asInt? n
    let d ← asNat? d
    if d == 0 then none else pure ⟨n, d - 1⟩
  | _ => none

/-- `{"t": kind, "v": payload}` → `Val` -/
partial def parseVal (j : Json) : Option Val := do
  let t ← asStr? (field j "t")
  let v := field j "v"
  match t with
  | "nil" => pure .nil
  | "undef" => pure .undef
  | "empty" => pure .empty
  | "blank" => pure .blank
  | "bool" => pure (.bool (← asBool? v))
  | "int" => pure (.int (← asInt? v))
  | "float" =>
    match v with
    | .str "inf" => pure (.float .inf)
    | .str "-inf" => pure (.float .ninf)
    | .str "nan" => pure (.float .nan)
    | _ => pure (.float (.fin (← parseQ v)))
  | "dec" => pure (.dec (← parseQ v))
  | "str" => pure (.str (← asStr? v))
  | "markup" => pure (.markup (← asStr? v))
  | "list" => pure (.list (← mapM? parseVal (← asArr? v)))
  | "dict" =>
    let kvs ← mapM? (fun kv => do
      match ← asArr? kv with
      | [k, x] => pure ((← asStr? k), (← parseVal x))
      | _ => none) (← asArr? v)
    pure (.dict kvs)
  | "range" =>
    match ← asArr? v with
    | [a, b] => pure (.range (← asInt? a) (← asInt? b))
    | _ => none
  | _ => none

def parseCmp : String → Option Cmp
  | "==" => some .eq | "!=" => some .ne | "<>" => some .ne | "<" => some .lt | ">" => some .gt
  | "<=" => some .le | ">=" => some .ge | "contains" => some .contains | _ => none

def resJson : Res String → Json
  | .ok s => Json.mkObj [("out", jstr s)]
  | .typeError => Json.mkObj [("err", jstr "LiquidTypeError")]
  | .hostError => Json.mkObj [("err", jstr "InvalidOperation")]

/-- what the template of tag form `form` prints, given the condition's outcome -/
def formOut (form : String) (c : Res Bool) : Res String :=
  let pick (r : Res (Option Nat)) (hit : Nat) : Res String :=
    r.bind fun o => .ok (match o with | some i => if i == hit then "1" else "x" | none => "0")
  match form with
  | "if" => pick (ifSelect [c]) 0
  | "unless" =>   -- `{% unless c %}0{% else %}1{% endunless %}`: the printed digit is the condition's truth
    (unlessSelect [c]).bind fun o => .ok (match o with | some _ => "0" | none => "1")
  | "elsif" => pick (ifSelect [.ok false, c]) 1
  | "unless-elsif" => pick (unlessSelect [.ok true, c]) 1
  | "ternary" => (ternarySelect c true).bind fun o => .ok (match o with | some true => "1" | some false => "0" | none => "")
  | "ternary-noelse" => (ternarySelect c false).bind fun o => .ok (match o with | some true => "1" | some false => "0" | none => "")
  | _ => .ok "bad-form"

def condOne (form op : String) (a b : Val) (hs : String) : Json :=
  let show_ (r : Res String) : Json := match r with
    | .ok s => jstr s
    | .typeError => jstr "E:LiquidTypeError"
    | .hostError => jstr "E:InvalidOperation"
  if form == "case" then
    match caseRender a [.when [b], .else_] with
    | [n, m] => jstr (String.join (List.replicate n "1") ++ String.join (List.replicate m "0"))
    | _ => jstr "bad-case"
  else if op == "truthy" then show_ (formOut form (.ok (isTruthy a)))
  else match parseCmp op with
    | some c => show_ (formOut form (evalCmp hs c a b))
    | none => jstr "bad-op"

/-- `["c12cond", form, [op…], a, b, hostStr]` → what the template of that tag form prints for every operator;
    op `"truthy"` tests `a` alone; form `"case"` is `case a / when b` -/
def handleCond (args : List Json) : Json :=
  match args with
  | [form, ops, a, b, hs] =>
    match asStr? form, (asArr? ops).bind (mapM? asStr?), parseVal a, parseVal b, asStr? hs with
    | some form, some ops, some a, some b, some hs => jarr (ops.map fun op => condOne form op a b hs)
    | _, _, _, _, _ => jerr "bad-args"
  | _ => jerr "bad-args"

def parseTok (j : Json) : Option Tok :=
  match j with
  | .str "and" => some (.op .and) | .str "or" => some (.op .or) | .str "not" => some .not
  | .str "(" => some .lp | .str ")" => some .rp
  | .str "==" => some (.op .eq) | .str "!=" => some (.op .ne) | .str "<>" => some (.op .lg)
  | .str "<" => some (.op .lt) | .str ">" => some (.op .gt) | .str "<=" => some (.op .le)
  | .str ">=" => some (.op .ge) | .str "contains" => some (.op .contains)
  | .str "junk" => some .junk
  | j => (asNat? j).map Tok.atom

def cmpName : Cmp → String
  | .eq => "==" | .ne => "!=" | .lt => "<" | .gt => ">" | .le => "<=" | .ge => ">=" | .contains => "contains"

def treeJson : E → Json
  | .atom n => jnat n
  | .and l r => jarr [jstr "and", treeJson l, treeJson r]
  | .or l r => jarr [jstr "or", treeJson l, treeJson r]
  | .not e => jarr [jstr "not", treeJson e]
  | .cmp c l r => jarr [jstr (cmpName c), treeJson l, treeJson r]

def parseFlags (j : Json) : Option Flags := do
  match ← asArr? j with
  | [a, b] => pure ⟨← asBool? a, ← asBool? b⟩
  | _ => none

/-- `["c12parse", [allowNot, allowParens], [tok…]]` → tree | "LiquidSyntaxError" -/
def handleParse (args : List Json) : Json :=
  match args with
  | [fl, ts] =>
    match parseFlags fl, (asArr? ts).bind (mapM? parseTok) with
    | some fl, some ts =>
      match parse fl ts with
      | some e => Json.mkObj [("tree", treeJson e)]
      | none => Json.mkObj [("err", jstr "LiquidSyntaxError")]
    | _, _ => jerr "bad-args"
  | _ => jerr "bad-args"

def bitsOf (n k : Nat) : Nat → Val := fun i => .bool ((k >>> (n - 1 - i)) % 2 == 1)

def resChar : Res Bool → String
  | .ok true => "1" | .ok false => "0" | .typeError => "T" | .hostError => "H"

/-- `["c12table", flags, [tok…], n]` → truth table over the 2^n boolean assignments of operands 0..n-1
    (assignment k gives operand i bit (n-1-i) of k), or "LiquidSyntaxError" -/
def handleTable (args : List Json) : Json :=
  match args with
  | [fl, ts, n] =>
    match parseFlags fl, (asArr? ts).bind (mapM? parseTok), asNat? n with
    | some fl, some ts, some n =>
      match parse fl ts with
      | some e =>
        Json.mkObj [("out", jstr (String.join ((List.range (2 ^ n)).map fun k =>
          resChar (evalCond (bitsOf n k) (fun _ => "") e))))]
      | none => Json.mkObj [("err", jstr "LiquidSyntaxError")]
    | _, _, _ => jerr "bad-args"
  | _ => jerr "bad-args"

/-- `["c12eval", flags, [tok…], [val…], [hostStr…]]` → "1" | "0" | error class -/
def handleEval (args : List Json) : Json :=
  match args with
  | [fl, ts, vs, hs] =>
    match parseFlags fl, (asArr? ts).bind (mapM? parseTok), (asArr? vs).bind (mapM? parseVal),
          (asArr? hs).bind (mapM? asStr?) with
    | some fl, some ts, some vs, some hs =>
      match parse fl ts with
      | some e =>
        match evalCond (fun i => vs.getD i .nil) (fun i => hs.getD i "") e with
        | .ok b => Json.mkObj [("out", jstr (if b then "1" else "0"))]
        | .typeError => Json.mkObj [("err", jstr "LiquidTypeError")]
        | .hostError => Json.mkObj [("err", jstr "InvalidOperation")]
      | none => Json.mkObj [("err", jstr "LiquidSyntaxError")]
    | _, _, _, _ => jerr "bad-args"
  | _ => jerr "bad-args"

def parseBlock (j : Json) : Option CaseBlock :=
  match j with
  | .str "else" => some .else_
  | j => do pure (.when (← mapM? parseVal (← asArr? j)))

/-- `["c12case", subject, [block…]]`, block = "else" | [val…] → render count of every block -/
def handleCase (args : List Json) : Json :=
  match args with
  | [s, bs] =>
    match parseVal s, (asArr? bs).bind (mapM? parseBlock) with
    | some s, some bs => Json.mkObj [("counts", jarr ((caseRender s bs).map jnat))]
    | _, _ => jerr "bad-args"
  | _ => jerr "bad-args"

/-- `["c12space", lo, hi]` → code points in [lo, hi) for which `isSpaceChar` holds -/
def handleSpace (args : List Json) : Json :=
  match args with
  | [lo, hi] =>
    match asNat? lo, asNat? hi with
    | some lo, some hi =>
      jarr (((List.range (hi - lo)).map (· + lo)).filter (fun n => isSpaceChar (Char.ofNat n)) |>.map jnat)
    | _, _ => jerr "bad-args"
  | _ => jerr "bad-args"

/-- `["c12str", "lt"|"in", a, b]` → Python `a < b` / `a in b` on strings -/
def handleStr (args : List Json) : Json :=
  match args with
  | [.str "lt", .str a, .str b] => Json.bool (decide (a < b))
  | [.str "in", .str a, .str b] => Json.bool (isInfixB a.toList b.toList)
  | _ => jerr "bad-args"

/-- `["c12deep", a, b]` → what `_eq` computes, recursive Liquid equality, and the no-clash / NaN-free predicates -/
def handleDeep (args : List Json) : Json :=
  match args with
  | [a, b] =>
    match parseVal a, parseVal b with
    | some a, some b =>
      Json.mkObj [("eq", Json.bool (liquidEq a b)), ("eq_rev", Json.bool (liquidEq b a)),
                  ("deep", Json.bool (deepEq a b)), ("noclash", Json.bool (noClashItems a b)),
                  ("nanfree", Json.bool (nanFree a))]
    | _, _ => jerr "bad-args"
  | _ => jerr "bad-args"

def commands : List (String × (List Lean.Json → Lean.Json)) :=
  [("c12cond", handleCond), ("c12parse", handleParse), ("c12table", handleTable), ("c12eval", handleEval),
   ("c12case", handleCase), ("c12deep", handleDeep), ("c12space", handleSpace), ("c12str", handleStr)]

end Driver.C12
