import Driver.Util
import LiquidVerif.Model.Scope
open Lean LiquidVerif.Scope

/-! Line protocol for the scope model (C14 and C15 share it).

values:  `null` | `true` | `5` / `"5"` (int) | `{"s": str}` | `{"l": [v…]}` | `{"t": [v…]}` | `{"d": [[k, v]…]}` | `{"u": 0}`
seg:     `["n", str]` | `["i", int]` | `["p", seg, [seg…]]`
expr:    `["lit", v]` | `["path", seg, [seg…]]`
node:    `["text", s]` `["out", e]` `["assign", n, e]` `["capture", n, [node…]]` `["if", e, [..], [..]]`
         `["for", var, label, e, [..], [..]]` `["with", [[n, e]…], [..]]` `["incr", n]` `["decr", n]`
         `["include", name, null | [e, alias|null], [[n, e]…]]` `["render", name, null | [loop, e, alias|null], [[n, e]…]]`
         `["macro", name, [[p, e|null]…], [..]]` `["call", name, [e…], [[n, e]…]]`
         `["block", name, [..]]` `["extends", name]` `["tablerow", var, e, [..]]`
-/
namespace Driver.C14

partial def parseVal (j : Json) : Option Val :=
  match j with
  | .null => some .nil
  | .bool b => some (.bool b)
  | .num _ => (asInt? j).map .int
  | .str _ => (asInt? j).map .int
  | .obj _ =>
    match j.getObjVal? "s" with
    | .ok (.str s) => some (.str s)
    | _ =>
    match j.getObjVal? "l" with
    | .ok (.arr a) => (a.toList.mapM parseVal).map .list
    | _ =>
    match j.getObjVal? "t" with
    | .ok (.arr a) => (a.toList.mapM parseVal).map .tuple
    | _ =>
    match j.getObjVal? "d" with
    | .ok (.arr a) =>
      (a.toList.mapM fun (p : Json) =>
        match asArr? p with
        | some [Json.str k, v] => (parseVal v).map fun x => (k, x)
        | _ => none).map Val.dict
    | _ =>
    match j.getObjVal? "u" with
    | .ok _ => some .undef
    | _ => none
  | _ => none

def parseNS (j : Json) : Option NS :=
  match parseVal j with
  | some (.dict kvs) => some kvs
  | _ => none

mutual
partial def parseSeg (j : Json) : Option Seg := do
  match ← asArr? j with
  | [.str "n", s] => pure (.name (← asStr? s))
  | [.str "i", i] => pure (.idx (← asInt? i))
  | [.str "p", h, t] => pure (.sub (← parseSeg h) (← parseSegs t))
  | _ => none
partial def parseSegs (j : Json) : Option (List Seg) := do
  (← asArr? j).mapM parseSeg
end

def parseExpr (j : Json) : Option Expr := do
  match ← asArr? j with
  | [.str "lit", v] => pure (.lit (← parseVal v))
  | [.str "path", h, t] => pure (.path (← parseSeg h) (← parseSegs t))
  | _ => none

def optStr? (j : Json) : Option (Option String) :=
  match j with
  | .null => some none
  | .str s => some (some s)
  | _ => none

def parseKw (j : Json) : Option (List (String × Expr)) := do
  (← asArr? j).mapM fun p => do
    match ← asArr? p with
    | [k, e] => pure ((← asStr? k), (← parseExpr e))
    | _ => none

def parseParams (j : Json) : Option (List (String × Option Expr)) := do
  (← asArr? j).mapM fun p => do
    match ← asArr? p with
    | [k, .null] => pure ((← asStr? k), none)
    | [k, e] => pure ((← asStr? k), some (← parseExpr e))
    | _ => none

mutual
partial def parseNode (j : Json) : Option Node := do
  match ← asArr? j with
  | [.str "text", s] => pure (.text (← asStr? s))
  | [.str "out", e] => pure (.out (← parseExpr e))
  | [.str "assign", n, e] => pure (.assign (← asStr? n) (← parseExpr e))
  | [.str "capture", n, b] => pure (.capture (← asStr? n) (← parseNodes b))
  | [.str "if", e, b, l] => pure (.ifB (← parseExpr e) (← parseNodes b) (← parseNodes l))
  | [.str "for", v, lab, e, b, l] =>
    pure (.forB (← asStr? v) (← asStr? lab) (← parseExpr e) (← parseNodes b) (← parseNodes l))
  | [.str "with", a, b] => pure (.withB (← parseKw a) (← parseNodes b))
  | [.str "incr", n] => pure (.incr (← asStr? n))
  | [.str "decr", n] => pure (.decr (← asStr? n))
  | [.str "include", name, bind, a] =>
    let b ← (match bind with
      | .null => some none
      | _ => do
        match ← asArr? bind with
        | [e, al] => pure (some ((← parseExpr e), (← optStr? al)))
        | _ => none)
    pure (.include (← asStr? name) b (← parseKw a))
  | [.str "render", name, bind, a] =>
    let b ← (match bind with
      | .null => some none
      | _ => do
        match ← asArr? bind with
        | [lp, e, al] => pure (some ((← asBool? lp), (← parseExpr e), (← optStr? al)))
        | _ => none)
    pure (.render (← asStr? name) b (← parseKw a))
  | [.str "macro", name, ps, b] => pure (.macroDef (← asStr? name) (← parseParams ps) (← parseNodes b))
  | [.str "block", name, b] => pure (.block (← asStr? name) (← parseNodes b))
  | [.str "extends", name] => pure (.extends (← asStr? name))
  | [.str "tablerow", v, e, b] => pure (.tablerow (← asStr? v) (← parseExpr e) (← parseNodes b))
  | [.str "call", name, pos, kw] =>
    pure (.call (← asStr? name) (← (← asArr? pos).mapM parseExpr) (← parseKw kw))
  | _ => none
partial def parseNodes (j : Json) : Option (List Node) := do
  (← asArr? j).mapM parseNode
end

def parseTpls (j : Json) : Option (List (String × List Node)) := do
  (← asArr? j).mapM fun p => do
    match ← asArr? p with
    | [name, body] => pure ((← asStr? name), (← parseNodes body))
    | _ => none

def errName : Err → String
  | .contextDepth => "ContextDepthError"
  | .notFound => "TemplateNotFoundError"
  | .disabledTag => "DisabledTagError"
  | .undefined => "UndefinedError"
  | .inheritance => "TemplateInheritanceError"
  | .assertion => "AssertionError"
  | .sizeMismatch => "MODEL-ASSERTION-scope-size"

def getBool (j : Json) (k : String) : Bool := match j.getObjVal? k with | .ok (.bool b) => b | _ => false

/-- `["scope", {"depth": n, "strict": b, "sseq": b, "sfl": b}, [[name, nodes]…], [args, matter, tglobals, eglobals], nodes]`
    → `{"ok": text}` | `{"err": class}` -/
def handle (args : List Json) : Json :=
  match args with
  | [cfg, tpls, gl, main] =>
    let depth := match cfg.getObjVal? "depth" with | .ok d => (asNat? d).getD 30 | _ => 30
    let c : Cfg := { strictUndef := getBool cfg "strict", stringSeq := getBool cfg "sseq", stringFL := getBool cfg "sfl" }
    match parseTpls tpls, (asArr? gl).bind (mapM? parseNS), parseNodes main with
    | some tpls, some [a, m, t, e], some main =>
      match renderTemplate { cfg := c, depth := depth, templates := tpls } a m t e main with
      | .ok s => Json.mkObj [("ok", jstr s)]
      | .error x => Json.mkObj [("err", jstr (errName x))]
    | _, _, _ => jerr "bad-case"
  | _ => jerr "bad-args"

/-- `["scopes", cfg, templates, globals, [nodes…]]` → `[result…]`: several main templates over one environment -/
def handleMany (args : List Json) : Json :=
  match args with
  | [cfg, tpls, gl, mains] =>
    match asArr? mains with
    | some ms => jarr (ms.map fun m => handle [cfg, tpls, gl, m])
    | none => jerr "bad-args"
  | _ => jerr "bad-args"

def commands : List (String × (List Lean.Json → Lean.Json)) := [("scope", handle), ("scopes", handleMany)]

end Driver.C14
