import Driver.Util
import LiquidVerif.Model.Lex
import LiquidVerif.Model.LexRender
import LiquidVerif.Model.LexScan
open Lean LiquidVerif.Lex

namespace Driver.C10

def str? (j : Json) : Option Str := (asStr? j).map String.toList
/-- Strings go out ASCII-only: a code point ≥ 0x80 is written as `\x01<decimal>;` (the harness reads the
driver's answers with `str.splitlines`, which would split at a raw U+0085 / U+2028 / U+2029). -/
def escChar (c : Char) : Str :=
  if c.toNat < 0x80 then [c] else ['\x01'] ++ (toString c.toNat).toList ++ [';']
def js (s : Str) : Json := jstr (String.ofList (s.flatMap escChar))

def parseDelims (j : Json) : Option Delims := do
  match ← asArr? j with
  | [a, b, c, d, e, f] =>
    pure { tagS := ← str? a, tagE := ← str? b, stmtS := ← str? c, stmtE := ← str? d, cmtS := ← str? e, cmtE := ← str? f }
  | _ => none

def parseEnds (j : Json) : Option Ends := do
  match ← asArr? j with
  | [l, r, a, b] => pure { l := ← asBool? l, r := ← asBool? r, ws1 := ← str? a, ws2 := ← str? b }
  | _ => none

def parsePiece (j : Json) : Option Piece := do
  match ← asArr? j with
  | [.str "text", s] => pure (.text (← str? s))
  | [.str "output", l, r, a, e, b] => pure (.output (← asBool? l) (← asBool? r) (← str? a) (← str? e) (← str? b))
  | [.str "tag", l, r, w0, n, w1, e, w2] =>
    pure (.tag (← asBool? l) (← asBool? r) (← str? w0) (← str? n) (← str? w1) (← str? e) (← str? w2))
  | [.str "raw", o, b, c] => pure (.raw (← parseEnds o) (← str? b) (← parseEnds c))
  | [.str "doc", o, b, c] => pure (.doc (← parseEnds o) (← str? b) (← parseEnds c))
  | [.str "short", l, r, b] => pure (.short (← asBool? l) (← asBool? r) (← str? b))
  | _ => none

def kindName : MKind → String
  | .RAW => "RAW" | .DOC => "DOC" | .COMMENT => "COMMENT" | .OUTPUT => "output" | .TAG => "TAG" | .CONTENT => "content"

/-- only the groups that participate in a match of this kind (the others are `None` on the Python side) -/
def matchJson (m : Match) : Json :=
  let base := [("kind", jstr (kindName m.kind)), ("start", jnat m.start), ("stop", jnat m.stop), ("value", js m.value)]
  let extra := match m.kind with
    | .RAW => [("raw", js m.raw), ("rsr", Json.bool m.rsr), ("rsr_e", Json.bool m.rsr_e)]
    | .DOC => [("doc", js m.doc), ("lsd", Json.bool m.lsd), ("rsd", Json.bool m.rsd)]
    | .COMMENT => [("comment", js m.comment), ("rsc", Json.bool m.rsc)]
    | .OUTPUT => [("stmt", js m.stmt), ("stmtStart", jnat m.stmtStart), ("rss", Json.bool m.rss)]
    | .TAG => [("name", js m.name), ("nameStart", jnat m.nameStart), ("expr", js m.expr),
               ("exprStart", jnat m.exprStart), ("rst", Json.bool m.rst)]
    | .CONTENT => [("rstrip", Json.bool m.rstrip)]
  Json.mkObj (base ++ extra)

def tkindName : TKind → String
  | .content => "content" | .output => "output" | .expression => "expression" | .tag => "tag"
  | .comment => "comment" | .doc => "doc" | .shortComment => "COMMENT"

def errJson : LexError → Json
  | .eofInOutput n => Json.mkObj [("err", jstr "eof-in-output"), ("at", jnat n)]
  | .eofInTag n => Json.mkObj [("err", jstr "eof-in-tag"), ("at", jnat n)]

def withInput (args : List Json) (f : Delims → List Piece → Json) : Json :=
  match args with
  | [d, ps] =>
    match parseDelims d, (asArr? ps).bind (mapM? parsePiece) with
    | some d, some ps => f d ps
    | _, _ => jerr "bad-piece"
  | _ => jerr "bad-args"

/-- `["c10_match", delims, pieces]` → source, well-formedness and the claimed `finditer` result -/
def handleMatch (args : List Json) : Json :=
  withInput args fun d ps =>
    Json.mkObj [("src", js (assemble d ps)), ("wf", Json.bool (srcWf d ps)),
                ("scan_eq", Json.bool (scan d (assemble d ps) == matchesOf d 0 ps)),
                ("matches", jarr ((matchesOf d 0 ps).map matchJson))]

/-- `["c10_tokens", delims, pieces]` → the token list `[kind, value, start]` or the lexer error -/
def handleTokens (args : List Json) : Json :=
  withInput args fun d ps =>
    match lexPieces d ps with
    | .error e => errJson e
    | .ok ts => Json.mkObj [("tokens", jarr (ts.map fun t => jarr [jstr (tkindName t.kind), js t.value, jnat t.start]))]

/-- `["c10_render", delims, pieces]` → rendered output under the small concrete semantics -/
def handleRender (args : List Json) : Json :=
  withInput args fun d ps =>
    match renderPieces d ps with
    | .error e => errJson e
    | .ok s => Json.mkObj [("out", js s)]

def nodeJson : Node → Json
  | .text s => jarr [jstr "text", js s]
  | .output _ => jarr [jstr "output"]
  | .tag name _ => jarr [jstr "tag", js name]
  | .comment t => jarr [jstr "comment", js t]
  | .doc t => jarr [jstr "doc", js t]
  | .illegal => jarr [jstr "illegal"]

/-- `["c10_nodes", delims, pieces]` → the parsed node list -/
def handleNodes (args : List Json) : Json :=
  withInput args fun d ps =>
    match nodesOf d ps with
    | .error e => errJson e
    | .ok ns => Json.mkObj [("nodes", jarr (ns.map nodeJson))]

/-- `["c10_all", delims, pieces]` → all four levels of one case at once -/
def handleAll (args : List Json) : Json :=
  Json.mkObj [("match", handleMatch args), ("tokens", handleTokens args), ("nodes", handleNodes args),
              ("render", handleRender args)]

/-- `["c10_scan", delims, source]` → what the string-level scanner finds in an arbitrary string -/
def handleScan (args : List Json) : Json :=
  match args with
  | [d, src] =>
    match parseDelims d, str? src with
    | some d, some src =>
      let ms := scan d src
      let toks := match tokenize {} ms with
        | .error e => errJson e
        | .ok ts => Json.mkObj [("tokens", jarr (ts.map fun t => jarr [jstr (tkindName t.kind), js t.value, jnat t.start]))]
      Json.mkObj [("matches", jarr (ms.map matchJson)), ("tokens", toks)]
    | _, _ => jerr "bad-args"
  | _ => jerr "bad-args"

/-- `["c10_spaces", lo, hi]` → code points in `[lo, hi)` that the model treats as whitespace -/
def handleSpaces (args : List Json) : Json :=
  match args with
  | [lo, hi] =>
    match asNat? lo, asNat? hi with
    | some lo, some hi =>
      jarr (((List.range (hi - lo)).map (· + lo)).filter (fun n => isSpace (Char.ofNat n)) |>.map jnat)
    | _, _ => jerr "bad-args"
  | _ => jerr "bad-args"

/-- `["c10_strip", s]` → `[lstrip s, rstrip s]` -/
def handleStrip (args : List Json) : Json :=
  match args with
  | [s] => match str? s with
    | some s => jarr [js (lstrip s), js (rstrip s)]
    | none => jerr "bad-args"
  | _ => jerr "bad-args"

def commands : List (String × (List Lean.Json → Lean.Json)) :=
  [("c10_match", handleMatch), ("c10_tokens", handleTokens), ("c10_render", handleRender), ("c10_nodes", handleNodes), ("c10_all", handleAll), ("c10_scan", handleScan),
   ("c10_spaces", handleSpaces), ("c10_strip", handleStrip)]

end Driver.C10
