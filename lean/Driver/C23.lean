import Driver.Util
import LiquidVerif.Model.CacheLoader
open Lean LiquidVerif.CacheLoader

namespace Driver.C23

def asOptStr? (j : Json) : Option (Option Str) :=
  match j with
  | .null => some none
  | .str s => some (some s.toList)
  | _ => none

def asGlobals? (j : Json) : Option (Option Globals) :=
  match j with
  | .null => some none
  | .arr a => (mapM? (fun p => match asArr? p with
      | some [k, v] => do pure ((← asNat? k), (← asNat? v))
      | _ => none) a.toList).map some
  | _ => none

def asCtx? (j : Json) : Option (Option (Option Str)) :=
  match j with
  | .null => some none
  | .arr a => match a.toList with
    | [x] => (asOptStr? x).map some
    | _ => none
  | _ => none

def asMode? (j : Json) : Option Mode :=
  match j with
  | .str "sync" => some .sync
  | .str "async" => some .async
  | _ => none

/-- fold the edit events into explicit store snapshots -/
def parseEvents : Store → List Json → Option (List (Event Store))
  | _, [] => some []
  | s, j :: js =>
    match asArr? j with
    | some [.str "req", name, kw, ctx, mode, g] => do
      let r : Req := { name := (← asStr? name).toList, kw := (← asOptStr? kw), ctx := (← asCtx? ctx),
                       mode := (← asMode? mode), globals := (← asGlobals? g) }
      let rest ← parseEvents s js
      pure (.req r :: rest)
    | some [.str "edit", idx, full, v] => do
      let v' ← (match v with | .null => some none | x => (asNat? x).map some)
      let s' := s.set (← asNat? idx) (← asStr? full).toList v'
      let rest ← parseEvents s' js
      pure (.store s' :: rest)
    | _ => none

def errName : Err → String
  | .notFound => "TemplateNotFoundError"
  | .osError => "OSError"
  | .liquidError => "LiquidError"

def respJson (probes : List Nat) : Except Err Resp → Json
  | .error e => Json.mkObj [("err", jstr (errName e))]
  | .ok r => Json.mkObj [("ok", Json.mkObj [
      ("name", jstr (String.ofList r.name)),
      ("text", jarr [jstr (String.ofList r.text.1), jnat r.text.2]),
      ("g", jarr (probes.map fun k => match glookup r.globals k with | some v => jnat v | none => Json.null))])]

def runKind (kind : String) (cfg : Cfg) (cap : Nat) (evs : List (Event Store)) :
    Option (List (Except Err Resp) × List (Except Err Resp) × List Bool) :=
  let go (L : Loader Store Handle) :=
    some (run L cfg (Cache.empty cap) Store.emptyStore evs, refRun L cfg Store.emptyStore evs,
          runShared L cfg (Cache.empty cap) Store.emptyStore evs)
  match kind with
  | "dict" => go dictLoader
  | "dict-stale" => go dictLoaderStale
  | "fs" => go fsLoader
  | "fs-old" => go fsLoaderOld
  | "choice" => go choiceLoader
  | "fs2" => go fs2Loader
  | "ns" => go nsLoader
  | _ => none

/-- `["cacheloader", kind, cap, auto_reload, ns_key, env_globals, probes, events]`
→ `{"outs": [...caching loader...], "ref": [...non-caching loader...], "shared": [was the cached object itself returned?]}` -/
def handle (args : List Json) : Json :=
  match args with
  | [.str kind, cap, ar, nk, eg, probes, evs] =>
    match asNat? cap, asBool? ar, asBool? nk, asGlobals? eg, (asArr? probes).bind (mapM? asNat?),
          (asArr? evs).bind (parseEvents Store.emptyStore) with
    | some cap, some ar, some nk, some (some eg), some probes, some evs =>
      match runKind kind { autoReload := ar, nsKey := nk, eg := eg } cap evs with
      | some (outs, ref, shared) =>
        Json.mkObj [("outs", jarr (outs.map (respJson probes))), ("ref", jarr (ref.map (respJson probes))),
                    ("shared", jarr (shared.map Json.bool))]
      | none => jerr "bad-kind"
    | _, _, _, _, _, _ => jerr "bad-case"
  | _ => jerr "bad-args"

/-- schedule entries: `["step", i]` or `["edit", idx, full, v|null]` (edits folded into store snapshots) -/
def parseSchedule : Store → List Json → Option (List (CEvent Store))
  | _, [] => some []
  | s, j :: js =>
    match asArr? j with
    | some [.str "step", i] => do
      let rest ← parseSchedule s js
      pure (.step (← asNat? i) :: rest)
    | some [.str "edit", idx, full, v] => do
      let v' ← (match v with | .null => some none | x => (asNat? x).map some)
      let s' := s.set (← asNat? idx) (← asStr? full).toList v'
      let rest ← parseSchedule s' js
      pure (.store s' :: rest)
    | _ => none

def threadJson (th : Thread Handle) : Json :=
  match th.pc with
  | .done (.ok t) => Json.mkObj [("ok", Json.mkObj [("name", jstr (String.ofList t.name)),
      ("text", jarr [jstr (String.ofList t.text.1), jnat t.text.2])])]
  | .done (.error e) => Json.mkObj [("err", jstr (errName e))]
  | _ => jstr "pending"

/-- `["cacheloader-threads", cap, auto_reload, [name…], schedule]` on the dict loader
→ `{"threads": [...], "cache": [[key, [full, v]]… least recently used first]}` -/
def handleThreads (args : List Json) : Json :=
  match args with
  | [cap, ar, names, sched] =>
    match asNat? cap, asBool? ar, (asArr? names).bind (mapM? asStr?), (asArr? sched).bind (parseSchedule Store.emptyStore) with
    | some cap, some ar, some names, some es =>
      let cfg : Cfg := { autoReload := ar, nsKey := false, eg := [] }
      let rs : List Req := names.map fun n => { name := n.toList, kw := none, ctx := none, mode := .sync, globals := none }
      let fin := crun dictLoader cfg (cinit cap Store.emptyStore rs) es
      Json.mkObj [("threads", jarr (fin.threads.map threadJson)),
                  ("cache", jarr (fin.cache.items.map fun p =>
                      jarr [jstr (String.ofList p.1), jarr [jstr (String.ofList p.2.text.1), jnat p.2.text.2]]))]
    | _, _, _, _ => jerr "bad-case"
  | _ => jerr "bad-args"

def commands : List (String × (List Lean.Json → Lean.Json)) :=
  [("cacheloader", handle), ("cacheloader-threads", handleThreads)]

end Driver.C23
