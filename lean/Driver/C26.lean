import Driver.Util
import LiquidVerif.Model.Translate
open Lean LiquidVerif.PyFormat LiquidVerif.Translate

namespace Driver.C26

def excName : PyExc → String
  | .valueError => "ValueError"
  | .typeError => "TypeError"
  | .keyError => "KeyError"
  | .unmodelled => "unmodelled"

def resJson : Except PyExc Str → Json
  | .ok s => Json.mkObj [("ok", jstr (String.ofList s))]
  | .error e => Json.mkObj [("err", jstr (excName e))]

def asChars? (j : Json) : Option Str := (asStr? j).map String.toList

/-- `[[name, value], …]` -/
def asPairs? (j : Json) : Option (List (Str × Str)) := do
  let xs ← asArr? j
  mapM? (fun p => do
    match (← asArr? p) with
    | [k, v] => pure ((← asChars? k), (← asChars? v))
    | _ => none) xs

def lookupPairs (ps : List (Str × Str)) (k : Str) : Option Str := (ps.find? (·.1 == k)).map (·.2)

/-- a variable that is not defined renders as the empty string (`Undefined.__str__`) -/
def valOf (ps : List (Str × Str)) (k : Str) : Str := (lookupPairs ps k).getD []

def asOptChars? (j : Json) : Option (Option Str) :=
  match j with
  | .null => some none
  | _ => (asChars? j).map some

/-- `null` (no count given) | `["none"]` | `["bool", b]` | `["int", "n"]` | `["float", "num", "den"]` | `["str", s]` -/
def asCount? (j : Json) : Option (Option CountVal) :=
  match j with
  | .null => some none
  | _ => do
    match (← asArr? j) with
    | [.str "none"] => pure (some .none)
    | [.str "bool", b] => pure (some (.bool (← asBool? b)))
    | [.str "int", i] => pure (some (.int (← asInt? i)))
    | [.str "float", n, d] => pure (some (.float (← asInt? n) (← asNat? d)))
    | [.str "str", s] => pure (some (.str (← asChars? s)))
    | _ => none

def asPiece? (j : Json) : Option Piece := do
  match (← asArr? j) with
  | [.str "c", s] => pure (.content (← asChars? s))
  | [.str "v", n] => pure (.var (← asChars? n))
  | _ => none

def asPieces? (j : Json) : Option (List Piece) := (asArr? j).bind (mapM? asPiece?)

/-- `["pyfmt", fmt, [[k,v]…], selfStr]` : Python `fmt % dict` -/
def handlePyfmt (args : List Json) : Json :=
  match args with
  | [fmt, pairs, self] =>
    match asChars? fmt, asPairs? pairs, asChars? self with
    | some fmt, some ps, some self => resJson (format { lookup := lookupPairs ps, selfStr := self } fmt)
    | _, _, _ => jerr "bad-args"
  | _ => jerr "bad-args"

/-- `["c26_filter", kind, left, ctx|null, plural|null, count, [[name,value]…]]` -/
def handleFilter (args : List Json) : Json :=
  match args with
  | [kind, left, ctx, plural, count, vars] =>
    match asStr? kind, asChars? left, asOptChars? ctx, asOptChars? plural, asCount? count, asPairs? vars with
    | some kind, some left, some ctx?, some plural?, some count?, some vars =>
      let val := valOf vars
      if kind == "t" then resJson (tFilter asciiWord val left ctx? plural? count?)
      else if kind == "gettext" || kind == "pgettext" then resJson (formatMessage asciiWord val [] left)
      else if kind == "ngettext" || kind == "npgettext" then
        match plural?, count? with
        | some p, some c => resJson (nFilter asciiWord val left p c)
        | _, _ => jerr "ngettext-needs-plural-and-count"
      else jerr "bad-kind"
    | _, _, _, _, _, _ => jerr "bad-args"
  | _ => jerr "bad-args"

/-- `["c26_tag", singular pieces, plural pieces|null, count, trim, [[name,value]…], nameclass]`;
`nameclass` = "word" (`\w`) or "noparen" (`[^()%]`), read by the harness from `TranslateNode.re_vars` -/
def handleTag (args : List Json) : Json :=
  match args with
  | [sing, plural, count, trim, vars, cls] =>
    let w : Char → Bool := if asStr? cls == some "noparen" then tagNameChar else asciiWord
    let plural? : Option (Option (List Piece)) :=
      match plural with
      | .null => some none
      | _ => (asPieces? plural).map some
    match asPieces? sing, plural?, asCount? count, asBool? trim, asPairs? vars with
    | some sing, some plural?, some count?, some trim, some vars =>
      resJson (translateTag w isPySpace (valOf vars) trim sing plural? count?)
    | _, _, _, _, _ => jerr "bad-args"
  | _ => jerr "bad-args"

/-- `["c26_msgtext", pieces, trim]` : the message text (msgid) of a block -/
def handleMsgText (args : List Json) : Json :=
  match args with
  | [ps, trim] =>
    match asPieces? ps, asBool? trim with
    | some ps, some trim => jstr (String.ofList (blockText isPySpace trim ps))
    | _, _ => jerr "bad-args"
  | _ => jerr "bad-args"

def commands : List (String × (List Lean.Json → Lean.Json)) :=
  [("pyfmt", handlePyfmt), ("c26_filter", handleFilter), ("c26_tag", handleTag), ("c26_msgtext", handleMsgText)]

end Driver.C26
