import Driver.Util
import LiquidVerif.Model.Mode
import LiquidVerif.Model.ModeAsync
open Lean LiquidVerif.Mode

namespace Driver.C03

/-- the tag registry the correspondence streams use (names as in `liquid/builtin/tags`) -/
def tagTable (name : String) : TagKind :=
  if name == "assign" || name == "increment" || name == "decrement" || name == "cycle" then .eval false
  else if name == "echo" then .eval true
  else if name == "break" then .interrupt true
  else if name == "continue" then .interrupt false
  else if name == "include" then .partial_ false
  else if name == "render" then .partial_ true
  else if name == "extends" then .extends_
  else if name == "for" then .loop "endfor"
  else if name == "capture" then .capture "endcapture"
  else if name == "if" then .cond "endif" false
  else if name == "unless" then .cond "endunless" true
  else if name == "case" then .case_ "endcase"
  else if name == "with" then .scoped "endwith"
  else if name == "tablerow" then .scoped "endtablerow"
  else if name == "ifchanged" then .plain "endifchanged"
  else .unknown

def parseBeh (j : Json) : Option PBeh :=
  match j with
  | .str "ok" => some .ok
  | _ =>
    match asArr? j with
    | some [.str "err", .str e] => some (.err e)
    | some [.str "so", .str e, .null] => some (.strictOnly e none)
    | some [.str "so", .str e, .str l] => some (.strictOnly e (some l))
    | _ => none

def parseEval (j : Json) : Option (Unit → Unit × Except Err Val) :=
  match asArr? j with
  | some [.str "ok", .str s, n] => do let k ← asNat? n; pure (fun _ => ((), .ok ⟨s, k⟩))
  | some [.str "err", .str e] => some (fun _ => ((), .error e))
  | _ => none

def parseTok (j : Json) : Option (Tok Unit) :=
  match asArr? j with
  | some [.str "c", .str s] => some (.content s)
  | some [.str "o"] => some .output
  | some [.str "t", .str n] => some (.tag n)
  | some [.str "e", b, v] => do let b ← parseBeh b; let f ← parseEval v; pure (.expr ⟨b, f⟩)
  | _ => none

def parseToks (j : Json) : Option (List (Tok Unit)) := (asArr? j).bind (mapM? parseTok)

def parseMode : Json → Option Mode
  | .str "lax" => some .lax
  | .str "warn" => some .warn
  | .str "strict" => some .strict
  | _ => none

def parsePairs (j : Json) : Option (List (String × String)) :=
  (asArr? j).bind (mapM? fun p => match asArr? p with | some [.str a, .str b] => some (a, b) | _ => none)

def parsePartials (j : Json) : Option (List (String × List (Tok Unit))) :=
  (asArr? j).bind (mapM? fun p => match asArr? p with
    | some [.str a, b] => do let t ← parseToks b; pure (a, t)
    | _ => none)

mutual
partial def shape : Node Unit → String
  | .text _ => "T"
  | .eval _ => "E"
  | .illegal => "X"
  | .interrupt b => if b then "B" else "C"
  | .partial_ _ _ => "P"
  | .extends_ _ => "S"
  | .cond _ _ c a d => "I(" ++ shapes c ++ "|" ++ shapes a ++ "|" ++ shapes d ++ ")"
  | .condBlock _ b => "K(" ++ shapes b ++ ")"
  | .loop _ b d => "F(" ++ shapes b ++ "|" ++ shapes d ++ ")"
  | .capture _ b => "A(" ++ shapes b ++ ")"
  | .case_ _ bs => "W(" ++ shapes bs ++ ")"
  | .whenBlock _ b => "M(" ++ shapes b ++ ")"
  | .elseBlock b => "L(" ++ shapes b ++ ")"
  | .scoped _ b => "Y(" ++ shapes b ++ ")"
  | .block b => "G(" ++ shapes b ++ ")"
partial def shapes (ns : List (Node Unit)) : String := String.join (ns.map shape)
end

def logJson (l : Log) : List (String × Json) :=
  [("warnings", jarr (l.warnings.map jstr)), ("suppressed", jarr (l.suppressed.map jstr))]

def runOne (m : Mode) (nest depth : Nat) (wt : List (String × String)) (sc : List String)
    (toks : List (Tok Unit)) (ps : List (String × List (Tok Unit))) : Json :=
  let cfg : Cfg Unit := { mode := m, warnTable := wt, syntaxClasses := sc, tags := tagTable, nestLimit := nest,
                          depthLimit := depth, loader := fun n => ps.lookup n }
  let parsed : Json := match parseTemplate cfg toks {} with
    | .error e => Json.mkObj [("err", jstr e)]
    | .ok (ns, log) => Json.mkObj ([("shape", jstr (shapes ns))] ++ logJson log)
  let ran : Json := match run cfg toks () with
    | .ok out log => Json.mkObj ([("ok", jstr out)] ++ logJson log)
    | .parseError e => Json.mkObj [("parse_err", jstr e)]
    | .renderError e log => Json.mkObj ([("render_err", jstr e)] ++ logJson log)
    | .interrupt => Json.mkObj [("interrupt", Json.bool true)]
  let aran : Json := match runAsync cfg toks () with
    | .ok out log => Json.mkObj ([("ok", jstr out)] ++ logJson log)
    | .parseError e => Json.mkObj [("parse_err", jstr e)]
    | .renderError e log => Json.mkObj ([("render_err", jstr e)] ++ logJson log)
    | .interrupt => Json.mkObj [("interrupt", Json.bool true)]
  Json.mkObj [("parse", parsed), ("run", ran), ("arun", aran)]

/-- `["c03run", nestLimit, depthLimit, warnTable, syntaxClasses, tokens, partials]`
    → `{strict, warn, lax}` each with the parse outcome (shape, log) and the run outcome -/
def handle (args : List Json) : Json :=
  match args with
  | [nest, depth, wt, sc, toks, partials] =>
    match asNat? nest, asNat? depth, parsePairs wt, (asArr? sc).bind (mapM? asStr?), parseToks toks, parsePartials partials with
    | some nest, some depth, some wt, some sc, some toks, some ps =>
      Json.mkObj [("strict", runOne .strict nest depth wt sc toks ps), ("warn", runOne .warn nest depth wt sc toks ps),
                  ("lax", runOne .lax nest depth wt sc toks ps)]
    | _, _, _, _, _, _ => jerr "bad-args"
  | _ => jerr "bad-arity"

def commands : List (String × (List Lean.Json → Lean.Json)) := [("c03run", handle)]

end Driver.C03
