import Driver.Util
import LiquidVerif.Model.ExprLex
import LiquidVerif.Model.LiquidLines
import LiquidVerif.Model.ErrCtx
open Lean

namespace Driver.C20
open LiquidVerif

def cs? (j : Json) : Option (List Char) := (asStr? j).map (·.toList)
/-- strings travel as JSON strings when printable ASCII, else as `{"u": [code points]}` (the harness
splits the driver's output with `str.splitlines`, which also breaks at U+0085, U+2028, …) -/
def sj (l : List Char) : Json :=
  if l.all (fun c => 0x20 ≤ c.val && c.val < 0x7F) then jstr (String.ofList l)
  else Json.mkObj [("u", jarr (l.map fun c => jnat c.val.toNat))]

def etok (t : ExprLex.Token) : Json := jarr [jstr t.kind, sj t.value, jnat t.start]

/-- `["exprlex", base, src]` → `{"tokens": [[kind,value,start]…], "error": [kind,value,start]|null,
"raw": [[start, rawtext]…]}` (`raw`: every match, incl. skipped white space, with its offset) -/
def handleExpr (args : List Json) : Json :=
  match args with
  | [b, s] =>
    match asNat? b, cs? s with
    | some b, some s =>
      let r := ExprLex.tokenize b s
      Json.mkObj [("tokens", jarr (r.1.map etok)),
                  ("error", match r.2 with | some e => etok e | none => Json.null),
                  ("raw", jarr ((ExprLex.scan 0 s).map fun p => jarr [jnat p.1, sj p.2.raw]))]
    | _, _ => jerr "bad-args"
  | _ => jerr "bad-args"

def ltok (t : LiquidLines.Token) : Json := jarr [jstr t.kind, sj t.value, jnat t.start]

/-- `["liquidlines", comment_start_string, base, src]` → `{"tokens": …, "error": bool}` -/
def handleLines (args : List Json) : Json :=
  match args with
  | [c, b, s] =>
    match cs? c, asNat? b, cs? s with
    | some c, some b, some s =>
      let r := LiquidLines.tokenizeLiquid c b s
      Json.mkObj [("tokens", jarr (r.1.map ltok)), ("error", Json.bool r.2)]
    | _, _, _ => jerr "bad-args"
  | _ => jerr "bad-args"

def ctxJson : Option ErrCtx.Ctx → Json
  | none => jstr "ValueError"
  | some c => jarr [jnat c.line, jnat c.col, sj c.prev, sj c.cur, sj c.next]

/-- `["errctx", text, [index…]]` → per index `[line, col, prev, cur, next]` | `"ValueError"`, plus the lines -/
def handleCtx (args : List Json) : Json :=
  match args with
  | [t, is] =>
    match cs? t, (asArr? is).bind (mapM? asNat?) with
    | some t, some is =>
      Json.mkObj [("lines", jarr ((ErrCtx.splitLines t).map sj)),
                  ("ctx", jarr (is.map fun i => ctxJson (ErrCtx.errorContext t i)))]
    | _, _ => jerr "bad-args"
  | _ => jerr "bad-args"

/-- `["fmt", source, start_index]` → `"bare"` | `["located", line, col]` | `"raises"` -/
def handleFmt (args : List Json) : Json :=
  match args with
  | [s, i] =>
    match cs? s, asInt? i with
    | some s, some i =>
      match ErrCtx.detailedMessage s i with
      | .bare => jstr "bare"
      | .located c => jarr [jstr "located", jnat c.line, jnat c.col]
      | .raises => jstr "raises"
    | _, _ => jerr "bad-args"
  | _ => jerr "bad-args"

/-- `["charclass", [codepoint…]]` → per code point `[\d, \w, \s, [ \n\t\r], splitlines-break]` -/
def handleClass (args : List Json) : Json :=
  match args with
  | [cps] =>
    match (asArr? cps).bind (mapM? asNat?) with
    | some cps =>
      jarr (cps.map fun n =>
        let c := Char.ofNat n
        jarr [Json.bool (ExprLex.isDigit c), Json.bool (ExprLex.isWord c), Json.bool (ExprLex.isSpace c),
              Json.bool (ExprLex.isSkip c), Json.bool (ErrCtx.isBreak c)])
    | none => jerr "bad-args"
  | _ => jerr "bad-args"

def commands : List (String × (List Lean.Json → Lean.Json)) :=
  [("exprlex", handleExpr), ("liquidlines", handleLines), ("errctx", handleCtx), ("fmt", handleFmt),
   ("charclass", handleClass)]
end Driver.C20
