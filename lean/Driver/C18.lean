import Driver.Util
import LiquidVerif.Model.Inherit
import LiquidVerif.Model.InheritSpec
import LiquidVerif.Model.InheritParse
import LiquidVerif.Model.InheritFlat
import LiquidVerif.Model.InheritAssign
open Lean LiquidVerif.Inherit

namespace Driver.C18

/-- items: `["t",s] ["v",x] ["s"] ["b",name,required,[items]] ["l",v,n,[items]]` -/
partial def parseItem (j : Json) : Option Item := do
  let xs ← asArr? j
  match xs with
  | [.str "t", s] => pure (.text (← asStr? s))
  | [.str "v", x] => pure (.var (← asStr? x))
  | [.str "s"] => pure .super
  | [.str "b", name, req, body] =>
    let items ← (asArr? body).bind (mapM? parseItem)
    pure (.block (← asStr? name) (← asBool? req) items)
  | [.str "l", v, n, body] =>
    let items ← (asArr? body).bind (mapM? parseItem)
    pure (.loop (← asStr? v) (← asNat? n) items)
  | _ => none

/-- top-level: `["x", parent]` or an item -/
def parseTop (j : Json) : Option Top :=
  match asArr? j with
  | some [.str "x", p] => (asStr? p).map Top.ext
  | _ => (parseItem j).map Top.node

def parseLoader (j : Json) : Option Loader := do
  let xs ← asArr? j
  mapM? (fun e => do
    match ← asArr? e with
    | [name, tops] =>
      let ts ← (asArr? tops).bind (mapM? parseTop)
      pure ((← asStr? name), (⟨ts⟩ : Template))
    | _ => none) xs

def parseData (j : Json) : Option Scope := do
  let xs ← asArr? j
  mapM? (fun e => do
    match ← asArr? e with
    | [k, v] => pure ((← asStr? k), (← asStr? v))
    | _ => none) xs

def errName : Err → String
  | .requiredBlock => "RequiredBlockError"
  | .inheritance => "TemplateInheritanceError"
  | .notFound => "TemplateNotFoundError"
  | .contextDepth => "ContextDepthError"

def outJson : Except Err String → Json
  | .ok s => Json.mkObj [("ok", jstr s)]
  | .error e => Json.mkObj [("err", jstr (errName e))]

/-- `["inherit", limit, loader, leaf, data]` → `{"ok": out}` | `{"err": class}` -/
def handle (args : List Json) : Json :=
  match args with
  | [lim, ld, leaf, data] =>
    match asNat? lim, parseLoader ld, asStr? leaf, parseData data with
    | some lim, some ld, some leaf, some data => outJson (renderTemplate lim ld leaf data)
    | _, _, _, _ => jerr "bad-args"
  | _ => jerr "bad-args"

/-- `["flatten", limit, [[tops]… leaf first], data]` → the declarative flattening of the chain -/
def handleFlatten (args : List Json) : Json :=
  match args with
  | [lim, chain, data] =>
    let ts := (asArr? chain).bind (mapM? (fun j => ((asArr? j).bind (mapM? parseTop)).map (fun x => (⟨x⟩ : Template))))
    match asNat? lim, ts, parseData data with
    | some lim, some ts, some data => outJson (flatten lim ts data)
    | _, _, _ => jerr "bad-args"
  | _ => jerr "bad-args"

def parseTok (j : Json) : Option Tok := do
  match ← asArr? j with
  | [.str "t", s] => pure (.text (← asStr? s))
  | [.str "o", n, r] => pure (.opn (← asStr? n) (← asBool? r))
  | [.str "c", .null] => pure (.cls none)
  | [.str "c", n] => pure (.cls (some (← asStr? n)))
  | _ => none

/-- `["endblock", limit, [tokens]]` → parse (`BlockTag.parse`), then render the template directly -/
def handleEndblock (args : List Json) : Json :=
  match args with
  | [lim, toks] =>
    match asNat? lim, (asArr? toks).bind (mapM? parseTok) with
    | some lim, some toks =>
      match parseToks toks with
      | .error .syntax => Json.mkObj [("err", jstr "LiquidSyntaxError")]
      | .error .inheritance => Json.mkObj [("err", jstr "TemplateInheritanceError")]
      | .ok items => outJson (renderItems lim (stackOf []) 0 none [] [] items)
    | _, _ => jerr "bad-args"
  | _ => jerr "bad-args"

/-- Liquid source of an annotation-free plain template (raise nodes print a marker) -/
partial def srcPlain : Plain → String
  | .text s => s
  | .var x => "{{ " ++ x ++ " }}"
  | .loop v n body => "{% for " ++ v ++ " in (1.." ++ toString n ++ ") %}" ++ String.join (body.map srcPlain) ++ "{% endfor %}"
  | .scope _ body => String.join (body.map srcPlain)
  | .outer body => String.join (body.map srcPlain)
  | .raise e => "<!" ++ errName e ++ ">"

/-- `["flatsyn", limit, [[tops]… leaf first], data]` → render of the syntactically flattened template, whether it
is finite / hygienic, and the Liquid source of the annotation-free template -/
def handleFlatSyn (args : List Json) : Json :=
  match args with
  | [lim, chain, data] =>
    let ts := (asArr? chain).bind (mapM? (fun j => ((asArr? j).bind (mapM? parseTop)).map (fun x => (⟨x⟩ : Template))))
    match asNat? lim, ts, parseData data with
    | some lim, some ts, some data =>
      let fl := flattenSyn lim ts
      Json.mkObj [("out", outJson (renderPlains none data fl)),
                  ("finite", Json.bool (finiteWithin lim ts)),
                  ("hygienic", Json.bool (hygienics fl)),
                  ("src", jstr (String.join ((eraseScopes fl).map srcPlain)))]
    | _, _, _ => jerr "bad-args"
  | _ => jerr "bad-args"

/-- items with assignment: `["t",s] ["v",x] ["a",x,s] ["s"] ["b",name,[items]]` -/
partial def parseAItem (j : Json) : Option AItem := do
  match ← asArr? j with
  | [.str "t", s] => pure (.text (← asStr? s))
  | [.str "v", x] => pure (.var (← asStr? x))
  | [.str "a", x, s] => pure (.assign (← asStr? x) (← asStr? s))
  | [.str "s"] => pure .super
  | [.str "b", name, body] =>
    let items ← (asArr? body).bind (mapM? parseAItem)
    pure (.block (← asStr? name) items)
  | _ => none

/-- `["assign", limit, [[items]… leaf first], data]` → output of the chain (the root's probes show the base locals) -/
def handleAssign (args : List Json) : Json :=
  match args with
  | [lim, chain, data] =>
    let ts := (asArr? chain).bind (mapM? (fun j => (asArr? j).bind (mapM? parseAItem)))
    match asNat? lim, ts, parseData data with
    | some lim, some ts, some data =>
      match arenderChain lim ts data with
      | .ok (out, _) => Json.mkObj [("ok", jstr out)]
      | .error e => Json.mkObj [("err", jstr (errName e))]
    | _, _, _ => jerr "bad-args"
  | _ => jerr "bad-args"

def commands : List (String × (List Lean.Json → Lean.Json)) :=
  [("inherit", handle), ("flatten", handleFlatten), ("endblock", handleEndblock), ("flatsyn", handleFlatSyn), ("assign", handleAssign)]
end Driver.C18
