import Driver.Util
import LiquidVerif.Model.PathSafe
open Lean LiquidVerif.PathSafe

namespace Driver.C22

abbrev PName := LiquidVerif.PathSafe.Name

/-- a Python `str` travels as an array of code points (lone surrogates survive) -/
def asName? (j : Json) : Option PName := (asArr? j).bind (mapM? asNat?)
def jname (n : PName) : Json := jarr (n.map jnat)

def asComps? (j : Json) : Option Comps := (asArr? j).bind (mapM? asName?)

/-- `{"f": id} | {"d": [[name, node]…]} | {"l": [abs, [name…]]}` -/
partial def asNode? (j : Json) : Option Node :=
  match j.getObjVal? "f" with
  | .ok c => (asNat? c).map .file
  | .error _ =>
    match j.getObjVal? "d" with
    | .ok es => do
      let xs ← asArr? es
      let ys ← mapM? (fun e => do
        match (← asArr? e) with
        | [k, v] => pure ((← asName? k), (← asNode? v))
        | _ => none) xs
      pure (.dir ys)
    | .error _ =>
      match j.getObjVal? "l" with
      | .ok l => do
        match (← asArr? l) with
        | [a, t] => pure (.link (← asBool? a) (← asComps? t))
        | _ => none
      | .error _ => none

def asFS? (j : Json) : Option FS := do
  let root ← (j.getObjVal? "root").toOption.bind asNode?
  let cwd ← (j.getObjVal? "cwd").toOption.bind asComps?
  let mx ← (j.getObjVal? "max").toOption.bind asNat?
  let ex ← (j.getObjVal? "extra").toOption.bind asNat?
  pure ⟨root, cwd, mx, ex⟩

def jpath (p : PPath) : Json :=
  Json.mkObj [("root", jnat p.root), ("parts", jarr (p.parts.map jname)), ("name", jname p.name),
    ("suffix", jname (suffixOf p.name)), ("abs", Json.bool p.isAbsolute), ("str", jname (strOf p))]

def excName : Exc → String
  | .notFound => "TemplateNotFoundError"
  | .valueError => "ValueError"
  | .osError => "OSError"
  | .runtimeError => "RuntimeError"

def jexc (e : Exc) : Json := Json.mkObj [("err", jstr (excName e))]

/-- `["c22_path", name]` -/
def handlePath (args : List Json) : Json :=
  match args with
  | [n] => match asName? n with
    | some n => jpath (parse n)
    | none => jerr "bad-name"
  | _ => jerr "bad-args"

/-- `["c22_suffix", name, ext]` : `Path(name).with_suffix(ext)` -/
def handleSuffix (args : List Json) : Json :=
  match args with
  | [n, e] => match asName? n, asName? e with
    | some n, some e =>
      match withSuffix (parse n) e with
      | .ok p => Json.mkObj [("ok", jname (strOf p))]
      | .error x => jexc x
    | _, _ => jerr "bad-name"
  | _ => jerr "bad-args"

/-- `["c22_join", a, b]` : `Path(a).joinpath(Path(b))` -/
def handleJoin (args : List Json) : Json :=
  match args with
  | [a, b] => match asName? a, asName? b with
    | some a, some b => Json.mkObj [("ok", jname (strOf (join (parse a) (parse b))))]
    | _, _ => jerr "bad-name"
  | _ => jerr "bad-args"

def osName : OSErr → String
  | .enoent => "ENOENT" | .enotdir => "ENOTDIR" | .eloop => "ELOOP" | .enametoolong => "ENAMETOOLONG"

def jbool (r : Except Exc Bool) : Json :=
  match r with | .ok b => Json.bool b | .error e => jexc e

/-- `["c22_fsop", fs, [path…]]` → per path `{stat, exists, is_file, resolve, read}` -/
def handleFsop (args : List Json) : Json :=
  match args with
  | [fsj, ps] =>
    match asFS? fsj, (asArr? ps).bind (mapM? asName?) with
    | some fs, some ps =>
      jarr (ps.map fun s =>
        let p := parse s
        let st : Json := match kstat fs p with
          | .ok (.file c) => jarr [jstr "file", jnat c]
          | .ok (.dir _) => jstr "dir"
          | .ok (.link _ _) => jstr "link"
          | .error .value => jstr "ValueError"
          | .error (.os e) => jstr (osName e)
        let rs : Json := match pyResolve fs p with
          | .ok q => Json.mkObj [("ok", jname (strOf ⟨1, q⟩))]
          | .error e => jexc e
        let rd : Json := match pyRead fs p with
          | .ok c => jnat c
          | .error e => jexc e
        Json.mkObj [("stat", st), ("exists", jbool (pyExists fs p)), ("is_file", jbool (pyIsFile fs p)),
          ("resolve", rs), ("read", rd)])
    | _, _ => jerr "bad-fs"
  | _ => jerr "bad-args"

def jsource (r : Except Exc (PPath × Nat)) : Json :=
  match r with
  | .ok (p, c) => Json.mkObj [("ok", jarr [jname (strOf p), jnat c])]
  | .error e => jexc e

def asOptName? (j : Json) : Option (Option PName) :=
  match j with
  | .null => some none
  | _ => (asName? j).map some

/-- `["c22_fsl", fs, {"search": [str…], "ext": null|str, "rej": bool}, [name…]]` -/
def handleFsl (args : List Json) : Json :=
  match args with
  | [fsj, cfgj, ns] =>
    match asFS? fsj, (asArr? ns).bind (mapM? asName?) with
    | some fs, some ns =>
      let cfg? : Option FSLConfig := do
        let sp ← (cfgj.getObjVal? "search").toOption.bind fun j => (asArr? j).bind (mapM? asName?)
        let ext ← (cfgj.getObjVal? "ext").toOption.bind asOptName?
        let rej ← (cfgj.getObjVal? "rej").toOption.bind asBool?
        pure ⟨sp.map parse, ext, rej⟩
      match cfg? with
      | some cfg =>
        match loaderInit cfg.ext with
        | .error e => Json.mkObj [("ctor", jstr (excName e))]
        | .ok _ => jarr (ns.map fun n => jsource (fslGetSource cfg fs n))
      | none => jerr "bad-cfg"
    | _, _ => jerr "bad-fs"
  | _ => jerr "bad-args"

/-- `["c22_pkg", fs, {"paths": [str…], "ext": str}, [name…]]` -/
def handlePkg (args : List Json) : Json :=
  match args with
  | [fsj, cfgj, ns] =>
    match asFS? fsj, (asArr? ns).bind (mapM? asName?) with
    | some fs, some ns =>
      let cfg? : Option PkgConfig := do
        let sp ← (cfgj.getObjVal? "paths").toOption.bind fun j => (asArr? j).bind (mapM? asName?)
        let ext ← (cfgj.getObjVal? "ext").toOption.bind asName?
        pure ⟨sp.map parse, ext⟩
      match cfg? with
      | some cfg =>
        match loaderInit (some cfg.ext) with
        | .error e => Json.mkObj [("ctor", jstr (excName e))]
        | .ok _ => jarr (ns.map fun n => jsource (pkgGetSource cfg fs n))
      | none => jerr "bad-cfg"
    | _, _ => jerr "bad-fs"
  | _ => jerr "bad-args"

def asFslCfg? (cfgj : Json) : Option FSLConfig := do
  let sp ← (cfgj.getObjVal? "search").toOption.bind fun j => (asArr? j).bind (mapM? asName?)
  let ext ← (cfgj.getObjVal? "ext").toOption.bind asOptName?
  let rej ← (cfgj.getObjVal? "rej").toOption.bind asBool?
  pure ⟨sp.map parse, ext, rej⟩

/-- one request of a history: `[fs, [[canonical path, mtime]…], name]` -/
def asStep? (j : Json) : Option (FS × (Comps → Nat) × List Nat) := do
  match (← asArr? j) with
  | [fsj, mts, n] =>
    let fs ← asFS? fsj
    let tbl ← (asArr? mts).bind (mapM? fun e => do
      match (← asArr? e) with
      | [q, t] => pure ((← asComps? q), (← asNat? t))
      | _ => none)
    let name ← asName? n
    pure (fs, (fun q => ((tbl.find? (fun e => e.1 = q)).map (·.2)).getD 0), name)
  | _ => none

/-- `["c22_cache", cfg, auto_reload, capacity, [step…]]` → one answer per request -/
def handleCache (args : List Json) : Json :=
  match args with
  | [cfgj, auto, cap, steps] =>
    match asFslCfg? cfgj, asBool? auto, asNat? cap, (asArr? steps).bind (mapM? asStep?) with
    | some cfg, some auto, some cap, some steps =>
      jarr ((cachedRun ⟨cfg, auto, cap⟩ [] steps).map jsource)
    | _, _, _, _ => jerr "bad-cache-args"
  | _ => jerr "bad-args"

def commands : List (String × (List Lean.Json → Lean.Json)) :=
  [("c22_path", handlePath), ("c22_suffix", handleSuffix), ("c22_join", handleJoin), ("c22_fsop", handleFsop),
   ("c22_fsl", handleFsl), ("c22_pkg", handlePkg), ("c22_cache", handleCache)]

end Driver.C22
