import Driver.Util
import LiquidVerif.Model.LexDelims
import LiquidVerif.Model.Memo
open Lean

namespace Driver.C11
open LiquidVerif.LexDelims

def cs? (j : Json) : Option (List Char) := (asStr? j).map (·.toList)
/-- strings travel as JSON strings when printable ASCII, else as `{"u": [code points]}` (the harness
splits the driver's output with `str.splitlines`, which also breaks at U+0085, U+2028, …) -/
def sj (l : List Char) : Json :=
  if l.all (fun c => 0x20 ≤ c.val && c.val < 0x7F) then jstr (String.ofList l)
  else Json.mkObj [("u", jarr (l.map fun c => jnat c.val.toNat))]

def delims? (j : Json) : Option Delims := do
  let xs ← asArr? j
  match xs with
  | [a, b, c, d, e, f] => pure ⟨← cs? a, ← cs? b, ← cs? c, ← cs? d, ← cs? e, ← cs? f⟩
  | _ => none

def piece? (j : Json) : Option Piece := do
  let xs ← asArr? j
  match xs with
  | [.str "text", s] => pure (.text (← cs? s))
  | [.str "out", lw, w1, e, w2, rw] => pure (.out (← asBool? lw) (← cs? w1) (← cs? e) (← cs? w2) (← asBool? rw))
  | [.str "tag", lw, w1, n, w2, e, w3, rw] =>
    pure (.tag (← asBool? lw) (← cs? w1) (← cs? n) (← cs? w2) (← cs? e) (← cs? w3) (← asBool? rw))
  | [.str "raw", l1, a1, a2, r1, body, l2, b1, b2, r2] =>
    pure (.raw (← asBool? l1) (← cs? a1) (← cs? a2) (← asBool? r1) (← cs? body) (← asBool? l2) (← cs? b1) (← cs? b2) (← asBool? r2))
  | [.str "doc", l1, a1, a2, r1, body, l2, b1, b2, r2] =>
    pure (.doc (← asBool? l1) (← cs? a1) (← cs? a2) (← asBool? r1) (← cs? body) (← asBool? l2) (← cs? b1) (← cs? b2) (← asBool? r2))
  | [.str "sc", body, rw] => pure (.sc (← cs? body) (← asBool? rw))
  | _ => none

def kindName : TKind → String
  | .output => "output" | .expression => "expression" | .tag => "tag" | .content => "content"
  | .comment => "comment" | .doc => "doc" | .scomment => "COMMENT" | .eof => "end of expression"

def tokJson (t : Tok) : Json := jarr [jstr (kindName t.kind), sj t.value, jnat t.start]

/-- `["lex", [ts,te,ss,se,cs,ce], [piece…]]` → `{"source": assembled, "tokens": [[kind,value,start]…], "error": tok|null}` -/
def handleLex (args : List Json) : Json :=
  match args with
  | [d, ps] =>
    match delims? d, (asArr? ps).bind (mapM? piece?) with
    | some d, some ps =>
      let r := lex d ps
      Json.mkObj [("source", sj (assemble d ps)), ("tokens", jarr (r.1.map tokJson)),
                  ("error", match r.2 with | some e => tokJson e | none => Json.null)]
    | _, _ => jerr "bad-args"
  | _ => jerr "bad-args"

open LiquidVerif.Memo

/-- `["memo", maxsize, [key…]]` with `f k = k * 7 + 1` and keys compared by equality →
`{"results": […], "hits": [bool…], "size": n}` -/
def handleMemo (args : List Json) : Json :=
  match args with
  | [m, ks] =>
    match asNat? m, (asArr? ks).bind (mapM? asNat?) with
    | some m, some ks =>
      let f : Nat → Nat := fun k => k * 7 + 1
      let eq : Nat → Nat → Bool := fun a b => a == b
      let rec go (c : Cache Nat Nat) : List Nat → List Json × List Json × Cache Nat Nat
        | [] => ([], [], c)
        | k :: r =>
          let hit := (find eq c.entries k).isSome
          let x := call eq f c k
          let (a, b, c') := go x.1 r
          (jnat x.2 :: a, Json.bool hit :: b, c')
      let (rs, hs, c) := go (empty m) ks
      Json.mkObj [("results", jarr rs), ("hits", jarr hs), ("size", jnat c.entries.length)]
    | _, _ => jerr "bad-args"
  | _ => jerr "bad-args"

def strs? (j : Json) : Option (List String) := (asArr? j).bind (mapM? asStr?)

def op? (j : Json) : Option Op := do
  let xs ← asArr? j
  match xs with
  | [.str "new", d, m, t, f] => pure (.newEnv ⟨← delims? d, ← asNat? m, ← strs? t, ← strs? f⟩)
  | [.str "mode", i, m] => pure (.setMode (← asNat? i) (← asNat? m))
  | [.str "tags", i, t] => pure (.setTags (← asNat? i) (← strs? t))
  | [.str "filters", i, t] => pure (.setFilters (← asNat? i) (← strs? t))
  | [.str "parse", i] => pure (.parse (← asNat? i))
  | _ => none

def delimsJson (d : Delims) : Json := jarr [sj d.ts, sj d.te, sj d.ss, sj d.se, sj d.cs, sj d.ce]

/-- `["proc", [op…]]` → per `parse` op: lexer-cache hit?, parser-cache hit?, the delimiters of the lexer
used, the environment the parser refers to, and that environment's mode / tags / filters now -/
def handleProc (args : List Json) : Json :=
  match args with
  | [ops] =>
    match (asArr? ops).bind (mapM? op?) with
    | some ops =>
      let rec go (p : Proc) : List Op → List Json
        | [] => []
        | op :: r =>
          let x := step p op
          let j := match op, x.2 with
            | .parse id, some u =>
              let cfg := p.envs[id]?
              let lh := match cfg with | some c => (find lexerKeyEq p.lexers.entries c.delims).isSome | none => false
              let ph := match cfg with
                | some c => (find parserKeyEq p.parsers.entries ⟨id, (c.delims, c.mode)⟩).isSome | none => false
              Json.mkObj [("lexer_hit", Json.bool lh), ("parser_hit", Json.bool ph), ("lexer", delimsJson u.lexer),
                          ("parser_env", jnat u.parserEnv),
                          ("mode", match u.cfg with | some c => jnat c.mode | none => Json.null),
                          ("tags", match u.cfg with | some c => jarr (c.tags.map jstr) | none => Json.null),
                          ("filters", match u.cfg with | some c => jarr (c.filters.map jstr) | none => Json.null)]
            | _, _ => Json.null
          j :: go x.1 r
      jarr (go Proc.init ops)
    | none => jerr "bad-args"
  | _ => jerr "bad-args"

def commands : List (String × (List Lean.Json → Lean.Json)) :=
  [("lex", handleLex), ("memo", handleMemo), ("proc", handleProc)]
end Driver.C11
