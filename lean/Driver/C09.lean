import Driver.Util
import LiquidVerif.Model.Recur
import LiquidVerif.Model.ParseLoops
open Lean

namespace Driver.C09
open LiquidVerif.Recur

mutual
partial def parseNode (j : Json) : Option Node := do
  let xs ← asArr? j
  match xs with
  | [.str "probe", id] => pure (.probe (← asNat? id))
  | [.str "blk", .str k, _variant, body] =>
      pure (.blk (if k == "when" then .when else .plain) (← parseNodes body))
  | [.str "for", n, _variant, body] => pure (.forn (← asNat? n) (← parseNodes body))
  | [.str "include", name] => pure (.include (← asStr? name))
  | [.str "render", name] => pure (.render (← asStr? name))
  | [.str "macro", name, body] => pure (.macro (← asStr? name) (← parseNodes body))
  | [.str "call", name] => pure (.call (← asStr? name))
  | [.str "extends", name] => pure (.extends (← asStr? name))
  | [.str "block", name, body] => pure (.block (← asStr? name) (← parseNodes body))
  | _ => none
partial def parseNodes (j : Json) : Option (List Node) := do
  let xs ← asArr? j
  xs.mapM parseNode
end

def parseTpls (j : Json) : Option Tpls := do
  let xs ← asArr? j
  xs.mapM fun p => do
    match ← asArr? p with
    | [name, body] => pure ((← asStr? name), (← parseNodes body))
    | _ => none

def errName : Err → String
  | .contextDepth => "ContextDepthError"
  | .inheritance => "TemplateInheritanceError"
  | .notFound => "TemplateNotFoundError"
  | .disabledTag => "DisabledTagError"
  | .assertion => "AssertionError"

def outName : Outcome → String
  | .ok => "ok"
  | .stop => "ok"
  | .err e => errName e

def digestP : Nat := 2305843009213693951   -- 2^61 - 1
def mix (h x : Nat) : Nat := (h * 1000003 + x + 1) % digestP
def digest (tr : List Ev) : Nat :=
  tr.foldl (fun h e => mix (mix (mix (mix h e.id) e.copyDepth) e.scope) e.frames) 7

def maxOf (f : Ev → Nat) (tr : List Ev) : Nat := tr.foldl (fun a e => max a (f e)) 0

/-- `["recur", lax, depth, [[name, nodes]…], mainName, full]` →
    `{"out": "ok"|<error class>, "n": #probe executions, "digest": …, "maxCopy", "maxScope", "maxFrames", "maxPath",
      "evs": [[id, copyDepth, scope, frames]…] (only when full)}` -/
def handle (args : List Json) : Json :=
  match args with
  | [lax, depth, tpls, main, full] =>
    match asBool? lax, asNat? depth, parseTpls tpls, asStr? main, asBool? full with
    | some lax, some depth, some tpls, some main, some full =>
      let r := renderTemplate { lax := lax, depth := depth, templates := tpls } main
      let base := [("out", jstr (outName r.out)), ("n", jnat r.evs.length),
                   ("digest", jstr (toString (digest r.evs))),
                   ("maxCopy", jnat (maxOf (·.copyDepth) r.evs)), ("maxScope", jnat (maxOf (·.scope) r.evs)),
                   ("maxFrames", jnat (maxOf (·.frames) r.evs)), ("maxPath", jnat (maxOf (·.path) r.evs))]
      if full then
        Json.mkObj (base ++ [("evs", jarr (r.evs.map fun e => jarr [jnat e.id, jnat e.copyDepth, jnat e.scope, jnat e.frames]))])
      else Json.mkObj base
    | _, _, _, _, _ => jerr "bad-case"
  | _ => jerr "bad-args"


/-! ### parser loops -/
namespace P
open LiquidVerif.ParseLoops

mutual
partial def parseTok (j : Json) : Option Tok :=
  match j with
  | .str "content" => some .content
  | .str "output" => some .output
  | .str "comment" => some .comment
  | .str "doc" => some .doc
  | .arr a =>
    match a.toList with
    | [.str "tag", .str n] => some (.tag n)
    | [.str "expr", inner] => (parseToks inner).map .expr
    | _ => none
  | _ => none
partial def parseToks (j : Json) : Option (List Tok) := do
  let xs ← asArr? j
  xs.mapM parseTok
end

def errName : LiquidVerif.ParseLoops.Err → String
  | .syntax => "LiquidSyntaxError"
  | .nesting => "BlockNestingError"

/-- `["parse", lax, limit, tokens]` → `{"out": "ok"|<error class>, "skeleton": […] (when ok), "pos": tokens consumed
    from the template stream, "iters": loop iterations (ghost)}` -/
def handle (args : List Json) : Json :=
  match args with
  | [lax, limit, toks] =>
    match asBool? lax, asNat? limit, parseToks toks with
    | some lax, some limit, some toks =>
      let r := parseTemplate { lax := lax, limit := limit } toks
      Json.mkObj [("out", jstr (match r.err with | none => "ok" | some e => errName e)),
                  ("skeleton", match r.err with | none => jarr (r.out.map jstr) | some _ => Json.null),
                  ("pos", jnat (toks.length - r.rest.length)), ("iters", jnat r.iters),
                  ("weight", jnat (wl toks))]
    | _, _, _ => jerr "bad-case"
  | _ => jerr "bad-args"
end P

def commands : List (String × (List Lean.Json → Lean.Json)) := [("recur", handle), ("parse", P.handle)]

end Driver.C09
