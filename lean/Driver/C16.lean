import Driver.Util
import LiquidVerif.Model.UndefKind
import LiquidVerif.Model.FilterRegistry
open Lean LiquidVerif.UndefKind

/-! Line protocol for C16.

* `["c16render", kind, data, stmt]` → `{"ok": out}` | `{"err": "UndefinedError"}` | `{"err": "other"}`
  - kind: `"default" | "strict" | "falsy" | "strictDefault"`
  - data: `null | bool | int | string | [data…] | {"d": [[key, data]…]}` (a dict keeps its insertion order);
    the top-level render data is a dict
  - prim: `["lit", data] | ["path", root, [seg…]]` with seg a string (key) or an int (index)
  - fexpr: `[prim, [[filter, [prim…]]…]]`
  - cond: `["prim", prim] | ["cmp", op, prim, prim] | ["and", cond, cond] | ["or", cond, cond]`
  - stmt: `["nop"] | ["text", s] | ["out", fexpr] | ["assign", name, fexpr] | ["if", cond, stmt, stmt]
          | ["for", var, prim, stmt, stmt] | ["seq", stmt, stmt]`
* `["c16poke", kind, poke]` → `"ok"` | `"UndefinedError"` | `"other"` (the table `pokeErr`)
-/
namespace Driver.C16

def kindOf : String → Option Kind
  | "default" => some .dflt
  | "strict" => some .strict
  | "falsy" => some .falsy
  | "strictDefault" => some .strictDefault
  | _ => none

partial def dataOf (j : Json) : Option Data :=
  match j with
  | .null => some .nil
  | .bool b => some (.bool b)
  | .str s => some (.str s)
  | .num _ => (asInt? j).map .int
  | .arr a => (mapM? dataOf a.toList).map .list
  | .obj _ =>
    match j.getObjVal? "d" with
    | .ok (.arr kvs) =>
      (mapM? (fun kv => match kv with
        | .arr #[.str k, v] => (dataOf v).map (fun d => (k, d))
        | _ => none) kvs.toList).map .dict
    | _ => none

def segOf (j : Json) : Option Seg :=
  match j with
  | .str s => some (.key s)
  | _ => (asInt? j).map .idx

def primOf (j : Json) : Option Prim :=
  match asArr? j with
  | some [.str "lit", d] => (dataOf d).map .lit
  | some [.str "path", .str root, segs] => ((asArr? segs).bind (mapM? segOf)).map (.path root)
  | _ => none

def fcallOf (j : Json) : Option FCall :=
  match asArr? j with
  | some [.str name, args] => ((asArr? args).bind (mapM? primOf)).map (fun a => ⟨name, a⟩)
  | _ => none

def fexprOf (j : Json) : Option FExpr :=
  match asArr? j with
  | some [p, fs] => do
    let h ← primOf p
    let fl ← (asArr? fs).bind (mapM? fcallOf)
    pure ⟨h, fl⟩
  | _ => none

def opOf : String → Option Op
  | "==" => some .eq
  | "!=" => some .ne
  | "<" => some .lt
  | "contains" => some .contains
  | _ => none

partial def condOf (j : Json) : Option Cond :=
  match asArr? j with
  | some [.str "prim", p] => (primOf p).map .prim
  | some [.str "cmp", .str op, l, r] => do pure (.cmp (← opOf op) (← primOf l) (← primOf r))
  | some [.str "and", a, b] => do pure (.and_ (← condOf a) (← condOf b))
  | some [.str "or", a, b] => do pure (.or_ (← condOf a) (← condOf b))
  | _ => none

partial def stmtOf (j : Json) : Option Stmt :=
  match asArr? j with
  | some [.str "nop"] => some .nop
  | some [.str "text", .str s] => some (.text s)
  | some [.str "out", x] => (fexprOf x).map .output
  | some [.str "assign", .str n, x] => (fexprOf x).map (.assign n)
  | some [.str "if", c, t, f] => do pure (.ifs (← condOf c) (← stmtOf t) (← stmtOf f))
  | some [.str "for", .str x, it, body, els] => do pure (.for_ x (← primOf it) (← stmtOf body) (← stmtOf els))
  | some [.str "seq", a, b] => do pure (.seq (← stmtOf a) (← stmtOf b))
  | _ => none

def errJson : Err → Json
  | .undefined => Json.mkObj [("err", jstr "UndefinedError")]
  | .other => Json.mkObj [("err", jstr "other")]

def handleRender (args : List Json) : Json :=
  match args with
  | [.str kind, data, stmt] =>
    match kindOf kind, dataOf data, stmtOf stmt with
    | some k, some (.dict g), some s =>
      match render builtinFilters k { scopes := [], locals := [], globals := g.map (fun kv => (kv.1, Val.data kv.2)) } s with
      | .ok (_, out) => Json.mkObj [("ok", jstr out)]
      | .error e => errJson e
    | _, _, _ => jerr "bad-case"
  | _ => jerr "bad-args"

/-- `["c16renderlax", kind, data, [stmt…]]` → `{"ok": out}`: top-level atomic nodes under `Mode.LAX` -/
def handleRenderLax (args : List Json) : Json :=
  match args with
  | [.str kind, data, stmts] =>
    match kindOf kind, dataOf data, (asArr? stmts).bind (mapM? stmtOf) with
    | some k, some (.dict g), some ss =>
      if ss.all Stmt.atomic then
        Json.mkObj [("ok", jstr (renderLax builtinFilters k
          { scopes := [], locals := [], globals := g.map (fun kv => (kv.1, Val.data kv.2)) } ss).2)]
      else jerr "not-atomic"
    | _, _, _ => jerr "bad-case"
  | _ => jerr "bad-args"

def pokeOf : String → Option Poke
  | "str" => some .str | "iter" => some .iter | "len" => some .len | "getitem" => some .getitem
  | "contains" => some .contains | "int" => some .int | "hash" => some .hash | "reversed" => some .reversed
  | "bool" => some .bool | "eq" => some .eq | "liquid" => some .liquid | "cls" => some .cls | "attr" => some .attr
  | _ => none

def handlePoke (args : List Json) : Json :=
  match args with
  | [.str kind, .str p] =>
    match kindOf kind, pokeOf p with
    | some k, some pk =>
      match pokeErr k pk with
      | none => jstr "ok"
      | some .undefined => jstr "UndefinedError"
      | some .other => jstr "other"
    | _, _ => jerr "bad-case"
  | _ => jerr "bad-args"

def allKinds : List Kind := [.dflt, .strict, .falsy, .strictDefault]

partial def dataJson : Data → Json
  | .nil => Json.null
  | .bool b => Json.bool b
  | .int i => jint i
  | .str s => jstr s
  | .list xs => jarr (xs.map dataJson)
  | .dict kvs => Json.mkObj [("d", jarr (kvs.map fun kv => jarr [jstr kv.1, dataJson kv.2]))]

def raisePattern (ps : List Poke) : Json := jarr (allKinds.map fun k => Json.bool (pokesRaise k ps))

/-- `["c16shape", filter name, input candidates, [argument candidates…]]` → the row of `shapeOf` for that filter:
    which kinds raise `UndefinedError` on an undefined left value / on each positional argument, and whether the plain
    value the operand stands for is among the candidates the implementation accepts (`null` when it stands for none) -/
def handleShape (args : List Json) : Json :=
  match args with
  | [.str name, inCands, argCands] =>
    match LiquidVerif.UndefKind.filterByName name with
    | none => jerr "unknown-filter"
    | some n =>
      let sh := shapeOf n
      let cands (j : Json) : List Json := (asArr? j).getD []
      let inAs : Json := match sh.inUndef with
        | .conv d => Json.bool ((cands inCands).any (fun c => c.compress == (dataJson d).compress))
        | _ => Json.null
      let ac := cands argCands
      let argRows := (sh.args.zip (List.range sh.args.length)).map fun (o, i) =>
        Json.mkObj [("raises", raisePattern o.pokes),
                    ("as", match ac[i]? with
                      | some c => Json.bool ((cands c).any (fun x => x.compress == (dataJson o.asData).compress) || o.pokes.isEmpty)
                      | none => Json.null)]
      Json.mkObj [("input", raisePattern sh.inPokes),
                  ("inKind", jstr (match sh.inUndef with | .conv _ => "conv" | .self => "self" | .arg _ => "arg" | .fail => "fail")),
                  ("inAs", inAs), ("min", jnat sh.minArgs), ("args", jarr argRows),
                  ("special", Json.bool (n.name == "default"))]
  | _ => jerr "bad-args"

def commands : List (String × (List Lean.Json → Lean.Json)) :=
  [("c16render", handleRender), ("c16renderlax", handleRenderLax), ("c16poke", handlePoke), ("c16shape", handleShape)]

end Driver.C16
