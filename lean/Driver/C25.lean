import Driver.Util
import LiquidVerif.Model.Filters
open Lean LiquidVerif.Filters

namespace Driver.C25

/-- wire format of a Python value:
`null`, `true/false`, `{"i":"123"}`, `{"f":["num","den"]}`, `"text"`, `[…]`, `{"d":[[key,val],…]}`, `{"u":1}` -/
partial def toVal (j : Json) : Option Val :=
  match j with
  | .null => some .nil
  | .bool b => some (.bool b)
  | .str s => some (.str s.toList)
  | .arr a => (mapM? toVal a.toList).map .list
  | .obj _ =>
    match j.getObjVal? "i" with
    | .ok v => (asInt? v).map .int
    | .error _ =>
      match j.getObjVal? "f" with
      | .ok (.arr #[n, d]) => do pure (.flt (← asInt? n) (← asNat? d))
      | .ok _ => none
      | .error _ =>
        match j.getObjVal? "d" with
        | .ok (.arr kvs) =>
          (mapM? (fun kv => match kv with
            | .arr #[.str k, v] => (toVal v).map fun x => (k.toList, x)
            | _ => none) kvs.toList).map .dict
        | .ok _ => none
        | .error _ =>
          match j.getObjVal? "u" with
          | .ok _ => some .undef
          | .error _ => none
  | _ => none

partial def ofVal : Val → Json
  | .nil => .null
  | .undef => Json.mkObj [("u", jnat 1)]
  | .bool b => .bool b
  | .int i => Json.mkObj [("i", jstr (toString i))]
  | .flt n d => Json.mkObj [("f", jarr [jstr (toString n), jstr (toString d)])]
  | .str s => jstr (String.ofList s)
  | .list xs => jarr (xs.map ofVal)
  | .dict kvs => Json.mkObj [("d", jarr (kvs.map fun kv => jarr [jstr (String.ofList kv.1), ofVal kv.2]))]

def ofErr : Err → Json
  | .arg => Json.mkObj [("err", jstr "FilterArgumentError")]
  | .value => Json.mkObj [("err", jstr "FilterValueError")]
  | .filter => Json.mkObj [("err", jstr "FilterError")]
  | .unmodelled => Json.mkObj [("err", jstr "unmodelled")]

/-- `["filter", name, left, [args…]]` → `{"ok": value}` | `{"err": class}` -/
def handle (args : List Json) : Json :=
  match args with
  | [.str name, left, as] =>
    match toVal left, (asArr? as).bind (mapM? toVal) with
    | some l, some xs =>
      match applyFilter name l xs with
      | .ok v => Json.mkObj [("ok", ofVal v)]
      | .error e => ofErr e
    | _, _ => jerr "bad-value"
  | _ => jerr "bad-args"

def outcome : R → Json
  | .ok v => Json.mkObj [("ok", ofVal v)]
  | .error e => ofErr e

/-- run the stages until one raises -/
def runChain (cur : Val) : List (String × List Val) → List Json
  | [] => []
  | (name, as) :: rest =>
    match applyFilter name cur as with
    | .ok v => outcome (.ok v) :: runChain v rest
    | .error e => [ofErr e]

/-- `["chain", left, [[name, [args…]], …]]` → the outcome of every stage up to the first error -/
def handleChain (args : List Json) : Json :=
  match args with
  | [left, stages] =>
    let parseStage (j : Json) : Option (String × List Val) :=
      match j with
      | .arr #[.str name, .arr as] => (mapM? toVal as.toList).map fun xs => (name, xs)
      | _ => none
    match toVal left, (asArr? stages).bind (mapM? parseStage) with
    | some l, some st => jarr (runChain l st)
    | _, _ => jerr "bad-value"
  | _ => jerr "bad-args"

/-- `["repr", "num", "den"]` → Python `repr` of that double; `["todouble", "num", "den"]` → nearest double -/
def handleRepr (args : List Json) : Json :=
  match args with
  | [n, d] => match asInt? n, asNat? d with
    | some n, some d => jstr (String.ofList (reprFloat n d))
    | _, _ => jerr "bad-args"
  | _ => jerr "bad-args"

def handleToDouble (args : List Json) : Json :=
  match args with
  | [n, d] => match asInt? n, asNat? d with
    | some n, some d => match toDouble n d with
      | some (a, b) => jarr [jstr (toString a), jstr (toString b)]
      | none => jstr "overflow"
    | _, _ => jerr "bad-args"
  | _ => jerr "bad-args"

/-- `["parsefloat", "text"]` → nearest double of `float(text)` | "ValueError" | "special" | "overflow" -/
def handleParseFloat (args : List Json) : Json :=
  match args with
  | [.str s] =>
    if isSpecialFloatWord (strip s.toList) then jstr "special" else
    match parseFloatDec s.toList with
    | none => jstr "ValueError"
    | some (c, e) => match decToDouble c e with
      | some (a, b) => jarr [jstr (toString a), jstr (toString b)]
      | none => jstr "overflow"
  | _ => jerr "bad-args"

def handleParseInt (args : List Json) : Json :=
  match args with
  | [.str s] => match parseIntStr s.toList with
    | some i => jstr (toString i)
    | none => jstr "ValueError"
  | _ => jerr "bad-args"

def commands : List (String × (List Lean.Json → Lean.Json)) :=
  [("filter", handle), ("chain", handleChain), ("repr", handleRepr), ("todouble", handleToDouble),
   ("parsefloat", handleParseFloat), ("parseint", handleParseInt)]

end Driver.C25
