import Driver.Util
import LiquidVerif.Model.MemoHist
open Lean LiquidVerif.MemoHist

/-! Line protocol for C17.

* `["c17memo", cap, [key…]]` with key = `[pykey…]` → `[creator…]`: for each call of the history, the index of the
  call whose computed value it returns (its own index on a miss, an earlier one on a hit).
  pykey: `null | bool | int | {"f": int} | "text" | {"m": "text"} | {"o": id} | {"dt": [instant, offset]}`
* `["c17eq", key, key]` → `[keyEq, lruKeyEq]`
-/
namespace Driver.C17

def pykeyOf (j : Json) : Option PyKey :=
  match j with
  | .null => some .none
  | .bool b => some (.bool b)
  | .str s => some (.str s)
  | .num _ => (asInt? j).map .int
  | .obj _ =>
    match j.getObjVal? "f", j.getObjVal? "m", j.getObjVal? "o", j.getObjVal? "dt" with
    | .ok f, _, _, _ => (asInt? f).map .float
    | _, .ok (.str s), _, _ => some (.markup s)
    | _, _, .ok o, _ => (asNat? o).map .obj
    | _, _, _, .ok (.arr #[i, off]) => do pure (.datetime (← asInt? i) (← asInt? off))
    | _, _, _, _ => none
  | _ => none

def keyOf (j : Json) : Option (List PyKey) := (asArr? j).bind (mapM? pykeyOf)

def simulate (cap : Nat) : List (List PyKey × Nat) → Nat → List (List PyKey) → List Nat
  | _, _, [] => []
  | m, i, k :: ks =>
    let r := call lruKeyEq (fun _ => i) cap m k
    r.1 :: simulate cap r.2 (i + 1) ks

def handleMemo (args : List Json) : Json :=
  match args with
  | [cap, hist] =>
    match asNat? cap, (asArr? hist).bind (mapM? keyOf) with
    | some c, some h => jarr ((simulate c [] 0 h).map jnat)
    | _, _ => jerr "bad-case"
  | _ => jerr "bad-args"

def handleEq (args : List Json) : Json :=
  match args with
  | [a, b] =>
    match keyOf a, keyOf b with
    | some x, some y => jarr [Json.bool (keyEq x y), Json.bool (lruKeyEq x y)]
    | _, _ => jerr "bad-case"
  | _ => jerr "bad-args"

def lreqOf (j : Json) : Option LReq :=
  match asArr? j with
  | some [.null, .str name] => some ⟨.absent, name⟩
  | some [.str ns, .str name] => some ⟨.val ns, name⟩
  | _ => none

def simulateL (cap : Nat) (nsKeySet : Bool) : List (LReq × Nat) → Nat → List LReq → List Nat
  | _, _, [] => []
  | m, i, r :: rs =>
    let res := call (fun a b => cacheKey nsKeySet a == cacheKey nsKeySet b) (fun _ => i) cap m r
    res.1 :: simulateL cap nsKeySet res.2 (i + 1) rs

/-- `["c17loader", capacity, namespace_key set?, [[ns text | null, name]…]]` → for each request the index of the
    request whose loaded template it is served -/
def handleLoader (args : List Json) : Json :=
  match args with
  | [cap, .bool nk, hist] =>
    match asNat? cap, (asArr? hist).bind (mapM? lreqOf) with
    | some c, some h => jarr ((simulateL c nk [] 0 h).map jnat)
    | _, _ => jerr "bad-case"
  | _ => jerr "bad-args"

def commands : List (String × (List Lean.Json → Lean.Json)) :=
  [("c17memo", handleMemo), ("c17eq", handleEq), ("c17loader", handleLoader)]

end Driver.C17
