import Driver.Util
import LiquidVerif.Model.Printer
import LiquidVerif.Model.ExprParse
open Lean LiquidVerif.BoolParse LiquidVerif.Printer LiquidVerif.ExprParse

namespace Driver.C04

def optJ {α} (f : Json → Option α) (j : Json) : Option (Option α) :=
  match j with
  | .null => some none
  | _ => (f j).map some

partial def segsOf (js : List Json) : Option Segs :=
  match js with
  | [] => some .nil
  | j :: r => do
    let s ← (match asArr? j with
      | some [.str "n", .str s] => some (Seg.name s)
      | some [.str "i", i] => (asInt? i).map Seg.idx
      | some [.str "p", p] => do let l ← asArr? p; let ss ← segsOf l; pure (Seg.sub ss)
      | _ => none)
    let rs ← segsOf r
    pure (.cons s rs)

partial def primOf (j : Json) : Option Prim :=
  match asArr? j with
  | some [.str "nil"] => some .nil
  | some [.str "true"] => some .tru
  | some [.str "false"] => some .fals
  | some [.str "empty"] => some .empty
  | some [.str "blank"] => some .blank
  | some [.str "int", i] => (asInt? i).map Prim.int
  | some [.str "float", .str t] => some (.float t)
  | some [.str "str", .str v] => some (.str v)
  | some [.str "word", .str v] => some (.word v)
  | some [.str "range", a, b] => do pure (.range (← primOf a) (← primOf b))
  | some [.str "path", p] => do let l ← asArr? p; pure (.path (← segsOf l))
  | _ => none

def cmpOf : String → Option (Cmp)
  | "==" => some .eq | "!=" => some .ne | "<" => some .lt | ">" => some .gt
  | "<=" => some .le | ">=" => some .ge | "contains" => some .contains | _ => none

/-- logical expression: tree + atom table (atoms numbered in order of appearance) -/
partial def boolOf (j : Json) (atoms : List Prim) : Option (E × List Prim) :=
  match asArr? j with
  | some [.str "and", l, r] => do
    let (a, t1) ← boolOf l atoms; let (b, t2) ← boolOf r t1; pure (.and a b, t2)
  | some [.str "or", l, r] => do
    let (a, t1) ← boolOf l atoms; let (b, t2) ← boolOf r t1; pure (.or a b, t2)
  | some [.str "not", x] => do
    let (a, t1) ← boolOf x atoms; pure (.not a, t1)
  | some [.str "cmp", .str op, l, r] => do
    let c ← cmpOf op
    let (a, t1) ← boolOf l atoms; let (b, t2) ← boolOf r t1; pure (.cmp c a b, t2)
  | some [.str "atom", n] => do let k ← asNat? n; pure (.atom k, atoms)
  | _ => do let p ← primOf j; pure (.atom atoms.length, atoms ++ [p])

def boolX (j : Json) : Option BoolX := (boolOf j []).map fun (e, t) => { e := e, atoms := t }

def argOf (j : Json) : Option Arg :=
  match asArr? j with
  | some [.null, v] => (primOf v).map fun p => { name := none, val := p }
  | some [.str n, v] => (primOf v).map fun p => { name := some n, val := p }
  | _ => none

def argsOf (j : Json) : Option (List Arg) := (asArr? j).bind (mapM? argOf)

def filterOf (j : Json) : Option Filter :=
  match asArr? j with
  | some [.str n, args] => (argsOf args).map fun a => { name := n, args := a }
  | _ => none

def filtersOf (j : Json) : Option (List Filter) := (asArr? j).bind (mapM? filterOf)

def exprOf (j : Json) : Option Expr :=
  match asArr? j with
  | some [.str "prim", p] => (primOf p).map Expr.prim
  | some [.str "filtered", l, fs] => do pure (.filtered (← primOf l) (← filtersOf fs))
  | some [.str "ternary", l, lfs, c, alt, fs, tail] => do
    pure (.ternary (← primOf l) (← filtersOf lfs) (← boolX c) (← optJ primOf alt) (← filtersOf fs) (← filtersOf tail))
  | _ => none

def loopOf (j : Json) : Option LoopX :=
  match asArr? j with
  | some [.str ident, it, lim, off, cols, .bool rev] => do
    pure { ident := ident, iterable := ← primOf it, limit := ← optJ primOf lim, offset := ← optJ primOf off,
           cols := ← optJ primOf cols, reversed := rev }
  | _ => none

def optStr (j : Json) : Option (Option String) :=
  match j with | .null => some none | .str s => some (some s) | _ => none

mutual
partial def nodeOf (j : Json) : Option Node :=
  match asArr? j with
  | some [.str "content", .str t] => some (.content t)
  | some [.str "output", e] => (exprOf e).map Node.output
  | some [.str "echo", e] => (exprOf e).map Node.echo
  | some [.str "assign", .str n, e] => (exprOf e).map (Node.assign n)
  | some [.str "capture", .str n, b] => (nodesOf b).map (Node.capture n)
  | some [.str "if", .bool u, c, b, alts, d] => do
    pure (.ifN u (← boolX c) (← nodesOf b) (← nodesOf alts) (← optJ nodesOf d))
  | some [.str "elsif", c, b] => do pure (.elsif (← boolX c) (← nodesOf b))
  | some [.str "case", e, bs] => do pure (.caseN (← primOf e) (← nodesOf bs))
  | some [.str "when", es, b] => do pure (.when (← (asArr? es).bind (mapM? primOf)) (← nodesOf b))
  | some [.str "else", b] => (nodesOf b).map Node.elseBlock
  | some [.str "for", l, b, d] => do pure (.forN (← loopOf l) (← nodesOf b) (← optJ nodesOf d))
  | some [.str "tablerow", l, b] => do pure (.tablerow (← loopOf l) (← nodesOf b))
  | some [.str "break"] => some .brk
  | some [.str "continue"] => some .cont
  | some [.str "cycle", g, args] => do pure (.cycle (← optJ primOf g) (← (asArr? args).bind (mapM? primOf)))
  | some [.str "increment", .str n] => some (.incr n)
  | some [.str "decrement", .str n] => some (.decr n)
  | some [.str "ifchanged", b] => (nodesOf b).map Node.ifchanged
  | some [.str "include", n, v, a, args] => do
    pure (.includeN (← primOf n) (← optJ primOf v) (← optStr a) (← argsOf args))
  | some [.str "render", n, v, .bool lp, a, args] => do
    pure (.renderN (← primOf n) (← optJ primOf v) lp (← optStr a) (← argsOf args))
  | some [.str "liquid", t] => (optStr t).map Node.liquid
  | some [.str "comment", .str t] => some (.comment t)
  | some [.str "inline_comment", .str t] => some (.inlineComment t)
  | some [.str "doc", .str t] => some (.doc t)
  | _ => none
partial def nodesOf (j : Json) : Option Nodes :=
  match asArr? j with
  | some l => l.foldr (fun x acc => do let r ← acc; let n ← nodeOf x; pure (.cons n r)) (some .nil)
  | none => none
end

/-- `["c04_print", [node…]]` → `{"str": text}` : the model's `str(template)` -/
def handlePrint (args : List Json) : Json :=
  match args with
  | [ns] => match nodesOf ns with
    | some t => Json.mkObj [("str", jstr (strNodes t))]
    | none => jerr "bad-ast"
  | _ => jerr "bad-args"

def eJson : E → Json
  | .atom n => jarr [jstr "atom", jnat n]
  | .and l r => jarr [jstr "and", eJson l, eJson r]
  | .or l r => jarr [jstr "or", eJson l, eJson r]
  | .not x => jarr [jstr "not", eJson x]
  | .cmp c l r => jarr [jstr "cmp", jstr (cmpStr c), eJson l, eJson r]

def tokJson : Tok → Json
  | .atom n => jarr [jstr "atom", jnat n]
  | t => jstr (tokStr [] t)

def tokOf (j : Json) : Option Tok :=
  match j with
  | .str "and" => some .and | .str "or" => some .or | .str "not" => some .not
  | .str "(" => some .lp | .str ")" => some .rp | .str "<>" => some .lg
  | .str s => (cmpOf s).map Tok.cmp
  | _ => match asArr? j with
    | some [.str "atom", n] => (asNat? n).map Tok.atom
    | some [.str "other", n] => (asNat? n).map Tok.other
    | _ => none

/-- `["c04_bool", tree]` (atoms `["atom", n]`) → printed tokens, the model parser's reading of them,
and the text with atoms named `a0, a1, …` -/
def handleBool (args : List Json) : Json :=
  match args with
  | [j] => match boolOf j [] with
    | some (e, _) =>
      let toks := printBool e
      let names := (List.range 16).map fun i => Prim.word ("a" ++ toString i)
      Json.mkObj [("toks", jarr (toks.map tokJson)),
                  ("text", jstr (joinToks names none toks)),
                  ("reparse", match parseAll toks with | some e' => eJson e' | none => Json.null),
                  ("orig_text", jstr (joinToks names none (printBOrig 0 e))),
                  ("orig_reparse", match parseAll (printBOrig 0 e) with | some e' => eJson e' | none => Json.null)]
    | none => jerr "bad-expr"
  | _ => jerr "bad-args"

/-- `["c04_parse", [tok…]]` → tree or null : the model parser on an arbitrary token list -/
def handleParse (args : List Json) : Json :=
  match args with
  | [ts] => match (asArr? ts).bind (mapM? tokOf) with
    | some toks => match parseAll toks with | some e => eJson e | none => Json.null
    | none => jerr "bad-tokens"
  | _ => jerr "bad-args"

/-- `["c04_str", value]` → printed literal and what the lexer's string rule reads back -/
def handleStr (args : List Json) : Json :=
  match args with
  | [.str v] =>
    let printed := quoteStr v.toList
    Json.mkObj [("printed", jstr (String.ofList printed)),
                ("scan", match scanString printed with
                  | some (w, rest) => jarr [jstr (String.ofList w), jstr (String.ofList rest)]
                  | none => Json.null),
                ("orig_printed", jstr (String.ofList (reprOrig v.toList)))]
  | _ => jerr "bad-args"

def ptokJson : PTok → Json
  | .word s => jarr [jstr "word", jstr s]
  | .identstring s => jarr [jstr "identstring", jstr s]
  | .identindex i => jarr [jstr "identindex", jstr (toString i)]
  | .lbracket => jstr "lbracket" | .rbracket => jstr "rbracket" | .dot => jstr "dot"
  | .other _ => jstr "other"

mutual
partial def segJson : Seg → Json
  | .name s => jarr [jstr "n", jstr s]
  | .idx i => jarr [jstr "i", jstr (toString i)]
  | .sub p => jarr [jstr "p", jarr (segsJson p)]
partial def segsJson : Segs → List Json
  | .nil => []
  | .cons s r => segJson s :: segsJson r
end

/-- `["c04_path", [seg…]]` → the tokens of the printed path and `Path.parse` of those tokens -/
def handlePath (args : List Json) : Json :=
  match args with
  | [p] => match (asArr? p).bind segsOf with
    | some segs =>
      let toks := tokSegs true segs
      Json.mkObj [("toks", jarr (toks.map ptokJson)),
                  ("text", jstr (strSegs true segs)),
                  ("reparse", match parsePath toks with
                    | some (q, []) => jarr (segsJson q)
                    | _ => Json.null)]
    | none => jerr "bad-path"
  | _ => jerr "bad-args"

/-! ### deepening: expression tokens -/

def kwKinds : List String :=
  ["true", "false", "nil", "null", "empty", "blank", "and", "or", "contains", "not", "in", "offset",
   "limit", "reversed", "cols", "continue", "with", "for", "as", "if", "else", "required"]

/-- `[kind, value]` as yielded by the real `tokenize` -/
def xtokOf (j : Json) : Option XTok :=
  match asArr? j with
  | some [.str kind, .str value] =>
    if kwKinds.contains kind then some (.kw kind) else
    match kind with
    | "word" => some (.word value)
    | "identstring" => some (.identstring value)
    | "identindex" => value.toInt?.map XTok.identindex
    | "lbracket" => some .lbracket | "rbracket" => some .rbracket | "dot" => some .dot
    | "string" => some (.str value)
    | "integer" => value.toInt?.map XTok.int
    | "float" => some (.float value)
    | "rangeexpression" => some .rangelit | "range" => some .range
    | "lparen" => some .lparen | "rparen" => some .rparen
    | "colon" => some .colon | "comma" => some .comma | "pipe" => some .pipe | "dpipe" => some .dpipe
    | "eq" => some (.op .eq) | "ne" => some (.op .ne) | "lt" => some (.op .lt) | "gt" => some (.op .gt)
    | "le" => some (.op .le) | "ge" => some (.op .ge) | "ltgt" => some .lg | "assign" => some .assign
    | _ => none
  | _ => none

def xtokJson : XTok → Json
  | .word s => jarr [jstr "word", jstr s]
  | .identstring s => jarr [jstr "identstring", jstr s]
  | .identindex i => jarr [jstr "identindex", jstr (toString i)]
  | .lbracket => jstr "lbracket" | .rbracket => jstr "rbracket" | .dot => jstr "dot"
  | .str v => jarr [jstr "string", jstr v]
  | .int i => jarr [jstr "integer", jstr (toString i)]
  | .float t => jarr [jstr "float", jstr t]
  | .kw k => jstr k
  | .rangelit => jstr "rangeexpression" | .range => jstr "range" | .lparen => jstr "lparen" | .rparen => jstr "rparen"
  | .colon => jstr "colon" | .comma => jstr "comma" | .pipe => jstr "pipe" | .dpipe => jstr "dpipe"
  | .op c => jstr (cmpStr c) | .lg => jstr "ltgt" | .assign => jstr "assign"

partial def primJson : Prim → Json
  | .nil => jarr [jstr "nil"] | .tru => jarr [jstr "true"] | .fals => jarr [jstr "false"]
  | .empty => jarr [jstr "empty"] | .blank => jarr [jstr "blank"]
  | .int i => jarr [jstr "int", jstr (toString i)]
  | .float t => jarr [jstr "float", jstr t]
  | .str v => jarr [jstr "str", jstr v]
  | .range a b => jarr [jstr "range", primJson a, primJson b]
  | .path p => jarr [jstr "path", jarr (segsJson p)]
  | .word s => jarr [jstr "word", jstr s]

def optPrimJson : Option Prim → Json
  | some p => primJson p
  | none => Json.null

def loopJson (l : LoopX) : Json :=
  jarr [jstr l.ident, primJson l.iterable, optPrimJson l.limit, optPrimJson l.offset, optPrimJson l.cols, Json.bool l.reversed]

def argJson (a : Arg) : Json :=
  jarr [match a.name with | some n => jstr n | none => Json.null, primJson a.val]

def filtersJson (fs : List Filter) : Json :=
  jarr (fs.map fun f => jarr [jstr f.name, jarr (f.args.map argJson)])

/-- `["c04_xloop", [[kind,value]…]]` → model `LoopExpression.parse` (tree or null) and, when it parses, the
model's tokens of its `__str__` -/
def handleXLoop (args : List Json) : Json :=
  match args with
  | [ts] => match (asArr? ts).bind (mapM? xtokOf) with
    | some toks => match loopParse toks with
      | some l => Json.mkObj [("tree", loopJson l), ("str_toks", jarr ((tokLoop l).map xtokJson)), ("text", jstr (strLoop l))]
      | none => Json.mkObj [("tree", Json.null)]
    | none => jerr "bad-tokens"
  | _ => jerr "bad-args"

/-- `["c04_xfilt", [[kind,value]…]]` → model `FilteredExpression.parse` for expressions without `if` -/
def handleXFilt (args : List Json) : Json :=
  match args with
  | [ts] => match (asArr? ts).bind (mapM? xtokOf) with
    | some toks =>
      match filteredParse (C := Unit) (fun _ => none) toks with
      | some (.filtered l fs) =>
        Json.mkObj [("tree", jarr [jstr "filtered", primJson l, filtersJson fs]),
                    ("str_toks", jarr ((tokFExpr (C := Unit) (fun _ => []) (.filtered l fs)).map xtokJson))]
      | _ => Json.mkObj [("tree", Json.null)]
    | none => jerr "bad-tokens"
  | _ => jerr "bad-args"

def commands : List (String × (List Lean.Json → Lean.Json)) :=
  [("c04_print", handlePrint), ("c04_bool", handleBool), ("c04_parse", handleParse), ("c04_str", handleStr),
   ("c04_path", handlePath), ("c04_xloop", handleXLoop), ("c04_xfilt", handleXFilt)]

end Driver.C04
