import Lean.Data.Json
/-! JSON helpers for the line protocol. -/
open Lean

namespace Driver

def jstr (s : String) : Json := Json.str s
def jnat (n : Nat) : Json := Json.num (JsonNumber.fromNat n)
def jint (n : Int) : Json := Json.num (JsonNumber.fromInt n)
def jarr (xs : List Json) : Json := Json.arr xs.toArray
def jerr (msg : String) : Json := Json.mkObj [("error", Json.str msg)]

def asArr? (j : Json) : Option (List Json) := match j with | .arr a => some a.toList | _ => none
def asStr? (j : Json) : Option String := match j with | .str s => some s | _ => none
def asInt? (j : Json) : Option Int :=
  match j with
  | .num n => if n.exponent == 0 then some n.mantissa else none
  | .str s => s.toInt?          -- big integers travel as decimal strings
  | _ => none
def asNat? (j : Json) : Option Nat := match asInt? j with | some i => if i ≥ 0 then some i.toNat else none | none => none
def asBool? (j : Json) : Option Bool := match j with | .bool b => some b | _ => none

def mapM? {α β} (f : α → Option β) : List α → Option (List β)
  | [] => some []
  | x :: xs => do let y ← f x; let ys ← mapM? f xs; pure (y :: ys)

end Driver
