import Driver.Util
import LiquidVerif.Model.Analysis
open Lean LiquidVerif.Analysis

namespace Driver.C19

def parseRef (j : Json) : Option PRef := do
  match ← asArr? j with
  | [r, p] => pure ⟨← asStr? r, ← asNat? p⟩
  | _ => none

def parseExpr (j : Json) : Option Expr := do
  match ← asArr? j with
  | [rs, fs] => pure ⟨← (← asArr? rs).mapM parseRef, ← (← asArr? fs).mapM asStr?⟩
  | _ => none

def strs (j : Json) : Option (List String) := do (← asArr? j).mapM asStr?

/-- `[tag|null, index, [expr…], [template_scope…], [block_scope…], seals]` -/
def parseHdr (j : Json) : Option Hdr := do
  match ← asArr? j with
  | [t, p, es, ts, bs, s] =>
    let tag ← match t with
      | .null => pure none
      | _ => pure (some (← asStr? t, ← asNat? p))
    pure ⟨tag, ← (← asArr? es).mapM parseExpr, ← strs ts, ← strs bs, ← asBool? s⟩
  | _ => none

mutual
/-- `["n", hdr, [child…]]` or `["p", hdr, iso, name, [argName…], bound|null, [bodyNode…]]` -/
partial def parseNode (j : Json) : Option Node := do
  match ← asArr? j with
  | [.str "n", h, cs] => pure (.plain (← parseHdr h) (← parseNodes cs))
  | [.str "p", h, iso, name, args, bound, body] =>
    let b ← match bound with
      | .null => pure none
      | _ => pure (some (← asStr? bound))
    pure (.part (← parseHdr h) (← asBool? iso) (← asStr? name) (← strs args) b (← parseNodes body))
  | _ => none
partial def parseNodes (j : Json) : Option Nodes := do
  let xs ← asArr? j
  let ns ← xs.mapM parseNode
  pure (ns.foldr Nodes.cons Nodes.nil)
end

def locJson (l : Loc) : Json := jarr [jstr l.root, jstr l.tmpl, jnat l.pos]

def evJson : Ev → Json
  | .get l exc => jarr [jstr "get", jstr l.root, jstr l.tmpl, jnat l.pos, Json.bool exc]
  | .filt f => jarr [jstr "filter", jstr f]
  | .tag t => jarr [jstr "tag", jstr t]

/-- `["c19analyze", rootName, [node…], [event…]]` → which of the given (traced) events no model render
can emit, the five reported collections (as lists, in model order),
the events some render can emit (`reach`) and whether the hypotheses of the partial theorem hold. -/
def parseEv (j : Json) : Option Ev := do
  match ← asArr? j with
  | [.str "get", r, t, p, e] => pure (.get ⟨← asStr? r, ← asStr? t, ← asNat? p⟩ (← asBool? e))
  | [.str "filter", f] => pure (.filt (← asStr? f))
  | [.str "tag", t] => pure (.tag (← asStr? t))
  | _ => none

def handle (args : List Json) : Json :=
  match args with
  | [name, nodes, evs] =>
    match asStr? name, parseNodes nodes, (asArr? evs).bind (mapM? parseEv) with
    | some tmpl, some ns, some evs =>
      let st := analyze ns tmpl
      let rs := reach ns tmpl
      Json.mkObj [
        ("unreached", jarr ((evs.filter fun e => !rs.contains e).map evJson)),
        ("variables", jarr (st.vars.map locJson)),
        ("globals", jarr (st.globs.map locJson)),
        ("locals", jarr (st.locs.map jstr)),
        ("filters", jarr (st.filters.map jstr)),
        ("tags", jarr (st.tags.map fun t => jarr [jstr t.1, jstr t.2.1, jnat t.2.2])),
        ("hyp", Json.bool (decide ((tmpl :: partNamesNodes ns).Nodup) && noDeadIncNodes ns false)),
        ("sound", Json.bool (rs.all (evOk st))),
        ("first", Json.bool (rs.all (evOk1 st))),
        ("hyp2", Json.bool (hyp2b ns tmpl))]
    | _, _, _ => jerr "bad-tree"
  | _ => jerr "bad-args"

/-- `["render", rootName, [node…], [bool…]]` → the trace of the choice-driven render. -/
def handleRender (args : List Json) : Json :=
  match args with
  | [name, nodes, ch] =>
    match asStr? name, parseNodes nodes, (asArr? ch).bind (mapM? asBool?) with
    | some tmpl, some ns, some ch => jarr ((render ns tmpl ch).map evJson)
    | _, _, _ => jerr "bad-tree"
  | _ => jerr "bad-args"

def commands : List (String × (List Lean.Json → Lean.Json)) :=
  [("c19analyze", handle), ("c19render", handleRender)]

end Driver.C19
