import Driver.Util
import LiquidVerif.Model.TagAudit
import LiquidVerif.Gen.C21Tables
open Lean LiquidVerif.TagAudit

namespace Driver.C21

/-- strip leading "end" prefixes: `"endendx"` ↦ `(2, "x")` -/
def splitEnds : List Char → Nat × List Char
  | 'e' :: 'n' :: 'd' :: rest => let (k, r) := splitEnds rest; (k + 1, r)
  | cs => (0, cs)

def toName (s : String) : TagName :=
  let (k, r) := splitEnds s.toList
  ⟨k, String.ofList r⟩

def ofName (n : TagName) : String := String.join (List.replicate n.ends "end") ++ n.stem

def envOf (s : String) : Option EnvTable :=
  if s == "default" then some LiquidVerif.Gen.C21.defaultEnv
  else if s == "extra" then some LiquidVerif.Gen.C21.extraEnv
  else none

def names (l : List TagName) : Json := jarr (l.map fun n => jstr (ofName n))

def auditJson (tbl : EnvTable) (toks : List TagName) : Json :=
  match audit tbl toks with
  | .error .indexError => jstr "IndexError"
  | .ok r => Json.mkObj [("unclosed", names r.unclosed), ("unexpected", names r.unexpected), ("unknown", names r.unknown)]

/-- `["c21", env, [source tag names]]` → tokens the lexer yields, strict/restricted parse verdicts on
those tokens, and the audit of those tokens.  `["c21tok", env, [token names]]` skips the lexer model. -/
def parseMap (j : Json) : Option (List (TagName × List TagName)) := do
  let rows ← asArr? j
  mapM? (fun r => do
    match (← asArr? r) with
    | [b, inns] => pure (toName (← asStr? b), (← (asArr? inns).bind (mapM? asStr?)).map toName)
    | _ => none) rows

/-- `["c21inner", env, [[block, [inner…]]…], [source tag names]]`: the same with a caller-supplied inner-tag map -/
def handleInner (args : List Json) : Json :=
  match args with
  | [e, m, ts] =>
    match (asStr? e).bind envOf, parseMap m, (asArr? ts).bind (mapM? asStr?) with
    | some tbl0, some mp, some ss =>
      let tbl := withInner tbl0 mp
      let toks := lexTags (ss.map toName)
      Json.mkObj [("tokens", names toks),
                  ("parse", Json.bool (strictParses tbl toks)),
                  ("noskip", Json.bool (parses tbl ⟨true, true, false⟩ toks)),
                  ("audit", auditJson tbl toks)]
    | _, _, _ => jerr "bad-args"
  | _ => jerr "bad-args"

def handleWith (lexed : Bool) (args : List Json) : Json :=
  match args with
  | [e, ts] =>
    match (asStr? e).bind envOf, (asArr? ts).bind (mapM? asStr?) with
    | some tbl, some ss =>
      let src := ss.map toName
      let toks := if lexed then lexTags src else src
      Json.mkObj [("tokens", names toks),
                  ("parse", Json.bool (strictParses tbl toks)),
                  ("restricted", Json.bool (parses tbl Opts.restricted toks)),
                  ("noskip", Json.bool (parses tbl ⟨true, true, false⟩ toks)),
                  ("audit", auditJson tbl toks)]
    | _, _ => jerr "bad-args"
  | _ => jerr "bad-args"

end Driver.C21

namespace Driver.C21
def commands : List (String × (List Lean.Json → Lean.Json)) :=
  [("c21", handleWith true), ("c21tok", handleWith false), ("c21inner", handleInner)]
end Driver.C21
