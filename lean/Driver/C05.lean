import Driver.Util
import LiquidVerif.Model.Escape
import LiquidVerif.Model.Taint
open Lean LiquidVerif.Escape LiquidVerif.Taint

namespace Driver.C05

def js (s : Str) : Json := Json.str (String.ofList s)

def tstrJson (t : TStr) : Json := Json.mkObj [("s", js t.chars), ("m", Json.bool t.safe)]

def valJson : Val → Json
  | .str t => tstrJson t
  | .arr xs => Json.mkObj [("a", jarr (xs.map tstrJson))]
  | .num n => Json.mkObj [("n", jstr (toString n))]
  | .nil => Json.null
  | .undef => Json.mkObj [("u", jnat 1)]
  | .bool b => Json.bool b
  | .obj h t => Json.mkObj [("h", js h), ("t", js t)]
  | .other t => Json.mkObj [("x", js t)]

def field? (j : Json) (k : String) : Option Json := (j.getObjVal? k).toOption

def parseTStr (j : Json) : Option TStr := do
  let s ← asStr? (← field? j "s")
  let m ← asBool? (← field? j "m")
  pure ⟨s.toList, m⟩

def parseVal (j : Json) : Option Val :=
  match j with
  | .null => some .nil
  | .bool b => some (.bool b)
  | _ =>
    match field? j "s" with
    | some _ => (parseTStr j).map .str
    | none =>
      match field? j "a" with
      | some a => do let xs ← asArr? a; let ys ← mapM? parseTStr xs; pure (.arr ys)
      | none =>
        match field? j "n" with
        | some n => (asInt? n).map .num
        | none =>
          match field? j "h", field? j "t" with
          | some h, some t => do pure (.obj (← asStr? h).toList (← asStr? t).toList)
          | _, _ =>
            match field? j "x" with
            | some t => (asStr? t).map fun t => .other t.toList
            | none => match field? j "u" with | some _ => some .undef | none => none

def parseArg (j : Json) : Option Arg :=
  match j with
  | .null => some .nil
  | _ =>
    match field? j "lit", field? j "var", field? j "int" with
    | some s, _, _ => (asStr? s).map fun x => .lit x.toList
    | _, some n, _ => (asStr? n).map .var
    | _, _, some i => (asInt? i).map .int
    | _, _, _ => none

def fnames : List (String × FName) := [
  ("append", .append), ("prepend", .prepend), ("upcase", .upcase), ("downcase", .downcase), ("capitalize", .capitalize),
  ("escape", .escape), ("escape_once", .escape_once), ("lstrip", .lstrip), ("rstrip", .rstrip), ("strip", .strip),
  ("remove", .remove), ("remove_first", .remove_first), ("remove_last", .remove_last), ("replace", .replace),
  ("replace_first", .replace_first), ("replace_last", .replace_last), ("slice", .slice), ("split", .split),
  ("strip_html", .strip_html), ("strip_newlines", .strip_newlines), ("newline_to_br", .newline_to_br),
  ("truncate", .truncate), ("truncatewords", .truncatewords), ("url_encode", .url_encode), ("url_decode", .url_decode),
  ("base64_encode", .base64_encode), ("base64_decode", .base64_decode), ("base64_url_safe_encode", .base64_url_safe_encode),
  ("base64_url_safe_decode", .base64_url_safe_decode), ("squish", .squish), ("safe", .safe), ("escapejs", .escapejs),
  ("join", .join), ("first", .first), ("last", .last), ("reverse", .reverse), ("concat", .concat), ("size", .size),
  ("default", .default)]

def parseFCall (j : Json) : Option FCall := do
  match ← asArr? j with
  | [n, as] =>
    let name ← fnames.lookup (← asStr? n)
    let args ← mapM? parseArg (← asArr? as)
    pure ⟨name, args⟩
  | _ => none

partial def parseCond (j : Json) : Option Cond := do
  match ← asArr? j with
  | [.str "truthy", a] => pure (.truthy (← parseArg a))
  | [.str "eq", a, b] => pure (.eq (← parseArg a) (← parseArg b))
  | [.str "contains", a, b] => pure (.contains (← parseArg a) (← parseArg b))
  | [.str "not", c] => pure (.not (← parseCond c))
  | [.str "and", c, d] => pure (.and (← parseCond c) (← parseCond d))
  | [.str "or", c, d] => pure (.or (← parseCond c) (← parseCond d))
  | _ => none

def parseChain (j : Json) : Option (Arg × List FCall) := do
  let h ← parseArg (← field? j "h")
  let fs ← mapM? parseFCall (← asArr? (← field? j "f"))
  pure (h, fs)

def parseExpr (j : Json) : Option Expr := do
  let (h, fs) ← parseChain j
  match field? j "c" with
  | none => pure (.chain h fs)
  | some c =>
    let cond ← parseCond c
    let alt ← match field? j "alt" with
      | none => pure none
      | some .null => pure none
      | some a => (parseChain a).map some
    let tail ← mapM? parseFCall (← asArr? (← field? j "tail"))
    pure (.ternary h fs cond alt tail)

def parsePiece (j : Json) : Option Piece := do
  match ← asArr? j with
  | [.str "t", s] => pure (.text (← asStr? s).toList)
  | [.str "v", n] => pure (.var (← asStr? n))
  | _ => none

def parseKwArg (j : Json) : Option (String × Arg) := do
  match ← asArr? j with
  | [k, a] => pure (← asStr? k, ← parseArg a)
  | _ => none

def parseKwExpr (j : Json) : Option (String × Expr) := do
  match ← asArr? j with
  | [k, e] => pure (← asStr? k, ← parseExpr e)
  | _ => none

partial def parseNode (j : Json) : Option Node := do
  match ← asArr? j with
  | [.str "text", s] => pure (.text (← asStr? s).toList)
  | [.str "output", e] => pure (.output (← parseExpr e))
  | [.str "assign", n, e] => pure (.assign (← asStr? n) (← parseExpr e))
  | [.str "capture", n, b] => pure (.capture (← asStr? n) (← mapM? parseNode (← asArr? b)))
  | [.str "cycle", as] => pure (.cycle (← mapM? parseArg (← asArr? as)))
  | [.str "for", x, e, b, d] =>
    pure (.for_ (← asStr? x) (← parseExpr e) (← mapM? parseNode (← asArr? b)) (← mapM? parseNode (← asArr? d)))
  | [.str "if", c, t, e] => pure (.if_ (← parseCond c) (← mapM? parseNode (← asArr? t)) (← mapM? parseNode (← asArr? e)))
  | [.str "include", as, b] => pure (.include (← mapM? parseKwArg (← asArr? as)) (← mapM? parseNode (← asArr? b)))
  | [.str "render", as, b] => pure (.render (← mapM? parseKwArg (← asArr? as)) (← mapM? parseNode (← asArr? b)))
  | [.str "translate", as, m] => pure (.translate (← mapM? parseKwExpr (← asArr? as)) (← mapM? parsePiece (← asArr? m)))
  | _ => none

def parseData (j : Json) : Option Env := do
  mapM? (fun p => do
    match ← asArr? p with
    | [k, v] => pure (← asStr? k, ← parseVal v)
    | _ => none) (← asArr? j)

/-- marker returned by an opaque function whose input the implementation never saw -/
def missMark : Str := [Char.ofNat 0xE000, 'M', 'I', 'S', 'S']

def lookupStr (tbl : List (Str × Str)) (k : Str) : Str := (tbl.lookup k).getD missMark

def parseStrTable (j : Option Json) : List (Str × Str) :=
  match j with
  | none => []
  | some j =>
    ((asArr? j).getD []).filterMap fun p =>
      match asArr? p with
      | some [.str a, .str b] => some (a.toList, b.toList)
      | _ => none

def parsePrims (j : Json) : Prims :=
  let un := parseStrTable (field? j "unescape")
  let sp := parseStrTable (field? j "strip")
  let uq := parseStrTable (field? j "unquote")
  let b64 : List ((Nat × Str) × Option Str) :=
    (((field? j "b64").bind asArr?).getD []).filterMap fun p =>
      match asArr? p with
      | some [k, .str a, .str b] => (asNat? k).map fun k => ((k, a.toList), some b.toList)
      | some [k, .str a, .null] => (asNat? k).map fun k => ((k, a.toList), none)
      | _ => none
  let ls : List (List TStr × Str) :=
    (((field? j "liststr").bind asArr?).getD []).filterMap fun p =>
      match asArr? p with
      | some [xs, .str b] => ((asArr? xs).bind (mapM? parseTStr)).map fun xs => (xs, b.toList)
      | _ => none
  { unescape := lookupStr un, stripParse := lookupStr sp, unquote := lookupStr uq,
    b64 := fun k s => (b64.lookup (k, s)).getD (some missMark),
    listStr := fun xs => (ls.lookup xs).getD missMark }

def hasMiss (s : Str) : Bool := s.contains (Char.ofNat 0xE000)

def errJson : Err → Json
  | .filter => Json.mkObj [("err", jstr "error")]
  | .unmodelled => Json.mkObj [("err", jstr "unmodelled")]

def valMiss : Val → Bool
  | .str t => hasMiss t.chars
  | .arr xs => xs.any fun t => hasMiss t.chars
  | _ => false

/-- `["c05render", auto, nodes, data, prims]` → `{"ok": out, "skel": skeleton}` | `{"err": …}` -/
def handleRender (args : List Json) : Json :=
  match args with
  | [auto, nodes, data, prims] =>
    match asBool? auto, (asArr? nodes).bind (mapM? parseNode), parseData data with
    | some auto, some nodes, some data =>
      match render (parsePrims prims) auto nodes data with
      | .ok out => if hasMiss out then Json.mkObj [("err", jstr "opaque-miss")]
                   else Json.mkObj [("ok", js out), ("skel", js (skeleton out))]
      | .error e => errJson e
    | _, _, _ => jerr "bad-case"
  | _ => jerr "bad-args"

/-- `["c05chain", auto, expr, data, prims]` → `{"val": value, "out": text written, "skel": skeleton}` | `{"err": …}` -/
def handleChain (args : List Json) : Json :=
  match args with
  | [auto, e, data, prims] =>
    match asBool? auto, parseExpr e, parseData data with
    | some auto, some e, some data =>
      let st : St := { scopes := [], locals := [], globals := data, cycles := [], out := [] }
      match evalExpr (parsePrims prims) auto st e with
      | .ok v =>
        let out := outVal auto v
        if valMiss v || hasMiss out then Json.mkObj [("err", jstr "opaque-miss")]
        else Json.mkObj [("val", valJson v), ("out", js out), ("skel", js (skeleton out))]
      | .error e => errJson e
    | _, _, _ => jerr "bad-case"
  | _ => jerr "bad-args"

/-- `["c05escape", s]` → `{"esc": escape s, "clean": bool, "ent": bool, "skel": skeleton s}` -/
def handleEscape (args : List Json) : Json :=
  match args with
  | [.str s] =>
    let e := escape s.toList
    Json.mkObj [("esc", js e), ("clean", Json.bool (isClean s.toList)), ("ent", Json.bool (isEnt s.toList)),
                ("skel", js (skeleton s.toList))]
  | _ => jerr "bad-args"

/-- `["c05markup", op, operands…]`: the `Markup` operator table against the model combinators -/
def handleMarkup (args : List Json) : Json :=
  let t? (j : Json) := parseTStr j
  match args with
  | [.str "add", a, b] =>
    (match t? a, t? b with | some a, some b => tstrJson (mixAdd a b) | _, _ => jerr "bad-case")
  | [.str "escape", a] => (match t? a with | some a => tstrJson ⟨escT a, true⟩ | _ => jerr "bad-case")
  | [.str "join", sep, items] =>
    (match t? sep, (asArr? items).bind (mapM? parseTStr) with
     | some sep, some items => tstrJson (joinT sep items)
     | _, _ => jerr "bad-case")
  | [.str "replace", s, old, new, first] =>
    (match t? s, t? old, t? new, asBool? first with
     | some s, some old, some new, some f => tstrJson (replaceT f s old new)
     | _, _, _, _ => jerr "bad-case")
  | [.str "upper", s] => (match t? s with | some s => tstrJson (keepSafe LiquidVerif.Filters.upcase s) | _ => jerr "bad-case")
  | [.str "lower", s] => (match t? s with | some s => tstrJson (keepSafe LiquidVerif.Filters.downcase s) | _ => jerr "bad-case")
  | [.str "capitalize", s] => (match t? s with | some s => tstrJson (keepSafe LiquidVerif.Filters.capitalize s) | _ => jerr "bad-case")
  | [.str "strip", s] => (match t? s with | some s => tstrJson (keepSafe LiquidVerif.Filters.strip s) | _ => jerr "bad-case")
  | [.str "lstrip", s] => (match t? s with | some s => tstrJson (keepSafe LiquidVerif.Filters.lstrip s) | _ => jerr "bad-case")
  | [.str "rstrip", s] => (match t? s with | some s => tstrJson (keepSafe LiquidVerif.Filters.rstrip s) | _ => jerr "bad-case")
  | [.str "slice", s, a, b] =>
    (match t? s, asInt? a with
     | some s, some a =>
       let stop : Option Int := asInt? b
       tstrJson (keepSafe (fun c => pySlice c a stop) s)
     | _, _ => jerr "bad-case")
  | [.str "split", s, sep] =>
    (match t? s, sep with
     | some s, .null => jarr ((LiquidVerif.Filters.splitWs s.chars).map fun p => tstrJson ⟨p, s.safe⟩)
     | some s, .str sep => jarr ((LiquidVerif.Filters.splitOn sep.toList s.chars).map fun p => tstrJson ⟨p, s.safe⟩)
     | _, _ => jerr "bad-case")
  | [.str "rpartition", s, .str sep] =>
    (match t? s with
     | some s =>
       (match rpartition sep.toList s.chars with
        | some (b, a) => jarr [tstrJson ⟨b, s.safe⟩, tstrJson ⟨a, s.safe⟩]
        | none => Json.null)
     | _ => jerr "bad-case")
  | [.str "iter", s] => (match t? s with | some s => jarr (s.chars.map fun c => tstrJson ⟨[c], false⟩) | _ => jerr "bad-case")
  | [.str "out", v] => (match parseVal v with | some v => js (outVal true v) | none => jerr "bad-case")
  | [.str "quote_plus", .str s] => js (quotePlus s.toList)
  | [.str "escapejs", .str s] => js (jsEscape s.toList)
  | [.str "str", .str i] => (match i.toInt? with | some i => js (intStr i) | none => jerr "bad-case")
  | _ => jerr "bad-args"

def commands : List (String × (List Lean.Json → Lean.Json)) :=
  [("c05render", handleRender), ("c05chain", handleChain), ("c05escape", handleEscape), ("c05markup", handleMarkup)]

end Driver.C05
