import Driver.Util
import Driver.C24
open Lean Driver

/-- one JSON array per line: `[command, args…]` → one JSON value per line -/
def dispatch (j : Json) : Json :=
  match asArr? j with
  | some (.str cmd :: args) =>
    match cmd with
    | "lru" => Driver.C24.handle args
    | "ping" => jstr "pong"
    | _ => jerr ("unknown-command " ++ cmd)
  | _ => jerr "bad-line"

partial def loop (h : IO.FS.Stream) (out : IO.FS.Stream) : IO Unit := do
  let line ← h.getLine
  if line.isEmpty then return ()
  match Json.parse line with
  | .ok j => out.putStrLn (Json.compress (dispatch j))
  | .error e => out.putStrLn (Json.compress (jerr ("json: " ++ e)))
  loop h out

def main : IO Unit := do
  loop (← IO.getStdin) (← IO.getStdout)
