import Driver.Util
import LiquidVerif.Model.ExcChain
open Lean LiquidVerif.C02 LiquidVerif.Gen.C02

namespace Driver.C02

/-- the abstraction the property needs: `ok | liquid | leak:<Type>` -/
def outName (r : Except Exc Unit) : String :=
  match r with
  | .ok _ => "ok"
  | .error e => if isLiquid e then "liquid" else "leak:" ++ e.pyName

def dedup (xs : List String) : List String :=
  xs.foldl (fun acc x => if acc.contains x then acc else acc ++ [x]) []

def allowed (m : Res Unit) : List String := dedup (List.map outName m)

/-- answer: the observation itself when the model allows it, otherwise the set the model allows -/
def verdictS (al : List String) (obs : String) : Json :=
  Json.mkObj [("allowed", jarr (al.map jstr)), ("verdict", if al.contains obs then jstr obs else jstr "NOT-ALLOWED")]

def verdict (m : Res Unit) (obs : String) : Json := verdictS (allowed m) obs

/-- as `verdict`, plus whether the cell is one of the known-leak cells of `Model/C02Known.lean` -/
def verdictK (m : Res Unit) (obs : String) (known : Bool) : Json :=
  let al := allowed m
  Json.mkObj [("allowed", jarr (al.map jstr)), ("verdict", if al.contains obs then jstr obs else jstr "NOT-ALLOWED"),
              ("known", Json.bool known)]

/-- the per-node handler of the render loop applied to every outcome (`strict = false`: warn / lax) -/
def throughRenderLoop (strict : Bool) (m : Res Unit) : Res Unit :=
  List.flatMap (fun r => match r with | .ok _ => [.ok ()] | .error e => renderLoop strict e) m

def filterOfName? (s : String) : Option FilterName := FilterName.all.find? (fun f => f.name == s)
def siteOfName? (s : String) : Option Site := Site.all.find? (fun f => f.name == s)
def excOfName? (s : String) : Option Exc := Exc.all.find? (fun f => f.name == s)

/-- `["c02.filter", name, left, [args…], observed]` -/
def handleFilter (args : List Json) : Json :=
  match args with
  | [f, l, as, obs] =>
    match (asStr? f).bind filterOfName?, (asStr? l).bind Cls.ofName?,
          (asArr? as).bind (mapM? (fun j => (asStr? j).bind Cls.ofName?)), asStr? obs with
    | some f, some l, some as, some obs => verdictK (runFilter f l as) obs (cellKnown f l as)
    | _, _, _, _ => jerr "bad-filter-args"
  | _ => jerr "bad-args"

/-- `["c02.site", site, class, strict?, observed]` -/
def handleSite (args : List Json) : Json :=
  match args with
  | [s, x, st, obs] =>
    match (asStr? s).bind siteOfName?, (asStr? x).bind Cls.ofName?, asBool? st, asStr? obs with
    | some s, some x, some st, some obs => verdictK (runSiteMode st s x) obs (knownSiteLeak s x)
    | _, _, _, _ => jerr "bad-site-args"
  | _ => jerr "bad-args"

def resCls (m : Res Cls) : List String :=
  dedup (List.map (fun r => match r with | .ok c => "ok:" ++ c.name | .error e => "raise:" ++ e.pyName) m)
def resUnit (m : Res Unit) : List String :=
  dedup (List.map (fun r => match r with | .ok _ => "ok" | .error e => "raise:" ++ e.pyName) m)

def arithOf? : String → Option ArithOp
  | "minus" => some .minus | "plus" => some .plus | "times" => some .times | "modulo" => some .modulo | _ => none

def elemOf? : String → Option Elem
  | "int" => some .int | "float" => some .float | "str" => some .str | "strEmpty" => some .strEmpty | "none" => some .none
  | "dictK" => some .dictK | "dictJ" => some .dictJ | "inf" => some .inf | "ninf" => some .ninf | _ => none

/-- `["c02.prim", prim, [classes…], observed]` → the observation if the table allows it -/
def handlePrim (args : List Json) : Json :=
  match args with
  | [p, cs, obs] =>
    match asStr? p, (asArr? cs).bind (mapM? asStr?), asStr? obs with
    | some p, some cs, some obs =>
      let c (i : Nat) : Option Cls := (cs[i]?).bind Cls.ofName?
      let out : Option (List String) :=
        match p with
        | "int" => (c 0).map (fun a => resCls (pyInt a))
        | "to_int" => (c 0).map (fun a => resCls (toInt a))
        | "float" => (c 0).map (fun a => resCls (pyFloat a))
        | "str" => (c 0).map (fun a => resCls (pyStr a))
        | "num_arg0" => (c 0).map (fun a => resCls (numArg a (some .int_zero)))
        | "num_arg" => (c 0).map (fun a => resCls (numArg a none))
        | "int_arg" => (c 0).map (fun a => resCls (intArg a none))
        | "int_arg1" => (c 0).map (fun a => resCls (intArg a (some .int_pos)))
        | "decimal_arg0" => (c 0).map (fun a => resUnit (decimalArg a (some ())))
        | "decimal_arg" => (c 0).map (fun a => resUnit (decimalArg a none))
        | "to_liquid_string" => (c 0).map (fun a => resUnit (toLiquidString a).unit)
        | "decimal_of_str" => (c 0).map (fun a => resUnit (pyDecimalOfStr a))
        | "decimal_of_num" => (c 0).map (fun a => resUnit (pyDecimalOfNum a))
        | "ceil" => (c 0).map (fun a => resUnit (pyCeil a))
        | "encode" => (c 0).map (fun a => resUnit (pyEncode a))
        | "b64decode_utf8" => (c 0).map (fun a => resUnit (pyB64DecodeUtf8 a))
        | "fromtimestamp" => (c 0).map (fun a => resUnit (pyFromTimestamp a))
        | "dateparse" => (c 0).map (fun a => resUnit (pyDateParse a))
        | "json_indent" => (c 0).map (fun a => resUnit (pyJsonIndent a))
        | "sorted" => (c 0).map (fun a => resUnit (pySorted a))
        | "percent_format" => (c 0).map (fun a => resUnit (pyPercentFormatEscaped a))
        | "intdiv" => do let a ← c 0; let b ← c 1; pure (resUnit (pyIntDiv a b))
        | "truediv" => do let a ← c 0; let b ← c 1; pure (resUnit (pyTrueDiv a b))
        | "getitem" => do let e ← (cs[0]?).bind elemOf?; let k ← c 1; pure (resUnit (pyGetitem e k))
        | "getitem_h" => do let e ← (cs[0]?).bind elemOf?; let k ← c 1; pure (resUnit (getitemH e k))
        | "elems" => (c 0).map (fun a => (elems a).map (fun e => (repr e).pretty))
        | _ =>
          match (p.splitOn ":") with
          | ["dec", op] => do let o ← arithOf? op; let a ← c 0; let b ← c 1; pure (resUnit (pyDecArith o a b))
          | _ => none
      match out with
      | some o => verdictS o obs
      | none => jerr "bad-prim"
    | _, _, _ => jerr "bad-prim-args"
  | _ => jerr "bad-args"

/-- `["c02.handler", "from_string" | "render_strict" | "render_lax", excName, observed]`;
the render variants raise the exception from inside a filter, so `Filter.evaluate`'s handlers come first -/
def handleHandler (args : List Json) : Json :=
  match args with
  | [w, e, obs] =>
    match asStr? w, (asStr? e).bind excOfName?, asStr? obs with
    | some "from_string", some e, some obs => verdict (fromString e) obs
    | some "render_strict", some e, some obs => verdict (throughRenderLoop true (postEval (.error e))) obs
    | some "render_lax", some e, some obs => verdict (throughRenderLoop false (postEval (.error e))) obs
    | _, _, _ => jerr "bad-handler-args"
  | _ => jerr "bad-args"

def parseLink (j : Json) : Option Link :=
  match asArr? j with
  | some [f, as] => do
    let f ← (asStr? f).bind filterOfName?
    let as ← (asArr? as).bind (mapM? (fun j => (asStr? j).bind Cls.ofName?))
    pure (f, as)
  | _ => none

/-- `["c02.chain", left, [[filter, [args…]], …], observed]` -/
def handleChain (args : List Json) : Json :=
  match args with
  | [l, links, obs] =>
    match (asStr? l).bind Cls.ofName?, (asArr? links).bind (mapM? parseLink), asStr? obs with
    | some l, some links, some obs => verdictK (runChain links l) obs (!chainOk links l)
    | _, _, _ => jerr "bad-chain-args"
  | _ => jerr "bad-args"

/-- `["c02.names"]` → the generated filter names, class names, site names, exception names -/
def handleNames (_ : List Json) : Json :=
  Json.mkObj [("filters", jarr (FilterName.all.map (fun f => jarr [jstr f.name, jnat f.arity.1, jnat f.arity.2]))),
              ("classes", jarr (Cls.all.map (fun c => jstr c.name))),
              ("sites", jarr (Site.all.map (fun c => jstr c.name))),
              ("excs", jarr (Exc.all.map (fun e => jarr [jstr e.name, jstr e.pyName, Json.bool (isLiquid e)])))]

def commands : List (String × (List Lean.Json → Lean.Json)) :=
  [("c02.filter", handleFilter), ("c02.site", handleSite), ("c02.prim", handlePrim),
   ("c02.handler", handleHandler), ("c02.chain", handleChain), ("c02.names", handleNames)]

end Driver.C02
