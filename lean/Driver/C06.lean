import Driver.Util
import LiquidVerif.Model.LoopLimit
import LiquidVerif.Model.LoopLimitModes
open Lean LiquidVerif.LoopLimit

namespace Driver.C06

def optNat? (j : Json) : Option (Option Nat) :=
  match j with
  | .null => some none
  | _ => (asNat? j).map some

mutual
partial def parseNode (j : Json) : Option Node := do
  let xs ← asArr? j
  match xs with
  | [.str "mark", id] => pure (.mark (← asNat? id))
  | [.str "blk", t, body] => pure (.blk (← asBool? t) (← parseNodes body))
  | [.str "for", id, n, body, dflt] => pure (.forn (← asNat? id) (← asNat? n) (← parseNodes body) (← parseNodes dflt))
  | [.str "tablerow", id, n, body] => pure (.tablerow (← asNat? id) (← asNat? n) (← parseNodes body))
  | [.str "include", site, name, b] => pure (.include (← asNat? site) (← asStr? name) (← optNat? b))
  | [.str "render", site, name, b] => pure (.render (← asNat? site) (← asStr? name) (← optNat? b))
  | [.str "macro", name, body] => pure (.macro (← asStr? name) (← parseNodes body))
  | [.str "call", name] => pure (.call (← asStr? name))
  | _ => none
partial def parseNodes (j : Json) : Option (List Node) := do
  let xs ← asArr? j
  xs.mapM parseNode
end

def parseTpls (j : Json) : Option Tpls := do
  let xs ← asArr? j
  xs.mapM fun p => do
    match ← asArr? p with
    | [name, body] => pure ((← asStr? name), (← parseNodes body))
    | _ => none

def errName : Err → String
  | .loopLimit => "LoopIterationLimitError"
  | .contextDepth => "ContextDepthError"
  | .notFound => "TemplateNotFoundError"
  | .disabledTag => "DisabledTagError"

def evJson (e : Ev) : Json := jarr [jnat e.id, jarr (e.enclosing.map jnat)]

/-- compact text of the first executions: `id:len,len|id:len…` -/
def headStr (tr : List Ev) : String :=
  "|".intercalate ((tr.take 8).map fun e => toString e.id ++ ":" ++ ",".intercalate (e.enclosing.map toString))

def digestP : Nat := 2305843009213693951   -- 2^61 - 1
def mix (h x : Nat) : Nat := (h * 1000003 + x + 1) % digestP
/-- order-sensitive digest of the whole trace (ids, nesting depths and every enclosing length) -/
def digest (tr : List Ev) : Nat :=
  tr.foldl (fun h e => e.enclosing.foldl mix (mix (mix h e.id) e.enclosing.length)) 7

def parseLimits (j : Json) : Option (List (Option Nat)) := do
  let xs ← asArr? j
  xs.mapM optNat?

def runJson (full : Bool) (E : Env) (main : List Node) : Json :=
  match renderTemplate E main with
  | .ok (_, tr) =>
    if full then Json.mkObj [("result", jstr "ok"), ("events", jarr (tr.map evJson))] else
    Json.mkObj [("result", jstr "ok"), ("n", jnat tr.length),
                ("max", jnat (tr.foldl (fun a e => max a (prod e.enclosing)) 0)),
                ("digest", jstr (toString (digest tr))), ("head", jstr (headStr tr))]
  | .error e =>
    if full then Json.mkObj [("result", jstr (errName e)), ("events", jarr [])] else
    Json.mkObj [("result", jstr (errName e)), ("n", jnat 0), ("max", jnat 0),
                ("digest", jstr (toString (digest []))), ("head", jstr "")]

/-- `["c06", [limit|null …], depth, [[name, nodes]…], nodes]` → `{"runs": [one per limit]}` with
    `{"result": "ok"|<error class>, "n": #executions, "max": max product, "digest": "<decimal>", "head": first 8 executions as text}`.
    The digest covers every execution with all its enclosing lengths; `c06full` returns them all. -/
def handleWith (full : Bool) (args : List Json) : Json :=
  match args with
  | [lims, depth, tpls, main] =>
    match parseLimits lims, asNat? depth, parseTpls tpls, parseNodes main with
    | some lims, some depth, some tpls, some main =>
      Json.mkObj [("runs", jarr (lims.map fun l => runJson full { limit := l, depth := depth, templates := tpls } main))]
    | _, _, _, _ => jerr "bad-case"
  | _ => jerr "bad-args"

def handle := handleWith false
def handleFull := handleWith true

/-! ### all-modes model (`Model/LoopLimitModes.lean`) -/
namespace X
open LiquidVerif.LoopLimitModes

mutual
partial def parseNode (j : Json) : Option LiquidVerif.LoopLimitModes.Node := do
  let xs ← asArr? j
  match xs with
  | [.str "mark", id] => pure (.mark (← asNat? id))
  | [.str "break"] => pure .brk
  | [.str "continue"] => pure .cont
  | [.str "blk", t, body] => pure (.blk (← asBool? t) (← parseNodes body))
  | [.str "for", id, n, body, dflt] => pure (.forn (← asNat? id) (← asNat? n) (← parseNodes body) (← parseNodes dflt))
  | [.str "tablerow", id, n, body] => pure (.tablerow (← asNat? id) (← asNat? n) (← parseNodes body))
  | [.str "include", site, name, b] => pure (.include (← asNat? site) (← asStr? name) (← optNat? b))
  | [.str "render", site, name, b] => pure (.render (← asNat? site) (← asStr? name) (← optNat? b))
  | [.str "macro", name, body] => pure (.macro (← asStr? name) (← parseNodes body))
  | [.str "call", name] => pure (.call (← asStr? name))
  | _ => none
partial def parseNodes (j : Json) : Option (List LiquidVerif.LoopLimitModes.Node) := do
  let xs ← asArr? j
  xs.mapM parseNode
end

def errName : ErrX → String
  | .loopLimit => "LoopIterationLimitError"
  | .contextDepth => "ContextDepthError"
  | .notFound => "TemplateNotFoundError"
  | .disabledTag => "DisabledTagError"
  | .syntax => "LiquidSyntaxError"

def runJson (E : LiquidVerif.LoopLimitModes.Env) (main : List LiquidVerif.LoopLimitModes.Node) : Json :=
  let o := renderTemplate E main
  let res := match o.sig with
    | .normal => "ok"
    | .err e => errName e
    | .brk => "BreakLoop"
    | .cont => "ContinueLoop"
  -- a raised error discards the output: only a completed render is observable
  let tr := if res == "ok" then o.tr else []
  Json.mkObj [("result", jstr res), ("n", jnat tr.length),
              ("max", jnat (tr.foldl (fun a e => max a (prod e.enclosing)) 0)),
              ("digest", jstr (toString (digest tr))), ("head", jstr (headStr tr)),
              ("suppressed", jarr (o.sup.map fun e => jstr (errName e)))]

/-- `["c06x", strict, [limit|null …], depth, [[name, nodes]…], nodes]` → `{"runs": […]}` -/
def handle (args : List Json) : Json :=
  match args with
  | [strict, lims, depth, tpls, main] =>
    let tp : Option LiquidVerif.LoopLimitModes.Tpls := do
      let xs ← asArr? tpls
      xs.mapM fun p => do
        match ← asArr? p with
        | [name, body] => pure ((← asStr? name), (← parseNodes body))
        | _ => none
    match asBool? strict, parseLimits lims, asNat? depth, tp, parseNodes main with
    | some strict, some lims, some depth, some tpls, some main =>
      Json.mkObj [("runs", jarr (lims.map fun l => runJson { limit := l, depth := depth, templates := tpls, strict := strict } main))]
    | _, _, _, _, _ => jerr "bad-case"
  | _ => jerr "bad-args"
end X

def commands : List (String × (List Lean.Json → Lean.Json)) :=
  [("c06", handle), ("c06full", handleFull), ("c06x", X.handle)]

end Driver.C06
