import Driver.Util
import LiquidVerif.Model.LoopRender
import LiquidVerif.Model.LoopStack
open Lean LiquidVerif.Loop

namespace Driver.C13

def errJson : Err → Json
  | .liquidType => Json.mkObj [("err", jstr "LiquidTypeError")]
  | .valueError => Json.mkObj [("err", jstr "ValueError")]
  | .typeError => Json.mkObj [("err", jstr "TypeError")]

def parseItem (j : Json) : Option Item := do
  match (← asArr? j) with
  | [.str "i", n] => pure (.int (← asInt? n))
  | [.str "s", s] => pure (.str (← asStr? s))
  | [.str "p", k, v] => pure (.pair (← asStr? k) (← asInt? v))
  | _ => none

def itemJson : Item → Json
  | .int i => jarr [jstr "i", jstr (toString i)]
  | .str s => jarr [jstr "s", jstr s]
  | .pair k v => jarr [jstr "p", jstr k, jstr (toString v)]

def parseObj (j : Json) : Option Obj := do
  match (← asArr? j) with
  | [.str "mapping", kvs] =>
    let ps ← (← asArr? kvs).mapM (fun p => do
      match (← asArr? p) with
      | [k, v] => pure ((← asStr? k), (← asInt? v))
      | _ => none)
    pure (.mapping ps)
  | [.str "range", lo, hi] => pure (.range (← asInt? lo) (← asInt? hi))
  | [.str "str", s] => pure (.str (← asStr? s))
  | [.str "seq", xs] => pure (.seq (← mapM? parseItem (← asArr? xs)))
  | [.str "other"] => pure .other
  | _ => none

def parseArg (j : Json) : Option Arg := do
  match (← asArr? j) with
  | [.str "int", n] => pure (.int (← asInt? n))
  | [.str "numstr", n] => pure (.numStr (← asInt? n))
  | [.str "badstr"] => pure .badStr
  | [.str "nil"] => pure .nil
  | [.str "undef"] => pure .undefined
  | _ => none

def parseOptArg (j : Json) : Option (Option Arg) :=
  match j with
  | .null => some none
  | _ => (parseArg j).map some

def parseOffset (j : Json) : Option Offset :=
  match j with
  | .null => some .absent
  | .str "continue" => some .continue_
  | _ => (parseArg j).map .val

def parseSpec (j : Json) : Option LoopSpec := do
  let ident ← asStr? (← (j.getObjVal? "ident").toOption)
  let iterText ← asStr? (← (j.getObjVal? "iter").toOption)
  let obj ← parseObj (← (j.getObjVal? "obj").toOption)
  let limit ← parseOptArg (← (j.getObjVal? "limit").toOption)
  let offset ← parseOffset (← (j.getObjVal? "offset").toOption)
  let reversed ← asBool? (← (j.getObjVal? "reversed").toOption)
  pure { ident, iterText, obj, limit, offset, reversed }

def parseField : String → Option Field
  | "index" => some .index | "index0" => some .index0 | "rindex" => some .rindex
  | "rindex0" => some .rindex0 | "first" => some .first | "last" => some .last
  | "length" => some .length | _ => none

def parseTField : String → Option TField
  | "index" => some .index | "index0" => some .index0 | "rindex" => some .rindex
  | "rindex0" => some .rindex0 | "first" => some .first | "last" => some .last
  | "length" => some .length | "col" => some .col | "col0" => some .col0
  | "col_first" => some .colFirst | "col_last" => some .colLast | "row" => some .row | _ => none

def parseCond (j : Json) : Option Cond := do
  match (← asArr? j) with
  | [.str "always"] => pure .always
  | [.str "fi0", n] => pure (.forIndex0Eq (← asInt? n))
  | [.str "ri0", n] => pure (.rowIndex0Eq (← asInt? n))
  | _ => none

/-- templates arrive as JSON trees; depth is bounded by the fuel (the JSON is finite) -/
def parseNode : Nat → Json → Option Node
  | 0, _ => none
  | fuel + 1, j => do
    let nodes := fun (js : Json) => do mapM? (parseNode fuel) (← asArr? js)
    match (← asArr? j) with
    | [.str "text", s] => pure (.text (← asStr? s))
    | [.str "var", s] => pure (.var (← asStr? s))
    | [.str "forloop", up, f] => pure (.forloop (← asNat? up) (← parseField (← asStr? f)))
    | [.str "trl", f] => pure (.tablerowloop (← parseTField (← asStr? f)))
    | [.str "if", c, body] => pure (.ifc (← parseCond c) (← nodes body))
    | [.str "break"] => pure .break_
    | [.str "continue"] => pure .continue_
    | [.str "for", spec, body, els] =>
      let e ← (match els with | .null => some none | _ => (nodes els).map some)
      pure (.for_ (← parseSpec spec) (← nodes body) e)
    | [.str "tablerow", spec, cols, body] =>
      pure (.tablerow (← parseSpec spec) (← parseOptArg cols) (← nodes body))
    | _ => none

def stopJson (m : StopIndex) : Json :=
  jarr (m.map fun p => jarr [jstr p.1, jstr (toString p.2)])

/-- `["c13render", stringSequences, [node…]]` → `{"out": text, "stop": [[key, index]…]}` | `{"err": class}` -/
def handleRender (args : List Json) : Json :=
  match args with
  | [ss, nodes] =>
    match asBool? ss, (asArr? nodes).bind (mapM? (parseNode 64)) with
    | some ss, some ns =>
      match renderBlock { stringSequences := ss, vars := [], loops := [], rows := [] } [] ns with
      | .error e => errJson e
      | .ok (m, out, sig) =>
        Json.mkObj [("out", jstr out), ("stop", stopJson m),
                    ("signal", jstr (match sig with | .normal => "normal" | .break_ => "break" | .continue_ => "continue"))]
    | _, _ => jerr "bad-template"
  | _ => jerr "bad-args"

def parseOptInt (j : Json) : Option (Option Int) :=
  match j with | .null => some none | _ => (asInt? j).map some

/-- `["c13slice", stopBefore|null, items, length, limit|null, offset|null|"continue", reversed]`
→ `{"items": […], "length": n, "stop": n}` | `{"err": class}` : `LoopExpression._slice` alone -/
def handleSlice (args : List Json) : Json :=
  match args with
  | [before, items, length, limit, offset, reversed] =>
    let m : Option StopIndex := match before with | .null => some [] | _ => (asInt? before).map (fun i => [("k", i)])
    let off : Option (Option (Option Int)) := match offset with
      | .str "continue" => some none
      | .null => some (some none)
      | _ => (asInt? offset).map (fun o => some (some o))
    match m, (asArr? items).bind (mapM? parseItem), asNat? length, parseOptInt limit, off, asBool? reversed with
    | some m, some its, some len, some lim, some off, some rev =>
      match slice m "k" its len lim off rev with
      | .error e => errJson e
      | .ok sl => Json.mkObj [("items", jarr (sl.items.map itemJson)), ("length", jstr (toString sl.length)),
                              ("stop", jstr (toString (sl.stop.get "k")))]
    | _, _, _, _, _, _ => jerr "bad-slice"
  | _ => jerr "bad-args"

def forRowJson (p : Item × ForState) : Json :=
  let s := p.2
  jarr [itemJson p.1, jstr (toString s.index), jstr (toString s.index0), jstr (toString s.rindex),
        jstr (toString s.rindex0), Json.bool s.first, Json.bool s.last, jstr (toString s.length)]

def tableRowJson (p : Item × RowState) : Json :=
  let s := p.2
  jarr [itemJson p.1, jstr (toString s.index), jstr (toString s.index0), jstr (toString s.rindex),
        jstr (toString s.rindex0), Json.bool s.first, Json.bool s.last, jstr (toString s.length),
        jstr (toString s.col), jstr (toString s.col0), Json.bool s.colFirst, Json.bool s.colLast, jstr (toString s.row)]

/-- `["c13drop", "for", items, length]` / `["c13drop", "tablerow", items, length, ncols]` : the drops alone -/
def handleDrop (args : List Json) : Json :=
  match args with
  | [.str "for", items, length] =>
    match (asArr? items).bind (mapM? parseItem), asInt? length with
    | some its, some len => jarr ((forRows (ForState.init len) its).map forRowJson)
    | _, _ => jerr "bad-drop"
  | [.str "tablerow", items, length, ncols] =>
    match (asArr? items).bind (mapM? parseItem), asInt? length, asInt? ncols with
    | some its, some len, some nc => jarr ((tableRows (RowState.init len nc) its).map tableRowJson)
    | _, _, _ => jerr "bad-drop"
  | _ => jerr "bad-args"

/-- `["c13iter", stringSequences, obj]` → `{"items": […], "length": n}` : `_to_iter` alone -/
def handleIter (args : List Json) : Json :=
  match args with
  | [ss, obj] =>
    match asBool? ss, parseObj obj with
    | some ss, some o =>
      let r := toIter ss o
      Json.mkObj [("items", jarr (r.1.map itemJson)), ("length", jnat r.2)]
    | _, _ => jerr "bad-iter"
  | _ => jerr "bad-args"

/-! ### the loop stack under exceptions (`Model/LoopStack.lean`) -/
namespace Stack
open LiquidVerif LiquidVerif.LoopStack

def parseRef : String → Option Ref
  | "index" => some .index | "length" => some .length | "defined" => some .defined | _ => none

def parseNode : Nat → Json → Option LoopStack.Node
  | 0, _ => none
  | fuel + 1, j => do
    match (← asArr? j) with
    | [.str "nop"] => pure LoopStack.Node.nop
    | [.str "text", s] => pure (LoopStack.Node.text (← asStr? s))
    | [.str "fail"] => pure LoopStack.Node.fail
    | [.str "ref", up, f] => pure (LoopStack.Node.ref (← asNat? up) (← parseRef (← asStr? f)))
    | [.str "seq", a, b] => pure (LoopStack.Node.seq (← parseNode fuel a) (← parseNode fuel b))
    | [.str "for", n, b] => pure (LoopStack.Node.for_ (← asNat? n) (← parseNode fuel b))
    | [.str "tablerow", n, b] => pure (LoopStack.Node.tablerow (← asNat? n) (← parseNode fuel b))
    | [.str "break"] => pure LoopStack.Node.brk
    | [.str "continue"] => pure LoopStack.Node.cont
    | _ => none

/-- `["c13stack", "strict"|"lax", maxDepth, [node…]]` → `{"out", "err": null|"liquid"|"depth", "loops": n}` -/
def handle (args : List Json) : Json :=
  match args with
  | [.str mode, d, nodes] =>
    match asNat? d, (asArr? nodes).bind (mapM? (parseNode 200)) with
    | some d, some ns =>
      let (st, e) := renderTemplate (if mode == "strict" then .strict else .lax) d { loops := [], out := "" } ns
      Json.mkObj [("out", jstr st.out), ("loops", jnat st.loops.length),
                  ("err", match e with | none => Json.null | some .liquid => jstr "liquid" | some .depth => jstr "depth")]
    | _, _ => jerr "bad-stack-case"
  | _ => jerr "bad-args"
end Stack

def commands : List (String × (List Lean.Json → Lean.Json)) :=
  [("c13render", handleRender), ("c13slice", handleSlice), ("c13drop", handleDrop), ("c13iter", handleIter),
   ("c13stack", Stack.handle)]

end Driver.C13
