import Driver.Util
import LiquidVerif.Model.MacroRender
open Lean LiquidVerif.MacroArgs LiquidVerif.MacroRender

namespace Driver.C27

def asExpr? (j : Json) : Option Expr := do
  match (← asArr? j) with
  | [.str "lit", s] => pure (.lit (← asStr? s))
  | [.str "var", n] => pure (.var (← asStr? n))
  | _ => none

def asOptExpr? (j : Json) : Option (Option Expr) :=
  match j with
  | .null => some none
  | _ => (asExpr? j).map some

def asKw? (j : Json) : Option (String × Expr) := do
  match (← asArr? j) with
  | [k, e] => pure ((← asStr? k), (← asExpr? e))
  | _ => none

def asParam? (j : Json) : Option (String × Option Expr) := do
  match (← asArr? j) with
  | [k, e] => pure ((← asStr? k), (← asOptExpr? e))
  | _ => none

def exprJson : Expr → Json
  | .lit s => jarr [jstr "lit", jstr s]
  | .var n => jarr [jstr "var", jstr n]

def optExprJson : Option Expr → Json
  | none => Json.null
  | some e => exprJson e

/-- `["macro_args", [[name, default|null]…], [expr…], [[name, expr]…]]` -/
def handleMacroArgs (args : List Json) : Json :=
  match args with
  | [ps, pos, kw] =>
    match (asArr? ps).bind (mapM? asParam?), (asArr? pos).bind (mapM? asExpr?), (asArr? kw).bind (mapM? asKw?) with
    | some ps, some pos, some kw =>
      let b := macroArgs (parseParams ps) pos kw
      Json.mkObj [
        ("args", jarr (b.args.map fun p => jarr [jstr p.1, optExprJson p.2])),
        ("excess_args", jarr (b.excessArgs.map exprJson)),
        ("excess_kwargs", jarr (b.excessKwargs.map fun p => jarr [jstr p.1, exprJson p.2]))]
    | _, _, _ => jerr "bad-args"
  | _ => jerr "bad-args"

/-- JSON → Node; structural on a fuel that is the JSON nesting depth bound supplied by `parseNodes` -/
def asNode? : Nat → Json → Option Node
  | 0, _ => none
  | fuel + 1, j => do
    match (← asArr? j) with
    | [.str "text", s] => pure (.text (← asStr? s))
    | [.str "out", e] => pure (.out (← asExpr? e))
    | [.str "assign", n, e] => pure (.assign (← asStr? n) (← asExpr? e))
    | [.str "with", as, body] =>
      pure (.withB (← (asArr? as).bind (mapM? asKw?)) (← (asArr? body).bind (mapM? (asNode? fuel))))
    | [.str "macro", name, ps, body] =>
      pure (.macroDef (← asStr? name) (← (asArr? ps).bind (mapM? asParam?))
        (← (asArr? body).bind (mapM? (asNode? fuel))))
    | [.str "call", name, pos, kw] =>
      pure (.call (← asStr? name) (← (asArr? pos).bind (mapM? asExpr?)) (← (asArr? kw).bind (mapM? asKw?)))
    | [.str "for", v, n, body] =>
      pure (.forRange (← asStr? v) (← asNat? n) (← (asArr? body).bind (mapM? (asNode? fuel))))
    | [.str "ifeq", v, k, body] =>
      pure (.ifEq (← asStr? v) (← asNat? k) (← (asArr? body).bind (mapM? (asNode? fuel))))
    | [.str "included", body] => pure (.included (← (asArr? body).bind (mapM? (asNode? fuel))))
    | [.str "isolated", as, body] =>
      pure (.isolated (← (asArr? as).bind (mapM? asKw?)) (← (asArr? body).bind (mapM? (asNode? fuel))))
    | [.str "break"] => pure .brk
    | [.str "continue"] => pure .cont
    | [.str "fail"] => pure .fail
    | [.str "dumpList", n] => pure (.dumpList (← asStr? n))
    | [.str "dumpDict", n] => pure (.dumpDict (← asStr? n))
    | _ => none

def asGlobals? (j : Json) : Option NS := do
  let xs ← asArr? j
  mapM? (fun p => do
    match (← asArr? p) with
    | [k, v] => pure ((← asStr? k), Obj.val (.str (← asStr? v)))
    | _ => none) xs

def errName : Err → String
  | .contextDepth => "ContextDepthError"
  | .failed => "FilterArgumentError"
  | .strayInterrupt => "LiquidSyntaxError"

def runRender (limit : Nat) (mode : Mode) (gl : NS) (nodes : List Node) : Json :=
  match renderTemplate limit mode gl nodes with
  | .ok s => Json.mkObj [("ok", jstr s)]
  | .error e => Json.mkObj [("err", jstr (errName e))]

/-- `["mrender", limit, [[name, value]…], [node…]]` (strict) or `[…, "lax"]` -/
def handleRender (args : List Json) : Json :=
  match args with
  | [limit, gl, nodes] =>
    match asNat? limit, asGlobals? gl, (asArr? nodes).bind (mapM? (asNode? 200)) with
    | some limit, some gl, some nodes => runRender limit .strict gl nodes
    | _, _, _ => jerr "bad-args"
  | [limit, gl, nodes, mode] =>
    match asNat? limit, asGlobals? gl, (asArr? nodes).bind (mapM? (asNode? 200)) with
    | some limit, some gl, some nodes =>
      runRender limit (if asStr? mode == some "lax" then .lax else .strict) gl nodes
    | _, _, _ => jerr "bad-args"
  | _ => jerr "bad-args"

def commands : List (String × (List Lean.Json → Lean.Json)) :=
  [("macro_args", handleMacroArgs), ("mrender", handleRender)]

end Driver.C27
