import Driver.Util
import LiquidVerif.Model.LRU
open Lean LiquidVerif.LRU

namespace Driver.C24

def parseOp (j : Json) : Option Op := do
  let xs ← asArr? j
  match xs with
  | [.str "get", k] => pure (.get (← asNat? k))
  | [.str "getd", k] => pure (.getd (← asNat? k))
  | [.str "set", k, v] => pure (.set (← asNat? k) (← asNat? v))
  | [.str "del", k] => pure (.del (← asNat? k))
  | [.str "contains", k] => pure (.contains (← asNat? k))
  | [.str "len"] => pure .len
  | [.str "keys"] => pure .keys
  | [.str "values"] => pure .values
  | [.str "items"] => pure .items
  | [.str "iter"] => pure .iter
  | _ => none

def outJson : Out → Json
  | .none_ => Json.null
  | .val v => jarr [jstr "val", jnat v]
  | .keyError => jstr "KeyError"
  | .bool b => Json.bool b
  | .len n => jarr [jstr "len", jnat n]
  | .keys ks => jarr [jstr "keys", jarr (ks.map jnat)]
  | .vals vs => jarr [jstr "vals", jarr (vs.map jnat)]
  | .pairs ps => jarr [jstr "pairs", jarr (ps.map fun p => jarr [jnat p.1, jnat p.2])]
  | .dflt => jstr "default"

/-- `["lru", cap, [op…]]` → `{"outs": […], "final": [[k,v]… least-recent first]}` -/
def handle (args : List Json) : Json :=
  match args with
  | [cap, ops] =>
    match asNat? cap, (asArr? ops).bind (mapM? parseOp) with
    | some cap, some ops =>
      let (c, outs) := run (empty cap) ops
      Json.mkObj [("outs", jarr (outs.map outJson)),
                  ("final", jarr (c.items.map fun p => jarr [jnat p.1, jnat p.2]))]
    | _, _ => jerr "bad-op"
  | _ => jerr "bad-args"

end Driver.C24

namespace Driver.C24
def commands : List (String × (List Lean.Json → Lean.Json)) := [("lru", handle)]
end Driver.C24
