import Driver.Util
import LiquidVerif.Model.Limits
open Lean LiquidVerif.Limits

/-! Line protocol for C07 / C08 (shared model `LiquidVerif.Model.Limits`).

`["limits", prog, nodes, [limits…]]` → one outcome per limit configuration:
`{"ok": text, "log": [sizes…]}` or `{"err": "<exception class>"}`. -/
namespace Driver.C0708

def textOf (s : String) : Text := s.toList.map Char.toNat
def strOf (t : Text) : String := String.ofList (t.map Char.ofNat)

def parseScalar (j : Json) : Option Scalar :=
  match j with
  | .null => some .nil
  | .str s => some (.str (textOf s))
  | .num _ => (asNat? j).map Scalar.int
  | .obj _ => some (.undef "")
  | _ => none

def parseVal (j : Json) : Option Val :=
  match j with
  | .arr a => (mapM? parseScalar a.toList).map Val.list
  | _ => (parseScalar j).map Val.sc

def parseExpr : Nat → Json → Option Expr
  | 0, _ => none
  | fuel + 1, j => do
    match ← asArr? j with
    | [.str "lit", v] => pure (.lit (← parseVal v))
    | [.str "var", .str n] => pure (.var n)
    | [.str "filt", .str f, e] => pure (.filt1 f (← parseExpr fuel e))
    | [.str "filt", .str f, e, a] => pure (.filt2 f (← parseExpr fuel e) (← parseExpr fuel a))
    | _ => none

def parseArg (j : Json) : Option (String × Expr) := do
  match ← asArr? j with
  | [.str k, e] => pure (k, ← parseExpr 16 e)
  | _ => none

def parseArgs (j : Json) : Option (List (String × Expr)) := do mapM? parseArg (← asArr? j)

/-- fuel = nesting depth of the JSON term (the parser is not part of the model) -/
def parseNode : Nat → Json → Option Node
  | 0, _ => none
  | fuel + 1, j => do
    let nodes (x : Json) : Option (List Node) := do mapM? (parseNode fuel) (← asArr? x)
    match ← asArr? j with
    | [.str "text", .str s] => pure (.text (textOf s))
    | [.str "output", e] => pure (.output (← parseExpr 16 e))
    | [.str "assign", .str n, e] => pure (.assign n (← parseExpr 16 e))
    | [.str "capture", .str n, b] => pure (.capture n (← nodes b))
    | [.str "ifchanged", b] => pure (.ifchanged (← nodes b))
    | [.str "cycle", .str g, a] => pure (.cycle (textOf g) (← mapM? (parseExpr 16) (← asArr? a)))
    | [.str "if", e, b, d] => pure (.ifn (← parseExpr 16 e) (← nodes b) (← nodes d))
    | [.str "for", .str v, e, b, d] => pure (.forn v (← parseExpr 16 e) (← nodes b) (← nodes d))
    | [.str "unless", e, b, d] => pure (.unless (← parseExpr 16 e) (← nodes b) (← nodes d))
    | [.str "with", a, b] => pure (.withn (← parseArgs a) (← nodes b))
    | [.str "tablerow", .str v, e, b] => pure (.tablerow v (← parseExpr 16 e) (← nodes b))
    | [.str "include", .str n, bind, a] =>
        let b ← match bind with
          | .null => pure none
          | _ => match ← asArr? bind with
            | [e, .str k, _] => pure (some (← parseExpr 16 e, k))
            | _ => none
        pure (.include n b (← parseArgs a))
    | [.str "render", .str n, bind, a] =>
        let b ← match bind with
          | .null => pure none
          | _ => match ← asArr? bind with
            | [.bool f, e, .str k] => pure (some (f, ← parseExpr 16 e, k))
            | _ => none
        pure (.render n b (← parseArgs a))
    | _ => none

def parseNodes (j : Json) : Option (List Node) := do mapM? (parseNode 64) (← asArr? j)

def optNat (j : Json) : Option (Option Nat) :=
  match j with
  | .null => some none
  | _ => (asNat? j).map some

def parseLimits (j : Json) : Option Limits := do
  let o ← optNat (j.getObjValD "output")
  let n ← optNat (j.getObjValD "ns")
  let l ← optNat (j.getObjValD "loop")
  let d ← asNat? (j.getObjValD "depth")
  let b ← asNat? (j.getObjValD "nesting")
  pure { output := o, ns := n, loop := l, depth := d, nesting := b }

def parseProg (j : Json) : Option Prog := do
  let ts ← mapM? (fun t => do
      match ← asArr? t with
      | [.str n, b] => pure (n, ← parseNodes b)
      | _ => none) (← asArr? (j.getObjValD "templates"))
  let gs ← mapM? (fun t => do
      match ← asArr? t with
      | [.str n, v] => pure (n, ← parseVal v)
      | _ => none) (← asArr? (j.getObjValD "globals"))
  let lax := match j.getObjValD "lax" with | .bool b => b | _ => false
  pure { templates := ts, globals := gs, sz := pySizeof, filt := pyFilt, lax := lax }

/-- `nsOn`: the namespace limit is truthy, i.e. `get_size_of_locals()` really measures (otherwise it returns 0 and the
model's log is a ghost) -/
def resJson (L : Limits) (r : Res) : Json :=
  match r with
  | .error (e, _) => Json.mkObj [("err", jstr e.pyName)]
  | .ok w => Json.mkObj [("ok", jstr (strOf w.buf.text)), ("log", jarr (w.log.map jnat)),
                         ("nsOn", Json.bool (match L.ns with | some (_ + 1) => true | _ => false))]

def handle (args : List Json) : Json :=
  match args with
  | [prog, nodes, lims] =>
    match parseProg prog, parseNodes nodes, (asArr? lims).bind (mapM? parseLimits) with
    | some P, some ns, some ls => jarr (ls.map fun L => resJson L (renderTemplate L P ns))
    | _, _, _ => jerr "bad-case"
  | _ => jerr "bad-args"

/-- `["sizeof", val…]` → the model's `sys.getsizeof` of each value; `["utf8", str…]` → byte lengths;
`["blank", str…]` → `str.isspace() or not str` -/
def handleSizeof (args : List Json) : Json :=
  match mapM? parseVal args with
  | some vs => jarr (vs.map fun v => jnat (pySizeof v))
  | none => jerr "bad-args"

def handleUtf8 (args : List Json) : Json :=
  match mapM? asStr? args with
  | some ss => jarr (ss.map fun s => jarr [jnat (utf8Len (textOf s)), Json.bool (blankText (textOf s))])
  | none => jerr "bad-args"

def commands : List (String × (List Lean.Json → Lean.Json)) :=
  [("limits", handle), ("sizeof", handleSizeof), ("utf8", handleUtf8)]

end Driver.C0708
