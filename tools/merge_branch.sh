#!/bin/bash
# tools/merge_branch.sh <tag> <ids…>: merge an updated build-<tag> (no cherry-picks), regenerate, run the checks
tag=$1; shift; cd /verif
git merge --no-ff --no-commit build-$tag >/dev/null 2>&1
git diff --name-only --diff-filter=U | while read f; do case $f in evidence/*|notes/*|harness/props/*|lean/LiquidVerif/Props/*|lean/LiquidVerif/Model/*|lean/LiquidVerif/Lemmas/*|lean/Driver/C*|known_findings.d/*|tools/emitters/*) git checkout --theirs -- "$f";; *) git checkout --ours -- "$f";; esac; git add "$f"; done
python3 tools/gen_driver_main.py >/dev/null; python3 tools/merge_known.py; /venv/bin/python tools/gen_manifest.py
git add -A; git commit -qm "Merge build-$tag update ($*)"
tools/lb 2>&1 | grep -E "error|completed"
for i in "$@"; do ./check $i 2>&1 | grep -E "tier=|VIOLATION" | cut -c1-220; done
