#!/bin/bash
# Run every kept seeded change through its property's check (scratch worktree of /repo main); write seeded/RESULTS.md
cd /verif
out=seeded/RESULTS.md
echo "# Seeded changes re-run against the final checks ($(git rev-parse --short HEAD), /repo $(git -C /repo rev-parse --short main))" > $out
echo "" >> $out
echo "| seeded | repo suite with change | check | exit | verdict line |" >> $out
echo "|---|---|---|---|---|" >> $out
rm -rf /tmp/sa-gen /tmp/sa-evi; cp -r lean/LiquidVerif/Gen /tmp/sa-gen; cp -r evidence /tmp/sa-evi
for d in seeded/C*-*/; do
  s=$(basename $d); id=${s%-*}
  w=/tmp/sa-$s; git -C /repo worktree add -q --detach $w main || continue
  if ! git -C $w apply /verif/$d/patch.diff 2>/dev/null; then echo "| $s | PATCH DOES NOT APPLY | | | |" >> $out; git -C /repo worktree remove --force $w; continue; fi
  suite=$(cd $w && /venv/bin/python -m pytest -q -p no:cacheprovider --timeout=900 --continue-on-collection-errors 2>&1 | grep -E "passed|failed" | tail -1 | sed 's/ in .*//'); rm -rf $w/.hypothesis
  res=$(LIQUID_REPO=$w ./check $id 2>&1); rc=$?
  line=$(echo "$res" | grep VIOLATION | head -1)
  echo "| $s | $suite | ./check $id | $rc | \`$line\` |" >> $out
  git -C /repo worktree remove --force $w
done
rm -rf lean/LiquidVerif/Gen evidence; mv /tmp/sa-gen lean/LiquidVerif/Gen; mv /tmp/sa-evi evidence
echo done >> /tmp/seed_all.done
