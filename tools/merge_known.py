#!/usr/bin/env python3
"""Merge known_findings.d/*.json fragments into the committed known_findings.json (run by hand, never by a check)."""
import json
from pathlib import Path
ROOT = Path(__file__).resolve().parent.parent
out = []
for f in sorted((ROOT / "known_findings.d").glob("*.json")):
    out += json.loads(f.read_text())["findings"]
(ROOT / "known_findings.json").write_text(json.dumps({
    "comment": "Committed, never written at run time (assembled by hand with tools/merge_known.py from known_findings.d/). status=known suppresses exactly that signature (KNOWN-FINDING line, exit 0); status=fixed suppresses nothing and records the repair commit in /repo.",
    "findings": out}, indent=1) + "\n")
print(len(out), "findings")
