#!/usr/bin/env python3
"""tools/seed_keep.py <src dir> <id> '<what we ran and saw>' — keep a confirmed seeded change under seeded/<id>/."""
import json, shutil, sys
from pathlib import Path
src, sid, ran = Path(sys.argv[1]), sys.argv[2], sys.argv[3]
dst = Path(__file__).resolve().parent.parent / "seeded" / sid
dst.mkdir(parents=True, exist_ok=True)
for f in ("patch.diff", "demo.py"):
    shutil.copy(src / f, dst / f)
m = json.loads((src / "meta.json").read_text())
out = {"property": m.get("property"), "breaks": m.get("summary"), "needs": m.get("needs"), "why_tests_pass": m.get("why_tests_pass"),
       "author_ran": m.get("ran"), "confirmed": ran}
(dst / "meta.json").write_text(json.dumps(out, indent=1) + "\n")
print("kept", dst)
