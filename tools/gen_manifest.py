#!/usr/bin/env python3
"""Regenerate MANIFEST.json from the property modules that exist (harness/props/cXX.py) + tools/manifest_meta.json."""
import importlib, json, sys
from pathlib import Path
ROOT = Path(__file__).resolve().parent.parent
sys.path.insert(0, str(ROOT))
meta = json.loads((ROOT / "tools" / "manifest_meta.json").read_text())
props = [json.loads(l) for l in (ROOT / "properties.jsonl").read_text().splitlines() if l.strip()]
checks, na = [], []
for p in props:
    pid = p["id"]
    m = None
    if (ROOT / "harness" / "props" / f"{pid.lower()}.py").exists():
        m = getattr(importlib.import_module(f"harness.props.{pid.lower()}"), "MANIFEST", None)
    if m:
        checks.append({
            "property_id": pid,
            "quick_cmd": f"./check {pid} --tier quick",
            "thorough_cmd": f"./check {pid} --tier thorough",
            "evidence_file": f"evidence/{pid}.json",
            "replay_cmd_template": f"./check {pid} --replay {{path}}",
            "engine": "lean4-proof+correspondence",
            "level_claimed": {"category": "proof", "text": m["text"], "design_ref": m.get("design_ref", f"DESIGN.md section 6 {pid}")},
            "level_note": m["note"],
            "technique": m["technique"],
        })
    else:
        na.append({"property_id": pid, "reason": meta["not_applicable"].get(pid, "check not built yet in this snapshot; no claim is made")})
man = {
    "version": 1,
    "setup_cmd": "cd lean && lake build",
    "hooks": meta["hooks"],
    "engines": [{"name": "lean4-proof+correspondence", "path": "check", "serves_properties": [c["property_id"] for c in checks],
                 "kind_free_text": "Lean 4 theorems about hand-written/regenerated models (lean/LiquidVerif), tied to /repo by a source translator (tools/translate.py) and a differential correspondence harness (harness/) driving a compiled Lean model driver"}],
    "checks": checks,
    "notes": meta["notes"],
    "not_applicable": na,
}
(ROOT / "MANIFEST.json").write_text(json.dumps(man, indent=1) + "\n")
print(f"{len(checks)} checks, {len(na)} not claimed")
