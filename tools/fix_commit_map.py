#!/usr/bin/env python3
"""Integrator tool: rewrite the `commit` field (and sha mentions in `what`) of fixed findings from builder-branch
shas to the shas of the cherry-picked commits on /repo main (matched through the `cherry picked from commit` trailer)."""
import json, re, subprocess
from pathlib import Path
ROOT = Path(__file__).resolve().parent.parent
log = subprocess.run(["git", "-C", "/repo", "log", "--format=%H%x01%B%x02", "main"], capture_output=True, text=True).stdout
m = {}
for ent in log.split("\x02"):
    if "\x01" not in ent: continue
    h, body = ent.strip().split("\x01", 1)
    for orig in re.findall(r"cherry picked from commit ([0-9a-f]{40})", body):
        m[orig] = h
mains = {e.strip().split("\x01")[0] for e in log.split("\x02") if "\x01" in e}
def remap(sha):
    for o, h in m.items():
        if o.startswith(sha): return h[:7]
    for h in mains:
        if h.startswith(sha): return h[:7]
    return None
for f in sorted((ROOT / "known_findings.d").glob("*.json")):
    d = json.loads(f.read_text()); ch = False
    for e in d["findings"]:
        c = e.get("commit")
        if c:
            n = remap(c)
            if n is None: print("UNMAPPED", f.name, c, e["signature"]); continue
            if n != c:
                e["what"] = e.get("what", "").replace(c, n); e["commit"] = n; ch = True
    if ch: f.write_text(json.dumps(d, indent=1) + "\n"); print("updated", f.name)
