#!/usr/bin/env python3
"""Integrator tool (run by hand after reviewing a change to /repo): rewrite the pinned inventories of Props/C01.lean
from the translator's current output. Never run by a check."""
import json, re, subprocess, sys
from pathlib import Path
ROOT = Path(__file__).resolve().parent.parent
subprocess.run(["/venv/bin/python", str(ROOT / "tools/translate.py"), "--repo", "/repo", "--only", "c01_async_pairs"], check=True, env={"PYTHONPATH": "/repo", "PATH": "/usr/bin:/bin"})
d = json.loads((ROOT / "lean/LiquidVerif/Gen/async_pairs.json").read_text())
p = ROOT / "lean/LiquidVerif/Props/C01.lean"
s = p.read_text()
res = ",\n".join(f'    ("{n}", "{g}")' for n, g in d["residuals"])
s = re.sub(r"(theorem residuals_pinned : Gen\.AsyncPairs\.residuals = \[\n).*?(\] := by decide)", lambda m: m.group(1) + res + m.group(2), s, flags=re.S)
dl = ", ".join(f'"{n}"' for n in d["delegations"])
s = re.sub(r"(theorem delegations_pinned : Gen\.AsyncPairs\.delegations = \[\n?).*?(\] := by decide)", lambda m: m.group(1) + "    " + dl + m.group(2), s, flags=re.S)
n = sum(1 for x in d["pairs"] if x["erase_equal"])
s = re.sub(r"theorem erase_equal_count : \d+ ≤", f"theorem erase_equal_count : {n} ≤", s)
s = re.sub(r"at least the \d+ reviewed pairs", f"at least the {n} reviewed pairs", s)
p.write_text(s)
print("erase-equal", n, "residual", len(d["residuals"]), "mro", d["mro_mismatches"], "async_only", d["async_only"])
