"""C02 emitter: exception class hierarchy, except-clause tables and the filter registry, read from the source.

emit(repo) -> {"C02Tables.lean": ...}

* `inductive Exc`            every exception class named in liquid/exceptions.py, in any scanned `except` clause or
                             `raise` inside a handler, plus the Python/third-party classes the primitive table
                             (Model/PyPrim.lean) can raise; `Exc.parents` from the Python MRO / the ClassDef bases.
* `catch_<file>_<func>_<i>`  for every `try` in the scanned files: the handlers in source order, each with its class
                             tuple and what it does (`raises X` / `reraise` / `recover`).
* `inductive FilterName`     every registered filter name of the default and the extra environment, with the
                             exception-relevant decorators of its callable (outermost first) and its positional arity.
Fails closed: an unknown class name, an unrecognised registration or decorator raises, so the build breaks.
"""
from __future__ import annotations

import ast
import builtins
import importlib
import re
from pathlib import Path

SCAN = [
    "liquid/filter.py",
    "liquid/limits.py",
    "liquid/stringify.py",
    "liquid/environment.py",
    "liquid/template.py",
    "liquid/builtin/filters/math.py",
    "liquid/builtin/filters/string.py",
    "liquid/builtin/filters/array.py",
    "liquid/builtin/filters/misc.py",
    "liquid/builtin/filters/extra.py",
    "liquid/builtin/expressions/primitive.py",
    "liquid/builtin/expressions/loop.py",
    "liquid/builtin/expressions/filtered.py",
    "liquid/builtin/expressions/logical.py",
    "liquid/builtin/tags/tablerow_tag.py",
    "liquid/extra/tags/translate_tag.py",
    "liquid/extra/filters/translate.py",
    "liquid/extra/filters/babel.py",
    "liquid/extra/filters/_json.py",
    "liquid/extra/filters/array.py",
    "liquid/extra/filters/html.py",
]

# classes the primitive table of Model/PyPrim.lean may raise (resolved by import, so a typo fails)
PRIM_RAISES = [
    "builtins.TypeError", "builtins.ValueError", "builtins.OverflowError", "builtins.ZeroDivisionError", "builtins.KeyError",
    "builtins.IndexError", "builtins.AttributeError", "builtins.RecursionError", "builtins.MemoryError", "builtins.OSError",
    "builtins.AssertionError", "builtins.UnicodeDecodeError", "builtins.UnicodeEncodeError", "builtins.ArithmeticError",
    "builtins.LookupError", "builtins.RuntimeError", "builtins.UnicodeError", "builtins.Exception",
    "decimal.InvalidOperation", "binascii.Error", "dateutil.parser.ParserError",
]

EXC_DECOS = {"string_filter", "array_filter", "sequence_filter", "liquid_filter", "math_filter", "unit_filter"}
IGNORED_DECOS = {"with_context", "with_environment", "wraps", "staticmethod", "functools.lru_cache", "lru_cache"}


def lean_name(cls) -> str:
    mod = cls.__module__.split(".")[0]
    if mod == "builtins":
        return cls.__name__
    return f"{mod}_{cls.__name__}"


class Hierarchy:
    def __init__(self, repo: Path):
        self.parents: dict[str, list[str]] = {}
        self.pyname: dict[str, str] = {}
        self.liquid: dict[str, list] = {}
        tree = ast.parse((repo / "liquid/exceptions.py").read_text())
        for n in tree.body:
            if isinstance(n, ast.ClassDef):
                self.liquid[n.name] = [b for b in n.bases]
        for name in self.liquid:
            self.add_liquid(name)

    def add_liquid(self, name: str) -> str:
        if name in self.parents:
            return name
        self.parents[name] = []
        for b in self.liquid[name]:
            if isinstance(b, ast.Name) and b.id in self.liquid:
                self.parents[name].append(self.add_liquid(b.id))
            elif isinstance(b, ast.Name) and hasattr(builtins, b.id):
                self.parents[name].append(self.add_py(getattr(builtins, b.id)))
            else:
                raise ValueError(f"exceptions.py: cannot resolve base of {name}: {ast.dump(b)}")
        return name

    def add_py(self, cls) -> str:
        if not (isinstance(cls, type) and issubclass(cls, BaseException)):
            raise ValueError(f"not an exception class: {cls!r}")
        nm = lean_name(cls)
        if nm in self.parents:
            return nm
        self.parents[nm] = []
        self.pyname[nm] = cls.__name__
        for b in cls.__bases__:
            if b is object:
                continue
            self.parents[nm].append(self.add_py(b))
        return nm


def import_map(tree: ast.Module, pkg: str) -> dict:
    """local name -> ("module", attr | None)"""
    m = {}
    for n in ast.walk(tree):
        if isinstance(n, ast.Import):
            for a in n.names:
                m[(a.asname or a.name).split(".")[0]] = (a.name if a.asname else a.name.split(".")[0], None)
        elif isinstance(n, ast.ImportFrom):
            mod = n.module or ""
            if n.level:
                base = pkg.split(".")
                base = base[: len(base) - (n.level - 1)]
                mod = ".".join(base + ([mod] if mod else []))
            for a in n.names:
                m[a.asname or a.name] = (mod, a.name)
    return m


class Resolver:
    def __init__(self, hier: Hierarchy, imports: dict, local_classes: set):
        self.h, self.imports, self.local = hier, imports, local_classes

    def resolve(self, node) -> str:
        if isinstance(node, ast.Name):
            nm = node.id
            if nm in self.imports:
                mod, attr = self.imports[nm]
                if mod.startswith("liquid"):
                    if attr in self.h.liquid:
                        return self.h.add_liquid(attr)
                    raise ValueError(f"liquid name {attr} is not an exception class of liquid/exceptions.py")
                obj = importlib.import_module(mod)
                return self.h.add_py(getattr(obj, attr) if attr else obj)
            if nm in self.h.liquid:
                return self.h.add_liquid(nm)
            if hasattr(builtins, nm):
                return self.h.add_py(getattr(builtins, nm))
            raise ValueError(f"cannot resolve exception name {nm}")
        if isinstance(node, ast.Attribute):
            parts = []
            cur = node
            while isinstance(cur, ast.Attribute):
                parts.append(cur.attr)
                cur = cur.value
            if not isinstance(cur, ast.Name) or cur.id not in self.imports:
                raise ValueError(f"cannot resolve {ast.dump(node)}")
            mod, attr = self.imports[cur.id]
            obj = importlib.import_module(mod)
            if attr:
                try:
                    obj = getattr(obj, attr)
                except AttributeError:
                    obj = importlib.import_module(mod + "." + attr)
            for p in reversed(parts):
                obj = getattr(obj, p)
            return self.h.add_py(obj)
        raise ValueError(f"unsupported except expression {ast.dump(node)}")


def handler_action(h: ast.ExceptHandler, rs: Resolver) -> str:
    """What the handler does with the exception: the class it raises (any `raise X(...)` in its body, whatever the
    statement order), a re-raise, or recovery."""
    raised, reraise = set(), False
    for n in ast.walk(ast.Module(body=h.body, type_ignores=[])):
        if isinstance(n, ast.Raise):
            if n.exc is None or (isinstance(n.exc, ast.Name) and n.exc.id == h.name):
                reraise = True
            else:
                target = n.exc.func if isinstance(n.exc, ast.Call) else n.exc
                raised.add(rs.resolve(target))
    if len(raised) > 1 or (raised and reraise):
        return ".recover"  # several outcomes: the hand model must give the continuation (fails closed otherwise)
    if raised:
        return f".raises .{raised.pop()}"
    return ".reraise" if reraise else ".recover"


def scan_file(repo: Path, rel: str, hier: Hierarchy):
    """-> list of (lean const name, [(classes, action)]) for every try in every function (source order)."""
    src = (repo / rel).read_text()
    tree = ast.parse(src)
    pkg = rel[:-3].replace("/", ".")
    pkg = pkg.rsplit(".", 1)[0]
    rs = Resolver(hier, import_map(tree, pkg), {n.name for n in tree.body if isinstance(n, ast.ClassDef)})
    stem = re.sub(r"\W", "_", rel[len("liquid/") : -3])
    out = []

    def visit(node, qual):
        for ch in ast.iter_child_nodes(node):
            if isinstance(ch, (ast.FunctionDef, ast.AsyncFunctionDef, ast.ClassDef)):
                visit(ch, qual + [ch.name])
        if isinstance(node, (ast.FunctionDef, ast.AsyncFunctionDef)):
            tries = []

            def collect(n):
                for ch in ast.iter_child_nodes(n):
                    if isinstance(ch, (ast.FunctionDef, ast.AsyncFunctionDef, ast.ClassDef, ast.Lambda)):
                        continue
                    if isinstance(ch, ast.Try):
                        tries.append(ch)
                    collect(ch)

            collect(node)
            for i, t in enumerate(tries):
                hs = []
                for h in t.handlers:
                    if h.type is None:
                        classes = ["BaseException"]
                        hier.add_py(BaseException)
                    elif isinstance(h.type, ast.Tuple):
                        classes = [rs.resolve(e) for e in h.type.elts]
                    else:
                        classes = [rs.resolve(h.type)]
                    hs.append((classes, handler_action(h, rs)))
                out.append((f"catch_{stem}_{'_'.join(qual)}_{i}", hs))

    visit(tree, [])
    return out


def decorators_of(fn: ast.FunctionDef) -> list:
    ds = []
    for d in fn.decorator_list:
        target = d.func if isinstance(d, ast.Call) else d
        name = ast.unparse(target)
        short = name.split(".")[-1]
        if short in EXC_DECOS:
            ds.append(short)
        elif name in IGNORED_DECOS or short in IGNORED_DECOS:
            continue
        else:
            raise ValueError(f"unknown decorator {name} on {fn.name}")
    return ds


def arity_of(fn: ast.FunctionDef, skip: int) -> tuple:
    a = fn.args
    pos = list(a.posonlyargs) + list(a.args)
    pos = pos[skip:]
    nd = len(a.defaults)
    mn = len(pos) - min(nd, len(pos))
    mx = 99 if a.vararg else len(pos)
    return (mn, mx)


def registry(repo: Path):
    """-> [(registered name, decorators, (min,max) positional args after the left value)]"""
    res = []

    def module_defs(rel):
        tree = ast.parse((repo / rel).read_text())
        return tree, {n.name: n for n in tree.body if isinstance(n, (ast.FunctionDef, ast.ClassDef))}

    def find_def(tree, pkg_rel, local):
        """resolve a local name imported in an __init__ to its FunctionDef/ClassDef"""
        pkg = pkg_rel[:-3].replace("/", ".").rsplit(".", 1)[0]  # e.g. liquid.builtin
        im = import_map(tree, pkg)
        if local not in im:
            raise ValueError(f"{pkg_rel}: cannot find import of {local}")
        mod, attr = im[local]
        path = repo / (mod.replace(".", "/") + ".py")
        if not path.exists():
            path = repo / mod.replace(".", "/") / "__init__.py"
            t2 = ast.parse(path.read_text())
            return find_def(t2, str(path.relative_to(repo)), attr)
        _, defs = module_defs(str(path.relative_to(repo)))
        if attr not in defs:
            raise ValueError(f"{path}: no definition of {attr}")
        return defs[attr]

    def describe(d):
        if isinstance(d, ast.FunctionDef):
            return decorators_of(d), arity_of(d, 1)
        call = next((n for n in d.body if isinstance(n, ast.FunctionDef) and n.name == "__call__"), None)
        if call is None:
            raise ValueError(f"class {d.name} has no __call__")
        return decorators_of(call), arity_of(call, 2)

    def class_attr_name(d: ast.ClassDef):
        for n in d.body:
            if isinstance(n, ast.Assign) and any(isinstance(t, ast.Name) and t.id == "name" for t in n.targets) and isinstance(n.value, ast.Constant):
                return n.value.value
        raise ValueError(f"class {d.name} has no literal name")

    for rel in ("liquid/builtin/__init__.py", "liquid/extra/__init__.py"):
        tree = ast.parse((repo / rel).read_text())
        for n in ast.walk(tree):
            name = func = None
            if isinstance(n, ast.Call) and isinstance(n.func, ast.Attribute) and n.func.attr == "add_filter":
                if not (isinstance(n.args[0], ast.Constant) and isinstance(n.args[0].value, str)):
                    raise ValueError(f"{rel}: add_filter with a non-literal name")
                name, func = n.args[0].value, n.args[1]
            elif isinstance(n, ast.Assign) and len(n.targets) == 1 and isinstance(n.targets[0], ast.Subscript) and ast.unparse(n.targets[0].value).endswith(".filters"):
                key = n.targets[0].slice
                func = n.value
                if isinstance(key, ast.Constant):
                    name = key.value
                elif isinstance(key, ast.Attribute) and key.attr == "name" and isinstance(key.value, ast.Name):
                    name = class_attr_name(find_def(tree, rel, key.value.id))
                else:
                    raise ValueError(f"{rel}: unrecognised filter registration {ast.unparse(n)}")
            if name is None:
                continue
            target = func.func if isinstance(func, ast.Call) else func
            if not isinstance(target, ast.Name):
                raise ValueError(f"{rel}: unrecognised filter callable {ast.unparse(func)}")
            decos, ar = describe(find_def(tree, rel, target.id))
            res.append((name, decos, ar))
    names = [r[0] for r in res]
    if len(set(names)) != len(names):
        raise ValueError("duplicate filter registration")
    return res


def emit(repo: Path) -> dict:
    hier = Hierarchy(repo)
    for q in PRIM_RAISES:
        mod, _, nm = q.rpartition(".")
        hier.add_py(getattr(importlib.import_module(mod), nm))
    catches = []
    for rel in SCAN:
        catches += scan_file(repo, rel, hier)
    reg = registry(repo)

    excs = sorted(hier.parents)
    L = []
    L.append("/-! C02 tables regenerated from the source: exception hierarchy, except-clause tables, filter registry. -/")
    L.append("namespace LiquidVerif.Gen.C02\n")
    L.append("inductive Exc where")
    for e in excs:
        L.append(f"  | {e}")
    L.append("  deriving DecidableEq, Repr, Inhabited\n")
    L.append("def Exc.idx : Exc → Nat")
    for i, e in enumerate(excs):
        L.append(f"  | .{e} => {i}")
    L.append("")
    L.append("def Exc.ofIdx : Nat → Exc")
    for i, e in enumerate(excs[:-1]):
        L.append(f"  | {i} => .{e}")
    L.append(f"  | _ => .{excs[-1]}")
    L.append("")
    L.append("theorem Exc.ofIdx_idx (e : Exc) : Exc.ofIdx e.idx = e := by cases e <;> rfl\n")
    L.append("/-- comparison through the constructor index: cheap for the kernel -/")
    L.append("instance : BEq Exc := ⟨fun a b => Nat.beq a.idx b.idx⟩\n")
    L.append("def Exc.all : List Exc := [" + ", ".join("." + e for e in excs) + "]\n")
    L.append("def Exc.name : Exc → String")
    for e in excs:
        L.append(f'  | .{e} => "{e}"')
    L.append("")
    L.append("/-- `type(e).__name__` -/")
    L.append("def Exc.pyName : Exc → String")
    for e in excs:
        L.append(f'  | .{e} => "{hier.pyname.get(e, e)}"')
    L.append("")
    L.append("/-- direct base classes (Python MRO / ClassDef bases) -/")
    L.append("def Exc.parents : Exc → List Exc")
    for e in excs:
        L.append(f"  | .{e} => [" + ", ".join("." + p for p in hier.parents[e]) + "]")
    L.append("")
    L.append("inductive Action where\n  | raises (e : Exc)\n  | reraise\n  | recover\n  deriving DecidableEq, Repr\n")
    L.append("structure Handler where\n  classes : List Exc\n  action : Action\n  deriving Repr\n")
    for name, hs in catches:
        body = ", ".join("⟨[" + ", ".join("." + c for c in cl) + "], " + act + "⟩" for cl, act in hs)
        L.append(f"def {name} : List Handler := [{body}]")
    L.append("")
    L.append("inductive Deco where\n  | string_filter | array_filter | sequence_filter | liquid_filter | math_filter | unit_filter\n  deriving DecidableEq, Repr\n")
    L.append("inductive FilterName where")
    for n, _, _ in reg:
        L.append(f"  | {n}_")
    L.append("  deriving DecidableEq, Repr, Inhabited\n")
    L.append("def FilterName.all : List FilterName := [" + ", ".join(f".{n}_" for n, _, _ in reg) + "]\n")
    L.append("def FilterName.name : FilterName → String")
    for n, _, _ in reg:
        L.append(f'  | .{n}_ => "{n}"')
    L.append("")
    L.append("/-- exception-relevant decorators of the registered callable, outermost first -/")
    L.append("def FilterName.decos : FilterName → List Deco")
    for n, ds, _ in reg:
        L.append(f"  | .{n}_ => [" + ", ".join("." + d for d in ds) + "]")
    L.append("")
    L.append("/-- (min, max) number of positional arguments after the left value (99 = *args) -/")
    L.append("def FilterName.arity : FilterName → Nat × Nat")
    for n, _, ar in reg:
        L.append(f"  | .{n}_ => ({ar[0]}, {ar[1]})")
    L.append("")
    L.append("end LiquidVerif.Gen.C02")
    return {"C02Tables.lean": "\n".join(L) + "\n"}


if __name__ == "__main__":
    import sys

    print(emit(Path(sys.argv[1] if len(sys.argv) > 1 else "/repo"))["C02Tables.lean"])
