"""C12 emitter: precedence constants, the binary-operator set and the infix node table of
liquid/builtin/expressions/logical.py  ->  lean/LiquidVerif/Gen/C12Tables.lean.

Read with Python `ast` only (nothing is imported or executed).  Fails closed: an unrecognised shape raises, the
translator then reports failure and the C12 proof side counts as broken.
"""
from __future__ import annotations

import ast
from pathlib import Path

# token kinds the Lean parser model distinguishes -> Lean suffix
KINDS = {
    "TOKEN_EQ": "Eq", "TOKEN_NE": "Ne", "TOKEN_LG": "Lg", "TOKEN_LT": "Lt", "TOKEN_GT": "Gt",
    "TOKEN_LE": "Le", "TOKEN_GE": "Ge", "TOKEN_CONTAINS": "Contains", "TOKEN_AND": "And", "TOKEN_OR": "Or",
    "TOKEN_NOT": "Not", "TOKEN_LPAREN": "LParen", "TOKEN_RPAREN": "RParen",
}


def _name(n) -> str:
    if isinstance(n, ast.Name):
        return n.id
    raise ValueError(f"expected a name, found {ast.dump(n)[:80]}")


def _func(mod, name):
    for n in mod.body:
        if isinstance(n, ast.FunctionDef) and n.name == name:
            return n
    raise ValueError(f"function {name} not found")


def _method(mod, cls, name):
    for n in mod.body:
        if isinstance(n, ast.ClassDef) and n.name == cls:
            for m in n.body:
                if isinstance(m, ast.FunctionDef) and m.name == name:
                    return m
    raise ValueError(f"method {cls}.{name} not found")


def _calls(fn, callee):
    return [c for c in ast.walk(fn) if isinstance(c, ast.Call) and isinstance(c.func, ast.Name) and c.func.id == callee]


def emit(repo: Path) -> dict:
    src = (Path(repo) / "liquid" / "builtin" / "expressions" / "logical.py").read_text()
    mod = ast.parse(src)
    consts: dict[str, int] = {}
    prec: dict[str, str] = {}
    binary: set[str] = set()
    for n in mod.body:
        if isinstance(n, ast.Assign) and len(n.targets) == 1 and isinstance(n.targets[0], ast.Name):
            t = n.targets[0].id
            if t.startswith("PRECEDENCE_") and isinstance(n.value, ast.Constant) and isinstance(n.value.value, int):
                consts[t] = n.value.value
            elif t == "PRECEDENCES":
                if not isinstance(n.value, ast.Dict):
                    raise ValueError("PRECEDENCES is not a dict display")
                for k, v in zip(n.value.keys, n.value.values):
                    prec[_name(k)] = _name(v)
            elif t == "BINARY_OPERATORS":
                v = n.value
                if not (isinstance(v, ast.Call) and _name(v.func) == "frozenset" and len(v.args) == 1 and isinstance(v.args[0], (ast.List, ast.Tuple, ast.Set))):
                    raise ValueError("BINARY_OPERATORS is not frozenset([...])")
                binary = {_name(e) for e in v.args[0].elts}
    if not consts or not prec or not binary:
        raise ValueError("precedence tables not found")
    unknown = (set(prec) | binary) - set(KINDS)
    if unknown:
        raise ValueError(f"token kinds the model does not know: {sorted(unknown)}")

    def val(cname: str) -> int:
        if cname not in consts:
            raise ValueError(f"unknown precedence constant {cname}")
        return consts[cname]

    # parse_boolean_primitive: default precedence, loop break test
    pbp = _func(mod, "parse_boolean_primitive")
    argnames = [a.arg for a in pbp.args.args]
    if argnames != ["env", "tokens", "precedence"] or len(pbp.args.defaults) != 1:
        raise ValueError("parse_boolean_primitive signature changed")
    default_prec = val(_name(pbp.args.defaults[0]))
    breaks = []
    for w in ast.walk(pbp):
        if isinstance(w, ast.While):
            for i in ast.walk(w):
                if isinstance(i, ast.Compare) and isinstance(i.left, ast.Call) and isinstance(i.left.func, ast.Attribute) \
                        and i.left.func.attr == "get" and _name(i.left.func.value) == "PRECEDENCES":
                    breaks.append(i)
    if len(breaks) != 1 or len(breaks[0].ops) != 1 or _name(breaks[0].comparators[0]) != "precedence":
        raise ValueError("loop break test of parse_boolean_primitive not recognised")
    br = breaks[0]
    op = type(br.ops[0]).__name__
    if op not in ("Lt", "LtE"):
        raise ValueError(f"loop break comparison {op} not recognised")
    get_default = val(_name(br.left.args[1]))
    # the loop returns `left` for a token that is not a binary operator
    notin = [c for w in ast.walk(pbp) if isinstance(w, ast.While) for c in ast.walk(w)
             if isinstance(c, ast.Compare) and isinstance(c.ops[0], ast.NotIn) and _name(c.comparators[0]) == "BINARY_OPERATORS"]
    if len(notin) != 1:
        raise ValueError("`token.kind not in BINARY_OPERATORS` test not found")

    # parse_infix_expression: kind -> node class, operand parsed with the operator's own precedence
    pie = _func(mod, "parse_infix_expression")
    own = [n for n in pie.body if isinstance(n, ast.Assign) and _name(n.targets[0]) == "precedence"]
    if len(own) != 1 or not (isinstance(own[0].value, ast.Call) and isinstance(own[0].value.func, ast.Attribute)
                             and own[0].value.func.attr == "get" and _name(own[0].value.func.value) == "PRECEDENCES"):
        raise ValueError("parse_infix_expression: `precedence = PRECEDENCES.get(...)` not found")
    node: dict[str, str] = {}
    for st in pie.body:
        if not isinstance(st, ast.If):
            continue
        t = st.test
        if not (isinstance(t, ast.Compare) and isinstance(t.left, ast.Attribute) and t.left.attr == "kind" and len(t.ops) == 1):
            raise ValueError("parse_infix_expression: unrecognised test")
        if isinstance(t.ops[0], ast.Eq):
            kinds = [_name(t.comparators[0])]
        elif isinstance(t.ops[0], ast.In):
            kinds = [_name(e) for e in t.comparators[0].elts]
        else:
            raise ValueError("parse_infix_expression: unrecognised test operator")
        if len(st.body) != 1 or not isinstance(st.body[0], ast.Return) or not isinstance(st.body[0].value, ast.Call):
            raise ValueError("parse_infix_expression: branch is not a single return")
        call = st.body[0].value
        cls = _name(call.func)
        if len(call.args) != 3 or _name(call.args[0]) != "token" or _name(call.args[1]) != "left":
            raise ValueError(f"{cls}(...) arguments changed")
        inner = call.args[2]
        if not (isinstance(inner, ast.Call) and _name(inner.func) == "parse_boolean_primitive" and len(inner.args) == 3
                and _name(inner.args[2]) == "precedence"):
            raise ValueError(f"{cls}: right operand is not parse_boolean_primitive(env, stream, precedence)")
        for k in kinds:
            node[k] = cls
    if set(node) != binary:
        raise ValueError(f"infix table {sorted(node)} differs from BINARY_OPERATORS {sorted(binary)}")

    # operand of `not` and of a parenthesised group: parse_boolean_primitive(env, tokens) -> default precedence
    def two_arg_call(fn, what):
        cs = _calls(fn, "parse_boolean_primitive")
        if len(cs) != 1 or len(cs[0].args) != 2 or cs[0].keywords:
            raise ValueError(f"{what}: expected one parse_boolean_primitive(env, tokens) call")
        return default_prec

    not_prec = two_arg_call(_method(mod, "LogicalNotExpression", "parse"), "LogicalNotExpression.parse")
    group_prec = two_arg_call(_func(mod, "parse_grouped_expression"), "parse_grouped_expression")
    top_prec = two_arg_call(_method(mod, "BooleanExpression", "parse"), "BooleanExpression.parse")

    out = ["/-! Precedence constants, binary-operator set and infix node table read from",
           "    liquid/builtin/expressions/logical.py (PRECEDENCES, BINARY_OPERATORS, parse_boolean_primitive,",
           "    parse_infix_expression, LogicalNotExpression.parse, parse_grouped_expression). -/",
           "namespace LiquidVerif.Gen.C12Tables", ""]
    for k, suf in KINDS.items():
        p = val(prec[k]) if k in prec else get_default
        out.append(f"def prec{suf} : Nat := {p}")
    out.append(f"/-- `PRECEDENCES.get(kind, …)` for every other token kind -/\ndef precOther : Nat := {get_default}")
    for k, suf in KINDS.items():
        out.append(f"def bin{suf} : Bool := {'true' if k in binary else 'false'}")
    for k, suf in KINDS.items():
        if k in ("TOKEN_NOT", "TOKEN_LPAREN", "TOKEN_RPAREN"):
            continue
        out.append(f'def node{suf} : String := "{node.get(k, "")}"')
    out += [
        f"/-- default `precedence` argument of `parse_boolean_primitive` (used by `BooleanExpression.parse`) -/\ndef topPrec : Nat := {top_prec}",
        f"/-- precedence the operand of `not` is parsed with -/\ndef notOperandPrec : Nat := {not_prec}",
        f"/-- precedence the inside of a parenthesised group is parsed with -/\ndef groupPrec : Nat := {group_prec}",
        f"/-- the loop stops at a token whose precedence is `<` (true) or `<=` (false) the current one -/\ndef breakStrict : Bool := {'true' if op == 'Lt' else 'false'}",
        "", "end LiquidVerif.Gen.C12Tables", ""]
    return {"C12Tables.lean": "\n".join(out)}


if __name__ == "__main__":
    import sys
    print(emit(Path(sys.argv[1] if len(sys.argv) > 1 else "/repo"))["C12Tables.lean"])
