"""C17 emitter: inventory of every piece of process-wide state in liquid/  ->  lean/LiquidVerif/Gen/SharedState.lean.

Read with Python `ast` only (nothing is imported or executed).  An entry is emitted for

* every function or method decorated with a memoising decorator (`functools.lru_cache`, `functools.cache`,
  `functools.cached_property` is per-instance and is listed too, with its own kind) — kind `memo`, together with
  the parameter names that form the cache key and the `maxsize`;
* every module-level or class-level assignment whose value is a *mutable container*
  (dict / list / set display or comprehension, or a call of dict, list, set, bytearray, defaultdict, OrderedDict,
  deque, Counter, ChainMap, LRUCache, ThreadSafeLRUCache, WeakValueDictionary, WeakKeyDictionary, local) —
  kind `container`.  For each container the emitter also records whether any code in liquid/ *writes* to it
  through its name (`X[k] = v`, `del X[k]`, `X.append/extend/insert/add/update/setdefault/pop/popitem/clear/
  remove/discard/sort/reverse(...)`, `X += ...`, or for class attributes the same through `self.X` / `cls.X` /
  `ClassName.X`), and whether every such write is at module import time (top level of a module) or inside a
  function (= can happen during a render).
* every module-level or class-level assignment whose value is an instance of a class defined under liquid/
  (`DEFAULT_ENVIRONMENT = Environment()`, `builtin = BuiltIn()`, ...) — kind `instance`;
* `global` / `nonlocal`-rebinding of module names inside functions — kind `rebinding`.

Entries are sorted, so the generated list is stable.  Fails closed: a file that does not parse raises.
`LiquidVerif.Props.C17.all_shared_state_listed` compares the generated list with the pinned, hand-classified
inventory; a new cache, a new mutable table or a new write to an existing one makes that theorem fail.
"""
from __future__ import annotations

import ast
from pathlib import Path

MEMO_DECORATORS = {"lru_cache", "cache", "cached_property"}
MUTABLE_CALLS = {
    "dict", "list", "set", "bytearray", "defaultdict", "OrderedDict", "deque", "Counter", "ChainMap",
    "LRUCache", "ThreadSafeLRUCache", "WeakValueDictionary", "WeakKeyDictionary", "local",
}
MUTATORS = {
    "append", "extend", "insert", "add", "update", "setdefault", "pop", "popitem", "clear", "remove", "discard",
    "sort", "reverse", "appendleft", "move_to_end", "__setitem__", "__delitem__",
}


def lean_str(s: str) -> str:
    out = []
    for ch in s:
        if ch in '"\\':
            out.append("\\" + ch)
        elif 32 <= ord(ch) < 127:
            out.append(ch)
        else:
            out.append("\\u{%x}" % ord(ch))
    return '"' + "".join(out) + '"'


def _dec_name(d):
    """('lru_cache', maxsize|None) for a memoising decorator expression, else None."""
    call = d if isinstance(d, ast.Call) else None
    f = d.func if call else d
    name = f.attr if isinstance(f, ast.Attribute) else f.id if isinstance(f, ast.Name) else None
    if name not in MEMO_DECORATORS:
        return None
    maxsize = None
    if call:
        for kw in call.keywords:
            if kw.arg == "maxsize" and isinstance(kw.value, ast.Constant):
                maxsize = kw.value.value
        if call.args and isinstance(call.args[0], ast.Constant):
            maxsize = call.args[0].value
    elif name == "lru_cache":
        maxsize = 128
    return name, maxsize


_CLASSES: set = set()  # names of classes defined under liquid/ (filled by inventory)


def _is_instance_value(v) -> str | None:
    if isinstance(v, ast.Call) and isinstance(v.func, ast.Name) and v.func.id in _CLASSES:
        return v.func.id
    return None


def _is_mutable_value(v) -> str | None:
    if isinstance(v, (ast.Dict, ast.DictComp)):
        return "dict"
    if isinstance(v, (ast.List, ast.ListComp)):
        return "list"
    if isinstance(v, (ast.Set, ast.SetComp)):
        return "set"
    if isinstance(v, ast.Call):
        f = v.func
        name = f.attr if isinstance(f, ast.Attribute) else f.id if isinstance(f, ast.Name) else None
        if name in MUTABLE_CALLS:
            return name
    return None


def _target_names(node):
    if isinstance(node, ast.Assign):
        return [t.id for t in node.targets if isinstance(t, ast.Name)], node.value
    if isinstance(node, ast.AnnAssign) and isinstance(node.target, ast.Name) and node.value is not None:
        return [node.target.id], node.value
    return [], None


class _Writes(ast.NodeVisitor):
    """Collect writes through a plain name or through `<anything>.attr` for the given names."""

    def __init__(self, names: set, attrs: set):
        self.names, self.attrs = names, attrs
        self.depth = 0  # function nesting depth
        self.hits: list = []  # (name, in_function)

    def _ref(self, n):
        if isinstance(n, ast.Name) and n.id in self.names:
            return n.id
        if isinstance(n, ast.Attribute) and n.attr in self.attrs:
            return n.attr
        return None

    def visit_FunctionDef(self, node):
        self.depth += 1
        self.generic_visit(node)
        self.depth -= 1

    visit_AsyncFunctionDef = visit_FunctionDef
    visit_Lambda = visit_FunctionDef

    def _store(self, t):
        if isinstance(t, ast.Subscript):
            r = self._ref(t.value)
            if r:
                self.hits.append((r, self.depth > 0))
        elif isinstance(t, (ast.Tuple, ast.List)):
            for e in t.elts:
                self._store(e)

    def visit_Assign(self, node):
        for t in node.targets:
            self._store(t)
        self.generic_visit(node)

    def visit_AugAssign(self, node):
        self._store(node.target)
        r = self._ref(node.target)
        if r:
            self.hits.append((r, self.depth > 0))
        self.generic_visit(node)

    def visit_Delete(self, node):
        for t in node.targets:
            self._store(t)
        self.generic_visit(node)

    def visit_Call(self, node):
        f = node.func
        if isinstance(f, ast.Attribute) and f.attr in MUTATORS:
            r = self._ref(f.value)
            if r:
                self.hits.append((r, self.depth > 0))
        self.generic_visit(node)


def inventory(repo: Path) -> list:
    root = Path(repo) / "liquid"
    files = sorted(root.rglob("*.py"))
    if not files:
        raise RuntimeError(f"no python files under {root}")
    trees = {}
    for f in files:
        trees[f.relative_to(Path(repo)).as_posix()] = ast.parse(f.read_text(), filename=str(f))

    _CLASSES.clear()
    for mod in trees.values():
        _CLASSES.update(n.name for n in ast.walk(mod) if isinstance(n, ast.ClassDef))

    entries = []  # dicts
    mod_names: dict = {}  # (file, name) -> entry
    cls_attrs: dict = {}  # attr -> [entry]
    for rel, mod in trees.items():
        # memoised functions anywhere in the file
        for node in ast.walk(mod):
            if isinstance(node, (ast.FunctionDef, ast.AsyncFunctionDef)):
                for d in node.decorator_list:
                    dn = _dec_name(d)
                    if dn:
                        a = node.args
                        params = [x.arg for x in a.posonlyargs + a.args + a.kwonlyargs]
                        if a.vararg:
                            params.append("*" + a.vararg.arg)
                        if a.kwarg:
                            params.append("**" + a.kwarg.arg)
                        entries.append({"file": rel, "name": node.name, "kind": "memo", "shape": dn[0],
                                        "keys": params, "maxsize": dn[1] if isinstance(dn[1], int) else 0,
                                        "unbounded": dn[0] == "cache" or (dn[0] == "lru_cache" and dn[1] is None and isinstance(d, ast.Call) and any(k.arg == "maxsize" for k in d.keywords)),
                                        "written": "call"})
                # rebinding of globals
                for sub in node.body:
                    if isinstance(sub, (ast.Global, ast.Nonlocal)) and isinstance(sub, ast.Global):
                        for nm in sub.names:
                            entries.append({"file": rel, "name": f"{node.name}:{nm}", "kind": "rebinding", "shape": "global",
                                            "keys": [], "maxsize": 0, "unbounded": False, "written": "function"})
        # module-level containers
        for node in mod.body:
            names, value = _target_names(node)
            shape = _is_mutable_value(value) if value is not None else None
            if shape:
                for nm in names:
                    if nm == "__all__":
                        continue
                    e = {"file": rel, "name": nm, "kind": "container", "shape": shape, "keys": [], "maxsize": 0,
                         "unbounded": False, "written": "never"}
                    entries.append(e)
                    mod_names[(rel, nm)] = e
            inst = _is_instance_value(value) if value is not None else None
            if inst:
                for nm in names:
                    entries.append({"file": rel, "name": nm, "kind": "instance", "shape": inst, "keys": [], "maxsize": 0,
                                    "unbounded": False, "written": "never"})
            if isinstance(node, ast.ClassDef):
                for sub in node.body:
                    names, value = _target_names(sub)
                    shape = _is_mutable_value(value) if value is not None else None
                    if shape:
                        for nm in names:
                            if nm == "__slots__":
                                continue
                            e = {"file": rel, "name": f"{node.name}.{nm}", "kind": "container", "shape": shape, "keys": [],
                                 "maxsize": 0, "unbounded": False, "written": "never"}
                            entries.append(e)
                            cls_attrs.setdefault(nm, []).append(e)
                    inst = _is_instance_value(value) if value is not None else None
                    if inst:
                        for nm in names:
                            entries.append({"file": rel, "name": f"{node.name}.{nm}", "kind": "instance", "shape": inst, "keys": [],
                                            "maxsize": 0, "unbounded": False, "written": "never"})

    # writes: module-level names are matched by plain name in their own file and, when imported by name, elsewhere
    def bump(e, in_fn):
        rank = {"never": 0, "import": 1, "function": 2}
        w = "function" if in_fn else "import"
        if rank[w] > rank[e["written"]]:
            e["written"] = w

    all_mod_names = {nm for (_, nm) in mod_names}
    for rel, mod in trees.items():
        local_defs = {nm for (f, nm) in mod_names if f == rel}
        imported = set()
        for node in ast.walk(mod):
            if isinstance(node, ast.ImportFrom):
                for a in node.names:
                    if a.name in all_mod_names:
                        imported.add(a.asname or a.name)
        w = _Writes(local_defs | imported, set(cls_attrs))
        w.visit(mod)
        for name, in_fn in w.hits:
            if (rel, name) in mod_names:
                bump(mod_names[(rel, name)], in_fn)
            elif name in imported:
                for (f, nm), e in mod_names.items():
                    if nm == name:
                        bump(e, in_fn)
            if name in cls_attrs:
                for e in cls_attrs[name]:
                    bump(e, in_fn)
    entries.sort(key=lambda e: (e["file"], e["name"], e["kind"]))
    return entries


def emit(repo: Path) -> dict:
    ents = inventory(Path(repo))
    lines = [
        "/-! Inventory of process-wide state in liquid/: memoised functions (with the parameters that form the key),",
        "    module-level and class-level mutable containers (with where they are written), global rebindings. -/",
        "namespace LiquidVerif.Gen.SharedState",
        "",
        "inductive Kind | memo | container | instance | rebinding deriving DecidableEq, Repr",
        "/-- where the state is written: on every call (memo), never through its name, at import time only, inside a function -/",
        "inductive Written | call | never | atImport | inFunction deriving DecidableEq, Repr",
        "",
        "structure Entry where",
        "  file : String",
        "  name : String",
        "  kind : Kind",
        "  shape : String",
        "  keys : List String",
        "  written : Written",
        "  deriving DecidableEq, Repr",
        "",
        "def entries : List Entry := [",
    ]
    wr = {"call": ".call", "never": ".never", "import": ".atImport", "function": ".inFunction"}
    rows = []
    for e in ents:
        rows.append(
            f"  {{ file := {lean_str(e['file'])}, name := {lean_str(e['name'])}, kind := .{e['kind']}, shape := {lean_str(e['shape'])}, "
            f"keys := [{', '.join(lean_str(k) for k in e['keys'])}], written := {wr[e['written']]} }}"
        )
    lines.append(",\n".join(rows))
    lines.append("]")
    lines.append("")
    lines.append("/-- the memoised functions only: (file, name, key parameters) -/")
    lines.append("def memos : List (String × String × List String) :=")
    lines.append("  (entries.filter (fun e => e.kind == .memo)).map (fun e => (e.file, e.name, e.keys))")
    lines.append("")
    lines.append("/-- informational (not part of any obligation: transparency holds for every bound): `maxsize` per memo, 0 = unbounded -/")
    sizes = ", ".join(f"({lean_str(e['name'])}, {e['maxsize']})" for e in ents if e["kind"] == "memo")
    lines.append(f"def memoSizes : List (String × Nat) := [{sizes}]")
    lines.append("")
    lines.append("end LiquidVerif.Gen.SharedState")
    return {"SharedState.lean": "\n".join(lines) + "\n"}


if __name__ == "__main__":
    import sys

    for e in inventory(Path(sys.argv[1] if len(sys.argv) > 1 else "/repo")):
        print(e)
