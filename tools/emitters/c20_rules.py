"""C20 emitter: the rule tables of the expression lexer and of the liquid-tag line scanner.

Regenerates lean/LiquidVerif/Gen/C20Tables.lean from the *live* code of the repo under test (a child
interpreter imports `liquid` from that tree; checked) and from its AST:

* `_rules` of liquid/builtin/expressions/_tokenize.py: (name, pattern) in order;
* `_keywords` (sorted);
* `operators[v]` for every string v the OP rule `[!=<>]{1,2}` can match ("" when absent);
* the compiled rule patterns of `LiquidTag` for an environment without comment marker and for one whose
  marker is the placeholder `MARK`;
* the source text of the expression that derives the marker from `env.comment_start_string`;
* the arguments `LiquidTag.parse` passes to its line tokenizer (the text must be the expression token's own text).
Fails closed: anything unexpected raises.
"""
from __future__ import annotations

import ast
import json
import os
import subprocess
import sys
from pathlib import Path

_DUMP = r"""
import json, sys, os, itertools
import liquid
root = os.path.realpath(sys.argv[1])
if not os.path.realpath(liquid.__file__).startswith(root + os.sep):
    raise SystemExit("liquid imported from %s, not from %s" % (liquid.__file__, root))
from liquid.builtin.expressions import _tokenize as T
from liquid.token import operators
from liquid import Environment
rules = [[n, p] for n, p in T._rules]
ops = []
for n in (1, 2):
    for v in itertools.product("!=<>", repeat=n):
        v = "".join(v)
        ops.append([v, operators.get(v, "")])
def lt(env):
    return env.tags["liquid"]._tokenize.keywords["rules"].pattern
print(json.dumps({
    "rules": rules, "keywords": sorted(T._keywords), "ops": ops, "flags": int(T._RE.flags),
    "liquid_default": lt(Environment()),
    "liquid_marker": lt(Environment(template_comments=True, comment_start_string="{MARK", comment_end_string="KRAM}")),
    "liquid_marker_punct": lt(Environment(template_comments=True, comment_start_string="{MARK@", comment_end_string="@KRAM}")),
}))
"""


def lean_str(s: str) -> str:
    out = []
    for ch in s:
        if ch == '"' or ch == "\\":
            out.append("\\" + ch)
        elif 32 <= ord(ch) < 127:
            out.append(ch)
        else:
            out.append("\\u{%x}" % ord(ch))
    return '"' + "".join(out) + '"'


def live(repo: Path) -> dict:
    env = dict(os.environ)
    env["PYTHONPATH"] = str(repo)
    env["PYTHONDONTWRITEBYTECODE"] = "1"
    p = subprocess.run([sys.executable, "-c", _DUMP, str(repo)], capture_output=True, text=True, env=env, cwd="/")
    if p.returncode != 0:
        raise RuntimeError("cannot read the live lexer rules: " + (p.stderr or p.stdout)[-400:])
    return json.loads(p.stdout)


def marker_expr(repo: Path) -> str:
    tree = ast.parse((repo / "liquid/builtin/tags/liquid_tag.py").read_text())
    for cls in tree.body:
        if isinstance(cls, ast.ClassDef) and cls.name == "LiquidTag":
            for fn in cls.body:
                if isinstance(fn, ast.FunctionDef) and fn.name == "__init__":
                    for st in fn.body:
                        if isinstance(st, ast.Assign) and len(st.targets) == 1 and isinstance(st.targets[0], ast.Name) and st.targets[0].id == "comment_start_string":
                            return ast.unparse(st.value)
    raise RuntimeError("LiquidTag.__init__: assignment of comment_start_string not found")


def tokenize_call_args(repo: Path) -> list:
    """The arguments of the `self._tokenize(...)` call in LiquidTag.parse, as source text."""
    tree = ast.parse((repo / "liquid/builtin/tags/liquid_tag.py").read_text())
    for cls in tree.body:
        if isinstance(cls, ast.ClassDef) and cls.name == "LiquidTag":
            for fn in cls.body:
                if isinstance(fn, ast.FunctionDef) and fn.name == "parse":
                    calls = [n for n in ast.walk(fn) if isinstance(n, ast.Call) and ast.unparse(n.func) == "self._tokenize"]
                    if len(calls) != 1:
                        raise RuntimeError("LiquidTag.parse: expected exactly one self._tokenize(...) call")
                    c = calls[0]
                    return [ast.unparse(a) for a in c.args] + [f"{k.arg}={ast.unparse(k.value)}" for k in c.keywords]
    raise RuntimeError("LiquidTag.parse not found")


def emit(repo: Path) -> dict:
    repo = Path(repo)
    t = live(repo)
    if t["flags"] & 16 == 0:
        raise RuntimeError("_RE is not compiled with re.DOTALL")
    L = ["/-! Rule tables of `_tokenize.py` and `liquid_tag.py` of the tree under test. -/", "namespace LiquidVerif.Gen.C20", ""]
    L.append("def exprRules : List (String × String) := [")
    L.append(",\n".join(f"  ({lean_str(n)}, {lean_str(p)})" for n, p in t["rules"]))
    L.append("]\n")
    L.append("def exprKeywords : List String := [" + ", ".join(lean_str(k) for k in t["keywords"]) + "]\n")
    L.append("def opTable : List (String × String) := [" + ", ".join(f"({lean_str(v)}, {lean_str(k)})" for v, k in t["ops"]) + "]\n")
    L.append(f"def liquidRulesDefault : String := {lean_str(t['liquid_default'])}\n")
    L.append(f"def liquidRulesMarker : String := {lean_str(t['liquid_marker'])}\n")
    L.append(f"def liquidRulesMarkerPunct : String := {lean_str(t['liquid_marker_punct'])}\n")
    L.append(f"def liquidMarkerExpr : String := {lean_str(marker_expr(repo))}\n")
    L.append("def liquidTokenizeArgs : List String := [" + ", ".join(lean_str(a) for a in tokenize_call_args(repo)) + "]\n")
    L.append("end LiquidVerif.Gen.C20")
    return {"C20Tables.lean": "\n".join(L) + "\n"}


if __name__ == "__main__":
    print(emit(Path(sys.argv[1] if len(sys.argv) > 1 else "/repo"))["C20Tables.lean"])
