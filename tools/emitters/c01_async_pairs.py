"""C01 translator: every sync/async method pair of liquid/ as Lean `Tree` terms + erase-equality obligations.

For every class body / module body under <repo>/liquid that defines both `f` and `f_async`:
  * both definitions are normalised *identically* (docstrings, annotations, type comments dropped; nothing else)
    and written as preorder `(label, arity)` lists;
  * if the Lean function `erase` maps both to the same tree the pair gets
        theorem pK_erase_equal : eraseEq pK_async pK_sync = true := by decide +kernel
  * otherwise it is a *residual*: listed with a digest of both normalised trees (pinned in Props/C01.lean) and,
    when the async half is a pure delegation `return self.f(args…)`, with a kernel-checked shape obligation.
It also resolves every pair through the real MRO of every class in the package and lists the classes whose sync
and async halves come from different classes (pinned as well).
The translator fails closed: anything it does not understand becomes a residual or a changed pinned list.
"""
from __future__ import annotations

import ast
import hashlib
import json
from pathlib import Path


def strip(s: str) -> str:
    return s[:-6] if s.endswith("_async") else s


def lean_str(s: str) -> str:
    out = []
    for ch in s:
        if ch == "\\":
            out.append("\\\\")
        elif ch == '"':
            out.append('\\"')
        elif ch == "\n":
            out.append("\\n")
        elif ch == "\t":
            out.append("\\t")
        elif ch == "\r":
            out.append("\\r")
        elif ord(ch) < 32 or ord(ch) == 127:
            out.append("\\x%02x" % ord(ch))
        else:
            out.append(ch)
    return '"' + "".join(out) + '"'


IDENT_FIELDS = {("Name", "id"), ("Attribute", "attr"), ("FunctionDef", "name"), ("AsyncFunctionDef", "name"), ("keyword", "arg"), ("arg", "arg")}
DROP_FIELDS = {"ctx", "type_comment", "type_params", "returns", "annotation", "lineno", "col_offset", "end_lineno", "end_col_offset", "kind"}


def encode(node, out: list):
    """Python AST -> preorder (label, arity) tokens. arity -1 = await, -2 = identifier."""
    if isinstance(node, ast.Await):
        out.append(("await", -1))
        encode(node.value, out)
        return
    if isinstance(node, list):
        out.append(("list", len(node)))
        for n in node:
            encode(n, out)
        return
    if node is None:
        out.append(("none", 0))
        return
    if isinstance(node, ast.Constant):
        out.append(("const:" + repr(node.value), 0))
        return
    if isinstance(node, ast.comprehension):
        kids = [node.target, node.iter, node.ifs]
        out.append(("async_comprehension" if node.is_async else "comprehension", len(kids)))
        for k in kids:
            encode(k, out)
        return
    if isinstance(node, ast.AST):
        cname = type(node).__name__
        kids = []
        for f in node._fields:
            if f in DROP_FIELDS:
                continue
            v = getattr(node, f, None)
            if (cname, f) in IDENT_FIELDS:
                kids.append(("ident", v))
            else:
                kids.append(("node", v))
        out.append((cname, len(kids)))
        for kind, v in kids:
            if kind == "ident":
                if v is None:
                    out.append(("none", 0))
                else:
                    out.append((v, -2))
            else:
                encode(v, out)
        return
    # plain python value in a field (str / int / bool)
    out.append(("val:" + repr(node), 0))


def clean(fn):
    """Neutral normalisation applied to both halves: drop the docstring. (Annotations are dropped by `encode`.)"""
    body = list(fn.body)
    if body and isinstance(body[0], ast.Expr) and isinstance(getattr(body[0], "value", None), ast.Constant) and isinstance(body[0].value.value, str):
        body = body[1:] or [ast.Pass()]
    new = type(fn)(**{f: getattr(fn, f) for f in fn._fields if hasattr(fn, f)})
    new.body = body
    return new


# ---- a Python mirror of the Lean `erase` (only to *classify*; the kernel re-decides every obligation) ----
KIND = {"AsyncFunctionDef": "FunctionDef", "AsyncWith": "With", "AsyncFor": "For", "async_comprehension": "comprehension"}


def erase_tokens(toks):
    out = []
    for lbl, ar in toks:
        if ar == -1:
            continue
        if ar == -2:
            out.append((strip(lbl), ar))
        else:
            out.append((KIND.get(lbl, lbl), ar))
    return out


def unawaited_calls(fn) -> list:
    """Python mirror of the Lean `unawaited` (classification only): calls of *_async names that are not awaited."""
    awaited = {id(n.value) for n in ast.walk(fn) if isinstance(n, ast.Await)}
    out = []
    for n in ast.walk(fn):
        if isinstance(n, ast.Call) and id(n) not in awaited:
            f = n.func
            name = f.attr if isinstance(f, ast.Attribute) else f.id if isinstance(f, ast.Name) else ""
            if name.endswith("_async"):
                out.append(name)
    return out


def toks_lean(toks) -> str:
    return "[" + ", ".join(f"({lean_str(l)}, {a})" for l, a in toks) + "]"


def is_delegation(fn_async, sync_name: str) -> bool:
    body = clean(fn_async).body
    if len(body) != 1:
        return False
    st = body[0]
    val = st.value if isinstance(st, (ast.Return, ast.Expr)) else None
    if isinstance(val, ast.Await):
        return False
    if not isinstance(val, ast.Call):
        return False
    f = val.func
    return isinstance(f, ast.Attribute) and isinstance(f.value, ast.Name) and f.value.id == "self" and f.attr == sync_name


def collect_pairs(repo: Path):
    root = repo / "liquid"
    pairs, async_only = [], []
    for p in sorted(root.rglob("*.py")):
        tree = ast.parse(p.read_text())
        scopes = [("", tree.body)] + [(c.name, c.body) for c in ast.walk(tree) if isinstance(c, ast.ClassDef)]
        for cname, body in scopes:
            fns = {f.name: f for f in body if isinstance(f, (ast.FunctionDef, ast.AsyncFunctionDef))}
            for name, f in sorted(fns.items()):
                if not name.endswith("_async"):
                    continue
                if name[:-6] in fns:
                    pairs.append((str(p.relative_to(repo)), cname, name[:-6], fns[name[:-6]], f))
                elif cname:
                    async_only.append(f"{p.relative_to(repo)}:{cname}.{name}")
    return pairs, async_only


def mro_mismatches(repo: Path):
    """Classes (by runtime MRO) whose `f` and `f_async` resolve to different classes, unless the async half is the
    base-class delegating default or the sync half is inherited together with it."""
    import importlib
    import inspect
    import pkgutil
    import sys

    sys.path.insert(0, str(repo))
    for m in [m for m in sys.modules if m == "liquid" or m.startswith("liquid.")]:
        del sys.modules[m]
    import liquid  # noqa

    out = []
    seen = set()
    for mi in pkgutil.walk_packages(liquid.__path__, "liquid."):
        try:
            mod = importlib.import_module(mi.name)
        except Exception as e:  # fail closed: report
            out.append(f"IMPORT-ERROR {mi.name}: {type(e).__name__}")
            continue
        for _, cls in inspect.getmembers(mod, inspect.isclass):
            if not cls.__module__.startswith("liquid") or cls in seen:
                continue
            seen.add(cls)
            names = set()
            for k in cls.__mro__:
                names |= {n for n in vars(k) if n.endswith("_async")}
            for an in sorted(names):
                sn = an[:-6]
                owner_a = next((k for k in cls.__mro__ if an in vars(k)), None)
                owner_s = next((k for k in cls.__mro__ if sn in vars(k)), None)
                if owner_a is None or owner_s is None:
                    if owner_s is None and owner_a is not None:
                        out.append(f"{cls.__module__}.{cls.__qualname__}: {an} has no sync twin")
                    continue
                if owner_a is owner_s:
                    continue
                # async inherited from further up than sync: fine only when that async default delegates to self.<sync>
                fn = vars(owner_a)[an]
                fn = getattr(fn, "__func__", fn)
                try:
                    src = inspect.getsource(fn)
                    import textwrap

                    t = ast.parse(textwrap.dedent(src)).body[0]
                    deleg = is_delegation(t, sn)
                except Exception:
                    deleg = False
                a_idx = cls.__mro__.index(owner_a)
                s_idx = cls.__mro__.index(owner_s)
                if deleg and a_idx > s_idx:
                    continue
                out.append(f"{cls.__module__}.{cls.__qualname__}: {sn} from {owner_s.__qualname__}, {an} from {owner_a.__qualname__}")
    return sorted(set(out))


def emit(repo: Path) -> dict:
    pairs, async_only = collect_pairs(repo)
    L = []
    L.append("import LiquidVerif.Meta.Erase")
    L.append("set_option maxRecDepth 100000")
    L.append("namespace LiquidVerif.Gen.AsyncPairs")
    L.append("open LiquidVerif.Erase\n")
    equal_names, residuals, delegations, side, unawaited_pairs = [], [], [], [], []
    for i, (path, cname, name, fs, fa) in enumerate(pairs):
        qual = f"{path}:{cname + '.' if cname else ''}{name}"
        ta, ts = [], []
        encode(clean(fa), ta)
        encode(clean(fs), ts)
        eq = erase_tokens(ta) == erase_tokens(ts)
        L.append(f"-- {qual}")
        L.append(f"def p{i}_async : List (String × Int) := {toks_lean(ta)}")
        L.append(f"def p{i}_sync : List (String × Int) := {toks_lean(ts)}")
        ua = unawaited_calls(fa)
        if ua:
            unawaited_pairs.append(qual)
        else:
            L.append(f"theorem p{i}_awaited : unawaited (decode p{i}_async) = false := by decide +kernel")
        if eq:
            L.append(f"theorem p{i}_erase_equal : eraseEq p{i}_async p{i}_sync = true := by decide +kernel")
            equal_names.append(qual)
        else:
            dg = hashlib.sha256((repr(erase_tokens(ta)) + "|" + repr(erase_tokens(ts))).encode()).hexdigest()[:16]
            residuals.append((qual, dg))
            if is_delegation(fa, name):
                delegations.append(qual)
                L.append(f"theorem p{i}_delegates : isDelegation (decode p{i}_async) {lean_str(name)} = true := by decide +kernel")
        L.append("")
        side.append({"pair": qual, "erase_equal": eq, "async_nodes": len(ta), "sync_nodes": len(ts)})
    L.append("/-- pairs whose erasures are equal (each has a kernel-checked obligation above) -/")
    L.append("def eraseEqualPairs : List String := [" + ", ".join(lean_str(n) for n in equal_names) + "]\n")
    L.append("/-- pairs whose erasures differ, with a digest of both erased trees -/")
    L.append("def residuals : List (String × String) := [" + ", ".join(f"({lean_str(n)}, {lean_str(d)})" for n, d in residuals) + "]\n")
    L.append("def delegations : List String := [" + ", ".join(lean_str(n) for n in delegations) + "]\n")
    L.append("/-- async halves that call a `*_async` name without awaiting it on the spot -/")
    L.append("def unawaitedPairs : List String := [" + ", ".join(lean_str(n) for n in unawaited_pairs) + "]\n")
    L.append("/-- `*_async` methods of a class with no synchronous twin in the same class body -/")
    L.append("def asyncOnly : List String := [" + ", ".join(lean_str(n) for n in async_only) + "]\n")
    mm = mro_mismatches(repo)
    L.append("/-- classes whose sync and async halves resolve (by MRO) to different classes, non-delegating -/")
    L.append("def mroMismatches : List String := [" + ", ".join(lean_str(n) for n in mm) + "]\n")
    L.append("end LiquidVerif.Gen.AsyncPairs")
    sidecar = {"pairs": side, "residuals": residuals, "delegations": delegations, "async_only": async_only, "unawaited": unawaited_pairs, "mro_mismatches": mm}
    return {"AsyncPairs.lean": "\n".join(L) + "\n", "async_pairs.json": json.dumps(sidecar, indent=1) + "\n"}
