"""C19 emitter: what a node's render touches versus what its analysis interface yields.

For every `Node` subclass defined under liquid/ (found with Python `ast`, no import of liquid) it computes

* `evaluated` — attributes `self.X` that `render_to_output` / `render_to_output_async` (and the methods of the
  class they call through `self.m(...)`, transitively) evaluate: `self.X.evaluate(…)`, `self.X.evaluate_async(…)`,
  or a loop / comprehension over `self.X` (also `.items()`, `.values()`) whose body calls `.evaluate(_async)`;
* `rendered` — attributes rendered: `self.X.render(…)`, `self.X.render_async(…)`, or a loop / comprehension over
  `self.X` whose body calls `.render(_async)`;
* `yielded` — attributes mentioned in `expressions()`;
* `children` — attributes mentioned in `children()` / `children_async()`.

Methods are looked up through the class's bases (among the scanned classes).  The Lean file holds the table;
`LiquidVerif.C19.exprs_covered` decides `evaluated ⊆ yielded ∪ children ∧ rendered ⊆ children ∧ unattributed = []` for every row, so dropping an
expression from `expressions()` (or a block from `children()`) breaks the build.  Fails closed: a `render_to_output`
that evaluates something the patterns cannot attribute to an attribute (`<expr>.evaluate(` on a name that is neither
`self.X` nor a loop variable over `self.X` nor a local bound from such a value) is listed in `unattributed` and must
be covered by an explicit, justified waiver below.
"""
from __future__ import annotations

import ast
import sys
from pathlib import Path

EVAL = {"evaluate", "evaluate_async"}
REND = {"render", "render_async"}

# (class, method-local description) -> reason.  Evaluations that do not go through an attribute of the node.
WAIVERS = {
    ("CallNode", "macro-args"): "call evaluates the expressions bound by macro_args(): its own args/kwargs (yielded) and the "
    "macro's parameter defaults, which MacroNode.expressions() yields at the definition site",
    ("BlockNode@extends_tag", "inheritance"): "the block tag renders the most-derived block taken from the extends stack "
    "(template inheritance is outside C19's quantifier; C18 covers it)",
}


def lean_str(s: str) -> str:
    return '"' + s.replace("\\", "\\\\").replace('"', '\\"') + '"'


def self_attr(node):
    """`self.X`, `self.X.items()`, `self.X.values()`, `self.X[...]` -> X"""
    while True:
        if isinstance(node, ast.Call) and isinstance(node.func, ast.Attribute) and node.func.attr in ("items", "values", "keys"):
            node = node.func.value
            continue
        if isinstance(node, ast.Subscript):
            node = node.value
            continue
        break
    if isinstance(node, ast.Attribute) and isinstance(node.value, ast.Name) and node.value.id == "self":
        return node.attr
    return None


def root_name(node):
    while isinstance(node, (ast.Attribute, ast.Subscript, ast.Call)):
        node = node.func if isinstance(node, ast.Call) else node.value
    return node.id if isinstance(node, ast.Name) else None


def target_names(t):
    return [n.id for n in ast.walk(t) if isinstance(n, ast.Name)]


class MethodScan(ast.NodeVisitor):
    """Collect evaluated / rendered attributes of one method body."""

    def __init__(self):
        self.env = {}  # local name -> attribute it ranges over / was read from
        self.evaluated = set()
        self.rendered = set()
        self.unattributed = set()
        self.calls = set()  # self.m(...) helper calls

    def bind(self, target, value):
        a = self_attr(value)
        if a is None:
            r = root_name(value)
            a = self.env.get(r) if r else None
        if a is not None:
            for n in target_names(target):
                self.env[n] = a

    def visit_For(self, node):
        self.bind(node.target, node.iter)
        self.generic_visit(node)

    visit_AsyncFor = visit_For

    def visit_comprehension(self, node):
        self.bind(node.target, node.iter)
        self.generic_visit(node)

    def _comp(self, node):
        for g in node.generators:
            self.visit_comprehension(g)
        for f in ("elt", "key", "value"):
            if hasattr(node, f):
                self.visit(getattr(node, f))

    visit_ListComp = visit_SetComp = visit_GeneratorExp = visit_DictComp = _comp

    def visit_Assign(self, node):
        for t in node.targets:
            self.bind(t, node.value)
        self.generic_visit(node)

    def visit_Call(self, node):
        f = node.func
        if isinstance(f, ast.Attribute):
            if isinstance(f.value, ast.Name) and f.value.id == "self":
                self.calls.add(f.attr)
            if f.attr in EVAL or f.attr in REND:
                a = self_attr(f.value)
                if a is None:
                    r = root_name(f.value)
                    if r == "self":
                        inner = f.value
                        while isinstance(inner, (ast.Attribute, ast.Subscript)) and not (
                            isinstance(inner.value, ast.Name) and inner.value.id == "self"
                        ):
                            inner = inner.value
                        a = inner.attr if isinstance(inner, ast.Attribute) else None
                    else:
                        a = self.env.get(r) if r else None
                if a is None:
                    self.unattributed.add((f.attr, ast.unparse(f.value)[:40]))
                elif f.attr in EVAL:
                    self.evaluated.add(a)
                else:
                    self.rendered.add(a)
        self.generic_visit(node)


def scan_classes(repo: Path):
    classes = {}
    for path in sorted((repo / "liquid").rglob("*.py")):
        try:
            tree = ast.parse(path.read_text())
        except SyntaxError as e:
            raise RuntimeError(f"cannot parse {path}: {e}")
        for node in tree.body:
            if isinstance(node, ast.ClassDef):
                bases = []
                for b in node.bases:
                    if isinstance(b, ast.Name):
                        bases.append(b.id)
                    elif isinstance(b, ast.Attribute):
                        bases.append(b.attr)
                methods = {m.name: m for m in node.body if isinstance(m, (ast.FunctionDef, ast.AsyncFunctionDef))}
                key = node.name
                if key in classes:
                    key = node.name + "@" + path.stem
                classes[key] = {"name": node.name, "bases": bases, "methods": methods, "file": str(path.relative_to(repo))}
    return classes


def is_node(classes, key, seen=()):
    c = classes[key]
    if c["name"] == "Node" and c["file"].endswith("ast.py"):
        return True
    for b in c["bases"]:
        for k, v in classes.items():
            if v["name"] == b and k not in seen and k != key:
                if is_node(classes, k, seen + (key,)):
                    return True
    return False


def find_method(classes, key, name, seen=()):
    c = classes[key]
    if name in c["methods"]:
        return c["methods"][name]
    for b in c["bases"]:
        for k, v in classes.items():
            if v["name"] == b and k not in seen and k != key:
                m = find_method(classes, k, name, seen + (key,))
                if m is not None:
                    return m
    return None


def attrs_mentioned(fn):
    out = set()
    if fn is None:
        return out
    for n in ast.walk(fn):
        a = self_attr(n) if isinstance(n, ast.Attribute) else None
        if a:
            out.add(a)
    return out


def analyse(classes, key):
    evaluated, rendered, unattributed = set(), set(), set()
    todo = ["render_to_output", "render_to_output_async"]
    done = set()
    while todo:
        m = todo.pop()
        if m in done:
            continue
        done.add(m)
        fn = find_method(classes, key, m)
        if fn is None:
            continue
        sc = MethodScan()
        sc.visit(fn)
        evaluated |= sc.evaluated
        rendered |= sc.rendered
        unattributed |= {(m,) + u for u in sc.unattributed}
        todo.extend(c for c in sc.calls if c not in ("render", "render_async", "render_to_output", "render_to_output_async"))
    yielded = attrs_mentioned(find_method(classes, key, "expressions"))
    children = attrs_mentioned(find_method(classes, key, "children")) | attrs_mentioned(find_method(classes, key, "children_async"))
    return evaluated, rendered, yielded, children, unattributed


def emit(repo: Path) -> dict:
    classes = scan_classes(Path(repo))
    rows = []
    for key in sorted(classes):
        if not is_node(classes, key) or classes[key]["name"] == "Node":
            continue
        ev, rd, yl, ch, un = analyse(classes, key)
        waived = []
        left = []
        labels = [w for (c, w) in WAIVERS if c == key]
        for u in sorted(un):
            if labels:
                waived.extend(labels)
            else:
                left.append(":".join(u))
        rows.append((key, classes[key]["file"], sorted(ev), sorted(rd), sorted(yl), sorted(ch), sorted(set(waived)), left))
    if len(rows) < 20:
        raise RuntimeError(f"only {len(rows)} Node subclasses found")

    def lst(xs):
        return "[" + ", ".join(lean_str(x) for x in xs) + "]"

    lines = [
        "/-! For every `Node` subclass: attributes its render evaluates / renders, attributes `expressions()` /",
        "`children()` mention, evaluations the emitter could not attribute to an attribute (must be empty). -/",
        "namespace LiquidVerif.Gen.C19",
        "",
        "structure NodeRow where",
        "  cls : String",
        "  evaluated : List String",
        "  rendered : List String",
        "  yielded : List String",
        "  children : List String",
        "  unattributed : List String",
        "deriving Repr",
        "",
        "def nodeRows : List NodeRow := [",
    ]
    body = []
    for key, file, ev, rd, yl, ch, waived, left in rows:
        body.append(f"  ⟨{lean_str(key)}, {lst(ev)}, {lst(rd)}, {lst(yl)}, {lst(ch)}, {lst(left)}⟩")
    lines.append(",\n".join(body))
    lines.append("]")
    lines.append("")
    lines.append("/-- Waivers (class, what, why) applied by the emitter. -/")
    lines.append("def waivers : List (String × String × String) := [")
    lines.append(",\n".join(f"  ({lean_str(c)}, {lean_str(w)}, {lean_str(r)})" for (c, w), r in sorted(WAIVERS.items())))
    lines.append("]")
    lines.append("")
    lines.append("end LiquidVerif.Gen.C19")
    return {"NodeExprCoverage.lean": "\n".join(lines) + "\n"}


if __name__ == "__main__":
    print(emit(Path(sys.argv[1] if len(sys.argv) > 1 else "/repo"))["NodeExprCoverage.lean"])
