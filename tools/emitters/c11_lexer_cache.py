"""C11 emitter: what the process-wide caches of the lexer / parser / implicit environment are keyed on,
and how the delimiter strings flow into the lexer's regular expression.

Regenerates lean/LiquidVerif/Gen/C11Tables.lean from the AST of liquid/lex.py, liquid/parser.py,
liquid/environment.py of the tree under test, plus the *live* pattern that `compile_liquid_rules`
builds for placeholder delimiters (a child interpreter imports `liquid` from that tree; checked).
Fails closed: anything unexpected raises.
"""
from __future__ import annotations

import ast
import json
import os
import subprocess
import sys
from pathlib import Path

_DUMP = r"""
import json, sys, os, re
import liquid
root = os.path.realpath(sys.argv[1])
if not os.path.realpath(liquid.__file__).startswith(root + os.sep):
    raise SystemExit("liquid imported from %s, not from %s" % (liquid.__file__, root))
from liquid.lex import compile_liquid_rules
ph = ["Ts0", "Te0", "Ss0", "Se0", "Cs0", "Ce0"]
p_nc = compile_liquid_rules(*ph[:4], "", "")
p_c = compile_liquid_rules(*ph)
ok = True
for meta in (["(", ")", "[[", "]]", "{#", "#}"], [".*", "+?", "^$", "\\", "|a", "a|"], ["{%", "%}", "{{", "}}", "", ""], ["<%", "%>", "${", "}", "<!--", "-->"]):
    got = compile_liquid_rules(*meta).pattern
    base = p_c.pattern if meta[4] else p_nc.pattern
    exp = base
    for name, m in zip(ph, meta):
        exp = exp.replace(name, re.escape(m))
    ok = ok and got == exp
print(json.dumps({"nc": p_nc.pattern, "c": p_c.pattern, "flags": int(p_c.flags), "escape_ok": ok}))
"""


def lean_str(s: str) -> str:
    out = []
    for ch in s:
        if ch == '"' or ch == "\\":
            out.append("\\" + ch)
        elif 32 <= ord(ch) < 127:
            out.append(ch)
        else:
            out.append("\\u{%x}" % ord(ch))
    return '"' + "".join(out) + '"'


def lst(xs) -> str:
    return "[" + ", ".join(lean_str(x) for x in xs) + "]"


def pairs(xs) -> str:
    return "[" + ", ".join(f"({lean_str(a)}, {lean_str(b)})" for a, b in xs) + "]"


def live(repo: Path) -> dict:
    env = dict(os.environ)
    env["PYTHONPATH"] = str(repo)
    env["PYTHONDONTWRITEBYTECODE"] = "1"
    p = subprocess.run([sys.executable, "-c", _DUMP, str(repo)], capture_output=True, text=True, env=env, cwd="/")
    if p.returncode != 0:
        raise RuntimeError("cannot read the live lexer pattern: " + (p.stderr or p.stdout)[-400:])
    return json.loads(p.stdout)


def func(tree, name, cls=None):
    body = tree.body
    if cls:
        for n in body:
            if isinstance(n, ast.ClassDef) and n.name == cls:
                body = n.body
                break
        else:
            raise RuntimeError(f"class {cls} not found")
    for n in body:
        if isinstance(n, (ast.FunctionDef, ast.AsyncFunctionDef)) and n.name == name:
            return n
    raise RuntimeError(f"function {name} not found")


def params(fn):
    a = fn.args
    return [x.arg for x in a.posonlyargs + a.args if x.arg != "self"], [x.arg for x in a.kwonlyargs]


def cache_deco(fn):
    """("lru_cache", maxsize) when decorated with functools.lru_cache(maxsize=N), else None."""
    for d in fn.decorator_list:
        f = d.func if isinstance(d, ast.Call) else d
        nm = f.attr if isinstance(f, ast.Attribute) else getattr(f, "id", "")
        if nm == "lru_cache":
            size = 128
            if isinstance(d, ast.Call):
                for kw in d.keywords:
                    if kw.arg == "maxsize":
                        size = ast.literal_eval(kw.value)
                if d.args:
                    size = ast.literal_eval(d.args[0])
            return size
    return None


def call_args(call):
    out = [ast.unparse(a) for a in call.args]
    out += [f"{kw.arg}={ast.unparse(kw.value)}" for kw in call.keywords]
    return out


def find_call(fn, callee):
    for n in ast.walk(fn):
        if isinstance(n, ast.Call):
            f = n.func
            nm = f.attr if isinstance(f, ast.Attribute) else getattr(f, "id", "")
            if nm == callee:
                return n
    raise RuntimeError(f"no call of {callee} in {fn.name}")


def emit(repo: Path) -> dict:
    repo = Path(repo)
    lex = ast.parse((repo / "liquid/lex.py").read_text())
    par = ast.parse((repo / "liquid/parser.py").read_text())
    envm = ast.parse((repo / "liquid/environment.py").read_text())

    get_lexer = func(lex, "get_lexer")
    comp = func(lex, "compile_liquid_rules")
    gl_params = params(get_lexer)[0]
    gl_size = cache_deco(get_lexer)
    gl_passed = call_args(find_call(get_lexer, "compile_liquid_rules"))
    comp_params = params(comp)[0]

    escapes, escaped_nodes = [], set()
    for n in ast.walk(comp):
        if isinstance(n, ast.Assign) and isinstance(n.value, ast.Call) and ast.unparse(n.value.func) == "re.escape":
            if len(n.targets) != 1 or not isinstance(n.targets[0], ast.Name) or len(n.value.args) != 1 or not isinstance(n.value.args[0], ast.Name):
                raise RuntimeError("unexpected re.escape assignment: " + ast.unparse(n))
            escapes.append((n.targets[0].id, n.value.args[0].id))
            escaped_nodes.add(id(n.value.args[0]))
    pattern_vars = sorted({x.id for n in ast.walk(comp) if isinstance(n, ast.FormattedValue) for x in ast.walk(n.value) if isinstance(x, ast.Name)})
    fmt_complex = [ast.unparse(n.value) for n in ast.walk(comp) if isinstance(n, ast.FormattedValue) and not isinstance(n.value, ast.Name)]
    raw_uses = sorted({n.id for n in ast.walk(comp) if isinstance(n, ast.Name) and isinstance(n.ctx, ast.Load) and n.id in comp_params and id(n) not in escaped_nodes})
    # anything other than the local f-strings contributing to the patterns (e.g. str.format, %, +) would escape this
    # inventory: require that every string-building expression in the function is an f-string or a literal
    for n in ast.walk(comp):
        if isinstance(n, ast.BinOp) and isinstance(n.op, (ast.Mod, ast.Add)):
            raise RuntimeError("compile_liquid_rules builds strings with % or +: " + ast.unparse(n)[:80])
        if isinstance(n, ast.Call) and isinstance(n.func, ast.Attribute) and n.func.attr in ("format", "join", "replace"):
            raise RuntimeError("compile_liquid_rules builds strings with ." + n.func.attr)

    tokenizer = func(envm, "tokenizer", "Environment")
    tok_args = call_args(find_call(tokenizer, "get_lexer"))
    hash_fn = func(envm, "__hash__", "Environment")
    hash_fields = [ast.unparse(e) for n in ast.walk(hash_fn) if isinstance(n, ast.Tuple) for e in n.elts][:32]
    env_cls = next(n for n in envm.body if isinstance(n, ast.ClassDef) and n.name == "Environment")
    defines_eq = any(isinstance(n, ast.FunctionDef) and n.name == "__eq__" for n in env_cls.body)
    parse_fn = func(envm, "_parse", "Environment")
    parse_calls = sorted({ast.unparse(n) for n in ast.walk(parse_fn) if isinstance(n, ast.Call) and ast.unparse(n.func) in ("get_parser", "self.tokenizer", "get_lexer")})

    get_parser = func(par, "get_parser")
    gp_params = params(get_parser)[0]
    gp_size = cache_deco(get_parser)
    gp_ret = [ast.unparse(n.value) for n in ast.walk(get_parser) if isinstance(n, ast.Return)]
    parser_cls = next(n for n in par.body if isinstance(n, ast.ClassDef) and n.name == "Parser")
    slots = []
    for n in parser_cls.body:
        if isinstance(n, ast.Assign) and ast.unparse(n.targets[0]) == "__slots__":
            slots = list(ast.literal_eval(n.value))

    gie = func(envm, "get_implicit_environment")
    gie_pos, gie_kw = params(gie)
    gie_size = cache_deco(gie)
    ctor = find_call(gie, "Environment")
    if ctor.args:
        raise RuntimeError("get_implicit_environment passes positional arguments to Environment")
    ctor_kw = [(kw.arg, ast.unparse(kw.value)) for kw in ctor.keywords]
    init_pos, init_kw = params(func(envm, "__init__", "Environment"))
    template = func(envm, "Template")
    tcall = find_call(template, "get_implicit_environment")
    if tcall.args:
        raise RuntimeError("Template passes positional arguments to get_implicit_environment")
    template_kw = [(kw.arg, ast.unparse(kw.value)) for kw in tcall.keywords]
    t_pos, t_kw = params(template)

    lv = live(repo)
    L = ["/-! Cache keys and delimiter flow of the lexer / parser / implicit environment of the tree under test. -/", "namespace LiquidVerif.Gen.C11", ""]
    L.append(f"def getLexerParams : List String := {lst(gl_params)}")
    L.append(f"def getLexerCached : Bool := {'true' if gl_size is not None else 'false'}")
    L.append(f"def getLexerMaxsize : Nat := {gl_size or 0}")
    L.append(f"def getLexerPassed : List String := {lst(gl_passed)}")
    L.append(f"def compileParams : List String := {lst(comp_params)}")
    L.append(f"def escapeAssigns : List (String × String) := {pairs(escapes)}")
    L.append(f"def patternVars : List String := {lst(pattern_vars)}")
    L.append(f"def patternComplexFormats : List String := {lst(fmt_complex)}")
    L.append(f"def rawParamUses : List String := {lst(raw_uses)}")
    L.append(f"def tokenizerArgs : List String := {lst(tok_args)}")
    L.append(f"def envHashFields : List String := {lst(hash_fields)}")
    L.append(f"def envDefinesEq : Bool := {'true' if defines_eq else 'false'}")
    L.append(f"def envParseCalls : List String := {lst(parse_calls)}")
    L.append(f"def getParserParams : List String := {lst(gp_params)}")
    L.append(f"def getParserCached : Bool := {'true' if gp_size is not None else 'false'}")
    L.append(f"def getParserMaxsize : Nat := {gp_size or 0}")
    L.append(f"def getParserReturns : List String := {lst(gp_ret)}")
    L.append(f"def parserSlots : List String := {lst(slots)}")
    L.append(f"def implicitPositional : List String := {lst(gie_pos)}")
    L.append(f"def implicitParams : List String := {lst(gie_kw)}")
    L.append(f"def implicitCached : Bool := {'true' if gie_size is not None else 'false'}")
    L.append(f"def implicitMaxsize : Nat := {gie_size or 0}")
    L.append(f"def implicitCtorKw : List (String × String) := {pairs(ctor_kw)}")
    L.append(f"def envInitPositional : List String := {lst(init_pos)}")
    L.append(f"def envInitParams : List String := {lst(init_kw)}")
    L.append(f"def templateKw : List (String × String) := {pairs(template_kw)}")
    L.append(f"def templateParams : List String := {lst(t_kw)}")
    L.append(f"def lexPatternNoComments : String := {lean_str(lv['nc'])}")
    L.append(f"def lexPatternComments : String := {lean_str(lv['c'])}")
    L.append(f"def lexPatternDotAll : Bool := {'true' if lv['flags'] & 16 else 'false'}")
    L.append(f"def escapeDynamicOk : Bool := {'true' if lv['escape_ok'] else 'false'}")
    L.append("")
    L.append("end LiquidVerif.Gen.C11")
    return {"C11Tables.lean": "\n".join(L) + "\n"}


if __name__ == "__main__":
    print(emit(Path(sys.argv[1] if len(sys.argv) > 1 else "/repo"))["C11Tables.lean"])
